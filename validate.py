#!/opt/veriftools/pyvenv/bin/python
import json, sys, glob, jsonschema
jsonschema.validate(json.load(open('/verif/MANIFEST.json')), json.load(open('/root/.vp/MANIFEST.schema.json')))
s = json.load(open('/root/.vp/EVIDENCE.schema.json'))
for f in sorted(glob.glob('/verif/evidence/*.json')):
    jsonschema.validate(json.load(open(f)), s)
print('valid')
