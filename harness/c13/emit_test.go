package c13

import (
	"fmt"
	"math/big"
	"strings"

	"verif/ir"
	"verif/ref"
)

// emitter is the harness's own JSON writer for Cedar values, entities, entity maps and requests, written from the Cedar JSON format
// documentation. It shares no code with cedar-go's encoders. All variation (string escapes, white space, member order, alternative
// spellings) is driven by the replayable choice list `seq`, so a case is reproducible from its JSON form.
type emitter struct {
	seq []int
	i   int
	// spelling switches
	uidImplicit bool // entity references in *typed* positions (uid, parents, request parts) as {"type","id"}
}

func (e *emitter) n(k int) int {
	if len(e.seq) == 0 || k <= 1 {
		return 0
	}
	v := e.seq[e.i%len(e.seq)]
	e.i++
	if v < 0 {
		v = -v
	}
	return v % k
}

func (e *emitter) ws() string {
	switch e.n(8) {
	case 1:
		return " "
	case 2:
		return "\n"
	case 3:
		return "\t \r\n"
	}
	return ""
}

const hexd = "0123456789abcdefABCDEF"

func u4(x rune, upper bool) string {
	h := hexd[:16]
	if upper {
		h = "0123456789ABCDEF"
	}
	return `\u` + string([]byte{h[(x>>12)&0xf], h[(x>>8)&0xf], h[(x>>4)&0xf], h[x&0xf]})
}

func (e *emitter) str(s string) string {
	var b strings.Builder
	b.WriteByte('"')
	for _, r := range s {
		mode := e.n(4)
		esc := func() {
			if r > 0xffff {
				x := r - 0x10000
				b.WriteString(u4(0xd800+(x>>10), mode == 3))
				b.WriteString(u4(0xdc00+(x&0x3ff), mode == 3))
			} else {
				b.WriteString(u4(r, mode == 3))
			}
		}
		switch {
		case r == '"':
			if mode < 2 {
				b.WriteString(`\"`)
			} else {
				esc()
			}
		case r == '\\':
			if mode < 2 {
				b.WriteString(`\\`)
			} else {
				esc()
			}
		case r < 0x20:
			short := map[rune]string{'\b': `\b`, '\f': `\f`, '\n': `\n`, '\r': `\r`, '\t': `\t`}[r]
			if short != "" && mode < 2 {
				b.WriteString(short)
			} else {
				esc()
			}
		case r == '/':
			if mode == 1 {
				b.WriteString(`\/`)
			} else {
				b.WriteRune(r)
			}
		case r >= 0x7f:
			if mode < 2 {
				b.WriteRune(r)
			} else {
				esc()
			}
		default:
			if mode == 3 && e.n(4) == 0 {
				esc()
			} else {
				b.WriteRune(r)
			}
		}
	}
	b.WriteByte('"')
	return b.String()
}

// obj writes an object from ordered members, rotating the member order.
func (e *emitter) obj(members [][2]string) string {
	if len(members) > 1 {
		k := e.n(len(members))
		members = append(append([][2]string{}, members[k:]...), members[:k]...)
		if e.n(2) == 1 {
			for i, j := 0, len(members)-1; i < j; i, j = i+1, j-1 {
				members[i], members[j] = members[j], members[i]
			}
		}
	}
	var b strings.Builder
	b.WriteString("{" + e.ws())
	for i, m := range members {
		if i > 0 {
			b.WriteString("," + e.ws())
		}
		b.WriteString(m[0] + e.ws() + ":" + e.ws() + m[1] + e.ws())
	}
	b.WriteString("}")
	return b.String()
}

func (e *emitter) arr(elems []string) string {
	return "[" + e.ws() + strings.Join(elems, e.ws()+","+e.ws()) + e.ws() + "]"
}

func extText(v ir.Value) (fn, arg string) {
	switch v.K {
	case ir.KDecimal:
		return "decimal", ref.FormatDecimal(v.I)
	case ir.KDatetime:
		return "datetime", ref.FormatDatetime(v.I)
	case ir.KDuration:
		return "duration", ref.FormatDuration(v.I)
	case ir.KIP:
		return "ip", ref.FormatIP(v.IP.Addr, v.IP.Prefix)
	}
	return "", ""
}

// key writes a structural member name (__entity, __extn, type, id, fn, arg). A JSON string may spell any character
// with a \uXXXX escape, so now and then one character of the name is written that way: it is the same document.
func (e *emitter) key(name string) string {
	if e.n(8) != 0 {
		return `"` + name + `"`
	}
	i := e.n(len(name))
	return `"` + name[:i] + u4(rune(name[i]), e.n(2) == 1) + name[i+1:] + `"`
}

// uidExplicit / uidImplicitForm / ext forms
func (e *emitter) uidExplicit(v ir.Value) string {
	return e.obj([][2]string{{e.key("__entity"), e.obj([][2]string{{e.key("type"), e.str(v.T)}, {e.key("id"), e.str(v.S)}})}})
}

func (e *emitter) uidImplicitForm(v ir.Value) string {
	return e.obj([][2]string{{e.key("type"), e.str(v.T)}, {e.key("id"), e.str(v.S)}})
}

// typedUID: an entity reference in a position whose type is known to be an entity (uid, parents, request parts).
func (e *emitter) typedUID(v ir.Value) string {
	if e.uidImplicit || e.n(2) == 1 {
		return e.uidImplicitForm(v)
	}
	return e.uidExplicit(v)
}

// ext writes an extension value: form 0 = {"__extn":{"fn","arg"}}, 1 = {"fn","arg"}, 2 = bare string.
func (e *emitter) ext(v ir.Value, form int) string {
	fn, arg := extText(v)
	inner := e.obj([][2]string{{e.key("fn"), e.str(fn)}, {e.key("arg"), e.str(arg)}})
	switch form {
	case 1:
		return inner
	case 2:
		return e.str(arg)
	}
	return e.obj([][2]string{{e.key("__extn"), inner}})
}

// value writes a value in the explicit (self-describing) spelling accepted everywhere.
func (e *emitter) value(v ir.Value) string {
	switch v.K {
	case ir.KBool:
		if v.B {
			return "true"
		}
		return "false"
	case ir.KLong:
		return big.NewInt(v.I).String()
	case ir.KString:
		return e.str(v.S)
	case ir.KEntity:
		return e.uidExplicit(v)
	case ir.KDecimal, ir.KDatetime, ir.KDuration, ir.KIP:
		return e.ext(v, 0)
	case ir.KSet:
		es := make([]string, len(v.Elems))
		for i, x := range v.Elems {
			es[i] = e.value(x)
		}
		return e.arr(es)
	case ir.KRecord:
		return e.record(v.Fields, e.value)
	}
	panic("emit: kind " + string(v.K))
}

func (e *emitter) record(fs []ir.Field, val func(ir.Value) string) string {
	ms := make([][2]string, len(fs))
	for i, f := range fs {
		ms[i] = [2]string{e.str(f.K), val(f.V)}
	}
	return e.obj(ms)
}

// entity writes an entity; omit selects members to leave out when they are empty (bit 0 parents, 1 attrs, 2 tags);
// dupParents repeats the first parent.
func (e *emitter) entity(x ir.Entity, omit int, dupParents bool, val func(ir.Value) string) string {
	var ps []string
	for _, p := range x.Parents {
		ps = append(ps, e.typedUID(p))
	}
	if dupParents && len(x.Parents) > 0 {
		ps = append(ps, e.typedUID(x.Parents[0]))
	}
	ms := [][2]string{{`"uid"`, e.typedUID(x.UID)}}
	if !(omit&1 != 0 && len(x.Parents) == 0) {
		ms = append(ms, [2]string{`"parents"`, e.arr(ps)})
	}
	if !(omit&2 != 0 && len(x.Attrs) == 0) {
		ms = append(ms, [2]string{`"attrs"`, e.record(x.Attrs, val)})
	}
	if !(omit&4 != 0 && len(x.Tags) == 0) {
		ms = append(ms, [2]string{`"tags"`, e.record(x.Tags, val)})
	}
	return e.obj(ms)
}

func (e *emitter) store(s ir.Store, omit int, val func(ir.Value) string) string {
	es := make([]string, len(s))
	for i, x := range s {
		es[i] = e.entity(x, omit, false, val)
	}
	if len(es) > 1 {
		k := e.n(len(es))
		es = append(append([]string{}, es[k:]...), es[:k]...)
	}
	return e.arr(es)
}

func (e *emitter) request(r ir.Request) string {
	return e.obj([][2]string{{`"principal"`, e.typedUID(r.Principal)}, {`"action"`, e.typedUID(r.Action)}, {`"resource"`, e.typedUID(r.Resource)}, {`"context"`, e.record(r.Context.Fields, e.value)}})
}

// ---------------------------------------------------------------------------------------------
// schema-typed emission (implicit spellings where the type is known)

type Ty struct {
	K      string    `json:"k"`              // long | string | bool | entity | ext | set | record
	Name   string    `json:"name,omitempty"` // entity type / extension name (decimal, ipaddr, datetime, duration)
	Elem   *Ty       `json:"elem,omitempty"`
	Fields []TyField `json:"fields,omitempty"`
}

type TyField struct {
	K        string `json:"k"`
	T        Ty     `json:"t"`
	Optional bool   `json:"optional,omitempty"`
}

// typedValue writes v, which conforms to ty, using the implicit spellings ({"type","id"} for entities, bare strings for extension
// values) when implicit is set, explicit escapes otherwise; the choice is made per occurrence when mixed is set.
func (e *emitter) typedValue(v ir.Value, ty Ty, implicit, mixed bool) string {
	imp := implicit
	if mixed {
		imp = e.n(2) == 1
	}
	switch ty.K {
	case "entity":
		if imp {
			return e.uidImplicitForm(v)
		}
		return e.uidExplicit(v)
	case "ext":
		if imp {
			return e.ext(v, 2)
		}
		return e.ext(v, 0)
	case "set":
		es := make([]string, len(v.Elems))
		for i, x := range v.Elems {
			es[i] = e.typedValue(x, *ty.Elem, implicit, mixed)
		}
		return e.arr(es)
	case "record":
		var ms [][2]string
		for _, f := range v.Fields {
			var ft *Ty
			for i := range ty.Fields {
				if ty.Fields[i].K == f.K {
					ft = &ty.Fields[i].T
				}
			}
			if ft == nil {
				panic(fmt.Sprintf("emit: field %q not in type", f.K))
			}
			ms = append(ms, [2]string{e.str(f.K), e.typedValue(f.V, *ft, implicit, mixed)})
		}
		return e.obj(ms)
	}
	return e.value(v)
}
