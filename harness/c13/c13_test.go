// C13: entity, value and request JSON round-trips without loss; alternative spellings of one datum decode to equal objects.
//
// Oracles: decode(encode(x)) == x by IR equality (kind-strict, sets as sets) and by the library's own Equal; encode stable on the second
// trip (bytes); an own JSON emitter (emit_test.go) so that the decoder is exercised independently of the encoder, with every accepted
// spelling (explicit __entity / __extn escapes, implicit {type,id} / {fn,arg} / bare-string forms in typed positions, schema-guided
// coercion of implicit forms through exptypes.EntityMap.UnmarshalJSONWithSchema); raw JSON numbers outside the int64 range must be
// rejected.
//
// Carve-outs (weaker than the statement): records in which the exact reserved key "__entity" or "__extn" maps to a value whose JSON
// form is an object (a record, or an entity / extension value through its escape) are not asserted (ambiguous by the JSON format itself); invalid UTF-8 is not generated; for duplicate uids in a raw entity-map document only
// "one of the listed entities wins" is asserted; non-integer spellings of numbers (1.0, 1e2) may be rejected or accepted with the exact
// value; Diagnostic nil and empty slices are identified (omitempty).
//
// Sensitivity (quick tier, scratch copy of /repo + harness, one mutant at a time; all caught, replay of a mutant's case fails under the
// mutant and passes on the real tree):
//   - Entity.MarshalJSON omits tags                                   -> entity/roundtrip
//   - EntityUID.UnmarshalJSON ignores the explicit __entity form      -> value/typed-decode, entity/own-decode, coerce/decode
//   - json.Number.Int64() replaced by Float64()                       -> number/wrong-value, value/roundtrip, entity/roundtrip, coerce/explicit
//   - Record.UnmarshalJSON drops the empty-string key                 -> value/roundtrip, entity/roundtrip, coerce/explicit
package c13

import (
	"bytes"
	"encoding/json"
	"fmt"
	"math"
	"math/big"
	"reflect"
	"strings"
	"testing"

	"github.com/cedar-policy/cedar-go/types"
	exptypes "github.com/cedar-policy/cedar-go/x/exp/types"
	"github.com/cedar-policy/cedar-go/x/exp/schema/resolved"

	"verif/conv"
	"verif/ev"
	"verif/gen"
	"verif/ir"
)

func TestMain(m *testing.M) { ev.Main(m, "C13") }

type PosIR struct {
	File string `json:"file,omitempty"`
	Off  int    `json:"off,omitempty"`
	Line int    `json:"line,omitempty"`
	Col  int    `json:"col,omitempty"`
}

type DiagItem struct {
	ID  string `json:"id"`
	Pos PosIR  `json:"pos"`
	Msg string `json:"msg,omitempty"`
}

type DiagIR struct {
	Allow   bool       `json:"allow"`
	Reasons []DiagItem `json:"reasons,omitempty"`
	Errors  []DiagItem `json:"errors,omitempty"`
}

type Case struct {
	Kind    string      `json:"kind"` // value | entity | store | request | diag | number | coerce
	V       *ir.Value   `json:"v,omitempty"`
	E       *ir.Entity  `json:"e,omitempty"`
	Store   ir.Store    `json:"store,omitempty"`
	Req     *ir.Request `json:"req,omitempty"`
	Diag    *DiagIR     `json:"diag,omitempty"`
	Num     string      `json:"num,omitempty"`   // number kind: the JSON number text
	Where   int         `json:"where,omitempty"` // number kind: 0 bare, 1 in a set, 2 in a record, 3 entity attribute, 4 request context
	Seq     []int       `json:"seq,omitempty"`   // emitter choices
	Omit    int         `json:"omit,omitempty"`
	Dup     bool        `json:"dup,omitempty"`
	Types   []EntTy     `json:"types,omitempty"` // coerce kind: schema
	Mixed   bool        `json:"mixed,omitempty"`
}

// EntTy: one entity type of a generated schema.
type EntTy struct {
	Name    string   `json:"name"`
	Parents []string `json:"parents,omitempty"`
	Shape   Ty       `json:"shape"`
	Tags    *Ty      `json:"tags,omitempty"`
}

const minDayLimit = math.MinInt64 + 86400000

// ---------------------------------------------------------------------------------------------
// input classes: known findings and the format-level carve-out

func walkValue(v ir.Value, f func(ir.Value)) {
	f(v)
	for _, e := range v.Elems {
		walkValue(e, f)
	}
	for _, fl := range v.Fields {
		walkValue(fl.V, f)
	}
}

func caseValues(c *Case, f func(ir.Value)) {
	if c.V != nil {
		walkValue(*c.V, f)
	}
	ents := append(ir.Store{}, c.Store...)
	if c.E != nil {
		ents = append(ents, *c.E)
	}
	for _, e := range ents {
		walkValue(ir.Rec(e.Attrs...), f)
		walkValue(ir.Rec(e.Tags...), f)
	}
	if c.Req != nil {
		walkValue(c.Req.Context, f)
	}
}

// reservedObject: a record in which the exact key __entity / __extn maps to a record (format-level ambiguity, carve-out).
func reservedObject(x ir.Value) bool {
	for _, f := range x.Fields {
		if (f.K == "__entity" || f.K == "__extn") && jsonObject(f.V) {
			return true
		}
	}
	return false
}

// jsonObject: the JSON form of v is an object (records, and entity / extension values through their escapes).
func jsonObject(v ir.Value) bool {
	switch v.K {
	case ir.KRecord, ir.KEntity, ir.KDecimal, ir.KIP, ir.KDatetime, ir.KDuration:
		return true
	}
	return false
}

// foldedEscapeKey: a record in which a key that differs from __entity / __extn only in letter case maps to a record.
func foldedEscapeKey(x ir.Value) bool {
	for _, f := range x.Fields {
		if f.K != "__entity" && f.K != "__extn" && (strings.EqualFold(f.K, "__entity") || strings.EqualFold(f.K, "__extn")) && jsonObject(f.V) {
			return true
		}
	}
	return false
}

// hashClass: the by-design internal hash of a value (integers hash to themselves, a set to the sum of its members, the empty record to 0).
func hashClass(v ir.Value) (uint64, bool) {
	switch v.K {
	case ir.KBool:
		if v.B {
			return 1, true
		}
		return 0, true
	case ir.KLong, ir.KDecimal, ir.KDatetime, ir.KDuration:
		return uint64(v.I), true
	case ir.KSet:
		var sum uint64
		for _, e := range v.Distinct() {
			h, ok := hashClass(e)
			if !ok {
				return 0, false
			}
			sum += h
		}
		return sum, true
	case ir.KRecord:
		if len(v.Fields) == 0 {
			return 0, true
		}
	}
	return 0, false
}

// probeWraps: the set has more members hashing into the top j+1 slots of the uint64 range than there are slots, for some j, so
// linear probing wraps around to slot 0 (independent of insertion order).
func probeWraps(x ir.Value) bool {
	if x.K != ir.KSet {
		return false
	}
	var hs []uint64
	for _, m := range x.Distinct() {
		if h, ok := hashClass(m); ok && h > ^uint64(0)-64 {
			hs = append(hs, h)
		}
	}
	for j := uint64(0); j < 64; j++ {
		n := uint64(0)
		for _, h := range hs {
			if h >= ^uint64(0)-j {
				n++
			}
		}
		if n > j+1 {
			return true
		}
	}
	return false
}

// classOf returns ("carve-out"| known key | ""), deciding whether the case is skipped.
func classOf(c *Case) string {
	res := ""
	caseValues(c, func(x ir.Value) {
		switch {
		case x.K == ir.KRecord && reservedObject(x):
			res = "carve-out:reserved-key-object"
		case res == "" && ev.KnownOpen("C13", "json-escape-key-case") && x.K == ir.KRecord && foldedEscapeKey(x):
			res = "json-escape-key-case"
		case res == "" && ev.KnownOpen("C13", "set-order-wrap") && probeWraps(x):
			res = "set-order-wrap"
		case res == "" && ev.KnownOpen("C13", "ipv4-mapped-string") && gen.IsMappedIP(x):
			res = "ipv4-mapped-string"
		case res == "" && ev.KnownOpen("C13", "datetime-min-day") && x.K == ir.KDatetime && x.I < minDayLimit:
			res = "datetime-min-day"
		}
	})
	return res
}

// ---------------------------------------------------------------------------------------------

func check(c *Case) (sub, msg string) {
	defer func() {
		if r := recover(); r != nil {
			sub, msg = c.Kind+"/panic", fmt.Sprintf("panic: %v", r)
		}
	}()
	switch c.Kind {
	case "value":
		return checkValue(c)
	case "entity":
		return checkEntity(c)
	case "store":
		return checkStore(c)
	case "request":
		return checkRequest(c)
	case "diag":
		return checkDiag(c)
	case "number":
		return checkNumber(c)
	case "coerce":
		return checkCoerce(c)
	}
	return "harness", "unknown case kind " + c.Kind
}

func decodeValue(b []byte) (types.Value, error) {
	var v types.Value
	err := types.UnmarshalJSON(b, &v)
	return v, err
}

func sameValue(got types.Value, want ir.Value) bool {
	if got == nil {
		return false
	}
	g, err := conv.FromValue(got)
	return err == nil && ir.Equal(g, want) && got.Equal(conv.ToValue(want)) && conv.ToValue(want).Equal(got)
}

func checkValue(c *Case) (string, string) {
	v := *c.V
	x := conv.ToValue(v)
	b, err := json.Marshal(x)
	if err != nil {
		return "value/encode", fmt.Sprintf("json.Marshal(%s): %v", v.String(), err)
	}
	y, err := decodeValue(b)
	if err != nil {
		return "value/decode", fmt.Sprintf("%s encodes to %s, which does not decode: %v", v.String(), b, err)
	}
	if !sameValue(y, v) {
		return "value/roundtrip", fmt.Sprintf("%s encodes to %s, which decodes to %v (%T)", v.String(), b, y, y)
	}
	b2, err := json.Marshal(y)
	if err != nil || !bytes.Equal(b, b2) {
		return "value/stable", fmt.Sprintf("second encoding differs: %s then %s (%v)", b, b2, err)
	}
	// typed decode targets
	if sub, msg := typedDecode(b, v, "encoder output"); sub != "" {
		return sub, msg
	}
	// own emitter, explicit spelling
	e := &emitter{seq: c.Seq}
	doc := e.value(v)
	if !json.Valid([]byte(doc)) {
		return "harness", "own emitter wrote invalid JSON: " + doc
	}
	z, err := decodeValue([]byte(doc))
	if err != nil {
		return "value/own-decode", fmt.Sprintf("the document %s (own spelling of %s) does not decode: %v", doc, v.String(), err)
	}
	if !sameValue(z, v) {
		return "value/own-decode", fmt.Sprintf("the document %s decodes to %v (%T), expected %s", doc, z, z, v.String())
	}
	if sub, msg := typedDecode([]byte(doc), v, "own document"); sub != "" {
		return sub, msg
	}
	// alternative spellings in typed positions
	switch v.K {
	case ir.KEntity:
		for _, d := range []string{e.uidExplicit(v), e.uidImplicitForm(v)} {
			var u types.EntityUID
			if err := json.Unmarshal([]byte(d), &u); err != nil || u != conv.ToEntityUID(v) {
				return "value/spelling", fmt.Sprintf("EntityUID from %s: %v, %v", d, u, err)
			}
		}
	case ir.KDecimal, ir.KDatetime, ir.KDuration, ir.KIP:
		for form := 0; form < 3; form++ {
			d := e.ext(v, form)
			got, err := decodeExtTyped([]byte(d), v.K)
			if err != nil || !sameValue(got, v) {
				return "value/spelling", fmt.Sprintf("typed decode of %s: %v, %v; expected %s", d, got, err, v.String())
			}
		}
	}
	return "", ""
}

func decodeExtTyped(b []byte, k ir.Kind) (types.Value, error) {
	switch k {
	case ir.KDecimal:
		var d types.Decimal
		err := json.Unmarshal(b, &d)
		return d, err
	case ir.KDatetime:
		var d types.Datetime
		err := json.Unmarshal(b, &d)
		return d, err
	case ir.KDuration:
		var d types.Duration
		err := json.Unmarshal(b, &d)
		return d, err
	case ir.KIP:
		var d types.IPAddr
		err := json.Unmarshal(b, &d)
		return d, err
	}
	return nil, fmt.Errorf("not an extension kind")
}

// typedDecode decodes b into the Go type matching v's kind.
func typedDecode(b []byte, v ir.Value, what string) (string, string) {
	var got types.Value
	var err error
	switch v.K {
	case ir.KBool:
		var t types.Boolean
		err = json.Unmarshal(b, &t)
		got = t
	case ir.KLong:
		var t types.Long
		err = json.Unmarshal(b, &t)
		got = t
	case ir.KString:
		var t types.String
		err = json.Unmarshal(b, &t)
		got = t
	case ir.KEntity:
		var t types.EntityUID
		err = json.Unmarshal(b, &t)
		got = t
	case ir.KSet:
		var t types.Set
		err = json.Unmarshal(b, &t)
		got = t
	case ir.KRecord:
		var t types.Record
		err = json.Unmarshal(b, &t)
		got = t
	default:
		got, err = decodeExtTyped(b, v.K)
	}
	if err != nil || !sameValue(got, v) {
		return "value/typed-decode", fmt.Sprintf("%s %s into %T: %v, %v; expected %s", what, b, got, got, err, v.String())
	}
	return "", ""
}

func sameEntity(got types.Entity, want ir.Entity) (bool, string) {
	if !got.Equal(conv.ToEntity(want)) || !conv.ToEntity(want).Equal(got) {
		return false, "Entity.Equal is false"
	}
	g, err := conv.FromEntity(got)
	if err != nil {
		return false, err.Error()
	}
	if !ir.Equal(g.UID, want.UID) || !ir.Equal(ir.Set(g.Parents...), ir.Set(want.Parents...)) || got.Parents.Len() != len(ir.Set(want.Parents...).Distinct()) {
		return false, "uid or parents differ"
	}
	if !ir.Equal(ir.Rec(g.Attrs...), ir.Rec(want.Attrs...)) {
		return false, "attrs differ: " + ir.Rec(g.Attrs...).String()
	}
	if !ir.Equal(ir.Rec(g.Tags...), ir.Rec(want.Tags...)) {
		return false, "tags differ: " + ir.Rec(g.Tags...).String()
	}
	return true, ""
}

func checkEntity(c *Case) (string, string) {
	x := conv.ToEntity(*c.E)
	b, err := json.Marshal(x)
	if err != nil {
		return "entity/encode", err.Error()
	}
	var y types.Entity
	if err := json.Unmarshal(b, &y); err != nil {
		return "entity/decode", fmt.Sprintf("entity encodes to %s, which does not decode: %v", b, err)
	}
	if ok, why := sameEntity(y, *c.E); !ok {
		return "entity/roundtrip", fmt.Sprintf("entity encodes to %s, decodes to a different entity: %s", b, why)
	}
	b2, err := json.Marshal(y)
	if err != nil || !bytes.Equal(b, b2) {
		return "entity/stable", fmt.Sprintf("second encoding differs: %s then %s", b, b2)
	}
	// the receiver is reused for another document (the usual loop over a stream of documents): the copy kept from the
	// first decode still is what the first document said, and the receiver is what the second one says
	kept := y
	other := ir.Entity{UID: ir.Ent("Other", "o"), Parents: []ir.Value{ir.Ent("Other", "p1"), ir.Ent("Zz", "p2")}, Attrs: []ir.Field{ir.F("only", ir.Long(1))}, Tags: []ir.Field{ir.F("t", ir.Str("v"))}}
	if ob, err := json.Marshal(conv.ToEntity(other)); err == nil {
		if err := json.Unmarshal(ob, &y); err != nil {
			return "entity/reuse-receiver", fmt.Sprintf("decoding %s into a used receiver fails: %v", ob, err)
		}
		if ok, why := sameEntity(y, other); !ok {
			return "entity/reuse-receiver", fmt.Sprintf("decoding %s into a receiver that held %s gives a different entity: %s", ob, b, why)
		}
		if ok, why := sameEntity(kept, *c.E); !ok {
			return "entity/reuse-receiver", fmt.Sprintf("the copy kept from decoding %s changed when its source variable was decoded into again: %s", b, why)
		}
	}
	for _, imp := range []bool{false, true} {
		e := &emitter{seq: c.Seq, uidImplicit: imp}
		doc := e.entity(*c.E, c.Omit, c.Dup, e.value)
		if !json.Valid([]byte(doc)) {
			return "harness", "own emitter wrote invalid JSON: " + doc
		}
		var z types.Entity
		if err := json.Unmarshal([]byte(doc), &z); err != nil {
			return "entity/own-decode", fmt.Sprintf("the entity document %s does not decode: %v", doc, err)
		}
		if ok, why := sameEntity(z, *c.E); !ok {
			return "entity/own-decode", fmt.Sprintf("the entity document %s decodes to a different entity: %s", doc, why)
		}
	}
	return "", ""
}

func sameStore(got types.EntityMap, want ir.Store, lastWins bool) (bool, string) {
	uids := map[types.EntityUID][]ir.Entity{}
	for _, e := range want {
		u := conv.ToEntityUID(e.UID)
		uids[u] = append(uids[u], e)
	}
	if len(got) != len(uids) {
		return false, fmt.Sprintf("%d entries, expected %d", len(got), len(uids))
	}
	for u, cands := range uids {
		g, ok := got[u]
		if !ok {
			return false, "missing " + u.String()
		}
		if g.UID != u {
			return false, "entry under " + u.String() + " has uid " + g.UID.String()
		}
		match := false
		for _, cnd := range cands {
			if ok, _ := sameEntity(g, cnd); ok {
				match = true
			}
		}
		if !match {
			return false, "entity " + u.String() + " differs from every listed entity with that uid"
		}
	}
	return true, ""
}

func checkStore(c *Case) (string, string) {
	x := conv.ToEntityMap(c.Store)
	b, err := json.Marshal(x)
	if err != nil {
		return "store/encode", err.Error()
	}
	var y types.EntityMap
	if err := json.Unmarshal(b, &y); err != nil {
		return "store/decode", fmt.Sprintf("entity map encodes to %s, which does not decode: %v", b, err)
	}
	// conv.ToEntityMap keeps the last entity per uid, like repeated map insertion
	var dedup ir.Store
	for _, e := range c.Store {
		if last, _ := c.Store.Get(e.UID); reflect.DeepEqual(last, e) {
			if _, dup := dedup.Get(e.UID); !dup {
				dedup = append(dedup, e)
			}
		}
	}
	if ok, why := sameStore(y, dedup, false); !ok {
		return "store/roundtrip", fmt.Sprintf("entity map encodes to %s, decodes differently: %s", b, why)
	}
	for rep := 0; rep < 4; rep++ { // (several times: an order taken from map iteration differs only now and then)
		b2, err := json.Marshal(y)
		if err != nil || !bytes.Equal(b, b2) {
			return "store/stable", fmt.Sprintf("second encoding differs: %s then %s", b, b2)
		}
	}
	e := &emitter{seq: c.Seq}
	doc := e.store(c.Store, c.Omit, e.value)
	if !json.Valid([]byte(doc)) {
		return "harness", "own emitter wrote invalid JSON: " + doc
	}
	var z types.EntityMap
	if err := json.Unmarshal([]byte(doc), &z); err != nil {
		return "store/own-decode", fmt.Sprintf("the entity-map document %s does not decode: %v", doc, err)
	}
	if ok, why := sameStore(z, c.Store, false); !ok {
		return "store/own-decode", fmt.Sprintf("the entity-map document %s decodes differently: %s", doc, why)
	}
	return "", ""
}

func checkRequest(c *Case) (string, string) {
	x := conv.ToRequest(*c.Req)
	b, err := json.Marshal(x)
	if err != nil {
		return "request/encode", err.Error()
	}
	var y types.Request
	if err := json.Unmarshal(b, &y); err != nil {
		return "request/decode", fmt.Sprintf("request encodes to %s, which does not decode: %v", b, err)
	}
	same := func(r types.Request) bool {
		return r.Equal(x) && x.Equal(r) && r.Principal == x.Principal && r.Action == x.Action && r.Resource == x.Resource && sameValue(r.Context, c.Req.Context)
	}
	if !same(y) {
		return "request/roundtrip", fmt.Sprintf("request encodes to %s, decodes to %v", b, y)
	}
	b2, err := json.Marshal(y)
	if err != nil || !bytes.Equal(b, b2) {
		return "request/stable", fmt.Sprintf("second encoding differs: %s then %s", b, b2)
	}
	for _, imp := range []bool{false, true} {
		e := &emitter{seq: c.Seq, uidImplicit: imp}
		doc := e.request(*c.Req)
		if !json.Valid([]byte(doc)) {
			return "harness", "own emitter wrote invalid JSON: " + doc
		}
		var z types.Request
		if err := json.Unmarshal([]byte(doc), &z); err != nil || !same(z) {
			return "request/own-decode", fmt.Sprintf("the request document %s decodes to %v, %v", doc, z, err)
		}
	}
	return "", ""
}

func toDiag(d *DiagIR) (types.Decision, types.Diagnostic) {
	var out types.Diagnostic
	pos := func(p PosIR) types.Position {
		return types.Position{Filename: p.File, Offset: p.Off, Line: p.Line, Column: p.Col}
	}
	for _, r := range d.Reasons {
		out.Reasons = append(out.Reasons, types.DiagnosticReason{PolicyID: types.PolicyID(r.ID), Position: pos(r.Pos)})
	}
	for _, r := range d.Errors {
		out.Errors = append(out.Errors, types.DiagnosticError{PolicyID: types.PolicyID(r.ID), Position: pos(r.Pos), Message: r.Msg})
	}
	return types.Decision(d.Allow), out
}

func sameDiag(a, b types.Diagnostic) bool {
	if len(a.Reasons) != len(b.Reasons) || len(a.Errors) != len(b.Errors) {
		return false
	}
	for i := range a.Reasons {
		if a.Reasons[i] != b.Reasons[i] {
			return false
		}
	}
	for i := range a.Errors {
		if a.Errors[i] != b.Errors[i] {
			return false
		}
	}
	return true
}

func checkDiag(c *Case) (string, string) {
	dec, diag := toDiag(c.Diag)
	b, err := json.Marshal(dec)
	var dec2 types.Decision
	if err == nil {
		err = json.Unmarshal(b, &dec2)
	}
	if err != nil || dec2 != dec {
		return "decision/roundtrip", fmt.Sprintf("decision %v encodes to %s, decodes to %v (%v)", dec, b, dec2, err)
	}
	// the same decision string spelled with JSON escapes
	e := &emitter{seq: c.Seq}
	doc := e.str(dec.String())
	if ev.KnownOpen("C13", "decision-escaped") && doc != `"`+dec.String()+`"` {
		ev.R.Excluded("decision-escaped")
	} else if sub, msg := decisionDoc(doc, bool(dec)); sub != "" {
		return sub, msg
	}
	type both struct {
		Decision   types.Decision   `json:"decision"`
		Diagnostic types.Diagnostic `json:"diagnostic"`
	}
	b, err = json.Marshal(both{dec, diag})
	if err != nil {
		return "diagnostic/encode", err.Error()
	}
	var y both
	if err := json.Unmarshal(b, &y); err != nil {
		return "diagnostic/decode", fmt.Sprintf("%s does not decode: %v", b, err)
	}
	if y.Decision != dec || !sameDiag(y.Diagnostic, diag) {
		return "diagnostic/roundtrip", fmt.Sprintf("%s decodes to %+v", b, y)
	}
	b2, err := json.Marshal(y)
	if err != nil || !bytes.Equal(b, b2) {
		return "diagnostic/stable", fmt.Sprintf("second encoding differs: %s then %s", b, b2)
	}
	return "", ""
}

// checkNumber: a raw JSON number in a value position decodes to exactly that integer or is rejected; integers outside int64 must be rejected.
func checkNumber(c *Case) (string, string) {
	num := c.Num
	var doc string
	var decode func() (types.Value, error)
	pick := func(v types.Value) types.Value { return v }
	switch c.Where {
	case 0:
		doc = num
	case 1:
		doc = "[" + num + "]"
		pick = func(v types.Value) types.Value {
			if s, ok := v.(types.Set); ok && s.Len() == 1 {
				return s.Slice()[0]
			}
			return nil
		}
	case 2:
		doc = `{"n":` + num + `}`
		pick = func(v types.Value) types.Value {
			if r, ok := v.(types.Record); ok {
				x, _ := r.Get("n")
				return x
			}
			return nil
		}
	case 3:
		doc = `{"uid":{"type":"T0","id":"a"},"parents":[],"attrs":{"n":[` + num + `]},"tags":{"t":` + num + `}}`
		decode = func() (types.Value, error) {
			var e types.Entity
			if err := json.Unmarshal([]byte(doc), &e); err != nil {
				return nil, err
			}
			a, _ := e.Attributes.Get("n")
			t, _ := e.Tags.Get("t")
			s, ok := a.(types.Set)
			if !ok || s.Len() != 1 || t == nil || !s.Contains(t) {
				return nil, nil
			}
			return t, nil
		}
	default:
		doc = `{"principal":{"type":"T0","id":"a"},"action":{"type":"Action","id":"view"},"resource":{"type":"T0","id":"b"},"context":{"n":` + num + `}}`
		decode = func() (types.Value, error) {
			var r types.Request
			if err := json.Unmarshal([]byte(doc), &r); err != nil {
				return nil, err
			}
			x, _ := r.Context.Get("n")
			return x, nil
		}
	}
	if !json.Valid([]byte(doc)) {
		return "harness", "invalid JSON number document " + doc
	}
	if decode == nil {
		decode = func() (types.Value, error) {
			v, err := decodeValue([]byte(doc))
			if err != nil {
				return nil, err
			}
			return pick(v), nil
		}
	}
	got, err := decode()
	exact, isInt := new(big.Rat).SetString(num)
	if !isInt {
		return "harness", "unreadable number " + num
	}
	plain := !strings.ContainsAny(num, ".eE")
	inRange := exact.IsInt() && exact.Num().IsInt64()
	if err != nil {
		if plain && inRange {
			return "number/rejects-valid", fmt.Sprintf("%s: the integer %s is a valid long but decoding fails: %v", doc, num, err)
		}
		return "", ""
	}
	l, ok := got.(types.Long)
	if !ok {
		return "number/wrong-type", fmt.Sprintf("%s decodes the number to %v (%T)", doc, got, got)
	}
	if !inRange || exact.Num().Int64() != int64(l) {
		return "number/wrong-value", fmt.Sprintf("%s decodes the number %s to %d without error", doc, num, int64(l))
	}
	return "", ""
}

// ---------------------------------------------------------------------------------------------
// schema-guided coercion

func toResolvedType(t Ty) resolved.IsType {
	switch t.K {
	case "long":
		return resolved.LongType{}
	case "string":
		return resolved.StringType{}
	case "bool":
		return resolved.BoolType{}
	case "entity":
		return resolved.EntityType(t.Name)
	case "ext":
		return resolved.ExtensionType(t.Name)
	case "set":
		return resolved.SetType{Element: toResolvedType(*t.Elem)}
	case "record":
		return toRecordType(t)
	}
	panic("type kind " + t.K)
}

func toRecordType(t Ty) resolved.RecordType {
	out := resolved.RecordType{}
	for _, f := range t.Fields {
		out[types.String(f.K)] = resolved.Attribute{Type: toResolvedType(f.T), Optional: f.Optional}
	}
	return out
}

func toSchema(ts []EntTy) *resolved.Schema {
	s := &resolved.Schema{Namespaces: map[types.Path]resolved.Namespace{}, Entities: map[types.EntityType]resolved.Entity{}, Enums: map[types.EntityType]resolved.Enum{}, Actions: map[types.EntityUID]resolved.Action{}}
	for _, t := range ts {
		e := resolved.Entity{Name: types.EntityType(t.Name), Shape: toRecordType(t.Shape)}
		for _, p := range t.Parents {
			e.ParentTypes = append(e.ParentTypes, types.EntityType(p))
		}
		if t.Tags != nil {
			e.Tags = toResolvedType(*t.Tags)
		}
		s.Entities[e.Name] = e
	}
	return s
}

func checkCoerce(c *Case) (string, string) {
	schema := toSchema(c.Types)
	byName := map[string]EntTy{}
	for _, t := range c.Types {
		byName[t.Name] = t
	}
	emitStore := func(implicit, mixed bool) string {
		e := &emitter{seq: c.Seq, uidImplicit: implicit}
		es := make([]string, len(c.Store))
		for i, x := range c.Store {
			t := byName[x.UID.T]
			ms := [][2]string{{`"uid"`, e.typedUID(x.UID)}}
			var ps []string
			for _, p := range x.Parents {
				ps = append(ps, e.typedUID(p))
			}
			ms = append(ms, [2]string{`"parents"`, e.arr(ps)})
			ms = append(ms, [2]string{`"attrs"`, e.typedValue(ir.Rec(x.Attrs...), t.Shape, implicit, mixed)})
			if t.Tags != nil {
				var tm [][2]string
				for _, f := range x.Tags {
					tm = append(tm, [2]string{e.str(f.K), e.typedValue(f.V, *t.Tags, implicit, mixed)})
				}
				ms = append(ms, [2]string{`"tags"`, e.obj(tm)})
			}
			es[i] = e.obj(ms)
		}
		return e.arr(es)
	}
	explicit := emitStore(false, false)
	for _, d := range []struct {
		name string
		doc  string
	}{{"explicit", explicit}, {"implicit", emitStore(true, false)}, {"mixed", emitStore(c.Mixed, true)}} {
		if !json.Valid([]byte(d.doc)) {
			return "harness", "own emitter wrote invalid JSON: " + d.doc
		}
		var em exptypes.EntityMap
		if err := em.UnmarshalJSONWithSchema([]byte(d.doc), schema); err != nil {
			return "coerce/decode", fmt.Sprintf("UnmarshalJSONWithSchema rejects the conforming %s document %s: %v", d.name, d.doc, err)
		}
		if ok, why := sameStore(types.EntityMap(em), c.Store, false); !ok {
			return "coerce/" + d.name, fmt.Sprintf("UnmarshalJSONWithSchema of the %s document %s: %s", d.name, d.doc, why)
		}
	}
	var plain types.EntityMap
	if err := json.Unmarshal([]byte(explicit), &plain); err != nil {
		return "coerce/plain", fmt.Sprintf("plain decode of %s: %v", explicit, err)
	}
	if ok, why := sameStore(plain, c.Store, false); !ok {
		return "coerce/plain", fmt.Sprintf("plain decode of the explicit document %s: %s", explicit, why)
	}
	return "", ""
}

// ---------------------------------------------------------------------------------------------

func run(c *Case, class string, nt bool, labels []string, fail func(sub, msg string)) bool {
	if k := classOf(c); k != "" {
		if strings.HasPrefix(k, "carve-out:") {
			ev.R.Label(k, 1)
		} else {
			ev.R.Excluded(k)
		}
		return true
	}
	ev.Watch(c.Kind, func() any { return c })
	sub, msg := check(c)
	ev.Unwatch()
	ev.R.Case(ir.Hash(c), nt, append([]string{class}, labels...)...)
	if ev.R.WantSample(class) {
		ev.R.Sample(class, c)
	}
	if sub == "harness" {
		ev.R.Broken("C13 harness: " + msg)
		return true
	}
	if sub != "" {
		ev.R.Violation(sub, c, msg)
		fail(sub, msg)
		return false
	}
	return true
}

func tableFail(t *testing.T) func(sub, msg string) {
	n := 0
	return func(sub, msg string) {
		n++
		if n <= 10 {
			t.Errorf("C13/%s: %s", sub, msg)
		}
	}
}

// decisionDoc: a JSON string document that spells "allow" / "deny" (possibly with escapes) decodes to that decision.
func decisionDoc(doc string, allow bool) (string, string) {
	var s string
	if err := json.Unmarshal([]byte(doc), &s); err != nil || s != types.Decision(allow).String() {
		return "harness", "decision document " + doc
	}
	var d types.Decision
	if err := json.Unmarshal([]byte(doc), &d); err != nil || bool(d) != allow {
		return "decision/own-decode", fmt.Sprintf("the document %s (the JSON string %q) decodes to decision %v (err %v)", doc, s, d, err)
	}
	return "", ""
}

func TestReplay(t *testing.T) {
	rf, ok, err := ev.LoadReplay()
	if !ok {
		t.Skip("no replay requested")
	}
	if err != nil {
		t.Fatal(err)
	}
	if ev.ReplayFuzz(t, rf, fuzzProps, fuzzRaw) {
		return
	}
	var c Case
	if err := json.Unmarshal(rf.Case, &c); err != nil || c.Kind == "" {
		t.Fatalf("cannot decode replay case: %v", err)
	}
	if sub, msg := check(&c); sub != "" {
		ev.R.Violation(sub, &c, msg)
		t.Fatalf("C13 replay %s: %s", sub, msg)
	}
}
