package c13

// Byte-level fuzz targets over value / entity-map JSON (thorough tier): whatever cedar-go's decoders accept is read back
// into the harness IR and put through this property's ordinary round-trip oracle (cedar-go's own encoding, the harness's
// independent emitter in several spellings, equality in both directions, stability of a second encoding).

import (
	"encoding/json"
	"sort"
	"testing"

	"github.com/cedar-policy/cedar-go/types"
	"pgregory.net/rapid"

	"verif/conv"
	"verif/ev"
	"verif/gen"
	"verif/ir"
)

func parsedValueTarget(t *testing.T, in []byte) {
	if len(in) > 1200 {
		t.Skip()
	}
	var v types.Value
	func() {
		defer func() { _ = recover() }() // a decoder panic is C10's subject
		if types.UnmarshalJSON(in, &v) != nil {
			v = nil
		}
	}()
	if v == nil {
		return
	}
	iv, err := conv.FromValue(v)
	if err != nil {
		return
	}
	if !ev.Fuzzing() {
		ev.R.Label("fuzz-parsed-seed:value", 1)
	}
	if !run(&Case{Kind: "value", V: &iv, Seq: []int{len(in) % 7, 1, 2}}, "fuzz-parsed", false, nil, func(string, string) {}) {
		t.Fatalf("C13/fuzz-parsed: the round-trip oracle fails on a value decoded from fuzzed JSON\ninput: %q", in)
	}
}

func parsedStoreTarget(t *testing.T, in []byte) {
	if len(in) > 2000 {
		t.Skip()
	}
	var em types.EntityMap
	func() {
		defer func() { _ = recover() }()
		if json.Unmarshal(in, &em) != nil {
			em = nil
		}
	}()
	if em == nil {
		return
	}
	var store ir.Store
	for _, e := range em {
		ie, err := conv.FromEntity(e)
		if err != nil {
			return
		}
		store = append(store, ie)
	}
	sort.Slice(store, func(i, j int) bool {
		if store[i].UID.T != store[j].UID.T {
			return store[i].UID.T < store[j].UID.T
		}
		return store[i].UID.S < store[j].UID.S
	})
	if !ev.Fuzzing() {
		ev.R.Label("fuzz-parsed-seed:store", 1)
	}
	if !run(&Case{Kind: "store", Store: store, Seq: []int{len(in) % 5, 3}}, "fuzz-parsed", false, nil, func(string, string) {}) {
		t.Fatalf("C13/fuzz-parsed: the round-trip oracle fails on an entity map decoded from fuzzed JSON\ninput: %q", in)
	}
}

var fuzzRaw = map[string]func(*testing.T, []byte){
	"FuzzParsedValueJSON": parsedValueTarget,
	"FuzzParsedStoreJSON": parsedStoreTarget,
}

func FuzzParsedValueJSON(f *testing.F) {
	g := rapid.Custom(func(rt *rapid.T) []byte {
		v := genValue(rt, 3)
		e := &emitter{seq: []int{rapid.IntRange(0, 9).Draw(rt, "s0"), rapid.IntRange(0, 9).Draw(rt, "s1")}}
		return []byte(e.value(v))
	})
	for i := 0; i < 40; i++ {
		f.Add(g.Example(i + 1))
	}
	f.Fuzz(parsedValueTarget)
}

func FuzzParsedStoreJSON(f *testing.F) {
	g := rapid.Custom(func(rt *rapid.T) []byte {
		w := gen.GenWorld(rt, 4, valOpts)
		b, err := json.Marshal(conv.ToEntityMap(w.Store))
		if err != nil {
			return []byte("[]")
		}
		return b
	})
	for i := 0; i < 30; i++ {
		f.Add(g.Example(i + 1))
	}
	f.Fuzz(parsedStoreTarget)
}
