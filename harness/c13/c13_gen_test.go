package c13

import (
	"math"
	"math/big"
	"testing"

	"pgregory.net/rapid"

	"verif/ev"
	"verif/gen"
	"verif/ir"
)

// keys: the hostile pool plus look-alikes of the JSON escapes and of the implicit forms.
var keyPool = append(append([]string{}, gen.KeysHostile...), "__entity", "__extn", "__Entity", "__ENTITY", "__Extn", "__EXTN", "__expr", "type", "id", "fn", "arg", "Type", "ID", "uid", "parents", "attrs", "tags", "<", ">", "&", " ", " ", "/", "\b", "\f", "\U0001F600")

var stringPool = append(append([]string{}, gen.StringsPool...), "<script>", "a&b", " ", " ", "/", "\\/", "\b\f\n\r\t", "\x7f", "\u0000", "\U0010FFFF", "�", "￾", "__entity", "1.5", "127.0.0.1", "2024-01-01", "1h")

func genString(rt *rapid.T) string {
	switch rapid.IntRange(0, 3).Draw(rt, "ssrc") {
	case 0:
		return gen.Pick(rt, stringPool, "spool")
	case 1:
		return gen.UnicodeString(rt, 0, 6)
	default:
		return gen.StringVal(rt)
	}
}

var valOpts = gen.ValOpts{Keys: keyPool, MappedIP: true}

// lookAlikes: records that merely look like an escape or an implicit form.
func lookAlike(rt *rapid.T) ir.Value {
	ent := ir.Rec(ir.F("type", ir.Str("T0")), ir.F("id", ir.Str("a")))
	ext := ir.Rec(ir.F("fn", ir.Str("ip")), ir.F("arg", ir.Str("1.2.3.4")))
	key := gen.Pick(rt, []string{"__entity", "__extn", "__Entity", "__EXTN", "__Extn", "__ENTITY", "__expr"}, "lkey")
	inner := gen.Pick(rt, []ir.Value{ir.Long(5), ir.Str("x"), ir.Bool(true), ir.Set(), ir.Set(ent), ent, ext, ir.Rec(), ir.Rec(ir.F("type", ir.Long(1))), ir.Rec(ir.F("fn", ir.Str("foo")), ir.F("arg", ir.Str("x"))), ir.Ent("T0", "a"), ir.Decimal(15000)}, "linner")
	switch rapid.IntRange(0, 4).Draw(rt, "lform") {
	case 0:
		return ir.Rec(ir.F(key, inner))
	case 1:
		return ir.Rec(ir.F(key, inner), ir.F("other", ir.Long(1)))
	case 2:
		return ent
	case 3:
		return ext
	default:
		return ir.Rec(ir.F("type", gen.Pick(rt, []ir.Value{ir.Long(1), ir.Str("T"), ir.Set()}, "tv")), ir.F("id", gen.Pick(rt, []ir.Value{ir.Str("x"), ir.Long(2), ir.Rec()}, "iv")), ir.F("extra", ir.Bool(true)))
	}
}

func genValue(rt *rapid.T, depth int) ir.Value {
	switch rapid.IntRange(0, 9).Draw(rt, "vsrc") {
	case 0:
		return lookAlike(rt)
	case 1:
		return ir.Str(genString(rt))
	case 2:
		return ir.Ent(gen.Pick(rt, append([]string{"A::B::C", "T"}, gen.EntityTypes...), "etype"), genString(rt))
	case 3:
		return ir.Long(gen.Pick(rt, []int64{math.MinInt64, math.MaxInt64, 1 << 53, 1<<53 + 1, -(1 << 53) - 1, 9007199254740993, 0, -1}, "ledge"))
	case 4:
		if depth > 0 {
			// a set / record that holds look-alikes and strings
			n := rapid.IntRange(1, 3).Draw(rt, "n")
			out := ir.Set()
			for i := 0; i < n; i++ {
				out.Elems = append(out.Elems, genValue(rt, depth-1))
			}
			if gen.Chance(rt, 50, "asrec") {
				rec := ir.Rec()
				for i, e := range out.Distinct() {
					k := gen.Pick(rt, keyPool, "k")
					if _, dup := rec.Get(k); dup {
						k = k + string(rune('0'+i))
					}
					rec.Fields = append(rec.Fields, ir.F(k, e))
				}
				return rec
			}
			return ir.Set(out.Distinct()...)
		}
	}
	return gen.Value(rt, depth, valOpts)
}

func valueNT(v ir.Value) bool {
	nt := false
	walkValue(v, func(x ir.Value) {
		switch x.K {
		case ir.KSet, ir.KRecord, ir.KDecimal, ir.KIP, ir.KDatetime, ir.KDuration, ir.KEntity:
			nt = true
		case ir.KString:
			if jsonEscapes(x.S) {
				nt = true
			}
		}
		for _, f := range x.Fields {
			if jsonEscapes(f.K) {
				nt = true
			}
		}
	})
	return nt
}

func jsonEscapes(s string) bool {
	for _, r := range s {
		if r < 0x20 || r == '"' || r == '\\' || r == '<' || r == '>' || r == '&' || r == 0x2028 || r == 0x2029 || r >= 0x7f {
			return true
		}
	}
	return false
}

func genSeq(rt *rapid.T) []int {
	if gen.Chance(rt, 15, "canon") {
		return nil
	}
	return rapid.SliceOfN(rapid.IntRange(0, 23), 1, 12).Draw(rt, "seq")
}

func genFields(rt *rapid.T, depth, max int) []ir.Field {
	n := rapid.IntRange(0, max).Draw(rt, "nf")
	rec := ir.Rec()
	for i := 0; i < n; i++ {
		k := gen.Pick(rt, keyPool, "fk")
		if _, dup := rec.Get(k); dup {
			continue
		}
		rec.Fields = append(rec.Fields, ir.F(k, genValue(rt, depth)))
	}
	return rec.Fields
}

func genUID(rt *rapid.T) ir.Value {
	if gen.Chance(rt, 70, "plainuid") {
		return gen.EntityVal(rt)
	}
	return ir.Ent(gen.Pick(rt, append([]string{"A::B::C", "T"}, gen.EntityTypes...), "ut"), genString(rt))
}

func genEntity(rt *rapid.T) ir.Entity {
	e := ir.Entity{UID: genUID(rt)}
	for i := rapid.IntRange(0, 5).Draw(rt, "np"); i > 0; i-- {
		p := genUID(rt)
		if !ir.Set(e.Parents...).Contains(p) {
			e.Parents = append(e.Parents, p)
		}
	}
	e.Attrs = genFields(rt, 2, 4)
	if gen.Chance(rt, 60, "tags") {
		e.Tags = genFields(rt, 1, 3)
	}
	return e
}

func TestRandomValues(t *testing.T) {
	ev.SetChecks(ev.Scale(12000, 900000))
	ev.Check(t, func(rt *rapid.T) {
		v := genValue(rt, rapid.IntRange(0, 4).Draw(rt, "depth"))
		c := &Case{Kind: "value", V: &v, Seq: genSeq(rt)}
		if !run(c, "value-random", valueNT(v), []string{"value:" + string(v.K)}, func(string, string) {}) {
			rt.Fatalf("C13/value-random: JSON round trip / spelling law fails")
		}
	})
}

func TestRandomEntities(t *testing.T) {
	ev.SetChecks(ev.Scale(10000, 600000))
	ev.Check(t, func(rt *rapid.T) {
		switch rapid.IntRange(0, 3).Draw(rt, "what") {
		case 0, 1:
			e := genEntity(rt)
			c := &Case{Kind: "entity", E: &e, Seq: genSeq(rt), Omit: rapid.IntRange(0, 7).Draw(rt, "omit"), Dup: rapid.Bool().Draw(rt, "dup")}
			labels := []string{"entity"}
			if c.Dup && len(e.Parents) > 0 {
				labels = append(labels, "entity:dup-parent")
			}
			if len(e.Tags) == 0 && c.Omit&4 != 0 {
				labels = append(labels, "entity:tags-omitted")
			}
			if !run(c, "entity-random", true, labels, func(string, string) {}) {
				rt.Fatalf("C13/entity-random: entity JSON law fails")
			}
		case 2:
			var s ir.Store
			for i := rapid.IntRange(0, 8).Draw(rt, "nent"); i > 0; i-- {
				s = append(s, genEntity(rt))
			}
			if gen.Chance(rt, 40, "ambiguouspairs") {
				// uids that coincide when type and id are joined without quoting (the map is encoded in a fixed order)
				pairs := [][2]ir.Value{{ir.Ent("A::B", "c"), ir.Ent("A", "B::c")}, {ir.Ent("Org::Team", "x"), ir.Ent("Org", "Team::x")}, {ir.Ent("AB", "C"), ir.Ent("A", "BC")},
					{ir.Ent("A", "b\"c"), ir.Ent("A", "b\\\"c")}, {ir.Ent("A::B::C", ""), ir.Ent("A::B", "C::")}, {ir.Ent("T", "a"), ir.Ent("T", "A")}}
				for k := rapid.IntRange(1, 3).Draw(rt, "npairs"); k > 0; k-- {
					p := gen.Pick(rt, pairs, "pair")
					s = append(s, ir.Entity{UID: p[0], Parents: []ir.Value{p[1]}}, ir.Entity{UID: p[1]})
				}
			}
			labels := []string{"store"}
			seen := ir.Set()
			for _, e := range s {
				if seen.Contains(e.UID) {
					labels = []string{"store", "store:dup-uid"}
				}
				seen.Elems = append(seen.Elems, e.UID)
			}
			c := &Case{Kind: "store", Store: s, Seq: genSeq(rt), Omit: rapid.IntRange(0, 7).Draw(rt, "omit")}
			if !run(c, "store-random", len(s) > 0, labels, func(string, string) {}) {
				rt.Fatalf("C13/store-random: entity map JSON law fails")
			}
		default:
			r := ir.Request{Principal: genUID(rt), Action: genUID(rt), Resource: genUID(rt), Context: ir.Rec(genFields(rt, 2, 4)...)}
			c := &Case{Kind: "request", Req: &r, Seq: genSeq(rt)}
			if !run(c, "request-random", true, []string{"request"}, func(string, string) {}) {
				rt.Fatalf("C13/request-random: request JSON law fails")
			}
		}
	})
}

func genDiagItem(rt *rapid.T, msg bool) DiagItem {
	it := DiagItem{ID: genString(rt), Pos: PosIR{File: gen.Pick(rt, []string{"", "a.cedar", "<>&.cedar", " "}, "file"), Off: rapid.IntRange(0, 100000).Draw(rt, "off"), Line: rapid.IntRange(0, 5000).Draw(rt, "line"), Col: rapid.IntRange(0, 300).Draw(rt, "col")}}
	if gen.Chance(rt, 10, "bigpos") {
		it.Pos.Off = gen.Pick(rt, []int{math.MaxInt64, math.MinInt64, -1, 1 << 53}, "posedge")
	}
	if msg {
		it.Msg = genString(rt)
	}
	return it
}

func TestRandomDiagnostics(t *testing.T) {
	ev.SetChecks(ev.Scale(3000, 200000))
	ev.Check(t, func(rt *rapid.T) {
		d := &DiagIR{Allow: rapid.Bool().Draw(rt, "allow")}
		for i := rapid.IntRange(0, 3).Draw(rt, "nr"); i > 0; i-- {
			d.Reasons = append(d.Reasons, genDiagItem(rt, false))
		}
		for i := rapid.IntRange(0, 3).Draw(rt, "ne"); i > 0; i-- {
			d.Errors = append(d.Errors, genDiagItem(rt, true))
		}
		c := &Case{Kind: "diag", Diag: d, Seq: genSeq(rt)}
		if !run(c, "diag-random", len(d.Reasons)+len(d.Errors) > 0, []string{"diag"}, func(string, string) {}) {
			rt.Fatalf("C13/diag-random: decision / diagnostic JSON law fails")
		}
	})
}

// TestNumbers: integers around the int64 ends (and far outside), and other JSON number spellings, in every value position.
func TestNumbers(t *testing.T) {
	if !ev.First() {
		return
	}
	fail := tableFail(t)
	var nums []string
	two63 := new(big.Int).Lsh(big.NewInt(1), 63)
	two64 := new(big.Int).Lsh(big.NewInt(1), 64)
	for d := int64(-3); d <= 3; d++ {
		for _, base := range []*big.Int{two63, new(big.Int).Neg(two63), two64, new(big.Int).Neg(two64), new(big.Int).Lsh(big.NewInt(1), 53), big.NewInt(0), new(big.Int).Lsh(big.NewInt(1), 31), new(big.Int).Lsh(big.NewInt(1), 32), new(big.Int).Mul(two64, big.NewInt(3))} {
			nums = append(nums, new(big.Int).Add(base, big.NewInt(d)).String())
		}
	}
	nums = append(nums, "-0", "1.0", "1.5", "-1.0", "1e2", "1E2", "1e+2", "100e-2", "1e0", "0.0", "9223372036854775807.0", "9223372036854775808.0", "9.223372036854775807e18", "9.223372036854775808e18", "1e19", "-1e19", "1e400", "0e0", "123456789012345678901234567890", "-123456789012345678901234567890",
		"9223372036854775807e0", "92233720368547758070e-1", "18446744073709551617", "36893488147419103232", "9007199254740993", "-9007199254740993")
	n := 0
	for _, s := range nums {
		for w := 0; w <= 4; w++ {
			n++
			run(&Case{Kind: "number", Num: s, Where: w}, "number-table", true, nil, fail)
		}
	}
	ev.R.Space("JSON numbers around +-2^63, +-2^64, 3*2^64, 2^53 and non-integer spellings x value position (bare, set, record, entity attribute+tag, request context)", n)
}

func TestRandomNumbers(t *testing.T) {
	ev.SetChecks(ev.Scale(4000, 300000))
	ev.Check(t, func(rt *rapid.T) {
		var s string
		switch rapid.IntRange(0, 3).Draw(rt, "nsrc") {
		case 0:
			s = big.NewInt(gen.LongVal(rt)).String()
		case 1: // k * 2^64 + small: wraps to a small number if truncated
			k := big.NewInt(int64(rapid.IntRange(-5, 5).Draw(rt, "k")))
			x := new(big.Int).Lsh(k, 64)
			x.Add(x, big.NewInt(gen.LongVal(rt)))
			s = x.String()
		case 2:
			x := new(big.Int).SetInt64(rapid.Int64().Draw(rt, "a"))
			x.Mul(x, big.NewInt(int64(rapid.IntRange(1, 1000).Draw(rt, "m"))))
			s = x.String()
		default:
			s = big.NewInt(int64(rapid.IntRange(-1000, 1000).Draw(rt, "mant"))).String() + gen.Pick(rt, []string{".0", ".5", "e0", "e1", "e18", "e19", "E-1", ".25e2"}, "suffix")
		}
		c := &Case{Kind: "number", Num: s, Where: rapid.IntRange(0, 4).Draw(rt, "where")}
		if !run(c, "number-random", true, nil, func(string, string) {}) {
			rt.Fatalf("C13/number-random: a JSON number decodes to a different long")
		}
	})
}

// ---------------------------------------------------------------------------------------------
// schema-guided coercion

var schemaTypeNames = []string{"T0", "T1", "NS::T2"}

func genTy(rt *rapid.T, depth int) Ty {
	kinds := []string{"long", "string", "bool", "entity", "entity", "ext", "ext", "ext"}
	if depth > 0 {
		kinds = append(kinds, "set", "set", "record")
	}
	switch k := gen.Pick(rt, kinds, "tyk"); k {
	case "entity":
		return Ty{K: k, Name: gen.Pick(rt, schemaTypeNames, "tyent")}
	case "ext":
		return Ty{K: k, Name: gen.Pick(rt, []string{"decimal", "ipaddr", "datetime", "duration"}, "tyext")}
	case "set":
		el := genTy(rt, depth-1)
		return Ty{K: k, Elem: &el}
	case "record":
		return genRecordTy(rt, depth-1, 3)
	default:
		return Ty{K: k}
	}
}

func genRecordTy(rt *rapid.T, depth, max int) Ty {
	t := Ty{K: "record"}
	seen := map[string]bool{}
	for i := rapid.IntRange(0, max).Draw(rt, "nfields"); i > 0; i-- {
		k := gen.Pick(rt, []string{"a", "b", "k", "type", "id", "fn", "arg", "__tag", "if", "", "é", "x y"}, "fname")
		if seen[k] {
			continue
		}
		seen[k] = true
		t.Fields = append(t.Fields, TyField{K: k, T: genTy(rt, depth), Optional: gen.Chance(rt, 30, "opt")})
	}
	return t
}

func genOfTy(rt *rapid.T, t Ty) ir.Value {
	switch t.K {
	case "long":
		return ir.Long(gen.LongVal(rt))
	case "string":
		return ir.Str(gen.Pick(rt, []string{"", "a", "1.5", "127.0.0.1", "2024-01-01", "1h", "T0", "é"}, "sv"))
	case "bool":
		return ir.Bool(rapid.Bool().Draw(rt, "bv"))
	case "entity":
		return ir.Ent(t.Name, gen.Pick(rt, []string{"a", "b", "", "x\"y", "é"}, "eid"))
	case "ext":
		o := gen.ValOpts{MappedIP: false}
		var v ir.Value
		switch t.Name {
		case "decimal":
			v = ir.Decimal(gen.DecimalVal(rt))
		case "ipaddr":
			v = gen.IPVal(rt, o.MappedIP)
		case "datetime":
			v = ir.Datetime(gen.TimeVal(rt))
			if v.I < minDayLimit {
				v.I = 0
			}
		default:
			v = ir.Duration(gen.TimeVal(rt))
		}
		return v
	case "set":
		out := ir.Set()
		for i := rapid.IntRange(0, 3).Draw(rt, "nelem"); i > 0; i-- {
			x := genOfTy(rt, *t.Elem)
			if !out.Contains(x) {
				out.Elems = append(out.Elems, x)
			}
		}
		return out
	case "record":
		out := ir.Rec()
		for _, f := range t.Fields {
			if f.Optional && gen.Chance(rt, 40, "absent") {
				continue
			}
			out.Fields = append(out.Fields, ir.F(f.K, genOfTy(rt, f.T)))
		}
		return out
	}
	panic("genOfTy " + t.K)
}

func tyHasImplicit(t Ty) bool {
	switch t.K {
	case "entity", "ext":
		return true
	case "set":
		return tyHasImplicit(*t.Elem)
	case "record":
		for _, f := range t.Fields {
			if tyHasImplicit(f.T) {
				return true
			}
		}
	}
	return false
}

func TestRandomCoercion(t *testing.T) {
	ev.SetChecks(ev.Scale(4000, 300000))
	ev.Check(t, func(rt *rapid.T) {
		c := &Case{Kind: "coerce", Seq: genSeq(rt), Mixed: rapid.Bool().Draw(rt, "mixed")}
		nt := false
		for _, name := range schemaTypeNames {
			et := EntTy{Name: name, Shape: genRecordTy(rt, 2, 4)}
			for _, p := range schemaTypeNames {
				if gen.Chance(rt, 40, "ptype") {
					et.Parents = append(et.Parents, p)
				}
			}
			if gen.Chance(rt, 50, "hastags") {
				tt := genTy(rt, 1)
				et.Tags = &tt
				nt = nt || tyHasImplicit(tt)
			}
			nt = nt || tyHasImplicit(et.Shape)
			c.Types = append(c.Types, et)
		}
		for i := rapid.IntRange(1, 4).Draw(rt, "nent"); i > 0; i-- {
			et := c.Types[rapid.IntRange(0, len(c.Types)-1).Draw(rt, "et")]
			e := ir.Entity{UID: ir.Ent(et.Name, gen.Pick(rt, []string{"a", "b", "c", "d"}, "eid"))}
			if _, dup := c.Store.Get(e.UID); dup {
				continue
			}
			for _, p := range et.Parents {
				if gen.Chance(rt, 50, "haspar") {
					e.Parents = append(e.Parents, ir.Ent(p, gen.Pick(rt, []string{"a", "b"}, "pid")))
				}
			}
			e.Attrs = genOfTy(rt, et.Shape).Fields
			if et.Tags != nil {
				for _, k := range []string{"t1", "", "type"} {
					if gen.Chance(rt, 50, "tag") {
						e.Tags = append(e.Tags, ir.F(k, genOfTy(rt, *et.Tags)))
					}
				}
			}
			c.Store = append(c.Store, e)
		}
		if !run(c, "coerce-random", nt, []string{"coerce"}, func(string, string) {}) {
			rt.Fatalf("C13/coerce-random: schema-guided decoding of conforming data fails or differs")
		}
	})
}

// TestTables: deterministic look-alike and spelling tables.
func TestTables(t *testing.T) {
	if !ev.First() {
		return
	}
	fail := tableFail(t)
	n := 0
	ent := ir.Rec(ir.F("type", ir.Str("T0")), ir.F("id", ir.Str("a")))
	ext := ir.Rec(ir.F("fn", ir.Str("ip")), ir.F("arg", ir.Str("1.2.3.4")))
	inners := []ir.Value{ir.Long(5), ir.Str("x"), ir.Bool(true), ir.Set(), ir.Set(ent), ent, ext, ir.Rec(), ir.Rec(ir.F("type", ir.Long(1))), ir.Rec(ir.F("fn", ir.Str("foo")), ir.F("arg", ir.Str("x"))), ir.Ent("T0", "a"), ir.Decimal(15000), ir.Set(ir.Ent("T0", "a"))}
	seqs := [][]int{nil, {0}, {1, 2, 3}, {3, 3, 3, 3}, {2, 1, 0, 3, 5, 7, 11, 13}}
	for _, key := range keyPool {
		for _, in := range inners {
			for _, sq := range seqs {
				for _, v := range []ir.Value{ir.Rec(ir.F(key, in)), ir.Set(ir.Rec(ir.F(key, in), ir.F("z", ir.Long(1)))), ir.Rec(ir.F("o", ir.Rec(ir.F(key, in)))),
					// the exact escape spellings occur elsewhere in the same document: in a sibling that really is an entity / an
					// extension value, and inside a plain string
					ir.Rec(ir.F(key, in), ir.F("owner", ir.Ent("U", "alice")), ir.F("limit", ir.Decimal(15000))),
					ir.Rec(ir.F(key, in), ir.F("s", ir.Str("\"__entity\" \"__extn\"")))} {
					v := v
					n++
					run(&Case{Kind: "value", V: &v, Seq: sq}, "value-table", true, []string{"value:lookalike"}, fail)
				}
			}
		}
		e := ir.Entity{UID: ir.Ent("T0", key), Parents: []ir.Value{ir.Ent("T1", key), ir.Ent("T1", "p")}, Attrs: []ir.Field{ir.F(key, ir.Str(key))}, Tags: []ir.Field{ir.F(key, ir.Set(ir.Str(key)))}}
		for _, sq := range seqs {
			n++
			run(&Case{Kind: "entity", E: &e, Seq: sq, Omit: 7, Dup: true}, "entity-table", true, []string{"entity"}, fail)
		}
	}
	for _, s := range stringPool {
		for _, sq := range seqs {
			for _, v := range []ir.Value{ir.Str(s), ir.Ent("T0", s), ir.Set(ir.Str(s), ir.Ent("T1", s))} {
				v := v
				n++
				run(&Case{Kind: "value", V: &v, Seq: sq}, "value-table", true, nil, fail)
			}
		}
	}
	for _, i := range append(append([]int64{}, gen.TimeBoundary...), gen.DecimalBoundary...) {
		for _, v := range []ir.Value{ir.Long(i), ir.Decimal(i), ir.Datetime(i), ir.Duration(i)} {
			v := v
			n++
			run(&Case{Kind: "value", V: &v, Seq: []int{1, 2}}, "value-table", true, nil, fail)
		}
	}
	// sets whose members collide in the internal hash table, including at the top of the uint64 range
	for _, v := range []ir.Value{
		ir.Set(ir.Bool(true), ir.Long(1), ir.Decimal(1), ir.Duration(1), ir.Datetime(1), ir.Long(2)), ir.Set(ir.Long(2), ir.Datetime(1), ir.Long(1), ir.Bool(true)),
		ir.Set(ir.Long(-1), ir.Datetime(-1)), ir.Set(ir.Datetime(-1), ir.Long(-1)), ir.Set(ir.Long(-2), ir.Long(-1)), ir.Set(ir.Long(-2), ir.Decimal(-2), ir.Long(-1)), ir.Set(ir.Long(0), ir.Long(-1), ir.Duration(-1)),
		ir.Set(ir.Set(ir.Long(-1)), ir.Long(-1)), ir.Rec(ir.F("s", ir.Set(ir.Decimal(-1), ir.Long(-1), ir.Bool(false)))),
	} {
		v := v
		n++
		run(&Case{Kind: "value", V: &v, Seq: []int{1}}, "value-table", true, []string{"value:colliding-set"}, fail)
	}
	for _, allow := range []bool{true, false} {
		for _, sq := range seqs {
			n++
			run(&Case{Kind: "diag", Diag: &DiagIR{Allow: allow}, Seq: sq}, "diag-table", true, []string{"diag"}, fail)
		}
	}
	ev.R.Space("look-alike table: every pool key x inner value x nesting x emitter variant; every pool string as string / entity id; boundary scalars; decisions", n)
}

func TestKnown(t *testing.T) {
	if !ev.First() {
		return
	}
	mapped, minDT := gen.IPMappedPool[2], ir.Datetime(math.MinInt64)
	folded := ir.Rec(ir.F("__Entity", ir.Rec(ir.F("type", ir.Str("T")), ir.F("id", ir.Str("x")))))
	wrapSet := ir.Set(ir.Long(-1), ir.Datetime(-1))
	for _, k := range []struct {
		key string
		c   *Case
		txt string
	}{
		{"ipv4-mapped-string", &Case{Kind: "value", V: &mapped}, "ip(\"::ffff:102:304\")"},
		{"datetime-min-day", &Case{Kind: "value", V: &minDT}, "Datetime(MinInt64 ms)"},
		{"json-escape-key-case", &Case{Kind: "value", V: &folded}, "Record{\"__Entity\": {type, id}}"},
		{"set-order-wrap", &Case{Kind: "value", V: &wrapSet}, "NewSet(Long(-1), Datetime(-1ms))"},
	} {
		if !ev.KnownOpen("C13", k.key) {
			continue
		}
		if sub, msg := check(k.c); sub != "" {
			ev.R.KnownFinding(k.key, k.txt+": "+msg)
		}
	}
	if ev.KnownOpen("C13", "decision-escaped") {
		// temporarily evaluate the escaped leg directly
		e := &emitter{seq: []int{3, 0}}
		doc := e.str("allow")
		if sub, msg := decisionDoc(doc, true); sub != "" {
			ev.R.KnownFinding("decision-escaped", msg)
		}
	}
}
