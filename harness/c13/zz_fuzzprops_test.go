package c13

// Coverage-guided driving of this package's rapid properties (thorough tier; see ev/fuzz.go).

import (
	"testing"

	"verif/ev"
)

var fuzzProps = map[string]func(*testing.T){
	"FuzzPropRandomValues": TestRandomValues,
	"FuzzPropRandomEntities": TestRandomEntities,
	"FuzzPropRandomCoercion": TestRandomCoercion,
}

func FuzzPropRandomValues(f *testing.F) { ev.FuzzProp(f, TestRandomValues) }
func FuzzPropRandomEntities(f *testing.F) { ev.FuzzProp(f, TestRandomEntities) }
func FuzzPropRandomCoercion(f *testing.F) { ev.FuzzProp(f, TestRandomCoercion) }
