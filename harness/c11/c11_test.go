// C11: value equality, hashing, sets and records obey their algebraic laws; values are immutable.
//
// Oracle: the harness IR (structural, quadratic equality and set membership in package ir). Observation points: types.Value.Equal,
// Set.Len/Contains/Slice/All/Iterate/Equal, Record.Len/Get/Keys/All/Values/Map/Iterate/Equal, MarshalCedar/MarshalJSON bytes (decoded
// again), NewEntityUIDSet, and `==`, `!=`, contains, containsAll, containsAny, isEmpty, has, `.` through x/exp/eval.Eval.
//
// Carve-outs (the check is weaker than the statement here):
//   - byte identity of MarshalCedar/MarshalJSON of *equal but differently built* sets is not asserted (documented "hash order");
//   - when the Cedar text of a value does not parse at all (record keys needing escapes, U+FFFD, IPv4-mapped addresses, first day of the
//     datetime range) the "text forms of equal values decode to equal values" clause is skipped for that value and counted under the label
//     text-undecodable; "the rendering parses" is C12's claim and "the JSON decodes" is C13's, where those inputs are reported.
//
// Sensitivity (quick tier, scratch copy of /repo + harness, one mutant at a time; all caught, replay of a mutant's case fails under the
// mutant and passes on the real tree):
//   - NewSet: colliding slot overwritten instead of hash++             -> set/len, set/contains, eq/equal, eval/containsAll, codec/json
//   - Set.Contains gives up after one probe                            -> set/contains, eq/equal, eq/reflexive
//   - Set.Equal compares only length and hashVal                       -> set/unequal, eq/equal, set/contains
//   - NewSet: duplicate check removed                                  -> set/len, set/equal-perm, eq/symmetric, eq/congruent
//   - NewRecord does not clone its input map                           -> immut/changed
//   - Record.Map() returns the internal map                            -> immut/changed
package c11

import (
	"encoding/json"
	"fmt"
	"sort"
	"testing"

	"github.com/cedar-policy/cedar-go/types"
	xast "github.com/cedar-policy/cedar-go/x/exp/ast"
	xeval "github.com/cedar-policy/cedar-go/x/exp/eval"
	"pgregory.net/rapid"

	"verif/conv"
	"verif/ev"
	"verif/gen"
	"verif/ir"
)

func TestMain(m *testing.M) { ev.Main(m, "C11") }

// ---------------------------------------------------------------------------------------------
// Universes

// U is the hash-colliding universe of DESIGN.md: class 0 = {false, 0, decimal 0.0, 0ms, datetime 0, {}, []}, class 1 = {true, 1,
// decimal 0.0001, 1ms, datetime 1ms}, then 2 (the neighbour slot that class 1 spills into) and "1".
var U = []ir.Value{
	ir.Bool(false), ir.Long(0), ir.Decimal(0), ir.Duration(0), ir.Datetime(0), ir.Rec(), ir.Set(),
	ir.Bool(true), ir.Long(1), ir.Decimal(1), ir.Duration(1), ir.Datetime(1),
	ir.Long(2), ir.Str("1"),
}

// UNested: nested sets/records whose summed hashes collide with each other and with scalars.
var UNested = []ir.Value{
	ir.Set(), ir.Set(ir.Long(0)), ir.Set(ir.Bool(false)), ir.Set(ir.Set()), ir.Rec(), ir.Set(ir.Long(1)), ir.Set(ir.Bool(true)), ir.Set(ir.Long(0), ir.Long(1)),
	ir.Long(1), ir.Set(ir.Set(ir.Long(1))),
}

// UWrap: hashes at the top of the uint64 range, so that probing wraps around to slot 0.
var UWrap = []ir.Value{
	ir.Long(-1), ir.Decimal(-1), ir.Duration(-1), ir.Long(0), ir.Bool(false), ir.Long(1), ir.Bool(true), ir.Long(-2), ir.Datetime(-2),
}

// probes: values asked of Contains, members or not.
var probes = func() []ir.Value {
	var out []ir.Value
	add := func(vs ...ir.Value) {
		for _, v := range vs {
			dup := false
			for _, o := range out {
				if ir.Equal(o, v) {
					dup = true
				}
			}
			if !dup {
				out = append(out, v)
			}
		}
	}
	add(U...)
	add(UNested...)
	add(UWrap...)
	add(ir.Ent("A", "bc"), ir.Ent("Ab", "c"), ir.Ent("Abc", ""), ir.Ent("A", "b"), ir.Ent("Ab", ""), ir.Ent("a", "bc"), ir.Ent("A::b", "c"), ir.Str("Abc"))
	add(ir.Long(3), ir.Long(4), ir.Str(""), ir.Str("0"), ir.Ent("T0", "a"), ir.Ent("T0", "1"), ir.Rec(ir.F("a", ir.Long(1))), ir.Rec(ir.F("a", ir.Bool(true))),
		ir.IP([]byte{0, 0, 0, 1}, 32), ir.Decimal(2), ir.Datetime(2), ir.Duration(2), ir.Set(ir.Bool(true), ir.Long(1)), ir.Set(ir.Long(2)))
	return out
}()

var probeVals = toVals(probes)

func toVals(vs []ir.Value) []types.Value {
	out := make([]types.Value, len(vs))
	for i, v := range vs {
		out[i] = conv.ToValue(v)
	}
	return out
}

// hashClass gives the by-design internal hash of a value where the design fixes it (integers hash to themselves, set = sum of members,
// empty record = 0); ok=false for values whose hash is an FNV digest.
func hashClass(v ir.Value) (uint64, bool) {
	switch v.K {
	case ir.KBool:
		if v.B {
			return 1, true
		}
		return 0, true
	case ir.KLong, ir.KDecimal, ir.KDatetime, ir.KDuration:
		return uint64(v.I), true
	case ir.KSet:
		var sum uint64
		for _, e := range v.Distinct() {
			h, ok := hashClass(e)
			if !ok {
				return 0, false
			}
			sum += h
		}
		return sum, true
	case ir.KRecord:
		if len(v.Fields) == 0 {
			return 0, true
		}
	}
	return 0, false
}

// seqLabels classifies a sequence: nontrivial iff it holds two distinct members with the same designed hash, or a duplicate.
func seqLabels(seq []ir.Value) (nt bool, labels []string) {
	dist := ir.Set(seq...).Distinct()
	if len(dist) < len(seq) {
		nt = true
		labels = append(labels, "duplicate")
	}
	byClass := map[uint64]int{}
	for _, v := range dist {
		if h, ok := hashClass(v); ok {
			byClass[h]++
		}
	}
	maxChain := 0
	for _, n := range byClass {
		if n > maxChain {
			maxChain = n
		}
	}
	if maxChain >= 2 {
		nt = true
		labels = append(labels, "collision")
	}
	if maxChain >= 3 {
		labels = append(labels, "collision-chain>=3")
	}
	// duplicate after collision: a repeated member whose class already holds another distinct member before the repeat
	for i, v := range seq {
		h, ok := hashClass(v)
		if !ok {
			continue
		}
		seenSame, seenOther := false, false
		for _, w := range seq[:i] {
			if ir.Equal(v, w) {
				seenSame = true
			} else if g, ok2 := hashClass(w); ok2 && g == h {
				seenOther = true
			}
		}
		if seenSame && seenOther {
			labels = append(labels, "duplicate-after-collision")
			break
		}
	}
	for _, v := range dist {
		if v.K == ir.KSet || v.K == ir.KRecord {
			labels = append(labels, "nested-member")
			break
		}
	}
	return
}

// ---------------------------------------------------------------------------------------------
// Cases

type Op struct {
	K    string     `json:"k"`
	T    int        `json:"t,omitempty"`
	I    int        `json:"i,omitempty"`
	J    int        `json:"j,omitempty"`
	Vs   []ir.Value `json:"vs,omitempty"`
	Ks   []string   `json:"ks,omitempty"`
	Refs []int      `json:"refs,omitempty"`
	V    *ir.Value  `json:"v,omitempty"`
	Key  string     `json:"key,omitempty"`
}

type Case struct {
	Kind  string     `json:"kind"` // seq | pair | triple | codec | rec | hist
	Seq   []ir.Value `json:"seq,omitempty"`
	Perm  []int      `json:"perm,omitempty"`  // seq kind: an additional construction order (indexes into Seq, repeats allowed)
	Extra []ir.Value `json:"extra,omitempty"` // seq kind: additional Contains probes
	A     *ir.Value  `json:"a,omitempty"`
	B     *ir.Value  `json:"b,omitempty"`
	C     *ir.Value  `json:"c,omitempty"`
	Ops   []Op       `json:"ops,omitempty"`
}

var env = conv.EmptyEnv()

func lit(v types.Value) xast.IsNode { return xast.NodeValue{Value: v} }
func bin(l, r xast.IsNode) xast.BinaryNode {
	return xast.BinaryNode{Left: l, Right: r}
}

func evalBool(n xast.IsNode) (bool, error) {
	v, err := xeval.Eval(n, env)
	if err != nil {
		return false, err
	}
	b, ok := v.(types.Boolean)
	if !ok {
		return false, fmt.Errorf("result is %T, not Boolean", v)
	}
	return bool(b), nil
}

// check runs one case and returns (sub-check, message), or ("","") when the laws hold.
func check(c *Case) (sub, msg string) {
	defer func() {
		if r := recover(); r != nil {
			sub, msg = c.Kind+"/panic", fmt.Sprintf("panic: %v", r)
		}
	}()
	switch c.Kind {
	case "seq":
		return checkSeq(c)
	case "pair":
		return checkPair(*c.A, *c.B)
	case "triple":
		return checkTriple(*c.A, *c.B, *c.C)
	case "codec":
		return checkCodec(*c.A, *c.B)
	case "rec":
		return checkRec(*c.A, *c.B)
	case "hist":
		return checkHist(c.Ops)
	}
	return "harness", "unknown case kind " + c.Kind
}

// isPermOf reports whether got is a permutation of the distinct members dist (each exactly once).
func isPermOf(got []types.Value, dist []ir.Value) (bool, string) {
	if len(got) != len(dist) {
		return false, fmt.Sprintf("%d elements, %d distinct members expected", len(got), len(dist))
	}
	used := make([]bool, len(dist))
	for _, g := range got {
		gv, err := conv.FromValue(g)
		if err != nil {
			return false, err.Error()
		}
		found := false
		for i, d := range dist {
			if !used[i] && ir.Equal(gv, d) {
				used[i], found = true, true
				break
			}
		}
		if !found {
			return false, fmt.Sprintf("element %s is not an (unused) distinct member", gv.String())
		}
	}
	return true, ""
}

func reversed(vs []ir.Value) []ir.Value {
	out := make([]ir.Value, len(vs))
	for i, v := range vs {
		out[len(vs)-1-i] = v
	}
	return out
}

func subsetOf(a, b ir.Value) bool { // every member of b is in a
	for _, e := range b.Elems {
		if !a.Contains(e) {
			return false
		}
	}
	return true
}

func intersects(a, b ir.Value) bool {
	for _, e := range b.Elems {
		if a.Contains(e) {
			return true
		}
	}
	return false
}

func checkSeq(c *Case) (string, string) {
	seq := c.Seq
	model := ir.Set(seq...)
	dist := model.Distinct()
	vals := toVals(seq)
	s := types.NewSet(vals...)
	if s.Len() != len(dist) {
		return "set/len", fmt.Sprintf("NewSet(%s).Len() = %d, distinct members: %d", model.String(), s.Len(), len(dist))
	}
	// membership: fixed probes, the members themselves (rebuilt), extra probes
	for i, p := range probes {
		if got := s.Contains(probeVals[i]); got != model.Contains(p) {
			return "set/contains", fmt.Sprintf("NewSet(%s).Contains(%s) = %v", model.String(), p.String(), got)
		}
	}
	for _, p := range append(append([]ir.Value{}, seq...), c.Extra...) {
		if got := s.Contains(conv.ToValue(p)); got != model.Contains(p) {
			return "set/contains", fmt.Sprintf("NewSet(%s).Contains(%s) = %v", model.String(), p.String(), got)
		}
	}
	if ok, why := isPermOf(s.Slice(), dist); !ok {
		return "set/slice", fmt.Sprintf("NewSet(%s).Slice(): %s", model.String(), why)
	}
	var all []types.Value
	for v := range s.All() {
		all = append(all, v)
	}
	if ok, why := isPermOf(all, dist); !ok {
		return "set/all", fmt.Sprintf("NewSet(%s).All(): %s", model.String(), why)
	}
	var it []types.Value
	s.Iterate(func(v types.Value) bool { it = append(it, v); return true })
	if ok, why := isPermOf(it, dist); !ok {
		return "set/iterate", fmt.Sprintf("NewSet(%s).Iterate(): %s", model.String(), why)
	}
	// equal across permutations and duplications
	alts := [][]ir.Value{reversed(seq), append(append([]ir.Value{}, seq...), seq...), dist, reversed(dist)}
	if len(seq) > 1 {
		alts = append(alts, append(append([]ir.Value{}, seq[1:]...), seq[0]))
	}
	if len(c.Perm) > 0 {
		var p []ir.Value
		for _, i := range c.Perm {
			p = append(p, seq[((i%len(seq))+len(seq))%len(seq)])
		}
		// a construction order is only an alternative spelling of the same set if it mentions every member
		if ir.Equal(ir.Set(p...), model) {
			alts = append(alts, p)
		}
	}
	for _, a := range alts {
		t := types.NewSet(toVals(a)...)
		if !s.Equal(t) || !t.Equal(s) {
			return "set/equal-perm", fmt.Sprintf("NewSet(%s) and NewSet(%s) are not Equal (%v / %v)", model.String(), ir.Set(a...).String(), s.Equal(t), t.Equal(s))
		}
		if t.Len() != len(dist) {
			return "set/len", fmt.Sprintf("NewSet(%s).Len() = %d, distinct members: %d", ir.Set(a...).String(), t.Len(), len(dist))
		}
	}
	// unequal to sets with a different distinct-set
	var others []ir.Value
	if len(dist) > 0 {
		others = append(others, ir.Set(dist[1:]...), ir.Set(dist[:len(dist)-1]...))
	}
	nAdded := 0
	for _, q := range probes {
		if model.Contains(q) {
			continue
		}
		// one more member; and same size with one member swapped for q (if q collides with it, the summed hashes agree)
		if nAdded < 2 {
			others = append(others, ir.Set(append(append([]ir.Value{}, dist...), q)...))
		}
		if len(dist) > 0 {
			if h0, ok0 := hashClass(dist[0]); ok0 {
				if hq, okq := hashClass(q); okq && hq == h0 {
					others = append(others, ir.Set(append([]ir.Value{q}, dist[1:]...)...))
				}
			}
		}
		nAdded++
		if nAdded >= 12 {
			break
		}
	}
	for _, o := range others {
		t := types.NewSet(toVals(o.Elems)...)
		if s.Equal(t) || t.Equal(s) {
			return "set/unequal", fmt.Sprintf("NewSet(%s) and NewSet(%s) are Equal (%v / %v) although their members differ", model.String(), o.String(), s.Equal(t), t.Equal(s))
		}
	}
	if s.Equal(types.Long(len(dist))) || s.Equal(conv.ToRecord(nil)) || s.Equal(types.Boolean(len(dist) == 1)) {
		return "set/unequal", fmt.Sprintf("NewSet(%s) equals a non-set", model.String())
	}

	// the same through the evaluator
	sn := lit(s)
	elems := make([]xast.IsNode, len(vals))
	for i, v := range vals {
		elems[i] = lit(v)
	}
	setLit := xast.NodeTypeSet{Elements: elems}
	canon := lit(types.NewSet(toVals(reversed(dist))...))
	for _, n := range []xast.IsNode{xast.NodeTypeEquals{BinaryNode: bin(setLit, canon)}, xast.NodeTypeEquals{BinaryNode: bin(canon, setLit)}, xast.NodeTypeEquals{BinaryNode: bin(sn, setLit)}} {
		if b, err := evalBool(n); err != nil || !b {
			return "eval/set-equal", fmt.Sprintf("set literal %s == set of its distinct members evaluates to %v (err %v)", model.String(), b, err)
		}
	}
	if b, err := evalBool(xast.NodeTypeIsEmpty{UnaryNode: xast.UnaryNode{Arg: setLit}}); err != nil || b != (len(dist) == 0) {
		return "eval/isEmpty", fmt.Sprintf("%s.isEmpty() evaluates to %v (err %v)", model.String(), b, err)
	}
	for i, p := range probes[:len(U)] {
		recv := xast.IsNode(sn)
		if i%2 == 1 {
			recv = setLit
		}
		if b, err := evalBool(xast.NodeTypeContains{BinaryNode: bin(recv, lit(probeVals[i]))}); err != nil || b != model.Contains(p) {
			return "eval/contains", fmt.Sprintf("%s.contains(%s) evaluates to %v (err %v)", model.String(), p.String(), b, err)
		}
	}
	others = append(others, ir.Set(reversed(seq)...), ir.Set())
	for _, o := range others {
		on := lit(types.NewSet(toVals(o.Elems)...))
		type q struct {
			name string
			n    xast.IsNode
			want bool
		}
		for _, x := range []q{
			{"containsAll", xast.NodeTypeContainsAll{BinaryNode: bin(sn, on)}, subsetOf(model, o)},
			{"containsAll", xast.NodeTypeContainsAll{BinaryNode: bin(on, setLit)}, subsetOf(o, model)},
			{"containsAny", xast.NodeTypeContainsAny{BinaryNode: bin(sn, on)}, intersects(model, o)},
			{"containsAny", xast.NodeTypeContainsAny{BinaryNode: bin(on, sn)}, intersects(o, model)},
			{"==", xast.NodeTypeEquals{BinaryNode: bin(sn, on)}, ir.Equal(model, o)},
			{"!=", xast.NodeTypeNotEquals{BinaryNode: bin(on, sn)}, !ir.Equal(model, o)},
		} {
			if b, err := evalBool(x.n); err != nil || b != x.want {
				return "eval/" + x.name, fmt.Sprintf("%s over %s and %s evaluates to %v (err %v), expected %v", x.name, model.String(), o.String(), b, err, x.want)
			}
		}
	}
	return "", ""
}

func checkPair(a, b ir.Value) (string, string) {
	va, vb := conv.ToValue(a), conv.ToValue(b)
	want := ir.Equal(a, b)
	if got := va.Equal(vb); got != want {
		return "eq/equal", fmt.Sprintf("(%s).Equal(%s) = %v", a.String(), b.String(), got)
	}
	if got := vb.Equal(va); got != want {
		return "eq/symmetric", fmt.Sprintf("(%s).Equal(%s) = %v but the converse is %v", b.String(), a.String(), got, want)
	}
	if !va.Equal(conv.ToValue(a)) {
		return "eq/reflexive", fmt.Sprintf("%s is not Equal to a second construction of itself", a.String())
	}
	if b1, err := evalBool(xast.NodeTypeEquals{BinaryNode: bin(lit(va), lit(vb))}); err != nil || b1 != want {
		return "eval/==", fmt.Sprintf("%s == %s evaluates to %v (err %v)", a.String(), b.String(), b1, err)
	}
	if b1, err := evalBool(xast.NodeTypeNotEquals{BinaryNode: bin(lit(va), lit(vb))}); err != nil || b1 == want {
		return "eval/!=", fmt.Sprintf("%s != %s evaluates to %v (err %v)", a.String(), b.String(), b1, err)
	}
	// a singleton set of a contains b iff equal (hash lookup must agree with Equal)
	if got := types.NewSet(va).Contains(vb); got != want {
		return "eq/set-contains", fmt.Sprintf("NewSet(%s).Contains(%s) = %v", a.String(), b.String(), got)
	}
	return "", ""
}

func checkTriple(a, b, c ir.Value) (string, string) {
	va, vb, vc := conv.ToValue(a), conv.ToValue(b), conv.ToValue(c)
	ab, bc, ac := va.Equal(vb), vb.Equal(vc), va.Equal(vc)
	if ab && bc && !ac {
		return "eq/transitive", fmt.Sprintf("%s = %s and %s = %s but not %s = %s", a.String(), b.String(), b.String(), c.String(), a.String(), c.String())
	}
	if ab && ac != bc {
		return "eq/congruent", fmt.Sprintf("%s = %s but they compare differently with %s", a.String(), b.String(), c.String())
	}
	// a two-member set behaves like its members
	s := types.NewSet(va, vb)
	wantLen := 2
	if ir.Equal(a, b) {
		wantLen = 1
	}
	if s.Len() != wantLen || s.Contains(vc) != (ir.Equal(a, c) || ir.Equal(b, c)) {
		return "eq/set-of-two", fmt.Sprintf("NewSet(%s, %s): Len %d, Contains(%s) = %v", a.String(), b.String(), s.Len(), c.String(), s.Contains(vc))
	}
	return "", ""
}

// decodeJSON / decodeText: the value read back from the two external forms.
func decodeJSON(v types.Value) (types.Value, error) {
	b, err := json.Marshal(v)
	if err != nil {
		return nil, err
	}
	var out types.Value
	if err := types.UnmarshalJSON(b, &out); err != nil {
		return nil, fmt.Errorf("%s: %w", b, err)
	}
	return out, nil
}

func checkCodec(a, b ir.Value) (string, string) {
	if !ir.Equal(a, b) {
		return "harness", "codec case with unequal values"
	}
	va, vb := conv.ToValue(a), conv.ToValue(b)
	ja, errA := decodeJSON(va)
	jb, errB := decodeJSON(vb)
	if errA != nil || errB != nil {
		// the JSON of one of them does not decode at all: C13's claim, not this one
		ev.R.Label("json-undecodable", 1)
	} else {
		if !ja.Equal(jb) || !jb.Equal(ja) {
			return "codec/json", fmt.Sprintf("JSON forms of equal values %s and %s decode to unequal values %v / %v", a.String(), b.String(), ja, jb)
		}
		if g, err := conv.FromValue(ja); err != nil || !ir.Equal(g, a) {
			return "codec/json", fmt.Sprintf("JSON form of %s decodes to %v", a.String(), ja)
		}
		if !ja.Equal(va) {
			return "codec/json", fmt.Sprintf("JSON form of %s decodes to a value that is not Equal to it: %v", a.String(), ja)
		}
	}
	ta, errA := conv.ParseValueText(string(va.MarshalCedar()))
	tb, errB := conv.ParseValueText(string(vb.MarshalCedar()))
	if errA != nil || errB != nil {
		ev.R.Label("text-undecodable", 1)
		return "", ""
	}
	if !ta.Equal(tb) || !tb.Equal(ta) {
		return "codec/text", fmt.Sprintf("text forms %s and %s of equal values decode to unequal values", va.MarshalCedar(), vb.MarshalCedar())
	}
	if g, err := conv.FromValue(ta); err != nil || !ir.Equal(g, a) {
		return "codec/text", fmt.Sprintf("text form %s of %s decodes to %v", va.MarshalCedar(), a.String(), ta)
	}
	if !ta.Equal(va) || !va.Equal(ta) {
		return "codec/text", fmt.Sprintf("text form %s decodes to a value that is not Equal to the original", va.MarshalCedar())
	}
	return "", ""
}

var recKeys = []string{"", "a", "b", "k", "x", "if", "zz"}

func checkRec(a, b ir.Value) (string, string) {
	ra, rb := conv.ToRecord(a.Fields), conv.ToRecord(b.Fields)
	ka := a.SortedKeys()
	if ra.Len() != len(ka) {
		return "rec/len", fmt.Sprintf("%s: Len() = %d", a.String(), ra.Len())
	}
	for _, k := range append(append([]string{}, recKeys...), append(ka, b.SortedKeys()...)...) {
		want, has := a.Get(k)
		got, ok := ra.Get(types.String(k))
		if ok != has {
			return "rec/get", fmt.Sprintf("%s: Get(%q) present=%v", a.String(), k, ok)
		}
		if ok {
			if g, err := conv.FromValue(got); err != nil || !ir.Equal(g, want) {
				return "rec/get", fmt.Sprintf("%s: Get(%q) = %v", a.String(), k, got)
			}
		}
		hb, err := evalBool(xast.NodeTypeHas{StrOpNode: xast.StrOpNode{Arg: lit(ra), Value: types.String(k)}})
		if err != nil || hb != has {
			return "eval/has", fmt.Sprintf("%s has %q evaluates to %v (err %v)", a.String(), k, hb, err)
		}
		av, err := xeval.Eval(xast.NodeTypeAccess{StrOpNode: xast.StrOpNode{Arg: lit(ra), Value: types.String(k)}}, env)
		if (err == nil) != has {
			return "eval/access", fmt.Sprintf("%s[%q] evaluates to %v (err %v)", a.String(), k, av, err)
		}
		if has {
			if g, e2 := conv.FromValue(av); e2 != nil || !ir.Equal(g, want) {
				return "eval/access", fmt.Sprintf("%s[%q] evaluates to %v", a.String(), k, av)
			}
		}
	}
	// iterators and Map agree with the model
	var keys, keys2, keys3 []string
	for k := range ra.Keys() {
		keys = append(keys, string(k))
	}
	for k, v := range ra.All() {
		keys2 = append(keys2, string(k))
		want, _ := a.Get(string(k))
		if g, err := conv.FromValue(v); err != nil || !ir.Equal(g, want) {
			return "rec/all", fmt.Sprintf("%s: All() yields %q: %v", a.String(), string(k), v)
		}
	}
	ra.Iterate(func(k types.String, _ types.Value) bool { keys3 = append(keys3, string(k)); return true })
	nvals := 0
	for range ra.Values() {
		nvals++
	}
	m := ra.Map()
	var keys4 []string
	for k := range m {
		keys4 = append(keys4, string(k))
	}
	for _, ks := range [][]string{keys, keys2, keys3, keys4} {
		sort.Strings(ks)
		if fmt.Sprint(ks) != fmt.Sprint(ka) {
			return "rec/keys", fmt.Sprintf("%s: an iterator / Map() yields keys %q", a.String(), ks)
		}
	}
	if nvals != len(ka) {
		return "rec/values", fmt.Sprintf("%s: Values() yields %d values", a.String(), nvals)
	}
	want := ir.Equal(a, b)
	if ra.Equal(rb) != want || rb.Equal(ra) != want {
		return "rec/equal", fmt.Sprintf("(%s).Equal(%s) = %v / converse %v, expected %v", a.String(), b.String(), ra.Equal(rb), rb.Equal(ra), want)
	}
	if !ra.Equal(conv.ToRecord(reverseFields(a.Fields))) {
		return "rec/equal", fmt.Sprintf("%s is not Equal to itself rebuilt", a.String())
	}
	if ra.Equal(types.NewSet()) || ra.Equal(types.Long(0)) {
		return "rec/equal", fmt.Sprintf("%s equals a non-record", a.String())
	}
	if b1, err := evalBool(xast.NodeTypeEquals{BinaryNode: bin(lit(ra), lit(rb))}); err != nil || b1 != want {
		return "eval/==", fmt.Sprintf("%s == %s evaluates to %v (err %v)", a.String(), b.String(), b1, err)
	}
	// record literal evaluation builds the same record
	els := make([]xast.RecordElementNode, len(a.Fields))
	for i, f := range a.Fields {
		els[i] = xast.RecordElementNode{Key: types.String(f.K), Value: lit(conv.ToValue(f.V))}
	}
	if b1, err := evalBool(xast.NodeTypeEquals{BinaryNode: bin(xast.NodeTypeRecord{Elements: els}, lit(rb))}); err != nil || b1 != want {
		return "eval/record-literal", fmt.Sprintf("record literal %s == %s evaluates to %v (err %v)", a.String(), b.String(), b1, err)
	}
	// set membership of records goes through hash + Equal
	if got := types.NewSet(ra).Contains(rb); got != want {
		return "rec/set-contains", fmt.Sprintf("NewSet(%s).Contains(%s) = %v", a.String(), b.String(), got)
	}
	return "", ""
}

func reverseFields(fs []ir.Field) []ir.Field {
	out := make([]ir.Field, len(fs))
	for i, f := range fs {
		out[len(fs)-1-i] = f
	}
	return out
}

// ---------------------------------------------------------------------------------------------
// Immutability histories

type obj struct {
	kind   string // set | rec | uids
	val    types.Value
	uids   types.EntityUIDSet
	snap   ir.Value
	inS    []types.Value
	inM    types.RecordMap
	inU    []types.EntityUID
	outS   [][]types.Value
	outM   []types.RecordMap
	outU   [][]types.EntityUID
	nested []types.Value // values handed out by accessors
}

func mod(i, n int) int {
	if n == 0 {
		return 0
	}
	return ((i % n) + n) % n
}

func verify(objs []*obj, step int, op Op) (string, string) {
	for oi, o := range objs {
		where := fmt.Sprintf("after step %d (%s): object %d (%s, built as %s)", step, op.K, oi, o.kind, o.snap.String())
		switch o.kind {
		case "set", "rec":
			got, err := conv.FromValue(o.val)
			if err != nil {
				return "immut/changed", where + ": unreadable: " + err.Error()
			}
			if !ir.Equal(got, o.snap) {
				return "immut/changed", where + " now reads " + got.String()
			}
			if !o.val.Equal(conv.ToValue(o.snap)) || !conv.ToValue(o.snap).Equal(o.val) {
				return "immut/changed", where + " is no longer Equal to a fresh copy of its original content"
			}
			if s, ok := o.val.(types.Set); ok {
				d := o.snap.Distinct()
				if s.Len() != len(d) {
					return "immut/changed", where + fmt.Sprintf(" has Len %d", s.Len())
				}
				for _, m := range d {
					if !s.Contains(conv.ToValue(m)) {
						return "immut/changed", where + " no longer contains " + m.String()
					}
				}
			}
			if r, ok := o.val.(types.Record); ok {
				if r.Len() != len(o.snap.SortedKeys()) {
					return "immut/changed", where + fmt.Sprintf(" has Len %d", r.Len())
				}
			}
		case "uids":
			d := o.snap.Distinct()
			if o.uids.Len() != len(d) {
				return "immut/changed", where + fmt.Sprintf(" has Len %d", o.uids.Len())
			}
			for _, m := range d {
				if !o.uids.Contains(conv.ToEntityUID(m)) {
					return "immut/changed", where + " no longer contains " + m.String()
				}
			}
			n := 0
			for u := range o.uids.All() {
				n++
				if !o.snap.Contains(conv.FromEntityUID(u)) {
					return "immut/changed", where + " now contains " + u.String()
				}
			}
			if n != len(d) {
				return "immut/changed", where + fmt.Sprintf(" iterates %d members", n)
			}
		}
	}
	return "", ""
}

func checkHist(ops []Op) (string, string) {
	var objs []*obj
	pickObj := func(i int, kinds ...string) *obj {
		var c []*obj
		for _, o := range objs {
			for _, k := range kinds {
				if o.kind == k {
					c = append(c, o)
				}
			}
		}
		if len(c) == 0 {
			return nil
		}
		return c[mod(i, len(c))]
	}
	val := func(op Op) types.Value {
		if op.V == nil {
			return types.Long(99)
		}
		return conv.ToValue(*op.V)
	}
	for step, op := range ops {
		switch op.K {
		case "newset":
			in := toVals(op.Vs)
			snap := ir.Set(op.Vs...)
			for _, r := range op.Refs {
				if o := pickObj(r, "set", "rec"); o != nil {
					in = append(in, o.val)
					snap.Elems = append(snap.Elems, o.snap)
				}
			}
			objs = append(objs, &obj{kind: "set", val: types.NewSet(in...), snap: snap, inS: in})
		case "newrec":
			m := types.RecordMap{}
			snap := ir.Rec()
			for i, k := range op.Ks {
				if _, dup := m[types.String(k)]; dup || i >= len(op.Vs) {
					continue
				}
				m[types.String(k)] = conv.ToValue(op.Vs[i])
				snap.Fields = append(snap.Fields, ir.F(k, op.Vs[i]))
			}
			for i, r := range op.Refs {
				k := fmt.Sprintf("ref%d", i)
				if o := pickObj(r, "set", "rec"); o != nil {
					m[types.String(k)] = o.val
					snap.Fields = append(snap.Fields, ir.F(k, o.snap))
				}
			}
			objs = append(objs, &obj{kind: "rec", val: types.NewRecord(m), snap: snap, inM: m})
		case "newuids":
			in := make([]types.EntityUID, len(op.Vs))
			for i, v := range op.Vs {
				in[i] = conv.ToEntityUID(v)
			}
			objs = append(objs, &obj{kind: "uids", uids: types.NewEntityUIDSet(in...), snap: ir.Set(op.Vs...), inU: in})
		case "mut-in": // mutate what was passed to the constructor
			if o := pickObj(op.T, "set", "rec", "uids"); o != nil {
				switch {
				case o.inS != nil && len(o.inS) > 0:
					o.inS[mod(op.I, len(o.inS))] = val(op)
					if op.J%3 == 0 {
						for i := range o.inS {
							o.inS[i] = val(op)
						}
					}
				case o.inM != nil:
					o.inM[types.String(op.Key)] = val(op)
					if op.J%2 == 0 {
						for k := range o.inM {
							if op.J%4 == 0 {
								delete(o.inM, k)
							} else {
								o.inM[k] = val(op)
							}
						}
					}
				case len(o.inU) > 0:
					o.inU[mod(op.I, len(o.inU))] = types.NewEntityUID("Mut", "x")
				}
			}
		case "out": // obtain an accessor output and mutate it
			if o := pickObj(op.T, "set", "rec", "uids"); o != nil {
				switch o.kind {
				case "set":
					s := o.val.(types.Set)
					out := s.Slice()
					if op.J%2 == 1 {
						out = nil
						for v := range s.All() {
							out = append(out, v)
						}
					}
					o.nested = append(o.nested, out...)
					if len(out) > 0 {
						out[mod(op.I, len(out))] = val(op)
						out[0] = val(op)
						o.outS = append(o.outS, out)
					}
				case "rec":
					r := o.val.(types.Record)
					m := r.Map()
					if m != nil {
						for _, v := range m {
							o.nested = append(o.nested, v)
						}
						m[types.String(op.Key)] = val(op)
						for k := range m {
							if op.J%3 == 0 {
								delete(m, k)
							} else {
								m[k] = val(op)
							}
						}
						o.outM = append(o.outM, m)
					}
				case "uids":
					out := o.uids.Slice()
					if len(out) > 0 {
						out[mod(op.I, len(out))] = types.NewEntityUID("Mut", "y")
						o.outU = append(o.outU, out)
					}
				}
			}
		case "mut-out": // mutate an output obtained earlier, again
			if o := pickObj(op.T, "set", "rec", "uids"); o != nil {
				if len(o.outS) > 0 {
					out := o.outS[mod(op.J, len(o.outS))]
					out[mod(op.I, len(out))] = val(op)
				}
				if len(o.outM) > 0 {
					o.outM[mod(op.J, len(o.outM))][types.String(op.Key)] = val(op)
				}
				if len(o.outU) > 0 {
					out := o.outU[mod(op.J, len(o.outU))]
					out[mod(op.I, len(out))] = types.NewEntityUID("Mut", "z")
				}
			}
		case "decode-into-copy": // assign the value to a new variable and decode a JSON document into that copy
			if o := pickObj(op.T, "set", "rec", "uids"); o != nil {
				switch o.kind {
				case "set":
					cp := o.val.(types.Set)
					_ = cp.UnmarshalJSON([]byte(`[{"__entity":{"type":"Mut","id":"j"}}, 77, "mut", {"mut": 1}]`))
					_ = json.Unmarshal([]byte(`[78]`), &cp)
				case "rec":
					cp := o.val.(types.Record)
					_ = cp.UnmarshalJSON([]byte(`{"mut": 1, "a": "mut", "b": [1], "": {"__entity":{"type":"Mut","id":"j"}}}`))
					_ = json.Unmarshal([]byte(`{"mut2": 2}`), &cp)
				case "uids":
					cp := o.uids
					_ = cp.UnmarshalJSON([]byte(`[{"type":"Mut","id":"j"},{"type":"Mut","id":"k"}]`))
					_ = json.Unmarshal([]byte(`[{"type":"Mut","id":"l"}]`), &cp)
				}
			}
		case "nested-out": // take a nested set/record handed out by an accessor, and mutate what *its* accessors return
			if o := pickObj(op.T, "set", "rec"); o != nil && len(o.nested) > 0 {
				switch n := o.nested[mod(op.I, len(o.nested))].(type) {
				case types.Set:
					if out := n.Slice(); len(out) > 0 {
						out[mod(op.J, len(out))] = val(op)
					}
				case types.Record:
					if m := n.Map(); m != nil {
						m[types.String(op.Key)] = val(op)
						for k := range m {
							m[k] = val(op)
						}
					}
				}
			}
		}
		if sub, msg := verify(objs, step, op); sub != "" {
			return sub, msg
		}
	}
	return "", ""
}

var opKinds = []string{"newset", "newrec", "newuids", "mut-in", "mut-in", "out", "out", "mut-out", "nested-out", "decode-into-copy"}

func genOp(rt *rapid.T, i int) Op {
	k := gen.Pick(rt, opKinds, "opkind")
	if i < 2 {
		k = gen.Pick(rt, opKinds[:3], "opkind0")
	}
	op := Op{K: k, T: rapid.IntRange(0, 7).Draw(rt, "t"), I: rapid.IntRange(0, 7).Draw(rt, "i"), J: rapid.IntRange(0, 11).Draw(rt, "j")}
	o := gen.DefaultValOpts
	switch k {
	case "newset":
		n := rapid.IntRange(0, 5).Draw(rt, "n")
		for x := 0; x < n; x++ {
			if gen.Chance(rt, 60, "fromU") {
				op.Vs = append(op.Vs, gen.Pick(rt, U, "u"))
			} else {
				op.Vs = append(op.Vs, gen.Value(rt, 2, o))
			}
		}
		if gen.Chance(rt, 40, "refs") {
			op.Refs = rapid.SliceOfN(rapid.IntRange(0, 7), 1, 2).Draw(rt, "refs")
		}
	case "newrec":
		n := rapid.IntRange(0, 4).Draw(rt, "n")
		for x := 0; x < n; x++ {
			op.Ks = append(op.Ks, gen.Pick(rt, recKeys, "key"))
			if gen.Chance(rt, 60, "fromU") {
				op.Vs = append(op.Vs, gen.Pick(rt, U, "u"))
			} else {
				op.Vs = append(op.Vs, gen.Value(rt, 2, o))
			}
		}
		if gen.Chance(rt, 40, "refs") {
			op.Refs = rapid.SliceOfN(rapid.IntRange(0, 7), 1, 2).Draw(rt, "refs")
		}
	case "newuids":
		n := rapid.IntRange(0, 4).Draw(rt, "n")
		for x := 0; x < n; x++ {
			op.Vs = append(op.Vs, gen.EntityVal(rt))
		}
	default:
		var v ir.Value
		if gen.Chance(rt, 50, "mutU") {
			v = gen.Pick(rt, U, "u")
		} else {
			v = gen.Value(rt, 1, o)
		}
		op.V = &v
		op.Key = gen.Pick(rt, recKeys, "key")
	}
	return op
}

// ---------------------------------------------------------------------------------------------
// Drivers

func run(c *Case, class string, nt bool, labels []string, fail func(sub, msg string)) bool {
	ev.Watch(c.Kind, func() any { return c })
	sub, msg := check(c)
	ev.Unwatch()
	ev.R.Case(ir.Hash(c), nt, append([]string{class}, labels...)...)
	if ev.R.WantSample(class) {
		ev.R.Sample(class, c)
	}
	if sub == "harness" {
		ev.R.Broken("C11 harness: " + msg)
		return true
	}
	if sub != "" {
		ev.R.Violation(sub, c, msg)
		fail(sub, msg)
		return false
	}
	return true
}

func tableFail(t *testing.T) func(sub, msg string) {
	n := 0
	return func(sub, msg string) {
		n++
		if n <= 10 {
			t.Errorf("C11/%s: %s", sub, msg)
		}
	}
}

// enumSeqs enumerates all sequences over u of length 0..maxLen; sequence number i is handled by shard i % NShards.
func enumSeqs(t *testing.T, name string, u []ir.Value, maxLen int) {
	fail := tableFail(t)
	total := 0
	idx := make([]int, 0, maxLen)
	var rec func()
	rec = func() {
		if total%ev.NShards == ev.Shard {
			seq := make([]ir.Value, len(idx))
			for i, x := range idx {
				seq[i] = u[x]
			}
			nt, labels := seqLabels(seq)
			run(&Case{Kind: "seq", Seq: seq}, name, nt, labels, fail)
		}
		total++
		if len(idx) == maxLen {
			return
		}
		for x := range u {
			idx = append(idx, x)
			rec()
			idx = idx[:len(idx)-1]
		}
	}
	rec()
	if ev.First() {
		ev.R.Space(fmt.Sprintf("all sequences of length <= %d over the %d-value universe %q (set laws + evaluator)", maxLen, len(u), name), total)
	}
}

func TestSeqColliding(t *testing.T) { enumSeqs(t, "seq-colliding", U, ev.Pick(4, 5)) }
func TestSeqNested(t *testing.T)    { enumSeqs(t, "seq-nested", UNested, ev.Pick(3, 4)) }
func TestSeqWrap(t *testing.T)      { enumSeqs(t, "seq-wrap", UWrap, ev.Pick(3, 4)) }

// UEnt: entity uids whose type and id concatenate to the same bytes (an entity uid's hash covers type and id), next to
// uids that differ in one letter or only in case, and a non-entity.
var UEnt = []ir.Value{ir.Ent("A", "bc"), ir.Ent("Ab", "c"), ir.Ent("Abc", ""), ir.Ent("A", "b"), ir.Ent("Ab", ""), ir.Ent("a", "bc"), ir.Ent("A::b", "c"), ir.Str("Abc"), ir.Long(1)}

func TestSeqEntities(t *testing.T) { enumSeqs(t, "seq-entities", UEnt, ev.Pick(3, 4)) }

// eqUniverse: values and alternative constructions of the same value (member order, duplicates, field order).
var eqUniverse = func() []ir.Value {
	out := append([]ir.Value{}, probes...)
	out = append(out,
		ir.Set(ir.Long(1), ir.Bool(true)), ir.Set(ir.Bool(true), ir.Long(1), ir.Bool(true)), ir.Set(ir.Long(1), ir.Long(1)),
		ir.Set(ir.Long(0), ir.Long(1)), ir.Set(ir.Long(1), ir.Long(0), ir.Long(1)), ir.Set(ir.Bool(false), ir.Bool(true)), ir.Set(ir.Long(2), ir.Long(-1)),
		ir.Set(ir.Set(), ir.Rec()), ir.Set(ir.Rec(), ir.Set(), ir.Rec()), ir.Set(ir.Set(ir.Long(1), ir.Bool(true))), ir.Set(ir.Set(ir.Bool(true), ir.Long(1))),
		ir.Rec(ir.F("a", ir.Long(1)), ir.F("b", ir.Long(2))), ir.Rec(ir.F("b", ir.Long(2)), ir.F("a", ir.Long(1))), ir.Rec(ir.F("a", ir.Long(2)), ir.F("b", ir.Long(1))),
		ir.Rec(ir.F("a", ir.Set(ir.Long(1), ir.Bool(true)))), ir.Rec(ir.F("a", ir.Set(ir.Bool(true), ir.Long(1)))), ir.Rec(ir.F("b", ir.Long(1))), ir.Rec(ir.F("a", ir.Rec())), ir.Rec(ir.F("a", ir.Set())),
		ir.Rec(ir.F("ab", ir.Long(1))), ir.Rec(ir.F("a", ir.Long(1)), ir.F("b", ir.Long(1))),
		ir.Ent("T0", "a"), ir.Ent("T0a", ""), ir.Ent("T", "0a"), ir.Ent("T1", "a"), ir.Str("T0a"), ir.Str("a"),
		ir.IP([]byte{0, 0, 0, 1}, 31), ir.IP([]byte{0, 0, 0, 0, 0, 0, 0, 0, 0, 0, 0, 0, 0, 0, 0, 1}, 128), ir.IP([]byte{0, 0, 0, 0, 0, 0, 0, 0, 0, 0, 0xff, 0xff, 0, 0, 0, 1}, 128),
		ir.Long(-9223372036854775808), ir.Decimal(-9223372036854775808), ir.Long(9223372036854775807), ir.Datetime(9223372036854775807),
	)
	return out
}()

func TestEqualityPairs(t *testing.T) {
	fail := tableFail(t)
	n := 0
	for i, a := range eqUniverse {
		for j, b := range eqUniverse {
			if (i*len(eqUniverse)+j)%ev.NShards != ev.Shard {
				continue
			}
			a, b := a, b
			n++
			labels := []string{"pair:different-kind"}
			if a.K == b.K {
				labels = []string{"pair:same-kind"}
			}
			if ir.Equal(a, b) {
				labels = append(labels, "pair:equal")
			}
			run(&Case{Kind: "pair", A: &a, B: &b}, "eq-pairs", true, labels, fail)
			if ir.Equal(a, b) {
				run(&Case{Kind: "codec", A: &a, B: &b}, "codec-pairs", true, nil, fail)
			}
		}
	}
	if ev.First() {
		ev.R.Space("all ordered pairs of the equality universe (values + alternative constructions): Equal, ==, !=, codec forms of equal pairs", len(eqUniverse)*len(eqUniverse))
	}
}

func TestEqualityTriples(t *testing.T) {
	fail := tableFail(t)
	// triples over the values that have an equal partner or share a designed hash (the rest is covered by pairs)
	var tu []ir.Value
	for i, a := range eqUniverse {
		keep := false
		for j, b := range eqUniverse {
			if i != j && ir.Equal(a, b) {
				keep = true
			}
		}
		if h, ok := hashClass(a); ok && (h <= 2 || h >= ^uint64(1)) {
			keep = true
		}
		if keep {
			tu = append(tu, a)
		}
	}
	n := 0
	for _, a := range tu {
		for _, b := range tu {
			for _, c := range tu {
				n++
				if n%ev.NShards != ev.Shard {
					continue
				}
				a, b, c := a, b, c
				var labels []string
				if ir.Equal(a, b) && ir.Equal(b, c) {
					labels = []string{"triple:all-equal"}
				}
				run(&Case{Kind: "triple", A: &a, B: &b, C: &c}, "eq-triples", true, labels, fail)
			}
		}
	}
	if ev.First() {
		ev.R.Space(fmt.Sprintf("all ordered triples over the %d colliding / multiply-constructed values: transitivity, congruence, two-member sets", len(tu)), n)
	}
}

// TestRecordTable: all records with keys from a 3-key pool and values from a colliding subset, all ordered pairs.
func TestRecordTable(t *testing.T) {
	fail := tableFail(t)
	keys := []string{"", "a", "b"}
	vals := []ir.Value{ir.Bool(true), ir.Long(1), ir.Decimal(1), ir.Long(2), ir.Set(ir.Long(1))}
	if ev.Thorough() {
		vals = append(vals, ir.Duration(1), ir.Rec(), ir.Set())
	}
	var recs []ir.Value
	var build func(i int, cur []ir.Field)
	build = func(i int, cur []ir.Field) {
		if i == len(keys) {
			recs = append(recs, ir.Rec(append([]ir.Field{}, cur...)...))
			return
		}
		build(i+1, cur)
		for _, v := range vals {
			build(i+1, append(cur, ir.F(keys[i], v)))
		}
	}
	build(0, nil)
	n := 0
	for _, a := range recs {
		for _, b := range recs {
			n++
			if n%ev.NShards != ev.Shard {
				continue
			}
			a, b := a, b
			var labels []string
			if ir.Equal(a, b) {
				labels = []string{"rec:equal"}
			} else if len(a.Fields) == len(b.Fields) {
				labels = []string{"rec:same-size-unequal"}
			}
			run(&Case{Kind: "rec", A: &a, B: &b}, "rec-table", len(a.Fields) > 0 && len(b.Fields) > 0, labels, fail)
		}
	}
	if ev.First() {
		ev.R.Space(fmt.Sprintf("all ordered pairs of the %d records over 3 keys x %d colliding values: accessors, Equal, ==, has, access", len(recs), len(vals)), n)
	}
}

func genSeqCase(rt *rapid.T) *Case {
	o := gen.DefaultValOpts
	o.MappedIP = true
	depth := rapid.IntRange(0, 4).Draw(rt, "depth")
	n := rapid.IntRange(0, 40).Draw(rt, "n")
	pool := make([]ir.Value, rapid.IntRange(1, 8).Draw(rt, "npool"))
	for i := range pool {
		switch rapid.IntRange(0, 3).Draw(rt, "src") {
		case 0:
			pool[i] = gen.Pick(rt, probes, "probe")
		case 1:
			// hash neighbours h, h+1, h+2 of a random long
			pool[i] = ir.Long(gen.LongVal(rt))
			if i > 0 && pool[i-1].K == ir.KLong && pool[i-1].I < 1<<62 {
				pool[i] = ir.Long(pool[i-1].I + int64(rapid.IntRange(0, 2).Draw(rt, "delta")))
				if gen.Chance(rt, 30, "asdec") {
					pool[i] = ir.Decimal(pool[i].I)
				}
			}
		default:
			pool[i] = gen.Value(rt, depth, o)
		}
	}
	c := &Case{Kind: "seq"}
	for i := 0; i < n; i++ {
		c.Seq = append(c.Seq, gen.Pick(rt, pool, "member"))
	}
	if n > 0 {
		c.Perm = rapid.SliceOfN(rapid.IntRange(0, n-1), 0, 2*n).Draw(rt, "perm")
		if gen.Chance(rt, 60, "fullperm") {
			// a true permutation followed by random repeats
			p := rapid.Permutation(seqInts(n)).Draw(rt, "p")
			c.Perm = append(p, c.Perm...)
		}
	}
	for i := rapid.IntRange(0, 4).Draw(rt, "nextra"); i > 0; i-- {
		c.Extra = append(c.Extra, gen.Value(rt, depth, o))
	}
	return c
}

func seqInts(n int) []int {
	out := make([]int, n)
	for i := range out {
		out[i] = i
	}
	return out
}

func TestRandomSequences(t *testing.T) {
	ev.SetChecks(ev.Scale(6000, 250000))
	ev.Check(t, func(rt *rapid.T) {
		c := genSeqCase(rt)
		nt, labels := seqLabels(c.Seq)
		if !run(c, "seq-random", nt, labels, func(string, string) {}) {
			rt.Fatalf("C11/seq-random: a set law fails")
		}
	})
}

func TestRandomCodec(t *testing.T) {
	ev.SetChecks(ev.Scale(6000, 250000))
	ev.Check(t, func(rt *rapid.T) {
		o := gen.DefaultValOpts
		o.MappedIP = true
		a := gen.Value(rt, rapid.IntRange(0, 4).Draw(rt, "depth"), o)
		b := shuffleValue(rt, a)
		nt := a.K == ir.KSet || a.K == ir.KRecord
		if !run(&Case{Kind: "codec", A: &a, B: &b}, "codec-random", nt, []string{"codec:" + string(a.K)}, func(string, string) {}) {
			rt.Fatalf("C11/codec-random: forms of equal values decode to unequal values")
		}
		c := gen.Value(rt, 2, o)
		if gen.Chance(rt, 50, "samekind") {
			c = gen.ValueOfKind(rt, a.K, 2, o)
		}
		if !run(&Case{Kind: "pair", A: &a, B: &c}, "pair-random", true, nil, func(string, string) {}) {
			rt.Fatalf("C11/pair-random: equality law fails")
		}
		if a.K == ir.KRecord && c.K == ir.KRecord {
			if !run(&Case{Kind: "rec", A: &a, B: &c}, "rec-random", true, nil, func(string, string) {}) {
				rt.Fatalf("C11/rec-random: record law fails")
			}
		}
	})
}

// shuffleValue returns an equal value built differently: members permuted and duplicated, fields reordered, recursively.
func shuffleValue(rt *rapid.T, v ir.Value) ir.Value {
	switch v.K {
	case ir.KSet:
		out := ir.Value{K: ir.KSet}
		if len(v.Elems) == 0 {
			return out
		}
		for _, i := range rapid.Permutation(seqInts(len(v.Elems))).Draw(rt, "perm") {
			out.Elems = append(out.Elems, shuffleValue(rt, v.Elems[i]))
		}
		if gen.Chance(rt, 50, "dup") {
			out.Elems = append(out.Elems, v.Elems[rapid.IntRange(0, len(v.Elems)-1).Draw(rt, "dupi")])
		}
		return out
	case ir.KRecord:
		out := ir.Value{K: ir.KRecord}
		if len(v.Fields) == 0 {
			return out
		}
		for _, i := range rapid.Permutation(seqInts(len(v.Fields))).Draw(rt, "fperm") {
			out.Fields = append(out.Fields, ir.F(v.Fields[i].K, shuffleValue(rt, v.Fields[i].V)))
		}
		return out
	}
	return v
}

func TestImmutability(t *testing.T) {
	ev.SetChecks(ev.Scale(4000, 200000))
	ev.Check(t, func(rt *rapid.T) {
		n := rapid.IntRange(2, 24).Draw(rt, "nops")
		c := &Case{Kind: "hist"}
		for i := 0; i < n; i++ {
			c.Ops = append(c.Ops, genOp(rt, i))
		}
		var labels []string
		muts := 0
		for _, op := range c.Ops {
			if op.K == "mut-in" || op.K == "out" || op.K == "mut-out" || op.K == "nested-out" || op.K == "decode-into-copy" {
				muts++
			}
			labels = append(labels, "op:"+op.K)
		}
		if !run(c, "immutability", muts >= 1, labels, func(string, string) {}) {
			rt.Fatalf("C11/immutability: a value changed after a mutation of constructor input / accessor output")
		}
	})
}

// TestImmutabilityTable: the direct forms of each aliasing channel, deterministic.
func TestImmutabilityTable(t *testing.T) {
	if !ev.First() {
		return
	}
	fail := tableFail(t)
	v1, v2 := ir.Long(1), ir.Set(ir.Long(1), ir.Bool(true))
	n := 0
	for _, ctor := range []Op{
		{K: "newset", Vs: []ir.Value{ir.Bool(true), ir.Long(1), ir.Long(2), ir.Set(ir.Long(1)), ir.Rec(ir.F("a", ir.Long(1)))}},
		{K: "newrec", Ks: []string{"a", "b", ""}, Vs: []ir.Value{ir.Long(1), ir.Set(ir.Long(1), ir.Long(2)), ir.Rec(ir.F("a", ir.Long(1)))}},
		{K: "newuids", Vs: []ir.Value{ir.Ent("T0", "a"), ir.Ent("T0", "b"), ir.Ent("T1", "a")}},
	} {
		for _, m := range []string{"mut-in", "out", "nested-out", "decode-into-copy"} {
			for i := 0; i < 5; i++ {
				for j := 0; j < 12; j++ {
					for _, v := range []*ir.Value{&v1, &v2} {
						n++
						ops := []Op{ctor, {K: m, I: i, J: j, V: v, Key: "a"}, {K: "out", I: i, J: j, V: v, Key: "b"}, {K: "mut-out", I: i, J: j, V: v, Key: "a"}, {K: "nested-out", I: i, J: j, V: v, Key: "a"}}
						run(&Case{Kind: "hist", Ops: ops}, "immutability-table", true, nil, fail)
					}
				}
			}
		}
	}
	ev.R.Space("constructor x mutation channel x element index x mutation variant (direct aliasing probes)", n)
}

func TestReplay(t *testing.T) {
	rf, ok, err := ev.LoadReplay()
	if !ok {
		t.Skip("no replay requested")
	}
	if err != nil {
		t.Fatal(err)
	}
	if ev.ReplayFuzz(t, rf, fuzzProps, nil) {
		return
	}
	var c Case
	if err := json.Unmarshal(rf.Case, &c); err != nil || c.Kind == "" {
		t.Fatalf("cannot decode replay case: %v", err)
	}
	if sub, msg := check(&c); sub != "" {
		ev.R.Violation(sub, &c, msg)
		t.Fatalf("C11 replay %s: %s", sub, msg)
	}
}
