package c11

// Coverage-guided driving of this package's rapid properties (thorough tier; see ev/fuzz.go).

import (
	"testing"

	"verif/ev"
)

var fuzzProps = map[string]func(*testing.T){
	"FuzzPropRandomSequences": TestRandomSequences,
	"FuzzPropRandomCodec": TestRandomCodec,
	"FuzzPropImmutability": TestImmutability,
}

func FuzzPropRandomSequences(f *testing.F) { ev.FuzzProp(f, TestRandomSequences) }
func FuzzPropRandomCodec(f *testing.F) { ev.FuzzProp(f, TestRandomCodec) }
func FuzzPropImmutability(f *testing.F) { ev.FuzzProp(f, TestImmutability) }
