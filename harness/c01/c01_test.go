// C01: expression evaluation follows the Cedar semantics (reference interpreter as oracle).
package c01

import (
	"encoding/json"
	"errors"
	"fmt"
	"math"
	"testing"

	cedar "github.com/cedar-policy/cedar-go"
	xeval "github.com/cedar-policy/cedar-go/x/exp/eval"
	"pgregory.net/rapid"

	"verif/conv"
	"verif/ev"
	"verif/gen"
	"verif/ir"
	"verif/ref"
)

func TestMain(m *testing.M) { ev.Main(m, "C01") }

type Case struct {
	Expr  *ir.Expr  `json:"expr"`
	World gen.World `json:"world"`
}

// known-finding matchers (active only while the finding is listed as open)
func usesMappedIPTest(e *ir.Expr) bool {
	found := false
	e.Walk(func(x *ir.Expr) {
		if x.Op == ir.OpLit && containsMapped(*x.Lit) {
			found = true
		}
		if x.Op == ir.OpExt && x.Name == "ip" && len(x.Args) == 1 && x.Args[0].Op == ir.OpLit && x.Args[0].Lit.K == ir.KString {
			if a, p, ok, _ := ref.ParseIP(x.Args[0].Lit.S); ok && gen.IsMappedIP(ir.IP(a, p)) {
				found = true
			}
		}
	})
	return found
}

// usesMinDayDatetimeText: a datetime("...") call whose text denotes an instant in the first day of the int64 range.
func usesMinDayDatetimeText(e *ir.Expr) bool {
	found := false
	e.Walk(func(x *ir.Expr) {
		if x.Op == ir.OpExt && x.Name == "datetime" && len(x.Args) == 1 && x.Args[0].Op == ir.OpLit && x.Args[0].Lit.K == ir.KString {
			if ms, ok := ref.ParseDatetime(x.Args[0].Lit.S); ok && ms < math.MinInt64+86400000 {
				found = true
			}
		}
	})
	return found
}

func containsMapped(v ir.Value) bool {
	if gen.IsMappedIP(v) {
		return true
	}
	for _, e := range v.Elems {
		if containsMapped(e) {
			return true
		}
	}
	for _, f := range v.Fields {
		if containsMapped(f.V) {
			return true
		}
	}
	return false
}

func worldHasMapped(w *gen.World) bool {
	for _, e := range w.Store {
		for _, f := range append(append([]ir.Field{}, e.Attrs...), e.Tags...) {
			if containsMapped(f.V) {
				return true
			}
		}
	}
	return containsMapped(w.Req.Context)
}

// check compares cedar-go's evaluation of c with the reference. Returns (sub-check, message) or ("","").
func check(c *Case) (string, string) {
	env := ref.NewEnv(c.World.Store, c.World.Req)
	wantV, wantE := ref.Eval(c.Expr, env)

	cenv := xeval.Env{
		Entities:  conv.ToEntityMap(c.World.Store),
		Principal: conv.ToEntityUID(c.World.Req.Principal),
		Action:    conv.ToEntityUID(c.World.Req.Action),
		Resource:  conv.ToEntityUID(c.World.Req.Resource),
		Context:   conv.ToRecord(c.World.Req.Context.Fields),
	}
	node := conv.ToNode(c.Expr)
	gotV, gotErr := xeval.Eval(node, cenv)
	if (gotErr != nil) != (wantE != 0) {
		if gotErr != nil {
			return "eval/error-vs-value", fmt.Sprintf("cedar-go fails (%v) but the specification yields %s", gotErr, wantV.String())
		}
		return "eval/value-vs-error", fmt.Sprintf("cedar-go yields %v but the specification fails with %s", gotV, wantE)
	}
	if gotErr == nil {
		gv, err := conv.FromValue(gotV)
		if err != nil {
			return "eval/bad-value", fmt.Sprintf("cannot read cedar-go result: %v", err)
		}
		if !ir.Equal(gv, wantV) {
			return "eval/value", fmt.Sprintf("cedar-go yields %s, specification yields %s", gv.String(), wantV.String())
		}
	} else {
		// label only: is ErrType wrapped when the reference says the only possible class is a type error?
		if wantE == ref.EType {
			if isTypeErr(gotErr) {
				ev.R.Label("errtype-wrapped", 1)
			} else {
				ev.R.Label("errtype-not-wrapped", 1)
			}
		}
	}
	// second observation point: one-policy set
	p := ir.NewPolicy(true)
	p.Conds = []ir.Cond{{When: true, Body: c.Expr}}
	ps := cedar.NewPolicySet()
	ps.Add("p", conv.ToPolicy(p))
	dec, diag := cedar.Authorize(ps, cenv.Entities, conv.ToRequest(c.World.Req))
	wantAllow := wantE == 0 && wantV.K == ir.KBool && wantV.B
	wantErr := wantE != 0 || wantV.K != ir.KBool
	if (dec == cedar.Allow) != wantAllow {
		return "authorize/decision", fmt.Sprintf("one-policy set `permit when {e}`: decision %v, specification: allow=%v (value %s, errors %s)", dec, wantAllow, wantV.String(), wantE)
	}
	if (len(diag.Errors) > 0) != wantErr {
		return "authorize/errors", fmt.Sprintf("one-policy set: %d diagnostic errors, specification says erroring=%v", len(diag.Errors), wantErr)
	}
	return "", ""
}

func isTypeErr(err error) bool {
	return errors.Is(err, xeval.ErrType)
}

func resultLabel(c *Case) string {
	env := ref.NewEnv(c.World.Store, c.World.Req)
	v, e := ref.Eval(c.Expr, env)
	if e != 0 {
		return "result:error:" + e.String()
	}
	return "result:" + string(v.K)
}

// run executes one case with bookkeeping; returns false on violation.
func run(c *Case, class string, forceNT bool, fail func(sub, msg string)) bool {
	if ev.KnownOpen("C01", "ipv4-mapped-loopback-multicast") && (usesMappedIPTest(c.Expr) || worldHasMapped(&c.World)) {
		ev.R.Excluded("ipv4-mapped-loopback-multicast")
		return true
	}
	if ev.KnownOpen("C01", "datetime-min-day") && usesMinDayDatetimeText(c.Expr) {
		ev.R.Excluded("datetime-min-day")
		return true
	}
	sub, msg := check(c)
	nt := forceNT || c.Expr.Ops() >= 2
	ev.R.Case(ir.Hash(c), nt, class, "root:"+string(c.Expr.Op), resultLabel(c))
	if ev.R.WantSample(class) {
		ev.R.Sample(class, map[string]any{"expr": c.Expr.String(), "result": resultLabel(c)})
	}
	if sub != "" {
		ev.R.Violation(sub, c, msg)
		fail(sub, msg)
		return false
	}
	return true
}

var emptyWorld = gen.World{Req: ir.Request{Principal: ir.Ent("T0", "a"), Action: ir.Ent("Action", "view"), Resource: ir.Ent("T1", "b"), Context: ir.Rec()}}

// representative values per kind for the type-error matrix
var reps = map[ir.Kind][]ir.Value{
	ir.KBool:     {ir.Bool(true), ir.Bool(false)},
	ir.KLong:     {ir.Long(1), ir.Long(math.MinInt64)},
	ir.KString:   {ir.Str("a"), ir.Str("1.5")},
	ir.KEntity:   {ir.Ent("T0", "a"), ir.Ent("T1", "zz")},
	ir.KSet:      {ir.Set(), ir.Set(ir.Long(1), ir.Ent("T0", "a"))},
	ir.KRecord:   {ir.Rec(), ir.Rec(ir.F("a", ir.Long(1)))},
	ir.KDecimal:  {ir.Decimal(15000), ir.Decimal(math.MinInt64)},
	ir.KIP:       {ir.IP([]byte{127, 0, 0, 1}, 32), ir.IP([]byte{0, 0, 0, 0, 0, 0, 0, 0, 0, 0, 0, 0, 0, 0, 0, 1}, 128)},
	ir.KDatetime: {ir.Datetime(0), ir.Datetime(-1)},
	ir.KDuration: {ir.Duration(1), ir.Duration(math.MinInt64)},
}

var matrixWorld = gen.World{
	Store: ir.Store{{UID: ir.Ent("T0", "a"), Parents: []ir.Value{ir.Ent("T1", "b")}, Attrs: []ir.Field{ir.F("a", ir.Long(7))}, Tags: []ir.Field{ir.F("a", ir.Str("t"))}}},
	Req:   ir.Request{Principal: ir.Ent("T0", "a"), Action: ir.Ent("Action", "view"), Resource: ir.Ent("T1", "b"), Context: ir.Rec(ir.F("a", ir.Long(1)))},
}

func allReps() []ir.Value {
	var out []ir.Value
	for _, k := range ir.AllKinds {
		out = append(out, reps[k]...)
	}
	return out
}

func tableFail(t *testing.T) func(sub, msg string) {
	n := 0
	return func(sub, msg string) {
		n++
		if n <= 20 {
			t.Errorf("C01/%s: %s", sub, msg)
		}
	}
}

// TestTypeMatrix: every operator and extension function x every operand kind in every position.
func TestTypeMatrix(t *testing.T) {
	if !ev.First() {
		return
	}
	fail := tableFail(t)
	vals := allReps()
	w := matrixWorld
	count := 0
	do := func(e *ir.Expr) {
		count++
		run(&Case{Expr: e, World: w}, "type-matrix", true, fail)
	}
	pat := []ir.PatElem{{Lit: "a"}, {Wild: true}}
	ext1 := []string{"decimal", "ip", "datetime", "duration", "isIpv4", "isIpv6", "isLoopback", "isMulticast", "toDate", "toTime", "toMilliseconds", "toSeconds", "toMinutes", "toHours", "toDays"}
	ext2 := []string{"lessThan", "lessThanOrEqual", "greaterThan", "greaterThanOrEqual", "isInRange", "offset", "durationSince"}
	for _, a := range vals {
		la := ir.Lit(a)
		do(ir.Un(ir.OpNot, la))
		do(ir.Un(ir.OpNeg, la))
		do(ir.Un(ir.OpIsEmpty, la))
		do(ir.Is(la, "T0"))
		do(ir.Has(la, "a"))
		do(ir.Access(la, "a"))
		do(ir.Like(la, pat))
		for _, f := range ext1 {
			do(ir.Ext(f, la))
		}
		for _, f := range ext2 { // arity errors: one argument only
			do(ir.Ext(f, la))
		}
		do(ir.Ext("nosuch", la))
		do(ir.Ext("decimal")) // zero args
		for _, b := range vals {
			lb := ir.Lit(b)
			for _, op := range []ir.Op{ir.OpAnd, ir.OpOr, ir.OpEq, ir.OpNe, ir.OpLt, ir.OpLe, ir.OpGt, ir.OpGe, ir.OpAdd, ir.OpSub, ir.OpMul, ir.OpIn, ir.OpHasTag, ir.OpGetTag, ir.OpContains, ir.OpContainsAll, ir.OpContainsAny} {
				do(ir.Bin(op, la, lb))
			}
			do(ir.IsIn(la, "T0", lb))
			do(ir.IsIn(la, "T1", lb))
			for _, f := range ext2 {
				do(ir.Ext(f, la, lb))
			}
			do(ir.Ext("decimal", la, lb)) // arity
			do(ir.If(la, lb, ir.Lit(ir.Long(3))))
			do(ir.If(la, ir.Lit(ir.Long(3)), lb))
			do(ir.SetE(la, lb))
			do(ir.RecE([]string{"x", "y"}, []*ir.Expr{la, lb}))
		}
	}
	// short-circuit: skipped operand is erroring / ill-typed
	bad := []*ir.Expr{ir.Bin(ir.OpAdd, ir.Lit(ir.Long(1)), ir.Lit(ir.Str("a"))), ir.Bin(ir.OpAdd, ir.Lit(ir.Long(math.MaxInt64)), ir.Lit(ir.Long(1))), ir.Lit(ir.Long(5)), ir.Ext("nosuch"), ir.Access(ir.Lit(ir.Rec()), "zz"), ir.Access(ir.Lit(ir.Ent("T1", "zz")), "a")}
	for _, b := range bad {
		for _, tv := range []bool{true, false} {
			do(ir.Bin(ir.OpAnd, ir.Lit(ir.Bool(tv)), b))
			do(ir.Bin(ir.OpOr, ir.Lit(ir.Bool(tv)), b))
			do(ir.Bin(ir.OpAnd, b, ir.Lit(ir.Bool(tv))))
			do(ir.Bin(ir.OpOr, b, ir.Lit(ir.Bool(tv))))
			do(ir.If(ir.Lit(ir.Bool(tv)), b, ir.Lit(ir.Long(1))))
			do(ir.If(ir.Lit(ir.Bool(tv)), ir.Lit(ir.Long(1)), b))
			do(ir.Un(ir.OpNot, ir.Bin(ir.OpAnd, ir.Lit(ir.Bool(tv)), b)))
		}
		do(ir.IsIn(ir.Lit(ir.Ent("T0", "a")), "T1", b))
		do(ir.IsIn(ir.Lit(ir.Ent("T0", "a")), "T0", b))
		do(ir.Un(ir.OpNot, ir.IsIn(ir.Lit(ir.Ent("T0", "a")), "T1", b)))
	}
	ev.R.Space("operator/function x operand kind matrix (2 representatives per kind, every position) + short-circuit forms", count)
}

// TestArithmeticTable: + - * neg and the orderings over the long boundary table.
func TestArithmeticTable(t *testing.T) {
	if !ev.First() {
		return
	}
	fail := tableFail(t)
	count := 0
	tbl := append([]int64{}, gen.LongBoundary...)
	tbl = append(tbl, 4611686018427387904, -4611686018427387904, 3037000500*2, math.MinInt64/2, math.MaxInt64/2, math.MaxInt64/3, -math.MaxInt64/3)
	for _, a := range tbl {
		run(&Case{Expr: ir.Un(ir.OpNeg, ir.Lit(ir.Long(a))), World: emptyWorld}, "arith-table", true, fail)
		for _, b := range tbl {
			for _, op := range []ir.Op{ir.OpAdd, ir.OpSub, ir.OpMul, ir.OpLt, ir.OpLe, ir.OpGt, ir.OpGe, ir.OpEq} {
				count++
				run(&Case{Expr: ir.Bin(op, ir.Lit(ir.Long(a)), ir.Lit(ir.Long(b))), World: emptyWorld}, "arith-table", true, fail)
			}
		}
	}
	ev.R.Space("long boundary table pairs x {+,-,*,<,<=,>,>=,==} and negation", count+len(tbl))
}

// TestTimeTable: datetime / duration functions and orderings over boundary values.
func TestTimeTable(t *testing.T) {
	if !ev.First() {
		return
	}
	fail := tableFail(t)
	count := 0
	tbl := gen.TimeBoundary
	for _, a := range tbl {
		for _, f := range []string{"toDate", "toTime"} {
			count++
			run(&Case{Expr: ir.Ext(f, ir.Lit(ir.Datetime(a))), World: emptyWorld}, "time-table", true, fail)
		}
		for _, f := range []string{"toMilliseconds", "toSeconds", "toMinutes", "toHours", "toDays"} {
			count++
			run(&Case{Expr: ir.Ext(f, ir.Lit(ir.Duration(a))), World: emptyWorld}, "time-table", true, fail)
		}
		for _, b := range tbl {
			count += 4
			run(&Case{Expr: ir.Ext("offset", ir.Lit(ir.Datetime(a)), ir.Lit(ir.Duration(b))), World: emptyWorld}, "time-table", true, fail)
			run(&Case{Expr: ir.Ext("durationSince", ir.Lit(ir.Datetime(a)), ir.Lit(ir.Datetime(b))), World: emptyWorld}, "time-table", true, fail)
			op := []ir.Op{ir.OpLt, ir.OpLe, ir.OpGt, ir.OpGe}[count/4%4]
			run(&Case{Expr: ir.Bin(op, ir.Lit(ir.Datetime(a)), ir.Lit(ir.Datetime(b))), World: emptyWorld}, "time-table", true, fail)
			run(&Case{Expr: ir.Bin(op, ir.Lit(ir.Duration(a)), ir.Lit(ir.Duration(b))), World: emptyWorld}, "time-table", true, fail)
		}
	}
	for _, a := range gen.DecimalBoundary {
		for _, b := range gen.DecimalBoundary {
			for _, f := range []string{"lessThan", "lessThanOrEqual", "greaterThan", "greaterThanOrEqual"} {
				count++
				run(&Case{Expr: ir.Ext(f, ir.Lit(ir.Decimal(a)), ir.Lit(ir.Decimal(b))), World: emptyWorld}, "decimal-table", true, fail)
			}
		}
	}
	ev.R.Space("datetime/duration boundary table: toDate,toTime,to*,offset,durationSince,orderings; decimal comparisons", count)
}

// TestLikeTable: patterns x subjects.
func TestLikeTable(t *testing.T) {
	if !ev.First() {
		return
	}
	fail := tableFail(t)
	W := ir.PatElem{Wild: true}
	L := func(s string) ir.PatElem { return ir.PatElem{Lit: s} }
	pats := [][]ir.PatElem{{}, {W}, {W, W}, {L("")}, {L(""), W}, {L(""), W, L("a")}, {L(""), L(""), W, L(""), W}, {W, L(""), W}, {L("a")}, {L("*")}, {L("a"), W}, {W, L("a")}, {W, L("a"), W}, {L("a"), W, L("b")}, {L("ab"), W, L("ab")},
		{W, L("ab"), W, L("ab"), W}, {L("a"), L("b")}, {W, L("é")}, {L("é"), W}, {W, L("\xc3")}, {L("日"), W, L("本")}, {W, L("aa")}, {L("aa"), W, L("aa")}, {W, L("a"), W, L("a"), W, L("a")},
		{L("a*")}, {L("\\")}, {W, L("*"), W}, {L("abc")}, {W, L("abc")}, {L("a"), W, L("c")}, {L("a"), W, W, L("c")}, {W, L("b"), W, L("c")}, {L("x"), W}, {L("\n")}, {W, L("\U0001F600")}}
	subjs := []string{"", "a", "b", "aa", "ab", "ba", "aaa", "aba", "abab", "ababab", "abc", "aXbXc", "é", "aé", "éa", "日本", "日x本", "*", "a*", "\\", "a*b", "aab", "aaaa", "abcabc", "xabc", "ac", "bc", "abbc", "\n", "\U0001F600", "x\U0001F600", "aaaaaaaaab"}
	count := 0
	for _, p := range pats {
		for _, s := range subjs {
			count++
			run(&Case{Expr: ir.Like(ir.Lit(ir.Str(s)), p), World: emptyWorld}, "like-table", true, fail)
		}
	}
	ev.R.Space("like: pattern table x subject table", count)
}

// collision universe: values that share the internal hash
var collide = []ir.Value{ir.Bool(false), ir.Long(0), ir.Decimal(0), ir.Duration(0), ir.Datetime(0), ir.Bool(true), ir.Long(1), ir.Decimal(1), ir.Duration(1), ir.Datetime(1), ir.Long(2), ir.Str("1"), ir.Set(), ir.Rec()}

// TestSetTable: set operators over sets drawn from the colliding universe.
func TestSetTable(t *testing.T) {
	if !ev.First() {
		return
	}
	fail := tableFail(t)
	u := collide[:ev.Pick(8, 12)]
	var sets []ir.Value
	n := len(u)
	for i := -1; i < n; i++ {
		for j := i; j < n; j++ {
			for k := j; k < n; k++ {
				s := ir.Set()
				for _, x := range []int{i, j, k} {
					if x >= 0 && !s.Contains(u[x]) {
						s.Elems = append(s.Elems, u[x])
					}
				}
				dup := false
				for _, o := range sets {
					if ir.Equal(o, s) && len(o.Elems) == len(s.Elems) {
						dup = true
					}
				}
				if !dup {
					sets = append(sets, s)
				}
			}
		}
	}
	count := 0
	for i, a := range sets {
		la := gen.LiteralExpr(a, false)
		if i%2 == 0 {
			la = ir.Lit(a)
		}
		run(&Case{Expr: ir.Un(ir.OpIsEmpty, la), World: emptyWorld}, "set-table", true, fail)
		for _, m := range u {
			count++
			run(&Case{Expr: ir.Bin(ir.OpContains, la, ir.Lit(m)), World: emptyWorld}, "set-table", true, fail)
		}
		for j, b := range sets {
			lb := ir.Lit(b)
			if j%3 == 0 {
				lb = gen.LiteralExpr(b, false)
			}
			for _, op := range []ir.Op{ir.OpContainsAll, ir.OpContainsAny, ir.OpEq} {
				count++
				run(&Case{Expr: ir.Bin(op, la, lb), World: emptyWorld}, "set-table", true, fail)
			}
		}
	}
	// the same members written in every other order (colliding members end up in insertion-order dependent places)
	for _, a := range sets {
		if len(a.Elems) < 2 {
			continue
		}
		perms := [][]int{{1, 0, 2}, {2, 1, 0}, {1, 2, 0}, {2, 0, 1}, {0, 2, 1}}
		for _, pm := range perms {
			b := ir.Set()
			for _, i := range pm {
				if i < len(a.Elems) {
					b.Elems = append(b.Elems, a.Elems[i])
				}
			}
			for _, e := range []*ir.Expr{
				ir.Bin(ir.OpEq, ir.Lit(a), ir.Lit(b)), ir.Bin(ir.OpEq, gen.LiteralExpr(a, false), gen.LiteralExpr(b, false)), ir.Bin(ir.OpNe, ir.Lit(b), gen.LiteralExpr(a, false)),
				ir.Bin(ir.OpContainsAll, ir.Lit(a), ir.Lit(b)), ir.Bin(ir.OpContains, ir.SetE(ir.Lit(a)), ir.Lit(b)), ir.Bin(ir.OpEq, ir.Lit(ir.Rec(ir.F("s", a))), ir.Lit(ir.Rec(ir.F("s", b)))),
			} {
				count++
				run(&Case{Expr: e, World: emptyWorld}, "set-table", true, fail)
			}
		}
	}
	ev.R.Space("sets of <=3 members from the hash-colliding universe: isEmpty, contains x universe, containsAll/containsAny/== x all pairs, == / containsAll / contains of the same members in every other order", count)
}

// TestEntityTable: attribute / tag / has / in / is on entities present, absent, present without the attribute.
func TestEntityTable(t *testing.T) {
	if !ev.First() {
		return
	}
	fail := tableFail(t)
	w := gen.World{
		Store: ir.Store{
			{UID: ir.Ent("T0", "a"), Parents: []ir.Value{ir.Ent("T1", "b"), ir.Ent("T0", "gone")}, Attrs: []ir.Field{ir.F("x", ir.Long(1)), ir.F("if", ir.Str("kw")), ir.F("", ir.Bool(true)), ir.F("r", ir.Rec(ir.F("x", ir.Long(2))))}, Tags: []ir.Field{ir.F("x", ir.Str("tagx")), ir.F("", ir.Long(0))}},
			{UID: ir.Ent("T1", "b"), Parents: []ir.Value{ir.Ent("T1", "c")}},
			{UID: ir.Ent("T1", "c"), Attrs: []ir.Field{ir.F("x", ir.Ent("T0", "a"))}},
		},
		Req: ir.Request{Principal: ir.Ent("T0", "a"), Action: ir.Ent("Action", "view"), Resource: ir.Ent("T1", "nope"), Context: ir.Rec(ir.F("x", ir.Long(3)), ir.F("e", ir.Ent("T1", "c")))},
	}
	bases := []*ir.Expr{ir.Var("principal"), ir.Var("resource"), ir.Var("action"), ir.Var("context"), ir.Lit(ir.Ent("T0", "a")), ir.Lit(ir.Ent("T1", "b")), ir.Lit(ir.Ent("T1", "c")), ir.Lit(ir.Ent("T0", "gone")), ir.Lit(ir.Ent("T9", "a")),
		ir.Access(ir.Var("context"), "e"), ir.Access(ir.Lit(ir.Ent("T1", "c")), "x"), ir.Access(ir.Var("principal"), "r"), ir.Lit(ir.Rec(ir.F("x", ir.Long(1)))), ir.Lit(ir.Long(1))}
	keys := []string{"x", "y", "if", "", "r"}
	count := 0
	for _, b := range bases {
		for _, k := range keys {
			for _, e := range []*ir.Expr{ir.Has(b, k), ir.Access(b, k), ir.Bin(ir.OpHasTag, b, ir.Lit(ir.Str(k))), ir.Bin(ir.OpGetTag, b, ir.Lit(ir.Str(k))), ir.Access(ir.Access(b, k), "x"), ir.Bin(ir.OpAnd, ir.Has(b, k), ir.Bin(ir.OpEq, ir.Access(b, k), ir.Lit(ir.Long(1))))} {
				count++
				run(&Case{Expr: e, World: w}, "entity-table", true, fail)
			}
		}
		for _, tg := range bases {
			count += 3
			run(&Case{Expr: ir.Bin(ir.OpIn, b, tg), World: w}, "entity-table", true, fail)
			run(&Case{Expr: ir.Bin(ir.OpIn, b, ir.SetE(tg, ir.Lit(ir.Ent("T1", "c")))), World: w}, "entity-table", true, fail)
			run(&Case{Expr: ir.IsIn(b, "T0", tg), World: w}, "entity-table", true, fail)
		}
		for _, ty := range []string{"T0", "T1", "T9", "Action", "NS::T2"} {
			count++
			run(&Case{Expr: ir.Is(b, ty), World: w}, "entity-table", true, fail)
		}
	}
	ev.R.Space("has/./hasTag/getTag/in/is over present, absent and attribute-less entities, records and non-entities", count)
}

// TestHierarchyTable: `in` (entity, set of one / two / three entities) and `is .. in` over a store with two levels of
// multi-parent ancestry, a diamond, a cycle and a parent that has no entry: every source x every target combination.
func TestHierarchyTable(t *testing.T) {
	if !ev.First() {
		return
	}
	fail := tableFail(t)
	e := func(id string) ir.Value { return ir.Ent("T1", id) }
	w := gen.World{
		Store: ir.Store{
			{UID: ir.Ent("T0", "alice"), Parents: []ir.Value{e("teamA"), e("teamB")}},
			{UID: e("teamA"), Parents: []ir.Value{e("deptA"), e("guild")}},
			{UID: e("teamB"), Parents: []ir.Value{e("deptB"), e("guild")}},
			{UID: e("deptA"), Parents: []ir.Value{e("org")}},
			{UID: e("deptB"), Parents: []ir.Value{e("org2"), e("ghost")}},
			{UID: e("guild"), Parents: []ir.Value{e("org"), e("teamA")}}, // cycle teamA -> guild -> teamA
			{UID: e("org")},
			{UID: e("org2")},
		},
		Req: ir.Request{Principal: ir.Ent("T0", "alice"), Action: ir.Ent("Action", "view"), Resource: e("org"), Context: ir.Rec()},
	}
	nodes := []ir.Value{ir.Ent("T0", "alice"), e("teamA"), e("teamB"), e("deptA"), e("deptB"), e("guild"), e("org"), e("org2"), e("ghost"), e("nowhere")}
	count := 0
	for _, s := range nodes {
		for i, a := range nodes {
			count += 2
			run(&Case{Expr: ir.Bin(ir.OpIn, ir.Lit(s), ir.Lit(a)), World: w}, "hierarchy-table", true, fail)
			run(&Case{Expr: ir.IsIn(ir.Lit(s), s.T, ir.Lit(a)), World: w}, "hierarchy-table", true, fail)
			for j, b := range nodes {
				count += 2
				run(&Case{Expr: ir.Bin(ir.OpIn, ir.Lit(s), ir.SetE(ir.Lit(a), ir.Lit(b))), World: w}, "hierarchy-table", true, fail)
				run(&Case{Expr: ir.IsIn(ir.Lit(s), "T1", ir.Lit(ir.Set(a, b))), World: w}, "hierarchy-table", true, fail)
				if (i+j)%3 == 0 {
					count++
					run(&Case{Expr: ir.Bin(ir.OpIn, ir.Lit(s), ir.Lit(ir.Set(e("nowhere"), a, b))), World: w}, "hierarchy-table", true, fail)
				}
			}
		}
	}
	// target sets whose members' type and id concatenate to the same bytes: every member has to stay a member
	w2 := gen.World{
		Store: ir.Store{{UID: ir.Ent("T0", "a"), Parents: []ir.Value{ir.Ent("A", "bc")}}, {UID: ir.Ent("T0", "b"), Parents: []ir.Value{ir.Ent("Ab", "c")}}, {UID: ir.Ent("T0", "c"), Parents: []ir.Value{ir.Ent("Abc", "")}}},
		Req:   ir.Request{Principal: ir.Ent("T0", "a"), Action: ir.Ent("Action", "view"), Resource: ir.Ent("T0", "b"), Context: ir.Rec()},
	}
	twins := []ir.Value{ir.Ent("A", "bc"), ir.Ent("Ab", "c"), ir.Ent("Abc", "")}
	for _, s := range []string{"a", "b", "c"} {
		for _, pm := range [][]int{{0, 1, 2}, {2, 1, 0}, {1, 0, 2}, {0, 1}, {1, 0}, {1, 2}, {2, 1}, {0, 2}, {2, 0}} {
			var vs []ir.Value
			var es []*ir.Expr
			for _, i := range pm {
				vs = append(vs, twins[i])
				es = append(es, ir.Lit(twins[i]))
			}
			count += 3
			run(&Case{Expr: ir.Bin(ir.OpIn, ir.Lit(ir.Ent("T0", s)), ir.Lit(ir.Set(vs...))), World: w2}, "hierarchy-table", true, fail)
			run(&Case{Expr: ir.Bin(ir.OpIn, ir.Lit(ir.Ent("T0", s)), ir.SetE(es...)), World: w2}, "hierarchy-table", true, fail)
			run(&Case{Expr: ir.Bin(ir.OpContains, ir.Lit(ir.Set(vs...)), ir.Lit(twins[pm[len(pm)-1]])), World: w2}, "hierarchy-table", true, fail)
		}
	}
	ev.R.Space("in / is-in over a two-level multi-parent store (diamond, cycle, dangling parent): every source x target, x target pairs; target sets of uids whose type+id concatenations coincide", count)
}

// TestConstructorTable: decimal() ip() datetime() duration() on valid, boundary and malformed literals.
func TestConstructorTable(t *testing.T) {
	if !ev.First() {
		return
	}
	fail := tableFail(t)
	count := 0
	do := func(fn, arg string) {
		count++
		run(&Case{Expr: ir.Ext(fn, ir.Lit(ir.Str(arg))), World: emptyWorld}, "ctor-table:"+fn, true, fail)
	}
	for fn, bads := range gen.BadCtorArgs {
		for _, b := range bads {
			do(fn, b)
		}
	}
	for _, v := range gen.DecimalBoundary {
		do("decimal", ref.FormatDecimal(v))
	}
	for _, s := range []string{"0.0", "0.00", "0.000", "0.0000", "-0.0", "00.1", "001.100", "1.5", "1.05", "1.005", "1.0005", "-1.0005", "-0.0001", "922337203685477.5807", "-922337203685477.5808", "922337203685477.58", "0.5808", "12345678901234567890.0", "-12345678901234567890.0"} {
		do("decimal", s)
	}
	for _, v := range gen.TimeBoundary {
		do("datetime", ref.FormatDatetime(v))
		do("duration", ref.FormatDuration(v))
	}
	for _, s := range []string{"2024-02-29", "2023-02-28", "2000-02-29", "1900-02-28", "1900-02-29", "0000-01-01", "0000-02-29", "9999-12-31", "9999-12-31T23:59:59.999Z", "1969-12-31T23:59:59.999Z", "1970-01-01T00:00:00Z", "1970-01-01T00:00:00+0000", "1970-01-01T00:00:00-0000",
		"1970-01-01T00:00:00+2359", "1970-01-01T00:00:00-2359", "1970-01-01T00:00:00.001+0100", "2024-03-10T12:34:56-0730", "2024-12-31T23:59:59.999+2359", "0000-01-01T00:00:00+2359",
		"-000000001-01-01", "+000002024-01-01", "+000002024-01-01T00:00:00Z", "-000000001-12-31T23:59:59.999-0100", "+292278994-08-17T07:12:55.807Z", "+292278994-08-17T07:12:55.808Z", "+292278994-08-17", "+292278994-08-18", "+292278994-08-17T08:12:55.807+0100",
		"-292275055-05-16T16:47:04.192Z", "-292275055-05-16T16:47:04.191Z", "-292275055-05-17", "-292275055-05-16", "-292275055-05-17T00:00:00Z", "-292275055-05-16T15:47:04.192-0100", "+292278995-01-01", "-292275056-01-01", "-292275056-12-31T23:59:59Z",
		"2024-01-01T00:00:00.000Z", "2024-06-30T23:59:59Z", "2024-11-31", "2024-02-29T12:00:00+0000", "2100-02-29", "2400-02-29"} {
		do("datetime", s)
	}
	for _, s := range []string{"0ms", "0d", "0d0h0m0s0ms", "1d", "1h", "1m", "1s", "1ms", "1d2h3m4s5ms", "-1d2h3m4s5ms", "1d5ms", "1h1ms", "2m3s", "-0ms", "00001ms", "9223372036854775807ms", "-9223372036854775807ms", "-9223372036854775808ms", "9223372036854775ms", "106751991167d", "106751991167d7h12m55s807ms", "106751991167d7h12m55s808ms", "-106751991167d7h12m55s808ms", "-106751991167d7h12m55s809ms", "2562047788015h", "153722867280912m", "9223372036854775s", "9223372036854776s", "1m60s", "25h", "1000ms", "1d24h"} {
		do("duration", s)
	}
	for _, s := range []string{"0.0.0.0", "255.255.255.255", "127.0.0.1", "127.0.0.1/8", "127.0.0.1/0", "127.0.0.1/32", "10.0.0.0/8", "224.0.0.1", "::", "::1", "::/0", "::1/128", "1::", "1::/16", "1:2:3:4:5:6:7:8", "1:2:3:4:5:6:7::", "::2:3:4:5:6:7:8", "1::8", "ff00::/8", "FF00::1", "abcd:ef01:2345:6789:abcd:ef01:2345:6789", "2001:db8::/32", "::ffff:102:304", "::ffff:7f00:1", "0:0:0:0:0:0:0:0", "1:2:3:4:5:6:7:8/127"} {
		do("ip", s)
	}
	ev.R.Space("constructor literals: valid, boundary and malformed texts for decimal/datetime/duration/ip", count)
}

// TestIPTable: ip predicates over the pool, all pairs for isInRange.
func TestIPTable(t *testing.T) {
	if !ev.First() {
		return
	}
	fail := tableFail(t)
	var pool []ir.Value
	for _, s := range []string{"127.0.0.1", "127.0.0.0/8", "127.0.0.1/4", "126.0.0.0/7", "128.0.0.1", "10.0.0.1", "10.0.0.0/8", "10.0.0.0/7", "224.0.0.1", "224.0.0.0/4", "224.0.0.0/3", "239.255.255.255", "240.0.0.0", "0.0.0.0/0", "255.255.255.255",
		"::1", "::1/127", "::/0", "::", "::2", "ff00::/8", "ff00::/7", "ff02::1", "fe00::1", "2001:db8::1", "2001:db8::/32", "2001:db8::/33", "::ffff:7f00:1", "::ffff:e000:1", "::7f00:1"} {
		a, p, ok, _ := ref.ParseIP(s)
		if !ok {
			t.Fatalf("harness bug: %q", s)
		}
		pool = append(pool, ir.IP(a, p))
	}
	count := 0
	for _, a := range pool {
		for _, f := range []string{"isIpv4", "isIpv6", "isLoopback", "isMulticast"} {
			count++
			run(&Case{Expr: ir.Ext(f, ir.Lit(a)), World: emptyWorld}, "ip-table", true, fail)
		}
		for _, b := range pool {
			count += 2
			run(&Case{Expr: ir.Ext("isInRange", ir.Lit(a), ir.Lit(b)), World: emptyWorld}, "ip-table", true, fail)
			run(&Case{Expr: ir.Bin(ir.OpEq, ir.Lit(a), ir.Lit(b)), World: emptyWorld}, "ip-table", true, fail)
		}
	}
	ev.R.Space("ip predicates over an address pool, isInRange and == over all pairs", count)
}

func TestRandomTyped(t *testing.T) {
	ev.SetChecks(ev.Scale(20000, 2000000))
	maxDepth := ev.Pick(5, 7)
	ev.Check(t, func(rt *rapid.T) {
		o := gen.DefaultExprOpts
		o.Val.MappedIP = !ev.KnownOpen("C01", "ipv4-mapped-loopback-multicast")
		w := gen.GenWorld(rt, 5, o.Val)
		e := gen.GenExpr(rt, &w, "", rapid.IntRange(1, maxDepth).Draw(rt, "depth"), o)
		c := &Case{Expr: e, World: w}
		if !run(c, "random-typed", false, func(string, string) {}) {
			rt.Fatalf("C01/random-typed: cedar-go and the reference disagree")
		}
	})
}

func TestRandomUntyped(t *testing.T) {
	ev.SetChecks(ev.Scale(8000, 800000))
	ev.Check(t, func(rt *rapid.T) {
		o := gen.DefaultExprOpts
		o.SlipPct = 45
		o.BadFuncPct = 8
		o.Val.MappedIP = !ev.KnownOpen("C01", "ipv4-mapped-loopback-multicast")
		w := gen.GenWorld(rt, 4, o.Val)
		e := gen.GenExpr(rt, &w, "", rapid.IntRange(1, 4).Draw(rt, "depth"), o)
		c := &Case{Expr: e, World: w}
		if !run(c, "random-untyped", false, func(string, string) {}) {
			rt.Fatalf("C01/random-untyped: cedar-go and the reference disagree")
		}
	})
}

func TestKnown(t *testing.T) {
	if !ev.First() {
		return
	}
	if ev.KnownOpen("C01", "datetime-min-day") {
		c := &Case{Expr: ir.Ext("datetime", ir.Lit(ir.Str(ref.FormatDatetime(math.MinInt64)))), World: emptyWorld}
		if sub, msg := check(c); sub != "" {
			ev.R.KnownFinding("datetime-min-day", "datetime(\""+ref.FormatDatetime(math.MinInt64)+"\"): "+msg)
		}
	}
	if ev.KnownOpen("C01", "ipv4-mapped-loopback-multicast") {
		c := &Case{Expr: ir.Ext("isLoopback", ir.Lit(gen.IPMappedPool[0])), World: emptyWorld}
		if sub, msg := check(c); sub != "" {
			ev.R.KnownFinding("ipv4-mapped-loopback-multicast", "ip(\"::ffff:7f00:1\").isLoopback(): "+msg)
		}
	}
}

func TestReplay(t *testing.T) {
	rf, ok, err := ev.LoadReplay()
	if !ok {
		t.Skip("no replay requested")
	}
	if err != nil {
		t.Fatal(err)
	}
	if ev.ReplayFuzz(t, rf, fuzzProps, fuzzRaw) {
		return
	}
	var c Case
	if err := json.Unmarshal(rf.Case, &c); err != nil || c.Expr == nil {
		t.Fatalf("cannot decode replay case: %v", err)
	}
	if sub, msg := check(&c); sub != "" {
		ev.R.Violation(sub, &c, msg)
		t.Fatalf("C01 replay %s: %s", sub, msg)
	}
}
