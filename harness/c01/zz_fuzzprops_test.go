package c01

// Coverage-guided driving of this package's rapid properties (thorough tier; see ev/fuzz.go).

import (
	"testing"

	"verif/ev"
)

var fuzzProps = map[string]func(*testing.T){
	"FuzzPropRandomTyped": TestRandomTyped,
	"FuzzPropRandomUntyped": TestRandomUntyped,
}

func FuzzPropRandomTyped(f *testing.F) { ev.FuzzProp(f, TestRandomTyped) }
func FuzzPropRandomUntyped(f *testing.F) { ev.FuzzProp(f, TestRandomUntyped) }
