// C02: authorization decision — default deny, forbid overrides permit, erroring policies are skipped;
// reasons = satisfied forbids if any else satisfied permits; errors = erroring policies; ids and positions exact.
package c02

import (
	"encoding/json"
	"fmt"
	"io"
	"iter"
	"sort"
	"strings"
	"testing"

	cedar "github.com/cedar-policy/cedar-go"
	"pgregory.net/rapid"

	"verif/conv"
	"verif/ev"
	"verif/gen"
	"verif/ir"
	"verif/ref"
	"verif/render"
)

func TestMain(m *testing.M) { ev.Main(m, "C02") }

// Case: a list of (id, policy) pairs, a world and the way the policies reach the authorizer.
type Case struct {
	IDs      []string     `json:"ids"`
	Policies []*ir.Policy `json:"policies"`
	World    gen.World    `json:"world"`
	Loader   string       `json:"loader"`           // document | stream | add | json | replace | iterator | iterator-dup | nil-entities
	World2   *gen.World   `json:"world2,omitempty"` // optional second store + request for a second call on the same policies
	Order    []int        `json:"order,omitempty"`
	Seps     []string     `json:"seps,omitempty"` // document loader: text before each policy
}

type sliceIter struct {
	ids []cedar.PolicyID
	ps  []*cedar.Policy
}

func (s sliceIter) All() iter.Seq2[cedar.PolicyID, *cedar.Policy] {
	return func(yield func(cedar.PolicyID, *cedar.Policy) bool) {
		for i := range s.ids {
			if !yield(s.ids[i], s.ps[i]) {
				return
			}
		}
	}
}

type pos struct {
	File           string
	Off, Line, Col int
}

// decoyPolicy: what an id holds before it is replaced by the policy under test (loader "replace").
func decoyPolicy(k int) *ir.Policy {
	if k%2 == 0 {
		return ir.NewPolicy(false) // forbid(principal, action, resource);
	}
	p := ir.NewPolicy(true)
	p.Conds = []ir.Cond{{When: true, Body: ir.Bin(ir.OpAdd, ir.Lit(ir.Long(1)), ir.Lit(ir.Str("a")))}}
	return p
}

func check(c *Case) (string, string) {
	n := len(c.Policies)
	env := ref.NewEnv(c.World.Store, c.World.Req)
	wantPos := map[string]pos{}
	ids := append([]string(nil), c.IDs...)
	var iterable cedar.PolicyIterator
	switch c.Loader {
	case "document", "stream":
		var doc strings.Builder
		offs := make([]int, n)
		for i, p := range c.Policies {
			sep := "\n"
			if i < len(c.Seps) {
				sep = c.Seps[i]
			}
			doc.WriteString(sep)
			offs[i] = doc.Len()
			doc.WriteString(render.Policy(p, render.Opts{}))
		}
		text := doc.String()
		ids = make([]string, n)
		fname := "doc.cedar"
		if c.Loader == "stream" {
			fname = ""
		}
		for i := range c.Policies {
			ids[i] = fmt.Sprintf("policy%d", i)
			l, col := render.PositionAt(text, offs[i])
			wantPos[ids[i]] = pos{fname, offs[i], l, col}
		}
		if c.Loader == "stream" {
			// the streaming decoder: every statement is decoded before any of them is used
			d := cedar.NewDecoder(strings.NewReader(text))
			got := make([]*cedar.Policy, 0, n)
			for {
				p := new(cedar.Policy)
				err := d.Decode(p)
				if err == io.EOF {
					break
				}
				if err != nil {
					return "stream/parse", fmt.Sprintf("generated document does not decode as a stream: %v\n%s", err, text)
				}
				got = append(got, p)
			}
			if len(got) != n {
				return "stream/count", fmt.Sprintf("stream decoder produced %d policies for %d statements\n%s", len(got), n, text)
			}
			ps := cedar.NewPolicySet()
			for i, p := range got {
				ps.Add(cedar.PolicyID(ids[i]), p)
			}
			iterable = ps
			break
		}
		ps, err := cedar.NewPolicySetFromBytes("doc.cedar", []byte(text))
		if err != nil {
			return "document/parse", fmt.Sprintf("generated document does not parse: %v\n%s", err, text)
		}
		iterable = ps
	case "add", "nil-entities", "json", "replace":
		ps := cedar.NewPolicySet()
		order := c.Order
		if len(order) != n {
			order = make([]int, n)
			for i := range order {
				order[i] = i
			}
		}
		if c.Loader == "replace" {
			// every id first holds a decoy (a forbid of everything / a permit that always fails), and an extra id comes and
			// goes: only the current contents may count
			for k, i := range order {
				ps.Add(cedar.PolicyID(ids[i]), conv.ToPolicy(decoyPolicy(k)))
			}
			ps.Add("zz-extra", conv.ToPolicy(decoyPolicy(0)))
			for _, i := range order {
				if ps.Add(cedar.PolicyID(ids[i]), conv.ToPolicy(c.Policies[i])) {
					return "add/return", fmt.Sprintf("Add(%q) reported a new policy although the id was present", ids[i])
				}
			}
			if !ps.Remove("zz-extra") {
				return "remove/return", "Remove of a present id reported false"
			}
			iterable = ps
			break
		}
		for _, i := range order {
			if !ps.Add(cedar.PolicyID(ids[i]), conv.ToPolicy(c.Policies[i])) {
				return "add/return", fmt.Sprintf("Add(%q) reported an existing policy in a fresh set", ids[i])
			}
		}
		if c.Loader == "json" {
			// the set as read back from its JSON document (ids survive, positions do not)
			// (whether every set survives the JSON codec is C09's subject: a set that does not - e.g. one calling an
			// unknown function - is used as built)
			var back cedar.PolicySet
			if b, err := ps.MarshalJSON(); err == nil && back.UnmarshalJSON(b) == nil {
				ps = &back
			} else {
				ev.R.Label("json-loader-unavailable", 1)
			}
		}
		iterable = ps
	case "iterator", "iterator-dup":
		si := sliceIter{}
		compiled := map[int]*cedar.Policy{}
		for i, p := range c.Policies {
			// iterator-dup: structurally equal policies share one *cedar.Policy object under different ids
			var cp *cedar.Policy
			if c.Loader == "iterator-dup" {
				for j := 0; j < i; j++ {
					if conv.EqualPolicy(c.Policies[j], p) {
						cp = compiled[j]
						break
					}
				}
			}
			if cp == nil {
				cp = conv.ToPolicy(p)
			}
			compiled[i] = cp
			si.ids = append(si.ids, cedar.PolicyID(ids[i]))
			si.ps = append(si.ps, cp)
		}
		iterable = si
	default:
		return "harness", "unknown loader " + c.Loader
	}
	want := ref.Authorize(ids, c.Policies, env)

	var dec cedar.Decision
	var diag cedar.Diagnostic
	if c.Loader == "nil-entities" {
		want = ref.Authorize(ids, c.Policies, ref.NewEnv(nil, c.World.Req))
		dec, diag = cedar.Authorize(iterable, nil, conv.ToRequest(c.World.Req))
	} else if ps, ok := iterable.(*cedar.PolicySet); ok && len(ids)%2 == 0 {
		dec, diag = ps.IsAuthorized(conv.ToEntityMap(c.World.Store), conv.ToRequest(c.World.Req))
	} else {
		dec, diag = cedar.Authorize(iterable, conv.ToEntityMap(c.World.Store), conv.ToRequest(c.World.Req))
	}
	if (dec == cedar.Allow) != want.Allow {
		return "decision", fmt.Sprintf("decision %v, specification allow=%v (reasons %v, errors %v)", dec, want.Allow, want.Reasons, want.Errors)
	}
	var gotR, gotE []string
	for _, r := range diag.Reasons {
		gotR = append(gotR, string(r.PolicyID))
		if wp, ok := wantPos[string(r.PolicyID)]; ok {
			if (pos{r.Position.Filename, r.Position.Offset, r.Position.Line, r.Position.Column}) != wp {
				return "reason-position", fmt.Sprintf("reason %s has position %+v, policy starts at %+v", r.PolicyID, r.Position, wp)
			}
		} else if c.Loader != "document" && (r.Position != cedar.Position{}) {
			return "reason-position", fmt.Sprintf("reason %s of a programmatic policy has position %+v", r.PolicyID, r.Position)
		}
	}
	for _, e := range diag.Errors {
		gotE = append(gotE, string(e.PolicyID))
		if e.Message == "" {
			return "error-message", fmt.Sprintf("error for %s has an empty message", e.PolicyID)
		}
		if wp, ok := wantPos[string(e.PolicyID)]; ok {
			if (pos{e.Position.Filename, e.Position.Offset, e.Position.Line, e.Position.Column}) != wp {
				return "error-position", fmt.Sprintf("error %s has position %+v, policy starts at %+v", e.PolicyID, e.Position, wp)
			}
		}
	}
	if !sameMultiset(gotR, want.Reasons) {
		return "reasons", fmt.Sprintf("reasons %v, specification %v (decision allow=%v)", gotR, want.Reasons, want.Allow)
	}
	if !sameMultiset(gotE, want.Errors) {
		return "errors", fmt.Sprintf("errors %v, specification %v", gotE, want.Errors)
	}
	// The same (already compiled, already used) policies against a second, unrelated store and request: the answer must
	// depend on the inputs of this call only, not on what an earlier call evaluated.
	if c.World2 != nil && c.Loader != "nil-entities" {
		want2 := ref.Authorize(ids, c.Policies, ref.NewEnv(c.World2.Store, c.World2.Req))
		dec2, diag2 := cedar.Authorize(iterable, conv.ToEntityMap(c.World2.Store), conv.ToRequest(c.World2.Req))
		var r2, e2 []string
		for _, r := range diag2.Reasons {
			r2 = append(r2, string(r.PolicyID))
		}
		for _, e := range diag2.Errors {
			e2 = append(e2, string(e.PolicyID))
		}
		if (dec2 == cedar.Allow) != want2.Allow || !sameMultiset(r2, want2.Reasons) || !sameMultiset(e2, want2.Errors) {
			return "second-call", fmt.Sprintf("second authorization on the same policies: decision %v reasons %v errors %v, specification allow=%v reasons %v errors %v", dec2, r2, e2, want2.Allow, want2.Reasons, want2.Errors)
		}
	}
	return "", ""
}

func sameMultiset(a, b []string) bool {
	if len(a) != len(b) {
		return false
	}
	x := append([]string(nil), a...)
	y := append([]string(nil), b...)
	sort.Strings(x)
	sort.Strings(y)
	for i := range x {
		if x[i] != y[i] {
			return false
		}
	}
	return true
}

// ---------------------------------------------------------------------------------------------
// The decision table: 14 policy kinds = effect x outcome

var tableWorld = gen.World{
	Store: ir.Store{
		{UID: ir.Ent("T0", "a"), Parents: []ir.Value{ir.Ent("T1", "g"), ir.Ent("T1", "h")}, Attrs: []ir.Field{ir.F("x", ir.Long(1))}},
		{UID: ir.Ent("T1", "g"), Parents: []ir.Value{ir.Ent("T1", "gg")}},
		{UID: ir.Ent("T1", "h"), Parents: []ir.Value{ir.Ent("T1", "hh")}},
		{UID: ir.Ent("T1", "gg"), Parents: []ir.Value{ir.Ent("T1", "top")}},
		{UID: ir.Ent("T1", "hh"), Parents: []ir.Value{ir.Ent("T1", "top2"), ir.Ent("T1", "ghost")}},
		{UID: ir.Ent("T1", "top")},
		{UID: ir.Ent("T1", "r"), Attrs: []ir.Field{ir.F("owner", ir.Ent("T0", "a"))}},
		{UID: ir.Ent("Action", "view"), Parents: []ir.Value{ir.Ent("Action", "readers"), ir.Ent("Action", "viewers")}},
		{UID: ir.Ent("Action", "readers"), Parents: []ir.Value{ir.Ent("Action", "everything")}},
		{UID: ir.Ent("Action", "viewers"), Parents: []ir.Value{ir.Ent("Action", "all2")}},
	},
	Req: ir.Request{Principal: ir.Ent("T0", "a"), Action: ir.Ent("Action", "view"), Resource: ir.Ent("T1", "r"), Context: ir.Rec(ir.F("k", ir.Long(5)))},
}

var outcomes = []string{"satisfied", "scope-mismatch", "when-false", "unless-true", "error-in-when", "error-in-unless", "non-bool"}

// kindPolicy builds a policy of the given effect and outcome; variant varies the concrete shape.
func kindPolicy(permit bool, outcome string, variant int) *ir.Policy {
	p := ir.NewPolicy(permit)
	tr := ir.Lit(ir.Bool(true))
	switch outcome {
	case "satisfied":
		switch variant % 5 {
		case 3:
			// scope and condition targets that are three parent links away, through the second parent, in list form
			p.Action = ir.ScopeInSet([]ir.Value{ir.Ent("Action", "nothing"), ir.Ent("Action", "all2"), ir.Ent("Action", "everything")})
			p.Conds = []ir.Cond{{When: true, Body: ir.Bin(ir.OpIn, ir.Var("principal"), ir.SetE(ir.Lit(ir.Ent("T1", "nope")), ir.Lit(ir.Ent("T1", "top2"))))}}
		case 4:
			p.Principal = ir.ScopeIn(ir.Ent("T1", "ghost"))
			p.Conds = []ir.Cond{{When: true, Body: ir.IsIn(ir.Var("principal"), "T0", ir.SetE(ir.Lit(ir.Ent("T1", "top")), ir.Lit(ir.Ent("T1", "top2"))))}}
		case 0:
			p.Conds = []ir.Cond{{When: true, Body: tr}}
		case 1:
			p.Principal = ir.ScopeIn(ir.Ent("T1", "g"))
			p.Conds = []ir.Cond{{When: true, Body: ir.Bin(ir.OpEq, ir.Access(ir.Var("resource"), "owner"), ir.Var("principal"))}, {When: false, Body: ir.Lit(ir.Bool(false))}}
		default:
			p.Action = ir.ScopeEq(ir.Ent("Action", "view"))
			p.Resource = ir.ScopeIs("T1")
		}
	case "scope-mismatch":
		switch variant % 4 {
		case 3:
			p.Principal = ir.ScopeIn(ir.Ent("T1", "r"))
			p.Action = ir.ScopeInSet([]ir.Value{ir.Ent("Action", "everything")})
		case 0:
			p.Principal = ir.ScopeEq(ir.Ent("T0", "zz"))
		case 1:
			p.Action = ir.ScopeInSet([]ir.Value{ir.Ent("Action", "edit")})
			// condition would error, but the scope already fails: must not be reported as erroring
			p.Conds = []ir.Cond{{When: true, Body: ir.Bin(ir.OpAdd, ir.Lit(ir.Long(1)), ir.Lit(ir.Str("a")))}}
		default:
			p.Resource = ir.ScopeIsIn("T0", ir.Ent("T1", "g"))
		}
	case "when-false":
		if variant%2 == 0 {
			p.Conds = []ir.Cond{{When: true, Body: ir.Lit(ir.Bool(false))}}
		} else {
			p.Conds = []ir.Cond{{When: true, Body: ir.Bin(ir.OpGt, ir.Access(ir.Var("context"), "k"), ir.Lit(ir.Long(9)))}, {When: true, Body: ir.Access(ir.Var("context"), "missing")}}
		}
	case "unless-true":
		if variant%2 == 0 {
			p.Conds = []ir.Cond{{When: false, Body: tr}}
		} else {
			p.Conds = []ir.Cond{{When: true, Body: tr}, {When: false, Body: ir.Has(ir.Var("principal"), "x")}}
		}
	case "error-in-when":
		switch variant % 3 {
		case 0:
			p.Conds = []ir.Cond{{When: true, Body: ir.Bin(ir.OpEq, ir.Bin(ir.OpAdd, ir.Lit(ir.Long(1)), ir.Lit(ir.Str("a"))), ir.Lit(ir.Long(2)))}}
		case 1:
			p.Conds = []ir.Cond{{When: true, Body: ir.Access(ir.Var("context"), "missing")}}
		default:
			p.Conds = []ir.Cond{{When: true, Body: tr}, {When: true, Body: ir.Bin(ir.OpLt, ir.Bin(ir.OpMul, ir.Lit(ir.Long(1<<62)), ir.Lit(ir.Long(4))), ir.Lit(ir.Long(0)))}}
		}
	case "error-in-unless":
		if variant%2 == 0 {
			p.Conds = []ir.Cond{{When: false, Body: ir.Access(ir.Lit(ir.Ent("T0", "nobody")), "x")}}
		} else {
			p.Conds = []ir.Cond{{When: false, Body: ir.Bin(ir.OpLt, ir.Lit(ir.Str("a")), ir.Lit(ir.Long(1)))}}
		}
	case "non-bool":
		if variant%2 == 0 {
			p.Conds = []ir.Cond{{When: true, Body: ir.Lit(ir.Long(1))}}
		} else {
			p.Conds = []ir.Cond{{When: false, Body: ir.Access(ir.Var("context"), "k")}}
		}
	}
	return p
}

func expectedOutcome(outcome string) ref.Outcome {
	switch outcome {
	case "satisfied":
		return ref.Satisfied
	case "error-in-when", "error-in-unless", "non-bool":
		return ref.Erroring
	}
	return ref.Unsatisfied
}

type kind struct {
	permit  bool
	outcome string
}

func allKinds() []kind {
	var ks []kind
	for _, pm := range []bool{true, false} {
		for _, o := range outcomes {
			ks = append(ks, kind{pm, o})
		}
	}
	return ks
}

func kindName(k kind) string {
	e := "forbid"
	if k.permit {
		e = "permit"
	}
	return e + ":" + k.outcome
}

// TestKindsSelfCheck: the table policies have the outcomes their names promise (against the reference).
func TestKindsSelfCheck(t *testing.T) {
	env := ref.NewEnv(tableWorld.Store, tableWorld.Req)
	for _, k := range allKinds() {
		for v := 0; v < 3; v++ {
			o, _ := ref.PolicyOutcome(kindPolicy(k.permit, k.outcome, v), env)
			if o != expectedOutcome(k.outcome) {
				ev.R.Broken(fmt.Sprintf("harness bug: kind %s variant %d has outcome %v", kindName(k), v, o))
				t.Fatalf("harness bug: kind %s variant %d has outcome %v", kindName(k), v, o)
			}
		}
	}
}

func multisets(nk, maxSize int, f func([]int)) int {
	count := 0
	var rec func(start int, cur []int)
	rec = func(start int, cur []int) {
		count++
		f(cur)
		if len(cur) == maxSize {
			return
		}
		for i := start; i < nk; i++ {
			rec(i, append(cur, i))
		}
	}
	rec(0, nil)
	return count
}

func tableFail(t *testing.T) func(sub, msg string) {
	n := 0
	return func(sub, msg string) {
		n++
		if n <= 15 {
			t.Errorf("C02/%s: %s", sub, msg)
		}
	}
}

func runCase(c *Case, class string, labels []string, fail func(sub, msg string)) bool {
	sub, msg := check(c)
	distinct := map[ref.Outcome]bool{}
	env := ref.NewEnv(c.World.Store, c.World.Req)
	for _, p := range c.Policies {
		o, _ := ref.PolicyOutcome(p, env)
		distinct[o] = true
	}
	nt := len(c.Policies) >= 2 && len(distinct) >= 2
	ev.R.Case(ir.Hash(c), nt, append(labels, class, "loader:"+c.Loader)...)
	if ev.R.WantSample(class + ":" + c.Loader) {
		var ps []string
		for _, p := range c.Policies {
			ps = append(ps, render.Policy(p, render.Opts{}))
		}
		ev.R.Sample(class+":"+c.Loader, map[string]any{"ids": c.IDs, "policies": ps, "request": c.World.Req})
	}
	if sub != "" {
		ev.R.Violation(c.Loader+"/"+sub, c, msg)
		fail(c.Loader+"/"+sub, msg)
		return false
	}
	return true
}

// TestDecisionTable enumerates every multiset of <= 4 (quick) / 5 (thorough) policy kinds, each through three loaders.
func TestDecisionTable(t *testing.T) {
	ks := allKinds()
	fail := tableFail(t)
	maxSize := ev.Pick(4, 5)
	idx := 0
	total := multisets(len(ks), maxSize, func(sel []int) {
		idx++
		if idx%ev.NShards != ev.Shard {
			return
		}
		c := Case{World: tableWorld}
		var cell []string
		sat := map[string]bool{}
		for j, ki := range sel {
			k := ks[ki]
			c.Policies = append(c.Policies, kindPolicy(k.permit, k.outcome, idx+j))
			c.IDs = append(c.IDs, fmt.Sprintf("id%d", j))
			sat[kindName(k)] = true
		}
		if sat["forbid:error-in-when"] && sat["permit:satisfied"] {
			cell = append(cell, "cell:erroring-forbid+satisfied-permit")
		}
		if sat["forbid:satisfied"] && sat["permit:satisfied"] {
			cell = append(cell, "cell:forbid-overrides-permit")
		}
		if len(sel) == 0 {
			cell = append(cell, "cell:empty-set")
		}
		for _, loader := range []string{"document", "stream", "add", "json", "iterator", "iterator-dup", "replace"} {
			cc := c
			cc.Loader = loader
			if loader == "add" {
				// reversed insertion order
				for i := len(sel) - 1; i >= 0; i-- {
					cc.Order = append(cc.Order, i)
				}
			}
			if loader == "document" || loader == "stream" {
				for j := range sel {
					// (the fifth separator is longer than the tokenizer's read buffer: later policies start beyond 1 KiB, 2 KiB, ...)
					cc.Seps = append(cc.Seps, []string{"\n", "// é comment\n  ", "\n\n\t", " ", "/* " + strings.Repeat("pad ", 530) + "*/\n"}[(idx+j)%5])
				}
			}
			runCase(&cc, "table", cell, fail)
		}
	})
	if ev.First() {
		ev.R.Space(fmt.Sprintf("multisets of <= %d of the 14 policy kinds (effect x outcome) x 7 loaders", maxSize), total*7)
	}
}

// TestOrderedPairs: all 14x14 ordered pairs, both id orders.
func TestOrderedPairs(t *testing.T) {
	if !ev.First() {
		return
	}
	ks := allKinds()
	fail := tableFail(t)
	n := 0
	for i, a := range ks {
		for j, b := range ks {
			for _, ids := range [][]string{{"a", "b"}, {"policy10", "policy2"}, {"", "é"}} {
				c := Case{World: tableWorld, Policies: []*ir.Policy{kindPolicy(a.permit, a.outcome, i), kindPolicy(b.permit, b.outcome, j+1)}, IDs: ids, Loader: "add", Order: []int{1, 0}}
				n++
				runCase(&c, "pairs", nil, fail)
				c2 := c
				c2.Loader = "nil-entities"
				n++
				runCase(&c2, "pairs", nil, fail)
			}
		}
	}
	ev.R.Space("ordered pairs of policy kinds x 3 id pairs x {add, nil entity store}", n)
}

func genCase(rt *rapid.T) *Case {
	o := gen.DefaultExprOpts
	o.BadCtorPct = 5
	w := gen.GenWorld(rt, 5, o.Val)
	n := rapid.IntRange(0, 12).Draw(rt, "npol")
	c := &Case{World: w}
	po := gen.PolicyOpts{Expr: o, MaxConds: 2, Depth: 3, Annot: true}
	idPool := []string{"a", "b", "policy0", "policy1", "policy10", "policy2", "", "é", "p3", "p4", "p5", "p6", "p7", "p8"}
	perm := rapid.Permutation(idPool).Draw(rt, "ids")
	for i := 0; i < n; i++ {
		c.Policies = append(c.Policies, gen.GenPolicy(rt, &w, po))
		c.IDs = append(c.IDs, perm[i])
	}
	if rapid.Bool().Draw(rt, "second") {
		// same principal / resource where possible, so that policies written for the first world stay relevant
		w2 := gen.GenWorld(rt, 5, o.Val)
		if rapid.Bool().Draw(rt, "samereq") {
			w2.Req.Principal, w2.Req.Resource, w2.Req.Action = w.Req.Principal, w.Req.Resource, w.Req.Action
		}
		c.World2 = &w2
	}
	c.Loader = rapid.SampledFrom([]string{"document", "stream", "add", "json", "iterator", "iterator-dup", "nil-entities", "replace"}).Draw(rt, "loader")
	if c.Loader == "add" || c.Loader == "nil-entities" {
		idx := make([]int, n)
		for i := range idx {
			idx[i] = i
		}
		c.Order = rapid.Permutation(idx).Draw(rt, "order")
	}
	if c.Loader == "document" || c.Loader == "stream" {
		for i := 0; i < n; i++ {
			c.Seps = append(c.Seps, rapid.SampledFrom([]string{"\n", " ", "\r\n", "// x\n", "\n// é日本\n\t", "\n\n\n"}).Draw(rt, "sep"))
		}
	}
	return c
}

// documentable: the document loader needs policies the text syntax can express (the renderer handles all IR forms
// except unknown function names and wrong-arity calls of *method-style* functions with zero args).
func documentable(c *Case) bool {
	okk := true
	for _, p := range c.Policies {
		for _, cd := range p.Conds {
			cd.Body.Walk(func(e *ir.Expr) {
				if e.Op == ir.OpExt {
					if _, known := ref.ExtArity[e.Name]; !known || (ref.ExtIsMethod(e.Name) && len(e.Args) == 0) {
						okk = false
					}
				}
				if e.Op == ir.OpLit && hasMinDay(*e.Lit) {
					okk = false
				}
			})
		}
	}
	return okk
}

func hasMinDay(v ir.Value) bool {
	if v.K == ir.KDatetime && v.I < -1<<63+86400000 {
		return true
	}
	for _, e := range v.Elems {
		if hasMinDay(e) {
			return true
		}
	}
	for _, f := range v.Fields {
		if hasMinDay(f.V) {
			return true
		}
	}
	return false
}

func TestRandomSets(t *testing.T) {
	ev.SetChecks(ev.Scale(4000, 400000))
	ev.Check(t, func(rt *rapid.T) {
		c := genCase(rt)
		if (c.Loader == "document" || c.Loader == "stream") && !documentable(c) {
			c.Loader = "add"
			c.Order = nil
		}
		if !runCase(c, "random", nil, func(string, string) {}) {
			rt.Fatalf("C02/random: authorizer and specification disagree")
		}
	})
}

func TestReplay(t *testing.T) {
	rf, ok, err := ev.LoadReplay()
	if !ok {
		t.Skip("no replay requested")
	}
	if err != nil {
		t.Fatal(err)
	}
	if ev.ReplayFuzz(t, rf, fuzzProps, nil) {
		return
	}
	var c Case
	if err := json.Unmarshal(rf.Case, &c); err != nil {
		t.Fatalf("cannot decode replay case: %v", err)
	}
	if sub, msg := check(&c); sub != "" {
		ev.R.Violation(c.Loader+"/"+sub, &c, msg)
		t.Fatalf("C02 replay %s: %s", sub, msg)
	}
}
