package c02

// Coverage-guided driving of this package's rapid properties (thorough tier; see ev/fuzz.go).

import (
	"testing"

	"verif/ev"
)

var fuzzProps = map[string]func(*testing.T){
	"FuzzPropRandomSets": TestRandomSets,
}

func FuzzPropRandomSets(f *testing.F) { ev.FuzzProp(f, TestRandomSets) }
