// Package ir is the harness-owned data model: values, expressions, policies,
// entities and requests. It shares no code with cedar-go. Replay files are the
// JSON form of these types.
package ir

import (
	"encoding/json"
	"fmt"
	"hash/fnv"
	"sort"
	"strings"
)

type Kind string

const (
	KBool     Kind = "bool"
	KLong     Kind = "long"
	KString   Kind = "string"
	KEntity   Kind = "entity"
	KSet      Kind = "set"
	KRecord   Kind = "record"
	KDecimal  Kind = "decimal"
	KIP       Kind = "ip"
	KDatetime Kind = "datetime"
	KDuration Kind = "duration"
)

var AllKinds = []Kind{KBool, KLong, KString, KEntity, KSet, KRecord, KDecimal, KIP, KDatetime, KDuration}

// Value is a Cedar value. Sets keep insertion order and may hold duplicates as
// written; equality treats them as mathematical sets.
type Value struct {
	K      Kind    `json:"k"`
	B      bool    `json:"b,omitempty"`
	I      int64   `json:"i,omitempty"` // long; decimal*10^4; datetime ms; duration ms
	S      string  `json:"s,omitempty"` // string; entity id
	T      string  `json:"t,omitempty"` // entity type
	Elems  []Value `json:"e,omitempty"`
	Fields []Field `json:"f,omitempty"`
	IP     *IPVal  `json:"ip,omitempty"`
}

type Field struct {
	K string `json:"k"`
	V Value  `json:"v"`
}

// IPVal: Addr holds 4 bytes (v4) or 16 bytes (v6) as hex.
type IPVal struct {
	Addr   []byte `json:"addr"`
	Prefix int    `json:"prefix"`
}

func (ip IPVal) V6() bool { return len(ip.Addr) == 16 }

func Bool(b bool) Value          { return Value{K: KBool, B: b} }
func Long(i int64) Value         { return Value{K: KLong, I: i} }
func Str(s string) Value         { return Value{K: KString, S: s} }
func Ent(t, id string) Value     { return Value{K: KEntity, T: t, S: id} }
func Set(vs ...Value) Value      { return Value{K: KSet, Elems: vs} }
func Rec(fs ...Field) Value      { return Value{K: KRecord, Fields: fs} }
func Decimal(raw int64) Value    { return Value{K: KDecimal, I: raw} }
func Datetime(ms int64) Value    { return Value{K: KDatetime, I: ms} }
func Duration(ms int64) Value    { return Value{K: KDuration, I: ms} }
func F(k string, v Value) Field  { return Field{K: k, V: v} }
func IP(addr []byte, prefix int) Value {
	a := append([]byte(nil), addr...)
	return Value{K: KIP, IP: &IPVal{Addr: a, Prefix: prefix}}
}

// Get returns the record field k.
func (v Value) Get(k string) (Value, bool) {
	// last wins, to mirror "duplicate keys: latter preserved"; generators do not create duplicates
	for i := len(v.Fields) - 1; i >= 0; i-- {
		if v.Fields[i].K == k {
			return v.Fields[i].V, true
		}
	}
	return Value{}, false
}

// Distinct returns the distinct members of a set value in first-occurrence order.
func (v Value) Distinct() []Value {
	var out []Value
	for _, e := range v.Elems {
		dup := false
		for _, o := range out {
			if Equal(e, o) {
				dup = true
				break
			}
		}
		if !dup {
			out = append(out, e)
		}
	}
	return out
}

// Contains reports set membership by structural equality.
func (v Value) Contains(x Value) bool {
	for _, e := range v.Elems {
		if Equal(e, x) {
			return true
		}
	}
	return false
}

// Equal is the reference structural equality of Cedar values.
func Equal(a, b Value) bool {
	if a.K != b.K {
		return false
	}
	switch a.K {
	case KBool:
		return a.B == b.B
	case KLong, KDecimal, KDatetime, KDuration:
		return a.I == b.I
	case KString:
		return a.S == b.S
	case KEntity:
		return a.T == b.T && a.S == b.S
	case KIP:
		return a.IP.Prefix == b.IP.Prefix && string(a.IP.Addr) == string(b.IP.Addr)
	case KSet:
		for _, e := range a.Elems {
			if !b.Contains(e) {
				return false
			}
		}
		for _, e := range b.Elems {
			if !a.Contains(e) {
				return false
			}
		}
		return true
	case KRecord:
		ka, kb := a.keySet(), b.keySet()
		if len(ka) != len(kb) {
			return false
		}
		for k := range ka {
			if _, ok := kb[k]; !ok {
				return false
			}
			av, _ := a.Get(k)
			bv, _ := b.Get(k)
			if !Equal(av, bv) {
				return false
			}
		}
		return true
	}
	return false
}

func (v Value) keySet() map[string]struct{} {
	m := map[string]struct{}{}
	for _, f := range v.Fields {
		m[f.K] = struct{}{}
	}
	return m
}

// SortedKeys returns the distinct keys of a record in byte order.
func (v Value) SortedKeys() []string {
	m := v.keySet()
	ks := make([]string, 0, len(m))
	for k := range m {
		ks = append(ks, k)
	}
	sort.Strings(ks)
	return ks
}

// Depth of nesting of a value (scalars = 0).
func (v Value) Depth() int {
	d := 0
	for _, e := range v.Elems {
		if x := e.Depth() + 1; x > d {
			d = x
		}
	}
	for _, f := range v.Fields {
		if x := f.V.Depth() + 1; x > d {
			d = x
		}
	}
	return d
}

// String gives a compact human-readable form (not Cedar syntax; used in samples and logs).
func (v Value) String() string {
	switch v.K {
	case KBool:
		return fmt.Sprint(v.B)
	case KLong:
		return fmt.Sprint(v.I)
	case KString:
		return fmt.Sprintf("%q", v.S)
	case KEntity:
		return fmt.Sprintf("%s::%q", v.T, v.S)
	case KDecimal:
		return fmt.Sprintf("decimal(%d/10^4)", v.I)
	case KDatetime:
		return fmt.Sprintf("datetime(%dms)", v.I)
	case KDuration:
		return fmt.Sprintf("duration(%dms)", v.I)
	case KIP:
		return fmt.Sprintf("ip(%x/%d)", v.IP.Addr, v.IP.Prefix)
	case KSet:
		p := make([]string, len(v.Elems))
		for i, e := range v.Elems {
			p[i] = e.String()
		}
		return "[" + strings.Join(p, ", ") + "]"
	case KRecord:
		p := make([]string, len(v.Fields))
		for i, f := range v.Fields {
			p[i] = fmt.Sprintf("%q: %s", f.K, f.V.String())
		}
		return "{" + strings.Join(p, ", ") + "}"
	}
	return "?"
}

// ---------------------------------------------------------------------------------------------
// Expressions

type Op string

const (
	OpLit         Op = "lit"
	OpVar         Op = "var" // Name = principal|action|resource|context
	OpAnd         Op = "&&"
	OpOr          Op = "||"
	OpNot         Op = "!"
	OpNeg         Op = "neg"
	OpIf          Op = "if"
	OpEq          Op = "=="
	OpNe          Op = "!="
	OpLt          Op = "<"
	OpLe          Op = "<="
	OpGt          Op = ">"
	OpGe          Op = ">="
	OpAdd         Op = "+"
	OpSub         Op = "-"
	OpMul         Op = "*"
	OpIn          Op = "in"
	OpIs          Op = "is"   // Name = entity type
	OpIsIn        Op = "isin" // Name = entity type, Args[1] = target
	OpHas         Op = "has"  // Name = attribute
	OpAccess      Op = "."    // Name = attribute
	OpHasTag      Op = "hasTag"
	OpGetTag      Op = "getTag"
	OpLike        Op = "like" // Pat
	OpContains    Op = "contains"
	OpContainsAll Op = "containsAll"
	OpContainsAny Op = "containsAny"
	OpIsEmpty     Op = "isEmpty"
	OpSet         Op = "set"
	OpRecord      Op = "record" // Keys parallel to Args
	OpExt         Op = "ext"    // Name = function; Args as cedar-go stores them (receiver first for methods)
)

type PatElem struct {
	Wild bool   `json:"w,omitempty"`
	Lit  string `json:"l,omitempty"`
}

type Expr struct {
	Op   Op        `json:"op"`
	Args []*Expr   `json:"args,omitempty"`
	Lit  *Value    `json:"lit,omitempty"`
	Name string    `json:"name,omitempty"`
	Keys []string  `json:"keys,omitempty"`
	Pat  []PatElem `json:"pat,omitempty"`
}

func Lit(v Value) *Expr            { return &Expr{Op: OpLit, Lit: &v} }
func Var(n string) *Expr           { return &Expr{Op: OpVar, Name: n} }
func Un(op Op, a *Expr) *Expr      { return &Expr{Op: op, Args: []*Expr{a}} }
func Bin(op Op, a, b *Expr) *Expr  { return &Expr{Op: op, Args: []*Expr{a, b}} }
func If(c, t, e *Expr) *Expr       { return &Expr{Op: OpIf, Args: []*Expr{c, t, e}} }
func Is(a *Expr, t string) *Expr   { return &Expr{Op: OpIs, Args: []*Expr{a}, Name: t} }
func IsIn(a *Expr, t string, b *Expr) *Expr {
	return &Expr{Op: OpIsIn, Args: []*Expr{a, b}, Name: t}
}
func Has(a *Expr, k string) *Expr    { return &Expr{Op: OpHas, Args: []*Expr{a}, Name: k} }
func Access(a *Expr, k string) *Expr { return &Expr{Op: OpAccess, Args: []*Expr{a}, Name: k} }
func Like(a *Expr, p []PatElem) *Expr {
	return &Expr{Op: OpLike, Args: []*Expr{a}, Pat: p}
}
func SetE(es ...*Expr) *Expr { return &Expr{Op: OpSet, Args: es} }
func RecE(keys []string, es []*Expr) *Expr {
	return &Expr{Op: OpRecord, Keys: keys, Args: es}
}
func Ext(name string, args ...*Expr) *Expr { return &Expr{Op: OpExt, Name: name, Args: args} }

// Size = number of nodes; Ops = number of non-leaf nodes.
func (e *Expr) Size() int {
	n := 1
	for _, a := range e.Args {
		n += a.Size()
	}
	return n
}

func (e *Expr) Ops() int {
	n := 0
	if e.Op != OpLit && e.Op != OpVar {
		n = 1
	}
	for _, a := range e.Args {
		n += a.Ops()
	}
	return n
}

func (e *Expr) DepthE() int {
	d := 0
	for _, a := range e.Args {
		if x := a.DepthE() + 1; x > d {
			d = x
		}
	}
	return d
}

// Walk visits every node, parents first.
func (e *Expr) Walk(f func(*Expr)) {
	f(e)
	for _, a := range e.Args {
		a.Walk(f)
	}
}

// Closed reports that no request variable occurs in e.
func (e *Expr) Closed() bool {
	c := true
	e.Walk(func(x *Expr) {
		if x.Op == OpVar {
			c = false
		}
	})
	return c
}

func (e *Expr) Clone() *Expr {
	b, _ := json.Marshal(e)
	var out Expr
	_ = json.Unmarshal(b, &out)
	return &out
}

// String renders a fully parenthesised debug form (not guaranteed to be Cedar syntax).
func (e *Expr) String() string {
	a := func(i int) string { return e.Args[i].String() }
	switch e.Op {
	case OpLit:
		return e.Lit.String()
	case OpVar:
		return e.Name
	case OpNot:
		return "!(" + a(0) + ")"
	case OpNeg:
		return "-(" + a(0) + ")"
	case OpIf:
		return "(if " + a(0) + " then " + a(1) + " else " + a(2) + ")"
	case OpIs:
		return "(" + a(0) + " is " + e.Name + ")"
	case OpIsIn:
		return "(" + a(0) + " is " + e.Name + " in " + a(1) + ")"
	case OpHas:
		return fmt.Sprintf("(%s has %q)", a(0), e.Name)
	case OpAccess:
		return fmt.Sprintf("%s[%q]", a(0), e.Name)
	case OpLike:
		return fmt.Sprintf("(%s like %v)", a(0), e.Pat)
	case OpHasTag, OpGetTag, OpContains, OpContainsAll, OpContainsAny:
		return fmt.Sprintf("%s.%s(%s)", a(0), e.Op, a(1))
	case OpIsEmpty:
		return a(0) + ".isEmpty()"
	case OpSet:
		p := make([]string, len(e.Args))
		for i := range e.Args {
			p[i] = a(i)
		}
		return "[" + strings.Join(p, ", ") + "]"
	case OpRecord:
		p := make([]string, len(e.Args))
		for i := range e.Args {
			p[i] = fmt.Sprintf("%q: %s", e.Keys[i], a(i))
		}
		return "{" + strings.Join(p, ", ") + "}"
	case OpExt:
		p := make([]string, len(e.Args))
		for i := range e.Args {
			p[i] = a(i)
		}
		return e.Name + "(" + strings.Join(p, ", ") + ")"
	default:
		if len(e.Args) == 2 {
			return "(" + a(0) + " " + string(e.Op) + " " + a(1) + ")"
		}
	}
	return "?" + string(e.Op)
}

// ---------------------------------------------------------------------------------------------
// Policies, stores, requests

type Scope struct {
	Kind     string  `json:"kind"` // all | eq | in | inset | is | isin
	Entity   *Value  `json:"entity,omitempty"`
	Entities []Value `json:"entities,omitempty"`
	Type     string  `json:"type,omitempty"`
}

func ScopeAll() Scope                  { return Scope{Kind: "all"} }
func ScopeEq(e Value) Scope            { return Scope{Kind: "eq", Entity: &e} }
func ScopeIn(e Value) Scope            { return Scope{Kind: "in", Entity: &e} }
func ScopeInSet(es []Value) Scope      { return Scope{Kind: "inset", Entities: es} }
func ScopeIs(t string) Scope           { return Scope{Kind: "is", Type: t} }
func ScopeIsIn(t string, e Value) Scope { return Scope{Kind: "isin", Type: t, Entity: &e} }

type Cond struct {
	When bool  `json:"when"`
	Body *Expr `json:"body"`
}

type Annotation struct {
	K string `json:"k"`
	V string `json:"v"`
}

type Policy struct {
	Permit      bool         `json:"permit"`
	Annotations []Annotation `json:"annotations,omitempty"`
	Principal   Scope        `json:"principal"`
	Action      Scope        `json:"action"`
	Resource    Scope        `json:"resource"`
	Conds       []Cond       `json:"conds,omitempty"`
}

func NewPolicy(permit bool) *Policy {
	return &Policy{Permit: permit, Principal: ScopeAll(), Action: ScopeAll(), Resource: ScopeAll()}
}

func (p *Policy) Clone() *Policy {
	b, _ := json.Marshal(p)
	var out Policy
	_ = json.Unmarshal(b, &out)
	return &out
}

// ScopeExpr lowers a scope constraint to the expression it stands for.
func ScopeExpr(varName string, s Scope) *Expr {
	v := Var(varName)
	switch s.Kind {
	case "eq":
		return Bin(OpEq, v, Lit(*s.Entity))
	case "in":
		return Bin(OpIn, v, Lit(*s.Entity))
	case "inset":
		es := make([]*Expr, len(s.Entities))
		for i, e := range s.Entities {
			es[i] = Lit(e)
		}
		return Bin(OpIn, v, SetE(es...))
	case "is":
		return Is(v, s.Type)
	case "isin":
		return IsIn(v, s.Type, Lit(*s.Entity))
	}
	return Lit(Bool(true))
}

// Conjuncts returns the policy as the ordered list of boolean conjuncts
// (scope P, A, R, then when c / unless !c in source order).
func (p *Policy) Conjuncts() []*Expr {
	out := []*Expr{ScopeExpr("principal", p.Principal), ScopeExpr("action", p.Action), ScopeExpr("resource", p.Resource)}
	for _, c := range p.Conds {
		if c.When {
			out = append(out, c.Body)
		} else {
			out = append(out, Un(OpNot, c.Body))
		}
	}
	return out
}

type Entity struct {
	UID     Value   `json:"uid"`
	Parents []Value `json:"parents,omitempty"`
	Attrs   []Field `json:"attrs,omitempty"`
	Tags    []Field `json:"tags,omitempty"`
}

type Store []Entity

func (s Store) Get(uid Value) (Entity, bool) {
	// last wins, like repeated map insertion
	for i := len(s) - 1; i >= 0; i-- {
		if Equal(s[i].UID, uid) {
			return s[i], true
		}
	}
	return Entity{}, false
}

type Request struct {
	Principal Value `json:"principal"`
	Action    Value `json:"action"`
	Resource  Value `json:"resource"`
	Context   Value `json:"context"`
}

// ---------------------------------------------------------------------------------------------

// Hash is a 64-bit FNV-1a of the JSON form of x (used for distinct-case counting).
func Hash(x any) uint64 {
	b, err := json.Marshal(x)
	if err != nil {
		b = []byte(fmt.Sprintf("%#v", x))
	}
	h := fnv.New64a()
	_, _ = h.Write(b)
	return h.Sum64()
}

func JSON(x any) string {
	b, err := json.Marshal(x)
	if err != nil {
		return fmt.Sprintf("%#v", x)
	}
	return string(b)
}
