// C17: schema codecs round-trip and preserve the resolved schema.
//
// For a schema IR s (harness/sch) and its cedar-go AST a = sch.ToAST(s), with R = Schema.Resolve compared through the
// canonical form sch.Canon (lists as multisets, nil == empty shape/annotations):
//
//	text : parseText(MarshalCedar(a)) parses, resolves like a ("error <=> error"), and renders to the same bytes again
//	json : parseJSON(MarshalJSON(a)) likewise
//	cross: parseJSON(MarshalJSON(parseText(MarshalCedar(a)))) and parseText(MarshalCedar(parseJSON(MarshalJSON(a)))) resolve like a
//	own  : parseText(sch.RenderText(s)) and parseJSON(sch.RenderJSON(s)) - renderers written from the format descriptions,
//	       independent of cedar-go's marshallers, with layout noise - resolve like a (a decoder that agrees with its own
//	       encoder on a wrong reading of the format is caught here)
//
// Carve-outs (check weaker than the statement): the text legs run only for schemas the text grammar can express
// (sch.TextExpressible: appliesTo with principal and resource types, known extension names, no common types with
// reserved names, explicit entity references not shadowed by a common type, identifiers as names); messages of
// resolution errors are not compared; enum value order and parent/principal/resource order are not compared.
//
// Sensitivity (scratch copies of /repo and the harness, `go test ./c17/` = quick tier, one shard, seed 1):
//
//	M1 marshal.go quoteCedar: `"` no longer escaped         -> caught: text/parse, cross/json-text (random legs + name table)
//	M2 json.go unmarshalRecordType: `required` inverted     -> caught: json/resolved, json/stable, own-json/resolved, cross/*
//	M3 json.go: action parent "type" ignored on decode      -> caught: json/resolved, json/stable, own-json/resolved, cross/*
//	M4 (negative control) marshal.go: principal list sorted -> not reported, as intended (lists are compared as multisets)
//	A replay file written from M3's violation fails under the mutant and passes on the unmodified tree.
package c17

import (
	"encoding/json"
	"flag"
	"fmt"
	"strconv"
	"strings"
	"testing"

	"github.com/cedar-policy/cedar-go/x/exp/schema"
	"pgregory.net/rapid"

	"verif/ev"
	"verif/ir"
	"verif/sch"
)

func TestMain(m *testing.M) { ev.Main(m, "C17") }

type Case struct {
	Schema *sch.Schema `json:"schema"`
	Style  uint64      `json:"style"`
}

type finding struct{ sub, detail string }

// resolveCanon returns the canonical resolved form, or "" and the error.
func resolveCanon(s *schema.Schema) (string, error) {
	r, err := s.Resolve()
	if err != nil {
		return "", err
	}
	return sch.CanonString(r), nil
}

func sameResolution(want string, wantErr error, got string, gotErr error) (bool, string) {
	if (wantErr != nil) != (gotErr != nil) {
		return false, fmt.Sprintf("original resolves with error=%v, round-tripped resolves with error=%v", wantErr, gotErr)
	}
	if wantErr == nil && want != got {
		return false, fmt.Sprintf("resolved schemas differ:\n original     %s\n round-tripped %s", want, got)
	}
	return true, ""
}

func firstLine(s string) string {
	for i, c := range s {
		if c == '\n' {
			return s[:i]
		}
	}
	return s
}

func hasEmptyEnum(s *sch.Schema) bool { return sch.FeaturesOf(s).EmptyEnum }

// Legs selects which groups of comparisons run.
type legs struct{ text, json, cross, ownText, ownJSON bool }

var allLegs = legs{true, true, true, true, true}

// checkObject runs the text / JSON / cross legs on a schema object however it was obtained (built from the harness IR,
// or parsed from fuzzed bytes). want / wantErr: its canonical resolution.
func checkObject(s0 *schema.Schema, want string, wantErr error, l legs, marshalTextOK, jsonOK bool, cur *string) (out []finding) {
	var sText, sJSON *schema.Schema
	var firstText []byte
	if marshalTextOK && (l.text || l.cross) {
		*cur = "text"
		t1, err := s0.MarshalCedar()
		if err != nil {
			return append(out, finding{"text/marshal", "MarshalCedar: " + err.Error()})
		}
		firstText = t1
		var s1 schema.Schema
		if err := s1.UnmarshalCedar(t1); err != nil {
			out = append(out, finding{"text/parse", fmt.Sprintf("MarshalCedar output does not parse: %v\n%s", err, t1)})
		} else {
			sText = &s1
			if l.text {
				got, gotErr := resolveCanon(&s1)
				if ok, d := sameResolution(want, wantErr, got, gotErr); !ok {
					out = append(out, finding{"text/resolved", d + "\ntext:\n" + string(t1)})
				}
				t2, _ := s1.MarshalCedar()
				if string(t2) != string(t1) {
					out = append(out, finding{"text/stable", fmt.Sprintf("second rendering differs:\n%s\n----\n%s", t1, t2)})
				}
			}
		}
	}
	if jsonOK && (l.json || l.cross) {
		*cur = "json"
		j1, err := s0.MarshalJSON()
		if err != nil {
			return append(out, finding{"json/marshal", "MarshalJSON: " + err.Error()})
		}
		var s2 schema.Schema
		if err := s2.UnmarshalJSON(j1); err != nil {
			out = append(out, finding{"json/parse", fmt.Sprintf("MarshalJSON output does not parse: %v\n%s", err, j1)})
		} else {
			sJSON = &s2
			if l.json {
				got, gotErr := resolveCanon(&s2)
				if ok, d := sameResolution(want, wantErr, got, gotErr); !ok {
					out = append(out, finding{"json/resolved", d + "\njson: " + string(j1)})
				}
				j2, _ := s2.MarshalJSON()
				if string(j2) != string(j1) {
					out = append(out, finding{"json/stable", fmt.Sprintf("second rendering differs:\n%s\n----\n%s", j1, j2)})
				}
			}
		}
	}
	if marshalTextOK && jsonOK && l.text && l.json {
		// encoders must not depend on (or disturb) one another: the text rendering and the resolution of the same object
		// after it has been encoded to JSON are what they were before
		*cur = "text-after-json"
		if t1 := firstText; t1 != nil {
			if _, err := s0.MarshalJSON(); err == nil {
				t1b, _ := s0.MarshalCedar()
				if string(t1b) != string(t1) {
					out = append(out, finding{"text/after-json", fmt.Sprintf("MarshalCedar differs after a MarshalJSON of the same object:\n%s\n----\n%s", t1, t1b)})
				}
				got, gotErr := resolveCanon(s0)
				if ok, d := sameResolution(want, wantErr, got, gotErr); !ok {
					out = append(out, finding{"resolve/after-json", d})
				}
			}
		}
	}
	if l.cross && jsonOK && marshalTextOK {
		if sText != nil {
			*cur = "cross/text-json"
			j, err := sText.MarshalJSON()
			var s3 schema.Schema
			if err == nil {
				err = s3.UnmarshalJSON(j)
			}
			if err != nil {
				out = append(out, finding{"cross/text-json", "text -> JSON fails: " + err.Error()})
			} else {
				got, gotErr := resolveCanon(&s3)
				if ok, d := sameResolution(want, wantErr, got, gotErr); !ok {
					out = append(out, finding{"cross/text-json", d})
				}
			}
		}
		if sJSON != nil {
			*cur = "cross/json-text"
			tx, err := sJSON.MarshalCedar()
			var s4 schema.Schema
			if err == nil {
				err = s4.UnmarshalCedar(tx)
			}
			if err != nil {
				out = append(out, finding{"cross/json-text", fmt.Sprintf("JSON -> text fails: %v\n%s", err, tx)})
			} else {
				got, gotErr := resolveCanon(&s4)
				if ok, d := sameResolution(want, wantErr, got, gotErr); !ok {
					out = append(out, finding{"cross/json-text", d + "\ntext:\n" + string(tx)})
				}
			}
		}
	}
	return out
}

// check runs the selected legs; panics inside cedar-go are findings too.
func check(c *Case, l legs) (out []finding) {
	cur := "setup"
	defer func() {
		if r := recover(); r != nil {
			out = append(out, finding{cur + "/panic", fmt.Sprintf("panic: %v", r)})
		}
	}()
	a := sch.ToAST(c.Schema)
	s0 := schema.NewSchemaFromAST(a)
	cur = "resolve"
	want, wantErr := resolveCanon(s0)
	textOK, _ := sch.TextExpressible(c.Schema)
	jsonOK := !(ev.KnownOpen("C17", "empty-enum-json") && hasEmptyEnum(c.Schema))
	// cedar-go's text marshaller is excluded for schemas matching an open finding; the own text renderer still runs
	marshalTextOK := textOK && !(ev.KnownOpen("C17", "builtin-shadowed-text") && sch.ShadowedBuiltinUse(c.Schema))

	out = append(out, checkObject(s0, want, wantErr, l, marshalTextOK, jsonOK, &cur)...)
	if l.ownText && textOK {
		cur = "own-text"
		for _, style := range []uint64{0, c.Style} {
			tx := sch.RenderText(c.Schema, style)
			var s5 schema.Schema
			if err := s5.UnmarshalCedar([]byte(tx)); err != nil {
				out = append(out, finding{"own-text/parse", fmt.Sprintf("schema text written from the grammar does not parse: %v\n%s", err, tx)})
				break
			}
			got, gotErr := resolveCanon(&s5)
			if ok, d := sameResolution(want, wantErr, got, gotErr); !ok {
				out = append(out, finding{"own-text/resolved", d + "\ntext:\n" + tx})
				break
			}
		}
	}
	if l.ownJSON && jsonOK {
		cur = "own-json"
		for _, style := range []uint64{0, c.Style} {
			js := sch.RenderJSON(c.Schema, style)
			var s6 schema.Schema
			if err := s6.UnmarshalJSON(js); err != nil {
				out = append(out, finding{"own-json/parse", fmt.Sprintf("schema JSON written from the format description does not parse: %v\n%s", err, js)})
				break
			}
			got, gotErr := resolveCanon(&s6)
			if ok, d := sameResolution(want, wantErr, got, gotErr); !ok {
				out = append(out, finding{"own-json/resolved", d + "\njson: " + string(js)})
				break
			}
		}
	}
	return out
}

func labelsOf(c *Case) (nt bool, labels []string) {
	f := sch.FeaturesOf(c.Schema)
	nt = f.Quoting || f.Ambiguous || f.Namespaces >= 2
	if f.Quoting {
		labels = append(labels, "needs-quoting")
	}
	if f.Ambiguous {
		labels = append(labels, "ambiguous-reference")
	}
	if f.Namespaces >= 2 {
		labels = append(labels, "multi-namespace")
	}
	if f.EmptyEnum {
		labels = append(labels, "empty-enum")
	}
	if f.Annotated {
		labels = append(labels, "annotated")
	}
	if ok, why := sch.TextExpressible(c.Schema); ok {
		labels = append(labels, "text-expressible")
	} else {
		labels = append(labels, "json-only", "json-only: "+why)
	}
	if _, err := resolveCanon(schema.NewSchemaFromAST(sch.ToAST(c.Schema))); err != nil {
		class := "other"
		for _, w := range []string{"undefined", "shadows", "cycle", "declared twice", "must resolve to a record"} {
			if strings.Contains(err.Error(), w) {
				class = w
				break
			}
		}
		labels = append(labels, "resolve-error", "resolve-error: "+class)
	} else {
		labels = append(labels, "resolves")
	}
	return nt, labels
}

// run executes one case with bookkeeping; returns the findings.
func run(c *Case, class string, l legs) []finding {
	if ev.KnownOpen("C17", "empty-enum-json") && hasEmptyEnum(c.Schema) {
		ev.R.Excluded("empty-enum-json")
	}
	if ev.KnownOpen("C17", "builtin-shadowed-text") && sch.ShadowedBuiltinUse(c.Schema) {
		ev.R.Excluded("builtin-shadowed-text")
	}
	nt, labels := labelsOf(c)
	fs := check(c, l)
	ev.R.Case(ir.Hash(c), nt, append(labels, class)...)
	if ev.R.WantSample(class) {
		ev.R.Sample(class, map[string]any{"text": sch.RenderText(c.Schema, 0), "labels": labels})
	}
	for _, f := range fs {
		ev.R.Violation(f.sub, c, f.detail)
	}
	return fs
}

func genCase(rt *rapid.T) *Case {
	s := sch.GenSchema(rt, sch.GenOpts{OddPct: 4})
	return &Case{Schema: s, Style: rapid.Uint64Range(1, 1<<62).Draw(rt, "style")}
}

// legSeed gives every leg its own rapid stream (ev.Main pins one seed per shard; without this all legs would
// see the same schemas). Deterministic in (VERIF_SEED, shard, leg).
func legSeed(leg int) {
	_ = flag.Set("rapid.seed", strconv.Itoa(1+1000*ev.Seed+ev.Shard+100000*leg))
}

var legNo = map[string]int{"text": 1, "json": 2, "cross": 3, "own-text": 4, "own-json": 5}

func randomLeg(t *testing.T, name string, l legs, quick, thorough int) {
	legSeed(legNo[name])
	ev.SetChecks(ev.Scale(quick, thorough))
	ev.Check(t, func(rt *rapid.T) {
		c := genCase(rt)
		if fs := run(c, "random:"+name, l); len(fs) > 0 {
			rt.Fatalf("C17/%s: the round trip changes the schema", name)
		}
	})
}

func TestTextRoundTrip(t *testing.T) { randomLeg(t, "text", legs{text: true}, 3000, 250000) }
func TestJSONRoundTrip(t *testing.T) { randomLeg(t, "json", legs{json: true}, 3000, 250000) }
func TestCrossFormat(t *testing.T)   { randomLeg(t, "cross", legs{cross: true}, 2000, 150000) }
func TestOwnText(t *testing.T)       { randomLeg(t, "own-text", legs{ownText: true}, 3000, 250000) }
func TestOwnJSON(t *testing.T)       { randomLeg(t, "own-json", legs{ownJSON: true}, 2000, 150000) }

// ---------------------------------------------------------------------------------------------
// Deterministic tables (shard 0)

func ent(name string, attrs ...sch.Attr) sch.Entity {
	return sch.Entity{Name: name, HasShape: true, Shape: attrs}
}

func act(name string, p, r string, ctx *sch.Type) sch.Action {
	return sch.Action{Name: name, Applies: &sch.Applies{Principals: []string{p}, Resources: []string{r}, Context: ctx}}
}

// TestNameTable: every name of the hostile pools as attribute name, action name, enum value, annotation value and
// action parent id, one at a time.
func TestNameTable(t *testing.T) {
	if !ev.First() {
		return
	}
	names := []string{"a", "if", "in", "true", "false", "then", "else", "like", "has", "is", "__cedar", "type", "entity", "action", "namespace", "appliesTo", "principal", "resource", "context", "tags", "enum", "Set", "String", "Long", "Bool",
		"a b", "", "1x", "x-y", "\n", "\r", "\t", "\"", "'", "\\", "\\n", "\u0000", "\x01", "\x7f", "\u0080", "\u0085", "\u00a0", "é", "日本", "\u200b", "\u2028", "\ufeff", "\ufffd", "\U0001F600", "\U0010FFFF", "\u0301", "*", "@", "//", "/* */", "A::B", "a.b", "__tag:k", "{", "}", ";", ",", "?", ":", "\"\"", "\\\"", "${x}", "%s"}
	count := 0
	for _, n := range names {
		rec := sch.Rec(sch.A(n, sch.Lng()), sch.AOpt("z", sch.Rec(sch.AOpt(n, sch.Str()))))
		s := &sch.Schema{NS: []sch.NS{
			{Name: "", Entities: []sch.Entity{ent("U", sch.A(n, sch.Lng()), sch.AOpt("other", sch.SetOf(rec)))}, Enums: []sch.Enum{{Name: "E", Values: []string{n}}},
				Actions: []sch.Action{{Name: n, Ann: []sch.Ann{{K: "doc", V: n}}}, {Name: "child" + n, Parents: []sch.PRef{{ID: n}, {Type: "Action", ID: n}}, Applies: &sch.Applies{Principals: []string{"U"}, Resources: []string{"E"}, Context: &rec}}}},
			{Name: "NS", Ann: []sch.Ann{{K: "doc", V: n}}, Commons: []sch.Common{{Name: "C", T: rec}}, Entities: []sch.Entity{ent("V", sch.A("r", sch.Ref("C")))},
				Actions: []sch.Action{{Name: n}, {Name: "x" + n, Parents: []sch.PRef{{Type: "NS::Action", ID: n}}}}},
		}}
		for _, style := range []uint64{1, 77, 123456789} {
			count++
			c := &Case{Schema: s, Style: style}
			for _, f := range run(c, "name-table", allLegs) {
				t.Errorf("C17/%s: name %q: %s", f.sub, n, f.detail)
			}
		}
	}
	ev.R.Space("hostile name table x {attribute, action, enum value, annotation value, parent id} x 3 layouts", count)
}

// TestShapeTable: hand-written schemas for the structural corners named in the property.
func TestShapeTable(t *testing.T) {
	if !ev.First() {
		return
	}
	rec0 := sch.Rec()
	refX := sch.Ref("X")
	tables := map[string]*sch.Schema{
		"empty":               {},
		"empty-namespace":     {NS: []sch.NS{{Name: "NS"}}},
		"annotated-namespace": {NS: []sch.NS{{Name: "NS", Ann: []sch.Ann{{K: "a", Bare: true}, {K: "b", V: ""}, {K: "if", V: "x"}}}}},
		"no-shape-vs-empty":   {NS: []sch.NS{{Entities: []sch.Entity{{Name: "A"}, {Name: "B", HasShape: true}}}}},
		"enums":               {NS: []sch.NS{{Enums: []sch.Enum{{Name: "E0", Values: []string{}}, {Name: "E1", Values: []string{"x"}}, {Name: "E2", Values: []string{"x", "y"}}}}}},
		"enum-parents": {NS: []sch.NS{{Entities: []sch.Entity{{Name: "A", Parents: []string{"E"}, Tags: &sch.Type{K: sch.TEntity, Name: "E"}}}, Enums: []sch.Enum{{Name: "E", Values: []string{"v"}, Ann: []sch.Ann{{K: "doc", V: "d"}}}},
			Actions: []sch.Action{act("a", "E", "A", nil)}}}},
		"common-vs-entity-same-name": {NS: []sch.NS{{Commons: []sch.Common{{Name: "A", T: sch.Lng()}}, Entities: []sch.Entity{{Name: "A"}, ent("B", sch.A("r", sch.Ref("A")), sch.A("e", sch.EntRef("A")))}}}},
		"common-vs-entity-across-ns": {NS: []sch.NS{{Entities: []sch.Entity{{Name: "A"}}}, {Name: "NS", Commons: []sch.Common{{Name: "X", T: sch.Ref("A")}}, Entities: []sch.Entity{ent("B", sch.A("r", sch.Ref("X")), sch.A("s", sch.Ref("NS::X")), sch.A("t", sch.Ref("A")))}}}},
		"ns-shadows-bare-entity":     {NS: []sch.NS{{Entities: []sch.Entity{{Name: "A"}}}, {Name: "NS", Entities: []sch.Entity{{Name: "A"}, ent("B", sch.A("r", sch.Ref("A")))}}}},
		"entity-named-like-builtin": {NS: []sch.NS{{Entities: []sch.Entity{{Name: "String"}, {Name: "ipaddr"}, ent("B", sch.A("s", sch.Str()), sch.A("r", sch.Ref("String")), sch.A("q", sch.Ref("__cedar::String")), sch.A("i", sch.Ext("ipaddr")), sch.A("j", sch.Ref("ipaddr")),
			sch.A("l", sch.Lng()), sch.A("b", sch.Boo()))}}}},
		"common-named-like-ext": {NS: []sch.NS{{Commons: []sch.Common{{Name: "decimal", T: sch.Lng()}}, Entities: []sch.Entity{ent("B", sch.A("d", sch.Ext("decimal")), sch.A("r", sch.Ref("decimal")), sch.A("q", sch.Ref("__cedar::decimal")))}}}},
		"builtin-in-namespace":  {NS: []sch.NS{{Name: "NS", Entities: []sch.Entity{{Name: "Long"}, ent("B", sch.A("l", sch.Lng()), sch.A("r", sch.Ref("Long")), sch.A("s", sch.SetOf(sch.Lng())))}}}},
		"all-types": {NS: []sch.NS{{Name: "NS", Commons: []sch.Common{{Name: "X", T: sch.Rec(sch.A("a", sch.SetOf(sch.SetOf(sch.Ref("U")))), sch.AOpt("b", sch.Rec(sch.AOpt("c", sch.Ext("datetime")))))}},
			Entities: []sch.Entity{{Name: "U", Parents: []string{"U", "NS::G"}, HasShape: true, Shape: []sch.Attr{sch.A("x", refX), sch.AOpt("ip", sch.Ext("ipaddr")), sch.A("d", sch.Ext("decimal")), sch.A("du", sch.Ext("duration")), sch.A("bo", sch.Boo()), sch.A("bo2", sch.Ref("Boolean")), sch.A("bo3", sch.Ref("Bool"))}, Tags: &sch.Type{K: sch.TSet, Elem: &sch.Type{K: sch.TString}}}, {Name: "G"}},
			Actions:  []sch.Action{act("view", "U", "G", &refX), act("edit", "NS::U", "NS::G", &rec0), {Name: "grp"}, {Name: "sub", Parents: []sch.PRef{{ID: "grp"}, {Type: "NS::Action", ID: "view"}}}}}}},
		"cross-namespace-action-parent": {NS: []sch.NS{{Actions: []sch.Action{{Name: "root"}}}, {Name: "NS", Actions: []sch.Action{{Name: "a", Parents: []sch.PRef{{Type: "Action", ID: "root"}}}, {Name: "b", Parents: []sch.PRef{{ID: "a"}}}}}}},
		"applies-multi":                 {NS: []sch.NS{{Entities: []sch.Entity{{Name: "A"}, {Name: "B"}}, Actions: []sch.Action{{Name: "a", Applies: &sch.Applies{Principals: []string{"B", "A"}, Resources: []string{"A", "B", "A"}}}}}}},
		"attr-annotations":              {NS: []sch.NS{{Entities: []sch.Entity{ent("A", sch.Attr{Name: "x", T: sch.Lng(), Ann: []sch.Ann{{K: "doc", V: "the \"x\""}, {K: "in", Bare: true}}}, sch.Attr{Name: "if", T: sch.Rec(sch.Attr{Name: "", T: sch.Str(), Opt: true, Ann: []sch.Ann{{K: "a", V: "\n"}}})})}}}},
		"undefined-refs":                {NS: []sch.NS{{Entities: []sch.Entity{ent("A", sch.A("x", sch.Ref("Nope")))}}}},
		"common-cycle":                  {NS: []sch.NS{{Commons: []sch.Common{{Name: "X", T: sch.Ref("Y")}, {Name: "Y", T: sch.SetOf(sch.Ref("X"))}}}}},
		"json-only-reserved-common":     {NS: []sch.NS{{Commons: []sch.Common{{Name: "Set", T: sch.Lng()}, {Name: "Record", T: sch.Str()}}, Entities: []sch.Entity{ent("A", sch.A("x", sch.Ref("Set")), sch.A("y", sch.Ref("Record")))}}}},
		"json-only-unknown-extension":   {NS: []sch.NS{{Entities: []sch.Entity{ent("A", sch.A("x", sch.Ext("foo")))}}}},
		"json-only-empty-applies":       {NS: []sch.NS{{Entities: []sch.Entity{{Name: "A"}}, Actions: []sch.Action{{Name: "a", Applies: &sch.Applies{Principals: []string{}, Resources: []string{"A"}}}}}}},
		"json-only-shadowed-entity-ref": {NS: []sch.NS{{Commons: []sch.Common{{Name: "A", T: sch.Lng()}}, Entities: []sch.Entity{{Name: "A"}, ent("B", sch.A("e", sch.EntRef("A")))}}}},
	}
	// records nested 1..14 deep (every other level inside a Set), as entity shape, tags, action context and common type,
	// in a namespace and bare: printers that indent per level, decoders that recurse per level
	nested := func(d int) sch.Type {
		t := sch.Lng()
		for i := 0; i < d; i++ {
			t = sch.Rec(sch.A("a", t), sch.AOpt("b", sch.Str()))
			if i%2 == 1 {
				t = sch.SetOf(t)
			}
		}
		return t
	}
	for d := 1; d <= 14; d++ {
		for _, nsName := range []string{"", "NS"} {
			nt := nested(d)
			inner := nested(d - 1)
			tables[fmt.Sprintf("nested-records-%d-%s", d, nsName)] = &sch.Schema{NS: []sch.NS{{Name: nsName, Commons: []sch.Common{{Name: "X", T: nt}},
				Entities: []sch.Entity{{Name: "U", HasShape: true, Shape: []sch.Attr{sch.A("a", inner), sch.A("x", sch.Ref("X"))}, Tags: &nt}},
				Actions:  []sch.Action{act("view", "U", "U", &sch.Type{K: sch.TRecord, Attrs: []sch.Attr{sch.A("a", inner)}})}}}}
		}
	}
	count := 0
	for name, s := range tables {
		for _, style := range []uint64{1, 42} {
			count++
			c := &Case{Schema: s, Style: style}
			for _, f := range run(c, "shape-table", allLegs) {
				t.Errorf("C17/%s: table %s: %s", f.sub, name, f.detail)
			}
		}
	}
	ev.R.Space("hand-written structural corner schemas x 2 layouts", count)
}

func TestKnown(t *testing.T) {
	if !ev.First() {
		return
	}
	if ev.KnownOpen("C17", "empty-enum-json") {
		c := &Case{Schema: &sch.Schema{NS: []sch.NS{{Enums: []sch.Enum{{Name: "E", Values: []string{}}}}}}, Style: 1}
		// run the JSON legs with the matcher bypassed
		a := sch.ToAST(c.Schema)
		s0 := schema.NewSchemaFromAST(a)
		want, wantErr := resolveCanon(s0)
		j, _ := s0.MarshalJSON()
		var s2 schema.Schema
		if err := s2.UnmarshalJSON(j); err == nil {
			got, gotErr := resolveCanon(&s2)
			if ok, _ := sameResolution(want, wantErr, got, gotErr); !ok {
				ev.R.KnownFinding("empty-enum-json", fmt.Sprintf("`entity E enum [];` is encoded as %s and decodes as an ordinary entity type (the enum is lost)", j))
			}
		}
	}
	if ev.KnownOpen("C17", "builtin-shadowed-text") {
		s := &sch.Schema{NS: []sch.NS{{Entities: []sch.Entity{{Name: "String"}, ent("U", sch.A("a", sch.Str()))}}}}
		if bad, d := textRoundTripDiffers(s); bad {
			ev.R.KnownFinding("builtin-shadowed-text", "entity String; entity U {a: <builtin String>}: MarshalCedar writes `a: String`, which re-parses as the entity type: "+firstLine(d))
		}
	}
}

// textRoundTripDiffers runs only the cedar-go text round trip, without matchers (for TestKnown).
func textRoundTripDiffers(s *sch.Schema) (bool, string) {
	s0 := schema.NewSchemaFromAST(sch.ToAST(s))
	want, wantErr := resolveCanon(s0)
	t1, _ := s0.MarshalCedar()
	var s1 schema.Schema
	if err := s1.UnmarshalCedar(t1); err != nil {
		return true, "MarshalCedar output does not parse: " + err.Error()
	}
	got, gotErr := resolveCanon(&s1)
	ok, d := sameResolution(want, wantErr, got, gotErr)
	return !ok, d
}

func TestReplay(t *testing.T) {
	rf, ok, err := ev.LoadReplay()
	if !ok {
		t.Skip("no replay requested")
	}
	if err != nil {
		t.Fatal(err)
	}
	if ev.ReplayFuzz(t, rf, fuzzProps, fuzzRaw) {
		return
	}
	var c Case
	if err := json.Unmarshal(rf.Case, &c); err != nil || c.Schema == nil {
		t.Fatalf("cannot decode replay case: %v", err)
	}
	fs := check(&c, allLegs)
	for _, f := range fs {
		ev.R.Violation(f.sub, &c, f.detail)
	}
	if len(fs) > 0 {
		t.Fatalf("C17 replay %s: %s", fs[0].sub, fs[0].detail)
	}
}
