package c17

// Coverage-guided driving of this package's rapid properties (thorough tier; see ev/fuzz.go).

import (
	"testing"

	"verif/ev"
)

var fuzzProps = map[string]func(*testing.T){
	"FuzzPropTextRoundTrip": TestTextRoundTrip,
	"FuzzPropJSONRoundTrip": TestJSONRoundTrip,
	"FuzzPropCrossFormat": TestCrossFormat,
}

func FuzzPropTextRoundTrip(f *testing.F) { ev.FuzzProp(f, TestTextRoundTrip) }
func FuzzPropJSONRoundTrip(f *testing.F) { ev.FuzzProp(f, TestJSONRoundTrip) }
func FuzzPropCrossFormat(f *testing.F) { ev.FuzzProp(f, TestCrossFormat) }
