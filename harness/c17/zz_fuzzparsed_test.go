package c17

// Byte-level fuzz targets over schema documents (thorough tier): whatever cedar-go's schema parsers accept is put through
// the round-trip legs of this property, starting from the parsed object instead of from the harness's schema IR.

import (
	"fmt"
	"testing"

	"github.com/cedar-policy/cedar-go/x/exp/schema"
	"pgregory.net/rapid"

	"verif/ev"
	"verif/sch"
)

type ParsedCase struct {
	Format string `json:"format"` // text | json
	Doc    string `json:"doc"`
}

// checkParsed: the document parses -> text / JSON / cross legs on the parsed schema. A text document is expressible in
// text by construction; a JSON document may hold what the text grammar cannot say (appendix C), so only the JSON legs run.
func checkParsed(c *ParsedCase) (out []finding) {
	cur := "parse"
	defer func() {
		if r := recover(); r != nil {
			if cur == "parse" {
				out = nil // a parser panic is C10's subject
				return
			}
			out = append(out, finding{cur + "/panic", fmt.Sprintf("panic: %v", r)})
		}
	}()
	var s0 schema.Schema
	l := legs{}
	if c.Format == "text" {
		if err := s0.UnmarshalCedar([]byte(c.Doc)); err != nil {
			return nil
		}
		l = legs{text: true, json: true, cross: true}
	} else {
		if err := s0.UnmarshalJSON([]byte(c.Doc)); err != nil {
			return nil
		}
		l = legs{json: true}
	}
	cur = "resolve"
	want, wantErr := resolveCanon(&s0)
	return checkObject(&s0, want, wantErr, l, c.Format == "text", true, &cur)
}

func parsedTarget(format string) func(*testing.T, []byte) {
	return func(t *testing.T, in []byte) {
		if len(in) > 1500 {
			t.Skip()
		}
		c := &ParsedCase{Format: format, Doc: string(in)}
		fs := checkParsed(c)
		if !ev.Fuzzing() {
			ev.R.Label("fuzz-parsed-seed:"+format, 1)
		}
		if len(fs) > 0 {
			ev.R.Violation("parsed-"+format+"/"+fs[0].sub, c, fs[0].detail)
			t.Fatalf("C17/parsed-%s/%s: %s", format, fs[0].sub, fs[0].detail)
		}
	}
}

var fuzzRaw = map[string]func(*testing.T, []byte){
	"FuzzParsedSchemaText": parsedTarget("text"),
	"FuzzParsedSchemaJSON": parsedTarget("json"),
}

func schemaSeeds(format string) [][]byte {
	g := rapid.Custom(func(rt *rapid.T) []byte {
		c := genCase(rt)
		if format == "text" {
			return []byte(sch.RenderText(c.Schema, c.Style))
		}
		return sch.RenderJSON(c.Schema, c.Style)
	})
	var out [][]byte
	for i := 0; i < 24; i++ {
		out = append(out, g.Example(i+1))
	}
	return out
}

func FuzzParsedSchemaText(f *testing.F) {
	for _, s := range schemaSeeds("text") {
		f.Add(s)
	}
	f.Fuzz(fuzzRaw["FuzzParsedSchemaText"])
}

func FuzzParsedSchemaJSON(f *testing.F) {
	for _, s := range schemaSeeds("json") {
		f.Add(s)
	}
	f.Fuzz(fuzzRaw["FuzzParsedSchemaJSON"])
}
