package render

// IR -> Cedar JSON policy format (https://docs.cedarpolicy.com/policies/json-format.html), written from the format
// description and independent of cedar-go's encoder. Objects are assembled by hand so that member order and
// insignificant whitespace can be varied (JSON objects are unordered).

import (
	"encoding/json"
	"strconv"
	"strings"

	"verif/ir"
	"verif/ref"
)

// JSONOpts selects variations of the JSON rendering.
type JSONOpts struct {
	// Next returns a number in [0,n) (a rapid draw); nil = canonical member order, no whitespace.
	Next func(n int) int
	// ExtLitAsCall writes top-level extension-typed literal values as constructor calls ({"decimal":[{"Value":"1.0"}]})
	// instead of {"Value":{"__extn":{...}}}.
	ExtLitAsCall bool
}

type jw struct{ o JSONOpts }

type member struct {
	k string
	v string
}

func jstr(s string) string {
	b, err := json.Marshal(s)
	if err != nil {
		panic(err)
	}
	return string(b)
}

func (w *jw) sp() string {
	if w.o.Next == nil {
		return ""
	}
	switch w.o.Next(6) {
	case 0:
		return " "
	case 1:
		return "\n  "
	case 2:
		return "\t"
	}
	return ""
}

// obj writes a JSON object; under noise the members are permuted.
func (w *jw) obj(ms ...member) string {
	if w.o.Next != nil && len(ms) > 1 {
		for i := len(ms) - 1; i > 0; i-- {
			j := w.o.Next(i + 1)
			ms[i], ms[j] = ms[j], ms[i]
		}
	}
	var b strings.Builder
	b.WriteString("{" + w.sp())
	for i, m := range ms {
		if i > 0 {
			b.WriteString("," + w.sp())
		}
		b.WriteString(jstr(m.k) + w.sp() + ":" + w.sp() + m.v)
	}
	b.WriteString(w.sp() + "}")
	return b.String()
}

func (w *jw) arr(vs []string) string {
	var b strings.Builder
	b.WriteString("[" + w.sp())
	for i, v := range vs {
		if i > 0 {
			b.WriteString("," + w.sp())
		}
		b.WriteString(v)
	}
	b.WriteString(w.sp() + "]")
	return b.String()
}

// entityRef is the {"type":..,"id":..} form used in scopes.
func (w *jw) entityRef(v ir.Value) string {
	return w.obj(member{"type", jstr(v.T)}, member{"id", jstr(v.S)})
}

// ExtnText gives the function name and canonical argument text of an extension value.
func ExtnText(v ir.Value) (fn, arg string) {
	switch v.K {
	case ir.KDecimal:
		return "decimal", ref.FormatDecimal(v.I)
	case ir.KDatetime:
		return "datetime", ref.FormatDatetime(v.I)
	case ir.KDuration:
		return "duration", ref.FormatDuration(v.I)
	case ir.KIP:
		return "ip", ref.FormatIP(v.IP.Addr, v.IP.Prefix)
	}
	panic("ExtnText: not an extension value")
}

// value writes a Cedar value in the JSON value format (the payload of a "Value" node).
func (w *jw) value(v ir.Value) string {
	switch v.K {
	case ir.KBool:
		if v.B {
			return "true"
		}
		return "false"
	case ir.KLong:
		return strconv.FormatInt(v.I, 10)
	case ir.KString:
		return jstr(v.S)
	case ir.KEntity:
		return w.obj(member{"__entity", w.obj(member{"type", jstr(v.T)}, member{"id", jstr(v.S)})})
	case ir.KDecimal, ir.KDatetime, ir.KDuration, ir.KIP:
		fn, arg := ExtnText(v)
		return w.obj(member{"__extn", w.obj(member{"fn", jstr(fn)}, member{"arg", jstr(arg)})})
	case ir.KSet:
		vs := make([]string, len(v.Elems))
		for i, e := range v.Elems {
			vs[i] = w.value(e)
		}
		return w.arr(vs)
	case ir.KRecord:
		ms := make([]member, len(v.Fields))
		for i, f := range v.Fields {
			ms[i] = member{f.K, w.value(f.V)}
		}
		return w.obj(ms...)
	}
	panic("render: bad value kind " + string(v.K))
}

// JSONShape names the JSON node shape of an expression node (used for coverage labels).
func JSONShape(e *ir.Expr) string {
	switch e.Op {
	case ir.OpLit:
		return "Value"
	case ir.OpVar:
		return "Var"
	case ir.OpNeg:
		return "neg"
	case ir.OpIs:
		return "is"
	case ir.OpIsIn:
		return "is-in"
	case ir.OpIf:
		return "if-then-else"
	case ir.OpSet:
		return "Set"
	case ir.OpRecord:
		return "Record"
	case ir.OpExt:
		return "ext:" + e.Name
	}
	return string(e.Op)
}

func (w *jw) expr(e *ir.Expr) string {
	a := func(i int) string { return w.expr(e.Args[i]) }
	node := func(k, v string) string { return w.obj(member{k, v}) }
	switch e.Op {
	case ir.OpLit:
		switch e.Lit.K {
		case ir.KDecimal, ir.KDatetime, ir.KDuration, ir.KIP:
			if w.o.ExtLitAsCall {
				fn, arg := ExtnText(*e.Lit)
				return node(fn, w.arr([]string{node("Value", jstr(arg))}))
			}
		}
		return node("Value", w.value(*e.Lit))
	case ir.OpVar:
		return node("Var", jstr(e.Name))
	case ir.OpNot:
		return node("!", w.obj(member{"arg", a(0)}))
	case ir.OpNeg:
		return node("neg", w.obj(member{"arg", a(0)}))
	case ir.OpIsEmpty:
		return node("isEmpty", w.obj(member{"arg", a(0)}))
	case ir.OpAnd, ir.OpOr, ir.OpEq, ir.OpNe, ir.OpLt, ir.OpLe, ir.OpGt, ir.OpGe, ir.OpAdd, ir.OpSub, ir.OpMul, ir.OpIn,
		ir.OpContains, ir.OpContainsAll, ir.OpContainsAny, ir.OpHasTag, ir.OpGetTag:
		// the IR operator names coincide with the JSON keys: && || == != < <= > >= + - * in contains containsAll containsAny hasTag getTag
		return node(string(e.Op), w.obj(member{"left", a(0)}, member{"right", a(1)}))
	case ir.OpAccess:
		return node(".", w.obj(member{"left", a(0)}, member{"attr", jstr(e.Name)}))
	case ir.OpHas:
		return node("has", w.obj(member{"left", a(0)}, member{"attr", jstr(e.Name)}))
	case ir.OpIs:
		return node("is", w.obj(member{"left", a(0)}, member{"entity_type", jstr(e.Name)}))
	case ir.OpIsIn:
		return node("is", w.obj(member{"left", a(0)}, member{"entity_type", jstr(e.Name)}, member{"in", a(1)}))
	case ir.OpLike:
		ps := make([]string, len(e.Pat))
		for i, c := range e.Pat {
			if c.Wild {
				ps[i] = `"Wildcard"`
			} else {
				ps[i] = w.obj(member{"Literal", jstr(c.Lit)})
			}
		}
		return node("like", w.obj(member{"left", a(0)}, member{"pattern", w.arr(ps)}))
	case ir.OpIf:
		return node("if-then-else", w.obj(member{"if", a(0)}, member{"then", a(1)}, member{"else", a(2)}))
	case ir.OpSet:
		vs := make([]string, len(e.Args))
		for i := range e.Args {
			vs[i] = a(i)
		}
		return node("Set", w.arr(vs))
	case ir.OpRecord:
		ms := make([]member, len(e.Args))
		for i := range e.Args {
			ms[i] = member{e.Keys[i], a(i)}
		}
		return node("Record", w.obj(ms...))
	case ir.OpExt:
		vs := make([]string, len(e.Args))
		for i := range e.Args {
			vs[i] = a(i)
		}
		return node(e.Name, w.arr(vs))
	}
	panic("render: bad op " + string(e.Op))
}

func (w *jw) scope(s ir.Scope) string {
	switch s.Kind {
	case "eq":
		return w.obj(member{"op", `"=="`}, member{"entity", w.entityRef(*s.Entity)})
	case "in":
		return w.obj(member{"op", `"in"`}, member{"entity", w.entityRef(*s.Entity)})
	case "inset":
		vs := make([]string, len(s.Entities))
		for i, e := range s.Entities {
			vs[i] = w.entityRef(e)
		}
		return w.obj(member{"op", `"in"`}, member{"entities", w.arr(vs)})
	case "is":
		return w.obj(member{"op", `"is"`}, member{"entity_type", jstr(s.Type)})
	case "isin":
		return w.obj(member{"op", `"is"`}, member{"entity_type", jstr(s.Type)}, member{"in", w.obj(member{"entity", w.entityRef(*s.Entity)})})
	}
	return w.obj(member{"op", `"All"`})
}

func (w *jw) policy(p *ir.Policy) string {
	eff := `"forbid"`
	if p.Permit {
		eff = `"permit"`
	}
	ms := []member{{"effect", eff}, {"principal", w.scope(p.Principal)}, {"action", w.scope(p.Action)}, {"resource", w.scope(p.Resource)}}
	cs := make([]string, len(p.Conds))
	for i, c := range p.Conds {
		kind := `"unless"`
		if c.When {
			kind = `"when"`
		}
		cs[i] = w.obj(member{"kind", kind}, member{"body", w.expr(c.Body)})
	}
	ms = append(ms, member{"conditions", w.arr(cs)})
	if len(p.Annotations) > 0 || (w.o.Next != nil && w.o.Next(2) == 0) {
		as := make([]member, len(p.Annotations))
		for i, a := range p.Annotations {
			as[i] = member{a.K, jstr(a.V)}
		}
		ms = append(ms, member{"annotations", w.obj(as...)})
	}
	return w.obj(ms...)
}

// PolicyJSON renders one policy in the JSON policy format.
func PolicyJSON(p *ir.Policy, o JSONOpts) []byte {
	w := &jw{o: o}
	return []byte(w.policy(p))
}

// PolicySetJSON renders {"staticPolicies": {id: policy, ...}} (the static part of the policy-set format).
func PolicySetJSON(ids []string, ps []*ir.Policy, o JSONOpts) []byte {
	w := &jw{o: o}
	ms := make([]member, len(ids))
	for i := range ids {
		ms[i] = member{ids[i], w.policy(ps[i])}
	}
	return []byte(w.obj(member{"staticPolicies", w.obj(ms...)}))
}

// ExprJSON renders a bare expression node.
func ExprJSON(e *ir.Expr, o JSONOpts) []byte {
	w := &jw{o: o}
	return []byte(w.expr(e))
}
