// Package render turns IR into Cedar policy text (own code, written from the published grammar).
package render

import (
	"fmt"
	"strconv"
	"strings"

	"verif/ir"
	"verif/ref"
)

// Reserved words that cannot be used as identifiers.
var Reserved = map[string]bool{"true": true, "false": true, "if": true, "then": true, "else": true, "in": true, "like": true, "has": true, "is": true, "__cedar": true}

// IsIdent reports whether s can be written as a bare identifier (attribute name, record key, annotation key).
func IsIdent(s string) bool {
	if s == "" || Reserved[s] {
		return false
	}
	for i := 0; i < len(s); i++ {
		c := s[i]
		if c == '_' || (c >= 'a' && c <= 'z') || (c >= 'A' && c <= 'Z') || (i > 0 && c >= '0' && c <= '9') {
			continue
		}
		return false
	}
	return true
}

// Noise supplies layout variation. A nil *Noise means canonical single-space layout.
type Noise struct {
	// Next returns a number in [0,n); it is supplied by the caller (rapid draw) so that all randomness stays in rapid.
	Next func(n int) int
	// Block allows /* */ comments (cedar-go's tokenizer accepts them; the Cedar grammar only documents // comments).
	Block bool
}

func (n *Noise) ws() string {
	if n == nil {
		return " "
	}
	switch n.Next(12) {
	case 0:
		return "  "
	case 1:
		return "\n"
	case 2:
		return "\t"
	case 3:
		return []string{" // c\n", "//\n", " /// ** /* \n", "// \" unterminated\n", " // */ }\n", "//\r\n"}[n.Next(6)]
	case 4:
		return "\r\n"
	case 5:
		if n.Block {
			// stars and slashes next to the delimiters, comment openers inside comments, a string quote, a line-comment
			// opener, several lines
			return []string{" /* x */ ", "/**/", " /***/ ", "/** doc **/", "/* * / * */", "/*/ */", " /* // */ ", "/* \" */", "/* a\n * b\n **/", "/* /* */", " /*é*/ ", "/* when { false } */"}[n.Next(12)]
		}
		return "   "
	case 6:
		return "\n\n  "
	default:
		return " "
	}
}

// optional whitespace (may be empty)
func (n *Noise) ows() string {
	if n == nil {
		return ""
	}
	switch n.Next(8) {
	case 0:
		return " "
	case 1:
		return "\n"
	case 2:
		return " // é\n"
	default:
		return ""
	}
}

func (n *Noise) flip() bool { return n != nil && n.Next(2) == 1 }

// Opts selects a rendering mode.
type Opts struct {
	FullParen    bool   // parenthesise every non-leaf sub-expression
	Noise        *Noise // layout noise; nil = canonical
	StringKeys   bool   // always write record keys / attribute accesses in string form
	ExtLitAsCall bool   // always true in practice: extension-typed literal values are written as constructor calls
}

type renderer struct {
	o Opts
	b strings.Builder
	// unary-chain context handed from a unary operator to its operand (consumed by the next call of bare):
	// the grammar is Unary ::= ['!' | '-']x4 Member, i.e. at most four *identical* prefix operators.
	chainOp  ir.Op
	chainLen int
	// statistics for the non-triviality rules of C07/C08
	NeedParens int // parentheses that precedence / associativity / the unary rule required
	Escapes    int // characters written in escaped form
}

// Stats reports how many parentheses the minimal rendering of p needs and how many characters need an escape.
func Stats(p *ir.Policy) (parens, escapes int) {
	r := &renderer{}
	for _, c := range p.Conds {
		_ = r.expr(c.Body, pIf)
	}
	for _, a := range p.Annotations {
		_ = r.quote(a.V)
	}
	for _, s := range []ir.Scope{p.Principal, p.Action, p.Resource} {
		if s.Entity != nil {
			_ = r.quote(s.Entity.S)
		}
		for _, e := range s.Entities {
			_ = r.quote(e.S)
		}
	}
	return r.NeedParens, r.Escapes
}

// String escapes s as a Cedar string literal body (without quotes). star=true additionally escapes '*' (patterns).
func EscapeString(s string, star bool, variant func(n int) int) string {
	var b strings.Builder
	for _, r := range s {
		switch {
		case r == '"':
			b.WriteString(`\"`)
		case r == '\\':
			b.WriteString(`\\`)
		case r == '\n':
			b.WriteString(`\n`)
		case r == '\r':
			b.WriteString(`\r`)
		case r == '\t':
			b.WriteString(`\t`)
		case r == 0:
			b.WriteString(`\0`)
		case r == '*' && star:
			b.WriteString(`\*`)
		case r == '\'':
			if variant != nil && variant(2) == 1 {
				b.WriteString(`\'`)
			} else {
				b.WriteRune(r)
			}
		case r < 0x20 || r == 0x7f:
			if variant != nil && variant(2) == 1 {
				fmt.Fprintf(&b, `\x%02x`, r)
			} else {
				fmt.Fprintf(&b, `\u{%x}`, r)
			}
		case r < 0x7f:
			switch {
			case variant != nil && variant(16) == 0:
				fmt.Fprintf(&b, `\u{%X}`, r)
			case variant != nil && variant(24) == 0:
				fmt.Fprintf(&b, `\x%02X`, r)
			default:
				b.WriteRune(r)
			}
		default:
			// non-ASCII: escape always; raw form is exercised separately (RawString)
			// raw form; U+2028/2029/0085 are never written raw (appendix C: raw line breaks inside literals are not generated)
			if variant != nil && variant(2) == 1 && r != 0x2028 && r != 0x2029 && r != 0x85 {
				b.WriteRune(r)
			} else {
				fmt.Fprintf(&b, `\u{%x}`, r)
			}
		}
	}
	return b.String()
}

func Quote(s string) string { return `"` + EscapeString(s, false, nil) + `"` }

func (r *renderer) quote(s string) string {
	var body string
	if r.o.Noise != nil {
		body = EscapeString(s, false, r.o.Noise.Next)
	} else {
		body = EscapeString(s, false, nil)
	}
	r.Escapes += strings.Count(body, `\`)
	return `"` + body + `"`
}

func EntityUID(v ir.Value) string { return v.T + "::" + Quote(v.S) }

// ValueText renders a value as a Cedar expression (sets, records, constructor calls for extension values).
func ValueText(v ir.Value) string {
	switch v.K {
	case ir.KBool:
		if v.B {
			return "true"
		}
		return "false"
	case ir.KLong:
		return strconv.FormatInt(v.I, 10)
	case ir.KString:
		return Quote(v.S)
	case ir.KEntity:
		return EntityUID(v)
	case ir.KDecimal:
		return `decimal("` + ref.FormatDecimal(v.I) + `")`
	case ir.KDatetime:
		return `datetime("` + ref.FormatDatetime(v.I) + `")`
	case ir.KDuration:
		return `duration("` + ref.FormatDuration(v.I) + `")`
	case ir.KIP:
		return `ip("` + ref.FormatIP(v.IP.Addr, v.IP.Prefix) + `")`
	case ir.KSet:
		p := make([]string, len(v.Elems))
		for i, e := range v.Elems {
			p[i] = ValueText(e)
		}
		return "[" + strings.Join(p, ", ") + "]"
	case ir.KRecord:
		p := make([]string, len(v.Fields))
		for i, f := range v.Fields {
			p[i] = Quote(f.K) + ": " + ValueText(f.V)
		}
		return "{" + strings.Join(p, ", ") + "}"
	}
	return "?"
}

// precedence levels
const (
	pIf = iota
	pOr
	pAnd
	pRel
	pAdd
	pMul
	pUnary
	pMember
	pPrimary
)

func prec(e *ir.Expr) int {
	switch e.Op {
	case ir.OpIf:
		return pIf
	case ir.OpOr:
		return pOr
	case ir.OpAnd:
		return pAnd
	case ir.OpEq, ir.OpNe, ir.OpLt, ir.OpLe, ir.OpGt, ir.OpGe, ir.OpIn, ir.OpHas, ir.OpLike, ir.OpIs, ir.OpIsIn:
		return pRel
	case ir.OpAdd, ir.OpSub:
		return pAdd
	case ir.OpMul:
		return pMul
	case ir.OpNot, ir.OpNeg:
		return pUnary
	case ir.OpAccess, ir.OpHasTag, ir.OpGetTag, ir.OpContains, ir.OpContainsAll, ir.OpContainsAny, ir.OpIsEmpty:
		return pMember
	case ir.OpExt:
		if ref.ExtIsMethod(e.Name) && len(e.Args) >= 1 {
			return pMember
		}
		return pPrimary
	case ir.OpLit:
		if e.Lit.K == ir.KLong && e.Lit.I < 0 {
			return pUnary // "-5" is a unary form in the grammar
		}
		return pPrimary
	}
	return pPrimary
}

func (r *renderer) ws() string  { return r.o.Noise.ws() }
func (r *renderer) ows() string { return r.o.Noise.ows() }

// sws is the layout around a symbolic operator: canonical " ", under noise any optional whitespace (possibly none).
func (r *renderer) sws() string {
	if r.o.Noise == nil {
		return " "
	}
	return r.o.Noise.ows()
}

// unaryOpOf tells which prefix operator the text of e starts with ("" if none): a negative long literal starts with '-'.
func unaryOpOf(e *ir.Expr) ir.Op {
	switch {
	case e.Op == ir.OpNot:
		return ir.OpNot
	case e.Op == ir.OpNeg:
		return ir.OpNeg
	case e.Op == ir.OpLit && e.Lit.K == ir.KLong && e.Lit.I < 0:
		return ir.OpNeg
	}
	return ""
}

// expr renders e in a context that requires at least precedence level min.
func (r *renderer) expr(e *ir.Expr, min int) string { return r.exprChain(e, min, "", 0) }

// exprChain is expr for the operand of a unary operator: chainOp/chainLen describe the run of identical prefix
// operators already written directly in front of e.
func (r *renderer) exprChain(e *ir.Expr, min int, chainOp ir.Op, chainLen int) string {
	leaf := e.Op == ir.OpLit || e.Op == ir.OpVar
	need := prec(e) < min
	if chainLen > 0 {
		if eo := unaryOpOf(e); eo != "" && (eo != chainOp || chainLen >= 4) {
			need = true // mixed "!-" chains and more than four prefix operators are outside the documented grammar
		}
	}
	if need {
		r.NeedParens++
	}
	if need || (r.o.FullParen && !leaf) || (r.o.Noise != nil && !leaf && r.o.Noise.Next(10) == 0) {
		r.chainOp, r.chainLen = "", 0
		s := r.bare(e)
		return "(" + r.ows() + s + r.ows() + ")"
	}
	r.chainOp, r.chainLen = chainOp, chainLen
	return r.bare(e)
}

func sameExpr(a, b *ir.Expr) bool { return ir.JSON(a) == ir.JSON(b) }

// hasChain recognises the expansion of `x has a.b.c` (an && chain of has-tests on growing access paths with identifier
// names, at least two of them) and returns x and the names.
func hasChain(e *ir.Expr) (*ir.Expr, []string, bool) {
	var conj []*ir.Expr
	for e.Op == ir.OpAnd {
		conj = append([]*ir.Expr{e.Args[1]}, conj...)
		e = e.Args[0]
	}
	conj = append([]*ir.Expr{e}, conj...)
	if len(conj) < 2 {
		return nil, nil, false
	}
	var base *ir.Expr
	var names []string
	for i, c := range conj {
		if c.Op != ir.OpHas || !IsIdent(c.Name) {
			return nil, nil, false
		}
		if i == 0 {
			base = c.Args[0]
		} else {
			want := base
			for _, n := range names {
				want = ir.Access(want, n)
			}
			if !sameExpr(c.Args[0], want) {
				return nil, nil, false
			}
		}
		names = append(names, c.Name)
	}
	return base, names, true
}

func (r *renderer) key(k string) (string, bool) {
	if IsIdent(k) && !r.o.StringKeys && !(r.o.Noise != nil && r.o.Noise.Next(3) == 0) {
		return k, true
	}
	return r.quote(k), false
}

func (r *renderer) bare(e *ir.Expr) string {
	chainOp, chainLen := r.chainOp, r.chainLen
	r.chainOp, r.chainLen = "", 0
	bin := func(op string, l, rr int) string {
		if op == "in" { // keyword operator: whitespace is mandatory
			return r.expr(e.Args[0], l) + r.ws() + op + r.ws() + r.expr(e.Args[1], rr)
		}
		return r.expr(e.Args[0], l) + r.sws() + op + r.sws() + r.expr(e.Args[1], rr)
	}
	method := func(name string, args ...*ir.Expr) string {
		p := make([]string, len(args))
		for i, a := range args {
			p[i] = r.ows() + r.expr(a, pIf) + r.ows()
		}
		return r.expr(e.Args[0], pMember) + r.ows() + "." + r.ows() + name + r.ows() + "(" + strings.Join(p, ",") + ")"
	}
	switch e.Op {
	case ir.OpLit:
		return r.value(*e.Lit)
	case ir.OpVar:
		return e.Name
	case ir.OpIf:
		return "if" + r.ws() + r.expr(e.Args[0], pIf) + r.ws() + "then" + r.ws() + r.expr(e.Args[1], pIf) + r.ws() + "else" + r.ws() + r.expr(e.Args[2], pIf)
	case ir.OpOr:
		return bin("||", pOr, pAnd)
	case ir.OpAnd:
		if r.o.Noise != nil {
			if base, names, ok := hasChain(e); ok && r.o.Noise.Next(2) == 0 {
				// the documented shorthand `x has a.b.c`
				return r.expr(base, pAdd) + r.ws() + "has" + r.ws() + strings.Join(names, r.ows()+"."+r.ows())
			}
		}
		return bin("&&", pAnd, pRel)
	case ir.OpEq:
		return bin("==", pAdd, pAdd)
	case ir.OpNe:
		return bin("!=", pAdd, pAdd)
	case ir.OpLt:
		return bin("<", pAdd, pAdd)
	case ir.OpLe:
		return bin("<=", pAdd, pAdd)
	case ir.OpGt:
		return bin(">", pAdd, pAdd)
	case ir.OpGe:
		return bin(">=", pAdd, pAdd)
	case ir.OpIn:
		return bin("in", pAdd, pAdd)
	case ir.OpAdd:
		return bin("+", pAdd, pMul)
	case ir.OpSub:
		return bin("-", pAdd, pMul)
	case ir.OpMul:
		return bin("*", pMul, pUnary)
	case ir.OpNot:
		n := 1
		if chainOp == ir.OpNot {
			n = chainLen + 1
		}
		return "!" + r.ows() + r.exprChain(e.Args[0], pUnary, ir.OpNot, n)
	case ir.OpNeg:
		a := e.Args[0]
		// "-" directly followed by an integer literal is a negative literal in the grammar, so Neg(non-negative literal)
		// must keep its operand in parentheses; "- -5" (Neg of a negative literal) is fine.
		if a.Op == ir.OpLit && a.Lit.K == ir.KLong && a.Lit.I >= 0 {
			r.NeedParens++
			return "-" + r.ows() + "(" + r.ows() + r.value(*a.Lit) + r.ows() + ")"
		}
		n := 1
		if chainOp == ir.OpNeg {
			n = chainLen + 1
		}
		return "-" + r.ows() + r.exprChain(a, pUnary, ir.OpNeg, n)
	case ir.OpHas:
		k, _ := r.key(e.Name)
		return r.expr(e.Args[0], pAdd) + r.ws() + "has" + r.ws() + k
	case ir.OpLike:
		return r.expr(e.Args[0], pAdd) + r.ws() + "like" + r.ws() + r.pattern(e.Pat)
	case ir.OpIs:
		return r.expr(e.Args[0], pAdd) + r.ws() + "is" + r.ws() + e.Name
	case ir.OpIsIn:
		return r.expr(e.Args[0], pAdd) + r.ws() + "is" + r.ws() + e.Name + r.ws() + "in" + r.ws() + r.expr(e.Args[1], pAdd)
	case ir.OpAccess:
		k, ident := r.key(e.Name)
		if ident {
			return r.expr(e.Args[0], pMember) + r.ows() + "." + r.ows() + k
		}
		return r.expr(e.Args[0], pMember) + r.ows() + "[" + r.ows() + k + r.ows() + "]"
	case ir.OpHasTag:
		return method("hasTag", e.Args[1])
	case ir.OpGetTag:
		return method("getTag", e.Args[1])
	case ir.OpContains:
		return method("contains", e.Args[1])
	case ir.OpContainsAll:
		return method("containsAll", e.Args[1])
	case ir.OpContainsAny:
		return method("containsAny", e.Args[1])
	case ir.OpIsEmpty:
		return method("isEmpty")
	case ir.OpSet:
		p := make([]string, len(e.Args))
		for i, a := range e.Args {
			p[i] = r.ows() + r.expr(a, pIf) + r.ows()
		}
		s := strings.Join(p, ",")
		if len(p) > 0 && r.o.Noise.flip() {
			s += "," + r.ows()
		}
		return "[" + s + "]"
	case ir.OpRecord:
		p := make([]string, len(e.Args))
		for i, a := range e.Args {
			k, _ := r.key(e.Keys[i])
			p[i] = r.ows() + k + r.ows() + ":" + r.ows() + r.expr(a, pIf) + r.ows()
		}
		s := strings.Join(p, ",")
		if len(p) > 0 && r.o.Noise.flip() {
			s += "," + r.ows()
		}
		return "{" + s + "}"
	case ir.OpExt:
		if ref.ExtIsMethod(e.Name) && len(e.Args) >= 1 {
			return method(e.Name, e.Args[1:]...)
		}
		p := make([]string, len(e.Args))
		for i, a := range e.Args {
			p[i] = r.ows() + r.expr(a, pIf) + r.ows()
		}
		return e.Name + r.ows() + "(" + strings.Join(p, ",") + ")"
	}
	return "?" + string(e.Op)
}

func (r *renderer) value(v ir.Value) string {
	switch v.K {
	case ir.KLong:
		s := strconv.FormatInt(v.I, 10)
		if r.o.Noise != nil {
			if v.I < 0 {
				return "-" + r.ows() + s[1:] // "-" and the digits are separate tokens
			}
			if r.o.Noise.Next(16) == 0 {
				return "00" + s // leading zeros do not change the value
			}
		}
		return s
	case ir.KString:
		return r.quote(v.S)
	case ir.KEntity:
		return v.T + r.ows() + "::" + r.ows() + r.quote(v.S)
	case ir.KSet:
		p := make([]string, len(v.Elems))
		for i, e := range v.Elems {
			p[i] = r.value(e)
		}
		return "[" + strings.Join(p, ","+r.ows()) + "]"
	case ir.KRecord:
		p := make([]string, len(v.Fields))
		for i, f := range v.Fields {
			k, _ := r.key(f.K)
			p[i] = k + r.ows() + ":" + r.ows() + r.value(f.V)
		}
		return "{" + strings.Join(p, ","+r.ows()) + "}"
	}
	return ValueText(v)
}

func (r *renderer) pattern(p []ir.PatElem) string {
	var b strings.Builder
	b.WriteByte('"')
	for _, c := range p {
		if c.Wild {
			b.WriteByte('*')
		} else if r.o.Noise != nil {
			b.WriteString(EscapeString(c.Lit, true, r.o.Noise.Next))
		} else {
			b.WriteString(EscapeString(c.Lit, true, nil))
		}
	}
	b.WriteByte('"')
	return b.String()
}

func (r *renderer) scope(v string, s ir.Scope) string {
	switch s.Kind {
	case "eq":
		return v + r.ws() + "==" + r.ws() + r.value(*s.Entity)
	case "in":
		return v + r.ws() + "in" + r.ws() + r.value(*s.Entity)
	case "inset":
		p := make([]string, len(s.Entities))
		for i, e := range s.Entities {
			p[i] = r.ows() + r.value(e) + r.ows()
		}
		t := strings.Join(p, ",")
		if len(p) > 0 && r.o.Noise.flip() {
			t += ","
		}
		return v + r.ws() + "in" + r.ws() + "[" + t + "]"
	case "is":
		return v + r.ws() + "is" + r.ws() + s.Type
	case "isin":
		return v + r.ws() + "is" + r.ws() + s.Type + r.ws() + "in" + r.ws() + r.value(*s.Entity)
	}
	return v
}

// Policy renders a policy.
func Policy(p *ir.Policy, o Opts) string {
	r := &renderer{o: o}
	var b strings.Builder
	for _, a := range p.Annotations {
		b.WriteString("@" + a.K + r.ows() + "(" + r.ows() + r.quote(a.V) + r.ows() + ")" + r.ws())
	}
	if p.Permit {
		b.WriteString("permit")
	} else {
		b.WriteString("forbid")
	}
	b.WriteString(r.ows() + "(" + r.ows())
	b.WriteString(r.scope("principal", p.Principal) + r.ows() + "," + r.ows())
	b.WriteString(r.scope("action", p.Action) + r.ows() + "," + r.ows())
	b.WriteString(r.scope("resource", p.Resource) + r.ows())
	if o.Noise.flip() {
		b.WriteString("," + r.ows())
	}
	b.WriteString(")")
	for _, c := range p.Conds {
		b.WriteString(r.ws())
		if c.When {
			b.WriteString("when")
		} else {
			b.WriteString("unless")
		}
		b.WriteString(r.ows() + "{" + r.ows() + r.expr(c.Body, pIf) + r.ows() + "}")
	}
	b.WriteString(r.ows() + ";")
	return b.String()
}

// Expr renders a bare expression (for embedding).
func Expr(e *ir.Expr, o Opts) string {
	r := &renderer{o: o}
	return r.expr(e, pIf)
}

// ExprOperand renders e so that it can stand as an operand of a relational operator (grammar level Add) or, with
// member=true, as the receiver of a member access (grammar level Member).
func ExprOperand(e *ir.Expr, o Opts, member bool) string {
	r := &renderer{o: o}
	if member {
		return r.expr(e, pMember)
	}
	return r.expr(e, pAdd)
}

// Position bookkeeping for documents: Line/Column/Offset of a byte offset in doc (column counts runes, 1-based).
func PositionAt(doc string, off int) (line, col int) {
	line, col = 1, 1
	for i, r := range doc {
		if i >= off {
			break
		}
		if r == '\n' {
			line++
			col = 1
		} else {
			col++
		}
	}
	return
}
