// Package render turns IR into Cedar policy text (own code, written from the published grammar).
package render

import (
	"fmt"
	"strconv"
	"strings"
	"unicode/utf8"

	"verif/ir"
	"verif/ref"
)

// Reserved words that cannot be used as identifiers.
var Reserved = map[string]bool{"true": true, "false": true, "if": true, "then": true, "else": true, "in": true, "like": true, "has": true, "is": true, "__cedar": true}

// IsIdent reports whether s can be written as a bare identifier (attribute name, record key, annotation key).
func IsIdent(s string) bool {
	if s == "" || Reserved[s] {
		return false
	}
	for i := 0; i < len(s); i++ {
		c := s[i]
		if c == '_' || (c >= 'a' && c <= 'z') || (c >= 'A' && c <= 'Z') || (i > 0 && c >= '0' && c <= '9') {
			continue
		}
		return false
	}
	return true
}

// Noise supplies layout variation. A nil *Noise means canonical single-space layout.
type Noise struct {
	// Next returns a number in [0,n); it is supplied by the caller (rapid draw) so that all randomness stays in rapid.
	Next func(n int) int
	// Block allows /* */ comments (cedar-go's tokenizer accepts them; the Cedar grammar only documents // comments).
	Block bool
}

func (n *Noise) ws() string {
	if n == nil {
		return " "
	}
	switch n.Next(12) {
	case 0:
		return "  "
	case 1:
		return "\n"
	case 2:
		return "\t"
	case 3:
		return " // c\n"
	case 4:
		return "\r\n"
	case 5:
		if n.Block {
			return " /* x */ "
		}
		return "   "
	case 6:
		return "\n\n  "
	default:
		return " "
	}
}

// optional whitespace (may be empty)
func (n *Noise) ows() string {
	if n == nil {
		return ""
	}
	switch n.Next(8) {
	case 0:
		return " "
	case 1:
		return "\n"
	case 2:
		return " // é\n"
	default:
		return ""
	}
}

func (n *Noise) flip() bool { return n != nil && n.Next(2) == 1 }

// Opts selects a rendering mode.
type Opts struct {
	FullParen    bool   // parenthesise every non-leaf sub-expression
	Noise        *Noise // layout noise; nil = canonical
	StringKeys   bool   // always write record keys / attribute accesses in string form
	ExtLitAsCall bool   // always true in practice: extension-typed literal values are written as constructor calls
}

type renderer struct {
	o Opts
	b strings.Builder
}

// String escapes s as a Cedar string literal body (without quotes). star=true additionally escapes '*' (patterns).
func EscapeString(s string, star bool, variant func(n int) int) string {
	var b strings.Builder
	for _, r := range s {
		switch {
		case r == '"':
			b.WriteString(`\"`)
		case r == '\\':
			b.WriteString(`\\`)
		case r == '\n':
			b.WriteString(`\n`)
		case r == '\r':
			b.WriteString(`\r`)
		case r == '\t':
			b.WriteString(`\t`)
		case r == 0:
			b.WriteString(`\0`)
		case r == '*' && star:
			b.WriteString(`\*`)
		case r == '\'':
			if variant != nil && variant(2) == 1 {
				b.WriteString(`\'`)
			} else {
				b.WriteRune(r)
			}
		case r < 0x20 || r == 0x7f:
			if variant != nil && variant(2) == 1 {
				fmt.Fprintf(&b, `\x%02x`, r)
			} else {
				fmt.Fprintf(&b, `\u{%x}`, r)
			}
		case r < 0x7f:
			if variant != nil && variant(16) == 0 {
				fmt.Fprintf(&b, `\u{%X}`, r)
			} else {
				b.WriteRune(r)
			}
		default:
			// non-ASCII: escape always; raw form is exercised separately (RawString)
			if variant != nil && variant(2) == 1 && r != utf8.RuneError && r != 0x2028 && r != 0x2029 && r != 0x85 {
				b.WriteRune(r)
			} else {
				fmt.Fprintf(&b, `\u{%x}`, r)
			}
		}
	}
	return b.String()
}

func Quote(s string) string { return `"` + EscapeString(s, false, nil) + `"` }

func (r *renderer) quote(s string) string {
	if r.o.Noise != nil {
		return `"` + EscapeString(s, false, r.o.Noise.Next) + `"`
	}
	return Quote(s)
}

func EntityUID(v ir.Value) string { return v.T + "::" + Quote(v.S) }

// ValueText renders a value as a Cedar expression (sets, records, constructor calls for extension values).
func ValueText(v ir.Value) string {
	switch v.K {
	case ir.KBool:
		if v.B {
			return "true"
		}
		return "false"
	case ir.KLong:
		return strconv.FormatInt(v.I, 10)
	case ir.KString:
		return Quote(v.S)
	case ir.KEntity:
		return EntityUID(v)
	case ir.KDecimal:
		return `decimal("` + ref.FormatDecimal(v.I) + `")`
	case ir.KDatetime:
		return `datetime("` + ref.FormatDatetime(v.I) + `")`
	case ir.KDuration:
		return `duration("` + ref.FormatDuration(v.I) + `")`
	case ir.KIP:
		return `ip("` + ref.FormatIP(v.IP.Addr, v.IP.Prefix) + `")`
	case ir.KSet:
		p := make([]string, len(v.Elems))
		for i, e := range v.Elems {
			p[i] = ValueText(e)
		}
		return "[" + strings.Join(p, ", ") + "]"
	case ir.KRecord:
		p := make([]string, len(v.Fields))
		for i, f := range v.Fields {
			p[i] = Quote(f.K) + ": " + ValueText(f.V)
		}
		return "{" + strings.Join(p, ", ") + "}"
	}
	return "?"
}

// precedence levels
const (
	pIf = iota
	pOr
	pAnd
	pRel
	pAdd
	pMul
	pUnary
	pMember
	pPrimary
)

func prec(e *ir.Expr) int {
	switch e.Op {
	case ir.OpIf:
		return pIf
	case ir.OpOr:
		return pOr
	case ir.OpAnd:
		return pAnd
	case ir.OpEq, ir.OpNe, ir.OpLt, ir.OpLe, ir.OpGt, ir.OpGe, ir.OpIn, ir.OpHas, ir.OpLike, ir.OpIs, ir.OpIsIn:
		return pRel
	case ir.OpAdd, ir.OpSub:
		return pAdd
	case ir.OpMul:
		return pMul
	case ir.OpNot, ir.OpNeg:
		return pUnary
	case ir.OpAccess, ir.OpHasTag, ir.OpGetTag, ir.OpContains, ir.OpContainsAll, ir.OpContainsAny, ir.OpIsEmpty:
		return pMember
	case ir.OpExt:
		if ref.ExtIsMethod(e.Name) && len(e.Args) >= 1 {
			return pMember
		}
		return pPrimary
	case ir.OpLit:
		if e.Lit.K == ir.KLong && e.Lit.I < 0 {
			return pUnary // "-5" is a unary form in the grammar
		}
		return pPrimary
	}
	return pPrimary
}

func (r *renderer) ws() string  { return r.o.Noise.ws() }
func (r *renderer) ows() string { return r.o.Noise.ows() }

// expr renders e in a context that requires at least precedence level min.
func (r *renderer) expr(e *ir.Expr, min int) string {
	s := r.bare(e)
	leaf := e.Op == ir.OpLit || e.Op == ir.OpVar
	if prec(e) < min || (r.o.FullParen && !leaf) || (r.o.Noise != nil && !leaf && r.o.Noise.Next(10) == 0) {
		return "(" + r.ows() + s + r.ows() + ")"
	}
	return s
}

func (r *renderer) key(k string) (string, bool) {
	if IsIdent(k) && !r.o.StringKeys && !(r.o.Noise != nil && r.o.Noise.Next(3) == 0) {
		return k, true
	}
	return r.quote(k), false
}

func (r *renderer) bare(e *ir.Expr) string {
	bin := func(op string, l, rr int) string {
		return r.expr(e.Args[0], l) + r.ws() + op + r.ws() + r.expr(e.Args[1], rr)
	}
	method := func(name string, args ...*ir.Expr) string {
		p := make([]string, len(args))
		for i, a := range args {
			p[i] = r.ows() + r.expr(a, pIf) + r.ows()
		}
		return r.expr(e.Args[0], pMember) + r.ows() + "." + r.ows() + name + r.ows() + "(" + strings.Join(p, ",") + ")"
	}
	switch e.Op {
	case ir.OpLit:
		return r.value(*e.Lit)
	case ir.OpVar:
		return e.Name
	case ir.OpIf:
		return "if" + r.ws() + r.expr(e.Args[0], pIf) + r.ws() + "then" + r.ws() + r.expr(e.Args[1], pIf) + r.ws() + "else" + r.ws() + r.expr(e.Args[2], pIf)
	case ir.OpOr:
		return bin("||", pOr, pAnd)
	case ir.OpAnd:
		return bin("&&", pAnd, pRel)
	case ir.OpEq:
		return bin("==", pAdd, pAdd)
	case ir.OpNe:
		return bin("!=", pAdd, pAdd)
	case ir.OpLt:
		return bin("<", pAdd, pAdd)
	case ir.OpLe:
		return bin("<=", pAdd, pAdd)
	case ir.OpGt:
		return bin(">", pAdd, pAdd)
	case ir.OpGe:
		return bin(">=", pAdd, pAdd)
	case ir.OpIn:
		return bin("in", pAdd, pAdd)
	case ir.OpAdd:
		return bin("+", pAdd, pMul)
	case ir.OpSub:
		return bin("-", pAdd, pMul)
	case ir.OpMul:
		return bin("*", pMul, pUnary)
	case ir.OpNot:
		return "!" + r.ows() + r.expr(e.Args[0], pUnary)
	case ir.OpNeg:
		a := e.Args[0]
		// "-" directly followed by an integer literal is a negative literal in the grammar, so Neg(non-negative literal)
		// must keep its operand in parentheses; "- -5" (Neg of a negative literal) is fine.
		if a.Op == ir.OpLit && a.Lit.K == ir.KLong && a.Lit.I >= 0 {
			return "-" + r.ows() + "(" + r.value(*a.Lit) + ")"
		}
		return "-" + r.ows() + r.expr(a, pUnary)
	case ir.OpHas:
		k, _ := r.key(e.Name)
		return r.expr(e.Args[0], pAdd) + r.ws() + "has" + r.ws() + k
	case ir.OpLike:
		return r.expr(e.Args[0], pAdd) + r.ws() + "like" + r.ws() + r.pattern(e.Pat)
	case ir.OpIs:
		return r.expr(e.Args[0], pAdd) + r.ws() + "is" + r.ws() + e.Name
	case ir.OpIsIn:
		return r.expr(e.Args[0], pAdd) + r.ws() + "is" + r.ws() + e.Name + r.ws() + "in" + r.ws() + r.expr(e.Args[1], pAdd)
	case ir.OpAccess:
		k, ident := r.key(e.Name)
		if ident {
			return r.expr(e.Args[0], pMember) + r.ows() + "." + r.ows() + k
		}
		return r.expr(e.Args[0], pMember) + r.ows() + "[" + r.ows() + k + r.ows() + "]"
	case ir.OpHasTag:
		return method("hasTag", e.Args[1])
	case ir.OpGetTag:
		return method("getTag", e.Args[1])
	case ir.OpContains:
		return method("contains", e.Args[1])
	case ir.OpContainsAll:
		return method("containsAll", e.Args[1])
	case ir.OpContainsAny:
		return method("containsAny", e.Args[1])
	case ir.OpIsEmpty:
		return method("isEmpty")
	case ir.OpSet:
		p := make([]string, len(e.Args))
		for i, a := range e.Args {
			p[i] = r.ows() + r.expr(a, pIf) + r.ows()
		}
		s := strings.Join(p, ",")
		if len(p) > 0 && r.o.Noise.flip() {
			s += "," + r.ows()
		}
		return "[" + s + "]"
	case ir.OpRecord:
		p := make([]string, len(e.Args))
		for i, a := range e.Args {
			k, _ := r.key(e.Keys[i])
			p[i] = r.ows() + k + r.ows() + ":" + r.ows() + r.expr(a, pIf) + r.ows()
		}
		s := strings.Join(p, ",")
		if len(p) > 0 && r.o.Noise.flip() {
			s += "," + r.ows()
		}
		return "{" + s + "}"
	case ir.OpExt:
		if ref.ExtIsMethod(e.Name) && len(e.Args) >= 1 {
			return method(e.Name, e.Args[1:]...)
		}
		p := make([]string, len(e.Args))
		for i, a := range e.Args {
			p[i] = r.ows() + r.expr(a, pIf) + r.ows()
		}
		return e.Name + r.ows() + "(" + strings.Join(p, ",") + ")"
	}
	return "?" + string(e.Op)
}

func (r *renderer) value(v ir.Value) string {
	switch v.K {
	case ir.KString:
		return r.quote(v.S)
	case ir.KEntity:
		return v.T + r.ows() + "::" + r.ows() + r.quote(v.S)
	case ir.KSet:
		p := make([]string, len(v.Elems))
		for i, e := range v.Elems {
			p[i] = r.value(e)
		}
		return "[" + strings.Join(p, ","+r.ows()) + "]"
	case ir.KRecord:
		p := make([]string, len(v.Fields))
		for i, f := range v.Fields {
			k, _ := r.key(f.K)
			p[i] = k + r.ows() + ":" + r.ows() + r.value(f.V)
		}
		return "{" + strings.Join(p, ","+r.ows()) + "}"
	}
	return ValueText(v)
}

func (r *renderer) pattern(p []ir.PatElem) string {
	var b strings.Builder
	b.WriteByte('"')
	for _, c := range p {
		if c.Wild {
			b.WriteByte('*')
		} else if r.o.Noise != nil {
			b.WriteString(EscapeString(c.Lit, true, r.o.Noise.Next))
		} else {
			b.WriteString(EscapeString(c.Lit, true, nil))
		}
	}
	b.WriteByte('"')
	return b.String()
}

func (r *renderer) scope(v string, s ir.Scope) string {
	switch s.Kind {
	case "eq":
		return v + r.ws() + "==" + r.ws() + r.value(*s.Entity)
	case "in":
		return v + r.ws() + "in" + r.ws() + r.value(*s.Entity)
	case "inset":
		p := make([]string, len(s.Entities))
		for i, e := range s.Entities {
			p[i] = r.ows() + r.value(e) + r.ows()
		}
		t := strings.Join(p, ",")
		if len(p) > 0 && r.o.Noise.flip() {
			t += ","
		}
		return v + r.ws() + "in" + r.ws() + "[" + t + "]"
	case "is":
		return v + r.ws() + "is" + r.ws() + s.Type
	case "isin":
		return v + r.ws() + "is" + r.ws() + s.Type + r.ws() + "in" + r.ws() + r.value(*s.Entity)
	}
	return v
}

// Policy renders a policy.
func Policy(p *ir.Policy, o Opts) string {
	r := &renderer{o: o}
	var b strings.Builder
	for _, a := range p.Annotations {
		b.WriteString("@" + a.K + r.ows() + "(" + r.ows() + r.quote(a.V) + r.ows() + ")" + r.ws())
	}
	if p.Permit {
		b.WriteString("permit")
	} else {
		b.WriteString("forbid")
	}
	b.WriteString(r.ows() + "(" + r.ows())
	b.WriteString(r.scope("principal", p.Principal) + r.ows() + "," + r.ows())
	b.WriteString(r.scope("action", p.Action) + r.ows() + "," + r.ows())
	b.WriteString(r.scope("resource", p.Resource) + r.ows())
	if o.Noise.flip() {
		b.WriteString("," + r.ows())
	}
	b.WriteString(")")
	for _, c := range p.Conds {
		b.WriteString(r.ws())
		if c.When {
			b.WriteString("when")
		} else {
			b.WriteString("unless")
		}
		b.WriteString(r.ows() + "{" + r.ows() + r.expr(c.Body, pIf) + r.ows() + "}")
	}
	b.WriteString(r.ows() + ";")
	return b.String()
}

// Expr renders a bare expression (for embedding).
func Expr(e *ir.Expr, o Opts) string {
	r := &renderer{o: o}
	return r.expr(e, pIf)
}

// Position bookkeeping for documents: Line/Column/Offset of a byte offset in doc (column counts runes, 1-based).
func PositionAt(doc string, off int) (line, col int) {
	line, col = 1, 1
	for i, r := range doc {
		if i >= off {
			break
		}
		if r == '\n' {
			line++
			col = 1
		} else {
			col++
		}
	}
	return
}
