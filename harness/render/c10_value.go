package render

import "verif/ir"

// ValueJSON writes v in the Cedar value JSON format with the harness's own writer (no cedar-go encoder involved).
func ValueJSON(v ir.Value, o JSONOpts) []byte {
	w := &jw{o: o}
	return []byte(w.value(v))
}
