// Package ev collects what a check run covered (cases, distinct non-trivial cases, labels, samples),
// the violations it found (smallest replay per sub-check) and known findings, and writes them to a
// stats file that the driver (/verif/check) merges into the evidence file.
package ev

import (
	"bufio"
	"encoding/json"
	"flag"
	"fmt"
	"os"
	"path/filepath"
	"sort"
	"strconv"
	"strings"
	"sync"
	"sync/atomic"
	"testing"
	"time"
)

type Violation struct {
	Sub    string          `json:"sub"`
	Detail string          `json:"detail"`
	Case   json.RawMessage `json:"case"`
	size   int
}

type Known struct {
	Key string `json:"key"`
	Msg string `json:"msg"`
}

type Space struct {
	Name string `json:"name"`
	Size int    `json:"size"`
}

type Stats struct {
	Property    string            `json:"property"`
	Tier        string            `json:"tier"`
	Seed        int               `json:"seed"`
	Shard       int               `json:"shard"`
	Evaluations int64             `json:"evaluations"`
	Hashes      []uint64          `json:"hashes"` // distinct non-trivial case hashes
	Labels      map[string]int64  `json:"labels"`
	Samples     []json.RawMessage `json:"samples"`
	Violations  []Violation       `json:"violations"`
	Known       []Known           `json:"known"`
	Excluded    map[string]int64  `json:"excluded"`
	Spaces      []Space           `json:"spaces"`
	Notes       []string          `json:"notes"`
	Broken      []string          `json:"broken"` // generator-health failures etc. -> exit 2
	FuzzExecs   int64             `json:"fuzz_execs"`
	WallS       float64           `json:"wall_s"`
}

type Recorder struct {
	mu        sync.Mutex
	st        Stats
	hashes    map[uint64]struct{}
	sampleBy  map[string]int
	viol      map[string]*Violation
	start     time.Time
	maxHashes int
}

// R is the process-wide recorder.
var R = &Recorder{}

func init() { R.init("") }

// Tier/Seed/Shard/NShards are read from the environment by Main.
var (
	Tier      = "quick"
	Seed      = 1
	Shard     = 0
	NShards   = 1
	WorkDir   = ""
	ReplayArg = ""
)

func Thorough() bool { return Tier == "thorough" }

// Scale returns q in the quick tier and t in the thorough tier, divided over shards (at least 1).
func Scale(q, t int) int {
	n := q
	if Thorough() {
		n = t
	}
	n = n / NShards
	if n < 1 {
		n = 1
	}
	return n
}

// Pick returns q or t by tier without dividing.
func Pick(q, t int) int {
	if Thorough() {
		return t
	}
	return q
}

// First reports whether this process is shard 0 (which runs the deterministic, seed-independent tables).
func First() bool { return Shard == 0 }

func envInt(k string, d int) int {
	if s := os.Getenv(k); s != "" {
		if n, err := strconv.Atoi(s); err == nil {
			return n
		}
	}
	return d
}

// Main wires a test binary: reads env, pins rapid flags, runs tests, writes the stats file.
func Main(m *testing.M, property string) {
	Tier = os.Getenv("VERIF_TIER")
	if Tier != "thorough" {
		Tier = "quick"
	}
	Seed = envInt("VERIF_SEED", 1)
	Shard = envInt("VERIF_SHARD", 0)
	NShards = envInt("VERIF_NSHARDS", 1)
	WorkDir = os.Getenv("VERIF_WORK")
	ReplayArg = os.Getenv("VERIF_REPLAY")
	R.init(property)
	flag.Parse()
	rapidSeed := 1 + 1000*Seed + Shard
	if rapidSeed == 0 {
		rapidSeed = 1
	}
	_ = flag.Set("rapid.seed", strconv.Itoa(rapidSeed))
	_ = flag.Set("rapid.nofailfile", "true")
	_ = flag.Set("rapid.shrinktime", "15s")
	go watchdog()
	code := m.Run()
	R.flush()
	os.Exit(code)
}

// ---------------------------------------------------------------------------------------------
// Hang watchdog: a case that stays current for longer than the limit is recorded as a violation
// ("<sub>/hang") and the process exits; the limit is far above any honest case duration.

type watched struct {
	sub   string
	build func() any
	since time.Time
}

var current atomic.Pointer[watched]

// Watch marks the case about to run; build is only called if the case hangs.
func Watch(sub string, build func() any) {
	current.Store(&watched{sub: sub, build: build, since: time.Now()})
}

func Unwatch() { current.Store(nil) }

func watchdog() {
	limit := time.Duration(envInt("VERIF_HANG_S", 90)) * time.Second
	for {
		time.Sleep(500 * time.Millisecond)
		w := current.Load()
		if w == nil || time.Since(w.since) < limit {
			continue
		}
		R.Violation(w.sub+"/hang", w.build(), fmt.Sprintf("case did not finish within %v", limit))
		R.flush()
		fmt.Fprintf(os.Stderr, "watchdog: %s hung\n", w.sub)
		os.Exit(1)
	}
}

// SetChecks sets the number of rapid cases for the next rapid.Check call.
func SetChecks(n int) {
	if n < 1 {
		n = 1
	}
	_ = flag.Set("rapid.checks", strconv.Itoa(n))
}

func (r *Recorder) init(property string) {
	r.st = Stats{Property: property, Tier: Tier, Seed: Seed, Shard: Shard, Labels: map[string]int64{}, Excluded: map[string]int64{}}
	r.hashes = map[uint64]struct{}{}
	r.sampleBy = map[string]int{}
	r.viol = map[string]*Violation{}
	r.start = time.Now()
	r.maxHashes = 4_000_000
}

// Case records one executed case. h is its identity hash; nontrivial by the property's stated rule.
func (r *Recorder) Case(h uint64, nontrivial bool, labels ...string) {
	r.mu.Lock()
	r.st.Evaluations++
	if nontrivial && len(r.hashes) < r.maxHashes {
		r.hashes[h] = struct{}{}
	}
	for _, l := range labels {
		if l != "" {
			r.st.Labels[l]++
		}
	}
	r.mu.Unlock()
}

// Count adds n plain evaluations (for inner loops that are not separately hashed).
func (r *Recorder) Count(n int64) {
	r.mu.Lock()
	r.st.Evaluations += n
	r.mu.Unlock()
}

func (r *Recorder) Label(l string, n int64) {
	r.mu.Lock()
	r.st.Labels[l] += n
	r.mu.Unlock()
}

// Sample keeps up to 3 samples per class.
func (r *Recorder) Sample(class string, s any) {
	r.mu.Lock()
	defer r.mu.Unlock()
	if r.sampleBy[class] >= 3 || len(r.st.Samples) >= 60 {
		return
	}
	r.sampleBy[class]++
	b, err := json.Marshal(map[string]any{"class": class, "case": s})
	if err == nil && len(b) < 8000 {
		r.st.Samples = append(r.st.Samples, b)
	}
}

// WantSample tells whether another sample of the class would be kept (lets callers avoid building it).
func (r *Recorder) WantSample(class string) bool {
	r.mu.Lock()
	defer r.mu.Unlock()
	return r.sampleBy[class] < 3 && len(r.st.Samples) < 60
}

// Violation records a failing case for sub-check sub; the smallest serialisation per sub-check is kept.
func (r *Recorder) Violation(sub string, c any, detail string) {
	b, err := json.Marshal(c)
	if err != nil {
		b = []byte(fmt.Sprintf("%q", fmt.Sprintf("%#v", c)))
	}
	r.mu.Lock()
	defer r.mu.Unlock()
	old := r.viol[sub]
	if old == nil || len(b) <= old.size {
		r.viol[sub] = &Violation{Sub: sub, Detail: detail, Case: b, size: len(b)}
	}
}

func (r *Recorder) HasViolation(sub string) bool {
	r.mu.Lock()
	defer r.mu.Unlock()
	return r.viol[sub] != nil
}

func (r *Recorder) KnownFinding(key, msg string) {
	r.mu.Lock()
	r.st.Known = append(r.st.Known, Known{Key: key, Msg: msg})
	r.mu.Unlock()
}

func (r *Recorder) Excluded(key string) {
	r.mu.Lock()
	r.st.Excluded[key]++
	r.mu.Unlock()
}

func (r *Recorder) Space(name string, size int) {
	r.mu.Lock()
	r.st.Spaces = append(r.st.Spaces, Space{name, size})
	r.mu.Unlock()
}

func (r *Recorder) Note(s string) {
	r.mu.Lock()
	r.st.Notes = append(r.st.Notes, s)
	r.mu.Unlock()
}

func (r *Recorder) Broken(s string) {
	r.mu.Lock()
	r.st.Broken = append(r.st.Broken, s)
	r.mu.Unlock()
}

func (r *Recorder) FuzzExecs(n int64) {
	r.mu.Lock()
	r.st.FuzzExecs += n
	r.mu.Unlock()
}

// LabelCount returns the current count of a label.
func (r *Recorder) LabelCount(l string) int64 {
	r.mu.Lock()
	defer r.mu.Unlock()
	return r.st.Labels[l]
}

func (r *Recorder) Evaluations() int64 {
	r.mu.Lock()
	defer r.mu.Unlock()
	return r.st.Evaluations
}

// Flush writes the stats file now (also called at exit). Safe to call repeatedly; used before risky cases.
func (r *Recorder) Flush() { r.flush() }

func (r *Recorder) flush() {
	if WorkDir == "" {
		return
	}
	r.mu.Lock()
	defer r.mu.Unlock()
	r.st.Hashes = r.st.Hashes[:0]
	for h := range r.hashes {
		r.st.Hashes = append(r.st.Hashes, h)
	}
	sort.Slice(r.st.Hashes, func(i, j int) bool { return r.st.Hashes[i] < r.st.Hashes[j] })
	r.st.Violations = r.st.Violations[:0]
	var subs []string
	for s := range r.viol {
		subs = append(subs, s)
	}
	sort.Strings(subs)
	for _, s := range subs {
		r.st.Violations = append(r.st.Violations, *r.viol[s])
	}
	r.st.WallS = time.Since(r.start).Seconds()
	_ = os.MkdirAll(WorkDir, 0o755)
	tmp := filepath.Join(WorkDir, fmt.Sprintf("stats-%d.json.tmp", Shard))
	f, err := os.Create(tmp)
	if err != nil {
		fmt.Fprintln(os.Stderr, "ev: cannot write stats:", err)
		return
	}
	w := bufio.NewWriter(f)
	enc := json.NewEncoder(w)
	_ = enc.Encode(&r.st)
	_ = w.Flush()
	_ = f.Close()
	_ = os.Rename(tmp, filepath.Join(WorkDir, fmt.Sprintf("stats-%d.json", Shard)))
}

// Pending writes the case about to be executed, for crash attribution by the driver. Cheap enough for
// packages whose failure mode is a fatal crash.
func Pending(sub string, c any) {
	if WorkDir == "" {
		return
	}
	b, err := json.Marshal(map[string]any{"sub": sub, "case": c})
	if err != nil {
		return
	}
	_ = os.WriteFile(filepath.Join(WorkDir, fmt.Sprintf("pending-%d.json", Shard)), b, 0o644)
}

func ClearPending() {
	if WorkDir == "" {
		return
	}
	_ = os.Remove(filepath.Join(WorkDir, fmt.Sprintf("pending-%d.json", Shard)))
}

// ---------------------------------------------------------------------------------------------
// Known findings file

type Finding struct {
	Status   string `json:"status"` // open | fixed
	Property string `json:"property"`
	Key      string `json:"key"`
	Matches  string `json:"matches"`
	What     string `json:"what"`
	Commit   string `json:"commit,omitempty"`
}

var (
	findingsOnce sync.Once
	findings     map[string]Finding
)

func loadFindings() {
	findings = map[string]Finding{}
	path := os.Getenv("VERIF_KNOWN")
	if path == "" {
		path = "/verif/known_findings.jsonl"
	}
	b, err := os.ReadFile(path)
	if err != nil {
		return
	}
	for _, line := range strings.Split(string(b), "\n") {
		line = strings.TrimSpace(line)
		if line == "" || strings.HasPrefix(line, "#") {
			continue
		}
		var f Finding
		if json.Unmarshal([]byte(line), &f) == nil && f.Key != "" {
			findings[f.Property+"/"+f.Key] = f
		}
	}
}

// KnownOpen reports whether known_findings.jsonl lists (property,key) with status "open".
func KnownOpen(property, key string) bool {
	findingsOnce.Do(loadFindings)
	f, ok := findings[property+"/"+key]
	return ok && f.Status == "open"
}

// ---------------------------------------------------------------------------------------------
// Replay

type ReplayFile struct {
	Property string          `json:"property"`
	Sub      string          `json:"sub"`
	Detail   string          `json:"detail"`
	Case     json.RawMessage `json:"case"`
}

// LoadReplay reads the file named by VERIF_REPLAY; ok=false when no replay was requested.
func LoadReplay() (ReplayFile, bool, error) {
	if ReplayArg == "" {
		return ReplayFile{}, false, nil
	}
	b, err := os.ReadFile(ReplayArg)
	if err != nil {
		return ReplayFile{}, true, err
	}
	var rf ReplayFile
	if err := json.Unmarshal(b, &rf); err != nil {
		return ReplayFile{}, true, err
	}
	return rf, true, nil
}
