package ev

// Coverage-guided driving of the rapid properties (thorough tier, native `go test -fuzz`).
//
// Every generated-input property of the harness is written as `ev.Check(t, prop)` inside a Test function. FuzzProp
// obtains that prop (by calling the Test function in capture mode: ev.Check hands the closure back instead of running
// it) and gives it to the native fuzzer through rapid.MakeFuzz: the fuzzer's bytes become rapid's bit stream, so the
// same generators, the same oracle and the same known-finding exclusions run, but the search is steered by the
// coverage of cedar-go instead of by a pseudo-random sequence. A failing input is saved by the fuzzer; the driver
// turns it into a replay file {fuzz_target, corpus_file}, and ReplayFuzz re-runs the property on exactly those bytes.

import (
	"encoding/json"
	"errors"
	"os"
	"strconv"
	"strings"
	"sync"
	"testing"

	"pgregory.net/rapid"
)

var (
	captureMu sync.Mutex
	capturing bool
	captured  func(*rapid.T)
)

// Check is rapid.Check, except in capture mode (see FuzzProp), where it only hands prop back.
func Check(t *testing.T, prop func(*rapid.T)) {
	if capturing {
		if captured == nil {
			captured = prop
		}
		return
	}
	rapid.Check(t, prop)
}

// PropOf returns the property function that test passes to ev.Check (its first call), or nil.
func PropOf(test func(*testing.T)) func(*rapid.T) {
	captureMu.Lock()
	defer captureMu.Unlock()
	capturing, captured = true, nil
	defer func() { capturing = false }()
	done := make(chan struct{})
	go func() { // own goroutine: a t.Skip / t.FailNow on the placeholder T ends it with runtime.Goexit
		defer close(done)
		defer func() { _ = recover() }()
		test(&testing.T{})
	}()
	<-done
	return captured
}

// Fuzzing reports whether this process belongs to a native fuzzing campaign started by the driver.
func Fuzzing() bool { return os.Getenv("VERIF_FUZZ") != "" }

// FuzzProp drives the rapid property of test with the native fuzzer.
func FuzzProp(f *testing.F, test func(*testing.T)) {
	prop := PropOf(test)
	if prop == nil {
		f.Skip("no rapid property captured")
		return
	}
	// starting corpus: a few fixed pseudo-random bit streams long enough to decode into whole cases (with an empty
	// corpus the fuzzer spends its budget on inputs that end before the first case is complete)
	for i := 0; i < 12; i++ {
		f.Add(SeedStream(uint64(i+1), 256<<(i%4)))
	}
	f.Fuzz(rapid.MakeFuzz(prop))
}

// seedStream: n bytes of a fixed xorshift64* sequence (corpus seeding only; no property draws from it).
func SeedStream(x uint64, n int) []byte {
	x = x*0x9E3779B97F4A7C15 + 0x632BE59BD9B4E019
	out := make([]byte, 0, n+8)
	for len(out) < n {
		x ^= x >> 12
		x ^= x << 25
		x ^= x >> 27
		v := x * 0x2545F4914F6CDD1D
		for k := 0; k < 8; k++ {
			out = append(out, byte(v>>(8*k)))
		}
	}
	return out[:n]
}

// ParseCorpusFile decodes a "go test fuzz v1" corpus entry holding one []byte value.
func ParseCorpusFile(s string) ([]byte, error) {
	lines := strings.Split(strings.TrimSpace(s), "\n")
	if len(lines) < 2 || !strings.HasPrefix(lines[0], "go test fuzz v1") {
		return nil, errors.New("not a go fuzz corpus file")
	}
	l := strings.TrimSpace(lines[1])
	if !strings.HasPrefix(l, "[]byte(") || !strings.HasSuffix(l, ")") {
		return nil, errors.New("corpus entry is not a []byte value")
	}
	q, err := strconv.Unquote(l[len("[]byte(") : len(l)-1])
	return []byte(q), err
}

// FuzzInput extracts the saved input of a fuzz replay file (sub "fuzz/<target>"); ok=false for other replay files.
func FuzzInput(rf ReplayFile) (target string, in []byte, ok bool, err error) {
	if !strings.HasPrefix(rf.Sub, "fuzz/") {
		return "", nil, false, nil
	}
	var fc struct {
		Target string `json:"fuzz_target"`
		Corpus string `json:"corpus_file"`
	}
	if err := json.Unmarshal(rf.Case, &fc); err != nil {
		return "", nil, true, err
	}
	in, err = ParseCorpusFile(fc.Corpus)
	return fc.Target, in, true, err
}

// ReplayFuzz re-runs a saved fuzzer input. props maps fuzz target names to the Test functions whose rapid property they
// drive; raw maps target names to byte-level targets. Returns true when rf was a fuzz replay (handled here).
func ReplayFuzz(t *testing.T, rf ReplayFile, props map[string]func(*testing.T), raw map[string]func(*testing.T, []byte)) bool {
	target, in, ok, err := FuzzInput(rf)
	if !ok {
		return false
	}
	if err != nil {
		t.Fatalf("cannot decode fuzz replay: %v", err)
	}
	if fn := raw[target]; fn != nil {
		fn(t, in)
		return true
	}
	test := props[target]
	if test == nil {
		return false // a byte-level target that the package replays itself
	}
	prop := PropOf(test)
	if prop == nil {
		t.Fatalf("fuzz target %q: no rapid property captured", target)
	}
	rapid.MakeFuzz(prop)(t, in)
	return true
}
