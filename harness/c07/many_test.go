package c07

import (
	"fmt"
	"strings"
	"testing"

	"verif/ev"
	"verif/gen"
	"verif/ir"
	"verif/render"
)

// TestFunctionLikeTypes: entity types named like extension functions / methods, in every position an entity type can take.
func TestFunctionLikeTypes(t *testing.T) {
	if !ev.First() {
		return
	}
	fail := tableFail(t)
	count := 0
	for i, ty := range gen.FunctionLikeTypes {
		e := ir.Ent(ty, "x")
		ps := []*ir.Policy{
			condPolicy(ir.Bin(ir.OpEq, ir.Var("resource"), ir.Lit(e))),
			condPolicy(ir.Bin(ir.OpIn, ir.Lit(e), ir.SetE(ir.Lit(e), ir.Var("principal")))),
			condPolicy(ir.Is(ir.Var("principal"), ty)),
			condPolicy(ir.IsIn(ir.Var("principal"), ty, ir.Lit(e))),
			condPolicy(ir.Bin(ir.OpEq, ir.Access(ir.Lit(e), "a"), ir.Ext("ip", ir.Lit(ir.Str("1.2.3.4"))))),
		}
		sc := ir.NewPolicy(true)
		sc.Principal, sc.Action, sc.Resource = ir.ScopeIsIn(ty, e), ir.ScopeInSet([]ir.Value{e, e}), ir.ScopeEq(e)
		ps = append(ps, sc)
		for j, p := range ps {
			count++
			renderAll(p, uint64(i*100+j), 2, "function-like-type", fail)
		}
	}
	ev.R.Space("entity types named like extension functions / methods x literal, is, is-in, member access, scope positions", count)
}

// TestManyConstructs: one parse that meets the same construct hundreds of times - as 300 policies of one document, as
// 300 conditions of one policy, and as the 300 operands of one flat `||` / `&&` / `+` chain. Each occurrence is shallow;
// what grows is the count, so bookkeeping that a parser keeps per parse (depth counters, pools, look-ahead state) and
// forgets to restore on one of its paths shows here and nowhere in one-construct-per-parse cases.
func TestManyConstructs(t *testing.T) {
	if !ev.First() {
		return
	}
	ctx := func(k string) *ir.Expr { return ir.Access(ir.Var("context"), k) }
	units := map[string]func(i int) *ir.Expr{
		"if":      func(i int) *ir.Expr { return ir.If(ctx("a"), ir.Lit(ir.Long(int64(i))), ctx("b")) },
		"paren":   func(i int) *ir.Expr { return ir.Bin(ir.OpMul, ir.Bin(ir.OpAdd, ctx("a"), ir.Lit(ir.Long(int64(i)))), ctx("b")) },
		"unary":   func(i int) *ir.Expr { return ir.Un(ir.OpNot, ir.Un(ir.OpNot, ir.Un(ir.OpNot, ctx("a")))) },
		"record":  func(i int) *ir.Expr { return ir.Access(ir.RecE([]string{"k", "if"}, []*ir.Expr{ir.Lit(ir.Long(int64(i))), ctx("a")}), "k") },
		"set":     func(i int) *ir.Expr { return ir.Bin(ir.OpContains, ir.SetE(ir.Lit(ir.Long(int64(i))), ctx("a")), ctx("b")) },
		"call":    func(i int) *ir.Expr { return ir.Ext("isInRange", ir.Ext("ip", ir.Lit(ir.Str("10.0.0.1"))), ir.Ext("ip", ctx("a"))) },
		"has":     func(i int) *ir.Expr { return ir.Has(ir.Access(ir.Access(ir.Var("principal"), "a"), "b"), "c") },
		"isin":    func(i int) *ir.Expr { return ir.IsIn(ir.Var("principal"), "NS::T", ir.Lit(ir.Ent("NS::T", fmt.Sprint(i)))) },
		"like":    func(i int) *ir.Expr { return ir.Like(ctx("s"), []ir.PatElem{{Lit: fmt.Sprint(i)}, {Wild: true}, {Lit: "*"}}) },
		"entity":  func(i int) *ir.Expr { return ir.Bin(ir.OpEq, ir.Var("resource"), ir.Lit(ir.Ent("A::B::C", fmt.Sprint(i)))) },
		"compare": func(i int) *ir.Expr { return ir.Bin(ir.OpLt, ir.Un(ir.OpNeg, ctx("a")), ir.Lit(ir.Long(int64(-i)))) },
	}
	const n = 300
	count := 0
	run1 := func(name, form string, c *DocCase) {
		count++
		sub, msg := checkDoc(c)
		ev.R.Case(ir.Hash([]string{name, form}), true, "many-constructs", "many:"+form)
		if sub != "" {
			if len(msg) > 600 {
				msg = msg[:600] + " …"
			}
			ev.R.Violation(sub, &DocCase{Policies: c.Policies[:1], Text: c.Text}, msg)
			t.Errorf("C07/%s (%s x %d as %s): %s", sub, name, n, form, msg)
		}
	}
	for name, unit := range units {
		// (a) n policies in one document
		doc := &DocCase{}
		var b strings.Builder
		for i := 0; i < n; i++ {
			p := condPolicy(unit(i))
			doc.Policies = append(doc.Policies, p)
			b.WriteString(render.Policy(p, render.Opts{}))
			b.WriteString("\n")
		}
		doc.Text = b.String()
		run1(name, "policies", doc)
		// (b) n conditions of one policy
		p := ir.NewPolicy(true)
		for i := 0; i < n; i++ {
			p.Conds = append(p.Conds, ir.Cond{When: i%2 == 0, Body: unit(i)})
		}
		run1(name, "conditions", &DocCase{Policies: []*ir.Policy{p}, Text: render.Policy(p, render.Opts{})})
		// (c) the n operands of one flat (left-nested) chain
		for _, op := range []ir.Op{ir.OpOr, ir.OpAnd, ir.OpAdd} {
			e := unit(0)
			for i := 1; i < n; i++ {
				e = ir.Bin(op, e, unit(i))
			}
			q := condPolicy(e)
			run1(name, "chain"+string(op), &DocCase{Policies: []*ir.Policy{q}, Text: render.Policy(q, render.Opts{})})
		}
	}
	ev.R.Space("11 constructs x 300 occurrences in one parse as policies / conditions / flat ||, &&, + chains", count)
}
