package c07

// Coverage-guided driving of this package's rapid properties (thorough tier; see ev/fuzz.go).

import (
	"testing"

	"verif/ev"
)

var fuzzProps = map[string]func(*testing.T){
	"FuzzPropRandom": TestRandom,
	"FuzzPropRandomDocument": TestRandomDocument,
}

func FuzzPropRandom(f *testing.F) { ev.FuzzProp(f, TestRandom) }
func FuzzPropRandomDocument(f *testing.F) { ev.FuzzProp(f, TestRandomDocument) }
