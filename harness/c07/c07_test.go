// C07: the Cedar text parser builds exactly the tree the grammar prescribes, and rejects texts outside the grammar.
//
// Positive side: IR policy in parser-normal form -> own renderer (full-paren / minimal-paren, with and without layout
// noise) -> Policy.UnmarshalCedar and NewPolicyListFromBytes -> conv.FromPolicy -> structural equality with the IR.
// Negative side: one generator per rejection class of the statement, embedded in otherwise valid generated policies.
//
// Carve-outs (check weaker than the statement, see DESIGN.md C07 FA / appendix C):
//   - trailing tokens after a single policy, more than four prefix operators and mixed "!-" chains are not asserted:
//     the renderer parenthesises so that only the documented Unary ::= ['!'|'-']x4 Member form is produced;
//   - raw line breaks (LF, U+0085, U+2028, U+2029) inside string literals are never generated (always escaped);
//   - block comments are not generated (the Cedar grammar documents only // comments); an unterminated "/*" is used on
//     the negative side only, where both readings (comment / unknown token) are an error;
//   - like patterns are compared after normalisation (adjacent wildcards collapsed, adjacent literals merged).
//
// Sensitivity (scratch copy of /repo, quick tier, one shard):
//   - parser.or()/and() swapped (|| binds tighter than &&)         -> caught: parse/tree (TestTriples)
//   - add() made right-associative                                  -> caught: parse/tree (TestTriples)
//   - relation() loops (accepts a < b < c)                          -> caught: reject/chained-relation
//   - unary(): negative-literal special case dropped                -> caught: parse/tree + parse/rejected (TestLiteralForms)
//   - mult() calling member() instead of unary()                    -> caught: parse/rejected (TestTriples)
//   - access(): reserved keyword accepted after '.'                 -> caught: reject/reserved-identifier
package c07

import (
	"encoding/json"
	"fmt"
	"math"
	"strings"
	"testing"

	cedar "github.com/cedar-policy/cedar-go"
	"pgregory.net/rapid"

	"verif/conv"
	"verif/ev"
	"verif/gen"
	"verif/ir"
	"verif/render"
)

func TestMain(m *testing.M) { ev.Main(m, "C07") }

// Case is one positive case: Text must parse to Policy. Text is stored so that a replay does not depend on layout draws.
type Case struct {
	Policy *ir.Policy `json:"policy"`
	Mode   string     `json:"mode"`
	Text   string     `json:"text"`
}

// NegCase is one negative case: Text must be rejected.
type NegCase struct {
	Class string `json:"class"`
	Text  string `json:"text"`
}

// DocCase is a document of several policies.
type DocCase struct {
	Policies []*ir.Policy `json:"policies"`
	Text     string       `json:"text"`
}

// ---------------------------------------------------------------------------------------------
// oracle

func parseOne(text string) (p *ir.Policy, err error) {
	defer func() {
		if r := recover(); r != nil {
			err = fmt.Errorf("panic: %v", r)
		}
	}()
	var cp cedar.Policy
	if err := cp.UnmarshalCedar([]byte(text)); err != nil {
		return nil, err
	}
	return conv.FromPolicy(&cp)
}

func parseList(text string) (ps []*ir.Policy, err error) {
	defer func() {
		if r := recover(); r != nil {
			err = fmt.Errorf("panic: %v", r)
		}
	}()
	pl, err := cedar.NewPolicyListFromBytes("doc.cedar", []byte(text))
	if err != nil {
		return nil, err
	}
	for _, cp := range pl {
		p, err := conv.FromPolicy(cp)
		if err != nil {
			return nil, err
		}
		ps = append(ps, p)
	}
	return ps, nil
}

func check(c *Case) (string, string) {
	got, err := parseOne(c.Text)
	if err != nil {
		return "parse/rejected", fmt.Sprintf("Policy.UnmarshalCedar rejects a text inside the grammar: %v\ntext: %s", err, c.Text)
	}
	if !conv.EqualPolicy(c.Policy, got) {
		return "parse/tree", fmt.Sprintf("parsed tree differs from the rendered tree\ntext: %s\nwant: %s\ngot:  %s", c.Text, ir.JSON(c.Policy), ir.JSON(got))
	}
	ps, err := parseList(c.Text)
	if err != nil {
		return "parse/list-rejected", fmt.Sprintf("NewPolicyListFromBytes rejects a text that Policy.UnmarshalCedar accepts: %v\ntext: %s", err, c.Text)
	}
	if len(ps) != 1 || !conv.EqualPolicy(c.Policy, ps[0]) {
		return "parse/list-tree", fmt.Sprintf("NewPolicyListFromBytes yields %d policies / a different tree\ntext: %s", len(ps), c.Text)
	}
	return "", ""
}

func checkNeg(c *NegCase) (string, string) {
	if _, err := parseOne(c.Text); err == nil {
		return "reject/" + c.Class, fmt.Sprintf("Policy.UnmarshalCedar accepts a text outside the grammar (%s)\ntext: %s", c.Class, c.Text)
	} else if strings.HasPrefix(err.Error(), "panic:") {
		return "reject/" + c.Class, fmt.Sprintf("Policy.UnmarshalCedar panics instead of returning an error (%s): %v\ntext: %s", c.Class, err, c.Text)
	}
	if _, err := parseList(c.Text); err == nil {
		return "reject/" + c.Class, fmt.Sprintf("NewPolicyListFromBytes accepts a text outside the grammar (%s)\ntext: %s", c.Class, c.Text)
	} else if strings.HasPrefix(err.Error(), "panic:") {
		return "reject/" + c.Class, fmt.Sprintf("NewPolicyListFromBytes panics instead of returning an error (%s): %v\ntext: %s", c.Class, err, c.Text)
	}
	return "", ""
}

func checkDoc(c *DocCase) (string, string) {
	ps, err := parseList(c.Text)
	if err != nil {
		return "doc/rejected", fmt.Sprintf("NewPolicyListFromBytes rejects a document of valid policies: %v\ntext: %s", err, c.Text)
	}
	if len(ps) != len(c.Policies) {
		return "doc/length", fmt.Sprintf("document of %d policies parses to %d\ntext: %s", len(c.Policies), len(ps), c.Text)
	}
	for i := range ps {
		if !conv.EqualPolicy(c.Policies[i], ps[i]) {
			return "doc/tree", fmt.Sprintf("policy %d of the document differs\ntext: %s\nwant: %s\ngot:  %s", i, c.Text, ir.JSON(c.Policies[i]), ir.JSON(ps[i]))
		}
	}
	return "", ""
}

// ---------------------------------------------------------------------------------------------
// known findings (matchers are active only while the finding is listed as open)

func isMemberLevel(e *ir.Expr) bool {
	switch e.Op {
	case ir.OpAccess, ir.OpHasTag, ir.OpGetTag, ir.OpContains, ir.OpContainsAll, ir.OpContainsAny, ir.OpIsEmpty:
		return true
	case ir.OpExt:
		return isMethodName(e.Name) && len(e.Args) >= 1
	}
	return false
}

func isMethodName(n string) bool {
	for _, m := range gen.Methods1 {
		if m == n {
			return true
		}
	}
	for _, m := range gen.Methods2 {
		if m == n {
			return true
		}
	}
	return false
}

// hasNegLitMember: some `-` is applied to a member chain whose innermost receiver is a non-negative integer literal,
// which the minimal rendering writes as `-5.a` (grammar: Unary('-', Member(5, .a))).
func hasNegLitMember(p *ir.Policy) bool {
	found := false
	for _, c := range p.Conds {
		c.Body.Walk(func(x *ir.Expr) {
			if x.Op != ir.OpNeg {
				return
			}
			y := x.Args[0]
			n := 0
			for isMemberLevel(y) {
				y = y.Args[0]
				n++
			}
			if n > 0 && y.Op == ir.OpLit && y.Lit.K == ir.KLong && y.Lit.I >= 0 {
				found = true
			}
		})
	}
	return found
}

func knownKey(c *Case) string {
	if ev.KnownOpen("C07", "ufffd-raw") && strings.ContainsRune(c.Text, 0xfffd) {
		return "ufffd-raw"
	}
	if ev.KnownOpen("C07", "neg-literal-member") && strings.HasPrefix(c.Mode, "min") && hasNegLitMember(c.Policy) {
		return "neg-literal-member"
	}
	return ""
}

// ---------------------------------------------------------------------------------------------
// bookkeeping

func depthOf(p *ir.Policy) int {
	d := 0
	for _, c := range p.Conds {
		if x := c.Body.DepthE(); x > d {
			d = x
		}
	}
	return d
}

func run(c *Case, class string, forceNT bool, fail func(sub, msg string), labels ...string) bool {
	if k := knownKey(c); k != "" {
		ev.R.Excluded(k)
		return true
	}
	ev.Watch("parse", func() any { return c })
	sub, msg := check(c)
	ev.Unwatch()
	ls := append([]string{class, "mode:" + c.Mode}, labels...)
	ev.R.Case(ir.Hash(struct {
		P *ir.Policy
		M string
	}{c.Policy, c.Mode}), forceNT || depthOf(c.Policy) >= 2, ls...)
	if ev.R.WantSample(class) {
		ev.R.Sample(class, map[string]any{"mode": c.Mode, "text": c.Text})
	}
	if sub != "" {
		ev.R.Violation(sub, c, msg)
		fail(sub, msg)
		return false
	}
	return true
}

func runNeg(c *NegCase, fail func(sub, msg string)) bool {
	ev.Watch("reject", func() any { return c })
	sub, msg := checkNeg(c)
	ev.Unwatch()
	ev.R.Case(ir.Hash(c), true, "neg:"+c.Class)
	if ev.R.WantSample("neg:" + c.Class) {
		ev.R.Sample("neg:"+c.Class, c.Text)
	}
	if sub != "" {
		ev.R.Violation(sub, c, msg)
		fail(sub, msg)
		return false
	}
	return true
}

func tableFail(t *testing.T) func(sub, msg string) {
	n := 0
	return func(sub, msg string) {
		n++
		if n <= 15 {
			t.Errorf("C07/%s: %s", sub, msg)
		}
	}
}

// lcg is the deterministic layout source of the exhaustive tables (they ignore the seed).
type lcg struct{ s uint64 }

func (l *lcg) next(n int) int {
	l.s = l.s*6364136223846793005 + 1442695040888963407
	return int((l.s >> 33) % uint64(n))
}

var modes = []string{"full", "min", "full+noise", "min+noise"}

func optsFor(mode string, next func(int) int) render.Opts {
	o := render.Opts{FullParen: strings.HasPrefix(mode, "full")}
	if strings.Contains(mode, "+noise") {
		// block comments are part of what cedar-go's tokenizer accepts as layout
		o.Noise = &render.Noise{Next: next, Block: true}
	}
	if strings.Contains(mode, "+strkeys") {
		o.StringKeys = true
	}
	return o
}

func condPolicy(e *ir.Expr) *ir.Policy {
	p := ir.NewPolicy(true)
	p.Conds = []ir.Cond{{When: true, Body: e}}
	return p
}

// renderAll runs p through every mode (noise modes `reps` times with different layouts).
func renderAll(p *ir.Policy, seed uint64, reps int, class string, fail func(sub, msg string), labels ...string) {
	for mi, m := range modes {
		n := 1
		if strings.HasSuffix(m, "+noise") {
			n = reps
		}
		for k := 0; k < n; k++ {
			l := &lcg{s: seed*977 + uint64(mi)*131 + uint64(k)*7919 + 1}
			c := &Case{Policy: p, Mode: m}
			c.Text = render.Policy(p, optsFor(m, l.next))
			run(c, class, true, fail, labels...)
		}
	}
}

// ---------------------------------------------------------------------------------------------
// exhaustive tables

// TestTriples: every (parent node kind, operand position, child node kind) with atom leaves, in all four modes.
func TestTriples(t *testing.T) {
	if !ev.First() {
		return
	}
	fail := tableFail(t)
	count := 0
	for si, slot := range gen.Slots() {
		for hi, sh := range gen.Shapes() {
			if !sh.Normal {
				continue
			}
			e := slot.Build(sh.Build())
			count++
			renderAll(condPolicy(e), uint64(si*1000+hi), ev.Pick(2, 6), "triple", fail, "slot:"+slot.Name, "child:"+sh.Name)
		}
	}
	ev.R.Space("(parent kind, operand position, child kind) triples over all expression node kinds x {full, minimal, full+noise, minimal+noise}", count)
}

// TestUnaryChains: runs of ! and - of length 1..6 over a variable, a positive and a negative literal, and mixed pairs.
func TestUnaryChains(t *testing.T) {
	if !ev.First() {
		return
	}
	fail := tableFail(t)
	count := 0
	leaves := []func() *ir.Expr{func() *ir.Expr { return ir.Var("context") }, func() *ir.Expr { return ir.Lit(ir.Long(5)) }, func() *ir.Expr { return ir.Lit(ir.Long(-5)) },
		func() *ir.Expr { return ir.Lit(ir.Long(math.MinInt64)) }, func() *ir.Expr { return ir.Access(ir.Var("context"), "a") }, func() *ir.Expr { return ir.Bin(ir.OpMul, ir.Lit(ir.Long(2)), ir.Lit(ir.Long(-3))) }}
	for li, leaf := range leaves {
		for n := 1; n <= 6; n++ {
			for mask := 0; mask < 1<<n; mask++ {
				if n > 3 && mask != 0 && mask != 1<<n-1 && mask != 0b0101 && mask != 0b1010 && mask != 1 && mask != 1<<(n-1) {
					continue
				}
				e := leaf()
				for i := 0; i < n; i++ {
					if mask>>i&1 == 1 {
						e = ir.Un(ir.OpNeg, e)
					} else {
						e = ir.Un(ir.OpNot, e)
					}
				}
				count++
				renderAll(condPolicy(e), uint64(li*10000+n*100+mask), 2, "unary-chain", fail)
			}
		}
	}
	ev.R.Space("prefix-operator chains (length 1..6, all !/- mixes up to length 3) over variable / literals / member / product", count)
}

type textCase struct {
	text string
	want *ir.Expr
}

func L(i int64) *ir.Expr  { return ir.Lit(ir.Long(i)) }
func S(s string) *ir.Expr { return ir.Lit(ir.Str(s)) }

// TestLiteralForms: hand-written literal and operator edge forms with their expected trees.
func TestLiteralForms(t *testing.T) {
	if !ev.First() {
		return
	}
	fail := tableFail(t)
	ctx := ir.Var("context")
	neg := func(e *ir.Expr) *ir.Expr { return ir.Un(ir.OpNeg, e) }
	not := func(e *ir.Expr) *ir.Expr { return ir.Un(ir.OpNot, e) }
	tbl := []textCase{
		{`0`, L(0)}, {`00`, L(0)}, {`007`, L(7)}, {`010`, L(10)}, {`0017`, L(17)}, {`08`, L(8)}, {`019`, L(19)}, {`-010`, L(-10)}, {`0100 + 09`, ir.Bin(ir.OpAdd, L(100), L(9))},
		{`00000000000000000000009223372036854775807`, L(math.MaxInt64)}, {`-0`, L(0)}, {`9223372036854775807`, L(math.MaxInt64)}, {`-9223372036854775808`, L(math.MinInt64)},
		{`- 9223372036854775808`, L(math.MinInt64)}, {"-\n9223372036854775808", L(math.MinInt64)}, {`-9223372036854775807`, L(-math.MaxInt64)},
		{`-1`, L(-1)}, {`- 1`, L(-1)}, {`-(1)`, neg(L(1))}, {`--1`, neg(L(-1))}, {`- -1`, neg(L(-1))}, {`---1`, neg(neg(L(-1)))}, {`----1`, neg(neg(neg(L(-1))))},
		{`-(-1)`, neg(L(-1))}, {`(-1)`, L(-1)}, {`-((1))`, neg(L(1))}, {`--9223372036854775808`, neg(L(math.MinInt64))}, {`-(9223372036854775807)`, neg(L(math.MaxInt64))},
		{`1 - 1`, ir.Bin(ir.OpSub, L(1), L(1))}, {`1-1`, ir.Bin(ir.OpSub, L(1), L(1))}, {`1--1`, ir.Bin(ir.OpSub, L(1), L(-1))}, {`1 - -1`, ir.Bin(ir.OpSub, L(1), L(-1))},
		{`1---1`, ir.Bin(ir.OpSub, L(1), neg(L(-1)))}, {`-1-1`, ir.Bin(ir.OpSub, L(-1), L(1))}, {`-1*-1`, ir.Bin(ir.OpMul, L(-1), L(-1))},
		{`1+-9223372036854775808`, ir.Bin(ir.OpAdd, L(1), L(math.MinInt64))}, {`1 - 9223372036854775807`, ir.Bin(ir.OpSub, L(1), L(math.MaxInt64))},
		{`-context`, neg(ctx)}, {`--context`, neg(neg(ctx))}, {`!context`, not(ctx)}, {`!!context`, not(not(ctx))}, {`!!!!context`, not(not(not(not(ctx))))},
		{`----context`, neg(neg(neg(neg(ctx))))}, {`-context.a`, neg(ir.Access(ctx, "a"))}, {`!context.a.b`, not(ir.Access(ir.Access(ctx, "a"), "b"))},
		{`-1 < 2`, ir.Bin(ir.OpLt, L(-1), L(2))}, {`1 < -2`, ir.Bin(ir.OpLt, L(1), L(-2))}, {`(-1).a`, ir.Access(L(-1), "a")}, {`(-1)["a"]`, ir.Access(L(-1), "a")},
		{`-(1).a`, neg(ir.Access(L(1), "a"))}, {`-(1.a)`, neg(ir.Access(L(1), "a"))}, {`(1).a`, ir.Access(L(1), "a")}, {`1.a`, ir.Access(L(1), "a")}, {`1["a"]`, ir.Access(L(1), "a")},
		{`true`, ir.Lit(ir.Bool(true))}, {`false`, ir.Lit(ir.Bool(false))}, {`!true`, not(ir.Lit(ir.Bool(true)))},
		{`1 + 2 + 3`, ir.Bin(ir.OpAdd, ir.Bin(ir.OpAdd, L(1), L(2)), L(3))}, {`1 - 2 - 3`, ir.Bin(ir.OpSub, ir.Bin(ir.OpSub, L(1), L(2)), L(3))},
		{`1 - (2 - 3)`, ir.Bin(ir.OpSub, L(1), ir.Bin(ir.OpSub, L(2), L(3)))}, {`1 - 2 + 3`, ir.Bin(ir.OpAdd, ir.Bin(ir.OpSub, L(1), L(2)), L(3))},
		{`1 * 2 * 3`, ir.Bin(ir.OpMul, ir.Bin(ir.OpMul, L(1), L(2)), L(3))}, {`1 + 2 * 3`, ir.Bin(ir.OpAdd, L(1), ir.Bin(ir.OpMul, L(2), L(3)))},
		{`1 * 2 + 3`, ir.Bin(ir.OpAdd, ir.Bin(ir.OpMul, L(1), L(2)), L(3))}, {`(1 + 2) * 3`, ir.Bin(ir.OpMul, ir.Bin(ir.OpAdd, L(1), L(2)), L(3))},
		{`1 * -2`, ir.Bin(ir.OpMul, L(1), L(-2))}, {`-2 * 1`, ir.Bin(ir.OpMul, L(-2), L(1))}, {`-context * 1`, ir.Bin(ir.OpMul, neg(ctx), L(1))},
		{`true || false && true`, ir.Bin(ir.OpOr, ir.Lit(ir.Bool(true)), ir.Bin(ir.OpAnd, ir.Lit(ir.Bool(false)), ir.Lit(ir.Bool(true))))},
		{`true && false || true`, ir.Bin(ir.OpOr, ir.Bin(ir.OpAnd, ir.Lit(ir.Bool(true)), ir.Lit(ir.Bool(false))), ir.Lit(ir.Bool(true)))},
		{`true || false || true`, ir.Bin(ir.OpOr, ir.Bin(ir.OpOr, ir.Lit(ir.Bool(true)), ir.Lit(ir.Bool(false))), ir.Lit(ir.Bool(true)))},
		{`true && false && true`, ir.Bin(ir.OpAnd, ir.Bin(ir.OpAnd, ir.Lit(ir.Bool(true)), ir.Lit(ir.Bool(false))), ir.Lit(ir.Bool(true)))},
		{`1 < 2 && 3 < 4`, ir.Bin(ir.OpAnd, ir.Bin(ir.OpLt, L(1), L(2)), ir.Bin(ir.OpLt, L(3), L(4)))}, {`1 + 2 < 3 * 4`, ir.Bin(ir.OpLt, ir.Bin(ir.OpAdd, L(1), L(2)), ir.Bin(ir.OpMul, L(3), L(4)))},
		{`!true && false`, ir.Bin(ir.OpAnd, not(ir.Lit(ir.Bool(true))), ir.Lit(ir.Bool(false)))}, {`!(true && false)`, not(ir.Bin(ir.OpAnd, ir.Lit(ir.Bool(true)), ir.Lit(ir.Bool(false))))},
		{`if true then 1 else 2 + 3`, ir.If(ir.Lit(ir.Bool(true)), L(1), ir.Bin(ir.OpAdd, L(2), L(3)))}, {`(if true then 1 else 2) + 3`, ir.Bin(ir.OpAdd, ir.If(ir.Lit(ir.Bool(true)), L(1), L(2)), L(3))},
		{`if true then 1 else if false then 2 else 3`, ir.If(ir.Lit(ir.Bool(true)), L(1), ir.If(ir.Lit(ir.Bool(false)), L(2), L(3)))},
		{`if if true then false else true then 1 else 2`, ir.If(ir.If(ir.Lit(ir.Bool(true)), ir.Lit(ir.Bool(false)), ir.Lit(ir.Bool(true))), L(1), L(2))},
		{`if true then if false then 1 else 2 else 3`, ir.If(ir.Lit(ir.Bool(true)), ir.If(ir.Lit(ir.Bool(false)), L(1), L(2)), L(3))},
		{`if true then 1 else 2 || true`, ir.If(ir.Lit(ir.Bool(true)), L(1), ir.Bin(ir.OpOr, L(2), ir.Lit(ir.Bool(true))))},
		{`context has a`, ir.Has(ctx, "a")}, {`context has "a"`, ir.Has(ctx, "a")}, {`context has "a b"`, ir.Has(ctx, "a b")}, {`context has ""`, ir.Has(ctx, "")}, {`context has "if"`, ir.Has(ctx, "if")},
		{`context has principal`, ir.Has(ctx, "principal")}, {`context has context`, ir.Has(ctx, "context")}, {`context has permit`, ir.Has(ctx, "permit")}, {`context has when`, ir.Has(ctx, "when")},
		{`context has a.b`, ir.Bin(ir.OpAnd, ir.Has(ctx, "a"), ir.Has(ir.Access(ctx, "a"), "b"))},
		{`context has a.b.c`, ir.Bin(ir.OpAnd, ir.Bin(ir.OpAnd, ir.Has(ctx, "a"), ir.Has(ir.Access(ctx, "a"), "b")), ir.Has(ir.Access(ir.Access(ctx, "a"), "b"), "c"))},
		{`true && context has a.b`, ir.Bin(ir.OpAnd, ir.Lit(ir.Bool(true)), ir.Bin(ir.OpAnd, ir.Has(ctx, "a"), ir.Has(ir.Access(ctx, "a"), "b")))},
		{`context has a.b && true`, ir.Bin(ir.OpAnd, ir.Bin(ir.OpAnd, ir.Has(ctx, "a"), ir.Has(ir.Access(ctx, "a"), "b")), ir.Lit(ir.Bool(true)))},
		{`context.a has b`, ir.Has(ir.Access(ctx, "a"), "b")}, {`1 + 2 has b`, ir.Has(ir.Bin(ir.OpAdd, L(1), L(2)), "b")},
		{`context.principal`, ir.Access(ctx, "principal")}, {`context.permit.when.unless`, ir.Access(ir.Access(ir.Access(ctx, "permit"), "when"), "unless")}, {`context["if"]`, ir.Access(ctx, "if")},
		{`context["a"]["b"].c`, ir.Access(ir.Access(ir.Access(ctx, "a"), "b"), "c")}, {`context . a`, ir.Access(ctx, "a")}, {`context [ "a" ]`, ir.Access(ctx, "a")},
		{`context.a.contains(1)`, ir.Bin(ir.OpContains, ir.Access(ctx, "a"), L(1))}, {`[1].contains(1).a`, ir.Access(ir.Bin(ir.OpContains, ir.SetE(L(1)), L(1)), "a")},
		{`[]`, ir.SetE()}, {`[1,]`, ir.SetE(L(1))}, {`[1,2,]`, ir.SetE(L(1), L(2))}, {`[[]]`, ir.SetE(ir.SetE())}, {`{}`, ir.RecE(nil, nil)}, {`{a:1,}`, ir.RecE([]string{"a"}, []*ir.Expr{L(1)})},
		{`{"a":1,b:2}`, ir.RecE([]string{"a", "b"}, []*ir.Expr{L(1), L(2)})}, {`{"":1}`, ir.RecE([]string{""}, []*ir.Expr{L(1)})}, {`{"if":1}`, ir.RecE([]string{"if"}, []*ir.Expr{L(1)})},
		{`{principal:1, context:2, permit:3}`, ir.RecE([]string{"principal", "context", "permit"}, []*ir.Expr{L(1), L(2), L(3)})}, {`{a:{a:{}}}`, ir.RecE([]string{"a"}, []*ir.Expr{ir.RecE([]string{"a"}, []*ir.Expr{ir.RecE(nil, nil)})})},
		{`{a:1}.a`, ir.Access(ir.RecE([]string{"a"}, []*ir.Expr{L(1)}), "a")}, {`{a:1} has a`, ir.Has(ir.RecE([]string{"a"}, []*ir.Expr{L(1)}), "a")},
		{`A::"x"`, ir.Lit(ir.Ent("A", "x"))}, {`A::B::C::"x"`, ir.Lit(ir.Ent("A::B::C", "x"))}, {`A :: B :: "x"`, ir.Lit(ir.Ent("A::B", "x"))}, {`principal::"x"`, ir.Lit(ir.Ent("principal", "x"))},
		{`_::"x"`, ir.Lit(ir.Ent("_", "x"))}, {`a1::_b::"\u{0}"`, ir.Lit(ir.Ent("a1::_b", "\x00"))}, {`A::""`, ir.Lit(ir.Ent("A", ""))},
		{`principal is A`, ir.Is(ir.Var("principal"), "A")}, {`principal is A::B`, ir.Is(ir.Var("principal"), "A::B")}, {`principal is A in B::"x"`, ir.IsIn(ir.Var("principal"), "A", ir.Lit(ir.Ent("B", "x")))},
		{`principal is A in [B::"x"]`, ir.IsIn(ir.Var("principal"), "A", ir.SetE(ir.Lit(ir.Ent("B", "x"))))}, {`principal is A in 1 + 2`, ir.IsIn(ir.Var("principal"), "A", ir.Bin(ir.OpAdd, L(1), L(2)))},
		{`principal is A && true`, ir.Bin(ir.OpAnd, ir.Is(ir.Var("principal"), "A"), ir.Lit(ir.Bool(true)))}, {`principal is principal`, ir.Is(ir.Var("principal"), "principal")},
		{`principal in resource`, ir.Bin(ir.OpIn, ir.Var("principal"), ir.Var("resource"))}, {`principal in [resource, action]`, ir.Bin(ir.OpIn, ir.Var("principal"), ir.SetE(ir.Var("resource"), ir.Var("action")))},
		{`decimal("1.0")`, ir.Ext("decimal", S("1.0"))}, {`ip("::1")`, ir.Ext("ip", S("::1"))}, {`datetime("x")`, ir.Ext("datetime", S("x"))}, {`duration("1h")`, ir.Ext("duration", S("1h"))},
		{`decimal()`, ir.Ext("decimal")}, {`decimal(1,2,)`, ir.Ext("decimal", L(1), L(2))}, {`decimal ( "1.0" )`, ir.Ext("decimal", S("1.0"))},
		{`context.lessThan(1)`, ir.Ext("lessThan", ctx, L(1))}, {`context.isIpv4()`, ir.Ext("isIpv4", ctx)}, {`context.isIpv4(1, 2)`, ir.Ext("isIpv4", ctx, L(1), L(2))}, {`context.offset()`, ir.Ext("offset", ctx)},
		{`decimal("1.0").lessThan(decimal("2.0"))`, ir.Ext("lessThan", ir.Ext("decimal", S("1.0")), ir.Ext("decimal", S("2.0")))},
		{`context.toDate().toTime().toMilliseconds()`, ir.Ext("toMilliseconds", ir.Ext("toTime", ir.Ext("toDate", ctx)))},
		{`context.hasTag("a")`, ir.Bin(ir.OpHasTag, ctx, S("a"))}, {`context.getTag(context.a)`, ir.Bin(ir.OpGetTag, ctx, ir.Access(ctx, "a"))}, {`context.isEmpty()`, ir.Un(ir.OpIsEmpty, ctx)},
		{`context.containsAll([1])`, ir.Bin(ir.OpContainsAll, ctx, ir.SetE(L(1)))}, {`context.containsAny([1])`, ir.Bin(ir.OpContainsAny, ctx, ir.SetE(L(1)))},
		{`context.contains`, ir.Access(ctx, "contains")}, {`context.isEmpty`, ir.Access(ctx, "isEmpty")}, {`context.decimal`, ir.Access(ctx, "decimal")}, {`context.lessThan`, ir.Access(ctx, "lessThan")},
		{`context has contains`, ir.Has(ctx, "contains")}, {`{contains:1, decimal:2, ip:3}`, ir.RecE([]string{"contains", "decimal", "ip"}, []*ir.Expr{L(1), L(2), L(3)})},
		{`((((1))))`, L(1)}, {`(context).a`, ir.Access(ctx, "a")}, {`(context.a)`, ir.Access(ctx, "a")},
		{"1 // one\n+ // plus\n2", ir.Bin(ir.OpAdd, L(1), L(2))}, {"1\t+\r\n2", ir.Bin(ir.OpAdd, L(1), L(2))}, {"1//\n", L(1)}, {"1 // \"not a string\n", L(1)}, {"1 // é 日本 \U0001F600\n", L(1)},
		{`"//" `, S("//")}, {`"/*"`, S("/*")}, {`1<2`, ir.Bin(ir.OpLt, L(1), L(2))}, {`1<=2`, ir.Bin(ir.OpLe, L(1), L(2))}, {`1>=-2`, ir.Bin(ir.OpGe, L(1), L(-2))}, {`1!=2`, ir.Bin(ir.OpNe, L(1), L(2))},
		{`!true==false`, ir.Bin(ir.OpEq, not(ir.Lit(ir.Bool(true))), ir.Lit(ir.Bool(false)))}, {`true&&false||!true`, ir.Bin(ir.OpOr, ir.Bin(ir.OpAnd, ir.Lit(ir.Bool(true)), ir.Lit(ir.Bool(false))), not(ir.Lit(ir.Bool(true))))},
	}
	// the -N.member form follows Unary ::= '-' Member; it is the subject of finding neg-literal-member
	negLitMember := []textCase{{`-1.a`, neg(ir.Access(L(1), "a"))}, {`-1["a"]`, neg(ir.Access(L(1), "a"))}, {`-1.contains(2)`, neg(ir.Bin(ir.OpContains, L(1), L(2)))}, {`--1.a`, neg(neg(ir.Access(L(1), "a")))}, {`2 * -1.a`, ir.Bin(ir.OpMul, L(2), neg(ir.Access(L(1), "a")))}}
	if !ev.KnownOpen("C07", "neg-literal-member") {
		tbl = append(tbl, negLitMember...)
	} else {
		ev.R.Excluded("neg-literal-member")
	}
	for _, tc := range tbl {
		c := &Case{Policy: condPolicy(tc.want), Mode: "table", Text: "permit(principal, action, resource) when { " + tc.text + " };"}
		run(c, "literal-forms", true, fail)
		c2 := &Case{Policy: ir.NewPolicy(false), Mode: "table", Text: "forbid(principal, action, resource) unless {" + tc.text + "};"}
		c2.Policy.Conds = []ir.Cond{{When: false, Body: tc.want}}
		run(c2, "literal-forms", true, fail)
	}
	// long boundary table through the renderer
	for i, v := range append(append([]int64{}, gen.LongBoundary...), 9, 10, 99, 100, -10, -99, 1<<53, -(1 << 53)) {
		renderAll(condPolicy(ir.Bin(ir.OpEq, L(v), ir.Un(ir.OpNeg, L(v)))), uint64(i), 2, "literal-forms", fail)
	}
	ev.R.Space("hand-written literal / operator / layout edge forms with expected trees, long boundary table", 2*len(tbl)+len(gen.LongBoundary)+8)
}

type escCase struct {
	body string // literal body as written between the quotes
	want string
}

var escTable = []escCase{
	{``, ""}, {`a`, "a"}, {`\n`, "\n"}, {`\r`, "\r"}, {`\t`, "\t"}, {`\\`, "\\"}, {`\0`, "\x00"}, {`\'`, "'"}, {`'`, "'"}, {`\"`, "\""}, {`\x41`, "A"}, {`\x00`, "\x00"}, {`\x7f`, "\x7f"}, {`\x7F`, "\x7f"},
	{`\x0a`, "\n"}, {`\u{41}`, "A"}, {`\u{0041}`, "A"}, {`\u{000041}`, "A"}, {`\u{0}`, "\x00"}, {`\u{7f}`, "\x7f"}, {`\u{80}`, "\u0080"}, {`\u{ff}`, "ÿ"}, {`\u{FF}`, "ÿ"}, {`\u{fF}`, "ÿ"},
	{`\u{d7ff}`, "\ud7ff"}, {`\u{e000}`, "\ue000"}, {`\u{fffd}`, "\ufffd"}, {`\u{ffff}`, "\uffff"}, {`\u{10000}`, "\U00010000"}, {`\u{10ffff}`, "\U0010ffff"}, {`\u{1F600}`, "\U0001F600"},
	{`\u{2028}`, "\u2028"}, {`\u{301}`, "\u0301"}, {`a\u{301}`, "a\u0301"}, {`é`, "é"}, {`日本`, "日本"}, {"\U0001F600", "\U0001F600"}, {"\u0080", "\u0080"}, {"\u200b", "\u200b"}, {"a\u0301", "a\u0301"}, {"\u0301", "\u0301"},
	{"\x01", "\x01"}, {"\x7f", "\x7f"}, {"\t", "\t"}, {"\r", "\r"}, {`\\n`, `\n`}, {`\\\\`, `\\`}, {`\\\"`, `\"`}, {`a\\`, `a\`}, {`\"\"`, `""`}, {`\u{5c}`, `\`}, {`\u{22}`, `"`}, {`\x22`, `"`}, {`\x5c`, `\`},
	{`\x5cn`, `\n`}, {`//`, "//"}, {`/* x */`, "/* x */"}, {`*`, "*"}, {` `, " "}, {`  a  `, "  a  "}, {`\u{a}\u{d}`, "\n\r"}, {`\n\r\t\0\\\'\"`, "\n\r\t\x00\\'\""}, {`if`, "if"}, {`a b`, "a b"},
}

// TestEscapeForms: every string escape form in every position a string literal can occupy.
func TestEscapeForms(t *testing.T) {
	if !ev.First() {
		return
	}
	fail := tableFail(t)
	ctx := ir.Var("context")
	count := 0
	tbl := escTable
	if ev.KnownOpen("C07", "ufffd-raw") {
		ev.R.Excluded("ufffd-raw")
	} else {
		tbl = append(append([]escCase{}, tbl...), escCase{"\ufffd", "\ufffd"}, escCase{"a\ufffdb", "a\ufffdb"})
	}
	for _, ec := range tbl {
		q := `"` + ec.body + `"`
		exprs := []textCase{
			{q, S(ec.want)},
			{`A::B::` + q, ir.Lit(ir.Ent("A::B", ec.want))},
			{`context[` + q + `]`, ir.Access(ctx, ec.want)},
			{`context has ` + q, ir.Has(ctx, ec.want)},
			{`{` + q + `: 1}`, ir.RecE([]string{ec.want}, []*ir.Expr{L(1)})},
			{`context.hasTag(` + q + `)`, ir.Bin(ir.OpHasTag, ctx, S(ec.want))},
			{`decimal(` + q + `)`, ir.Ext("decimal", S(ec.want))},
		}
		if !strings.Contains(ec.body, "*") {
			exprs = append(exprs, textCase{`context like ` + q, ir.Like(ctx, []ir.PatElem{{Lit: ec.want}})},
				textCase{`context like "*` + ec.body + `*x"`, ir.Like(ctx, []ir.PatElem{{Wild: true}, {Lit: ec.want}, {Wild: true}, {Lit: "x"}})})
		}
		for _, tc := range exprs {
			count++
			c := &Case{Policy: condPolicy(tc.want), Mode: "table", Text: "permit(principal, action, resource) when { " + tc.text + " };"}
			run(c, "escape-forms", true, fail)
		}
		// annotation value and scope entity ids
		count++
		p := ir.NewPolicy(true)
		p.Annotations = []ir.Annotation{{K: "id", V: ec.want}, {K: "in", V: ec.want}}
		p.Principal = ir.ScopeEq(ir.Ent("A", ec.want))
		p.Action = ir.ScopeInSet([]ir.Value{ir.Ent("Action", ec.want), ir.Ent("Action", "x")})
		p.Resource = ir.ScopeIsIn("B::C", ir.Ent("D", ec.want))
		txt := `@id(` + q + `) @in(` + q + `) permit(principal == A::` + q + `, action in [Action::` + q + `, Action::"x"], resource is B::C in D::` + q + `);`
		run(&Case{Policy: p, Mode: "table", Text: txt}, "escape-forms", true, fail)
	}
	// patterns: * is a wildcard, \* a literal star, an escaped code point 2a a literal star
	pats := []struct {
		body string
		want []ir.PatElem
	}{
		{``, nil}, {`*`, []ir.PatElem{{Wild: true}}}, {`**`, []ir.PatElem{{Wild: true}}}, {`\*`, []ir.PatElem{{Lit: "*"}}}, {`\u{2a}`, []ir.PatElem{{Lit: "*"}}}, {`\x2a`, []ir.PatElem{{Lit: "*"}}},
		{`a*`, []ir.PatElem{{Lit: "a"}, {Wild: true}}}, {`*a`, []ir.PatElem{{Wild: true}, {Lit: "a"}}}, {`a*b`, []ir.PatElem{{Lit: "a"}, {Wild: true}, {Lit: "b"}}}, {`a\*b`, []ir.PatElem{{Lit: "a*b"}}},
		{`*\**`, []ir.PatElem{{Wild: true}, {Lit: "*"}, {Wild: true}}}, {`\**\*`, []ir.PatElem{{Lit: "*"}, {Wild: true}, {Lit: "*"}}}, {`\\*`, []ir.PatElem{{Lit: `\`}, {Wild: true}}}, {`\\\*`, []ir.PatElem{{Lit: `\*`}}},
		{`a**b`, []ir.PatElem{{Lit: "a"}, {Wild: true}, {Lit: "b"}}}, {`*é*`, []ir.PatElem{{Wild: true}, {Lit: "é"}, {Wild: true}}}, {`\"*\"`, []ir.PatElem{{Lit: `"`}, {Wild: true}, {Lit: `"`}}},
		{`\n*\0`, []ir.PatElem{{Lit: "\n"}, {Wild: true}, {Lit: "\x00"}}}, {`*\u{1F600}`, []ir.PatElem{{Wild: true}, {Lit: "\U0001F600"}}},
	}
	for _, pc := range pats {
		count++
		c := &Case{Policy: condPolicy(ir.Like(ctx, pc.want)), Mode: "table", Text: `permit(principal, action, resource) when { context like "` + pc.body + `" };`}
		run(c, "escape-forms", true, fail)
	}
	ev.R.Space("string escape forms x {expression, entity id, index, has, record key, method argument, function argument, pattern, annotation, scope ids}; pattern star forms", count)
}

// TestPolicyForms: every scope form x 3 parts, effects, annotation keys (incl. reserved words), when/unless orders.
func TestPolicyForms(t *testing.T) {
	if !ev.First() {
		return
	}
	fail := tableFail(t)
	count := 0
	e1, e2 := ir.Ent("T0", "a"), ir.Ent("NS::T2", "b c")
	pr := []ir.Scope{ir.ScopeAll(), ir.ScopeEq(e1), ir.ScopeIn(e2), ir.ScopeIs("NS::T2"), ir.ScopeIsIn("T0", e2)}
	a1, a2 := ir.Ent("Action", "view"), ir.Ent("NS::Action", "e\"dit")
	ac := []ir.Scope{ir.ScopeAll(), ir.ScopeEq(a1), ir.ScopeIn(a2), ir.ScopeInSet(nil), ir.ScopeInSet([]ir.Value{a1}), ir.ScopeInSet([]ir.Value{a1, a2, a1})}
	for pi, ps := range pr {
		for ai, as := range ac {
			for ri, rs := range pr {
				p := ir.NewPolicy((pi+ai+ri)%2 == 0)
				p.Principal, p.Action, p.Resource = ps, as, rs
				if (pi+ri)%3 == 0 {
					p.Conds = []ir.Cond{{When: true, Body: ir.Lit(ir.Bool(true))}}
				}
				count++
				renderAll(p, uint64(pi*100+ai*10+ri), 2, "policy-forms", fail)
			}
		}
	}
	for i, k := range gen.AnnotationKeys {
		p := ir.NewPolicy(i%2 == 0)
		p.Annotations = []ir.Annotation{{K: k, V: "v" + k}}
		if i > 0 {
			p.Annotations = append(p.Annotations, ir.Annotation{K: gen.AnnotationKeys[i-1], V: ""})
		}
		if i > 1 {
			p.Annotations = append([]ir.Annotation{{K: gen.AnnotationKeys[i-2], V: "\n"}}, p.Annotations...)
		}
		count++
		renderAll(p, uint64(i), 2, "policy-forms", fail)
	}
	for n := 0; n <= 4; n++ {
		for mask := 0; mask < 1<<n; mask++ {
			p := ir.NewPolicy(true)
			for i := 0; i < n; i++ {
				p.Conds = append(p.Conds, ir.Cond{When: mask>>i&1 == 1, Body: ir.Bin(ir.OpEq, ir.Var("context"), L(int64(i)))})
			}
			count++
			renderAll(p, uint64(n*100+mask), 2, "policy-forms", fail)
		}
	}
	ev.R.Space("scope forms (5 principal x 6 action x 5 resource), annotation keys incl. reserved words, when/unless sequences up to length 4", count)
}

// ---------------------------------------------------------------------------------------------
// random

func treeOpts() gen.TreeOpts {
	return gen.TreeOpts{ParserNormal: true, Keys: gen.KeysHostile}
}

func rapidNoise(rt *rapid.T) func(int) int {
	return func(n int) int { return rapid.IntRange(0, n-1).Draw(rt, "n") }
}

func drawMode(rt *rapid.T) string {
	m := gen.Pick(rt, []string{"full", "min", "min", "full+noise", "min+noise", "min+noise", "min+noise"}, "mode")
	if gen.Chance(rt, 15, "strkeys") {
		m += "+strkeys"
	}
	return m
}

func TestRandom(t *testing.T) {
	ev.SetChecks(ev.Scale(15000, 1500000))
	maxDepth := ev.Pick(5, 8)
	ev.Check(t, func(rt *rapid.T) {
		o := treeOpts()
		p := gen.HostilePolicy(rt, o, 2, func() *ir.Expr { return gen.GenTree(rt, rapid.IntRange(1, maxDepth).Draw(rt, "depth"), o) })
		c := &Case{Policy: p, Mode: drawMode(rt)}
		c.Text = render.Policy(p, optsFor(c.Mode, rapidNoise(rt)))
		root := "root:none"
		if len(p.Conds) > 0 {
			root = "root:" + string(p.Conds[0].Body.Op)
		}
		if !run(c, "random", false, func(string, string) {}, root) {
			rt.Fatalf("C07/random: parsed tree differs from the rendered tree or a valid text is rejected")
		}
	})
}

// TestRandomDocument: several policies in one document with layout noise between them.
func TestRandomDocument(t *testing.T) {
	ev.SetChecks(ev.Scale(1500, 100000))
	ev.Check(t, func(rt *rapid.T) {
		o := treeOpts()
		n := rapid.IntRange(0, 4).Draw(rt, "npol")
		c := &DocCase{}
		var b strings.Builder
		seps := []string{"", " ", "\n", "\n\n", "// c\n", "\t", " // é\n\n"}
		b.WriteString(gen.Pick(rt, seps, "sep0"))
		skip := false
		for i := 0; i < n; i++ {
			p := gen.HostilePolicy(rt, o, 2, func() *ir.Expr { return gen.GenTree(rt, rapid.IntRange(0, 3).Draw(rt, "depth"), o) })
			m := drawMode(rt)
			txt := render.Policy(p, optsFor(m, rapidNoise(rt)))
			if knownKey(&Case{Policy: p, Mode: m, Text: txt}) != "" {
				skip = true
			}
			c.Policies = append(c.Policies, p)
			b.WriteString(txt)
			b.WriteString(gen.Pick(rt, seps, "sep"))
		}
		if gen.Chance(rt, 20, "tailcomment") {
			b.WriteString("// no newline at end")
		}
		c.Text = b.String()
		if skip {
			ev.R.Excluded("document-with-known-finding")
			return
		}
		ev.Watch("doc", func() any { return c })
		sub, msg := checkDoc(c)
		ev.Unwatch()
		ev.R.Case(ir.Hash(c.Policies), n >= 2, "document", fmt.Sprintf("doc-len:%d", n))
		if sub != "" {
			ev.R.Violation(sub, c, msg)
			rt.Fatalf("C07/document: document of valid policies is rejected or parses to different policies")
		}
	})
}

// ---------------------------------------------------------------------------------------------
// negative side

var reserved = []string{"true", "false", "if", "then", "else", "in", "like", "has", "is", "__cedar"}

type negGen struct {
	rt *rapid.T
	o  gen.TreeOpts
}

func (g *negGen) opts() render.Opts {
	if gen.Chance(g.rt, 50, "negnoise") {
		return render.Opts{Noise: &render.Noise{Next: rapidNoise(g.rt)}}
	}
	return render.Opts{}
}

// operand renders a random valid tree as a relation operand (or as a member receiver).
func (g *negGen) operand(member bool) string {
	e := gen.GenTree(g.rt, rapid.IntRange(0, 2).Draw(g.rt, "opdepth"), g.o)
	return render.ExprOperand(e, g.opts(), member)
}

func (g *negGen) pick(xs ...string) string { return gen.Pick(g.rt, xs, "negpick") }

var relOps = []string{"<", "<=", ">", ">=", "==", "!=", "in"}

var badEscapes = []string{`\a`, `\q`, `\x80`, `\xff`, `\xG0`, `\x1`, `\x`, `\u{}`, `\u{110000}`, `\u{d800}`, `\u{dfff}`, `\u{1234567}`, `\u41`, `\u{41`, `\U{41}`, `\ `, `\N`, `\1`, `\u{g}`, `\u{ 41}`, `\u{-1}`}

// fragment returns an expression text of the given rejection class.
func (g *negGen) fragment(class string) string {
	A, B, C := g.operand(false), g.operand(false), g.operand(false)
	M := g.operand(true)
	r1, r2 := gen.Pick(g.rt, relOps, "r1"), gen.Pick(g.rt, relOps, "r2")
	rn := gen.Pick(g.rt, relOps[:6], "rn") // a relational operator other than `in` (`x is T in y` is valid)
	kw := gen.Pick(g.rt, reserved, "kw")
	switch class {
	case "chained-relation":
		return g.pick(
			A+" "+r1+" "+B+" "+r2+" "+C,
			A+" has k has j",
			A+" has k "+r1+" "+B,
			A+" has \"k\" like \"x\"",
			A+" like \"a*\" like \"b\"",
			A+" like \"a\" "+r1+" "+B,
			A+" is T0 is T1",
			A+" is T0 "+rn+" "+B,
			A+" is T0 in "+B+" in "+C,
			A+" is T0 in "+B+" "+r1+" "+C,
			A+" "+r1+" "+B+" has k",
			A+" "+r1+" "+B+" like \"x\"",
			A+" "+r1+" "+B+" is T0",
			A+" has k is T0",
			A+" is T0 has k",
		)
	case "reserved-identifier":
		return g.pick(
			M+"."+kw,
			M+"."+kw+".a",
			M+".a."+kw,
			"{"+kw+": "+A+"}",
			"{a: 1, "+kw+": 2}",
			A+" has "+kw,
			A+" has a."+kw,
			A+" has "+kw+".a",
			gen.Pick(g.rt, []string{"then", "else", "in", "like", "has", "is", "__cedar"}, "kwvar"),
			kw+"::\"id\"",
			"T0::"+kw+"::\"id\"",
			kw+"::T0::\"id\"",
			A+" is "+kw,
			A+" is T0::"+kw,
			A+" is "+kw+"::T0",
			M+"."+kw+"("+A+")",
			gen.Pick(g.rt, []string{"then", "else", "in", "like", "has", "is", "__cedar"}, "kwfn")+"("+A+")",
			kw+"::decimal(\"1.0\")",
		)
	case "duplicate-record-key":
		k := gen.Pick(g.rt, []string{"a", "k", "a b", "", "if", "é", "\n"}, "dupk")
		forms := []string{render.Quote(k)}
		if render.IsIdent(k) {
			forms = append(forms, k)
		}
		if k == "a" {
			forms = append(forms, `"\u{61}"`, `"\x61"`)
		}
		k1, k2 := gen.Pick(g.rt, forms, "dupf1"), gen.Pick(g.rt, forms, "dupf2")
		return g.pick(
			"{"+k1+": "+A+", "+k2+": "+B+"}",
			"{"+k1+": "+A+", other: 1, "+k2+": "+B+"}",
			"{"+k1+": 1, "+k2+": 1}",
			"{x: {"+k1+": 1, "+k2+": 2}}",
		)
	case "unknown-function":
		return g.pick(
			"foo("+A+")", "foo()", "NS::decimal(\"1.0\")", "Decimal(\"1.0\")", "IP(\"1.1.1.1\")", "contains("+A+", "+B+")", "isEmpty("+A+")", "hasTag("+A+", \"k\")",
			"principal("+A+")", "context()", "permit(1)", "ip::ip(\"::1\")", "dateTime(\"2024-01-01\")",
			M+".foo()", M+".foo("+A+")", M+".isIPv4()", M+".size()", M+".Contains("+A+")", M+".lessthan("+A+")", M+".in("+A+")", M+".principal()",
		)
	case "method-as-function":
		m1, m2 := gen.Pick(g.rt, gen.Methods1, "maf1"), gen.Pick(g.rt, gen.Methods2, "maf2")
		return g.pick(m1+"("+A+")", m2+"("+A+", "+B+")", m1+"()", m2+"("+A+")")
	case "function-as-method":
		f := gen.Pick(g.rt, gen.CtorFuncs, "fam")
		return g.pick(M+"."+f+"()", M+"."+f+"("+A+")", "\"1.0\"."+f+"()", M+"."+f+"("+A+", "+B+")")
	case "builtin-arity":
		return g.pick(
			M+".contains()", M+".contains("+A+", "+B+")", M+".containsAll()", M+".containsAll("+A+", "+B+")", M+".containsAny()", M+".containsAny("+A+", "+B+")",
			M+".isEmpty("+A+")", M+".isEmpty("+A+", "+B+")", M+".hasTag()", M+".hasTag("+A+", "+B+")", M+".getTag()", M+".getTag("+A+", "+B+")",
		)
	case "bad-escape":
		esc := gen.Pick(g.rt, badEscapes, "badesc")
		pre, post := g.pick("", "a", "é", `\n`), g.pick("", "z", `\\`, " ") // post must not start with a hex digit
		q := `"` + pre + esc + post + `"`
		alts := []string{q, "T0::" + q, M + "[" + q + "]", A + " has " + q, "{" + q + ": 1}", "decimal(" + q + ")", A + " like " + q, M + ".hasTag(" + q + ")"}
		alts = append(alts, `"a\*b"`, `T0::"\*"`, A+` has "\*"`, `{"\*": 1}`) // \* is an escape of patterns only
		return gen.Pick(g.rt, alts, "badescpos")
	case "int-out-of-range":
		n := g.pick("9223372036854775808", "9223372036854775809", "18446744073709551616", "99999999999999999999999999", "09223372036854775808")
		return g.pick(
			n, A+" + "+n, A+" - "+n, n+" - 1", A+" * "+n, A+" < "+n, "["+n+"]", "-9223372036854775809", "- 9223372036854775809", "--9223372036854775809", A+" + -9223372036854775809",
			"-18446744073709551616", "("+n+")", "-("+n+")", n+".a", "!"+n,
		)
	}
	panic("unknown class " + class)
}

var exprClasses = []string{"chained-relation", "reserved-identifier", "duplicate-record-key", "unknown-function", "method-as-function", "function-as-method", "builtin-arity", "bad-escape", "int-out-of-range"}
var allClasses = append(append([]string{}, exprClasses...), "duplicate-annotation", "unterminated-string", "unterminated-comment", "scope-errors")

// embed places an invalid expression text into an expression position of an otherwise valid policy. The raw text rides
// in a variable node (the renderer writes variable names verbatim); every wrapper keeps it in a position delimited by
// brackets or keywords, never directly after a prefix operator.
func (g *negGen) embed(frag string) string {
	raw := ir.Var(frag)
	par := ir.Var("(" + frag + ")")
	tru := ir.Lit(ir.Bool(true))
	var body *ir.Expr
	switch rapid.IntRange(0, 9).Draw(g.rt, "wrap") {
	case 0, 1, 2:
		body = raw
	case 3:
		body = ir.SetE(ir.Lit(ir.Long(1)), raw)
	case 4:
		body = ir.RecE([]string{"k"}, []*ir.Expr{raw})
	case 5:
		body = ir.If(tru, raw, ir.Lit(ir.Long(0)))
	case 6:
		body = ir.If(raw, tru, tru)
	case 7:
		body = ir.Bin(ir.OpAnd, tru, par)
	case 8:
		body = ir.Ext("decimal", raw)
	default:
		body = ir.Bin(ir.OpContains, ir.SetE(), raw)
	}
	o := g.o
	p := gen.HostilePolicy(g.rt, o, 2, func() *ir.Expr { return gen.GenTree(g.rt, rapid.IntRange(0, 2).Draw(g.rt, "vdepth"), o) })
	at := rapid.IntRange(0, len(p.Conds)).Draw(g.rt, "at")
	conds := append([]ir.Cond{}, p.Conds[:at]...)
	conds = append(conds, ir.Cond{When: gen.Chance(g.rt, 60, "negwhen"), Body: body})
	p.Conds = append(conds, p.Conds[at:]...)
	return render.Policy(p, g.opts())
}

func (g *negGen) validPolicyText() string {
	o := g.o
	p := gen.HostilePolicy(g.rt, o, 2, func() *ir.Expr { return gen.GenTree(g.rt, rapid.IntRange(0, 2).Draw(g.rt, "vdepth"), o) })
	return render.Policy(p, g.opts())
}

// text returns a whole policy text of the class.
func (g *negGen) text(class string) string {
	switch class {
	case "duplicate-annotation":
		o := g.o
		p := gen.HostilePolicy(g.rt, o, 1, func() *ir.Expr { return gen.GenTree(g.rt, 1, o) })
		k := gen.Pick(g.rt, gen.AnnotationKeys, "dupann")
		dup := ir.Annotation{K: k, V: gen.HostileString(g.rt, o)}
		var as []ir.Annotation
		for _, a := range p.Annotations {
			if a.K != k {
				as = append(as, a)
			}
		}
		i := rapid.IntRange(0, len(as)).Draw(g.rt, "dupat1")
		as = append(as[:i:i], append([]ir.Annotation{dup}, as[i:]...)...)
		j := rapid.IntRange(0, len(as)).Draw(g.rt, "dupat2")
		if gen.Chance(g.rt, 50, "dupsameval") {
			dup.V = gen.HostileString(g.rt, o)
		}
		as = append(as[:j:j], append([]ir.Annotation{dup}, as[j:]...)...)
		p.Annotations = as
		return render.Policy(p, g.opts())
	case "unterminated-string":
		// no quote character may follow the opening quote up to the end of the input
		head := ""
		if gen.Chance(g.rt, 50, "ushead") {
			head = g.validPolicyText() + "\n"
		}
		body := g.pick("abc", "", "a\\\"", "a b", "é")
		tail := g.pick(" };", ";", "", " }\n;\n", "\n};")
		return head + g.pick(
			"permit(principal, action, resource) when { principal == \""+body+tail,
			"permit(principal, action, resource) when { context.a == 1 && T0::\""+body+tail,
			"@id(\""+body+") permit(principal, action, resource);",
			"permit(principal == T0::\""+body+", action, resource);",
			"permit(principal, action, resource) when { context like \""+body+"* };",
			"permit(principal, action, resource) when { context[\""+body+"] };",
		)
	case "unterminated-comment":
		v := g.validPolicyText()
		return g.pick(
			v+" /* never closed",
			v+"\n/* never closed *",
			v+"/*/",
			"/* permit(principal, action, resource);",
			"permit(principal, /* action, resource) when { true };",
			"permit(principal, action, resource) when { 1 /* } ; ",
		)
	case "scope-errors":
		kw := gen.Pick(g.rt, reserved, "skw")
		return g.pick(
			"permit(principal is "+kw+", action, resource);",
			"permit(principal == "+kw+"::\"a\", action, resource);",
			"permit(principal, action == Action::"+kw+"::\"a\", resource);",
			"permit(principal, action, resource in T0::"+kw+"::\"a\");",
			"permit(principal == T0::\"a\" == T0::\"b\", action, resource);",
			"permit(principal in T0::\"a\" in T0::\"b\", action, resource);",
			"permit(principal is T0 is T1, action, resource);",
			"permit(principal, action, resource is T0 in T0::\"a\" in T0::\"b\");",
			"permit(principal, action in [Action::\"a\"] in [Action::\"b\"], resource);",
			"permit(principal == T0::\"\\q\", action, resource);",
			"permit(principal, action, resource == T0::\"\\u{110000}\");",
			"@"+"id(\"\\x80\") permit(principal, action, resource);",
			"@id(\"a\") @id(\"b\") permit(principal, action, resource);",
			"@if(\"a\") @if(\"a\") forbid(principal, action, resource);",
		)
	}
	return g.embed(g.fragment(class))
}

func TestReject(t *testing.T) {
	for _, class := range allClasses {
		class := class
		t.Run(class, func(t *testing.T) {
			ev.SetChecks(ev.Scale(1200, 60000))
			ev.Check(t, func(rt *rapid.T) {
				g := &negGen{rt: rt, o: gen.TreeOpts{ParserNormal: true, Keys: gen.KeysHostile, NoUFFFD: true}}
				c := &NegCase{Class: class, Text: g.text(class)}
				if !runNeg(c, func(string, string) {}) {
					rt.Fatalf("C07/reject: a text outside the grammar is accepted (class %s)", class)
				}
			})
		})
	}
}

// TestRejectTable: fixed members of every class (independent of the generators above).
func TestRejectTable(t *testing.T) {
	if !ev.First() {
		return
	}
	fail := tableFail(t)
	w := func(e string) string { return "permit(principal, action, resource) when { " + e + " };" }
	tbl := map[string][]string{
		"chained-relation":     {w(`1 < 2 < 3`), w(`1 == 2 == 3`), w(`context has a has b`), w(`1 < 2 == true`), w(`principal in resource in resource`), w(`"a" like "a" like "a"`), w(`principal is T0 is T0`), w(`1 != 2 != 3`), w(`1 >= 2 > 3`)},
		"reserved-identifier":  {w(`context.if`), w(`{if: 1}`), w(`context has true`), w(`context.true`), w(`context.in`), w(`{in: 1}`), w(`{__cedar: 1}`), w(`context has like`), w(`then`), w(`is::"a"`), w(`context.has(1)`), w(`context has a.then`)},
		"duplicate-annotation": {`@a("1") @a("2") permit(principal, action, resource);`, `@a("1") @b("1") @a("1") permit(principal, action, resource);`, `@if("") @if("") permit(principal, action, resource);`},
		"duplicate-record-key": {w(`{a: 1, a: 2}`), w(`{a: 1, "a": 2}`), w(`{"a": 1, "\u{61}": 2}`), w(`{"": 1, "": 1}`), w(`{a: 1, b: 2, c: 3, a: 4}`)},
		"unknown-function":     {w(`foo(1)`), w(`foo()`), w(`context.foo()`), w(`A::decimal("1.0")`), w(`contains([1], 1)`)},
		"method-as-function":   {w(`lessThan(decimal("1.0"), decimal("2.0"))`), w(`isIpv4(ip("1.1.1.1"))`), w(`toDate(context.d)`), w(`offset(context.d, duration("1h"))`)},
		"function-as-method":   {w(`"1.0".decimal()`), w(`context.ip("1.1.1.1")`), w(`context.a.datetime()`), w(`"1h".duration()`)},
		"builtin-arity":        {w(`[1].contains(1, 2)`), w(`[1].contains()`), w(`[1].isEmpty(1)`), w(`principal.hasTag()`), w(`principal.getTag("a", "b")`), w(`[1].containsAll()`), w(`[1].containsAny([1], [2])`)},
		"unterminated-string":  {w(`"abc`), `permit(principal, action, resource) when { "abc`, `@id("abc`, `permit(principal == T0::"abc`, w(`"abc\"`)},
		"unterminated-comment": {`permit(principal, action, resource); /* x`, `/* permit(principal, action, resource);`, `permit(principal, action, resource) /* x * /;`},
		"bad-escape":           {w(`"\a"`), w(`"\x80"`), w(`"\u{110000}"`), w(`"\u{d800}"`), w(`"\u{}"`), w(`"\u0041"`), w(`"\*"`), w(`"a" like "\q"`), w(`T0::"\q"`), `@id("\q") permit(principal, action, resource);`, w(`context["\q"]`), w(`"\x4"`), w(`"\u{1234567}"`)},
		"int-out-of-range":     {w(`9223372036854775808`), w(`-9223372036854775809`), w(`1 - 9223372036854775808`), w(`99999999999999999999`), w(`-(9223372036854775808)`), w(`[9223372036854775808]`)},
		"scope-errors":         {`permit(principal is if, action, resource);`, `permit(principal == T0::"a" == T0::"b", action, resource);`},
	}
	count := 0
	for _, class := range allClasses {
		for _, txt := range tbl[class] {
			count++
			runNeg(&NegCase{Class: class, Text: txt}, fail)
		}
	}
	ev.R.Space("fixed texts of every rejection class", count)
}

// ---------------------------------------------------------------------------------------------

func TestKnown(t *testing.T) {
	if !ev.First() {
		return
	}
	if ev.KnownOpen("C07", "neg-literal-member") {
		p := condPolicy(ir.Un(ir.OpNeg, ir.Access(L(5), "a")))
		c := &Case{Policy: p, Mode: "min", Text: render.Policy(p, render.Opts{})}
		if sub, msg := check(c); sub != "" {
			ev.R.KnownFinding("neg-literal-member", "`when { -5.a }` (grammar: Unary('-', Member(5, .a))): "+firstLine(msg))
		}
	}
	if ev.KnownOpen("C07", "ufffd-raw") {
		c := &Case{Policy: condPolicy(S("\ufffd")), Mode: "table", Text: "permit(principal, action, resource) when { \"\ufffd\" };"}
		if sub, msg := check(c); sub != "" {
			ev.R.KnownFinding("ufffd-raw", "string literal containing a well-formed U+FFFD: "+firstLine(msg))
		}
	}
}

func firstLine(s string) string {
	if i := strings.IndexByte(s, '\n'); i >= 0 {
		return s[:i]
	}
	return s
}

func TestReplay(t *testing.T) {
	rf, ok, err := ev.LoadReplay()
	if !ok {
		t.Skip("no replay requested")
	}
	if err != nil {
		t.Fatal(err)
	}
	if ev.ReplayFuzz(t, rf, fuzzProps, fuzzRaw) {
		return
	}
	var sub, msg string
	var cs any
	switch {
	case strings.HasPrefix(rf.Sub, "reject/"):
		var c NegCase
		if err := json.Unmarshal(rf.Case, &c); err != nil || c.Text == "" {
			t.Fatalf("cannot decode replay case: %v", err)
		}
		sub, msg = checkNeg(&c)
		cs = &c
	case strings.HasPrefix(rf.Sub, "doc/"):
		var c DocCase
		if err := json.Unmarshal(rf.Case, &c); err != nil {
			t.Fatalf("cannot decode replay case: %v", err)
		}
		sub, msg = checkDoc(&c)
		cs = &c
	default:
		var c Case
		if err := json.Unmarshal(rf.Case, &c); err != nil || c.Policy == nil {
			t.Fatalf("cannot decode replay case: %v", err)
		}
		if c.Text == "" {
			c.Text = render.Policy(c.Policy, optsFor(strings.TrimSuffix(strings.Split(c.Mode, "+")[0], "+noise"), nil))
		}
		sub, msg = check(&c)
		cs = &c
	}
	if sub != "" {
		ev.R.Violation(sub, cs, msg)
		t.Fatalf("C07 replay %s: %s", sub, msg)
	}
}
