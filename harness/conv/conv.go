// Package conv converts between the harness IR and cedar-go objects.
// IR -> cedar-go uses only public constructors; cedar-go -> IR walks exported
// fields of x/exp/ast nodes and public accessors of values.
package conv

import (
	"encoding/json"
	"fmt"
	"math/big"
	"net/netip"
	"sort"
	"strings"

	cedar "github.com/cedar-policy/cedar-go"
	pubast "github.com/cedar-policy/cedar-go/ast"
	"github.com/cedar-policy/cedar-go/types"
	xast "github.com/cedar-policy/cedar-go/x/exp/ast"

	"verif/ir"
)

// ---------------------------------------------------------------------------------------------
// IR -> cedar-go

func ToEntityUID(v ir.Value) types.EntityUID {
	return types.NewEntityUID(types.EntityType(v.T), types.String(v.S))
}

func ToIP(v ir.Value) types.IPAddr {
	var addr netip.Addr
	if len(v.IP.Addr) == 4 {
		addr = netip.AddrFrom4([4]byte(v.IP.Addr))
	} else {
		addr = netip.AddrFrom16([16]byte(v.IP.Addr))
	}
	return types.IPAddr(netip.PrefixFrom(addr, v.IP.Prefix))
}

func ToDecimal(raw int64) types.Decimal {
	d, err := types.NewDecimal(raw, -4)
	if err != nil {
		panic(fmt.Sprintf("conv: NewDecimal(%d,-4): %v", raw, err))
	}
	return d
}

func ToValue(v ir.Value) types.Value {
	switch v.K {
	case ir.KBool:
		return types.Boolean(v.B)
	case ir.KLong:
		return types.Long(v.I)
	case ir.KString:
		return types.String(v.S)
	case ir.KEntity:
		return ToEntityUID(v)
	case ir.KDecimal:
		return ToDecimal(v.I)
	case ir.KDatetime:
		return types.NewDatetimeFromMillis(v.I)
	case ir.KDuration:
		return types.NewDurationFromMillis(v.I)
	case ir.KIP:
		return ToIP(v)
	case ir.KSet:
		vs := make([]types.Value, len(v.Elems))
		for i, e := range v.Elems {
			vs[i] = ToValue(e)
		}
		return types.NewSet(vs...)
	case ir.KRecord:
		return ToRecord(v.Fields)
	}
	panic("conv.ToValue: bad kind " + string(v.K))
}

func ToRecord(fs []ir.Field) types.Record {
	m := types.RecordMap{}
	for _, f := range fs {
		m[types.String(f.K)] = ToValue(f.V)
	}
	return types.NewRecord(m)
}

func ToEntity(e ir.Entity) types.Entity {
	ps := make([]types.EntityUID, len(e.Parents))
	for i, p := range e.Parents {
		ps[i] = ToEntityUID(p)
	}
	return types.Entity{
		UID:        ToEntityUID(e.UID),
		Parents:    types.NewEntityUIDSet(ps...),
		Attributes: ToRecord(e.Attrs),
		Tags:       ToRecord(e.Tags),
	}
}

func ToEntityMap(s ir.Store) types.EntityMap {
	m := types.EntityMap{}
	for _, e := range s {
		m[ToEntityUID(e.UID)] = ToEntity(e)
	}
	return m
}

func ToRequest(r ir.Request) types.Request {
	return types.Request{
		Principal: ToEntityUID(r.Principal),
		Action:    ToEntityUID(r.Action),
		Resource:  ToEntityUID(r.Resource),
		Context:   ToRecord(r.Context.Fields),
	}
}

func ToPattern(p []ir.PatElem) types.Pattern {
	comps := make([]any, 0, len(p))
	for _, c := range p {
		if c.Wild {
			comps = append(comps, types.Wildcard{})
		} else {
			comps = append(comps, types.String(c.Lit))
		}
	}
	return types.NewPattern(comps...)
}

// LitMode controls how extension-typed literals are turned into AST nodes.
type LitMode int

const (
	LitAsValue LitMode = iota // NodeValue holding the typed value
)

func bin(l, r xast.IsNode) xast.BinaryNode { return xast.BinaryNode{Left: l, Right: r} }

// ToNode builds an x/exp/ast node tree.
func ToNode(e *ir.Expr) xast.IsNode {
	a := func(i int) xast.IsNode { return ToNode(e.Args[i]) }
	switch e.Op {
	case ir.OpLit:
		return xast.NodeValue{Value: ToValue(*e.Lit)}
	case ir.OpVar:
		return xast.NodeTypeVariable{Name: types.String(e.Name)}
	case ir.OpAnd:
		return xast.NodeTypeAnd{BinaryNode: bin(a(0), a(1))}
	case ir.OpOr:
		return xast.NodeTypeOr{BinaryNode: bin(a(0), a(1))}
	case ir.OpNot:
		return xast.NodeTypeNot{UnaryNode: xast.UnaryNode{Arg: a(0)}}
	case ir.OpNeg:
		return xast.NodeTypeNegate{UnaryNode: xast.UnaryNode{Arg: a(0)}}
	case ir.OpIf:
		return xast.NodeTypeIfThenElse{If: a(0), Then: a(1), Else: a(2)}
	case ir.OpEq:
		return xast.NodeTypeEquals{BinaryNode: bin(a(0), a(1))}
	case ir.OpNe:
		return xast.NodeTypeNotEquals{BinaryNode: bin(a(0), a(1))}
	case ir.OpLt:
		return xast.NodeTypeLessThan{BinaryNode: bin(a(0), a(1))}
	case ir.OpLe:
		return xast.NodeTypeLessThanOrEqual{BinaryNode: bin(a(0), a(1))}
	case ir.OpGt:
		return xast.NodeTypeGreaterThan{BinaryNode: bin(a(0), a(1))}
	case ir.OpGe:
		return xast.NodeTypeGreaterThanOrEqual{BinaryNode: bin(a(0), a(1))}
	case ir.OpAdd:
		return xast.NodeTypeAdd{BinaryNode: bin(a(0), a(1))}
	case ir.OpSub:
		return xast.NodeTypeSub{BinaryNode: bin(a(0), a(1))}
	case ir.OpMul:
		return xast.NodeTypeMult{BinaryNode: bin(a(0), a(1))}
	case ir.OpIn:
		return xast.NodeTypeIn{BinaryNode: bin(a(0), a(1))}
	case ir.OpIs:
		return xast.NodeTypeIs{Left: a(0), EntityType: types.EntityType(e.Name)}
	case ir.OpIsIn:
		return xast.NodeTypeIsIn{NodeTypeIs: xast.NodeTypeIs{Left: a(0), EntityType: types.EntityType(e.Name)}, Entity: a(1)}
	case ir.OpHas:
		return xast.NodeTypeHas{StrOpNode: xast.StrOpNode{Arg: a(0), Value: types.String(e.Name)}}
	case ir.OpAccess:
		return xast.NodeTypeAccess{StrOpNode: xast.StrOpNode{Arg: a(0), Value: types.String(e.Name)}}
	case ir.OpHasTag:
		return xast.NodeTypeHasTag{BinaryNode: bin(a(0), a(1))}
	case ir.OpGetTag:
		return xast.NodeTypeGetTag{BinaryNode: bin(a(0), a(1))}
	case ir.OpLike:
		return xast.NodeTypeLike{Arg: a(0), Value: ToPattern(e.Pat)}
	case ir.OpContains:
		return xast.NodeTypeContains{BinaryNode: bin(a(0), a(1))}
	case ir.OpContainsAll:
		return xast.NodeTypeContainsAll{BinaryNode: bin(a(0), a(1))}
	case ir.OpContainsAny:
		return xast.NodeTypeContainsAny{BinaryNode: bin(a(0), a(1))}
	case ir.OpIsEmpty:
		return xast.NodeTypeIsEmpty{UnaryNode: xast.UnaryNode{Arg: a(0)}}
	case ir.OpSet:
		es := make([]xast.IsNode, len(e.Args))
		for i := range e.Args {
			es[i] = a(i)
		}
		return xast.NodeTypeSet{Elements: es}
	case ir.OpRecord:
		es := make([]xast.RecordElementNode, len(e.Args))
		for i := range e.Args {
			es[i] = xast.RecordElementNode{Key: types.String(e.Keys[i]), Value: a(i)}
		}
		return xast.NodeTypeRecord{Elements: es}
	case ir.OpExt:
		es := make([]xast.IsNode, len(e.Args))
		for i := range e.Args {
			es[i] = a(i)
		}
		return xast.NodeTypeExtensionCall{Name: types.Path(e.Name), Args: es}
	}
	panic("conv.ToNode: bad op " + string(e.Op))
}

func toScopeP(s ir.Scope) xast.IsPrincipalScopeNode {
	switch s.Kind {
	case "eq":
		return xast.ScopeTypeEq{Entity: ToEntityUID(*s.Entity)}
	case "in":
		return xast.ScopeTypeIn{Entity: ToEntityUID(*s.Entity)}
	case "is":
		return xast.ScopeTypeIs{Type: types.EntityType(s.Type)}
	case "isin":
		return xast.ScopeTypeIsIn{Type: types.EntityType(s.Type), Entity: ToEntityUID(*s.Entity)}
	}
	return xast.ScopeTypeAll{}
}

func toScopeR(s ir.Scope) xast.IsResourceScopeNode {
	return toScopeP(s).(xast.IsResourceScopeNode)
}

func toScopeA(s ir.Scope) xast.IsActionScopeNode {
	switch s.Kind {
	case "eq":
		return xast.ScopeTypeEq{Entity: ToEntityUID(*s.Entity)}
	case "in":
		return xast.ScopeTypeIn{Entity: ToEntityUID(*s.Entity)}
	case "inset":
		es := make([]types.EntityUID, len(s.Entities))
		for i, e := range s.Entities {
			es[i] = ToEntityUID(e)
		}
		return xast.ScopeTypeInSet{Entities: es}
	}
	return xast.ScopeTypeAll{}
}

// ToXPolicy builds a fresh x/exp/ast policy.
func ToXPolicy(p *ir.Policy) *xast.Policy {
	out := &xast.Policy{
		Effect:    xast.Effect(p.Permit),
		Principal: toScopeP(p.Principal),
		Action:    toScopeA(p.Action),
		Resource:  toScopeR(p.Resource),
	}
	for _, a := range p.Annotations {
		out.Annotations = append(out.Annotations, xast.AnnotationType{Key: types.Ident(a.K), Value: types.String(a.V)})
	}
	for _, c := range p.Conds {
		out.Conditions = append(out.Conditions, xast.ConditionType{Condition: xast.Condition(c.When), Body: ToNode(c.Body)})
	}
	return out
}

func ToPubPolicy(p *ir.Policy) *pubast.Policy { return (*pubast.Policy)(ToXPolicy(p)) }

// ToPolicy builds a compiled cedar.Policy from IR through NewPolicyFromAST.
func ToPolicy(p *ir.Policy) *cedar.Policy { return cedar.NewPolicyFromAST(ToPubPolicy(p)) }

// ---------------------------------------------------------------------------------------------
// cedar-go -> IR

// ParseDecimalRaw parses the canonical -?d+.d{1,4} text into raw ten-thousandths (own code, big ints).
func ParseDecimalRaw(s string) (int64, error) {
	neg := strings.HasPrefix(s, "-")
	t := strings.TrimPrefix(s, "-")
	dot := strings.IndexByte(t, '.')
	if dot <= 0 || dot == len(t)-1 || len(t)-dot-1 > 4 {
		return 0, fmt.Errorf("bad decimal text %q", s)
	}
	ip, fp := t[:dot], t[dot+1:]
	for _, c := range ip + fp {
		if c < '0' || c > '9' {
			return 0, fmt.Errorf("bad decimal text %q", s)
		}
	}
	for len(fp) < 4 {
		fp += "0"
	}
	n, _ := new(big.Int).SetString(ip+fp, 10)
	if neg {
		n.Neg(n)
	}
	if !n.IsInt64() {
		return 0, fmt.Errorf("decimal text %q out of range", s)
	}
	return n.Int64(), nil
}

// FromValue converts a cedar-go value into IR. Set members come in iteration order,
// record fields in sorted key order.
func FromValue(v types.Value) (ir.Value, error) {
	switch t := v.(type) {
	case types.Boolean:
		return ir.Bool(bool(t)), nil
	case types.Long:
		return ir.Long(int64(t)), nil
	case types.String:
		return ir.Str(string(t)), nil
	case types.EntityUID:
		return ir.Ent(string(t.Type), string(t.ID)), nil
	case types.Decimal:
		raw, err := ParseDecimalRaw(t.String())
		if err != nil {
			return ir.Value{}, err
		}
		return ir.Decimal(raw), nil
	case types.Datetime:
		return ir.Datetime(t.Milliseconds()), nil
	case types.Duration:
		return ir.Duration(t.ToMilliseconds()), nil
	case types.IPAddr:
		p := t.Prefix()
		a := p.Addr()
		if a.Is4() {
			b := a.As4()
			return ir.IP(b[:], p.Bits()), nil
		}
		b := a.As16()
		return ir.IP(b[:], p.Bits()), nil
	case types.Set:
		out := ir.Value{K: ir.KSet}
		for m := range t.All() {
			x, err := FromValue(m)
			if err != nil {
				return ir.Value{}, err
			}
			out.Elems = append(out.Elems, x)
		}
		// canonical order (cedar-go iterates its hash map in random order)
		keys := make([]string, len(out.Elems))
		for i := range out.Elems {
			keys[i] = ir.JSON(out.Elems[i])
		}
		sort.Sort(&byKey{keys, out.Elems})
		return out, nil
	case types.Record:
		out := ir.Value{K: ir.KRecord}
		var keys []string
		for k := range t.Keys() {
			keys = append(keys, string(k))
		}
		sort.Strings(keys)
		for _, k := range keys {
			fv, _ := t.Get(types.String(k))
			x, err := FromValue(fv)
			if err != nil {
				return ir.Value{}, err
			}
			out.Fields = append(out.Fields, ir.F(k, x))
		}
		return out, nil
	case nil:
		return ir.Value{}, fmt.Errorf("nil value")
	}
	return ir.Value{}, fmt.Errorf("unknown value type %T", v)
}

type byKey struct {
	keys []string
	vals []ir.Value
}

func (b *byKey) Len() int           { return len(b.keys) }
func (b *byKey) Less(i, j int) bool { return b.keys[i] < b.keys[j] }
func (b *byKey) Swap(i, j int) {
	b.keys[i], b.keys[j] = b.keys[j], b.keys[i]
	b.vals[i], b.vals[j] = b.vals[j], b.vals[i]
}

func FromEntityUID(u types.EntityUID) ir.Value { return ir.Ent(string(u.Type), string(u.ID)) }

func FromPattern(p types.Pattern) ([]ir.PatElem, error) {
	b, err := p.MarshalJSON()
	if err != nil {
		return nil, err
	}
	var raw []any
	if err := json.Unmarshal(b, &raw); err != nil {
		return nil, fmt.Errorf("pattern JSON %s: %w", b, err)
	}
	var out []ir.PatElem
	for _, c := range raw {
		switch x := c.(type) {
		case string:
			out = append(out, ir.PatElem{Wild: true})
		case map[string]any:
			s, _ := x["Literal"].(string)
			out = append(out, ir.PatElem{Lit: s})
		default:
			return nil, fmt.Errorf("pattern component %v", c)
		}
	}
	return out, nil
}

// NormPattern merges adjacent literals, collapses adjacent wildcards and drops empty literals.
func NormPattern(p []ir.PatElem) []ir.PatElem {
	var out []ir.PatElem
	for _, c := range p {
		if c.Wild {
			if len(out) > 0 && out[len(out)-1].Wild {
				continue
			}
			out = append(out, c)
			continue
		}
		if c.Lit == "" {
			continue
		}
		if len(out) > 0 && !out[len(out)-1].Wild {
			out[len(out)-1].Lit += c.Lit
			continue
		}
		out = append(out, c)
	}
	return out
}

func FromNode(n xast.IsNode) (*ir.Expr, error) {
	var err error
	sub := func(x xast.IsNode) *ir.Expr {
		if err != nil {
			return nil
		}
		var e *ir.Expr
		e, err = FromNode(x)
		return e
	}
	b := func(op ir.Op, bn xast.BinaryNode) (*ir.Expr, error) {
		l, r := sub(bn.Left), sub(bn.Right)
		if err != nil {
			return nil, err
		}
		return ir.Bin(op, l, r), nil
	}
	u := func(op ir.Op, un xast.UnaryNode) (*ir.Expr, error) {
		a := sub(un.Arg)
		if err != nil {
			return nil, err
		}
		return ir.Un(op, a), nil
	}
	switch t := n.(type) {
	case nil:
		return nil, fmt.Errorf("nil node")
	case xast.NodeValue:
		v, e := FromValue(t.Value)
		if e != nil {
			return nil, e
		}
		return ir.Lit(v), nil
	case xast.NodeTypeVariable:
		return ir.Var(string(t.Name)), nil
	case xast.NodeTypeAnd:
		return b(ir.OpAnd, t.BinaryNode)
	case xast.NodeTypeOr:
		return b(ir.OpOr, t.BinaryNode)
	case xast.NodeTypeNot:
		return u(ir.OpNot, t.UnaryNode)
	case xast.NodeTypeNegate:
		return u(ir.OpNeg, t.UnaryNode)
	case xast.NodeTypeIfThenElse:
		c, th, el := sub(t.If), sub(t.Then), sub(t.Else)
		if err != nil {
			return nil, err
		}
		return ir.If(c, th, el), nil
	case xast.NodeTypeEquals:
		return b(ir.OpEq, t.BinaryNode)
	case xast.NodeTypeNotEquals:
		return b(ir.OpNe, t.BinaryNode)
	case xast.NodeTypeLessThan:
		return b(ir.OpLt, t.BinaryNode)
	case xast.NodeTypeLessThanOrEqual:
		return b(ir.OpLe, t.BinaryNode)
	case xast.NodeTypeGreaterThan:
		return b(ir.OpGt, t.BinaryNode)
	case xast.NodeTypeGreaterThanOrEqual:
		return b(ir.OpGe, t.BinaryNode)
	case xast.NodeTypeAdd:
		return b(ir.OpAdd, t.BinaryNode)
	case xast.NodeTypeSub:
		return b(ir.OpSub, t.BinaryNode)
	case xast.NodeTypeMult:
		return b(ir.OpMul, t.BinaryNode)
	case xast.NodeTypeIn:
		return b(ir.OpIn, t.BinaryNode)
	case xast.NodeTypeIs:
		a := sub(t.Left)
		if err != nil {
			return nil, err
		}
		return ir.Is(a, string(t.EntityType)), nil
	case xast.NodeTypeIsIn:
		a, c := sub(t.Left), sub(t.Entity)
		if err != nil {
			return nil, err
		}
		return ir.IsIn(a, string(t.EntityType), c), nil
	case xast.NodeTypeHas:
		a := sub(t.Arg)
		if err != nil {
			return nil, err
		}
		return ir.Has(a, string(t.Value)), nil
	case xast.NodeTypeAccess:
		a := sub(t.Arg)
		if err != nil {
			return nil, err
		}
		return ir.Access(a, string(t.Value)), nil
	case xast.NodeTypeHasTag:
		return b(ir.OpHasTag, t.BinaryNode)
	case xast.NodeTypeGetTag:
		return b(ir.OpGetTag, t.BinaryNode)
	case xast.NodeTypeLike:
		a := sub(t.Arg)
		if err != nil {
			return nil, err
		}
		p, e := FromPattern(t.Value)
		if e != nil {
			return nil, e
		}
		return ir.Like(a, p), nil
	case xast.NodeTypeContains:
		return b(ir.OpContains, t.BinaryNode)
	case xast.NodeTypeContainsAll:
		return b(ir.OpContainsAll, t.BinaryNode)
	case xast.NodeTypeContainsAny:
		return b(ir.OpContainsAny, t.BinaryNode)
	case xast.NodeTypeIsEmpty:
		return u(ir.OpIsEmpty, t.UnaryNode)
	case xast.NodeTypeSet:
		out := &ir.Expr{Op: ir.OpSet}
		for _, x := range t.Elements {
			out.Args = append(out.Args, sub(x))
		}
		return out, err
	case xast.NodeTypeRecord:
		out := &ir.Expr{Op: ir.OpRecord}
		for _, x := range t.Elements {
			out.Keys = append(out.Keys, string(x.Key))
			out.Args = append(out.Args, sub(x.Value))
		}
		return out, err
	case xast.NodeTypeExtensionCall:
		out := &ir.Expr{Op: ir.OpExt, Name: string(t.Name)}
		for _, x := range t.Args {
			out.Args = append(out.Args, sub(x))
		}
		return out, err
	}
	return nil, fmt.Errorf("unknown node type %T", n)
}

func fromScope(s xast.IsScopeNode) (ir.Scope, error) {
	switch t := s.(type) {
	case xast.ScopeTypeAll:
		return ir.ScopeAll(), nil
	case xast.ScopeTypeEq:
		return ir.ScopeEq(FromEntityUID(t.Entity)), nil
	case xast.ScopeTypeIn:
		return ir.ScopeIn(FromEntityUID(t.Entity)), nil
	case xast.ScopeTypeInSet:
		es := make([]ir.Value, len(t.Entities))
		for i, e := range t.Entities {
			es[i] = FromEntityUID(e)
		}
		return ir.ScopeInSet(es), nil
	case xast.ScopeTypeIs:
		return ir.ScopeIs(string(t.Type)), nil
	case xast.ScopeTypeIsIn:
		return ir.ScopeIsIn(string(t.Type), FromEntityUID(t.Entity)), nil
	}
	return ir.Scope{}, fmt.Errorf("unknown scope node %T", s)
}

func FromXPolicy(p *xast.Policy) (*ir.Policy, error) {
	out := &ir.Policy{Permit: bool(p.Effect)}
	var err error
	if out.Principal, err = fromScope(p.Principal); err != nil {
		return nil, err
	}
	if out.Action, err = fromScope(p.Action); err != nil {
		return nil, err
	}
	if out.Resource, err = fromScope(p.Resource); err != nil {
		return nil, err
	}
	for _, a := range p.Annotations {
		out.Annotations = append(out.Annotations, ir.Annotation{K: string(a.Key), V: string(a.Value)})
	}
	for _, c := range p.Conditions {
		b, err := FromNode(c.Body)
		if err != nil {
			return nil, err
		}
		out.Conds = append(out.Conds, ir.Cond{When: bool(c.Condition), Body: b})
	}
	return out, nil
}

func FromPolicy(p *cedar.Policy) (*ir.Policy, error) {
	return FromXPolicy((*xast.Policy)(p.AST()))
}

func FromEntity(e types.Entity) (ir.Entity, error) {
	out := ir.Entity{UID: FromEntityUID(e.UID)}
	var ps []ir.Value
	for p := range e.Parents.All() {
		ps = append(ps, FromEntityUID(p))
	}
	sort.Slice(ps, func(i, j int) bool {
		if ps[i].T != ps[j].T {
			return ps[i].T < ps[j].T
		}
		return ps[i].S < ps[j].S
	})
	out.Parents = ps
	a, err := FromValue(e.Attributes)
	if err != nil {
		return out, err
	}
	t, err := FromValue(e.Tags)
	if err != nil {
		return out, err
	}
	out.Attrs, out.Tags = a.Fields, t.Fields
	return out, nil
}

// EqualPolicy compares two IR policies structurally (set literals inside NodeValue by set equality,
// patterns after normalisation).
func EqualPolicy(a, b *ir.Policy) bool {
	if a.Permit != b.Permit || len(a.Annotations) != len(b.Annotations) || len(a.Conds) != len(b.Conds) {
		return false
	}
	for i := range a.Annotations {
		if a.Annotations[i] != b.Annotations[i] {
			return false
		}
	}
	if !EqualScope(a.Principal, b.Principal) || !EqualScope(a.Action, b.Action) || !EqualScope(a.Resource, b.Resource) {
		return false
	}
	for i := range a.Conds {
		if a.Conds[i].When != b.Conds[i].When || !EqualExpr(a.Conds[i].Body, b.Conds[i].Body) {
			return false
		}
	}
	return true
}

func EqualScope(a, b ir.Scope) bool {
	if a.Kind != b.Kind || a.Type != b.Type || (a.Entity == nil) != (b.Entity == nil) || len(a.Entities) != len(b.Entities) {
		return false
	}
	if a.Entity != nil && !ir.Equal(*a.Entity, *b.Entity) {
		return false
	}
	for i := range a.Entities {
		if !ir.Equal(a.Entities[i], b.Entities[i]) {
			return false
		}
	}
	return true
}

func EqualExpr(a, b *ir.Expr) bool {
	if a == nil || b == nil {
		return a == b
	}
	if a.Op != b.Op || a.Name != b.Name || len(a.Args) != len(b.Args) || len(a.Keys) != len(b.Keys) {
		return false
	}
	if a.Op == ir.OpLit && !ir.Equal(*a.Lit, *b.Lit) {
		return false
	}
	for i := range a.Keys {
		if a.Keys[i] != b.Keys[i] {
			return false
		}
	}
	if a.Op == ir.OpLike {
		pa, pb := NormPattern(a.Pat), NormPattern(b.Pat)
		if len(pa) != len(pb) {
			return false
		}
		for i := range pa {
			if pa[i] != pb[i] {
				return false
			}
		}
	}
	for i := range a.Args {
		if !EqualExpr(a.Args[i], b.Args[i]) {
			return false
		}
	}
	return true
}
