package conv

import (
	"fmt"

	cedar "github.com/cedar-policy/cedar-go"
	"github.com/cedar-policy/cedar-go/types"
	xast "github.com/cedar-policy/cedar-go/x/exp/ast"
	xeval "github.com/cedar-policy/cedar-go/x/exp/eval"
)

// EmptyEnv is an evaluation environment with no entities and an empty context.
func EmptyEnv() xeval.Env {
	u := types.NewEntityUID("Other", "o")
	return xeval.Env{Entities: types.EntityMap{}, Principal: u, Action: u, Resource: u, Context: types.Record{}}
}

// ParseExprText parses Cedar expression text by embedding it as the left operand of
// `when { <text> == context.k }` in an otherwise trivial policy, and returns the parsed node.
// (The text is not parenthesised, so that a negative integer literal stays a literal.)
func ParseExprText(text string) (xast.IsNode, error) {
	var p cedar.Policy
	if err := p.UnmarshalCedar([]byte("permit(principal,action,resource) when { " + text + " == context.k };")); err != nil {
		return nil, err
	}
	a := (*xast.Policy)(p.AST())
	if len(a.Conditions) != 1 {
		return nil, fmt.Errorf("parsed policy has %d conditions", len(a.Conditions))
	}
	eq, ok := a.Conditions[0].Body.(xast.NodeTypeEquals)
	if !ok {
		return nil, fmt.Errorf("parsed condition is %T, not ==", a.Conditions[0].Body)
	}
	if acc, ok := eq.Right.(xast.NodeTypeAccess); !ok || acc.Value != "k" {
		return nil, fmt.Errorf("right operand of parsed condition is %T", eq.Right)
	}
	return eq.Left, nil
}

// ParseValueText parses Cedar expression text that denotes a value (literal, set/record literal,
// extension constructor call) and evaluates it in the empty environment.
func ParseValueText(text string) (types.Value, error) {
	n, err := ParseExprText(text)
	if err != nil {
		return nil, fmt.Errorf("parse: %w", err)
	}
	v, err := xeval.Eval(n, EmptyEnv())
	if err != nil {
		return nil, fmt.Errorf("eval: %w", err)
	}
	return v, nil
}
