// Package pgen is the type-directed policy generator shared by the validator checks (C15 soundness, C16 totality).
package pgen

import (
	"strings"

	"pgregory.net/rapid"

	"verif/gen"
	"verif/ir"
	"verif/sch"
)

// Type-directed policy generator with slips (DESIGN.md appendix D). It knows the reference schema model and a target
// request environment, builds expressions that are well typed for that environment, tracks `has` / `hasTag` guards
// the way a correct validator would, and - at most twice per policy - slips: a sibling type, a dropped or misplaced
// guard (wrong variable, under `!`, in the else branch, on the other side of `||`, in a previous `when`), a tag /
// attribute look-alike guard (`__tag:k`, dotted-path alias), a dynamic tag key, an unknown function or a wrong
// arity, an `if` whose record branches disagree on an attribute's type.

type pguard struct {
	base *ir.Expr
	attr string
	tag  bool
}

func (g pguard) key() string {
	if g.tag {
		return g.base.String() + "\x00tag\x00" + g.attr
	}
	return g.base.String() + "\x00" + g.attr
}

func (g pguard) expr() *ir.Expr {
	if g.tag {
		return ir.Bin(ir.OpHasTag, g.base.Clone(), ir.Lit(ir.Str(g.attr)))
	}
	return ir.Has(g.base.Clone(), g.attr)
}

type ppath struct {
	e      *ir.Expr
	t      sch.RType
	guards []pguard
}

type pg struct {
	t          *rapid.T
	rs         *sch.RSchema
	env        sch.REnv
	slipsLeft  int
	slips      []string
	caps       map[string]bool
	paths      []ppath
	extAsCall  bool       // extension values only through constructor calls (never NodeValue literals)
	prevWhen   []*ir.Expr // guards moved to an earlier `when` by the prev-when slip
	prevUnless []*ir.Expr // guards moved to an earlier `unless`
	strictish  bool       // avoid constructs strict mode always rejects (empty set literals)
}

func (g *pg) slip(kind string) bool {
	if g.slipsLeft <= 0 || !sch.Rare(g.t, 20, "slip:"+kind) {
		return false
	}
	g.slipsLeft--
	g.slips = append(g.slips, kind)
	return true
}

func (g *pg) enumerate() {
	var expand func(p ppath, depth int)
	expand = func(p ppath, depth int) {
		g.paths = append(g.paths, p)
		if depth <= 0 {
			return
		}
		var attrs []sch.RAttr
		switch p.t.K {
		case ir.KRecord:
			attrs = p.t.Attrs
		case ir.KEntity:
			e := g.rs.Entity(p.t.Ent)
			if e == nil || e.IsEnum {
				return
			}
			attrs = e.Attrs
			if e.Tags != nil {
				for _, k := range sch.RTagKeys[:2] {
					gs := append(append([]pguard{}, p.guards...), pguard{base: p.e, attr: k, tag: true})
					expand(ppath{e: ir.Bin(ir.OpGetTag, p.e.Clone(), ir.Lit(ir.Str(k))), t: *e.Tags, guards: gs}, depth-2)
				}
			}
		default:
			return
		}
		for _, a := range attrs {
			gs := append([]pguard{}, p.guards...)
			if a.Opt {
				gs = append(gs, pguard{base: p.e, attr: a.Name})
			}
			expand(ppath{e: ir.Access(p.e.Clone(), a.Name), t: a.T, guards: gs}, depth-1)
		}
	}
	expand(ppath{e: ir.Var("principal"), t: sch.RType{K: ir.KEntity, Ent: g.env.P}}, 3)
	expand(ppath{e: ir.Var("resource"), t: sch.RType{K: ir.KEntity, Ent: g.env.R}}, 3)
	expand(ppath{e: ir.Var("context"), t: sch.RType{K: ir.KRecord, Attrs: g.env.Ctx}}, 3)
}

func (g *pg) pathsOf(pred func(ppath) bool) []int {
	var out []int
	for i, p := range g.paths {
		if pred(p) {
			out = append(out, i)
		}
	}
	return out
}

func (g *pg) missing(p ppath) []pguard {
	var out []pguard
	for _, gd := range p.guards {
		if !g.caps[gd.key()] {
			out = append(out, gd)
		}
	}
	return out
}

func conj(es []*ir.Expr) *ir.Expr {
	out := es[len(es)-1]
	for i := len(es) - 2; i >= 0; i-- {
		out = ir.Bin(ir.OpAnd, es[i], out)
	}
	return out
}

// ---------------------------------------------------------------------------------------------
// Literals

func (g *pg) ids(et string) []string {
	if e := g.rs.Entity(et); e != nil && e.IsEnum {
		return e.Enum
	}
	return sch.RIDs
}

func (g *pg) lit(t sch.RType) *ir.Expr {
	rt := g.t
	switch t.K {
	case ir.KBool:
		return ir.Lit(ir.Bool(rapid.Bool().Draw(rt, "lbool")))
	case ir.KLong:
		if gen.Chance(rt, 70, "lsmall") {
			return ir.Lit(ir.Long(int64(rapid.IntRange(-3, 3).Draw(rt, "llong"))))
		}
		return ir.Lit(ir.Long(gen.LongVal(rt)))
	case ir.KString:
		return ir.Lit(ir.Str(gen.Pick(rt, []string{"", "a", "k", "b", "x", "ab"}, "lstr")))
	case ir.KEntity:
		return ir.Lit(ir.Ent(t.Ent, gen.Pick(rt, g.ids(t.Ent), "lid")))
	case ir.KSet:
		lo := 0
		if g.strictish {
			lo = 1
		}
		n := rapid.IntRange(lo, 2).Draw(rt, "lsetn")
		es := make([]*ir.Expr, n)
		for i := range es {
			es[i] = g.lit(*t.Elem)
		}
		return ir.SetE(es...)
	case ir.KRecord:
		var ks []string
		var es []*ir.Expr
		for _, a := range t.Attrs {
			if a.Opt && gen.Chance(rt, 40, "lrecopt") {
				continue
			}
			ks = append(ks, a.Name)
			es = append(es, g.lit(a.T))
		}
		return ir.RecE(ks, es)
	}
	v := gen.ValueOfKind(rt, t.K, 0, gen.DefaultValOpts)
	if g.extAsCall || gen.Chance(rt, 70, "lctor") {
		fn, arg := gen.CtorText(v)
		return ir.Ext(fn, ir.Lit(ir.Str(arg)))
	}
	return ir.Lit(v)
}

func sibling(rt *rapid.T, rs *sch.RSchema, t sch.RType) sch.RType {
	scalars := []ir.Kind{ir.KLong, ir.KDatetime, ir.KDuration, ir.KDecimal, ir.KString, ir.KBool, ir.KIP}
	switch t.K {
	case ir.KEntity:
		var others []string
		for _, e := range rs.Entities {
			if e.Name != t.Ent {
				others = append(others, e.Name)
			}
		}
		if len(others) > 0 {
			return sch.RType{K: ir.KEntity, Ent: gen.Pick(rt, others, "sibent")}
		}
		return sch.RType{K: ir.KString}
	case ir.KSet:
		return *t.Elem
	case ir.KRecord:
		return sch.RType{K: ir.KLong}
	}
	if gen.Chance(rt, 25, "sibset") {
		return sch.RType{K: ir.KSet, Elem: &t}
	}
	for {
		k := gen.Pick(rt, scalars, "sibk")
		if k != t.K {
			return sch.RType{K: k}
		}
	}
}

// ---------------------------------------------------------------------------------------------
// Expressions of a given type

func (g *pg) of(t sch.RType, d int) *ir.Expr {
	rt := g.t
	if g.slip("sibling-type") {
		t = sibling(rt, g.rs, t)
	}
	cands := g.pathsOf(func(p ppath) bool { return sch.REqual(p.t, t) })
	choice := rapid.IntRange(0, 9).Draw(rt, "ofchoice")
	if len(cands) > 0 && choice <= 4 {
		p := g.paths[gen.Pick(rt, cands, "ofpath")]
		miss := g.missing(p)
		if len(miss) == 0 {
			return p.e.Clone()
		}
		if g.slip("drop-guard") {
			return p.e.Clone()
		}
		var gs []*ir.Expr
		for _, m := range miss {
			gs = append(gs, m.expr())
		}
		if g.slip("guard-in-else") {
			return ir.If(conj(gs), g.lit(t), p.e.Clone())
		}
		return ir.If(conj(gs), p.e.Clone(), g.lit(t))
	}
	if d > 0 && choice == 5 {
		return ir.If(g.boolE(d-1), g.of(t, d-1), g.of(t, d-1))
	}
	if d > 0 && choice == 9 {
		// attribute access on the least upper bound of two entity types: (if c then e1 else e2).a where both types
		// declare a required attribute a of type t (permissive mode types the `if` as the union of the two types)
		type cand struct{ e1, e2, attr string }
		var cs, slipCs []cand
		for _, x := range g.rs.Entities {
			for _, ax := range x.Attrs {
				if ax.Opt || !sch.REqual(ax.T, t) {
					continue
				}
				for _, y := range g.rs.Entities {
					for _, ay := range y.Attrs {
						if ay.Name != ax.Name {
							continue
						}
						if ay.Opt && sch.REqual(ay.T, t) && x.Name != y.Name && g.slip("lub-attribute-optional-on-one-side") {
							// required on one member of the union, optional on the other, read without a guard
							slipCs = append(slipCs, cand{x.Name, y.Name, ax.Name})
							continue
						}
						if !ay.Opt && (sch.REqual(ay.T, t) || g.slip("lub-attribute-type-differs")) {
							cs = append(cs, cand{x.Name, y.Name, ax.Name})
						}
					}
				}
			}
		}
		if len(slipCs) > 0 {
			cs = slipCs
		}
		if len(cs) > 0 {
			c := gen.Pick(rt, cs, "lubcand")
			e1 := g.of(sch.RType{K: ir.KEntity, Ent: c.e1}, d-1)
			e2 := g.of(sch.RType{K: ir.KEntity, Ent: c.e2}, d-1)
			return ir.Access(ir.If(g.boolE(d-1), e1, e2), c.attr)
		}
	}
	if d > 0 && choice >= 6 && choice <= 8 {
		switch t.K {
		case ir.KLong:
			switch rapid.IntRange(0, 3).Draw(rt, "longop") {
			case 0:
				return ir.Bin(gen.Pick(rt, []ir.Op{ir.OpAdd, ir.OpSub, ir.OpMul}, "arith"), g.of(t, d-1), g.of(t, d-1))
			case 1:
				return ir.Un(ir.OpNeg, g.of(t, d-1))
			case 2:
				return g.call(gen.Pick(rt, []string{"toMilliseconds", "toSeconds", "toMinutes", "toHours", "toDays"}, "durfn"), g.of(sch.RType{K: ir.KDuration}, d-1))
			}
		case ir.KDatetime:
			if gen.Chance(rt, 50, "dtop") {
				return g.call("offset", g.of(t, d-1), g.of(sch.RType{K: ir.KDuration}, d-1))
			}
			return g.call("toDate", g.of(t, d-1))
		case ir.KDuration:
			if gen.Chance(rt, 50, "duop") {
				return g.call("durationSince", g.of(sch.RType{K: ir.KDatetime}, d-1), g.of(sch.RType{K: ir.KDatetime}, d-1))
			}
			return g.call("toTime", g.of(sch.RType{K: ir.KDatetime}, d-1))
		case ir.KSet:
			n := rapid.IntRange(1, 2).Draw(rt, "setlitn")
			es := make([]*ir.Expr, n)
			for i := range es {
				es[i] = g.of(*t.Elem, d-1)
			}
			return ir.SetE(es...)
		case ir.KRecord:
			var ks []string
			var es []*ir.Expr
			for _, a := range t.Attrs {
				if a.Opt && gen.Chance(rt, 40, "recopt") {
					continue
				}
				ks = append(ks, a.Name)
				es = append(es, g.of(a.T, d-1))
			}
			return ir.RecE(ks, es)
		case ir.KBool:
			return g.boolE(d - 1)
		}
	}
	return g.lit(t)
}

func (g *pg) call(name string, args ...*ir.Expr) *ir.Expr {
	if g.slip("bad-function") {
		switch rapid.IntRange(0, 3).Draw(g.t, "badfn") {
		case 0:
			return ir.Ext("nosuchfn")
		case 1:
			return ir.Ext("nosuchfn", args...)
		case 2:
			return ir.Ext(name, args[:len(args)-1]...)
		default:
			return ir.Ext(name, append(args, ir.Lit(ir.Long(1)))...)
		}
	}
	return ir.Ext(name, args...)
}

func (g *pg) anyType(d int) sch.RType {
	rt := g.t
	if len(g.paths) > 0 && gen.Chance(rt, 60, "typefrompath") {
		return g.paths[rapid.IntRange(0, len(g.paths)-1).Draw(rt, "tp")].t
	}
	k := gen.Pick(rt, []ir.Kind{ir.KLong, ir.KString, ir.KBool, ir.KEntity, ir.KDecimal, ir.KIP, ir.KDatetime, ir.KDuration}, "anyk")
	t := sch.RType{K: k}
	if k == ir.KEntity {
		t.Ent = gen.Pick(rt, g.entityNames(), "anyent")
	}
	if d > 0 && gen.Chance(rt, 20, "anyset") {
		return sch.RType{K: ir.KSet, Elem: &t}
	}
	return t
}

func (g *pg) entityNames() []string {
	var out []string
	for _, e := range g.rs.Entities {
		out = append(out, e.Name)
	}
	return out
}

func (g *pg) entityType() sch.RType {
	return sch.RType{K: ir.KEntity, Ent: gen.Pick(g.t, g.entityNames(), "etype")}
}

// use builds a Boolean expression that consumes the value v of type t.
func (g *pg) use(v *ir.Expr, t sch.RType, d int) *ir.Expr {
	rt := g.t
	switch t.K {
	case ir.KBool:
		return v
	case ir.KLong, ir.KDatetime, ir.KDuration:
		if t.K == ir.KDuration && gen.Chance(rt, 30, "usedur") {
			return ir.Bin(ir.OpGt, g.call("toDays", v), ir.Lit(ir.Long(0)))
		}
		return ir.Bin(gen.Pick(rt, []ir.Op{ir.OpLt, ir.OpLe, ir.OpGt, ir.OpGe, ir.OpEq}, "usecmp"), v, g.of(t, d-1))
	case ir.KString:
		if gen.Chance(rt, 50, "uselike") {
			return ir.Like(v, gen.GenPattern(rt))
		}
		return ir.Bin(ir.OpEq, v, g.of(t, d-1))
	case ir.KEntity:
		switch rapid.IntRange(0, 3).Draw(rt, "useent") {
		case 0:
			return ir.Bin(ir.OpEq, v, g.of(t, d-1))
		case 1:
			return ir.Bin(ir.OpIn, v, g.of(g.entityType(), d-1))
		case 2:
			return ir.Is(v, gen.Pick(rt, g.entityNames(), "useis"))
		}
		return ir.Has(v, gen.Pick(rt, sch.RAttrKeys, "usehas"))
	case ir.KSet:
		if gen.Chance(rt, 30, "useempty") {
			return ir.Un(ir.OpIsEmpty, v)
		}
		if gen.Chance(rt, 50, "usecontains") {
			return ir.Bin(ir.OpContains, v, g.of(*t.Elem, d-1))
		}
		return ir.Bin(gen.Pick(rt, []ir.Op{ir.OpContainsAll, ir.OpContainsAny}, "useall"), v, g.of(t, d-1))
	case ir.KRecord:
		if len(t.Attrs) > 0 {
			a := gen.Pick(rt, t.Attrs, "userecattr")
			if !a.Opt {
				return g.use(ir.Access(v, a.Name), a.T, d-1)
			}
			return ir.Has(v, a.Name)
		}
		return ir.Has(v, gen.Pick(rt, sch.RAttrKeys, "userechas"))
	case ir.KDecimal:
		return g.call(gen.Pick(rt, []string{"lessThan", "lessThanOrEqual", "greaterThan", "greaterThanOrEqual"}, "usedec"), v, g.of(t, d-1))
	case ir.KIP:
		if gen.Chance(rt, 30, "userange") {
			return g.call("isInRange", v, g.of(t, d-1))
		}
		return g.call(gen.Pick(rt, []string{"isIpv4", "isIpv6", "isLoopback", "isMulticast"}, "useip"), v)
	}
	return ir.Bin(ir.OpEq, v, v.Clone())
}

// swapRoot replaces the root variable principal <-> resource.
func swapRoot(e *ir.Expr) *ir.Expr {
	out := e.Clone()
	out.Walk(func(x *ir.Expr) {
		if x.Op == ir.OpVar {
			switch x.Name {
			case "principal":
				x.Name = "resource"
			case "resource":
				x.Name = "principal"
			}
		}
	})
	return out
}

// Dotted is the validator's identity of an access chain rooted in a variable ("" if e is not such a chain).
func Dotted(e *ir.Expr) (string, []string) {
	switch e.Op {
	case ir.OpVar:
		return e.Name, []string{e.Name}
	case ir.OpAccess:
		d, parts := Dotted(e.Args[0])
		if d == "" {
			return "", nil
		}
		return d + "." + e.Name, append(append([]string{}, parts...), e.Name)
	}
	return "", nil
}

func dotted(e *ir.Expr) (string, []string) { return Dotted(e) }

// alias finds another access chain with the same dotted rendering as base (e.g. principal["a.b"] for principal.a.b).
func (g *pg) alias(base *ir.Expr) *ir.Expr {
	d, parts := dotted(base)
	if d == "" {
		return nil
	}
	for _, p := range g.paths {
		d2, parts2 := dotted(p.e)
		if d2 == d && strings.Join(parts, "\x00") != strings.Join(parts2, "\x00") {
			return p.e.Clone()
		}
	}
	return nil
}

// guarded uses a path that needs guards, placing them correctly - or not (slips).
func (g *pg) guarded(d int) *ir.Expr {
	rt := g.t
	cands := g.pathsOf(func(p ppath) bool { return len(g.missing(p)) > 0 })
	if len(cands) == 0 {
		return g.boolLeaf()
	}
	p := g.paths[gen.Pick(rt, cands, "gpath")]
	miss := g.missing(p)
	for _, m := range miss {
		g.caps[m.key()] = true
	}
	body := g.use(p.e.Clone(), p.t, d)
	for _, m := range miss {
		delete(g.caps, m.key())
	}
	gs := make([]*ir.Expr, len(miss))
	for i, m := range miss {
		gs[i] = m.expr()
	}
	last := miss[len(miss)-1]
	switch {
	case g.slip("drop-guard"):
		gs = gs[:len(gs)-1]
		if len(gs) == 0 {
			return body
		}
	case g.slip("guard-wrong-variable"):
		gs[len(gs)-1] = swapRoot(gs[len(gs)-1])
	case g.slip("guard-under-not"):
		gs[len(gs)-1] = ir.Un(ir.OpNot, gs[len(gs)-1])
	case g.slip("guard-in-else"):
		return ir.If(conj(gs), ir.Lit(ir.Bool(false)), body)
	case g.slip("guard-across-or"):
		return ir.Bin(ir.OpOr, conj(gs), body)
	case g.slip("guard-in-disjunction"):
		// (guard || something) && body: the guard holds on one side of the disjunction only
		other := g.boolE(d - 1)
		if gen.Chance(rt, 50, "disjside") {
			return ir.Bin(ir.OpAnd, ir.Bin(ir.OpOr, conj(gs), other), body)
		}
		return ir.Bin(ir.OpAnd, ir.Bin(ir.OpOr, other, conj(gs)), body)
	case g.slip("guard-in-dead-branch"):
		// the guard sits in a part of the expression that can never be the reason the whole is true: a disjunct that is
		// statically false, the untaken branch of an `if` with a constant condition
		other := g.boolLeaf()
		dead := ir.Bin(ir.OpAnd, conj(gs), ir.Lit(ir.Bool(false)))
		switch rapid.IntRange(0, 4).Draw(rt, "deadform") {
		case 0:
			return ir.Bin(ir.OpAnd, ir.Bin(ir.OpOr, other, dead), body)
		case 1:
			return ir.Bin(ir.OpAnd, ir.Bin(ir.OpOr, dead, other), body)
		case 2:
			return ir.Bin(ir.OpAnd, ir.If(ir.Lit(ir.Bool(false)), conj(gs), other), body)
		case 3:
			return ir.Bin(ir.OpAnd, ir.If(ir.Lit(ir.Bool(true)), other, conj(gs)), body)
		default:
			return ir.Bin(ir.OpAnd, ir.Bin(ir.OpOr, other, ir.Bin(ir.OpAnd, ir.Lit(ir.Bool(false)), conj(gs))), body)
		}
	case g.slip("guard-in-previous-when"):
		g.prevWhen = append(g.prevWhen, conj(gs))
		return body
	case g.slip("guard-in-previous-unless"):
		// `unless { guard } when { body }`: the later clause runs exactly when the guard was false
		g.prevUnless = append(g.prevUnless, conj(gs))
		return body
	case g.slip("tag-attribute-lookalike"):
		if last.tag {
			gs[len(gs)-1] = ir.Has(last.base.Clone(), "__tag:"+last.attr)
		} else if strings.HasPrefix(last.attr, "__tag:") {
			gs[len(gs)-1] = ir.Bin(ir.OpHasTag, last.base.Clone(), ir.Lit(ir.Str(strings.TrimPrefix(last.attr, "__tag:"))))
		}
	case g.slip("dotted-path-alias"):
		if a := g.alias(last.base); a != nil {
			if last.tag {
				gs[len(gs)-1] = ir.Bin(ir.OpHasTag, a, ir.Lit(ir.Str(last.attr)))
			} else {
				gs[len(gs)-1] = ir.Has(a, last.attr)
			}
		}
	case last.tag && g.slip("dynamic-tag-key"):
		if ks := g.pathsOf(func(q ppath) bool { return q.t.K == ir.KString && len(g.missing(q)) == 0 }); len(ks) > 0 {
			k := g.paths[gen.Pick(rt, ks, "dynkey")].e
			return ir.Bin(ir.OpAnd, ir.Bin(ir.OpHasTag, last.base.Clone(), k.Clone()),
				g.use(ir.Bin(ir.OpGetTag, last.base.Clone(), k.Clone()), p.t, d))
		}
	}
	return conj(append(gs, body))
}

func (g *pg) boolLeaf() *ir.Expr {
	rt := g.t
	switch rapid.IntRange(0, 4).Draw(rt, "boolleaf") {
	case 0:
		return ir.Lit(ir.Bool(rapid.Bool().Draw(rt, "blit")))
	case 1:
		v := gen.Pick(rt, []string{"principal", "resource"}, "isvar")
		return ir.Is(ir.Var(v), gen.Pick(rt, g.entityNames(), "istype"))
	case 2:
		if as := g.rs.Actions; len(as) > 0 {
			a := gen.Pick(rt, as, "actlit")
			return ir.Bin(gen.Pick(rt, []ir.Op{ir.OpEq, ir.OpIn}, "actop"), ir.Var("action"), ir.Lit(a.UID()))
		}
	case 3:
		ps := g.pathsOf(func(p ppath) bool { return (p.t.K == ir.KEntity || p.t.K == ir.KRecord) && len(g.missing(p)) == 0 })
		if len(ps) > 0 {
			p := g.paths[gen.Pick(rt, ps, "hasbase")]
			return ir.Has(p.e.Clone(), gen.Pick(rt, sch.RAttrKeys, "haskey"))
		}
	}
	return g.of(sch.RType{K: ir.KBool}, 0)
}

func (g *pg) boolE(d int) *ir.Expr {
	rt := g.t
	if d <= 0 {
		return g.boolLeaf()
	}
	switch rapid.IntRange(0, 17).Draw(rt, "boolprod") {
	case 17:
		// `(if c then A::"x" else B::"y").hasTag("k") && <ill-typed>` where only one of A, B declares tags: the tag test can
		// be true (when the union turns out to be the tagged member), so the right operand has to be checked. A validator
		// that types hasTag False as soon as *one* member of the union has no tags skips it and accepts.
		if g.slip("tag-guard-on-entity-union-before-ill-typed") {
			var tagged, untagged []string
			for _, n := range g.entityNames() {
				if e := g.rs.Entity(n); e != nil && e.Tags != nil {
					tagged = append(tagged, n)
				} else if e != nil {
					untagged = append(untagged, n)
				}
			}
			if len(tagged) > 0 && len(untagged) > 0 {
				a, b := gen.Pick(rt, tagged, "tagunion-a"), gen.Pick(rt, untagged, "tagunion-b")
				la := ir.Lit(ir.Ent(a, gen.Pick(rt, g.ids(a), "tagunion-ida")))
				lb := ir.Lit(ir.Ent(b, gen.Pick(rt, g.ids(b), "tagunion-idb")))
				union := ir.If(g.boolLeaf(), la, lb)
				if gen.Chance(rt, 50, "tagunion-swap") {
					union = ir.If(g.boolLeaf(), lb, la)
				}
				guard := ir.Bin(ir.OpHasTag, union, ir.Lit(ir.Str(gen.Pick(rt, sch.RTagKeys, "tagunion-k"))))
				bad := gen.Pick(rt, []*ir.Expr{
					ir.Bin(ir.OpLt, ir.Lit(ir.Long(1)), ir.Lit(ir.Str("a"))),
					ir.Bin(ir.OpEq, ir.Bin(ir.OpAdd, ir.Lit(ir.Long(1)), ir.Lit(ir.Bool(true))), ir.Lit(ir.Long(2))),
					ir.Un(ir.OpNot, ir.Lit(ir.Long(1))),
				}, "tagunion-bad")
				return ir.Bin(ir.OpAnd, guard, bad)
			}
		}
		return g.guarded(d)
	case 16:
		// a collection literal whose elements have no common type, one of them a union of entity types and another a
		// member of that union (the error report has to order and name all of them), in every element order
		if g.slip("collection-of-incompatible-elements") {
			names := g.entityNames()
			if len(names) >= 2 {
				perm := rapid.Permutation(names).Draw(rt, "incperm")
				a := ir.Lit(ir.Ent(perm[0], gen.Pick(rt, g.ids(perm[0]), "incid")))
				b := ir.Lit(ir.Ent(perm[1], gen.Pick(rt, g.ids(perm[1]), "incid")))
				union := ir.If(g.boolLeaf(), a, b)
				if gen.Chance(rt, 50, "incswap") {
					union = ir.If(g.boolLeaf(), b.Clone(), a.Clone())
				}
				odd := gen.Pick(rt, []*ir.Expr{ir.Lit(ir.Long(1)), ir.Lit(ir.Str("s")), ir.Lit(ir.Bool(true)), ir.RecE([]string{"a"}, []*ir.Expr{ir.Lit(ir.Long(1))}), ir.SetE(ir.Lit(ir.Long(1)))}, "incodd")
				elems := []*ir.Expr{union, gen.Pick(rt, []*ir.Expr{a, b}, "incmember").Clone(), odd}
				if gen.Chance(rt, 40, "incfour") {
					elems = append(elems, gen.Pick(rt, []*ir.Expr{a, b}, "incmember2").Clone())
				}
				order := rapid.Permutation(elems).Draw(rt, "incorder")
				switch rapid.IntRange(0, 2).Draw(rt, "incuse") {
				case 0:
					return ir.Un(ir.OpIsEmpty, ir.SetE(order...))
				case 1:
					return ir.Bin(ir.OpContains, ir.SetE(order...), a.Clone())
				default:
					return ir.Bin(ir.OpEq, ir.SetE(order...), ir.SetE(order[:2]...))
				}
			}
		}
		return g.guarded(d)
	case 0:
		// plain conjunction; guards that must flow from left to right are built by guarded()
		return ir.Bin(ir.OpAnd, g.boolE(d-1), g.boolE(d-1))
	case 1:
		return ir.Bin(ir.OpOr, g.boolE(d-1), g.boolE(d-1))
	case 2:
		return ir.Un(ir.OpNot, g.boolE(d-1))
	case 3:
		return ir.If(g.boolE(d-1), g.boolE(d-1), g.boolE(d-1))
	case 4, 5:
		t := g.anyType(d)
		return g.use(g.of(t, d-1), t, d)
	case 6:
		t := sch.RType{K: gen.Pick(rt, []ir.Kind{ir.KLong, ir.KLong, ir.KDatetime, ir.KDuration}, "cmpk")}
		return ir.Bin(gen.Pick(rt, []ir.Op{ir.OpLt, ir.OpLe, ir.OpGt, ir.OpGe}, "cmpop"), g.of(t, d-1), g.of(t, d-1))
	case 7:
		t := g.anyType(d)
		return ir.Bin(gen.Pick(rt, []ir.Op{ir.OpEq, ir.OpNe}, "eqop"), g.of(t, d-1), g.of(t, d-1))
	case 8:
		l := g.of(g.entityType(), d-1)
		rt2 := g.entityType()
		if gen.Chance(rt, 40, "inset") {
			return ir.Bin(ir.OpIn, l, g.of(sch.RType{K: ir.KSet, Elem: &rt2}, d-1))
		}
		return ir.Bin(ir.OpIn, l, g.of(rt2, d-1))
	case 9:
		et := g.entityType()
		if gen.Chance(rt, 50, "isin") {
			return ir.IsIn(g.of(et, d-1), gen.Pick(rt, g.entityNames(), "isint"), g.of(g.entityType(), d-1))
		}
		return ir.Is(g.of(et, d-1), gen.Pick(rt, g.entityNames(), "ist"))
	case 10:
		// record-typed `if` whose branches disagree on one attribute's type, then `has` / `.` on the result
		if g.slip("record-branches-disagree") {
			k := gen.Pick(rt, []string{"a", "b"}, "disk")
			rec := ir.If(g.boolE(d-1), ir.RecE([]string{k}, []*ir.Expr{ir.Lit(ir.Long(1))}), ir.RecE([]string{k}, []*ir.Expr{ir.Lit(ir.Str("s"))}))
			if gen.Chance(rt, 50, "disuse") {
				return ir.Bin(ir.OpAnd, ir.Has(rec, k), g.boolE(d-1))
			}
			return ir.Bin(ir.OpEq, ir.Access(rec, k), ir.Lit(ir.Long(1)))
		}
		return g.guarded(d)
	case 11:
		ps := g.pathsOf(func(p ppath) bool { return p.t.K == ir.KEntity && len(g.missing(p)) == 0 })
		if len(ps) > 0 {
			p := g.paths[gen.Pick(rt, ps, "tagbase")]
			return ir.Bin(ir.OpHasTag, p.e.Clone(), ir.Lit(ir.Str(gen.Pick(rt, sch.RTagKeys, "tagk"))))
		}
		return g.boolLeaf()
	case 12:
		// `v in Ancestor::"id" && <ill-typed>`: a correct validator types the guard as Bool and rejects the right operand; one
		// that wrongly concludes "v can never be in that type" (e.g. follows only some of the parent types) types the guard
		// False, skips the right operand and accepts a policy that fails when the guard is true.
		if g.slip("ancestor-guard-before-ill-typed") {
			vname, vt := "principal", g.env.P
			if gen.Chance(rt, 50, "ancres") {
				vname, vt = "resource", g.env.R
			}
			seen := map[string]bool{}
			var anc []string
			var walk func(n string)
			walk = func(n string) {
				e := g.rs.Entity(n)
				if e == nil {
					return
				}
				for _, p := range e.Parents {
					if !seen[p] {
						seen[p] = true
						anc = append(anc, p)
						walk(p)
					}
				}
			}
			walk(vt)
			if len(anc) > 0 {
				a := gen.Pick(rt, anc, "ancty")
				target := ir.Lit(ir.Ent(a, gen.Pick(rt, g.ids(a), "ancid")))
				guard := ir.Bin(ir.OpIn, ir.Var(vname), target)
				if gen.Chance(rt, 30, "ancset") {
					guard = ir.Bin(ir.OpIn, ir.Var(vname), ir.SetE(target))
				}
				bad := gen.Pick(rt, []*ir.Expr{
					ir.Bin(ir.OpLt, ir.Lit(ir.Long(1)), ir.Lit(ir.Str("a"))),
					ir.Bin(ir.OpEq, ir.Bin(ir.OpAdd, ir.Lit(ir.Long(1)), ir.Lit(ir.Bool(true))), ir.Lit(ir.Long(2))),
					ir.Un(ir.OpNot, ir.Lit(ir.Long(1))),
				}, "ancbad")
				return ir.Bin(ir.OpAnd, guard, bad)
			}
		}
		return g.guarded(d)
	case 13:
		// a `has` guard that only one branch of an if-then-else establishes, used as if both did:
		// `(if c then x has a else <other guard or true>) && x.a ...` - the capabilities of an `if` are the intersection
		// of its branches, a validator that takes the union accepts an unguarded optional access
		if g.slip("guard-in-one-if-branch") {
			ps := g.pathsOf(func(p ppath) bool { return len(g.missing(p)) == 1 && p.t.K != ir.KRecord })
			if len(ps) > 0 {
				p1 := g.paths[gen.Pick(rt, ps, "ifg1")]
				other := ir.Lit(ir.Bool(true))
				if len(ps) > 1 && gen.Chance(rt, 60, "ifg2") {
					p2 := g.paths[gen.Pick(rt, ps, "ifg2i")]
					if g.missing(p2)[0].key() != g.missing(p1)[0].key() {
						other = g.missing(p2)[0].expr()
					}
				}
				guard := ir.If(g.boolLeaf(), g.missing(p1)[0].expr(), other)
				if gen.Chance(rt, 50, "ifgswap") {
					guard = ir.If(g.boolLeaf(), other, g.missing(p1)[0].expr())
				}
				return ir.Bin(ir.OpAnd, guard, g.use(p1.e.Clone(), p1.t, 0))
			}
		}
		return g.guarded(d)
	case 14:
		// an attribute that only one branch of a record-typed `if` has, read without a guard
		if g.slip("record-branches-different-width") {
			narrow := ir.RecE([]string{"a"}, []*ir.Expr{ir.Lit(ir.Long(1))})
			wide := ir.RecE([]string{"a", "b"}, []*ir.Expr{ir.Lit(ir.Long(2)), ir.Lit(ir.Long(3))})
			rec := ir.If(g.boolLeaf(), narrow, wide)
			if gen.Chance(rt, 50, "widthswap") {
				rec = ir.If(g.boolLeaf(), wide, narrow)
			}
			return ir.Bin(ir.OpEq, ir.Access(rec, "b"), ir.Lit(ir.Long(3)))
		}
		return g.guarded(d)
	case 15:
		// `(if c then A::"x" else B::"y") == B::"y" && <ill-typed>`: the left operand has a union of entity types (typable in
		// permissive mode only), the comparison can be true, so the right operand has to be checked. A validator that finds
		// the union disjoint from one of its own members types the guard False, skips the right operand and accepts.
		if g.slip("entity-union-guard-before-ill-typed") {
			names := g.entityNames()
			if len(names) >= 2 {
				perm := rapid.Permutation(names).Draw(rt, "unionperm")
				k := 2
				if len(perm) >= 3 && gen.Chance(rt, 50, "union3") {
					k = 3
				}
				lits := make([]*ir.Expr, k)
				for i := 0; i < k; i++ {
					lits[i] = ir.Lit(ir.Ent(perm[i], gen.Pick(rt, g.ids(perm[i]), "unionid")))
				}
				union := ir.If(g.boolLeaf(), lits[0], lits[1])
				if k == 3 {
					union = ir.If(g.boolLeaf(), union, lits[2])
					if gen.Chance(rt, 50, "unionnest") {
						union = ir.If(g.boolLeaf(), lits[2], ir.If(g.boolLeaf(), lits[0], lits[1]))
					}
				}
				member := lits[rapid.IntRange(0, k-1).Draw(rt, "unionmember")].Clone()
				var guard *ir.Expr
				switch rapid.IntRange(0, 3).Draw(rt, "unionform") {
				case 0:
					guard = ir.Bin(ir.OpEq, union, member)
				case 1:
					guard = ir.Bin(ir.OpEq, member, union)
				case 2:
					guard = ir.Un(ir.OpNot, ir.Bin(ir.OpNe, union, member))
				default:
					guard = ir.Bin(ir.OpContains, ir.SetE(union), member)
				}
				bad := gen.Pick(rt, []*ir.Expr{
					ir.Bin(ir.OpLt, ir.Lit(ir.Long(1)), ir.Lit(ir.Str("a"))),
					ir.Bin(ir.OpEq, ir.Bin(ir.OpAdd, ir.Lit(ir.Long(1)), ir.Lit(ir.Bool(true))), ir.Lit(ir.Long(2))),
					ir.Un(ir.OpNot, ir.Lit(ir.Long(1))),
				}, "unionbad")
				return ir.Bin(ir.OpAnd, guard, bad)
			}
		}
		return g.guarded(d)
	default:
		return g.guarded(d)
	}
}

// ---------------------------------------------------------------------------------------------
// Policies

func (g *pg) scopes(p *ir.Policy) {
	rt := g.t
	ent := func(et string) ir.Value { return ir.Ent(et, gen.Pick(rt, g.ids(et), "scopeid")) }
	switch rapid.IntRange(0, 4).Draw(rt, "pscope") {
	case 0:
	case 1, 2:
		p.Principal = ir.ScopeIs(g.env.P)
	case 3:
		p.Principal = ir.ScopeEq(ent(g.env.P))
	default:
		if e := g.rs.Entity(g.env.P); e != nil && len(e.Parents) > 0 {
			par := gen.Pick(rt, e.Parents, "scopepar")
			if gen.Chance(rt, 50, "scopeisin") {
				p.Principal = ir.ScopeIsIn(g.env.P, ent(par))
			} else {
				p.Principal = ir.ScopeIn(ent(par))
			}
		} else {
			p.Principal = ir.ScopeIs(g.env.P)
		}
	}
	switch rapid.IntRange(0, 4).Draw(rt, "ascope") {
	case 0:
	case 1, 2:
		p.Action = ir.ScopeEq(g.env.Action)
	case 3:
		p.Action = ir.ScopeInSet([]ir.Value{g.env.Action})
	default:
		anc := g.rs.ActionAncestors(g.env.Action)
		if len(anc) > 0 {
			p.Action = ir.ScopeIn(gen.Pick(rt, anc, "scopeanc"))
		} else {
			p.Action = ir.ScopeEq(g.env.Action)
		}
	}
	switch rapid.IntRange(0, 3).Draw(rt, "rscope") {
	case 0:
	case 1, 2:
		p.Resource = ir.ScopeIs(g.env.R)
	default:
		p.Resource = ir.ScopeEq(ent(g.env.R))
	}
}

// Cache holds the enumerated attribute paths per request environment of one schema.
type Cache map[int][]ppath

// GenPolicy draws a policy aimed at env; the slips taken are returned for labelling.
func GenPolicy(rt *rapid.T, rs *sch.RSchema, env sch.REnv, extAsCall bool, cache Cache, envIdx int) (*ir.Policy, []string) {
	g := &pg{t: rt, rs: rs, env: env, slipsLeft: 2, caps: map[string]bool{}, extAsCall: extAsCall, strictish: gen.Chance(rt, 85, "strictish")}
	if ps, ok := cache[envIdx]; ok {
		g.paths = ps // read-only: every use clones the expression
	} else {
		g.enumerate()
		cache[envIdx] = g.paths
	}
	p := ir.NewPolicy(gen.Chance(rt, 60, "permit"))
	g.scopes(p)
	n := rapid.IntRange(1, 2).Draw(rt, "nconds")
	for i := 0; i < n; i++ {
		g.prevWhen, g.prevUnless = nil, nil
		body := g.boolE(rapid.IntRange(2, 4).Draw(rt, "depth"))
		for _, pw := range g.prevWhen {
			p.Conds = append(p.Conds, ir.Cond{When: true, Body: pw})
		}
		for _, pu := range g.prevUnless {
			p.Conds = append(p.Conds, ir.Cond{When: false, Body: pu})
		}
		when := gen.Chance(rt, 80, "when")
		p.Conds = append(p.Conds, ir.Cond{When: when, Body: body})
	}
	return p, g.slips
}
