// C18: streaming decode is chunking-invariant and source positions are exact.
//
// Sub-checks (each its own Test function):
//   stream/*      NewDecoder(reader).Decode loop == NewPolicyListFromBytes(doc) for generated documents x reader schedules
//   fault/*       for EVERY byte position k of documents <= 3 KiB the reader fails at k: the decode loop must end in a non-EOF error
//   positions/*   Policy.Position() and Diagnostic.Reasons/Errors positions == the harness' own bookkeeping, Filename == name
//
// Carve-outs (check weaker than the statement):
//   * the injected failure only has to surface as *some* non-EOF error (cedar-go flattens it to text; errors.Is is recorded as a label);
//   * a failure after the last byte (k == len(doc), reader errors instead of EOF) is recorded as a label, not asserted ("mid-document");
//   * line comments are always terminated by "\n" (a lone "\r" ending a comment is an uncertain corner of the grammar);
//   * policies yielded by the decoder before a parse error in policy j are not compared with anything (the whole-slice API yields none).
//
// Sensitivity (scratch copy of /repo, `go test ./c18/` = quick tier, one shard; all four caught):
//   M1 cedar_tokenize.go next(): `s.srcBufOffset += s.srcPos` removed                       -> positions/offset (TestStream) and stream/position (fuzz seed)
//   M2 cedar_tokenize.go next(): spill-buffer write `s.tokBuf.Write(...)` skipped             -> positions/valid-doc-rejected, stream/error-text (TestStream, TestPositionTable)
//   M3 cedar_tokenize.go next(): read error ignored when n > 0 (`if err != io.EOF && n == 0`) -> fault/truncated-success (TestFaultRandom, TestFaultEnumeration);
//      only visible because the fault model lets the reader answer io.EOF after its first error (Fault.Then == "eof")
//   M4 cedar_unmarshal.go fromCedar: Position taken after the annotations                     -> positions/offset (TestStream, TestPositionTable); replay file reproduces
//   not tried: "lastLineLen not updated" (the branch that reads it is unreachable for token starts: whitespace is skipped first)
package c18

import (
	"encoding/json"
	"errors"
	"fmt"
	"io"
	"strings"
	"testing"
	"unicode/utf8"

	cedar "github.com/cedar-policy/cedar-go"
	"pgregory.net/rapid"

	"verif/c18doc"
	"verif/conv"
	"verif/ev"
	"verif/gen"
	"verif/ir"
)

func TestMain(m *testing.M) { ev.Main(m, "C18") }

// Case is the replayable form: the literal document, the reader schedule, the fault and the position bookkeeping.
type Case struct {
	Doc     string     `json:"doc,omitempty"`     // the document when it is valid UTF-8
	DocRaw  []byte     `json:"doc_raw,omitempty"` // otherwise (base64 in JSON)
	Name    string     `json:"name"`
	Sched   Sched      `json:"sched"`
	Fault   Fault      `json:"fault"`
	Starts  []int      `json:"starts,omitempty"` // expected offset of each policy's first token; nil = not asserted
	Invalid string     `json:"invalid,omitempty"`
	World   *gen.World `json:"world,omitempty"`
}

func (c *Case) bytes() []byte {
	if c.DocRaw != nil {
		return c.DocRaw
	}
	return []byte(c.Doc)
}

func mkCase(doc string) Case {
	if utf8.ValidString(doc) {
		return Case{Doc: doc, Fault: Fault{At: -1}}
	}
	return Case{DocRaw: []byte(doc), Fault: Fault{At: -1}}
}

type decoded struct {
	ps  []*cedar.Policy
	err error // nil = ended with io.EOF
	rec *recReader
	// resumed: after a non-EOF error a later Decode call returned a policy or io.EOF
	resumed bool
}

// decodeAll runs the Decode loop to its end.
func decodeAll(c *Case) decoded {
	doc := c.bytes()
	rec := newReader(doc, &c.Sched, c.Fault)
	dec := cedar.NewDecoder(rec)
	var out decoded
	out.rec = rec
	for i := 0; i <= len(doc)+2; i++ {
		var p cedar.Policy
		err := dec.Decode(&p)
		if err == io.EOF {
			// EOF must be sticky
			var q cedar.Policy
			if err2 := dec.Decode(&q); err2 != io.EOF {
				out.err = fmt.Errorf("Decode after io.EOF returned %v", err2)
			}
			return out
		}
		if err != nil {
			out.err = err
			// A failed document must not turn into a successful one by asking again: after an error the decoder may
			// keep failing, but it must neither hand out further policies (they would start somewhere in the middle of
			// the document) nor report a clean end of stream.
			for k := 0; k < 3; k++ {
				var q cedar.Policy
				err2 := dec.Decode(&q)
				if err2 == nil {
					out.err = fmt.Errorf("%w; RESUMED: Decode call %d after that error returned a policy", err, k+1)
					out.resumed = true
					break
				}
				if err2 == io.EOF {
					out.err = fmt.Errorf("%w; RESUMED: Decode call %d after that error reported a clean io.EOF", err, k+1)
					out.resumed = true
					break
				}
			}
			return out
		}
		pp := p
		out.ps = append(out.ps, &pp)
	}
	out.err = errors.New("decode loop did not terminate")
	return out
}

func samePolicy(a, b *cedar.Policy) (bool, string) {
	ia, err := conv.FromPolicy(a)
	if err != nil {
		return false, "cannot read policy: " + err.Error()
	}
	ib, err := conv.FromPolicy(b)
	if err != nil {
		return false, "cannot read policy: " + err.Error()
	}
	if !conv.EqualPolicy(ia, ib) {
		return false, fmt.Sprintf("policies differ: %s vs %s", ir.JSON(ia), ir.JSON(ib))
	}
	return true, ""
}

// checkStream: oracle (i).
func checkStream(c *Case) (string, string, decoded) {
	doc := c.bytes()
	whole, werr := cedar.NewPolicyListFromBytes("", doc)
	d := decodeAll(c)
	if d.resumed {
		return "stream/resumed-after-error", fmt.Sprintf("streaming decode under schedule %s: %v", ir.JSON(c.Sched), d.err), d
	}
	if (werr != nil) != (d.err != nil) {
		return "stream/error-mismatch", fmt.Sprintf("whole-slice parse: err=%v (%d policies); streaming decode under schedule %s: err=%v (%d policies)", werr, len(whole), ir.JSON(c.Sched), d.err, len(d.ps)), d
	}
	if werr != nil {
		if strings.TrimPrefix(werr.Error(), "parser error: ") != d.err.Error() {
			return "stream/error-text", fmt.Sprintf("whole-slice parse fails with %q, streaming decode with %q", werr, d.err), d
		}
		return "", "", d
	}
	if len(whole) != len(d.ps) {
		return "stream/policies", fmt.Sprintf("whole-slice parse yields %d policies, streaming decode %d", len(whole), len(d.ps)), d
	}
	for i := range whole {
		if ok, msg := samePolicy(whole[i], d.ps[i]); !ok {
			return "stream/policies", fmt.Sprintf("policy %d: %s", i, msg), d
		}
		if whole[i].Position() != d.ps[i].Position() {
			return "stream/position", fmt.Sprintf("policy %d: whole-slice position %+v, streaming position %+v", i, whole[i].Position(), d.ps[i].Position()), d
		}
		if string(whole[i].MarshalCedar()) != string(d.ps[i].MarshalCedar()) {
			return "stream/policies", fmt.Sprintf("policy %d marshals differently: %q vs %q", i, whole[i].MarshalCedar(), d.ps[i].MarshalCedar()), d
		}
	}
	return "", "", d
}

// checkFault: oracle (ii). The case has Fault.At in [0, len(doc)].
func checkFault(c *Case) (string, string) {
	doc := c.bytes()
	d := decodeAll(c)
	if d.resumed {
		return "fault/resumed-after-error", fmt.Sprintf("reader failed after %d of %d bytes under schedule %s: %v", c.Fault.At, len(doc), ir.JSON(c.Sched), d.err)
	}
	if c.Fault.At >= len(doc) {
		if d.err == nil {
			ev.R.Label("fail-at-end:not-reported", 1)
		} else {
			ev.R.Label("fail-at-end:reported", 1)
		}
		return "", ""
	}
	if d.err == nil {
		return "fault/truncated-success", fmt.Sprintf("reader failed after %d of %d bytes (with_data=%v) under schedule %s but the decode loop ended with io.EOF after %d policies", c.Fault.At, len(doc), c.Fault.WithData, ir.JSON(c.Sched), len(d.ps))
	}
	return "", ""
}

func expectedPos(doc string, name string, off int) cedar.Position {
	l, col := c18doc.Pos(doc, off)
	return cedar.Position{Filename: name, Offset: off, Line: l, Column: col}
}

// checkPositions: oracle (iii). Requires c.Starts.
func checkPositions(c *Case) (string, string) {
	doc := string(c.bytes())
	ps, err := cedar.NewPolicySetFromBytes(c.Name, []byte(doc))
	if err != nil {
		return "positions/valid-doc-rejected", fmt.Sprintf("a document made of %d individually accepted policies, whitespace and comments is rejected: %v", len(c.Starts), err)
	}
	n := 0
	for range ps.All() {
		n++
	}
	if n != len(c.Starts) {
		return "positions/policy-count", fmt.Sprintf("%d policies placed, %d loaded", len(c.Starts), n)
	}
	want := map[cedar.PolicyID]cedar.Position{}
	for i, off := range c.Starts {
		id := cedar.PolicyID(fmt.Sprintf("policy%d", i))
		p := ps.Get(id)
		if p == nil {
			return "positions/policy-count", fmt.Sprintf("policy id %s missing", id)
		}
		want[id] = expectedPos(doc, c.Name, off)
		if got := p.Position(); got != want[id] {
			sub := "positions/offset"
			if got.Offset == want[id].Offset {
				sub = "positions/line-column"
				if got.Line == want[id].Line && got.Column == want[id].Column {
					sub = "positions/filename"
				}
			}
			return sub, fmt.Sprintf("policy %d (first token at byte %d): Position() = %+v, expected %+v", i, off, got, want[id])
		}
	}
	// the same list through NewPolicyListFromBytes
	pl, err := cedar.NewPolicyListFromBytes(c.Name, []byte(doc))
	if err != nil || len(pl) != len(c.Starts) {
		return "positions/policy-count", fmt.Sprintf("NewPolicyListFromBytes: %d policies, err=%v", len(pl), err)
	}
	for i, p := range pl {
		if got := p.Position(); got != want[cedar.PolicyID(fmt.Sprintf("policy%d", i))] {
			return "positions/offset", fmt.Sprintf("list policy %d: Position() = %+v, expected %+v", i, got, want[cedar.PolicyID(fmt.Sprintf("policy%d", i))])
		}
	}
	// diagnostics
	if c.World != nil {
		ents := conv.ToEntityMap(c.World.Store)
		req := conv.ToRequest(c.World.Req)
		diagCheck := func(set cedar.PolicyIterator) (string, string) {
			_, diag := cedar.Authorize(set, ents, req)
			for _, r := range diag.Reasons {
				ev.R.Label("diag-reason-checked", 1)
				if r.Position != want[r.PolicyID] {
					return "positions/diagnostic", fmt.Sprintf("reason for %s carries %+v, expected %+v", r.PolicyID, r.Position, want[r.PolicyID])
				}
			}
			for _, e := range diag.Errors {
				ev.R.Label("diag-error-checked", 1)
				if e.Position != want[e.PolicyID] {
					return "positions/diagnostic", fmt.Sprintf("error for %s carries %+v, expected %+v", e.PolicyID, e.Position, want[e.PolicyID])
				}
			}
			return "", ""
		}
		if s, m := diagCheck(ps); s != "" {
			return s, m
		}
		// one-policy sets, so that a satisfied forbid does not hide the permits
		for id, p := range ps.All() {
			one := cedar.NewPolicySet()
			one.Add(id, p)
			if s, m := diagCheck(one); s != "" {
				return s, m
			}
		}
	}
	return "", ""
}

// coverage bookkeeping: which spans cross a refill boundary that actually occurred
func crossLabels(doc string, bounds []int) (labels []string, nontrivial bool) {
	spans, ok := c18doc.Lex(doc)
	if !ok {
		return []string{"unlexed"}, false
	}
	seen := map[string]bool{}
	bi := 0
	for _, s := range spans {
		for bi < len(bounds) && bounds[bi] <= s.Start {
			bi++
		}
		if bi < len(bounds) && bounds[bi] < s.End {
			seen["cross:"+s.Kind] = true
			if s.Kind != "linecomment" && s.Kind != "blockcomment" {
				nontrivial = true
			}
		}
	}
	for _, b := range bounds {
		if b < len(doc) && b > 0 {
			if doc[b]&0xC0 == 0x80 {
				seen["cross:rune"] = true
				nontrivial = true
			}
			if doc[b] == '\n' && doc[b-1] == '\r' {
				seen["cross:crlf"] = true
			}
		}
	}
	for k := range seen {
		labels = append(labels, k)
	}
	return labels, nontrivial
}

// multi-byte rune before a policy on the same line
func runeBeforePolicy(doc string, starts []int) bool {
	for _, s := range starts {
		for i := s - 1; i >= 0 && doc[i] != '\n'; i-- {
			if doc[i] >= 0x80 {
				return true
			}
		}
	}
	return false
}

func sizeLabel(n int) string {
	switch {
	case n < 1024:
		return "size:<1K"
	case n < 3072:
		return "size:1-3K"
	case n < 8192:
		return "size:3-8K"
	default:
		return "size:>8K"
	}
}

func caseOf(b *Built, s Sched, name string) *Case {
	c := mkCase(b.Doc)
	c.Sched = s
	c.Name = name
	c.Invalid = b.Mut
	if b.Mut == "" {
		c.Starts = b.Starts
		w := b.World
		c.World = &w
	}
	return &c
}

var fileNames = []string{"", "policy.cedar", "dir/ä ö.cedar", "a:1:1", "<input>"}

// TestStream: oracle (i) over generated (document, schedule) pairs, plus oracle (iii) on the same valid documents.
func TestStream(t *testing.T) {
	ev.SetChecks(ev.Scale(3000, 300000))
	ev.Check(t, func(rt *rapid.T) {
		s := genSched(rt)
		b := genDoc(rt, &s, docOpts{mutate: rapid.IntRange(0, 9).Draw(rt, "mutate") < 2})
		c := caseOf(&b, s, fileNames[rapid.IntRange(0, len(fileNames)-1).Draw(rt, "fname")])
		ev.Watch("stream", func() any { return c })
		defer ev.Unwatch()
		sub, msg, d := checkStream(c)
		labels := []string{"sched:" + s.Kind, sizeLabel(len(b.Doc))}
		nt := false
		if b.Mut == "" {
			var cl []string
			cl, nt = crossLabels(b.Doc, d.rec.bounds)
			labels = append(labels, cl...)
			if runeBeforePolicy(b.Doc, b.Starts) {
				labels = append(labels, "rune-before-policy")
				nt = true
			}
			if d.err != nil {
				labels = append(labels, "valid-doc-rejected")
			}
			for _, a := range b.Anchors {
				// verified against the offsets the reader really delivered
				hit := false
				for _, bd := range d.rec.bounds {
					if bd+a.Delta == a.Offset {
						hit = true
					}
				}
				if hit {
					labels = append(labels, "aimed:"+a.Kind, fmt.Sprintf("aimed-delta:%+d", a.Delta))
				} else {
					labels = append(labels, "aim-missed")
				}
			}
		} else {
			labels = append(labels, "invalid:"+strings.SplitN(b.Mut, ":", 2)[0], "mut:"+strings.Split(b.Mut, ":")[0]+":"+mutName(b.Mut))
			nt = len(d.rec.bounds) > 1
		}
		if d.rec.zero > 0 {
			labels = append(labels, "zero-length-reads")
		}
		if d.rec.eofDat {
			labels = append(labels, "data-with-eof")
		}
		ev.R.Case(ir.Hash(c), nt, labels...)
		if ev.R.WantSample("stream:" + s.Kind) {
			ev.R.Sample("stream:"+s.Kind, map[string]any{"doc": shortDoc(b.Doc), "len": len(b.Doc), "sched": s, "policies": len(b.Starts), "invalid": b.Mut, "refill_offsets": head(d.rec.bounds, 12)})
		}
		if sub != "" {
			ev.R.Violation(sub, c, msg)
			rt.Fatalf("C18/stream: streaming decode and whole-slice parse disagree")
		}
		if b.Mut == "" {
			if sub, msg := checkPositions(c); sub != "" {
				ev.R.Violation(sub, c, msg)
				rt.Fatalf("C18/positions: reported position differs from the placement bookkeeping")
			}
		}
	})
	if renderRejects > 0 {
		ev.R.Label("render-rejected-policy", int64(renderRejects))
		ev.R.Note("generated policy texts rejected by the parser (replaced by handwritten ones): " + strings.Join(renderRejectText, " | "))
	}
}

func mutName(m string) string {
	p := strings.SplitN(m, ":", 2)
	if p[0] == "eof" {
		return "truncated"
	}
	if len(p) > 1 {
		return p[1]
	}
	return m
}

func head(xs []int, n int) []int {
	if len(xs) > n {
		return xs[:n]
	}
	return xs
}

// TestFaultRandom: oracle (ii) at random positions of documents of any size, random schedules (incl. iotest readers).
func TestFaultRandom(t *testing.T) {
	ev.SetChecks(ev.Scale(1500, 150000))
	ev.Check(t, func(rt *rapid.T) {
		s := genSched(rt)
		b := genDoc(rt, &s, docOpts{})
		c := caseOf(&b, s, "")
		c.World = nil
		c.Starts = nil
		c.Fault = Fault{At: rapid.IntRange(0, len(b.Doc)).Draw(rt, "failat"), WithData: rapid.Bool().Draw(rt, "withdata")}
		if rapid.IntRange(0, 4).Draw(rt, "errkind") == 0 {
			c.Fault.Err = "unexpected-eof"
		}
		if rapid.Bool().Draw(rt, "theneof") {
			c.Fault.Then = "eof"
		}
		// often right after a policy's terminating ';', where a truncated document is itself valid
		if rapid.Bool().Draw(rt, "atsemi") {
			var semis []int
			for i := range b.Doc {
				if b.Doc[i] == ';' {
					semis = append(semis, i+1)
				}
			}
			if len(semis) > 0 {
				c.Fault.At = semis[rapid.IntRange(0, len(semis)-1).Draw(rt, "semi")]
			}
		}
		ev.Watch("fault", func() any { return c })
		defer ev.Unwatch()
		sub, msg := checkFault(c)
		ev.R.Case(ir.Hash(c), c.Fault.At > 0 && c.Fault.At < len(b.Doc), "fault-random", "sched:"+s.Kind)
		if sub != "" {
			ev.R.Violation(sub, c, msg)
			rt.Fatalf("C18/fault: reader failure not reported")
		}
	})
}

// faultModes are the deliveries under which every failure position is enumerated.
var faultModes = []struct {
	name     string
	s        Sched
	withData bool
	then     string // what the reader returns after its first error: "" the same error, "eof" io.EOF
}{
	{"1024/err-follows", Sched{Kind: "chunks", Rest: 1024}, false, ""},
	{"1024/err-with-data/then-eof", Sched{Kind: "chunks", Rest: 1024}, true, "eof"},
	{"7/err-with-data/then-eof", Sched{Kind: "chunks", Rest: 7}, true, "eof"},
	{"onebyte/err-follows/then-eof", Sched{Kind: "onebyte"}, false, "eof"},
	{"dataerr-chunks-100/then-eof", Sched{Kind: "dataerr-chunks", Rest: 100}, false, "eof"},
	{"half/err-with-data", Sched{Kind: "half"}, true, ""},
}

// faultDoc is the deterministic (seed-independent) document i of the fault enumeration.
func faultDoc(i int) Built {
	g := rapid.Custom(func(t *rapid.T) Built {
		s := Sched{Kind: "chunks", Rest: 1024}
		return genDoc(t, &s, docOpts{maxBytes: 600 + (i%5)*600})
	})
	return g.Example(i + 1)
}

// TestFaultEnumeration: for EVERY byte position k of each document (<= 3 KiB) the reader fails at k.
func TestFaultEnumeration(t *testing.T) {
	ndocs := ev.Pick(20, 140)
	total := 0
	positions := 0
	for i := 0; i < ndocs; i++ {
		if i%ev.NShards != ev.Shard {
			continue
		}
		b := faultDoc(i)
		if len(b.Doc) > 3072 {
			b.Doc = b.Doc[:3072]
			for !utf8.ValidString(b.Doc) {
				b.Doc = b.Doc[:len(b.Doc)-1]
			}
		}
		semis := 0
		for _, mode := range faultModes {
			for k := 0; k <= len(b.Doc); k++ {
				c := mkCase(b.Doc)
				c.Sched = mode.s
				c.Fault = Fault{At: k, WithData: mode.withData, Then: mode.then}
				if k%7 == 3 {
					c.Fault.Err = "unexpected-eof"
				}
				sub, msg := checkFault(&c)
				total++
				if k > 0 && k < len(b.Doc) && b.Doc[k-1] == ';' {
					semis++
				}
				if sub != "" {
					ev.R.Violation(sub, &c, msg)
					t.Fatalf("C18/%s: %s", sub, msg)
				}
			}
			positions += len(b.Doc) + 1
			c := mkCase(b.Doc)
			c.Sched = mode.s
			ev.R.Case(ir.Hash(map[string]any{"doc": b.Doc, "mode": mode.name}), len(b.Starts) >= 2, "fault-enum:"+mode.name)
			ev.R.Count(int64(len(b.Doc)))
		}
		ev.R.Label("fault-after-semicolon", int64(semis))
		if ev.R.WantSample("fault-enum") {
			ev.R.Sample("fault-enum", map[string]any{"doc": shortDoc(b.Doc), "len": len(b.Doc), "policies": len(b.Starts), "modes": len(faultModes), "positions": "0.." + fmt.Sprint(len(b.Doc))})
		}
	}
	if ev.First() {
		ev.R.Space(fmt.Sprintf("reader failure at every byte position 0..len of %d generated documents (<= 3 KiB) x %d delivery modes (this shard: %d decodes)", ndocs, len(faultModes), total), positions*ev.NShards)
	}
}

// TestPositionTable: handwritten layouts for the position oracle (newline kinds, multi-byte runes before a policy, annotations first).
func TestPositionTable(t *testing.T) {
	if !ev.First() {
		return
	}
	pol := `permit(principal, action, resource);`
	ann := "@id(\"é\")\n" + pol
	docs := []struct {
		doc    string
		starts []int
	}{}
	add := func(parts ...string) {
		// parts alternate filler, policy, filler, policy, ...
		var sb strings.Builder
		var st []int
		for i, p := range parts {
			if i%2 == 1 {
				st = append(st, sb.Len())
			}
			sb.WriteString(p)
		}
		docs = append(docs, struct {
			doc    string
			starts []int
		}{sb.String(), st})
	}
	fills := []string{"", " ", "\n", "\r\n", "\r", "\t", "\n\n", "\r\r\n", "// é\n", "/* 日本 */", "/* a\nb\r\nc */ ", "/*\U0001F600*/\t", "// x\r\n  ", "\n/*é*/", "/**/", "/***/", "/*/*/", " \n \n ", "//\n", "/* ; */"}
	for _, f1 := range fills {
		for _, f2 := range fills {
			add(f1, pol, f2, ann, f1+f2, pol)
		}
	}
	for i, d := range docs {
		c := mkCase(d.doc)
		c.Name = fileNames[i%len(fileNames)]
		c.Starts = d.starts
		c.Sched = Sched{Kind: "bytes"}
		w := gen.World{Req: ir.Request{Principal: ir.Ent("T0", "a"), Action: ir.Ent("Action", "view"), Resource: ir.Ent("T1", "b"), Context: ir.Rec()}}
		c.World = &w
		ev.R.Case(ir.Hash(&c), runeBeforePolicy(d.doc, d.starts) || strings.Contains(d.doc, "\r"), "position-table")
		if sub, msg := checkPositions(&c); sub != "" {
			ev.R.Violation(sub, &c, msg)
			t.Fatalf("C18/%s: %s", sub, msg)
		}
		if sub, msg, _ := checkStream(&c); sub != "" {
			ev.R.Violation(sub, &c, msg)
			t.Fatalf("C18/%s: %s", sub, msg)
		}
	}
	ev.R.Space("position table: filler x filler layouts around three policies", len(docs))
}

func TestKnown(t *testing.T) {}

func TestReplay(t *testing.T) {
	rf, ok, err := ev.LoadReplay()
	if !ok {
		t.Skip("no replay requested")
	}
	if err != nil {
		t.Fatal(err)
	}
	if ev.ReplayFuzz(t, rf, fuzzProps, nil) {
		return
	}
	var c Case
	if err := json.Unmarshal(rf.Case, &c); err != nil {
		t.Fatalf("cannot decode replay case: %v", err)
	}
	fail := func(sub, msg string) {
		ev.R.Violation(sub, &c, msg)
		t.Fatalf("C18 replay %s: %s", sub, msg)
	}
	if c.Fault.At >= 0 {
		if sub, msg := checkFault(&c); sub != "" {
			fail(sub, msg)
		}
		return
	}
	if sub, msg, _ := checkStream(&c); sub != "" {
		fail(sub, msg)
	}
	if c.Starts != nil {
		if sub, msg := checkPositions(&c); sub != "" {
			fail(sub, msg)
		}
	}
}
