package c18

// Document / schedule generators and the scheduled reader for C18.

import (
	"bytes"
	"errors"
	"fmt"
	"io"
	"strings"
	"testing/iotest"
	"unicode/utf8"

	cedar "github.com/cedar-policy/cedar-go"
	"pgregory.net/rapid"

	"verif/c18doc"
	"verif/gen"
	"verif/ir"
	"verif/render"
)

const bufLen = 1024 // cedar-go's scanner buffer; used only to *aim* features at refill points, never as an oracle

// Sched describes how the reader hands out the document.
type Sched struct {
	Kind        string `json:"kind"`            // chunks | bytes | onebyte | half | dataerr | dataerr-onebyte | timeout
	Sizes       []int  `json:"sizes,omitempty"` // chunks: sizes of successive reads; 0 = a (0,nil) read
	Cycle       bool   `json:"cycle,omitempty"` // repeat Sizes forever (must contain a non-zero size); otherwise Rest applies after Sizes
	Rest        int    `json:"rest,omitempty"`  // chunks: size of every read after Sizes is used up (>= 1)
	EOFWithData bool   `json:"eof_with_data,omitempty"`
}

// Fault describes an injected reader failure after exactly At bytes have been delivered (At < 0: none).
type Fault struct {
	At       int    `json:"at"`
	WithData bool   `json:"with_data,omitempty"` // the error accompanies the last bytes (n>0, err) instead of following them (0, err)
	Err      string `json:"err,omitempty"`       // "" = custom error, "unexpected-eof" = io.ErrUnexpectedEOF
	Then     string `json:"then,omitempty"`      // what later reads return: "" = the same error again, "eof" = io.EOF (the contract leaves it open)
}

var errInjected = errors.New("injected reader failure")

func (f Fault) error() error {
	if f.Err == "unexpected-eof" {
		return io.ErrUnexpectedEOF
	}
	return errInjected
}

// schedReader implements Sched(kind chunks) and Fault over a byte slice.
type schedReader struct {
	doc   []byte
	pos   int
	s     *Sched
	idx   int
	fault Fault
	erred bool
}

func (r *schedReader) nextSize() int {
	if r.s == nil {
		return 1 << 30
	}
	if r.idx < len(r.s.Sizes) {
		c := r.s.Sizes[r.idx]
		r.idx++
		if r.s.Cycle && r.idx == len(r.s.Sizes) {
			r.idx = 0
		}
		return c
	}
	if r.s.Rest < 1 {
		return 1
	}
	return r.s.Rest
}

func (r *schedReader) Read(p []byte) (int, error) {
	limit := len(r.doc)
	if r.fault.At >= 0 && r.fault.At < limit {
		limit = r.fault.At
	}
	faulty := r.fault.At >= 0 && r.fault.At <= len(r.doc)
	if r.pos >= limit {
		if faulty && !(r.erred && r.fault.Then == "eof") {
			r.erred = true
			return 0, r.fault.error()
		}
		return 0, io.EOF
	}
	if len(p) == 0 {
		return 0, nil
	}
	c := r.nextSize()
	if c == 0 {
		return 0, nil
	}
	n := min(c, len(p), limit-r.pos)
	copy(p, r.doc[r.pos:r.pos+n])
	r.pos += n
	if r.pos == limit {
		if faulty && r.fault.WithData {
			r.erred = true
			return n, r.fault.error()
		}
		if !faulty && r.s != nil && r.s.EOFWithData {
			return n, io.EOF
		}
	}
	return n, nil
}

// recReader records the offsets at which the consumer's buffer ended (cumulative bytes after each read).
type recReader struct {
	in     io.Reader
	total  int
	bounds []int
	zero   int
	eofDat bool
}

func (r *recReader) Read(p []byte) (int, error) {
	n, err := r.in.Read(p)
	if n > 0 {
		r.total += n
		r.bounds = append(r.bounds, r.total)
	} else if err == nil {
		r.zero++
	}
	if n > 0 && err == io.EOF {
		r.eofDat = true
	}
	return n, err
}

// newReader builds the reader for (doc, sched, fault).
func newReader(doc []byte, s *Sched, f Fault) *recReader {
	var in io.Reader
	if strings.HasPrefix(s.Kind, "dataerr") {
		f.WithData = false // DataErrReader does the attaching
	}
	base := func(ss *Sched) io.Reader { return &schedReader{doc: doc, s: ss, fault: f} }
	switch s.Kind {
	case "chunks":
		in = base(s)
	case "bytes":
		if f.At < 0 {
			in = bytes.NewReader(doc)
		} else {
			in = base(nil)
		}
	case "onebyte":
		in = iotest.OneByteReader(base(nil))
	case "half":
		in = iotest.HalfReader(base(nil))
	case "dataerr":
		in = iotest.DataErrReader(base(nil))
	case "dataerr-onebyte":
		in = iotest.DataErrReader(iotest.OneByteReader(base(nil)))
	case "dataerr-chunks":
		// DataErrReader itself attaches the error to the last data; the inner reader must not also do so
		// (it would make DataErrReader hand out data after an EOF, which no io.Reader may do)
		inner := *s
		inner.EOFWithData = false
		in = iotest.DataErrReader(base(&inner))
	default:
		in = base(s)
	}
	return &recReader{in: in}
}

// simBounds predicts the offsets at which the scanner's buffer will end under s, simulating only the arithmetic
// "a refill keeps the i bytes of an incomplete rune and asks for bufLen-i more" (valid UTF-8 documents).
// Used to aim features at refill points; the run itself records the real offsets.
func simBounds(doc string, s *Sched, upto int) []int {
	var out []int
	delivered := 0
	idx := 0
	next := func() int {
		switch s.Kind {
		case "onebyte", "dataerr-onebyte":
			return 1
		case "half":
			return -1
		case "chunks", "dataerr-chunks":
			if idx < len(s.Sizes) {
				c := s.Sizes[idx]
				idx++
				if s.Cycle && idx == len(s.Sizes) {
					idx = 0
				}
				return c
			}
			if s.Rest < 1 {
				return 1
			}
			return s.Rest
		}
		return 1 << 30
	}
	for delivered < len(doc) && delivered <= upto {
		i := 0
		for delivered-i > 0 && i < 3 && delivered < len(doc) && doc[delivered-i]&0xC0 == 0x80 {
			i++
		}
		if !(delivered < len(doc) && doc[delivered]&0xC0 == 0x80) {
			i = 0
		}
		lenp := bufLen - i
		c := next()
		if c == 0 {
			continue
		}
		if c < 0 {
			c = (lenp + 1) / 2
		}
		n := min(c, lenp, len(doc)-delivered)
		delivered += n
		out = append(out, delivered)
	}
	return out
}

// ---------------------------------------------------------------------------------------------

type prng struct{ x uint64 }

func (p *prng) next(n int) int {
	p.x += 0x9E3779B97F4A7C15
	z := p.x
	z = (z ^ (z >> 30)) * 0xBF58476D1CE4E5B9
	z = (z ^ (z >> 27)) * 0x94D049BB133111EB
	z ^= z >> 31
	if n <= 1 {
		return 0
	}
	return int(z % uint64(n))
}

var chunkTable = []int{0, 1, 2, 3, 5, 1023, 1024, 1025}

func genSched(t *rapid.T) Sched {
	switch rapid.IntRange(0, 13).Draw(t, "schedkind") {
	case 0:
		return Sched{Kind: "bytes"}
	case 1:
		return Sched{Kind: "onebyte"}
	case 2:
		return Sched{Kind: "half"}
	case 3:
		return Sched{Kind: "dataerr"}
	case 4:
		return Sched{Kind: "dataerr-onebyte"}
	case 5, 6, 7:
		// constant size
		c := chunkTable[rapid.IntRange(1, len(chunkTable)-1).Draw(t, "const")]
		return Sched{Kind: "chunks", Rest: c, EOFWithData: rapid.Bool().Draw(t, "eofdata")}
	case 8:
		c := rapid.IntRange(1, 2100).Draw(t, "constrand")
		return Sched{Kind: "chunks", Rest: c, EOFWithData: rapid.Bool().Draw(t, "eofdata")}
	default:
		n := rapid.IntRange(1, 24).Draw(t, "nsizes")
		s := Sched{Kind: "chunks", EOFWithData: rapid.Bool().Draw(t, "eofdata")}
		nonzero := false
		for i := 0; i < n; i++ {
			var c int
			if rapid.IntRange(0, 3).Draw(t, "sizesrc") == 0 {
				c = rapid.IntRange(1, 1500).Draw(t, "sizerand")
			} else {
				c = chunkTable[rapid.IntRange(0, len(chunkTable)-1).Draw(t, "size")]
			}
			nonzero = nonzero || c > 0
			s.Sizes = append(s.Sizes, c)
		}
		s.Cycle = nonzero && rapid.Bool().Draw(t, "cycle")
		s.Rest = chunkTable[rapid.IntRange(1, len(chunkTable)-1).Draw(t, "rest")]
		if rapid.IntRange(0, 5).Draw(t, "wrapdataerr") == 0 {
			s.Kind = "dataerr-chunks"
		}
		return s
	}
}

// handwritten policies: tokens of every kind, long strings with multi-byte runes, long integers, annotations
var handPolicies = []string{
	`permit(principal, action, resource);`,
	`forbid(principal, action, resource);`,
	`permit(principal, action, resource) when { 1 + "a" };`,
	`forbid(principal, action, resource) when { context.nosuchattribute };`,
	`permit(principal,action,resource)when{true};`,
	`@id("日本語のポリシー — é ß Ω 😀")` + "\n" + `permit(principal, action, resource) when { "héllo wörld 日本 😀😀" like "h*llo*😀" };`,
	`@a("x")@b("\u{1F600}\n\t\\\"")@c("")` + "\r\n" + `forbid (principal is T0, action in [Action::"view", Action::"edit"], resource in T1::"b") unless { 9223372036854775807 > -9223372036854775808 && 0 <= 1234567890123456789 };`,
	`permit(principal == T0::"a", action == Action::"view", resource) when { {"ключ": "значение", k: [1, 22, 333, 4444], "": principal} has "ключ" };`,
	`permit(principal, action, resource) when { principal.a.b.c == resource["é"]["日本"] || context has x && context.x };`,
	`forbid(principal, action, resource) when { ip("192.168.1.77/24").isInRange(ip("192.168.0.0/16")) && decimal("12.3456").lessThan(decimal("99.0")) };`,
	`permit(principal, action, resource) when { if principal in NS::T2::"d" then [principal, action, resource].contains(principal) else !(1 * 2 - 3 != -4) };`,
	`permit(principal, action, resource) when { "` + strings.Repeat("長い文字列 long string é ", 12) + `" == "" };`,
	`permit(principal, action, resource) when { ` + strings.Repeat("1234567890 + ", 10) + `0 == 0 };`,
	`forbid(principal, action, resource) unless { principal has veryLongIdentifier_` + strings.Repeat("abcdefghij", 8) + ` };`,
}

// Built is a generated document with its bookkeeping.
type Built struct {
	Doc     string
	Starts  []int    // offset of the first token of each policy (placement bookkeeping)
	Anchors []Anchor // what was aimed where
	World   gen.World
	Mut     string // "" = valid
	MutPol  int
}

type Anchor struct {
	Kind   string
	Delta  int
	Offset int // absolute offset of the feature byte
}

type docOpts struct {
	maxBytes int // 0 = free
	mutate   bool
}

// feature offsets inside a policy text, by kind
func features(text string) map[string][]int {
	out := map[string][]int{"start": {0}}
	spans, ok := c18doc.Lex(text)
	if !ok {
		return out
	}
	for _, s := range spans {
		switch s.Kind {
		case "string":
			out["close-quote"] = append(out["close-quote"], s.End-1)
			for i := s.Start; i < s.End; i++ {
				if text[i] >= 0xC0 { // first byte of a multi-byte rune; aim at its second byte
					out["string-rune"] = append(out["string-rune"], i+1)
				}
				if text[i] == '\\' {
					out["escape"] = append(out["escape"], i+1)
					i++
				}
			}
		case "int":
			out["int-last-digit"] = append(out["int-last-digit"], s.End-1)
		case "ident":
			if s.End-s.Start >= 2 {
				out["ident-mid"] = append(out["ident-mid"], s.Start+(s.End-s.Start)/2)
			}
		case "op":
			if s.End-s.Start == 2 {
				out["op2-mid"] = append(out["op2-mid"], s.Start+1)
			}
			if text[s.Start] == '@' {
				out["at-sign"] = append(out["at-sign"], s.Start)
			}
		}
	}
	return out
}

var inKinds = []string{"start", "close-quote", "string-rune", "escape", "int-last-digit", "ident-mid", "op2-mid", "at-sign"}

// pre-pieces: placed directly before a policy; the feature is inside the piece
var prePieces = []struct {
	kind, text string
	off        int
}{
	{"comment-close-slash", "/* é */", 7},
	{"comment-close-star", "/* x **/", 6},
	{"crlf-cr", "\r\n", 0},
	{"crlf-lf", "\r\n", 1},
	{"comment-rune", "// 日本\n", 4}, // second byte of 日
	{"comment-rune4", "/*\U0001F600*/", 4},
	{"line-comment-nl", "// c\n", 4},
	{"lone-cr", "\r", 0},
	{"tab", "\t", 0},
	{"rune-then-policy", "/*é*/", 3}, // multi-byte rune before a policy on the same line
}

// genDoc draws a document aimed at the refill points of s.
func genDoc(t *rapid.T, s *Sched, o docOpts) Built {
	pr := &prng{x: rapid.Uint64().Draw(t, "noise")}
	var b Built
	b.World = gen.GenWorld(t, 4, gen.DefaultValOpts)
	sizeClass := rapid.IntRange(0, 9).Draw(t, "sizeclass")
	npol := 0
	maxPad := 0
	switch {
	case o.maxBytes > 0:
		npol = rapid.IntRange(1, 5).Draw(t, "npol")
		maxPad = o.maxBytes / (npol + 1) / 2
	case sizeClass < 2:
		npol = rapid.IntRange(1, 3).Draw(t, "npol")
		maxPad = 40
	case sizeClass < 7:
		npol = rapid.IntRange(1, 6).Draw(t, "npol")
		maxPad = 1200
	default:
		npol = rapid.IntRange(4, 12).Draw(t, "npol")
		maxPad = 2600
	}
	smallChunks := (s.Kind == "onebyte" || s.Kind == "dataerr-onebyte") || (s.Kind == "chunks" && len(s.Sizes) == 0 && s.Rest <= 5)
	po := gen.PolicyOpts{Expr: gen.DefaultExprOpts, MaxConds: 2, Depth: 3, Annot: true}
	po.Expr.BadFuncPct = 0
	po.Expr.BadCtorPct = 0
	var doc strings.Builder
	mutPol := -1
	if o.mutate {
		mutPol = rapid.IntRange(0, npol-1).Draw(t, "mutpol")
	}
	for j := 0; j < npol; j++ {
		var ptext string
		if rapid.IntRange(0, 9).Draw(t, "psrc") < 5 {
			ptext = handPolicies[rapid.IntRange(0, len(handPolicies)-1).Draw(t, "hand")]
		} else {
			p := gen.GenPolicy(t, &b.World, po)
			ptext = render.Policy(p, render.Opts{Noise: &render.Noise{Next: pr.next, Block: true}})
			if l, err := cedar.NewPolicyListFromBytes("", []byte(ptext)); err != nil || len(l) != 1 {
				// not C18's business (C07/C08 look at the renderer and the parser); use a handwritten policy instead
				noteRenderReject(ptext, err)
				ptext = handPolicies[pr.next(len(handPolicies))]
			}
		}
		if o.maxBytes > 0 && doc.Len()+len(ptext) > o.maxBytes-8 && j > 0 {
			break
		}
		mut := ""
		if j == mutPol {
			ptext, mut = mutate(t, ptext)
			b.Mut, b.MutPol = mut, j
		}
		// choose the anchor
		pre := ""
		kind := "none"
		f := 0
		if rapid.IntRange(0, 9).Draw(t, "anchorsrc") < 6 {
			fs := features(ptext)
			kind = inKinds[rapid.IntRange(0, len(inKinds)-1).Draw(t, "inkind")]
			offs := fs[kind]
			if len(offs) == 0 {
				kind, offs = "start", fs["start"]
			}
			f = offs[rapid.IntRange(0, len(offs)-1).Draw(t, "featidx")]
		} else {
			pp := prePieces[rapid.IntRange(0, len(prePieces)-1).Draw(t, "prekind")]
			pre, kind, f = pp.text, pp.kind, pp.off
		}
		delta := rapid.IntRange(-4, 4).Draw(t, "delta")
		skip := rapid.IntRange(0, 2).Draw(t, "skipbounds")
		freePad := rapid.IntRange(0, maxPad).Draw(t, "pad")
		L := doc.Len()
		pad := freePad
		if o.maxBytes > 0 {
			pad = min(pad, max(0, o.maxBytes-8-L-len(pre)-len(ptext)))
		}
		aligned := false
		if !smallChunks {
			// solve for the padding: the feature byte must land at (refill point + delta)
			prefix := doc.String()
			minPad := 0
			if sizeClass >= 7 || sizeClass%2 == 1 {
				minPad = pad // large documents: aim at a refill point at least this far away
			}
			base := prefix + strings.Repeat(" ", minPad+bufLen*(skip+2)+len(pre)+len(ptext)+8)
			want := -1
			for _, bd := range simBounds(base, s, L+minPad+bufLen*(skip+2)) {
				if bd+delta-fAbs(pre, kind, f) >= L+minPad {
					if skip == 0 {
						want = bd
						break
					}
					skip--
				}
			}
			if want >= 0 {
				pad = want + delta - fAbs(pre, kind, f) - L
				if o.maxBytes > 0 && L+pad+len(pre)+len(ptext) > o.maxBytes-8 {
					pad = freePad
					if o.maxBytes > 0 {
						pad = min(pad, max(0, o.maxBytes-8-L-len(pre)-len(ptext)))
					}
				} else {
					// the filler may contain multi-byte runes that straddle earlier refill points and shift later ones: re-solve
					seed := pr.x
					for iter := 0; iter < 4 && pad >= 0; iter++ {
						fp := &prng{x: seed}
						cand := prefix + c18doc.Filler(pad, fp.next, false) + pre + ptext
						pos := L + pad + fAbs(pre, kind, f)
						near, dist := -1, 1<<30
						for _, bd := range simBounds(cand+"    ", s, pos+8) {
							if d := abs(bd + delta - pos); d < dist {
								near, dist = bd, d
							}
						}
						if near < 0 {
							break
						}
						if dist == 0 {
							aligned = true
							break
						}
						pad += near + delta - pos
					}
					if pad < 0 {
						pad = 0
					}
					pr.x = seed
				}
			}
		}
		filler := c18doc.Filler(pad, pr.next, false)
		doc.WriteString(filler)
		doc.WriteString(pre)
		b.Starts = append(b.Starts, doc.Len())
		if kind != "none" && (aligned || smallChunks) {
			b.Anchors = append(b.Anchors, Anchor{Kind: kind, Delta: delta, Offset: L + pad + fAbs(pre, kind, f)})
		}
		doc.WriteString(ptext)
	}
	// tail
	switch rapid.IntRange(0, 5).Draw(t, "tail") {
	case 0:
	case 1:
		doc.WriteString("\n")
	case 2:
		doc.WriteString(" // trailing comment without newline é")
	case 3:
		doc.WriteString(c18doc.Filler(rapid.IntRange(0, 40).Draw(t, "tailpad"), pr.next, false))
	case 4:
		doc.WriteString("\r\n\r\n")
	default:
		doc.WriteString("/* end */")
	}
	b.Doc = doc.String()
	if b.Mut != "" && strings.HasPrefix(b.Mut, "eof:") {
		// truncate right after the mutated policy's text
		b.Doc = b.Doc[:b.Starts[b.MutPol]+truncLen(b.Mut)]
	}
	return b
}

func abs(x int) int {
	if x < 0 {
		return -x
	}
	return x
}

// fAbs: offset of the feature relative to the start of (pre + policy text)
func fAbs(pre, kind string, f int) int {
	for _, pp := range prePieces {
		if pp.kind == kind && pp.text == pre {
			return f
		}
	}
	return len(pre) + f
}

var (
	renderRejects    int
	renderRejectText []string
)

func noteRenderReject(text string, err error) {
	renderRejects++
	if len(renderRejectText) < 5 {
		renderRejectText = append(renderRejectText, fmt.Sprintf("%q: %v", text, err))
	}
}

// mutate makes a policy text invalid. The returned label starts with "tok:" (tokenizer error), "parse:" (parser error)
// or "eof:<n>" (document truncated n bytes into this policy).
func mutate(t *rapid.T, text string) (string, string) {
	mid := func() int {
		// a position between tokens: after the first '('
		i := strings.IndexByte(text, '(')
		if i < 0 {
			return 0
		}
		return i + 1
	}
	switch rapid.IntRange(0, 20).Draw(t, "mutkind") {
	case 0:
		i := mid()
		return text[:i] + " \"abc\n " + text[i:], "tok:unterminated-string"
	case 1:
		i := mid()
		return text[:i] + ` "\q" ` + text[i:], "tok:bad-escape"
	case 2:
		return text + " /* unterminated é", "tok:unterminated-comment"
	case 3:
		i := mid()
		return text[:i] + "\x00" + text[i:], "tok:nul"
	case 4:
		i := mid()
		return text[:i] + "\xff" + text[i:], "tok:invalid-utf8"
	case 5:
		return text + " \xe6\x97", "tok:truncated-rune-at-eof"
	case 6:
		i := mid()
		return text[:i] + ` "\u{110000000}" ` + text[i:], "tok:bad-unicode-escape"
	case 7:
		i := mid()
		return text[:i] + ` "\x4" ` + text[i:], "tok:bad-hex-escape"
	case 8:
		i := mid()
		c := []string{"#", "$", "~", "?", "'a'", "=", "&", "|", "^", "%", "é", "日"}[rapid.IntRange(0, 11).Draw(t, "badchar")]
		return text[:i] + c + text[i:], "parse:unknown-char"
	case 9:
		if i := strings.LastIndexByte(text, ';'); i >= 0 {
			return text[:i] + text[i+1:], "parse:missing-semicolon"
		}
	case 10:
		if strings.HasPrefix(text, "permit") {
			return "permi" + text[6:], "parse:bad-effect"
		}
		if strings.HasPrefix(text, "forbid") {
			return "forbidd" + text[6:], "parse:bad-effect"
		}
	case 11:
		i := mid()
		return text[:i] + ")" + text[i:], "parse:stray-paren"
	case 12:
		n := rapid.IntRange(1, max(1, len(text)-1)).Draw(t, "trunc")
		for n < len(text) && !utf8.RuneStart(text[n]) {
			n++
		}
		return text, fmt.Sprintf("eof:%d", n)
	case 13:
		i := mid()
		return text[:i] + "99999999999999999999" + text[i:], "parse:huge-int"
	case 14:
		return text + ";", "parse:extra-semicolon"
	case 16, 17, 18, 19, 20:
		// a forbidden byte where the tokenizer only skips: inside a line comment (short, and longer than the read
		// buffer), inside a block comment, right before the end of the line
		bad := []string{"\x00", "\xff", "\xc3", "\xed\xa0\x80"}[rapid.IntRange(0, 3).Draw(t, "badbyte")]
		name := []string{"nul", "invalid-utf8", "truncated-rune", "surrogate"}[map[string]int{"\x00": 0, "\xff": 1, "\xc3": 2, "\xed\xa0\x80": 3}[bad]]
		i := mid()
		switch rapid.IntRange(0, 4).Draw(t, "badwhere") {
		case 0:
			return text[:i] + " // c" + bad + "c\n" + text[i:], "tok:" + name + "-in-line-comment"
		case 1:
			return text[:i] + " // " + strings.Repeat("c", rapid.IntRange(1000, 1100).Draw(t, "padlen")) + bad + "c\n" + text[i:], "tok:" + name + "-in-long-line-comment"
		case 2:
			return text[:i] + " /* c" + bad + "c */ " + text[i:], "tok:" + name + "-in-block-comment"
		case 3:
			return text[:i] + " //" + bad + "\n" + text[i:], "tok:" + name + "-ending-line-comment"
		default:
			return "// " + bad + "\n" + text, "tok:" + name + "-in-leading-comment"
		}
	}
	return text + " when", "parse:trailing-when"
}

func truncLen(mut string) int {
	var n int
	fmt.Sscanf(mut, "eof:%d", &n)
	return n
}

// hashable summary of a case for samples
func shortDoc(d string) string {
	if len(d) > 300 {
		return d[:150] + " … " + d[len(d)-100:]
	}
	return d
}

var _ = ir.Hash
