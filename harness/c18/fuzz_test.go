package c18

// Native fuzz targets (thorough tier only, driven by ./check through meta fuzz_targets).
// Oracle of FuzzChunkedDecode: "chunked decode == whole-slice decode" for arbitrary bytes and arbitrary chunkings.
// Oracle of FuzzFaultDecode: a reader failure before the end of the input never ends in io.EOF.

import (
	"strings"
	"testing"
)

var fuzzSizes = []int{0, 1, 2, 3, 5, 7, 13, 64, 255, 512, 1000, 1021, 1022, 1023, 1024, 1025}

func fuzzSched(sizes []byte, flags uint8) Sched {
	s := Sched{Kind: "chunks", Rest: 1024, EOFWithData: flags&8 != 0}
	switch flags & 7 {
	case 1:
		s.Kind = "onebyte"
	case 2:
		s.Kind = "half"
	case 3:
		s.Kind = "dataerr"
	case 4:
		s.Kind = "dataerr-chunks"
	case 5:
		s.Kind = "bytes"
	}
	if len(sizes) > 64 {
		sizes = sizes[:64]
	}
	nonzero := false
	for _, b := range sizes {
		c := fuzzSizes[int(b)%len(fuzzSizes)]
		if b >= 128 {
			c = int(b) * 9
		}
		nonzero = nonzero || c > 0
		s.Sizes = append(s.Sizes, c)
	}
	s.Cycle = nonzero && flags&16 != 0
	if flags&32 != 0 {
		s.Rest = 1
	}
	return s
}

func fuzzSeeds(f *testing.F, add func(doc string)) {
	for i := 0; i < 12; i++ {
		add(faultDoc(i).Doc)
	}
	for _, p := range handPolicies {
		add(p)
		add(strings.Repeat(" ", 1020) + p)
		add("/*" + strings.Repeat("é", 509) + "*/" + p + "\r\n// 日本\n" + p)
	}
	add("")
	add("permit(principal, action, resource) when { \"" + strings.Repeat("日", 700) + "\" == \"\\u{1F600}\" };")
	add(strings.Repeat("permit(principal,action,resource);\n", 300))
	add("permit(principal, action, resource) when { \"abc\n };")
	add("/* never closed")
	add("permit(principal, action, resource)\x00;")
	add("\xff\xfe permit")
}

func FuzzChunkedDecode(f *testing.F) {
	fuzzSeeds(f, func(doc string) {
		f.Add([]byte(doc), []byte{}, uint8(0))
		f.Add([]byte(doc), []byte{1}, uint8(16))
		f.Add([]byte(doc), []byte{13, 0, 14, 2, 15}, uint8(16|8))
		f.Add([]byte(doc), []byte{3, 200}, uint8(4))
		f.Add([]byte(doc), []byte{}, uint8(2))
	})
	f.Fuzz(func(t *testing.T, data []byte, sizes []byte, flags uint8) {
		if len(data) > 1<<16 {
			return
		}
		c := mkCase(string(data))
		c.Sched = fuzzSched(sizes, flags)
		if sub, msg, _ := checkStream(&c); sub != "" {
			t.Fatalf("C18/%s: %s", sub, msg)
		}
	})
}

func FuzzFaultDecode(f *testing.F) {
	fuzzSeeds(f, func(doc string) {
		f.Add([]byte(doc), uint16(0), []byte{}, uint8(0))
		f.Add([]byte(doc), uint16(len(doc)/2), []byte{1}, uint8(16|64))
		f.Add([]byte(doc), uint16(len(doc)-1), []byte{14}, uint8(16))
		f.Add([]byte(doc), uint16(35), []byte{3, 200}, uint8(64))
	})
	f.Fuzz(func(t *testing.T, data []byte, k uint16, sizes []byte, flags uint8) {
		if len(data) == 0 || len(data) > 1<<16 {
			return
		}
		c := mkCase(string(data))
		c.Sched = fuzzSched(sizes, flags)
		c.Fault = Fault{At: int(k) % len(data), WithData: flags&64 != 0}
		if flags&128 != 0 {
			c.Fault.Err = "unexpected-eof"
		}
		if flags&8 != 0 {
			c.Fault.Then = "eof"
		}
		if sub, msg := checkFault(&c); sub != "" {
			t.Fatalf("C18/%s: %s", sub, msg)
		}
	})
}
