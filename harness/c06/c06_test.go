// C06: partial evaluation is sound for every completion of the unknowns.
package c06

import (
	"encoding/json"
	"fmt"
	"sort"
	"strings"
	"testing"

	pubast "github.com/cedar-policy/cedar-go/ast"
	"github.com/cedar-policy/cedar-go/types"
	xast "github.com/cedar-policy/cedar-go/x/exp/ast"
	xeval "github.com/cedar-policy/cedar-go/x/exp/eval"
	"pgregory.net/rapid"

	"verif/conv"
	"verif/ev"
	"verif/gen"
	"verif/ir"
	"verif/ref"
)

func TestMain(m *testing.M) { ev.Main(m, "C06") }

const (
	varType    = "__cedar::variable"
	ignoreType = "__cedar::ignore"
)

func mkVar(name string) ir.Value { return ir.Ent(varType, name) }
func mkIgnore() ir.Value         { return ir.Ent(ignoreType, "") }
func isVar(v ir.Value) bool      { return v.K == ir.KEntity && v.T == varType }
func isIgnore(v ir.Value) bool   { return v.K == ir.KEntity && v.T == ignoreType }

// Case: a policy, a store, a request in which unknown parts are marker entities, and the completions to try.
// A completion maps variable names (and "ignore:<path>" for ignored positions) to concrete values.
type Case struct {
	Policy      *ir.Policy            `json:"policy"`
	Store       ir.Store              `json:"store"`
	Part        ir.Request            `json:"part"`
	Completions []map[string]ir.Value `json:"completions"`
}

// subst replaces markers below v; path names the position for ignore markers.
func subst(v ir.Value, path string, comp map[string]ir.Value) ir.Value {
	switch {
	case isVar(v):
		if c, ok := comp[v.S]; ok {
			return c
		}
		return v
	case isIgnore(v):
		if c, ok := comp["ignore:"+path]; ok {
			return c
		}
		return v
	}
	switch v.K {
	case ir.KSet:
		out := ir.Value{K: ir.KSet}
		for i, e := range v.Elems {
			x := subst(e, fmt.Sprintf("%s[%d]", path, i), comp)
			if !out.Contains(x) {
				out.Elems = append(out.Elems, x)
			}
		}
		return out
	case ir.KRecord:
		out := ir.Value{K: ir.KRecord}
		for _, f := range v.Fields {
			out.Fields = append(out.Fields, ir.F(f.K, subst(f.V, path+"."+f.K, comp)))
		}
		return out
	}
	return v
}

func complete(r ir.Request, comp map[string]ir.Value) ir.Request {
	return ir.Request{
		Principal: subst(r.Principal, "principal", comp),
		Action:    subst(r.Action, "action", comp),
		Resource:  subst(r.Resource, "resource", comp),
		Context:   subst(r.Context, "context", comp),
	}
}

// markers lists the unknown positions of the request: name (variables) or "ignore:path".
func markers(r ir.Request) (vars []string, ignores []string) {
	seen := map[string]bool{}
	var walk func(v ir.Value, path string)
	walk = func(v ir.Value, path string) {
		switch {
		case isVar(v):
			if !seen[v.S] {
				seen[v.S] = true
				vars = append(vars, v.S)
			}
			return
		case isIgnore(v):
			ignores = append(ignores, "ignore:"+path)
			return
		}
		for i, e := range v.Elems {
			walk(e, fmt.Sprintf("%s[%d]", path, i))
		}
		for _, f := range v.Fields {
			walk(f.V, path+"."+f.K)
		}
	}
	walk(r.Principal, "principal")
	walk(r.Action, "action")
	walk(r.Resource, "resource")
	walk(r.Context, "context")
	return
}

func toEnv(store types.EntityMap, r ir.Request) xeval.Env {
	return xeval.Env{Entities: store, Principal: conv.ToValue(r.Principal), Action: conv.ToValue(r.Action), Resource: conv.ToValue(r.Resource), Context: conv.ToValue(r.Context)}
}

func classOf(v types.Value, err error) ref.Outcome {
	if err != nil {
		return ref.Erroring
	}
	b, ok := v.(types.Boolean)
	if !ok {
		return ref.Erroring
	}
	if b {
		return ref.Satisfied
	}
	return ref.Unsatisfied
}

type result struct {
	sub, msg       string
	kept           bool
	sat, unsat     int
	errEquivalent  bool
	residualErrors bool
}

func check(c *Case) (res result) {
	defer func() {
		if r := recover(); r != nil {
			res.sub, res.msg = "panic", fmt.Sprint(r)
		}
	}()
	res.errEquivalent = true
	store := conv.ToEntityMap(c.Store)
	xp := conv.ToXPolicy(c.Policy)
	_, ignores := markers(c.Part)
	ignoreMode := len(ignores) > 0
	residual, keep := xeval.PartialPolicy(toEnv(store, c.Part), xp)
	res.kept = keep
	if keep {
		if residual == nil {
			res.sub, res.msg = "residual/nil", "PartialPolicy returned keep=true with a nil policy"
			return
		}
		// the residual must be a well-formed policy: marshalling must not panic
		pp := (*pubast.Policy)(residual)
		_ = pp.MarshalCedar()
		if _, err := pp.MarshalJSON(); err != nil {
			res.sub, res.msg = "residual/json", "residual policy does not marshal to JSON: "+err.Error()
			return
		}
	}
	anySat := false
	for ci, comp := range c.Completions {
		creq := complete(c.Part, comp)
		if v, i := markers(creq); len(v)+len(i) > 0 {
			res.sub, res.msg = "harness", fmt.Sprintf("completion %d leaves markers %v %v", ci, v, i)
			return
		}
		env := toEnv(store, creq)
		orig, _ := ref.PolicyOutcome(c.Policy, ref.NewEnv(c.Store, creq))
		// the original through cedar-go as well (ties the oracle to C01)
		ov, oerr := xeval.Eval(xeval.PolicyToNode(xp).AsIsNode(), env)
		if classOf(ov, oerr) != orig {
			res.sub, res.msg = "reference", fmt.Sprintf("completion %d: cedar-go evaluates the original policy to %v, the reference to %v (%v)", ci, classOf(ov, oerr), orig, oerr)
			return
		}
		if orig == ref.Satisfied {
			res.sat++
			anySat = true
		} else {
			res.unsat++
		}
		if !keep {
			if orig == ref.Satisfied {
				res.sub = "dropped-but-satisfiable"
				if ignoreMode {
					res.sub = "ignore/dropped-but-satisfiable"
				}
				res.msg = fmt.Sprintf("policy was dropped, but completion %d %s satisfies the original policy", ci, ir.JSON(comp))
				return
			}
			continue
		}
		rv, rerr := xeval.Eval(xeval.PolicyToNode(residual).AsIsNode(), env)
		rc := classOf(rv, rerr)
		if (rc == ref.Erroring) != (orig == ref.Erroring) {
			res.errEquivalent = false
		}
		if rc == ref.Erroring {
			res.residualErrors = true
		}
		if orig == ref.Satisfied && rc != ref.Satisfied {
			res.sub = "residual-not-satisfied"
			if ignoreMode {
				res.sub = "ignore/residual-not-satisfied"
			}
			res.msg = fmt.Sprintf("completion %d %s: original satisfied, residual %v (%v); residual: %s", ci, ir.JSON(comp), rc, rerr, (*pubast.Policy)(residual).MarshalCedar())
			return
		}
		if !ignoreMode && orig != ref.Satisfied && rc == ref.Satisfied {
			res.sub = "residual-satisfied-original-not"
			res.msg = fmt.Sprintf("completion %d %s: original %v, residual satisfied; residual: %s", ci, ir.JSON(comp), orig, (*pubast.Policy)(residual).MarshalCedar())
			return
		}
	}
	_ = anySat
	// Ignored parts: the residual of a permit has to be satisfied whenever SOME value of the ignored part satisfies the
	// original - so, for one assignment of the variables, it must be satisfied whatever stands in the ignored position:
	// each of the candidate values and the ignore marker itself.
	if ignoreMode && keep && c.Policy.Permit {
		groups := map[string][]int{}
		var order []string
		satisfiable := map[string]bool{}
		for ci, comp := range c.Completions {
			vars := map[string]ir.Value{}
			for k, v := range comp {
				if !strings.HasPrefix(k, "ignore:") {
					vars[k] = v
				}
			}
			key := ir.JSON(vars)
			if _, ok := groups[key]; !ok {
				order = append(order, key)
			}
			groups[key] = append(groups[key], ci)
			if o, _ := ref.PolicyOutcome(c.Policy, ref.NewEnv(c.Store, complete(c.Part, comp))); o == ref.Satisfied {
				satisfiable[key] = true
			}
		}
		for _, key := range order {
			if !satisfiable[key] {
				continue
			}
			for _, ci := range append([]int{-1}, groups[key]...) {
				comp := map[string]ir.Value{}
				for k, v := range c.Completions[groups[key][0]] {
					if !strings.HasPrefix(k, "ignore:") {
						comp[k] = v
					}
				}
				standing := "the ignore marker"
				if ci >= 0 {
					comp = c.Completions[ci]
					standing = "completion " + ir.JSON(comp)
				}
				rv, rerr := xeval.Eval(xeval.PolicyToNode(residual).AsIsNode(), toEnv(store, complete(c.Part, comp)))
				if rc := classOf(rv, rerr); rc != ref.Satisfied {
					res.sub = "ignore/residual-depends-on-ignored-part"
					res.msg = fmt.Sprintf("variables %s: some value of the ignored part satisfies the original, but the residual is %v (%v) with %s in the ignored position; residual: %s",
						key, rc, rerr, standing, (*pubast.Policy)(residual).MarshalCedar())
					return
				}
			}
		}
	}
	return
}

// ---------------------------------------------------------------------------------------------
// known findings (matchers are inert once the entry is marked fixed)

// nestedUnknownConsumedWhole: the request has a marker nested inside the context (not the whole context) and the policy
// uses `context` or a context attribute holding the composite in an operator other than attribute selection / has.
func hasNestedMarker(r ir.Request) bool {
	if isVar(r.Context) || isIgnore(r.Context) {
		return false
	}
	v, i := markers(ir.Request{Principal: ir.Ent("x", "x"), Action: ir.Ent("x", "x"), Resource: ir.Ent("x", "x"), Context: r.Context})
	return len(v)+len(i) > 0
}

func hasIsIn(p *ir.Policy) bool {
	f := false
	for _, cd := range p.Conds {
		cd.Body.Walk(func(e *ir.Expr) {
			if e.Op == ir.OpIsIn {
				f = true
			}
		})
	}
	return f
}

func excluded(c *Case) string {
	if ev.KnownOpen("C06", "nested-unknown-consumed-whole") && hasNestedMarker(c.Part) {
		return "nested-unknown-consumed-whole"
	}
	if ev.KnownOpen("C06", "isin-short-circuit") && hasIsIn(c.Policy) {
		return "isin-short-circuit"
	}
	return ""
}

func run(c *Case, class string, fail func(sub, msg string)) bool {
	if k := excluded(c); k != "" {
		ev.R.Excluded(k)
		return true
	}
	r := check(c)
	vars, ignores := markers(c.Part)
	referenced := false
	for _, cj := range c.Policy.Conjuncts() {
		cj.Walk(func(e *ir.Expr) {
			if e.Op == ir.OpVar {
				referenced = true
			}
		})
	}
	labels := []string{class}
	if len(ignores) > 0 {
		labels = append(labels, "ignore")
	}
	if hasNestedMarker(c.Part) {
		labels = append(labels, "unknown-nested-in-context")
	}
	if r.kept {
		labels = append(labels, "policy-kept")
		if r.residualErrors {
			labels = append(labels, "error-embedded-or-raised-by-residual")
		}
		if !r.errEquivalent {
			labels = append(labels, "residual-error-differs-from-original-error")
		}
	} else {
		labels = append(labels, "policy-dropped")
	}
	nt := len(vars)+len(ignores) > 0 && referenced && r.sat > 0 && r.unsat > 0
	if nt {
		labels = append(labels, "both-outcomes-among-completions")
	}
	ev.R.Case(ir.Hash(c), nt, labels...)
	ev.R.Count(int64(len(c.Completions)))
	if ev.R.WantSample(class) && nt {
		var conds []string
		for _, cd := range c.Policy.Conds {
			conds = append(conds, cd.Body.String())
		}
		ev.R.Sample(class, map[string]any{"conditions": conds, "partial_request": c.Part, "completions": len(c.Completions), "kept": r.kept})
	}
	if r.sub != "" {
		ev.R.Violation(r.sub, c, r.msg)
		fail(r.sub, r.msg)
		return false
	}
	return true
}

// ---------------------------------------------------------------------------------------------
// generation

func policyLiterals(p *ir.Policy) (ents, others []ir.Value) {
	add := func(v ir.Value) {
		if v.K == ir.KEntity {
			ents = append(ents, v)
		} else if v.K != ir.KSet && v.K != ir.KRecord {
			others = append(others, v)
		}
	}
	for _, sc := range []ir.Scope{p.Principal, p.Action, p.Resource} {
		if sc.Entity != nil {
			add(*sc.Entity)
		}
		for _, e := range sc.Entities {
			add(e)
		}
	}
	for _, cd := range p.Conds {
		cd.Body.Walk(func(e *ir.Expr) {
			if e.Op == ir.OpLit {
				add(*e.Lit)
				for _, m := range e.Lit.Elems {
					add(m)
				}
			}
		})
	}
	return
}

// candidates for an unknown whose true value is base.
func candidates(rt *rapid.T, base ir.Value, ents, others []ir.Value, store ir.Store, label string) []ir.Value {
	out := []ir.Value{base}
	addv := func(v ir.Value) {
		for _, o := range out {
			if ir.Equal(o, v) {
				return
			}
		}
		if len(out) < 4 {
			out = append(out, v)
		}
	}
	switch base.K {
	case ir.KEntity:
		for _, e := range ents {
			addv(e)
		}
		for _, e := range store {
			addv(e.UID)
		}
		addv(ir.Ent(base.T, "fresh"))
	case ir.KRecord:
		addv(ir.Rec())
		if len(base.Fields) > 0 {
			m := ir.Value{K: ir.KRecord}
			for i, f := range base.Fields {
				if i == 0 && len(others) > 0 {
					m.Fields = append(m.Fields, ir.F(f.K, others[0]))
				} else if i > 0 {
					m.Fields = append(m.Fields, f)
				}
			}
			addv(m)
		}
		addv(gen.RecordVal(rt, 1, gen.DefaultValOpts))
	default:
		for _, o := range others {
			if o.K == base.K {
				addv(o)
			}
		}
		for _, o := range others {
			addv(o)
		}
		addv(gen.ValueOfKind(rt, base.K, 1, gen.DefaultValOpts))
	}
	return out
}

// extra condition shapes whose skipped operand errors
func hardShapes(rt *rapid.T, w *gen.World) *ir.Expr {
	bad := rapid.SampledFrom([]*ir.Expr{
		ir.Bin(ir.OpAdd, ir.Lit(ir.Long(1)), ir.Lit(ir.Str("a"))),
		ir.Access(ir.Lit(ir.Rec()), "nope"),
		ir.Bin(ir.OpLt, ir.Lit(ir.Long(1)), ir.Lit(ir.Str("a"))),
		ir.Lit(ir.Long(7)),
	}).Draw(rt, "bad")
	v := ir.Var(rapid.SampledFrom([]string{"principal", "resource"}).Draw(rt, "v"))
	ty := gen.Pick(rt, gen.EntityTypes, "ty")
	ctxk := ir.Access(ir.Var("context"), gen.Pick(rt, gen.KeysSmall, "ck"))
	shapes := []*ir.Expr{
		ir.Un(ir.OpNot, ir.IsIn(v, ty, bad)),
		ir.IsIn(v, ty, bad),
		ir.Bin(ir.OpOr, ir.Bin(ir.OpAnd, ir.Is(v, ty), bad), ir.Lit(ir.Bool(true))),
		ir.Un(ir.OpNot, ir.Bin(ir.OpAnd, ir.Is(v, ty), bad)),
		ir.Bin(ir.OpOr, ir.Is(v, ty), bad),
		ir.If(ir.Is(v, ty), ir.Lit(ir.Bool(true)), bad),
		ir.If(ir.Is(v, ty), bad, ir.Lit(ir.Bool(true))),
		ir.Bin(ir.OpEq, ir.Var("context"), ir.Lit(w.Req.Context)),
		ir.Bin(ir.OpContains, ir.SetE(ctxk, ir.Lit(ir.Long(1))), ir.Lit(ir.Long(1))),
		ir.Bin(ir.OpEq, ctxk, ctxk),
		ir.Bin(ir.OpAnd, ir.Has(ir.Var("context"), gen.Pick(rt, gen.KeysSmall, "hk")), ir.Bin(ir.OpEq, ctxk, ir.Lit(ir.Long(1)))),
		ir.Bin(ir.OpIn, v, ir.SetE(ir.Var("resource"), ir.Lit(gen.EntityVal(rt)))),
		ir.Bin(ir.OpEq, v, ir.Lit(gen.EntityVal(rt))),
		// a branch that is a composite holding a nested unknown, behind an unknown guard
		ir.Bin(ir.OpEq, ir.Access(ir.If(ir.Is(v, ty), ir.Access(ir.Var("context"), "x"), ir.Lit(ir.Rec(ir.F("a", ir.Long(1))))), "a"), ir.Lit(ir.Long(1))),
		ir.Bin(ir.OpEq, ir.Access(ir.If(ir.Is(v, ty), ir.Lit(ir.Rec(ir.F("a", ir.Long(1)))), ir.Access(ir.Var("context"), "x")), "a"), ir.Lit(ir.Long(1))),
		ir.Bin(ir.OpEq, ir.If(ir.Is(v, ty), ir.Var("context"), ir.Lit(w.Req.Context)), ir.Lit(w.Req.Context)),
		// `is .. in` whose right operand comes from the (possibly unknown or ignored) context
		ir.IsIn(v, ty, ctxk),
		ir.IsIn(v, ty, ir.SetE(ctxk)),
		ir.Un(ir.OpNot, ir.IsIn(v, ty, ctxk)),
	}
	return shapes[rapid.IntRange(0, len(shapes)-1).Draw(rt, "shape")]
}

func genCase(rt *rapid.T) *Case {
	o := gen.DefaultExprOpts
	o.BadCtorPct = 4
	o.BadFuncPct = 1
	w := gen.GenWorld(rt, 4, o.Val)
	if len(w.Req.Context.Fields) == 0 || rapid.IntRange(0, 2).Draw(rt, "morectx") == 0 {
		w.Req.Context = ir.Rec(ir.F("a", ir.Long(int64(rapid.IntRange(0, 2).Draw(rt, "ca")))), ir.F("k", ir.Str(gen.Pick(rt, []string{"a", "b"}, "ck"))), ir.F("x", ir.Rec(ir.F("a", ir.Long(1)))), ir.F("b", ir.Set(ir.Long(1), ir.Long(2))))
	}
	p := gen.GenPolicy(rt, &w, gen.PolicyOpts{Expr: o, MaxConds: 3, Depth: 3})
	if rapid.IntRange(0, 2).Draw(rt, "hard") == 0 {
		p.Conds = append(p.Conds, ir.Cond{When: rapid.IntRange(0, 3).Draw(rt, "hw") > 0, Body: hardShapes(rt, &w)})
	}
	c := &Case{Policy: p, Store: w.Store, Part: w.Req}
	ents, others := policyLiterals(p)
	type unk struct {
		name  string
		cands []ir.Value
	}
	var unks []unk
	ignoreOK := p.Permit // ignore is only specified for permits
	emptyNameUsed := false
	choose := func(part string, base ir.Value) ir.Value {
		k := rapid.IntRange(0, 9).Draw(rt, part+"mode")
		switch {
		case k < 4:
			return base
		case k < 8 || !ignoreOK:
			name := part
			if !emptyNameUsed && rapid.IntRange(0, 5).Draw(rt, part+"emptyname") == 0 {
				// the empty string is a variable name like any other
				name, emptyNameUsed = "", true
			}
			unks = append(unks, unk{name, candidates(rt, base, ents, others, w.Store, part)})
			return mkVar(name)
		default:
			unks = append(unks, unk{"ignore:" + part, candidates(rt, base, ents, others, w.Store, part)})
			return mkIgnore()
		}
	}
	c.Part.Principal = choose("principal", w.Req.Principal)
	c.Part.Action = choose("action", w.Req.Action)
	c.Part.Resource = choose("resource", w.Req.Resource)
	switch k := rapid.IntRange(0, 9).Draw(rt, "ctxmode"); {
	case k < 3:
	case k < 5:
		c.Part.Context = choose("context", w.Req.Context)
	default:
		// some fields unknown: top-level field, field nested in a record, member of a set
		ctx := ir.Value{K: ir.KRecord}
		for _, f := range w.Req.Context.Fields {
			nf := f
			if rapid.IntRange(0, 2).Draw(rt, "funk") == 0 {
				name := "ctx_" + f.K
				switch {
				case f.V.K == ir.KRecord && len(f.V.Fields) > 0 && rapid.Bool().Draw(rt, "nestrec"):
					inner := ir.Value{K: ir.KRecord}
					for j, g := range f.V.Fields {
						if j == 0 {
							unks = append(unks, unk{name, candidates(rt, g.V, ents, others, w.Store, name)})
							inner.Fields = append(inner.Fields, ir.F(g.K, mkVar(name)))
						} else {
							inner.Fields = append(inner.Fields, g)
						}
					}
					nf = ir.F(f.K, inner)
				case f.V.K == ir.KSet && len(f.V.Elems) > 0 && rapid.Bool().Draw(rt, "nestset"):
					s := ir.Value{K: ir.KSet, Elems: append([]ir.Value{mkVar(name)}, f.V.Elems[1:]...)}
					unks = append(unks, unk{name, candidates(rt, f.V.Elems[0], ents, others, w.Store, name)})
					nf = ir.F(f.K, s)
				default:
					if ignoreOK && rapid.IntRange(0, 4).Draw(rt, "fign") == 0 {
						unks = append(unks, unk{"ignore:context." + f.K, candidates(rt, f.V, ents, others, w.Store, name)})
						nf = ir.F(f.K, mkIgnore())
					} else {
						unks = append(unks, unk{name, candidates(rt, f.V, ents, others, w.Store, name)})
						nf = ir.F(f.K, mkVar(name))
					}
				}
			}
			ctx.Fields = append(ctx.Fields, nf)
		}
		c.Part.Context = ctx
	}
	// product of candidates, bounded to 64 by a systematic stride
	total := 1
	for _, u := range unks {
		total *= len(u.cands)
	}
	stride := 1
	if total > 64 {
		stride = total/64 + 1
	}
	for idx := 0; idx < total; idx += stride {
		comp := map[string]ir.Value{}
		k := idx
		for _, u := range unks {
			comp[u.name] = u.cands[k%len(u.cands)]
			k /= len(u.cands)
		}
		c.Completions = append(c.Completions, comp)
	}
	return c
}

func TestRandom(t *testing.T) {
	ev.SetChecks(ev.Scale(9000, 1000000))
	ev.Check(t, func(rt *rapid.T) {
		c := genCase(rt)
		if !run(c, "random", func(string, string) {}) {
			rt.Fatalf("C06/random: partial evaluation is unsound for some completion")
		}
	})
}

// TestTable: hand-picked shapes x every unknown pattern of (principal, resource, context.a) x completions.
func TestTable(t *testing.T) {
	if !ev.First() {
		return
	}
	n := 0
	fail := func(sub, msg string) {
		n++
		if n <= 15 {
			t.Errorf("C06/%s: %s", sub, msg)
		}
	}
	store := ir.Store{{UID: ir.Ent("T0", "a"), Parents: []ir.Value{ir.Ent("T1", "g")}, Attrs: []ir.Field{ir.F("x", ir.Long(1))}}, {UID: ir.Ent("T1", "g")}, {UID: ir.Ent("T1", "r")}}
	base := ir.Request{Principal: ir.Ent("T0", "a"), Action: ir.Ent("Action", "view"), Resource: ir.Ent("T1", "r"), Context: ir.Rec(ir.F("a", ir.Long(1)), ir.F("k", ir.Str("s")))}
	P, R, C := ir.Var("principal"), ir.Var("resource"), ir.Var("context")
	bad := ir.Bin(ir.OpAdd, ir.Lit(ir.Long(1)), ir.Lit(ir.Str("a")))
	conds := []*ir.Expr{
		ir.Bin(ir.OpEq, P, ir.Lit(ir.Ent("T0", "a"))), ir.Bin(ir.OpIn, P, ir.Lit(ir.Ent("T1", "g"))), ir.Is(P, "T0"), ir.IsIn(P, "T0", ir.Lit(ir.Ent("T1", "g"))),
		ir.Un(ir.OpNot, ir.IsIn(P, "T1", bad)), ir.IsIn(P, "T1", bad), ir.Bin(ir.OpEq, ir.Access(P, "x"), ir.Access(C, "a")), ir.Has(P, "x"), ir.Bin(ir.OpAnd, ir.Has(P, "x"), ir.Bin(ir.OpEq, ir.Access(P, "x"), ir.Lit(ir.Long(1)))),
		ir.Bin(ir.OpEq, ir.Access(C, "a"), ir.Lit(ir.Long(1))), ir.Bin(ir.OpEq, C, ir.Lit(base.Context)), ir.Bin(ir.OpContains, ir.SetE(ir.Access(C, "a")), ir.Lit(ir.Long(1))), ir.Has(C, "a"), ir.Has(C, "zz"),
		ir.Bin(ir.OpOr, ir.Bin(ir.OpEq, P, R), ir.Bin(ir.OpEq, ir.Access(C, "a"), ir.Lit(ir.Long(2)))), ir.Bin(ir.OpAnd, ir.Bin(ir.OpEq, ir.Access(C, "a"), ir.Lit(ir.Long(1))), bad), ir.Bin(ir.OpOr, ir.Bin(ir.OpEq, ir.Access(C, "a"), ir.Lit(ir.Long(1))), bad),
		ir.If(ir.Bin(ir.OpEq, ir.Access(C, "a"), ir.Lit(ir.Long(1))), ir.Lit(ir.Bool(true)), bad), ir.If(ir.Is(P, "T0"), ir.Bin(ir.OpEq, R, ir.Lit(ir.Ent("T1", "r"))), bad),
		ir.Bin(ir.OpLt, ir.Access(C, "a"), ir.Lit(ir.Long(2))), ir.Like(ir.Access(C, "k"), []ir.PatElem{{Lit: "s"}, {Wild: true}}), ir.Bin(ir.OpIn, P, ir.SetE(R, ir.Lit(ir.Ent("T1", "g")))),
	}
	// every ordering operator with operands that are known and EQUAL (the boundary) next to something unknown, in both
	// operand orders: a partial evaluator that folds a known sub-expression with the wrong operator shows here
	for _, op := range []ir.Op{ir.OpLt, ir.OpLe, ir.OpGt, ir.OpGe, ir.OpEq, ir.OpNe} {
		for _, k := range []int64{0, 1, 2} {
			conds = append(conds,
				ir.Bin(ir.OpAnd, ir.Bin(op, ir.Access(C, "a"), ir.Lit(ir.Long(k))), ir.Bin(ir.OpEq, P, ir.Lit(ir.Ent("T0", "a")))),
				ir.Bin(ir.OpOr, ir.Bin(op, ir.Lit(ir.Long(k)), ir.Access(C, "a")), ir.Bin(ir.OpEq, R, ir.Lit(ir.Ent("T0", "a")))))
		}
	}
	for _, f := range []string{"lessThan", "lessThanOrEqual", "greaterThan", "greaterThanOrEqual"} {
		conds = append(conds, ir.Bin(ir.OpAnd, ir.Ext(f, ir.Ext("decimal", ir.Lit(ir.Str("1.0"))), ir.Lit(ir.Decimal(10000))), ir.Bin(ir.OpEq, P, ir.Lit(ir.Ent("T0", "a")))))
	}
	for _, op := range []ir.Op{ir.OpLt, ir.OpLe, ir.OpGt, ir.OpGe} {
		conds = append(conds,
			ir.Bin(ir.OpAnd, ir.Bin(op, ir.Lit(ir.Datetime(5)), ir.Ext("datetime", ir.Lit(ir.Str("1970-01-01T00:00:00.005Z")))), ir.Is(P, "T0")),
			ir.Bin(ir.OpAnd, ir.Bin(op, ir.Lit(ir.Duration(7)), ir.Ext("duration", ir.Lit(ir.Str("7ms")))), ir.Is(P, "T0")),
			ir.Bin(ir.OpAnd, ir.Bin(op, ir.Bin(ir.OpAdd, ir.Access(C, "a"), ir.Lit(ir.Long(1))), ir.Lit(ir.Long(2))), ir.Is(P, "T0")))
	}
	// `x is T in <failing>` whose left operand is not an unknown itself but an expression that depends on one (an `if`, an
	// attribute of the unknown principal): the type test may still short-circuit once the unknown is bound
	conds = append(conds,
		ir.Un(ir.OpNot, ir.IsIn(ir.If(ir.Is(P, "T0"), R, P), "T0", bad)),
		ir.IsIn(ir.If(ir.Bin(ir.OpEq, ir.Access(C, "a"), ir.Lit(ir.Long(1))), P, R), "T0", bad),
		ir.Un(ir.OpNot, ir.IsIn(ir.Access(ir.RecE([]string{"e"}, []*ir.Expr{P}), "e"), "T1", bad)),
		ir.Bin(ir.OpOr, ir.IsIn(ir.If(ir.Is(R, "T1"), P, R), "T1", bad), ir.Is(P, "T0")))
	// `if <unknown> then X else X`: both branches agree, but the guard can still fail (or be a non-Boolean) once it is bound
	tt := func() *ir.Expr { return ir.Lit(ir.Bool(true)) }
	conds = append(conds,
		ir.If(ir.Access(C, "a"), tt(), tt()),
		ir.If(ir.Bin(ir.OpLt, ir.Access(C, "a"), ir.Lit(ir.Long(2))), tt(), tt()),
		ir.If(ir.Bin(ir.OpEq, ir.Access(P, "x"), ir.Lit(ir.Long(1))), tt(), tt()),
		ir.If(ir.Bin(ir.OpEq, ir.Access(P, "x"), ir.Lit(ir.Long(1))), ir.Is(R, "T1"), ir.Bin(ir.OpEq, R, ir.Lit(ir.Ent("T1", "r")))),
		ir.Bin(ir.OpEq, ir.If(ir.Access(C, "a"), ir.Lit(ir.Long(7)), ir.Lit(ir.Long(7))), ir.Lit(ir.Long(7))),
		ir.Un(ir.OpNot, ir.If(ir.Bin(ir.OpIn, P, ir.Access(C, "a")), ir.Lit(ir.Bool(false)), ir.Lit(ir.Bool(false)))))
	scopes := []func(p *ir.Policy){func(p *ir.Policy) {}, func(p *ir.Policy) { p.Principal = ir.ScopeIn(ir.Ent("T1", "g")) }, func(p *ir.Policy) {
		p.Principal = ir.ScopeIsIn("T0", ir.Ent("T1", "g"))
		p.Resource = ir.ScopeEq(ir.Ent("T1", "r"))
	}, func(p *ir.Policy) { p.Resource = ir.ScopeIs("T0") },
		// scope targets that are reached through two parent links, the last one to an entity that has no entry of its own
		func(p *ir.Policy) { p.Principal = ir.ScopeIn(ir.Ent("T1", "top")) },
		func(p *ir.Policy) { p.Principal = ir.ScopeIsIn("T0", ir.Ent("T1", "top")) },
		func(p *ir.Policy) {
			p.Action = ir.ScopeInSet([]ir.Value{ir.Ent("Action", "zz"), ir.Ent("Action", "all")})
			p.Resource = ir.ScopeIn(ir.Ent("T1", "r"))
		},
		func(p *ir.Policy) { p.Action = ir.ScopeIn(ir.Ent("Action", "all")) }}
	store = append(store, ir.Entity{UID: ir.Ent("Action", "view"), Parents: []ir.Value{ir.Ent("Action", "readers")}}, ir.Entity{UID: ir.Ent("Action", "readers"), Parents: []ir.Value{ir.Ent("Action", "all")}})
	store[1].Parents = []ir.Value{ir.Ent("T1", "top")}
	pc := []ir.Value{ir.Ent("T0", "a"), ir.Ent("T1", "g"), ir.Ent("T0", "zz")}
	rc := []ir.Value{ir.Ent("T1", "r"), ir.Ent("T0", "a")}
	ac := []ir.Value{ir.Long(1), ir.Long(2), ir.Str("s"), ir.Bool(true)}
	count := 0
	for ci, cond := range conds {
		for si, sc := range scopes {
			if ci >= 22 && si > 0 {
				continue // the operator-boundary conditions are crossed with the plain scope only
			}
			for _, permit := range []bool{true, false} {
				for mask := 1; mask < 27; mask++ { // each of P, R, context.a: 0 concrete, 1 variable, 2 ignore
					mp, mr, ma := mask%3, mask/3%3, mask/9
					if !permit && (mp == 2 || mr == 2 || ma == 2) {
						continue
					}
					for _, when := range []bool{true, false} {
						p := ir.NewPolicy(permit)
						sc(p)
						p.Conds = []ir.Cond{{When: when, Body: cond}}
						part := base
						dims := [][]ir.Value{{ir.Value{}}, {ir.Value{}}, {ir.Value{}}}
						names := []string{"", "", ""}
						if mp > 0 {
							part.Principal, names[0], dims[0] = []ir.Value{mkVar("principal"), mkIgnore()}[mp-1], []string{"principal", "ignore:principal"}[mp-1], pc
						}
						if mr > 0 {
							part.Resource, names[1], dims[1] = []ir.Value{mkVar("resource"), mkIgnore()}[mr-1], []string{"resource", "ignore:resource"}[mr-1], rc
						}
						if ma > 0 {
							part.Context = ir.Rec(ir.F("a", []ir.Value{mkVar("ctx_a"), mkIgnore()}[ma-1]), ir.F("k", ir.Str("s")))
							names[2], dims[2] = []string{"ctx_a", "ignore:context.a"}[ma-1], ac
						}
						c := &Case{Policy: p, Store: store, Part: part}
						for _, a := range dims[0] {
							for _, b := range dims[1] {
								for _, d := range dims[2] {
									comp := map[string]ir.Value{}
									for i, v := range []ir.Value{a, b, d} {
										if names[i] != "" {
											comp[names[i]] = v
										}
									}
									c.Completions = append(c.Completions, comp)
								}
							}
						}
						count++
						run(c, fmt.Sprintf("table:cond%02d", ci), fail)
						_ = si
					}
				}
			}
		}
	}
	ev.R.Space("condition shapes x scope shapes x effect x {concrete,variable,ignore}^3 for principal/resource/context.a x when/unless, all completions", count)
}

// TestTableNested: shapes in which a branch / operand is a composite holding a nested unknown, or an `is .. in` whose right
// operand is unknown or ignored, crossed with every unknown pattern of principal, context.e, context.x.a, context.d.a and the
// whole context being ignored.
func TestTableNested(t *testing.T) {
	if !ev.First() {
		return
	}
	n := 0
	fail := func(sub, msg string) {
		n++
		if n <= 15 {
			t.Errorf("C06/%s: %s", sub, msg)
		}
	}
	store := ir.Store{{UID: ir.Ent("T0", "a"), Parents: []ir.Value{ir.Ent("T1", "g")}}, {UID: ir.Ent("T1", "g")}, {UID: ir.Ent("T1", "r")}}
	rec1 := ir.Rec(ir.F("a", ir.Long(1)))
	baseCtx := func(e, xa, da ir.Value) ir.Value {
		// "s" holds the same (possibly unknown) entity nested inside a set value
		return ir.Rec(ir.F("a", ir.Long(1)), ir.F("e", e), ir.F("s", ir.Set(e, ir.Ent("T1", "r"))), ir.F("x", ir.Rec(ir.F("a", xa))), ir.F("d", ir.Rec(ir.F("a", da))))
	}
	P, R, C := ir.Var("principal"), ir.Var("resource"), ir.Var("context")
	one := ir.Lit(ir.Long(1))
	conds := []*ir.Expr{
		ir.IsIn(P, "T0", ir.Access(C, "e")),
		ir.Un(ir.OpNot, ir.IsIn(P, "T1", ir.Access(C, "e"))),
		ir.Bin(ir.OpEq, ir.Access(ir.If(ir.Is(P, "T0"), ir.Access(C, "x"), ir.Access(C, "d")), "a"), one),
		ir.Bin(ir.OpEq, ir.Access(ir.If(ir.Is(P, "T1"), ir.Access(C, "x"), ir.Access(C, "d")), "a"), one),
		ir.Bin(ir.OpEq, ir.If(ir.Is(P, "T0"), ir.Access(C, "x"), ir.Lit(rec1)), ir.Lit(rec1)),
		ir.Bin(ir.OpEq, ir.If(ir.Is(P, "T1"), ir.Lit(rec1), ir.Access(C, "d")), ir.Lit(rec1)),
		ir.Bin(ir.OpIn, P, ir.SetE(ir.Access(C, "e"), R)),
		ir.Bin(ir.OpContains, ir.SetE(ir.Access(C, "x")), ir.Lit(rec1)),
		ir.Bin(ir.OpEq, ir.Access(C, "x"), ir.Access(C, "d")),
		ir.Bin(ir.OpAnd, ir.Has(ir.Access(C, "x"), "a"), ir.Bin(ir.OpEq, ir.Access(ir.Access(C, "x"), "a"), one)),
		ir.Bin(ir.OpOr, ir.Bin(ir.OpEq, ir.Access(ir.Access(C, "d"), "a"), ir.Lit(ir.Long(2))), ir.IsIn(P, "T0", ir.Access(C, "e"))),
		ir.Bin(ir.OpEq, C, ir.Lit(baseCtx(ir.Ent("T1", "g"), ir.Long(1), ir.Long(1)))),
		ir.IsIn(P, "T0", ir.SetE(ir.Access(C, "e"))),
		// the right operand is a set *value* holding the unknown (not a set literal expression)
		ir.IsIn(P, "T0", ir.Access(C, "s")),
		ir.Un(ir.OpNot, ir.IsIn(P, "T0", ir.Access(C, "s"))),
		ir.Bin(ir.OpIn, P, ir.Access(C, "s")),
		ir.Bin(ir.OpContains, ir.Access(C, "s"), ir.Lit(ir.Ent("T1", "g"))),
		ir.Bin(ir.OpAnd, ir.Is(P, "T0"), ir.Bin(ir.OpContainsAny, ir.Access(C, "s"), ir.SetE(ir.Lit(ir.Ent("T1", "g")), ir.Lit(ir.Ent("T0", "zz"))))),
		// a set / record *literal* wrapped around a context value that holds a nested unknown, consumed whole, behind a guard
		// that is itself unknown (so that the residual of the operator - not the original condition - is what gets used)
		ir.Bin(ir.OpAnd, ir.Is(P, "T0"), ir.Bin(ir.OpContains, ir.SetE(ir.Access(C, "x")), ir.Lit(rec1))),
		ir.Bin(ir.OpOr, ir.Is(P, "T1"), ir.Bin(ir.OpContains, ir.SetE(ir.Access(C, "x")), ir.Lit(rec1))),
		ir.If(ir.Is(P, "T0"), ir.Bin(ir.OpContains, ir.SetE(ir.Access(C, "x"), ir.Access(C, "d")), ir.Lit(rec1)), ir.Lit(ir.Bool(false))),
		ir.Bin(ir.OpAnd, ir.Is(P, "T0"), ir.Bin(ir.OpEq, ir.RecE([]string{"r"}, []*ir.Expr{ir.Access(C, "x")}), ir.RecE([]string{"r"}, []*ir.Expr{ir.Lit(rec1)}))),
		ir.Bin(ir.OpEq, ir.RecE([]string{"r"}, []*ir.Expr{ir.Access(C, "x")}), ir.RecE([]string{"r"}, []*ir.Expr{ir.RecE([]string{"a"}, []*ir.Expr{ir.Access(ir.Access(C, "d"), "a")})})),
		ir.Bin(ir.OpAnd, ir.Is(P, "T0"), ir.Bin(ir.OpContainsAll, ir.SetE(ir.Access(C, "x"), ir.Lit(rec1)), ir.SetE(ir.Access(C, "d")))),
	}
	pc := []ir.Value{ir.Ent("T0", "a"), ir.Ent("T1", "g")}
	ec := []ir.Value{ir.Ent("T1", "g"), ir.Ent("T0", "zz")}
	lc := []ir.Value{ir.Long(1), ir.Long(2)}
	count := 0
	for ci, cond := range conds {
		for _, permit := range []bool{true, false} {
			for _, when := range []bool{true, false} {
				for mp := 0; mp < 2; mp++ {
					for me := 0; me < 3; me++ {
						for mx := 0; mx < 3; mx++ { // 2: context.x.a is ignored
							for md := 0; md < 2; md++ {
								for wholeIgnore := 0; wholeIgnore < 2; wholeIgnore++ {
									if (me == 2 || mx == 2 || wholeIgnore == 1) && !permit {
										continue
									}
									if wholeIgnore == 1 && (me+mx+md) > 0 {
										continue
									}
									if mp+me+mx+md+wholeIgnore == 0 {
										continue
									}
									p := ir.NewPolicy(permit)
									p.Conds = []ir.Cond{{When: when, Body: cond}}
									type dim struct {
										name  string
										cands []ir.Value
									}
									var dims []dim
									part := ir.Request{Principal: ir.Ent("T0", "a"), Action: ir.Ent("Action", "view"), Resource: ir.Ent("T1", "r")}
									if mp == 1 {
										part.Principal = mkVar("principal")
										dims = append(dims, dim{"principal", pc})
									}
									e, xa, da := ir.Ent("T1", "g"), ir.Long(1), ir.Long(1)
									switch me {
									case 1:
										e = mkVar("ctx_e")
										dims = append(dims, dim{"ctx_e", ec})
									case 2:
										e = mkIgnore()
										dims = append(dims, dim{"ignore:context.e", ec})
									}
									if mx == 1 {
										xa = mkVar("ctx_xa")
										dims = append(dims, dim{"ctx_xa", lc})
									} else if mx == 2 {
										xa = mkIgnore()
										dims = append(dims, dim{"ignore:context.x.a", lc})
									}
									if md == 1 {
										da = mkVar("ctx_da")
										dims = append(dims, dim{"ctx_da", lc})
									}
									part.Context = baseCtx(e, xa, da)
									if wholeIgnore == 1 {
										part.Context = mkIgnore()
										dims = append(dims, dim{"ignore:context", []ir.Value{baseCtx(ec[0], lc[0], lc[0]), baseCtx(ec[1], lc[1], lc[0]), baseCtx(ec[0], lc[0], lc[1])}})
									}
									c := &Case{Policy: p, Store: store, Part: part}
									total := 1
									for _, d := range dims {
										total *= len(d.cands)
									}
									for idx := 0; idx < total; idx++ {
										comp := map[string]ir.Value{}
										k := idx
										for _, d := range dims {
											comp[d.name] = d.cands[k%len(d.cands)]
											k /= len(d.cands)
										}
										// the ignored entity also sits inside the set value context.s: same value there
										if v, ok := comp["ignore:context.e"]; ok {
											comp["ignore:context.s[0]"] = v
										}
										c.Completions = append(c.Completions, comp)
									}
									count++
									run(c, fmt.Sprintf("nested-table:cond%02d", ci), fail)
								}
							}
						}
					}
				}
			}
		}
	}
	ev.R.Space("nested-unknown / is-in condition shapes x effect x when/unless x unknown patterns of principal, context.e (incl. ignore), context.x.a, context.d.a, whole context ignored; all completions", count)
}

func TestKnown(t *testing.T) {
	if !ev.First() {
		return
	}
	store := ir.Store{{UID: ir.Ent("T0", "a")}}
	base := ir.Request{Principal: ir.Ent("T0", "a"), Action: ir.Ent("Action", "view"), Resource: ir.Ent("T1", "r"), Context: ir.Rec(ir.F("a", ir.Long(1)))}
	if ev.KnownOpen("C06", "nested-unknown-consumed-whole") {
		p := ir.NewPolicy(true)
		p.Conds = []ir.Cond{{When: true, Body: ir.Bin(ir.OpEq, ir.Var("context"), ir.Lit(ir.Rec(ir.F("a", ir.Long(1)))))}}
		part := base
		part.Context = ir.Rec(ir.F("a", mkVar("ctx_a")))
		c := &Case{Policy: p, Store: store, Part: part, Completions: []map[string]ir.Value{{"ctx_a": ir.Long(1)}}}
		if r := check(c); r.sub != "" {
			ev.R.KnownFinding("nested-unknown-consumed-whole", "permit when { context == {a: 1} } with context = {a: <unknown>}: "+r.msg)
		}
	}
	if ev.KnownOpen("C06", "isin-short-circuit") {
		p := ir.NewPolicy(true)
		p.Conds = []ir.Cond{{When: true, Body: ir.Un(ir.OpNot, ir.IsIn(ir.Var("principal"), "T1", ir.Bin(ir.OpAdd, ir.Lit(ir.Long(1)), ir.Lit(ir.Str("a")))))}}
		part := base
		part.Resource = mkVar("resource")
		c := &Case{Policy: p, Store: store, Part: part, Completions: []map[string]ir.Value{{"resource": ir.Ent("T1", "r")}}}
		if r := check(c); r.sub != "" {
			ev.R.KnownFinding("isin-short-circuit", "permit when { !(principal is T1 in (1 + \"a\")) } with principal T0::\"a\": "+r.msg)
		}
	}
}

func TestReplay(t *testing.T) {
	rf, ok, err := ev.LoadReplay()
	if !ok {
		t.Skip("no replay requested")
	}
	if err != nil {
		t.Fatal(err)
	}
	if ev.ReplayFuzz(t, rf, fuzzProps, nil) {
		return
	}
	var c Case
	if err := json.Unmarshal(rf.Case, &c); err != nil || c.Policy == nil {
		t.Fatalf("cannot decode replay case: %v", err)
	}
	if r := check(&c); r.sub != "" {
		ev.R.Violation(r.sub, &c, r.msg)
		t.Fatalf("C06 replay %s: %s", r.sub, r.msg)
	}
}

var _ = sort.Strings
var _ xast.IsNode
