package c14

// Coverage-guided driving of this package's rapid properties (thorough tier; see ev/fuzz.go).

import (
	"testing"

	"verif/ev"
)

var fuzzProps = map[string]func(*testing.T){
	"FuzzPropPolicyCodecs": TestPolicyCodecs,
	"FuzzPropDataCodecs": TestDataCodecs,
}

func FuzzPropPolicyCodecs(f *testing.F) { ev.FuzzProp(f, TestPolicyCodecs) }
func FuzzPropDataCodecs(f *testing.F) { ev.FuzzProp(f, TestDataCodecs) }
