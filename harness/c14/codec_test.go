package c14

// Encoder / decoder determinism: policies, policy sets, entities, values, schemas.

import (
	"encoding/json"
	"fmt"
	"reflect"
	"strings"
	"testing"

	cedar "github.com/cedar-policy/cedar-go"
	"github.com/cedar-policy/cedar-go/types"
	"github.com/cedar-policy/cedar-go/x/exp/schema"
	"pgregory.net/rapid"

	"verif/conv"
	"verif/ev"
	"verif/gen"
	"verif/ir"
)

// same runs f n times and reports the first output that differs from the first one. ok=false: f failed on the first run (leg skipped).
func same(n int, f func() ([]byte, error)) (differs bool, first, other string, ok bool) {
	b0, err := f()
	if err != nil {
		ev.R.Label("leg-skipped", 1)
		return false, "", "", false
	}
	for i := 1; i < n; i++ {
		b, err := f()
		if err != nil {
			return true, string(b0), "error: " + err.Error(), true
		}
		if string(b) != string(b0) {
			return true, string(b0), string(b), true
		}
	}
	ev.R.Count(int64(n))
	return false, string(b0), "", true
}

func diffMsg(what, a, b string) string {
	return fmt.Sprintf("%s is not stable across repetitions:\n first: %s\n later: %s", what, clip(a), clip(b))
}

func clip(s string) string {
	if len(s) > 1500 {
		return s[:1500] + "…"
	}
	return s
}

func valueHasWideRecord(v ir.Value) bool {
	if v.K == ir.KRecord && len(v.Fields) >= 2 {
		return true
	}
	for _, e := range v.Elems {
		if valueHasWideRecord(e) {
			return true
		}
	}
	for _, f := range v.Fields {
		if valueHasWideRecord(f.V) {
			return true
		}
	}
	return false
}

// matchesJSONRecordOrder: the policy's JSON form holds a Record node with >= 2 keys.
func matchesJSONRecordOrder(p *ir.Policy) bool {
	hit := false
	for _, c := range p.Conds {
		c.Body.Walk(func(x *ir.Expr) {
			if x.Op == ir.OpRecord && len(x.Args) >= 2 {
				hit = true
			}
			if x.Op == ir.OpLit && valueHasWideRecord(*x.Lit) {
				hit = true
			}
		})
	}
	return hit
}

func matchesJSONAnnotationOrder(p *ir.Policy) bool { return len(p.Annotations) >= 2 }

// syntacticMultiRisk: a record literal with >= 2 fields that are not plain literals (may fail under some binding).
func syntacticMultiRisk(p *ir.Policy) bool {
	hit := false
	for _, c := range p.Conds {
		c.Body.Walk(func(x *ir.Expr) {
			if x.Op != ir.OpRecord {
				return
			}
			n := 0
			for _, a := range x.Args {
				if a.Op != ir.OpLit {
					n++
				}
			}
			if n >= 2 {
				hit = true
			}
		})
	}
	return hit
}

// checkPolicyCodecs: marshal repetition and decode-then-encode repetition for every policy and for the set.
// force=true ignores the known-finding matchers (TestKnown, replay).
func checkPolicyCodecs(c *Case, force bool) (sub, msg string) {
	defer func() {
		if r := recover(); r != nil {
			// a panicking codec is C10's finding, not a determinism failure; skip the case
			ev.R.Label("codec-panic-skipped", 1)
			sub, msg = "", ""
		}
	}()
	r := c.R
	skipRec := !force && ev.KnownOpen("C14", "json-decode-record-key-order")
	skipAnn := !force && ev.KnownOpen("C14", "json-decode-annotation-order")
	jsonTextOK := func(p *ir.Policy) bool {
		if skipRec && matchesJSONRecordOrder(p) {
			ev.R.Excluded("json-decode-record-key-order")
			return false
		}
		if skipAnn && matchesJSONAnnotationOrder(p) {
			ev.R.Excluded("json-decode-annotation-order")
			return false
		}
		return true
	}
	allJSONTextOK := true
	for _, np := range c.Policies {
		obj := conv.ToPolicy(np.P)
		d0, firstText, b0, _ := same(r, func() ([]byte, error) { return obj.MarshalCedar(), nil })
		if d0 {
			return "marshal/policy-cedar", diffMsg("Policy.MarshalCedar of one object", firstText, b0)
		}
		if d, a, b, _ := same(r, obj.MarshalJSON); d {
			return "marshal/policy-json", diffMsg("Policy.MarshalJSON of one object", a, b)
		}
		text := obj.MarshalCedar()
		if string(text) != firstText {
			return "marshal/policy-cedar", diffMsg("Policy.MarshalCedar of one object before and after MarshalJSON", firstText, string(text))
		}
		if d, a, b, _ := same(r, func() ([]byte, error) {
			var q cedar.Policy
			if err := q.UnmarshalCedar(text); err != nil {
				return nil, err
			}
			return q.MarshalCedar(), nil
		}); d {
			return "reencode/policy-text-text", diffMsg(fmt.Sprintf("UnmarshalCedar(%q) then MarshalCedar", text), a, b)
		}
		if d, a, b, _ := same(r, func() ([]byte, error) {
			var q cedar.Policy
			if err := q.UnmarshalCedar(text); err != nil {
				return nil, err
			}
			return q.MarshalJSON()
		}); d {
			return "reencode/policy-text-json", diffMsg(fmt.Sprintf("UnmarshalCedar(%q) then MarshalJSON", text), a, b)
		}
		js, err := obj.MarshalJSON()
		if err != nil {
			ev.R.Label("leg-skipped", 1)
			continue
		}
		if d, a, b, _ := same(r, func() ([]byte, error) {
			var q cedar.Policy
			if err := q.UnmarshalJSON(js); err != nil {
				return nil, err
			}
			return q.MarshalJSON()
		}); d {
			return "reencode/policy-json-json", diffMsg(fmt.Sprintf("UnmarshalJSON(%s) then MarshalJSON", js), a, b)
		}
		if jsonTextOK(np.P) {
			if d, a, b, _ := same(r, func() ([]byte, error) {
				var q cedar.Policy
				if err := q.UnmarshalJSON(js); err != nil {
					return nil, err
				}
				return q.MarshalCedar(), nil
			}); d {
				return "reencode/policy-json-text", diffMsg(fmt.Sprintf("UnmarshalJSON(%s) then MarshalCedar", js), a, b)
			}
		} else {
			allJSONTextOK = false
		}
	}
	// the set
	set := buildSet(c.Policies, nil)
	d, setText, b, _ := same(r, func() ([]byte, error) { return set.MarshalCedar(), nil })
	if d {
		return "marshal/set-cedar", diffMsg("PolicySet.MarshalCedar of one object", setText, b)
	}
	d, setJSON, b, okJSON := same(r, set.MarshalJSON)
	if d {
		return "marshal/set-json", diffMsg("PolicySet.MarshalJSON of one object", setJSON, b)
	}
	if again := string(set.MarshalCedar()); again != setText {
		return "marshal/set-cedar", diffMsg("PolicySet.MarshalCedar of one object before and after MarshalJSON", setText, again)
	}
	for _, perm := range c.Perms {
		s2 := buildSet(c.Policies, perm)
		if got := string(s2.MarshalCedar()); got != setText {
			return "marshal/set-insertion-order", diffMsg(fmt.Sprintf("PolicySet.MarshalCedar after adding the same policies in order %v", perm), setText, got)
		}
		if got, err := s2.MarshalJSON(); okJSON && err == nil && string(got) != setJSON {
			return "marshal/set-insertion-order", diffMsg(fmt.Sprintf("PolicySet.MarshalJSON after adding the same policies in order %v", perm), setJSON, string(got))
		}
	}
	if d, a, b, _ := same(r, func() ([]byte, error) {
		s, err := cedar.NewPolicySetFromBytes("f.cedar", []byte(setText))
		if err != nil {
			return nil, err
		}
		return s.MarshalCedar(), nil
	}); d {
		return "reencode/set-text-text", diffMsg("NewPolicySetFromBytes then MarshalCedar", a, b)
	}
	if d, a, b, _ := same(r, func() ([]byte, error) {
		s, err := cedar.NewPolicySetFromBytes("f.cedar", []byte(setText))
		if err != nil {
			return nil, err
		}
		return s.MarshalJSON()
	}); d {
		return "reencode/set-text-json", diffMsg("NewPolicySetFromBytes then MarshalJSON", a, b)
	}
	if okJSON {
		if d, a, b, _ := same(r, func() ([]byte, error) {
			var s cedar.PolicySet
			if err := s.UnmarshalJSON([]byte(setJSON)); err != nil {
				return nil, err
			}
			return s.MarshalJSON()
		}); d {
			return "reencode/set-json-json", diffMsg("PolicySet.UnmarshalJSON then MarshalJSON", a, b)
		}
		if allJSONTextOK {
			if d, a, b, _ := same(r, func() ([]byte, error) {
				var s cedar.PolicySet
				if err := s.UnmarshalJSON([]byte(setJSON)); err != nil {
					return nil, err
				}
				return s.MarshalCedar(), nil
			}); d {
				return "reencode/set-json-text", diffMsg("PolicySet.UnmarshalJSON then MarshalCedar", a, b)
			}
		}
	}
	return "", ""
}

// codecPolicies: engineered (>= 3 annotations, record literals with >= 3 keys) plus generated policies.
func codecPolicies(t *rapid.T, w *gen.World) []Named {
	openRec := ev.KnownOpen("C14", "json-decode-record-key-order")
	openAnn := ev.KnownOpen("C14", "json-decode-annotation-order")
	var ps []*ir.Policy
	n := rapid.IntRange(2, 5).Draw(t, "npol")
	po := gen.PolicyOpts{Expr: gen.DefaultExprOpts, MaxConds: 2, Depth: 3, Annot: true}
	po.Expr.BadFuncPct = 0
	for i := 0; i < n; i++ {
		var p *ir.Policy
		if rapid.Bool().Draw(t, "generated") {
			p = gen.GenPolicy(t, w, po)
		} else {
			p = ir.NewPolicy(rapid.Bool().Draw(t, "permit"))
		}
		// while the findings are open, half of the cases stay inside the unaffected class so that the JSON->text legs still run
		wide := rapid.Bool().Draw(t, "wide")
		if wide || !openAnn {
			na := rapid.IntRange(3, 5).Draw(t, "nann")
			p.Annotations = nil
			for _, k := range rapid.Permutation([]string{"id", "a", "b", "c", "zz", "_x", "A"}).Draw(t, "annkeys")[:na] {
				p.Annotations = append(p.Annotations, ir.Annotation{K: k, V: gen.Pick(t, []string{"", "v", "é", "a b"}, "annval")})
			}
		} else if len(p.Annotations) > 1 {
			p.Annotations = p.Annotations[:1]
		}
		if wide || !openRec {
			nk := rapid.IntRange(3, 5).Draw(t, "nkeys")
			keys := distinctKeys(t, nk)
			var es []*ir.Expr
			for j := 0; j < nk; j++ {
				switch rapid.IntRange(0, 3).Draw(t, "fieldkind") {
				case 0:
					es = append(es, lit(ir.Long(int64(j))))
				case 1:
					es = append(es, lit(ir.Str(keys[j])))
				case 2:
					es = append(es, ir.Var("principal"))
				default:
					es = append(es, ir.RecE([]string{"n1", "n2", "n3"}, []*ir.Expr{lit(ir.Long(1)), lit(ir.Bool(true)), ctxVar}))
				}
			}
			p.Conds = append(p.Conds, ir.Cond{When: rapid.Bool().Draw(t, "when"), Body: ir.Bin(ir.OpEq, ir.RecE(keys, es), ctxVar)})
		}
		ps = append(ps, p)
	}
	ids := rapid.Permutation(idPool).Draw(t, "ids")
	var out []Named
	for i, p := range ps {
		out = append(out, Named{ID: ids[i], P: p})
	}
	return out
}

func TestPolicyCodecs(t *testing.T) {
	ev.SetChecks(ev.Scale(240, 2000))
	ev.Check(t, func(rt *rapid.T) {
		w := engineeredWorld(rt)
		c := &Case{Family: "policy-codec", R: R()}
		c.Policies = codecPolicies(rt, &w)
		c.Perms = [][]int{rapid.Permutation(seq(len(c.Policies))).Draw(rt, "perm"), rapid.Permutation(seq(len(c.Policies))).Draw(rt, "perm")}
		wideA, wideR := false, false
		for _, np := range c.Policies {
			wideA = wideA || len(np.P.Annotations) >= 3
			wideR = wideR || matchesJSONRecordOrder(np.P)
		}
		labels := []string{"policy-codec"}
		if wideA {
			labels = append(labels, "annotations>=3")
		}
		if wideR {
			labels = append(labels, "record-literal>=2-keys")
		}
		ev.R.Case(ir.Hash(c), len(c.Policies) >= 2, labels...)
		if ev.R.WantSample("policy-codec") {
			ev.R.Sample("policy-codec", map[string]any{"text": clip(string(buildSet(c.Policies, nil).MarshalCedar())), "perms": c.Perms})
		}
		ev.Watch("policy-codec", func() any { return c })
		sub, msg := checkPolicyCodecs(c, false)
		ev.Unwatch()
		if sub != "" {
			ev.R.Violation(sub, c, msg)
			rt.Fatalf("C14/policy-codec: encoder or decoder output is not stable")
		}
	})
}

// ---------------------------------------------------------------------------------------------
// entities and values

func checkDataCodecs(c *Case) (sub, msg string) {
	defer func() {
		if r := recover(); r != nil {
			ev.R.Label("codec-panic-skipped", 1)
			sub, msg = "", ""
		}
	}()
	r := c.R
	if c.World != nil {
		m := conv.ToEntityMap(c.World.Store)
		d, ej, b, ok := same(r, m.MarshalJSON)
		if d {
			return "marshal/entities-json", diffMsg("EntityMap.MarshalJSON of one map", ej, b)
		}
		if ok {
			if got, err := entityMapIn(c.World.Store, true).MarshalJSON(); err == nil && string(got) != ej {
				return "marshal/entities-insertion-order", diffMsg("EntityMap.MarshalJSON of a map filled in reverse order", ej, string(got))
			}
			if d, a, b, _ := same(r, func() ([]byte, error) {
				var mm types.EntityMap
				if err := json.Unmarshal([]byte(ej), &mm); err != nil {
					return nil, err
				}
				return mm.MarshalJSON()
			}); d {
				return "reencode/entities-json-json", diffMsg("EntityMap.UnmarshalJSON then MarshalJSON", a, b)
			}
		}
		for _, e := range m {
			if d, a, b, _ := same(max(2, r/4), e.MarshalJSON); d {
				return "marshal/entity-json", diffMsg("Entity.MarshalJSON of one entity", a, b)
			}
		}
	}
	for _, iv := range c.Values {
		v := conv.ToValue(iv)
		if d, a, b, _ := same(r, func() ([]byte, error) { return v.MarshalCedar(), nil }); d {
			return "marshal/value-cedar", diffMsg("Value.MarshalCedar of one value", a, b)
		}
		if d, a, b, _ := same(r, func() ([]byte, error) { return []byte(v.String()), nil }); d {
			return "marshal/value-string", diffMsg("Value.String of one value", a, b)
		}
		d, vj, b, ok := same(r, func() ([]byte, error) { return json.Marshal(v) })
		if d {
			return "marshal/value-json", diffMsg("json.Marshal of one value", vj, b)
		}
		if !ok {
			continue
		}
		if d, a, b, _ := same(r, func() ([]byte, error) {
			var x types.Value
			if err := types.UnmarshalJSON([]byte(vj), &x); err != nil {
				return nil, err
			}
			return json.Marshal(x)
		}); d {
			return "reencode/value-json-json", diffMsg(fmt.Sprintf("types.UnmarshalJSON(%s) then json.Marshal", vj), a, b)
		}
		if d, a, b, _ := same(r, func() ([]byte, error) {
			var x types.Value
			if err := types.UnmarshalJSON([]byte(vj), &x); err != nil {
				return nil, err
			}
			return x.MarshalCedar(), nil
		}); d {
			return "reencode/value-json-cedar", diffMsg(fmt.Sprintf("types.UnmarshalJSON(%s) then MarshalCedar", vj), a, b)
		}
	}
	return "", ""
}

// collision universe: values that share cedar-go's internal hash, so that set slots are assigned by probing
var collide = []ir.Value{ir.Bool(false), ir.Long(0), ir.Decimal(0), ir.Duration(0), ir.Datetime(0), ir.Bool(true), ir.Long(1), ir.Decimal(1), ir.Duration(1), ir.Long(2), ir.Str("1"), ir.Set(), ir.Rec()}

func TestDataCodecs(t *testing.T) {
	ev.SetChecks(ev.Scale(240, 2000))
	ev.Check(t, func(rt *rapid.T) {
		w := engineeredWorld(rt)
		// entity uids that collide under a naive rendering (type and id concatenated without quoting / escaping)
		if rapid.IntRange(0, 2).Draw(rt, "hostileuids") > 0 {
			pool := []ir.Value{ir.Ent("A::B", "c"), ir.Ent("A", "B::c"), ir.Ent("A", "b\"c"), ir.Ent("A", "b\\\"c"), ir.Ent("A::B::C", ""), ir.Ent("A::B", "C::"), ir.Ent("A", "B::C::"),
				ir.Ent("A", "x\"::A::\"y"), ir.Ent("A", "x"), ir.Ent("A", "X"), ir.Ent("a", "x"), ir.Ent("A", "x "), ir.Ent("A", " x"),
				ir.Ent("AB", "C"), ir.Ent("A", "BC"), ir.Ent("Team", "Admins"), ir.Ent("TeamAdmin", "s"), ir.Ent("A::B", "::c"), ir.Ent("A::B::", "c")}
			perm := rapid.Permutation(pool).Draw(rt, "hostileperm")
			n := rapid.IntRange(2, len(pool)).Draw(rt, "nhostile")
			for i, uid := range perm[:n] {
				e := ir.Entity{UID: uid, Attrs: []ir.Field{ir.F("i", ir.Long(int64(i)))}}
				// parents drawn from the same pool, so that the parent ordering is exercised as well
				for j := 0; j < n; j++ {
					if j != i && (i+j)%3 == 0 {
						e.Parents = append(e.Parents, perm[j])
					}
				}
				w.Store = append(w.Store, e)
			}
			// one entity whose parents are all of the chosen uids (ties in any naive parent ordering become visible)
			w.Store = append(w.Store, ir.Entity{UID: ir.Ent("A", "child-of-all"), Parents: append([]ir.Value{}, perm[:n]...)})
		}
		c := &Case{Family: "data-codec", World: &w, R: R()}
		o := gen.DefaultValOpts
		o.Keys = gen.KeysHostile
		nv := rapid.IntRange(1, 4).Draw(rt, "nvals")
		wide := false
		for i := 0; i < nv; i++ {
			var v ir.Value
			switch rapid.IntRange(0, 3).Draw(rt, "valsrc") {
			case 0:
				// a set over the colliding universe, >= 3 members
				perm := rapid.Permutation(collide).Draw(rt, "collide")
				v = ir.Set(perm[:rapid.IntRange(3, 7).Draw(rt, "ncollide")]...)
			case 1:
				// a record with >= 3 keys
				keys := rapid.Permutation(gen.KeysHostile).Draw(rt, "hkeys")[:rapid.IntRange(3, 6).Draw(rt, "nhkeys")]
				var fs []ir.Field
				for _, k := range keys {
					fs = append(fs, ir.F(k, gen.Value(rt, 1, o)))
				}
				v = ir.Rec(fs...)
			default:
				v = gen.Value(rt, 3, o)
			}
			wide = wide || len(v.Elems) >= 2 || len(v.Fields) >= 2
			c.Values = append(c.Values, v)
		}
		ev.R.Case(ir.Hash(c), wide && len(w.Store) >= 5, "data-codec", fmt.Sprintf("entities>=5:%v", len(w.Store) >= 5))
		if ev.R.WantSample("data-codec") {
			var vs []string
			for _, v := range c.Values {
				vs = append(vs, v.String())
			}
			ev.R.Sample("data-codec", map[string]any{"values": vs, "entities": len(w.Store)})
		}
		ev.Watch("data-codec", func() any { return c })
		sub, msg := checkDataCodecs(c)
		ev.Unwatch()
		if sub != "" {
			ev.R.Violation(sub, c, msg)
			rt.Fatalf("C14/data-codec: encoder or decoder output is not stable")
		}
	})
}

// ---------------------------------------------------------------------------------------------
// schemas

type block struct {
	head  string // "" = top level
	decls []string
}

var schemaBlocks = []block{
	{"", []string{
		`@doc("top") type Name = String;`,
		`type Ctx = { ip: ipaddr, "when": datetime, n: Name, "a b"?: Long };`,
		`type Ids = Set<Long>;`,
		`type Money = decimal;`,
		`@a @b("x") @c("y") entity User in [Group] { name: String, age?: Long, tags: Set<String> } tags String;`,
		`entity Group;`,
		`entity Doc { owner: User, meta: { a: Long, b: Bool, c: String } };`,
		`entity Photo in [Group, Album];`,
		`entity Album;`,
		`entity Color enum ["red", "green", "blue"];`,
		`entity Size enum ["s", "m", "l"];`,
		`entity Mode enum ["x"];`,
		`action view appliesTo { principal: [User], resource: [Doc, Photo], context: Ctx };`,
		`action edit in [view] appliesTo { principal: [User, Group], resource: [Doc] };`,
		`@z("1") @y("2") @x("3") action "delete all" appliesTo { principal: User, resource: Doc, context: { force: Bool, why?: String, n: Long } };`,
		`action grp;`,
		`action list in [view, grp];`,
	}},
	{"namespace NS1", []string{
		`type T = Long;`, `type T2 = Set<T>;`, `type T3 = { a: T, b: T2, c: Bool };`,
		`entity E1;`, `entity E2 in [E1];`, `entity E3 { t: T, u: T3 };`,
		`entity En enum ["a"];`, `entity En2 enum ["b", "c"];`, `entity En3 enum ["d", "e", "f"];`,
		`action a1 appliesTo { principal: [E1], resource: [E2] };`, `action a2;`, `action a3 in [a2];`,
	}},
	{`@ns("x") @m("y") @k("z") namespace A::B`, []string{
		`entity X;`, `entity Y;`, `entity Z in [Y, X];`,
		`type U = { x: X };`, `type V = Long;`, `type W = String;`,
		`entity Q enum ["1"];`, `entity Q2 enum ["2"];`, `entity Q3 enum ["3"];`,
		`action q appliesTo { principal: [X], resource: [Y], context: U };`, `action r;`, `action s in [r, q];`,
	}},
	{"namespace Extra", []string{`entity Only;`, `action only appliesTo { principal: Only, resource: Only };`}},
}

func schemaText(blockOrder []int, declOrders [][]int, keep []bool) string {
	var sb strings.Builder
	for _, bi := range blockOrder {
		if !keep[bi] {
			continue
		}
		b := schemaBlocks[bi]
		if b.head != "" {
			sb.WriteString(b.head + " {\n")
		}
		for _, di := range declOrders[bi] {
			sb.WriteString(b.decls[di] + "\n")
		}
		if b.head != "" {
			sb.WriteString("}\n")
		}
	}
	return sb.String()
}

var schemaFixed = func() string {
	var orders [][]int
	for _, b := range schemaBlocks {
		orders = append(orders, seq(len(b.decls)))
	}
	return schemaText(seq(len(schemaBlocks)), orders, []bool{true, true, true, true})
}()

// schemaLegs runs text->text, text->JSON, JSON->JSON, JSON->text once ("" for a failed leg).
func schemaLegs(text string) []string {
	out := make([]string, 4)
	var s schema.Schema
	if err := s.UnmarshalCedar([]byte(text)); err != nil {
		return out
	}
	if b, err := s.MarshalCedar(); err == nil {
		out[0] = string(b)
	}
	j, err := s.MarshalJSON()
	if err != nil {
		return out
	}
	out[1] = string(j)
	var s2 schema.Schema
	if err := s2.UnmarshalJSON(j); err != nil {
		return out
	}
	if b, err := s2.MarshalJSON(); err == nil {
		out[2] = string(b)
	}
	if b, err := s2.MarshalCedar(); err == nil {
		out[3] = string(b)
	}
	return out
}

var legNames = []string{"schema/text-text", "schema/text-json", "schema/json-json", "schema/json-text"}

func checkSchema(c *Case) (sub, msg string) {
	defer func() {
		if r := recover(); r != nil {
			ev.R.Label("codec-panic-skipped", 1)
			sub, msg = "", ""
		}
	}()
	first := schemaLegs(c.Schema)
	if first[0] == "" {
		ev.R.Label("leg-skipped", 1)
		return "", ""
	}
	for i := 1; i < c.R; i++ {
		got := schemaLegs(c.Schema)
		for k := range got {
			if got[k] != first[k] {
				return legNames[k], diffMsg("schema leg "+legNames[k], first[k], got[k])
			}
		}
	}
	ev.R.Count(int64(c.R))
	var s schema.Schema
	_ = s.UnmarshalCedar([]byte(c.Schema))
	if d, a, b, _ := same(c.R, s.MarshalCedar); d {
		return "schema/marshal-cedar", diffMsg("Schema.MarshalCedar of one object", a, b)
	}
	if d, a, b, _ := same(c.R, s.MarshalJSON); d {
		return "schema/marshal-json", diffMsg("Schema.MarshalJSON of one object", a, b)
	}
	// the two encoders interleaved on one object: neither may change what the other writes afterwards
	c1, _ := s.MarshalCedar()
	j1, _ := s.MarshalJSON()
	c2, _ := s.MarshalCedar()
	j2, _ := s.MarshalJSON()
	if string(c1) != string(c2) || string(c1) != first[0] {
		return "schema/marshal-cedar", diffMsg("Schema.MarshalCedar of one object before and after MarshalJSON", first[0], string(c2))
	}
	if string(j1) != string(j2) || string(j1) != first[1] {
		return "schema/marshal-json", diffMsg("Schema.MarshalJSON of one object before and after MarshalCedar", string(j1), string(j2))
	}
	if c.Schema2 != "" {
		var s2 schema.Schema
		if err := s2.UnmarshalCedar([]byte(c.Schema2)); err != nil {
			ev.R.Label("leg-skipped", 1)
			return "", ""
		}
		if !reflect.DeepEqual(s.AST(), s2.AST()) {
			ev.R.Label("schema:permuted-ast-differs", 1)
			return "", ""
		}
		ev.R.Label("schema:permuted-ast-equal", 1)
		second := schemaLegs(c.Schema2)
		for k := range second {
			if second[k] != first[k] {
				return "schema/declaration-order", diffMsg("schema leg "+legNames[k]+" for the same declarations written in another order (ASTs are DeepEqual)", first[k], second[k])
			}
		}
	}
	return "", ""
}

func TestSchemaCodecs(t *testing.T) {
	ev.SetChecks(ev.Scale(120, 3000))
	ev.Check(t, func(rt *rapid.T) {
		keep := []bool{true, rapid.Bool().Draw(rt, "ns1"), rapid.Bool().Draw(rt, "nsab"), rapid.Bool().Draw(rt, "extra")}
		var o1, o2 [][]int
		for _, b := range schemaBlocks {
			o1 = append(o1, rapid.Permutation(seq(len(b.decls))).Draw(rt, "decls1"))
			o2 = append(o2, rapid.Permutation(seq(len(b.decls))).Draw(rt, "decls2"))
		}
		c := &Case{Family: "schema", R: max(4, R()/4)}
		c.Schema = schemaText(rapid.Permutation(seq(len(schemaBlocks))).Draw(rt, "blocks1"), o1, keep)
		c.Schema2 = schemaText(rapid.Permutation(seq(len(schemaBlocks))).Draw(rt, "blocks2"), o2, keep)
		ev.R.Case(ir.Hash(c), true, "schema")
		if ev.R.WantSample("schema") {
			ev.R.Sample("schema", map[string]any{"text": clip(c.Schema)})
		}
		ev.Watch("schema", func() any { return c })
		sub, msg := checkSchema(c)
		ev.Unwatch()
		if sub != "" {
			ev.R.Violation(sub, c, msg)
			rt.Fatalf("C14/schema: schema encoder or decoder output is not stable")
		}
	})
}
