// C14: results are deterministic functions of their inputs.
//
// Metamorphic oracle: the same operation on the same input is repeated R times in one process (quick R = 24, thorough
// R = 200; every `range` over a Go map draws a new iteration order), under permuted insertion orders of policies and
// entities, and (fixed table) in 3 freshly started processes. All repetitions must give the same decision, the same set
// of reason ids, the same set of (policy id, error message) pairs, the same multiset of batch results, and byte-identical
// Marshal* output / Unmarshal-then-Marshal output.
//
// Sub-checks: authorize/* (TestAuthorizeRepeat), batch/* (TestBatchRepeat), marshal/* and reencode/* (TestPolicyCodecs,
// TestDataCodecs), schema/* (TestSchemaCodecs), xproc/* (TestCrossProcess).
//
// Carve-outs (check weaker than the statement):
//   * order of Diagnostic.Reasons / Errors and of batch callbacks is not compared (sets / multisets, as the statement says);
//   * byte identity of MarshalCedar/JSON is required for the same object and for objects decoded from the same bytes, not
//     for equal sets built in different insertion orders (documented as hash order, appendix C);
//   * a leg whose decode step fails (codec defects are C08/C09/C13/C17 business) is skipped and counted (label leg-skipped);
//   * detection is probabilistic per input: a two-way order dependence with a 50/50 split is missed with probability 2^-(R-1).
//
// Known findings (matchers active only while listed "open" in known_findings.jsonl):
//   record-literal-error-order      a record literal in which >= 2 fields fail: which error is reported depends on map iteration
//   json-decode-record-key-order    policy JSON with a Record of >= 2 keys: key order of the decoded AST (and MarshalCedar bytes) varies
//   json-decode-annotation-order    policy JSON with >= 2 annotations: annotation order of the decoded AST (and MarshalCedar bytes) varies
//   in-set-nonentity-error-order    `e in S` / `e is T in S` with non-entity members of >= 2 kinds in S: the message names whichever member is met first
//   batch-variable-order-error-wording  >= 2 batch variables with equally many values are bound in map order; the partial evaluator and the
//                                   evaluator word a non-boolean condition / guard / && || operand differently, so the message varies
//   batch-variable-twice-in-record  batch template whose context record holds one variable in >= 2 fields: only one field is substituted, which one varies
//
// Sensitivity (scratch copy of /repo, `go test ./c14/` = quick tier, one shard; all five caught):
//   M1 types/record.go Record.MarshalJSON: slices.Sort(keys) removed            -> marshal/entities-json (TestDataCodecs)
//   M2 types/entity_map.go EntityMap.MarshalJSON: SortFunc removed               -> marshal/entities-json, xproc/digest
//   M3 policy_set.go MarshalCedar: slices.Sort(ids) removed                      -> marshal/set-cedar, marshal/set-insertion-order, reencode/set-text-text, xproc/digest
//   M4 authorize.go: `break` instead of `continue` after a policy error         -> authorize/repeat (first repetition), xproc/digest; replay file reproduces
//   M5 schema/internal/parser/marshal.go: entity names not sorted                -> schema/text-text, schema/json-text, xproc/digest
// Before the four known-finding entries existed, the generators alone hit all four classes on the first rapid case
// (authorize/repeat, reencode/policy-json-text twice, batch/results).
package c14

import (
	"context"
	"encoding/json"
	"fmt"
	"os"
	"os/exec"
	"sort"
	"strings"
	"testing"

	cedar "github.com/cedar-policy/cedar-go"
	"github.com/cedar-policy/cedar-go/types"
	"github.com/cedar-policy/cedar-go/x/exp/batch"
	"pgregory.net/rapid"

	"verif/conv"
	"verif/ev"
	"verif/gen"
	"verif/ir"
	"verif/ref"
)

func TestMain(m *testing.M) {
	if os.Getenv("VERIF_C14_CHILD") != "" {
		// child of TestCrossProcess: print digests, write no stats
		childMain()
		return
	}
	ev.Main(m, "C14")
}

// R is the number of in-process repetitions.
func R() int { return ev.Pick(24, 200) }

type Named struct {
	ID string     `json:"id"`
	P  *ir.Policy `json:"p"`
}

// Case is the replayable input of every sub-check family (unused fields stay empty).
type Case struct {
	Family   string     `json:"family"` // authorize | batch | policy-codec | data-codec | schema
	Policies []Named    `json:"policies,omitempty"`
	World    *gen.World `json:"world,omitempty"`
	Perms    [][]int    `json:"perms,omitempty"`  // insertion orders (indexes into Policies)
	Values   []ir.Value `json:"values,omitempty"` // data-codec
	Schema   string     `json:"schema,omitempty"` // schema text
	Schema2  string     `json:"schema2,omitempty"`
	Batch    *BatchSpec `json:"batch,omitempty"`
	R        int        `json:"r,omitempty"`
}

// ---------------------------------------------------------------------------------------------
// engineered expressions

func lit(v ir.Value) *ir.Expr { return ir.Lit(v) }

var ctxVar = ir.Var("context")

// errExprs fail with pairwise different messages in every world used here (context never has "missing").
var errExprs = []*ir.Expr{
	ir.Bin(ir.OpAdd, lit(ir.Long(1)), lit(ir.Str("x"))),
	ir.Access(ctxVar, "missing"),
	ir.Bin(ir.OpAdd, lit(ir.Long(9223372036854775807)), lit(ir.Long(1))),
	ir.Access(lit(ir.Ent("T0", "nope")), "attr"),
	ir.Ext("decimal", lit(ir.Str("x"))),
	ir.Un(ir.OpNot, lit(ir.Long(5))),
	ir.Bin(ir.OpLt, lit(ir.Str("a")), lit(ir.Long(1))),
	ir.Bin(ir.OpMul, lit(ir.Long(4611686018427387904)), lit(ir.Long(2))),
	ir.Bin(ir.OpGetTag, lit(ir.Ent("T0", "nope")), lit(ir.Str("t"))),
	ir.Ext("ip", lit(ir.Str("999.1.1.1"))),
}

var recKeys = []string{"a", "b", "c", "k", "x", "z1", "if", "", "é", "a b", "Z", "_"}

func distinctKeys(t *rapid.T, n int) []string {
	perm := rapid.Permutation(recKeys).Draw(t, "keys")
	return perm[:n]
}

// multiErrRecord: a record literal with nerr failing fields (different kinds) and nok fine ones, wrapped so that the policy condition is boolean.
func multiErrRecord(t *rapid.T, nerr, nok int) *ir.Expr {
	keys := distinctKeys(t, nerr+nok)
	errs := rapid.Permutation(errExprs).Draw(t, "errs")
	var es []*ir.Expr
	for i := 0; i < nerr; i++ {
		es = append(es, errs[i].Clone())
	}
	for i := 0; i < nok; i++ {
		es = append(es, lit(ir.Long(int64(i))))
	}
	// shuffle positions
	order := rapid.Permutation(seq(len(es))).Draw(t, "order")
	ks := make([]string, len(es))
	vs := make([]*ir.Expr, len(es))
	for i, j := range order {
		ks[i], vs[i] = keys[i], es[j]
	}
	rec := ir.RecE(ks, vs)
	switch rapid.IntRange(0, 2).Draw(t, "wrap") {
	case 0:
		return ir.Has(rec, ks[0])
	case 1:
		return ir.Bin(ir.OpEq, ir.Access(rec, ks[0]), lit(ir.Long(1)))
	default:
		return ir.Bin(ir.OpEq, rec, ctxVar)
	}
}

func seq(n int) []int {
	out := make([]int, n)
	for i := range out {
		out[i] = i
	}
	return out
}

// failingFieldsMax returns the largest number of failing fields in any record literal of the policy (reference evaluator).
func failingFieldsMax(p *ir.Policy, env *ref.Env) int {
	best := 0
	for _, c := range p.Conds {
		c.Body.Walk(func(x *ir.Expr) {
			if x.Op != ir.OpRecord {
				return
			}
			n := 0
			for _, a := range x.Args {
				if _, er := ref.Eval(a, env); er != 0 {
					n++
				}
			}
			if n > best {
				best = n
			}
		})
	}
	return best
}

// matchesInSetErrorOrder: some `e in S` / `e is T in S` whose right operand evaluates (reference) to a set that holds
// non-entity members of >= 2 different kinds (the reported message names the kind of whichever member is met first).
func matchesInSetErrorOrder(p *ir.Policy, env *ref.Env) bool {
	hit := false
	for _, c := range p.Conds {
		c.Body.Walk(func(x *ir.Expr) {
			if (x.Op != ir.OpIn && x.Op != ir.OpIsIn) || len(x.Args) < 2 {
				return
			}
			v, er := ref.Eval(x.Args[1], env)
			if er != 0 || v.K != ir.KSet {
				return
			}
			kinds := map[ir.Kind]bool{}
			for _, m := range v.Elems {
				if m.K != ir.KEntity {
					kinds[m.K] = true
				}
			}
			if len(kinds) >= 2 {
				hit = true
			}
		})
	}
	return hit
}

// syntacticInSetRisk: over-approximation for the batch family (bindings vary): `in` / `is in` whose right operand is not an entity literal or variable.
func syntacticInSetRisk(p *ir.Policy) bool {
	hit := false
	for _, c := range p.Conds {
		c.Body.Walk(func(x *ir.Expr) {
			if (x.Op != ir.OpIn && x.Op != ir.OpIsIn) || len(x.Args) < 2 {
				return
			}
			r := x.Args[1]
			if r.Op == ir.OpVar || (r.Op == ir.OpLit && r.Lit.K == ir.KEntity) {
				return
			}
			if r.Op == ir.OpAccess { // engineered: context.n.m
				return
			}
			hit = true
		})
	}
	return hit
}

var boolFuncs = map[string]bool{"isIpv4": true, "isIpv6": true, "isLoopback": true, "isMulticast": true, "isInRange": true,
	"lessThan": true, "lessThanOrEqual": true, "greaterThan": true, "greaterThanOrEqual": true}

// boolTyped: the expression can only yield a boolean or fail (syntactic).
func boolTyped(e *ir.Expr) bool {
	switch e.Op {
	case ir.OpAnd, ir.OpOr, ir.OpNot, ir.OpEq, ir.OpNe, ir.OpLt, ir.OpLe, ir.OpGt, ir.OpGe, ir.OpIn, ir.OpIs, ir.OpIsIn, ir.OpHas, ir.OpHasTag,
		ir.OpLike, ir.OpContains, ir.OpContainsAll, ir.OpContainsAny, ir.OpIsEmpty:
		return true
	case ir.OpLit:
		return e.Lit.K == ir.KBool
	case ir.OpIf:
		return boolTyped(e.Args[1]) && boolTyped(e.Args[2])
	case ir.OpExt:
		return boolFuncs[e.Name]
	}
	return false
}

// nonBoolOperandRisk: a condition root, an if guard or an operand of && / || that is not syntactically boolean
// (the partial evaluator and the evaluator word that failure differently).
func nonBoolOperandRisk(p *ir.Policy) bool {
	hit := false
	for _, c := range p.Conds {
		if !boolTyped(c.Body) {
			hit = true
		}
		c.Body.Walk(func(x *ir.Expr) {
			switch x.Op {
			case ir.OpIf:
				if !boolTyped(x.Args[0]) {
					hit = true
				}
			case ir.OpAnd, ir.OpOr:
				if !boolTyped(x.Args[0]) || !boolTyped(x.Args[1]) {
					hit = true
				}
			}
		})
	}
	return hit
}

// variableTie: >= 2 variables of the template have equally many values (their binding order is then map order).
func (b *BatchSpec) variableTie() bool {
	lens := map[int]int{len(b.Principals): 1}
	lens[len(b.Resources)]++
	usedW, usedV := b.Nested || b.Mixed, b.InSet
	for _, v := range b.CtxVars {
		usedW = usedW || v == "w"
		usedV = usedV || v == "v"
	}
	if usedW {
		lens[len(b.W)]++
	}
	if usedV {
		lens[len(b.V)]++
	}
	for _, n := range lens {
		if n >= 2 {
			return true
		}
	}
	return false
}

// inSetMixed: `principal in [<non-entities of different kinds>, ...]`
func inSetMixed(t *rapid.T) *ir.Expr {
	// two members of most kinds: a tie-break by kind alone leaves the choice between them to the map order
	pool := []*ir.Expr{lit(ir.Long(1)), lit(ir.Str("a")), lit(ir.Bool(true)), lit(ir.Decimal(15000)), lit(ir.Rec()), lit(ir.Set()), lit(ir.Ent("T0", "a")), lit(ir.Duration(1)),
		lit(ir.Long(2)), lit(ir.Str("b")), lit(ir.Bool(false)), lit(ir.Decimal(-1)), lit(ir.Rec(ir.F("a", ir.Long(1))))}
	perm := rapid.Permutation(pool).Draw(t, "inset")
	n := rapid.IntRange(2, 5).Draw(t, "ninset")
	members := make([]*ir.Expr, n)
	for i := range members {
		members[i] = perm[i].Clone()
	}
	if rapid.Bool().Draw(t, "isin") {
		return ir.IsIn(ir.Var("principal"), "T0", ir.SetE(members...))
	}
	return ir.Bin(ir.OpIn, ir.Var("principal"), ir.SetE(members...))
}

func cond(permit bool, body *ir.Expr) *ir.Policy {
	p := ir.NewPolicy(permit)
	p.Conds = []ir.Cond{{When: true, Body: body}}
	return p
}

// ids that an order other than the plain byte order would tie or swap: leading zeros, digit runs, case, a prefix of another
var idPool = []string{"p0", "p1", "p2", "p3", "p4", "p5", "p6", "p7", "p8", "p9", "", "é", "policy10", "policy2", "a b", "\"q\"", "p01", "p001", "P1", "p1 ", "p10", "rule7", "rule007"}

// engineeredWorld: >= 5 entities (+ generated ones), context with ok=true and no "missing".
func engineeredWorld(t *rapid.T) gen.World {
	w := gen.GenWorld(t, 5, gen.DefaultValOpts)
	for i := 0; i < 5; i++ {
		uid := ir.Ent("E", fmt.Sprintf("e%d", i))
		e := ir.Entity{UID: uid, Attrs: []ir.Field{ir.F("n", ir.Long(int64(i))), ir.F("s", ir.Set(ir.Long(0), ir.Bool(false), ir.Duration(0), ir.Str("x"))), ir.F("r", ir.Rec(ir.F("a", ir.Long(1)), ir.F("b", ir.Str("y")), ir.F("c", ir.Bool(true))))}}
		for j := 0; j < i && j < 3; j++ {
			e.Parents = append(e.Parents, ir.Ent("E", fmt.Sprintf("e%d", j)))
		}
		if i%2 == 0 {
			e.Tags = []ir.Field{ir.F("t1", ir.Str("v")), ir.F("t2", ir.Long(2)), ir.F("t0", ir.Set(ir.Str("a"), ir.Str("b")))}
		}
		w.Store = append(w.Store, e)
	}
	var fs []ir.Field
	for _, f := range w.Req.Context.Fields {
		if f.K != "missing" && f.K != "ok" {
			fs = append(fs, f)
		}
	}
	fs = append(fs, ir.F("ok", ir.Bool(true)))
	w.Req.Context = ir.Rec(fs...)
	return w
}

// engineeredPolicies: >= 3 satisfied, >= 3 erroring (multiErr of them with a multi-error record literal), some unsatisfied, some generated.
func engineeredPolicies(t *rapid.T, w *gen.World, multiErr bool) []Named {
	var ps []*ir.Policy
	sat := []*ir.Expr{lit(ir.Bool(true)), ir.Access(ctxVar, "ok"), ir.Bin(ir.OpEq, ir.Var("principal"), lit(w.Req.Principal)), ir.Has(ctxVar, "ok")}
	nsat := rapid.IntRange(3, 4).Draw(t, "nsat")
	anyForbid := rapid.Bool().Draw(t, "forbidsat")
	for i := 0; i < nsat; i++ {
		ps = append(ps, cond(!(anyForbid && i%2 == 1), sat[i%len(sat)].Clone()))
	}
	nerr := rapid.IntRange(3, 4).Draw(t, "nerr")
	for i := 0; i < nerr; i++ {
		var body *ir.Expr
		if multiErr && i < 2 {
			body = multiErrRecord(t, rapid.IntRange(2, 4).Draw(t, "nfail"), rapid.IntRange(0, 2).Draw(t, "nok"))
		} else {
			e := errExprs[rapid.IntRange(0, len(errExprs)-1).Draw(t, "errexpr")].Clone()
			if rapid.Bool().Draw(t, "inrec") {
				// one failing field among fine ones: deterministic
				e = ir.Access(ir.RecE([]string{"u", "v", "w"}, []*ir.Expr{lit(ir.Long(1)), e, lit(ir.Str("s"))}), "v")
			}
			body = ir.Bin(ir.OpEq, e, lit(ir.Long(2)))
		}
		ps = append(ps, cond(rapid.Bool().Draw(t, "errpermit"), body))
	}
	ps = append(ps, cond(true, lit(ir.Bool(false))))
	if !ev.KnownOpen("C14", "in-set-nonentity-error-order") {
		for i := rapid.IntRange(0, 2).Draw(t, "ninsetpol"); i > 0; i-- {
			ps = append(ps, cond(rapid.Bool().Draw(t, "insetpermit"), inSetMixed(t)))
		}
	}
	po := gen.PolicyOpts{Expr: gen.DefaultExprOpts, MaxConds: 2, Depth: 3, Annot: true}
	for i := rapid.IntRange(0, 3).Draw(t, "ngen"); i > 0; i-- {
		ps = append(ps, gen.GenPolicy(t, w, po))
	}
	ids := rapid.Permutation(idPool).Draw(t, "ids")
	order := rapid.Permutation(seq(len(ps))).Draw(t, "porder")
	var out []Named
	for i, j := range order {
		out = append(out, Named{ID: ids[i], P: ps[j]})
	}
	return out
}

// ---------------------------------------------------------------------------------------------
// authorize

type authSig struct {
	Decision string
	Reasons  []string
	Errors   []string // id \x00 message
}

func (s authSig) String() string {
	return fmt.Sprintf("%s reasons=%q errors=%q", s.Decision, s.Reasons, s.Errors)
}

func sigOf(dec cedar.Decision, diag cedar.Diagnostic) authSig {
	s := authSig{Decision: fmt.Sprint(dec)}
	for _, r := range diag.Reasons {
		s.Reasons = append(s.Reasons, string(r.PolicyID))
	}
	for _, e := range diag.Errors {
		s.Errors = append(s.Errors, string(e.PolicyID)+"\x00"+e.Message)
	}
	sort.Strings(s.Reasons)
	sort.Strings(s.Errors)
	return s
}

func buildSet(ps []Named, order []int) *cedar.PolicySet {
	set := cedar.NewPolicySet()
	if order == nil {
		order = seq(len(ps))
	}
	for _, i := range order {
		set.Add(cedar.PolicyID(ps[i].ID), conv.ToPolicy(ps[i].P))
	}
	return set
}

func entityMapIn(s ir.Store, reverse bool) types.EntityMap {
	m := types.EntityMap{}
	if !reverse {
		return conv.ToEntityMap(s)
	}
	for i := len(s) - 1; i >= 0; i-- {
		if _, dup := m[conv.ToEntityUID(s[i].UID)]; dup {
			continue // the last one wins in conv.ToEntityMap
		}
		m[conv.ToEntityUID(s[i].UID)] = conv.ToEntity(s[i])
	}
	return m
}

func checkAuthorize(c *Case) (string, string) {
	r := c.R
	ents := conv.ToEntityMap(c.World.Store)
	req := conv.ToRequest(c.World.Req)
	base := buildSet(c.Policies, nil)
	first := sigOf(cedar.Authorize(base, ents, req))
	for i := 1; i < r; i++ {
		if s := sigOf(cedar.Authorize(base, ents, req)); s.String() != first.String() {
			return "authorize/repeat", fmt.Sprintf("repetition %d of the same Authorize call differs:\n first: %s\n now:   %s", i, first, s)
		}
	}
	ev.R.Count(int64(r))
	ents2 := entityMapIn(c.World.Store, true)
	for k, perm := range c.Perms {
		set := buildSet(c.Policies, perm)
		e := ents
		if k%2 == 1 {
			e = ents2
		}
		n := max(2, r/4)
		for i := 0; i < n; i++ {
			var s authSig
			if i%2 == 0 {
				s = sigOf(cedar.Authorize(set, e, req))
			} else {
				s = sigOf(set.IsAuthorized(e, req))
			}
			if s.String() != first.String() {
				return "authorize/insertion-order", fmt.Sprintf("policies added in order %v (entity map variant %d) give a different result:\n first: %s\n now:   %s", perm, k%2, first, s)
			}
		}
		ev.R.Count(int64(n))
	}
	return "", ""
}

func matchesRecordErrorOrder(c *Case) bool {
	env := ref.NewEnv(c.World.Store, c.World.Req)
	for _, np := range c.Policies {
		if failingFieldsMax(np.P, env) >= 2 {
			return true
		}
	}
	return false
}

func TestAuthorizeRepeat(t *testing.T) {
	ev.SetChecks(ev.Scale(600, 20000))
	ev.Check(t, func(rt *rapid.T) {
		open := ev.KnownOpen("C14", "record-literal-error-order")
		w := engineeredWorld(rt)
		c := &Case{Family: "authorize", World: &w, R: R()}
		c.Policies = engineeredPolicies(rt, &w, !open)
		for k := 0; k < 3; k++ {
			c.Perms = append(c.Perms, rapid.Permutation(seq(len(c.Policies))).Draw(rt, "perm"))
		}
		multi := matchesRecordErrorOrder(c)
		if open && multi {
			ev.R.Excluded("record-literal-error-order")
			return
		}
		env := ref.NewEnv(w.Store, w.Req)
		inset := false
		for _, np := range c.Policies {
			inset = inset || matchesInSetErrorOrder(np.P, env)
		}
		if inset && ev.KnownOpen("C14", "in-set-nonentity-error-order") {
			ev.R.Excluded("in-set-nonentity-error-order")
			return
		}
		ids := make([]string, len(c.Policies))
		pols := make([]*ir.Policy, len(c.Policies))
		for i, np := range c.Policies {
			ids[i], pols[i] = np.ID, np.P
		}
		d := ref.Authorize(ids, pols, env)
		labels := []string{"authorize", fmt.Sprintf("errors>=3:%v", len(d.Errors) >= 3), fmt.Sprintf("reasons>=2:%v", len(d.Reasons) >= 2)}
		if multi {
			labels = append(labels, "multi-error-record")
		}
		if inset {
			labels = append(labels, "in-set-mixed-nonentities")
		}
		ev.R.Case(ir.Hash(c), len(d.Errors) >= 2 || len(d.Reasons) >= 2, labels...)
		if ev.R.WantSample("authorize") {
			ev.R.Sample("authorize", map[string]any{"policies": len(c.Policies), "entities": len(w.Store), "erroring": d.Errors, "reasons": d.Reasons, "allow": d.Allow, "perms": c.Perms})
		}
		ev.Watch("authorize", func() any { return c })
		sub, msg := checkAuthorize(c)
		ev.Unwatch()
		if sub != "" {
			ev.R.Violation(sub, c, msg)
			rt.Fatalf("C14/authorize: repeated authorization gives different results")
		}
	})
}

// ---------------------------------------------------------------------------------------------
// batch

// BatchSpec is a request template: Principal / Resource variables and context fields holding variables.
type BatchSpec struct {
	Principals []ir.Value        `json:"principals"` // values of variable "p"
	Resources  []ir.Value        `json:"resources"`  // values of variable "r"
	CtxVars    map[string]string `json:"ctx_vars"`   // context field -> variable name ("w", "v")
	W          []ir.Value        `json:"w"`          // values of variable "w"
	V          []ir.Value        `json:"v"`
	Nested     bool              `json:"nested"` // additionally context.n = {m: var w}
	InSet      bool              `json:"in_set"` // additionally context.s = [var v, E::"e0"]
	Mixed      bool              `json:"mixed"`  // additionally context.mix = {v: var w, i: <ignored>, z: 1} and context.mixs = [var w, <ignored>]
}

// twiceInRecord: some variable occurs in (or below) >= 2 fields of the context record.
func (b *BatchSpec) twiceInRecord() bool {
	seen := map[string]int{}
	for _, v := range b.CtxVars {
		seen[v]++
	}
	if b.Nested {
		seen["w"]++ // context.n.m
	}
	if b.InSet {
		seen["v"]++ // context.s
	}
	if b.Mixed {
		seen["w"] += 2 // context.mix.v, context.mixs
	}
	for _, n := range seen {
		if n >= 2 {
			return true
		}
	}
	return false
}

func canon(v types.Value) string {
	switch t := v.(type) {
	case types.Set:
		var ms []string
		for m := range t.All() {
			ms = append(ms, canon(m))
		}
		sort.Strings(ms)
		return "[" + strings.Join(ms, ",") + "]"
	case types.Record:
		var ks []string
		for k := range t.Keys() {
			ks = append(ks, string(k))
		}
		sort.Strings(ks)
		var ms []string
		for _, k := range ks {
			x, _ := t.Get(types.String(k))
			ms = append(ms, fmt.Sprintf("%q:%s", k, canon(x)))
		}
		return "{" + strings.Join(ms, ",") + "}"
	case nil:
		return "nil"
	}
	return fmt.Sprintf("%T(%s)", v, v.String())
}

func runBatch(c *Case, set *cedar.PolicySet, ents types.EntityMap) (string, error) {
	b := c.Batch
	vals := func(vs []ir.Value) []types.Value {
		out := make([]types.Value, len(vs))
		for i, v := range vs {
			out[i] = conv.ToValue(v)
		}
		return out
	}
	ctxm := types.RecordMap{}
	for _, f := range c.World.Req.Context.Fields {
		ctxm[types.String(f.K)] = conv.ToValue(f.V)
	}
	vars := batch.Variables{"p": vals(b.Principals), "r": vals(b.Resources)}
	used := map[string]bool{}
	for k, v := range b.CtxVars {
		ctxm[types.String(k)] = batch.Variable(types.String(v))
		used[v] = true
	}
	if b.Nested {
		ctxm["n"] = types.NewRecord(types.RecordMap{"m": batch.Variable("w"), "z": types.Long(1)})
		used["w"] = true
	}
	if b.InSet {
		ctxm["s"] = types.NewSet(batch.Variable("v"), types.NewEntityUID("E", "e0"))
		used["v"] = true
	}
	if b.Mixed {
		// one composite that holds a variable and an ignored value side by side
		ctxm["mix"] = types.NewRecord(types.RecordMap{"v": batch.Variable("w"), "i": batch.Ignore(), "z": types.Long(1)})
		ctxm["mixs"] = types.NewSet(batch.Variable("w"), batch.Ignore())
		used["w"] = true
	}
	if used["w"] {
		vars["w"] = vals(b.W)
	}
	if used["v"] {
		vars["v"] = vals(b.V)
	}
	req := batch.Request{Principal: batch.Variable("p"), Action: conv.ToEntityUID(c.World.Req.Action), Resource: batch.Variable("r"), Context: types.NewRecord(ctxm), Variables: vars}
	var rows []string
	err := batch.Authorize(context.Background(), set, ents, req, func(r batch.Result) error {
		var vs []string
		for k, v := range r.Values {
			vs = append(vs, string(k)+"="+canon(v))
		}
		sort.Strings(vs)
		rows = append(rows, fmt.Sprintf("P=%s A=%s R=%s C=%s values=%v -> %s", r.Request.Principal, r.Request.Action, r.Request.Resource, canon(r.Request.Context), vs, sigOf(r.Decision, r.Diagnostic)))
		return nil
	})
	sort.Strings(rows)
	return strings.Join(rows, "\n"), err
}

func checkBatch(c *Case) (string, string) {
	ents := conv.ToEntityMap(c.World.Store)
	set := buildSet(c.Policies, nil)
	first, ferr := runBatch(c, set, ents)
	n := max(3, c.R/4)
	for i := 1; i < n; i++ {
		s := set
		if i%3 == 2 && len(c.Perms) > 0 {
			s = buildSet(c.Policies, c.Perms[0])
		}
		got, err := runBatch(c, s, ents)
		if (err != nil) != (ferr != nil) || (err != nil && err.Error() != ferr.Error()) {
			return "batch/error", fmt.Sprintf("repetition %d: error %v, first run: %v", i, err, ferr)
		}
		if got != first {
			return "batch/results", fmt.Sprintf("repetition %d yields a different multiset of results:\n first:\n%s\n now:\n%s", i, first, got)
		}
	}
	ev.R.Count(int64(n))
	return "", ""
}

func genBatchSpec(t *rapid.T, w *gen.World, allowTwice bool) *BatchSpec {
	ents := func(label string, n int) []ir.Value {
		var out []ir.Value
		for i := 0; i < n; i++ {
			if len(w.Store) > 0 && rapid.Bool().Draw(t, label+"instore") {
				out = append(out, w.Store[rapid.IntRange(0, len(w.Store)-1).Draw(t, label+"idx")].UID)
			} else {
				out = append(out, gen.EntityVal(t))
			}
		}
		return out
	}
	b := &BatchSpec{Principals: ents("p", rapid.IntRange(1, 3).Draw(t, "np")), Resources: ents("r", rapid.IntRange(1, 3).Draw(t, "nr")), CtxVars: map[string]string{}}
	b.W = ents("w", rapid.IntRange(1, 3).Draw(t, "nw"))
	b.V = ents("v", rapid.IntRange(1, 2).Draw(t, "nv"))
	switch rapid.IntRange(0, 4).Draw(t, "ctxvars") {
	case 1:
		b.CtxVars["who"] = "w"
	case 2:
		b.CtxVars["who"] = "w"
		b.CtxVars["what"] = "v"
	case 3:
		b.CtxVars["who"] = "p"
	case 4:
		if allowTwice {
			b.CtxVars["who"] = "w"
			b.CtxVars["whom"] = "w"
			if rapid.Bool().Draw(t, "thrice") {
				b.CtxVars["again"] = "w"
			}
		} else {
			b.CtxVars["who"] = "w"
		}
	}
	b.Nested = rapid.IntRange(0, 3).Draw(t, "nested") == 0
	b.InSet = rapid.IntRange(0, 3).Draw(t, "inset") == 0
	b.Mixed = rapid.IntRange(0, 2).Draw(t, "mixed") == 0
	if !allowTwice && b.twiceInRecord() {
		// keep the template outside the known finding's class: the nested / set occurrence would be a second field holding the variable
		b.Nested, b.InSet, b.Mixed = false, false, false
	}
	return b
}

func batchPolicies(t *rapid.T, w *gen.World) []Named {
	var ps []*ir.Policy
	ps = append(ps,
		cond(true, lit(ir.Bool(true))),
		cond(true, ir.Bin(ir.OpEq, ir.Var("principal"), ir.Var("resource"))),
		cond(false, ir.Bin(ir.OpAnd, ir.Has(ctxVar, "who"), ir.Bin(ir.OpEq, ir.Access(ctxVar, "who"), ir.Var("principal")))),
		cond(true, ir.Bin(ir.OpAnd, ir.Has(ctxVar, "whom"), ir.Bin(ir.OpEq, ir.Access(ctxVar, "whom"), ir.Access(ctxVar, "who")))),
		cond(true, ir.Bin(ir.OpIn, ir.Var("principal"), lit(ir.Ent("E", "e0")))),
		cond(false, ir.Bin(ir.OpEq, ir.Access(ir.Var("resource"), "n"), lit(ir.Long(1)))),                                                           // errors unless resource has n
		cond(true, ir.Bin(ir.OpEq, ir.Bin(ir.OpAdd, ir.Access(ctxVar, "what"), lit(ir.Long(1))), lit(ir.Long(2)))),                                  // errors
		cond(true, ir.Bin(ir.OpAnd, ir.Has(ctxVar, "n"), ir.Bin(ir.OpIn, ir.Access(ir.Access(ctxVar, "n"), "m"), lit(ir.Ent("E", "e1"))))),          // nested
		cond(true, ir.Bin(ir.OpAnd, ir.Has(ctxVar, "s"), ir.Bin(ir.OpContains, ir.Access(ctxVar, "s"), ir.Var("principal")))),                       // set
		cond(false, ir.Bin(ir.OpAnd, ir.Has(ctxVar, "again"), ir.Bin(ir.OpNe, ir.Access(ctxVar, "again"), ir.Access(ctxVar, "who")))),
		// a composite holding a variable and an ignored value, consumed whole, beside a conjunct that depends on a variable
		cond(true, ir.Bin(ir.OpAnd, ir.Has(ctxVar, "mix"), ir.Bin(ir.OpAnd, ir.Bin(ir.OpEq, ir.Access(ctxVar, "mix"), lit(ir.Rec(ir.F("i", ir.Long(1)), ir.F("v", ir.Ent("E", "e1")), ir.F("z", ir.Long(1))))), ir.Bin(ir.OpNe, ir.Var("principal"), ir.Var("resource"))))),
		cond(true, ir.Bin(ir.OpAnd, ir.Has(ctxVar, "mixs"), ir.Bin(ir.OpOr, ir.Bin(ir.OpContains, ir.Access(ctxVar, "mixs"), lit(ir.Ent("E", "e1"))), ir.Bin(ir.OpEq, ir.Var("principal"), ir.Var("resource"))))),
	)
	if !ev.KnownOpen("C14", "batch-variable-order-error-wording") {
		// non-boolean condition / guard / operand that depends on a variable
		ps = append(ps,
			cond(true, ir.Var("principal")),
			cond(false, ir.If(ir.Var("resource"), lit(ir.Bool(true)), lit(ir.Bool(false)))),
			cond(true, ir.Bin(ir.OpAnd, ir.Var("principal"), lit(ir.Bool(true)))),
			cond(true, ir.Bin(ir.OpOr, lit(ir.Bool(false)), ir.Var("resource"))),
		)
	}
	po := gen.PolicyOpts{Expr: gen.DefaultExprOpts, MaxConds: 2, Depth: 2}
	for i := rapid.IntRange(0, 2).Draw(t, "ngen"); i > 0; i-- {
		ps = append(ps, gen.GenPolicy(t, w, po))
	}
	keep := rapid.IntRange(4, min(len(ps), len(idPool))).Draw(t, "keep")
	order := rapid.Permutation(seq(len(ps))).Draw(t, "porder")[:keep]
	ids := rapid.Permutation(idPool).Draw(t, "ids")
	var out []Named
	for i, j := range order {
		out = append(out, Named{ID: ids[i], P: ps[j]})
	}
	return out
}

func TestBatchRepeat(t *testing.T) {
	ev.SetChecks(ev.Scale(300, 10000))
	ev.Check(t, func(rt *rapid.T) {
		openTwice := ev.KnownOpen("C14", "batch-variable-twice-in-record")
		openRec := ev.KnownOpen("C14", "record-literal-error-order")
		w := engineeredWorld(rt)
		c := &Case{Family: "batch", World: &w, R: R()}
		c.Policies = batchPolicies(rt, &w)
		c.Perms = [][]int{rapid.Permutation(seq(len(c.Policies))).Draw(rt, "perm")}
		c.Batch = genBatchSpec(rt, &w, !openTwice)
		if openTwice && c.Batch.twiceInRecord() {
			ev.R.Excluded("batch-variable-twice-in-record")
			return
		}
		if openRec {
			// a record literal with >= 2 non-literal fields may have >= 2 failing fields under some variable binding (over-approximation)
			for _, np := range c.Policies {
				if syntacticMultiRisk(np.P) {
					ev.R.Excluded("record-literal-error-order")
					return
				}
			}
		}
		if ev.KnownOpen("C14", "in-set-nonentity-error-order") {
			for _, np := range c.Policies {
				if syntacticInSetRisk(np.P) {
					ev.R.Excluded("in-set-nonentity-error-order")
					return
				}
			}
		}
		wording := false
		for _, np := range c.Policies {
			wording = wording || nonBoolOperandRisk(np.P)
		}
		if wording && c.Batch.variableTie() && ev.KnownOpen("C14", "batch-variable-order-error-wording") {
			ev.R.Excluded("batch-variable-order-error-wording")
			return
		}
		labels := []string{"batch"}
		if wording && c.Batch.variableTie() {
			labels = append(labels, "batch:nonbool-operand+variable-tie")
		}
		if c.Batch.twiceInRecord() {
			labels = append(labels, "batch:variable-twice")
		}
		if c.Batch.Nested {
			labels = append(labels, "batch:nested-record")
		}
		if c.Batch.InSet {
			labels = append(labels, "batch:variable-in-set")
		}
		ev.R.Case(ir.Hash(c), len(c.Batch.Principals)*len(c.Batch.Resources) >= 2, labels...)
		if ev.R.WantSample("batch") {
			ev.R.Sample("batch", map[string]any{"policies": len(c.Policies), "template": c.Batch})
		}
		ev.Watch("batch", func() any { return c })
		sub, msg := checkBatch(c)
		ev.Unwatch()
		if sub != "" {
			ev.R.Violation(sub, c, msg)
			rt.Fatalf("C14/batch: repeated batch authorization gives different results")
		}
	})
}

// ---------------------------------------------------------------------------------------------
// canonical reproducers of the known findings

var baseWorld = gen.World{Req: ir.Request{Principal: ir.Ent("T0", "a"), Action: ir.Ent("Action", "view"), Resource: ir.Ent("T1", "b"), Context: ir.Rec(ir.F("ok", ir.Bool(true)))}}

func reproRecordErrorOrder() *Case {
	w := baseWorld
	body := ir.Bin(ir.OpEq, ir.Access(ir.RecE([]string{"a", "b"}, []*ir.Expr{errExprs[0].Clone(), errExprs[1].Clone()}), "a"), lit(ir.Long(1)))
	return &Case{Family: "authorize", World: &w, R: 200, Policies: []Named{{ID: "p", P: cond(true, body)}}}
}

func reproJSONOrder(annotations, record bool) *Case {
	p := ir.NewPolicy(true)
	if annotations {
		p.Annotations = []ir.Annotation{{K: "a", V: "1"}, {K: "b", V: "2"}, {K: "c", V: "3"}}
	}
	if record {
		p.Conds = []ir.Cond{{When: true, Body: ir.Bin(ir.OpEq, ir.RecE([]string{"x", "y", "z"}, []*ir.Expr{lit(ir.Long(1)), lit(ir.Long(2)), lit(ir.Long(3))}), ctxVar)}}
	}
	return &Case{Family: "policy-codec", R: 200, Policies: []Named{{ID: "p", P: p}}}
}

func reproBatchTwice() *Case {
	w := baseWorld
	return &Case{Family: "batch", World: &w, R: 200,
		Policies: []Named{{ID: "p", P: cond(true, ir.Bin(ir.OpEq, ir.Access(ctxVar, "who"), ir.Access(ctxVar, "whom")))}},
		Batch:    &BatchSpec{Principals: []ir.Value{ir.Ent("T0", "a")}, Resources: []ir.Value{ir.Ent("T1", "b")}, CtxVars: map[string]string{"who": "w", "whom": "w"}, W: []ir.Value{ir.Ent("T0", "1"), ir.Ent("T0", "2")}, V: []ir.Value{ir.Ent("T0", "3")}}}
}

func firstLine(s string) string {
	if len(s) > 400 {
		s = s[:400] + "…"
	}
	return strings.ReplaceAll(s, "\n", " / ")
}

func TestKnown(t *testing.T) {
	if !ev.First() {
		return
	}
	try := func(key string, c *Case, f func(*Case) (string, string)) {
		if !ev.KnownOpen("C14", key) {
			// regression case once fixed
			if sub, msg := f(c); sub != "" {
				ev.R.Violation(sub, c, msg)
				t.Errorf("C14/%s: %s", sub, msg)
			}
			return
		}
		if sub, msg := f(c); sub != "" {
			ev.R.KnownFinding(key, sub+": "+firstLine(msg))
		}
	}
	try("record-literal-error-order", reproRecordErrorOrder(), checkAuthorize)
	wIn := baseWorld
	try("in-set-nonentity-error-order", &Case{Family: "authorize", World: &wIn, R: 200, Policies: []Named{{ID: "p",
		P: cond(true, ir.Bin(ir.OpIn, ir.Var("principal"), ir.SetE(lit(ir.Long(1)), lit(ir.Str("a")))))}}}, checkAuthorize)
	// several non-entity members of one kind (and that kind first in any ordering by kind), as literal and as context value
	for i, body := range []*ir.Expr{
		ir.Bin(ir.OpIn, ir.Var("principal"), ir.SetE(lit(ir.Long(1)), lit(ir.Long(2)))),
		ir.Bin(ir.OpIn, ir.Var("principal"), ir.SetE(lit(ir.Str("admins")), lit(ir.Str("staff")), lit(ir.Str("all")))),
		ir.IsIn(ir.Var("principal"), "T0", ir.SetE(lit(ir.Bool(true)), lit(ir.Bool(false)))),
		ir.Bin(ir.OpIn, ir.Var("principal"), ir.Access(ctxVar, "groups")),
	} {
		w := baseWorld
		w.Req.Context = ir.Rec(ir.F("ok", ir.Bool(true)), ir.F("groups", ir.Set(ir.Str("admins"), ir.Str("staff"), ir.Str("all"), ir.Str("x"))))
		c := &Case{Family: "authorize", World: &w, R: 200, Policies: []Named{{ID: "p", P: cond(true, body)}}}
		if sub, msg := checkAuthorize(c); sub != "" {
			ev.R.Violation(sub, c, msg)
			t.Errorf("C14/%s (same-kind members %d): %s", sub, i, msg)
		}
		ev.R.Case(ir.Hash(c), true, "family:authorize", "in-set-same-kind-members")
	}
	// a hierarchy with a cycle back to the queried entity next to the parents that lead on: a walk whose treatment of the
	// cycle depends on where the start entity comes up in the (map-ordered) parent set answers differently from call to call
	{
		a, b, tgt := ir.Ent("T0", "a"), ir.Ent("T0", "b"), ir.Ent("T1", "t")
		st := ir.Store{{UID: a, Parents: []ir.Value{b}}, {UID: b, Parents: []ir.Value{a, ir.Ent("T0", "c1"), ir.Ent("T0", "c2"), ir.Ent("T0", "c3")}},
			{UID: ir.Ent("T0", "c1")}, {UID: ir.Ent("T0", "c2"), Parents: []ir.Value{b, tgt}}, {UID: ir.Ent("T0", "c3"), Parents: []ir.Value{a}}, {UID: tgt}}
		w := gen.World{Store: st, Req: ir.Request{Principal: a, Action: ir.Ent("Action", "view"), Resource: a, Context: ir.Rec(ir.F("ok", ir.Bool(true)))}}
		scoped := ir.NewPolicy(true)
		scoped.Principal = ir.ScopeIn(tgt)
		isin := ir.NewPolicy(true)
		isin.Resource = ir.ScopeIsIn("T0", tgt)
		c := &Case{Family: "authorize", World: &w, R: 300, Policies: []Named{
			{ID: "cond", P: cond(true, ir.Bin(ir.OpIn, ir.Var("principal"), lit(tgt)))},
			{ID: "set", P: cond(true, ir.Bin(ir.OpIn, ir.Var("principal"), ir.SetE(lit(ir.Ent("T1", "zz")), lit(tgt))))},
			{ID: "isin", P: cond(false, ir.Un(ir.OpNot, ir.IsIn(ir.Var("principal"), "T0", lit(tgt))))},
			{ID: "scope", P: scoped}, {ID: "scope-isin", P: isin}}}
		if sub, msg := checkAuthorize(c); sub != "" {
			ev.R.Violation(sub, c, msg)
			t.Errorf("C14/%s (cycle next to the way on): %s", sub, msg)
		}
		ev.R.Case(ir.Hash(c), true, "family:authorize", "cycle-next-to-the-way-on")
	}
	// a set whose ids tie under any "natural" / case-folding / trimmed comparison, encoded again and again
	{
		var ps []Named
		for i, id := range []string{"p1", "p01", "p001", "P1", "p1 ", "p10", "p2", "rule7", "rule007", "rule07"} {
			ps = append(ps, Named{ID: id, P: cond(i%2 == 0, ir.Bin(ir.OpEq, ir.Access(ctxVar, "ok"), lit(ir.Long(int64(i)))))})
		}
		c := &Case{Family: "policy-codec", R: 200, Policies: ps}
		if sub, msg := checkPolicyCodecs(c, true); sub != "" {
			ev.R.Violation(sub, c, msg)
			t.Errorf("C14/%s (tie-prone ids): %s", sub, msg)
		}
		ev.R.Case(ir.Hash(c), true, "family:policy-codec", "tie-prone-ids")
	}
	try("json-decode-annotation-order", reproJSONOrder(true, false), func(c *Case) (string, string) { return checkPolicyCodecs(c, true) })
	try("json-decode-record-key-order", reproJSONOrder(false, true), func(c *Case) (string, string) { return checkPolicyCodecs(c, true) })
	try("batch-variable-twice-in-record", reproBatchTwice(), checkBatch)
	wW := baseWorld
	try("batch-variable-order-error-wording", &Case{Family: "batch", World: &wW, R: 400,
		Policies: []Named{{ID: "p", P: cond(true, ir.Var("principal"))}},
		Batch:    &BatchSpec{Principals: []ir.Value{ir.Ent("T0", "1")}, Resources: []ir.Value{ir.Ent("T0", "2")}, CtxVars: map[string]string{}, W: []ir.Value{ir.Ent("T0", "3")}, V: []ir.Value{ir.Ent("T0", "4")}}}, checkBatch)
}

// ---------------------------------------------------------------------------------------------
// across processes: a fixed table of inputs is digested here and in 3 freshly started copies of this test binary

func fixedDigests() []string {
	var out []string
	add := func(name string, v any) { out = append(out, fmt.Sprintf("%s %016x", name, ir.Hash(v))) }
	w := baseWorld
	w.Store = ir.Store{{UID: ir.Ent("E", "e0"), Attrs: []ir.Field{ir.F("s", ir.Set(ir.Long(0), ir.Bool(false), ir.Duration(0), ir.Str("x")))}}, {UID: ir.Ent("E", "e1"), Parents: []ir.Value{ir.Ent("E", "e0")}}}
	ps := []Named{
		{ID: "b", P: cond(true, lit(ir.Bool(true)))}, {ID: "a", P: cond(false, ir.Access(ctxVar, "ok"))},
		{ID: "c", P: cond(true, ir.Bin(ir.OpEq, errExprs[0].Clone(), lit(ir.Long(1))))}, {ID: "", P: cond(true, ir.Bin(ir.OpEq, errExprs[2].Clone(), lit(ir.Long(1))))},
	}
	set := buildSet(ps, nil)
	ents := conv.ToEntityMap(w.Store)
	add("authorize", sigOf(cedar.Authorize(set, ents, conv.ToRequest(w.Req))).String())
	add("set-cedar", string(set.MarshalCedar()))
	j, _ := set.MarshalJSON()
	add("set-json", string(j))
	ej, _ := ents.MarshalJSON()
	add("entities-json", string(ej))
	v := conv.ToValue(ir.Set(ir.Long(0), ir.Bool(false), ir.Duration(0), ir.Decimal(0), ir.Str("x"), ir.Rec(ir.F("b", ir.Long(1)), ir.F("a", ir.Long(2)))))
	add("value-cedar", string(v.MarshalCedar()))
	vj, _ := json.Marshal(v)
	add("value-json", string(vj))
	for i, s := range schemaLegs(schemaFixed) {
		add(fmt.Sprintf("schema-%d", i), s)
	}
	return out
}

func childMain() {
	for _, d := range fixedDigests() {
		fmt.Println("DIGEST " + d)
	}
}

func TestCrossProcess(t *testing.T) {
	if !ev.First() {
		return
	}
	want := fixedDigests()
	n := 3
	for k := 0; k < n; k++ {
		cmd := exec.Command(os.Args[0], "-test.run=^$")
		cmd.Env = append(os.Environ(), "VERIF_C14_CHILD=1")
		b, err := cmd.Output()
		if err != nil {
			ev.R.Broken(fmt.Sprintf("cross-process child failed: %v", err))
			t.Fatalf("child: %v", err)
		}
		var got []string
		for _, l := range strings.Split(string(b), "\n") {
			if strings.HasPrefix(l, "DIGEST ") {
				got = append(got, strings.TrimPrefix(l, "DIGEST "))
			}
		}
		ev.R.Case(ir.Hash(map[string]any{"xproc": k}), true, "cross-process")
		if strings.Join(got, "\n") != strings.Join(want, "\n") {
			c := &Case{Family: "xproc"}
			msg := fmt.Sprintf("a fresh process computes different outputs for the fixed inputs:\n here:  %v\n child: %v", want, got)
			ev.R.Violation("xproc/digest", c, msg)
			t.Fatalf("C14/xproc/digest: %s", msg)
		}
	}
	ev.R.Space("fixed inputs digested in this process and in 3 fresh processes", len(want)*(n+1))
}

// ---------------------------------------------------------------------------------------------

func TestReplay(t *testing.T) {
	rf, ok, err := ev.LoadReplay()
	if !ok {
		t.Skip("no replay requested")
	}
	if err != nil {
		t.Fatal(err)
	}
	if ev.ReplayFuzz(t, rf, fuzzProps, nil) {
		return
	}
	var c Case
	if err := json.Unmarshal(rf.Case, &c); err != nil {
		t.Fatalf("cannot decode replay case: %v", err)
	}
	c.R = 400
	var sub, msg string
	switch c.Family {
	case "authorize":
		sub, msg = checkAuthorize(&c)
	case "batch":
		sub, msg = checkBatch(&c)
	case "policy-codec":
		sub, msg = checkPolicyCodecs(&c, true)
	case "data-codec":
		sub, msg = checkDataCodecs(&c)
	case "schema":
		sub, msg = checkSchema(&c)
	case "xproc":
		t.Skip("cross-process digests have no replay; run TestCrossProcess")
	default:
		t.Fatalf("unknown family %q", c.Family)
	}
	if sub != "" {
		ev.R.Violation(sub, &c, msg)
		t.Fatalf("C14 replay %s: %s", sub, msg)
	}
}
