// Package fzp: byte-level fuzz targets whose inputs are Cedar policy *texts*. The fuzzer's bytes go through cedar-go's own
// parser; every policy that parses and that the harness IR can represent is handed to the calling property's ordinary
// oracle (the same `run` function the rapid properties use, with the same known-finding exclusions). The generators of
// the harness only build what their authors thought of; here the coverage-guided search over the parser's accepted
// language supplies the policies (shapes, spellings and literal forms no generator constructs).
package fzp

import (
	"testing"

	cedar "github.com/cedar-policy/cedar-go"
	"pgregory.net/rapid"

	"verif/conv"
	"verif/ev"
	"verif/gen"
	"verif/ir"
	"verif/render"
)

// MaxInput bounds the documents (the interesting grammar corners are small; large inputs only slow the search down).
const MaxInput = 1500

// Parse returns the IR of the first policies of a document (at most 3), or nil when cedar-go rejects the text, panics
// (C10's subject) or yields something the IR cannot represent.
func Parse(in []byte) (out []*ir.Policy) {
	defer func() {
		if r := recover(); r != nil {
			out = nil
		}
	}()
	pl, err := cedar.NewPolicyListFromBytes("fuzz.cedar", in)
	if err != nil {
		return nil
	}
	for i, p := range pl {
		if i == 3 {
			break
		}
		irp, err := conv.FromPolicy(p)
		if err != nil {
			continue
		}
		out = append(out, irp)
	}
	return out
}

var handWritten = []string{
	`permit(principal, action, resource);`,
	`forbid(principal == T0::"a", action in [Action::"view", Action::"grp"], resource in T1::"b") when { true } unless { false };`,
	`@id("x") @a("") permit(principal is T0 in T1::"b", action == Action::"view", resource is NS::T2) when { principal.k == 1 && context.a.b > -2 };`,
	`permit(principal, action, resource) when { if context has k then context.k + 1 * 2 - 3 else -(-4) };`,
	`permit(principal, action, resource) when { principal has a.b.c && principal.a.b.c || !(!context["if"]) };`,
	`permit(principal, action, resource) when { context.s like "a\*b*c" || "x\u{1F600}\n" == context["a b"] };`,
	`permit(principal, action, resource) when { [1, "a", T0::"a", {k: 1, "a b": [true]}].contains(context.k) };`,
	`permit(principal, action, resource) when { [1,2].containsAll([2]) && [1].containsAny(context["then"]) && context["then"].isEmpty() };`,
	`permit(principal, action, resource) when { ip("10.0.0.1/24").isInRange(ip("10.0.0.0/8")) && ip("::1").isLoopback() && !ip("ff00::1").isIpv4() };`,
	`permit(principal, action, resource) when { decimal("1.5000").lessThan(decimal("-0.0001")) || decimal("2.0").greaterThanOrEqual(context.k) };`,
	`permit(principal, action, resource) when { datetime("2024-02-29T23:59:59.999+0130").offset(duration("-1d2h3m4s5ms")) >= datetime("1969-12-31") };`,
	`permit(principal, action, resource) when { datetime("2024-01-01").durationSince(datetime("2023-01-01")).toDays() == 365 && context.t.toDate() < context.t.toTime().toMilliseconds() };`,
	`permit(principal, action, resource) when { principal.hasTag("s") && principal.getTag("k") == 7 && resource in [T1::"b", NS::T2::"c"] };`,
	`permit(principal, action, resource) when { principal is T0 && resource is NS::T2 in T0::"a" && action in Action::"grp" };`,
	`permit(principal, action, resource) when { 9223372036854775807 + 1 > 0 || -9223372036854775808 - 1 < 0 || 3037000500 * 3037000500 == 0 };`,
	`permit(principal, action, resource) when { !!!!true && - - - -1 == 1 && (!(1 < 2) == (2 <= 1)) != (3 >= 4) };`,
	`permit(principal, action, resource) when { {"if": 1, "then": 2, "": 3}["if"] == {a: {b: {c: 1}}}.a.b["c"] };`,
	`permit(principal, action, resource) when { (if true then T0::"a" else T1::"b").k == (1).toString };`,
	`permit(principal, action, resource) when { "a" in "b" || 1 in [1] || principal in principal && T0::"a" in [T0::"a", T1::"zz"] };`,
	`permit(principal, action, resource) when { true } when { 1 } unless { context.missing } when { principal.k like "*" };`,
	"permit ( principal , action , resource ) /* c */ when // d\n { context . k == 1 } ;",
	`permit(principal, action, resource) when { A::B::C::"" == _x::y1::"\n" || T0::"\0\t\\\'\"" != T0::"\u{0}\x7f" };`,
	`permit(principal, action, resource) when { context.k.lessThan(1) || context.isEmpty() || decimal(1, 2) || ip() };`,
	`permit(principal, action, resource) when { (1 + 2 * 3 - 4 * -5 < 6) == true && "a" < "b" };`,
	`permit(principal, action, resource) when { if 1 == 1 then if false then 1 else 2 else 3 };`,
}

// Seeds: hand-written policies touching every construct of the grammar plus rendered examples of the shared generator.
func Seeds() [][]byte {
	var out [][]byte
	for _, s := range handWritten {
		out = append(out, []byte(s))
	}
	g := rapid.Custom(func(rt *rapid.T) []byte {
		o := gen.DefaultExprOpts
		w := gen.GenWorld(rt, 3, o.Val)
		p := gen.GenPolicy(rt, &w, gen.PolicyOpts{Expr: o, MaxConds: 2, Depth: 3, Annot: true})
		ro := render.Opts{}
		if rapid.IntRange(0, 2).Draw(rt, "noise") == 0 {
			ro.Noise = &render.Noise{Next: func(n int) int { return rapid.IntRange(0, n-1).Draw(rt, "n") }, Block: true}
		}
		return []byte(render.Policy(p, ro))
	})
	for i := 0; i < 24; i++ {
		out = append(out, g.Example(i+1))
	}
	return out
}

// Target builds the byte-level fuzz function. use receives each parsed policy together with the text it came from and
// returns false after it has recorded a violation.
func Target(use func(p *ir.Policy, text string) bool, failMsg string) func(*testing.T, []byte) {
	return func(t *testing.T, in []byte) {
		if len(in) > MaxInput {
			t.Skip()
		}
		ps := Parse(in)
		for _, p := range ps {
			if !ev.Fuzzing() {
				ev.R.Label("fuzz-parsed-seed", 1)
			}
			if !use(p, string(in)) {
				t.Fatalf("%s\ninput: %q", failMsg, in)
			}
		}
	}
}

// Run registers the seeds and starts the target.
func Run(f *testing.F, fn func(*testing.T, []byte)) {
	for _, s := range Seeds() {
		f.Add(s)
	}
	f.Fuzz(fn)
}
