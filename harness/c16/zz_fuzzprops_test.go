package c16

// Coverage-guided driving of this package's rapid properties (thorough tier; see ev/fuzz.go).

import (
	"testing"

	"verif/ev"
)

var fuzzProps = map[string]func(*testing.T){
	"FuzzPropRandom": TestRandom,
	"FuzzPropTypedPolicies": TestTypedPolicies,
}

func FuzzPropRandom(f *testing.F) { ev.FuzzProp(f, TestRandom) }
func FuzzPropTypedPolicies(f *testing.F) { ev.FuzzProp(f, TestTypedPolicies) }
