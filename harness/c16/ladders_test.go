package c16

// Deterministic families added after observations on the unmodified tree:
//   - action hierarchies that are layered DAGs (every action of a layer is a member of every action of the next): the number
//     of paths doubles per layer, the number of actions grows by two;
//   - unguarded access to an optional attribute at the end of access chains of every length rooted in principal, resource,
//     action and context, with attribute names of 0, 1, 2 and 8 bytes (the validator formats the chain in its message).

import (
	"fmt"
	"testing"

	"github.com/cedar-policy/cedar-go/x/exp/schema/resolved"

	"verif/ev"
	"verif/ir"
	"verif/sch"
)

func layeredActions(depth, width int) *sch.Schema {
	ns := sch.NS{Entities: []sch.Entity{{Name: "U"}}}
	ns.Actions = append(ns.Actions, sch.Action{Name: "other"})
	name := func(l, k int) string { return fmt.Sprintf("L%d_%d", l, k) }
	for l := 0; l < depth; l++ {
		for k := 0; k < width; k++ {
			a := sch.Action{Name: name(l, k)}
			if l+1 < depth {
				for j := 0; j < width; j++ {
					a.Parents = append(a.Parents, sch.PRef{ID: name(l+1, j)})
				}
			}
			if l == 0 {
				a.Applies = &sch.Applies{Principals: []string{"U"}, Resources: []string{"U"}}
			}
			ns.Actions = append(ns.Actions, a)
		}
	}
	return &sch.Schema{NS: []sch.NS{ns}}
}

func TestLayeredActionHierarchies(t *testing.T) {
	if !ev.First() {
		return
	}
	const sub = "action-layers"
	n := 0
	for _, width := range []int{2, 3} {
		for _, depth := range []int{1, 2, 3, 5, 8, 13, 21, 34, 55} {
			s := layeredActions(depth, width)
			labels := []string{fmt.Sprintf("action-layers:width%d", width)}
			r, ok := runResolve(sub, &Case{Schema: s, Op: "resolve"}, depth >= 3, labels...)
			n++
			if !ok {
				t.Errorf("C16/%s: Resolve panicked (depth %d width %d)", sub, depth, width)
				return
			}
			if r == nil {
				continue
			}
			top := fmt.Sprintf("L%d_0", depth-1)
			for _, p := range []*ir.Policy{
				scopeAction(ir.ScopeIn(ir.Ent("Action", "other"))),
				scopeAction(ir.ScopeIn(ir.Ent("Action", top))),
				scopeAction(ir.ScopeInSet([]ir.Value{ir.Ent("Action", "other"), ir.Ent("Action", "nosuch")})),
				scopeAction(ir.ScopeEq(ir.Ent("Action", "L0_0"))),
				when(ir.Bin(ir.OpIn, ir.Var("action"), ir.Lit(ir.Ent("Action", "other")))),
				when(ir.Bin(ir.OpIn, ir.Var("action"), ir.SetE(ir.Lit(ir.Ent("Action", "other")), ir.Lit(ir.Ent("Action", top))))),
				when(ir.Un(ir.OpNot, ir.Bin(ir.OpIn, ir.Lit(ir.Ent("Action", "L0_0")), ir.Lit(ir.Ent("Action", "other"))))),
			} {
				n++
				if !run(sub, r, &Case{Schema: s, Op: "policy", Policy: p}, depth >= 3, labels...) {
					t.Errorf("C16/%s: the validator panicked or hung (depth %d width %d)", sub, depth, width)
					return
				}
			}
			req := ir.Request{Principal: ir.Ent("U", "u"), Action: ir.Ent("Action", "L0_0"), Resource: ir.Ent("U", "u"), Context: ir.Rec()}
			n++
			run(sub, r, &Case{Schema: s, Op: "request", Req: &req}, depth >= 3, labels...)
			// the action entities with their ancestors as the store
			var st ir.Store
			st = append(st, ir.Entity{UID: ir.Ent("Action", "L0_0")})
			n++
			run(sub, r, &Case{Schema: s, Op: "entities", Store: st}, depth >= 3, labels...)
		}
	}
	ev.R.Space("layered action DAGs (width 2 / 3, depth 1..55: up to 3^55 paths) x action scope and condition forms, request, entities", n)
}

func scopeAction(sc ir.Scope) *ir.Policy {
	p := ir.NewPolicy(true)
	p.Action = sc
	return p
}

func TestOptionalAccessChains(t *testing.T) {
	if !ev.First() {
		return
	}
	const sub = "access-chains"
	keys := []string{"", "a", "ab", "abcdefgh", "context", "a.b"}
	n := 0
	for _, k1 := range keys {
		for _, k2 := range keys {
			// every entity type (one of them is called Action, like the type of the action entities) has the attribute
			// k1: { k2?: Long, r: { k2?: Long } }, and so has the context
			inner := sch.Rec(sch.AOpt(k2, sch.Lng()), sch.A("r", sch.Rec(sch.AOpt(k2, sch.Lng()))))
			shape := []sch.Attr{sch.A(k1, inner), sch.AOpt("o", sch.Lng())}
			ctx := sch.Rec(shape...)
			ns := sch.NS{
				Entities: []sch.Entity{{Name: "U", HasShape: true, Shape: shape}, {Name: "Action", HasShape: true, Shape: shape}},
				Actions:  []sch.Action{{Name: "act", Applies: &sch.Applies{Principals: []string{"U", "Action"}, Resources: []string{"U"}, Context: &ctx}}},
			}
			s := &sch.Schema{NS: []sch.NS{ns}}
			r, ok := runResolve(sub, &Case{Schema: s, Op: "resolve"}, true, "access-chains")
			n++
			if !ok {
				t.Errorf("C16/%s: Resolve panicked (keys %q %q)", sub, k1, k2)
				return
			}
			if r == nil {
				continue
			}
			for _, root := range []string{"principal", "resource", "action", "context"} {
				v := ir.Var(root)
				one := ir.Lit(ir.Long(1))
				for _, e := range []*ir.Expr{
					ir.Bin(ir.OpEq, ir.Access(v, "o"), one),
					ir.Bin(ir.OpEq, ir.Access(ir.Access(v, k1), k2), one),
					ir.Bin(ir.OpEq, ir.Access(ir.Access(ir.Access(v, k1), "r"), k2), one),
					ir.Bin(ir.OpAnd, ir.Has(ir.Access(v, k1), k2), ir.Bin(ir.OpEq, ir.Access(ir.Access(ir.Access(v, k1), "r"), k2), one)),
					ir.Bin(ir.OpEq, ir.Access(ir.Access(ir.If(ir.Has(v, "o"), v, v), k1), k2), one),
					ir.Bin(ir.OpEq, ir.Access(ir.Access(v, k1), "nosuch"), one),
				} {
					n++
					if !run(sub, r, &Case{Schema: s, Op: "policy", Policy: when(e)}, true, "access-chains", "root:"+root) {
						t.Errorf("C16/%s: the validator panicked on %s (keys %q %q)", sub, e.String(), k1, k2)
						return
					}
				}
			}
		}
	}
	ev.R.Space("unguarded optional attribute at the end of access chains rooted in principal / resource / action / context x attribute names of 0..8 bytes", n)
}

// layeredCommons: common types T0..T(depth-1), each a record whose `width` attributes all refer to the next layer's type
// (the last is Long); an entity attribute and the action context use T0. Acyclic and valid; the number of *paths* from
// T0 to the leaf is width^depth, the number of declarations depth.
func layeredCommons(depth, width int) *sch.Schema {
	ns := sch.NS{}
	for l := 0; l < depth; l++ {
		var next sch.Type
		if l+1 < depth {
			next = sch.Ref(fmt.Sprintf("T%d", l+1))
		} else {
			next = sch.Lng()
		}
		var as []sch.Attr
		for k := 0; k < width; k++ {
			as = append(as, sch.A(fmt.Sprintf("a%d", k), next))
		}
		ns.Commons = append(ns.Commons, sch.Common{Name: fmt.Sprintf("T%d", l), T: sch.Rec(as...)})
	}
	ctx := sch.Ref("T0")
	ns.Entities = []sch.Entity{{Name: "U", HasShape: true, Shape: []sch.Attr{sch.A("x", sch.Ref("T0"))}}}
	ns.Actions = []sch.Action{{Name: "act", Applies: &sch.Applies{Principals: []string{"U"}, Resources: []string{"U"}, Context: &ctx}}}
	return &sch.Schema{NS: []sch.NS{ns}}
}

const kCommonDAG = "common-type-dag-exponential"

func TestLayeredCommonTypes(t *testing.T) {
	if !ev.First() {
		return
	}
	const sub = "common-layers"
	n := 0
	for _, width := range []int{1, 2, 3} {
		for _, depth := range []int{1, 2, 3, 5, 8, 13, 21, 34, 55} {
			paths := 1.0
			for i := 0; i < depth; i++ {
				paths *= float64(width)
			}
			if ev.KnownOpen("C16", kCommonDAG) && paths > 5000 {
				ev.R.Excluded(kCommonDAG)
				continue
			}
			s := layeredCommons(depth, width)
			labels := []string{fmt.Sprintf("common-layers:width%d", width)}
			r, ok := runResolve(sub, &Case{Schema: s, Op: "resolve"}, depth >= 3, labels...)
			n++
			if !ok {
				t.Errorf("C16/%s: Resolve panicked or hung (depth %d width %d)", sub, depth, width)
				return
			}
			if r == nil {
				continue
			}
			for _, p := range []*ir.Policy{
				when(ir.Bin(ir.OpEq, ir.Access(ir.Var("principal"), "x"), ir.Var("context"))),
				when(ir.Bin(ir.OpEq, ir.Access(ir.Access(ir.Var("principal"), "x"), "a0"), ir.Access(ir.Var("context"), "a0"))),
				when(ir.Has(ir.Var("context"), "a0")),
			} {
				n++
				if !run(sub, r, &Case{Schema: s, Op: "policy", Policy: p}, depth >= 3, labels...) {
					t.Errorf("C16/%s: the validator panicked or hung (depth %d width %d)", sub, depth, width)
					return
				}
			}
		}
	}
	ev.R.Space("layered common-type DAGs (fan-out 1 / 2 / 3, depth 1..55) x resolve and three policies over the inlined type", n)
	if ev.KnownOpen("C16", kCommonDAG) {
		// canonical reproducer, decided by counting (no clock): 12 declarations, 2 uses each -> 2^12 - 1 record types
		const d = 12
		c := &Case{Schema: layeredCommons(d, 2), Op: "resolve"}
		if r, _ := resolve(sub, c); r != nil {
			if e, ok := r.Entities["U"]; ok {
				if cnt := countRecords(e.Shape["x"].Type); cnt >= 1<<d-1 {
					ev.R.KnownFinding(kCommonDAG, fmt.Sprintf("Resolve() of %d chained common types `type Tk = {a0: T(k+1), a1: T(k+1)}` builds %d record types (2^depth: every use re-inlines the type); depth 30 (32 lines, acyclic, valid) does not finish", d, cnt))
				}
			}
		}
	}
}

func countRecords(t resolved.IsType) int {
	n := 0
	switch tv := t.(type) {
	case resolved.RecordType:
		n = 1
		for _, a := range tv {
			n += countRecords(a.Type)
		}
	case resolved.SetType:
		n = countRecords(tv.Element)
	}
	return n
}
