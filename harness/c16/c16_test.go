// C16: schema resolution and validation terminate without crashing on every input.
//
// Every call into cedar-go (Schema.Resolve, Validator.Policy / Entity / Entities / Request, both modes) is made
// under the crash protocol: the case is written to the pending file first (a Go stack overflow is fatal and cannot
// be recovered; the driver turns the pending file of a dead shard into a `<sub>/crash` violation), ordinary panics
// are recovered and reported as `<sub>/panic`, and a watchdog turns a case that stays current for 90 s into
// `<sub>/hang`. Any return value is acceptable; nothing else is asserted.
//
// Exhaustive parts (split over shards by index): all 512 entity-type parent graphs on {A,B,C} (self loops and
// cycles included) x `in` between every pair of entity types in conditions and scopes, entities and requests;
// all 1000 common-type graphs on {X,Y,Z} with bodies in {Long, ref, Set<ref>, {f: ref}} x 4 placements
// (unqualified, in a namespace, qualified, shadowing an entity name); all 512 action-group graphs on {a,b,c}
// x 5 placements (unqualified, qualified, namespaced, undefined parent, cross-namespace). Random part: schemas from
// the general generator (harness/sch), policies from the untyped expression generator renamed onto the schema's
// names (literals that are sets / records / extension values as NodeValue, unknown extension functions and wrong
// arities as programmatic ASTs, optionally sent through the policy JSON codec first), entities and requests from
// the untyped value generator.
//
// Because a fatal crash ends the shard at the first hit, every confirmed crash class is excluded by construction
// behind an ev.KnownOpen matcher (the search continues behind it) and re-run once in a child process by TestKnown:
//
//	entity-hierarchy-recursion  policies with an `in` whose operand entity types (x, y) make the validator's naive
//	                            depth-first search over ParentTypes revisit a type on its own path (simulated exactly)
//	nodevalue-literal-panic     policies with a NodeValue literal that is a set, record or extension value
//
// Carve-out: ASTs with nil types (ast.Set(nil), Attribute{Type: nil}) are not generated - they are malformed values,
// not schemas; the JSON decoder cannot produce them.
//
// Sensitivity (scratch copies of /repo and the harness, quick tier, seed 1):
//
//	M1 resolve.go detectCommonTypeCycles: the `visited != len` cycle report disabled
//	   -> caught: the shard dies with "fatal error: stack overflow" on `type X = X`, pending file present; through the
//	      driver: VIOLATION common-graphs/crash with a replay that crashes the mutant and passes on the unmodified tree
//	M2 resolve.go validateActionMembership: `visited[uid] = 1` removed
//	   -> caught: fatal stack overflow on `action a in [Action::"a"]` (action-graphs, pending file present)
//	M3 policy.go getEntityTypesIn without the `slices.Contains(result, name)` guard (endless fixpoint loop)
//	   -> caught: entity-graphs/hang (watchdog; shortened to 8 s for the demonstration with VERIF_HANG_S)
package c16

import (
	"encoding/json"
	"fmt"
	"os"
	"os/exec"
	"runtime/debug"
	"sort"
	"strings"
	"testing"

	cedar "github.com/cedar-policy/cedar-go"
	"github.com/cedar-policy/cedar-go/types"
	xast "github.com/cedar-policy/cedar-go/x/exp/ast"
	"github.com/cedar-policy/cedar-go/x/exp/schema"
	"github.com/cedar-policy/cedar-go/x/exp/schema/resolved"
	"github.com/cedar-policy/cedar-go/x/exp/schema/validate"
	"pgregory.net/rapid"

	"verif/conv"
	"verif/ev"
	"verif/gen"
	"verif/ir"
	"verif/pgen"
	"verif/sch"
)

func TestMain(m *testing.M) {
	// Unbounded recursion is the failure this property is about; a 64 MB stack limit (thousands of times deeper than
	// any legitimate recursion on these inputs) makes it fail fast instead of growing each shard's stack to 1 GB.
	debug.SetMaxStack(64 << 20)
	ev.Main(m, "C16")
}

// Case is one unit of work: resolve the schema and, if it resolves, run Op in both modes.
type Case struct {
	Schema  *sch.Schema `json:"schema"`
	Op      string      `json:"op"` // resolve | policy | entity | entities | request
	Policy  *ir.Policy  `json:"policy,omitempty"`
	ViaJSON bool        `json:"viaJSON,omitempty"` // send the policy through cedar.Policy JSON first
	Store   ir.Store    `json:"store,omitempty"`
	Req     *ir.Request `json:"req,omitempty"`
}

// ---------------------------------------------------------------------------------------------
// Known crash classes

// dfsRevisits simulates validate.isEntityDescendant(child, anc) on the resolved schema: true iff the naive
// depth-first search reaches a type that is already on its own path, i.e. recurses without bound.
func dfsRevisits(r *resolved.Schema, child, anc types.EntityType) bool {
	onPath := map[types.EntityType]bool{}
	var rec func(c types.EntityType) (found, loops bool)
	rec = func(c types.EntityType) (bool, bool) {
		if onPath[c] {
			return false, true
		}
		onPath[c] = true
		defer delete(onPath, c)
		for _, p := range r.Entities[c].ParentTypes {
			if p == anc {
				return true, false
			}
			f, l := rec(p)
			if l {
				return false, true
			}
			if f {
				return true, false
			}
		}
		return false, false
	}
	_, loops := rec(child)
	return loops
}

// anyLoopingPair: some ordered pair of distinct declared entity types makes the search loop.
func anyLoopingPair(r *resolved.Schema) bool {
	var ts []types.EntityType
	for t := range r.Entities {
		ts = append(ts, t)
	}
	for t := range r.Enums {
		ts = append(ts, t)
	}
	for _, x := range ts {
		// an ancestor type that is never found (e.g. an action type) is the worst case: the walk loops iff any
		// cycle is reachable from x
		if dfsRevisits(r, x, "\x00never found") {
			return true
		}
	}
	return false
}

// entityOperandTypes returns the entity types an operand of `in` can statically have when it is a literal, a
// literal set or a request variable; ok=false when the operand is anything else (then every type is possible).
func entityOperandTypes(r *resolved.Schema, e *ir.Expr) (out []types.EntityType, ok bool) {
	switch e.Op {
	case ir.OpLit:
		switch e.Lit.K {
		case ir.KEntity:
			return []types.EntityType{types.EntityType(e.Lit.T)}, true
		case ir.KSet:
			for _, m := range e.Lit.Elems {
				if m.K != ir.KEntity {
					return nil, false
				}
				out = append(out, types.EntityType(m.T))
			}
			return out, true
		}
		return nil, true // not an entity: the validator reports a type error before looking at the hierarchy
	case ir.OpSet:
		for _, a := range e.Args {
			ts, ok := entityOperandTypes(r, a)
			if !ok {
				return nil, false
			}
			out = append(out, ts...)
		}
		return out, true
	case ir.OpVar:
		seen := map[types.EntityType]bool{}
		if e.Name == "action" {
			// typed as an entity of the action's type; it takes part in the walk like any other entity type
			for uid := range r.Actions {
				if !seen[uid.Type] {
					seen[uid.Type] = true
					out = append(out, uid.Type)
				}
			}
			return out, true
		}
		for _, a := range r.Actions {
			if a.AppliesTo == nil {
				continue
			}
			var ts []types.EntityType
			switch e.Name {
			case "principal":
				ts = a.AppliesTo.Principals
			case "resource":
				ts = a.AppliesTo.Resources
			default:
				return nil, true // context: a record, the validator reports a type error before the hierarchy walk
			}
			for _, t := range ts {
				if !seen[t] {
					seen[t] = true
					out = append(out, t)
				}
			}
		}
		return out, true
	}
	return nil, false
}

// hierarchyRecursion: the policy contains an `in` for which the validator's hierarchy walk loops.
func hierarchyRecursion(r *resolved.Schema, p *ir.Policy) bool {
	looping := false
	for _, c := range p.Conds {
		c.Body.Walk(func(x *ir.Expr) {
			if x.Op != ir.OpIn || looping {
				return
			}
			ls, lok := entityOperandTypes(r, x.Args[0])
			rs, rok := entityOperandTypes(r, x.Args[1])
			if !lok || !rok {
				looping = anyLoopingPair(r)
				return
			}
			for _, a := range ls {
				for _, b := range rs {
					if a != b && dfsRevisits(r, a, b) {
						looping = true
					}
				}
			}
		})
	}
	return looping
}

func nonPrimitiveLiteral(p *ir.Policy) bool {
	found := false
	for _, c := range p.Conds {
		c.Body.Walk(func(x *ir.Expr) {
			if x.Op == ir.OpLit {
				switch x.Lit.K {
				case ir.KBool, ir.KLong, ir.KString, ir.KEntity:
				default:
					found = true
				}
			}
		})
	}
	return found
}

// excluded applies the open-finding matchers to a policy case.
func excluded(r *resolved.Schema, c *Case) string {
	if c.Op != "policy" {
		return ""
	}
	if ev.KnownOpen("C16", "nodevalue-literal-panic") && nonPrimitiveLiteral(c.Policy) {
		return "nodevalue-literal-panic"
	}
	if ev.KnownOpen("C16", "entity-hierarchy-recursion") && hierarchyRecursion(r, c.Policy) {
		return "entity-hierarchy-recursion"
	}
	return ""
}

// ---------------------------------------------------------------------------------------------
// Execution under the crash protocol

func guard(sub string, c *Case, what string, f func()) (panicked string) {
	defer func() {
		if r := recover(); r != nil {
			panicked = fmt.Sprintf("%s panicked: %v", what, r)
		}
	}()
	f()
	return ""
}

func resolve(sub string, c *Case) (r *resolved.Schema, panicked string) {
	ev.Pending(sub, c)
	panicked = guard(sub, c, "Resolve", func() {
		r, _ = schema.NewSchemaFromAST(sch.ToAST(c.Schema)).Resolve()
	})
	ev.ClearPending()
	return r, panicked
}

func xpolicy(c *Case) *xast.Policy {
	if c.ViaJSON {
		p := conv.ToPolicy(c.Policy)
		b, err := p.MarshalJSON()
		if err == nil {
			var q cedar.Policy
			if q.UnmarshalJSON(b) == nil {
				return (*xast.Policy)(q.AST())
			}
		}
	}
	return conv.ToXPolicy(c.Policy)
}

// execOn runs c.Op on an already resolved schema in both modes; returns a panic description or "".
func execOn(sub string, r *resolved.Schema, c *Case) string {
	var xp *xast.Policy
	var em types.EntityMap
	var req types.Request
	if msg := guard(sub, c, "building the input", func() {
		switch c.Op {
		case "policy":
			xp = xpolicy(c)
		case "entity", "entities":
			em = conv.ToEntityMap(c.Store)
		case "request":
			req = conv.ToRequest(*c.Req)
		}
	}); msg != "" {
		return "" // the harness could not build the input (e.g. JSON codec panic: another property's business)
	}
	ev.Pending(sub, c)
	defer ev.ClearPending()
	for _, mode := range []validate.Option{validate.WithStrict(), validate.WithPermissive()} {
		v := validate.New(r, mode)
		msg := guard(sub, c, "validate."+c.Op, func() {
			switch c.Op {
			case "policy":
				_ = v.Policy("p", xp)
			case "entity":
				for _, e := range c.Store {
					_ = v.Entity(em[conv.ToEntityUID(e.UID)])
				}
			case "entities":
				_ = v.Entities(em)
			case "request":
				_ = v.Request(req)
			}
		})
		if msg != "" {
			return msg
		}
	}
	return ""
}

// run executes one case on a resolved schema with bookkeeping. Returns false on violation.
func run(sub string, r *resolved.Schema, c *Case, nt bool, labels ...string) bool {
	if key := excluded(r, c); key != "" {
		ev.R.Excluded(key)
		return true
	}
	ev.Watch(sub, func() any { return c })
	msg := execOn(sub, r, c)
	ev.Unwatch()
	ev.R.Case(ir.Hash(c), nt, append(labels, "op:"+c.Op)...)
	if class := sub + ":" + c.Op; ev.R.WantSample(class) {
		s := map[string]any{"schema": sch.RenderText(c.Schema, 0)}
		switch c.Op {
		case "policy":
			var conds []string
			for _, cd := range c.Policy.Conds {
				conds = append(conds, cd.Body.String())
			}
			s["scope"] = []ir.Scope{c.Policy.Principal, c.Policy.Action, c.Policy.Resource}
			s["conditions"] = conds
		case "entity", "entities":
			s["entities"] = c.Store
		case "request":
			s["request"] = c.Req
		}
		ev.R.Sample(class, s)
	}
	if msg != "" {
		ev.R.Violation(sub+"/panic", c, msg)
		return false
	}
	return true
}

func runResolve(sub string, c *Case, nt bool, labels ...string) (*resolved.Schema, bool) {
	ev.Watch(sub, func() any { return c })
	r, msg := resolve(sub, c)
	ev.Unwatch()
	lab := "resolves"
	if r == nil {
		lab = "resolve-error"
	}
	ev.R.Case(ir.Hash(c), nt, append(labels, "op:resolve", lab)...)
	if msg != "" {
		ev.R.Violation(sub+"/panic", c, msg)
		return nil, false
	}
	return r, true
}

// ---------------------------------------------------------------------------------------------
// Exhaustive: entity-type parent graphs on {A,B,C}

var abc = []string{"A", "B", "C"}

func entityGraphSchema(g int) *sch.Schema {
	ns := sch.NS{}
	for i, n := range abc {
		e := sch.Entity{Name: n, HasShape: true, Shape: []sch.Attr{sch.AOpt("x", sch.Lng())}}
		mask := (g >> (3 * i)) & 7
		for j, p := range abc {
			if mask&(1<<j) != 0 {
				e.Parents = append(e.Parents, p)
			}
		}
		ns.Entities = append(ns.Entities, e)
	}
	ns.Actions = []sch.Action{{Name: "act", Applies: &sch.Applies{Principals: abc, Resources: abc}}}
	return &sch.Schema{NS: []sch.NS{ns}}
}

func lit(t, id string) *ir.Expr { return ir.Lit(ir.Ent(t, id)) }

func when(e *ir.Expr) *ir.Policy {
	p := ir.NewPolicy(true)
	p.Conds = []ir.Cond{{When: true, Body: e}}
	return p
}

func entityGraphPolicies() []*ir.Policy {
	var ps []*ir.Policy
	for _, x := range abc {
		for _, y := range abc {
			ps = append(ps, when(ir.Bin(ir.OpIn, lit(x, "x"), lit(y, "y"))))
			p := ir.NewPolicy(true)
			p.Principal = ir.ScopeIsIn(x, ir.Ent(y, "y"))
			ps = append(ps, p)
		}
		p := ir.NewPolicy(true)
		p.Principal = ir.ScopeIn(ir.Ent(x, "y"))
		ps = append(ps, p)
		p = ir.NewPolicy(false)
		p.Resource = ir.ScopeIn(ir.Ent(x, "y"))
		p.Conds = []ir.Cond{{When: true, Body: ir.Bin(ir.OpIn, ir.Var("principal"), ir.Var("resource"))}}
		ps = append(ps, p)
		ps = append(ps, when(ir.Bin(ir.OpIn, ir.Var("principal"), ir.SetE(lit(x, "y"), lit(x, "z")))))
		ps = append(ps, when(ir.IsIn(ir.Var("principal"), x, ir.Var("resource"))))
		ps = append(ps, when(ir.Bin(ir.OpAnd, ir.Bin(ir.OpIn, ir.Var("resource"), lit(x, "y")), ir.Has(ir.Var("resource"), "x"))))
	}
	ps = append(ps, when(ir.Bin(ir.OpIn, ir.Var("principal"), ir.Var("resource"))))
	ps = append(ps, when(ir.Bin(ir.OpIn, ir.Var("principal"), ir.Lit(ir.Set(ir.Ent("A", "x"), ir.Ent("C", "y"))))))
	return ps
}

func graphHasCycle(g int) (cycle, self bool) {
	adj := [3]int{g & 7, (g >> 3) & 7, (g >> 6) & 7}
	for i := 0; i < 3; i++ {
		if adj[i]&(1<<i) != 0 {
			self = true
		}
	}
	// reach by squaring
	reach := adj
	for k := 0; k < 3; k++ {
		for i := 0; i < 3; i++ {
			for j := 0; j < 3; j++ {
				if reach[i]&(1<<j) != 0 {
					reach[i] |= reach[j]
				}
			}
		}
	}
	for i := 0; i < 3; i++ {
		if reach[i]&(1<<i) != 0 {
			cycle = true
		}
	}
	return cycle, self
}

func TestEntityGraphs(t *testing.T) {
	const sub = "entity-graphs"
	policies := entityGraphPolicies()
	count := 0
	for g := 0; g < 512; g++ {
		if g%ev.NShards != ev.Shard {
			continue
		}
		s := entityGraphSchema(g)
		cyc, self := graphHasCycle(g)
		var labels []string
		if cyc {
			labels = append(labels, "entity-cycle")
		}
		if self {
			labels = append(labels, "entity-self-parent")
		}
		r, ok := runResolve(sub, &Case{Schema: s, Op: "resolve"}, cyc, labels...)
		if !ok {
			t.Errorf("C16/%s: Resolve panicked on graph %d", sub, g)
			continue
		}
		if r == nil {
			continue
		}
		for _, p := range policies {
			count++
			if !run(sub, r, &Case{Schema: s, Op: "policy", Policy: p}, cyc, labels...) {
				t.Errorf("C16/%s: validator panicked on graph %d", sub, g)
			}
		}
		// entities with a parent of every type, and requests for every pair
		for _, x := range abc {
			var st ir.Store
			for _, y := range abc {
				st = append(st, ir.Entity{UID: ir.Ent(x, "e"+y), Parents: []ir.Value{ir.Ent(y, "p")}, Attrs: []ir.Field{ir.F("x", ir.Long(1))}})
				req := ir.Request{Principal: ir.Ent(x, "x"), Action: ir.Ent("Action", "act"), Resource: ir.Ent(y, "y"), Context: ir.Rec()}
				run(sub, r, &Case{Schema: s, Op: "request", Req: &req}, cyc, labels...)
			}
			count += 2
			run(sub, r, &Case{Schema: s, Op: "entity", Store: st}, cyc, labels...)
			run(sub, r, &Case{Schema: s, Op: "entities", Store: st}, cyc, labels...)
		}
	}
	if ev.First() {
		ev.R.Space("entity-type parent graphs on {A,B,C} (each ParentTypes a subset, self loops and cycles included)", 512)
		ev.R.Space("policies per entity graph: `in` between every pair of types in conditions and scopes, is-in, variables, literal sets", len(policies))
	}
	_ = count
}

// ---------------------------------------------------------------------------------------------
// Exhaustive: common-type graphs on {X,Y,Z}

var xyz = []string{"X", "Y", "Z"}

// body b in 0..9: 0 Long; 1-3 ref; 4-6 Set<ref>; 7-9 {f: ref}
func commonBody(b int, ref func(string) sch.Type) sch.Type {
	switch {
	case b == 0:
		return sch.Lng()
	case b <= 3:
		return ref(xyz[b-1])
	case b <= 6:
		return sch.SetOf(ref(xyz[b-4]))
	default:
		return sch.Rec(sch.AOpt("f", ref(xyz[b-7])))
	}
}

func commonGraphSchema(g, variant int) *sch.Schema {
	nsName := ""
	ref := func(n string) sch.Type { return sch.Ref(n) }
	switch variant {
	case 1:
		nsName = "NS"
	case 2:
		nsName = "NS"
		ref = func(n string) sch.Type { return sch.Ref("NS::" + n) }
	}
	bs := []int{g % 10, (g / 10) % 10, (g / 100) % 10}
	if variant >= 4 {
		// split placements: each common type lives either in the empty namespace or in NS (bit i of variant-4), all
		// references are unqualified, the entity type and the action that use them live in NS - which declaration an
		// unqualified name denotes (or that it denotes none) depends on the namespace of the referring declaration
		top, in := sch.NS{}, sch.NS{Name: "NS"}
		for i, n := range xyz {
			c := sch.Common{Name: n, T: commonBody(bs[i], ref)}
			if (variant-4)&(1<<uint(i)) != 0 {
				in.Commons = append(in.Commons, c)
			} else {
				top.Commons = append(top.Commons, c)
			}
		}
		ctx := ref("Y")
		in.Entities = []sch.Entity{{Name: "E", HasShape: true, Shape: []sch.Attr{sch.A("a", ref("X")), sch.AOpt("b", sch.SetOf(ref("Z")))}, Tags: &sch.Type{K: sch.TRef, Name: "Z"}}}
		in.Actions = []sch.Action{{Name: "act", Applies: &sch.Applies{Principals: []string{"E"}, Resources: []string{"E"}, Context: &ctx}}}
		return &sch.Schema{NS: []sch.NS{top, in}}
	}
	ns := sch.NS{Name: nsName}
	for i, n := range xyz {
		ns.Commons = append(ns.Commons, sch.Common{Name: n, T: commonBody(bs[i], ref)})
	}
	ctx := ref("Y")
	ns.Entities = []sch.Entity{{Name: "E", HasShape: true, Shape: []sch.Attr{sch.A("a", ref("X")), sch.AOpt("b", sch.SetOf(ref("Z")))}, Tags: &sch.Type{K: sch.TRef, Name: ref("Z").Name}}}
	if variant == 3 {
		// an entity type with the name of a common type: references must still pick the common type
		ns.Entities = append(ns.Entities, sch.Entity{Name: "X", Parents: []string{"X"}})
	}
	ns.Actions = []sch.Action{{Name: "act", Applies: &sch.Applies{Principals: []string{"E"}, Resources: []string{"E"}, Context: &ctx}}}
	return &sch.Schema{NS: []sch.NS{ns}}
}

func commonGraphCyclic(g int) bool {
	bs := []int{g % 10, (g / 10) % 10, (g / 100) % 10}
	next := func(i int) int {
		if bs[i] == 0 {
			return -1
		}
		return (bs[i] - 1) % 3
	}
	for i := 0; i < 3; i++ {
		j := i
		for k := 0; k < 4 && j >= 0; k++ {
			j = next(j)
			if j == i {
				return true
			}
		}
	}
	return false
}

func TestCommonTypeGraphs(t *testing.T) {
	const sub = "common-graphs"
	variants := 12
	n := 0
	for g := 0; g < 1000; g++ {
		for variant := 0; variant < variants; variant++ {
			// quick: one of the four single-namespace placements and one (pseudo-randomly chosen) split placement per graph
			if !ev.Thorough() && variant != g%4 && variant != 4+int((uint32(g)*2654435761>>13)%8) {
				continue
			}
			n++
			if n%ev.NShards != ev.Shard {
				continue
			}
			s := commonGraphSchema(g, variant)
			cyc := commonGraphCyclic(g)
			labels := []string{fmt.Sprintf("common-variant-%d", variant)}
			if cyc {
				labels = append(labels, "common-cycle")
			}
			r, ok := runResolve(sub, &Case{Schema: s, Op: "resolve"}, cyc, labels...)
			if !ok {
				t.Errorf("C16/%s: Resolve panicked on graph %d variant %d", sub, g, variant)
			}
			if r == nil {
				continue
			}
			et := "E"
			if variant == 1 || variant == 2 || variant >= 4 {
				et = "NS::E"
			}
			at := strings.TrimSuffix(et, "E") + "Action"
			p := when(ir.Bin(ir.OpEq, ir.Access(ir.Var("principal"), "a"), ir.Lit(ir.Long(1))))
			run(sub, r, &Case{Schema: s, Op: "policy", Policy: p}, cyc, labels...)
			p2 := when(ir.Bin(ir.OpAnd, ir.Has(ir.Var("context"), "f"), ir.Bin(ir.OpEq, ir.Access(ir.Var("context"), "f"), ir.Bin(ir.OpGetTag, ir.Var("resource"), ir.Lit(ir.Str("k"))))))
			run(sub, r, &Case{Schema: s, Op: "policy", Policy: p2}, cyc, labels...)
			st := ir.Store{{UID: ir.Ent(et, "e"), Attrs: []ir.Field{ir.F("a", ir.Long(1)), ir.F("b", ir.Set(ir.Rec(ir.F("f", ir.Long(2)))))}, Tags: []ir.Field{ir.F("k", ir.Long(3))}}}
			run(sub, r, &Case{Schema: s, Op: "entities", Store: st}, cyc, labels...)
			req := ir.Request{Principal: ir.Ent(et, "e"), Action: ir.Ent(at, "act"), Resource: ir.Ent(et, "e"), Context: ir.Rec(ir.F("f", ir.Long(1)))}
			run(sub, r, &Case{Schema: s, Op: "request", Req: &req}, cyc, labels...)
		}
	}
	if ev.First() {
		size := 1000
		if ev.Thorough() {
			size = 12000
		}
		ev.R.Space("common-type graphs on {X,Y,Z}, bodies in {Long, ref, Set<ref>, {f: ref}} (1000) x placements incl. every split over the empty namespace and NS (quick: one of 12 per graph, thorough: all 12)", size)
	}
}

// ---------------------------------------------------------------------------------------------
// Exhaustive: action-group graphs on {a,b,c}

func actionGraphSchema(g, variant int) *sch.Schema {
	ids := []string{"a", "b", "c"}
	mk := func(nsName string, qualify func(id string) sch.PRef) sch.NS {
		ns := sch.NS{Name: nsName, Entities: []sch.Entity{{Name: "E"}}}
		for i, id := range ids {
			a := sch.Action{Name: id, Applies: &sch.Applies{Principals: []string{"E"}, Resources: []string{"E"}}}
			mask := (g >> (3 * i)) & 7
			for j, p := range ids {
				if mask&(1<<j) != 0 {
					a.Parents = append(a.Parents, qualify(p))
				}
			}
			ns.Actions = append(ns.Actions, a)
		}
		return ns
	}
	switch variant {
	case 0:
		return &sch.Schema{NS: []sch.NS{mk("", func(id string) sch.PRef { return sch.PRef{ID: id} })}}
	case 1:
		return &sch.Schema{NS: []sch.NS{mk("", func(id string) sch.PRef { return sch.PRef{Type: "Action", ID: id} })}}
	case 2:
		return &sch.Schema{NS: []sch.NS{mk("NS", func(id string) sch.PRef { return sch.PRef{Type: "NS::Action", ID: id} })}}
	case 3:
		s := &sch.Schema{NS: []sch.NS{mk("", func(id string) sch.PRef { return sch.PRef{ID: id} })}}
		s.NS[0].Actions[2].Parents = append(s.NS[0].Actions[2].Parents, sch.PRef{ID: "zz"})
		return s
	default:
		// b lives in namespace NS, a and c in the empty namespace; all references qualified
		q := func(id string) sch.PRef {
			if id == "b" {
				return sch.PRef{Type: "NS::Action", ID: id}
			}
			return sch.PRef{Type: "Action", ID: id}
		}
		bare := mk("", q)
		other := sch.NS{Name: "NS", Actions: []sch.Action{bare.Actions[1]}}
		other.Actions[0].Applies = &sch.Applies{Principals: []string{"E"}, Resources: []string{"E"}}
		bare.Actions = []sch.Action{bare.Actions[0], bare.Actions[2]}
		return &sch.Schema{NS: []sch.NS{bare, other}}
	}
}

func TestActionGraphs(t *testing.T) {
	const sub = "action-graphs"
	variants := 5
	n := 0
	for g := 0; g < 512; g++ {
		for variant := 0; variant < variants; variant++ {
			if !ev.Thorough() && variant != g%variants {
				continue
			}
			n++
			if n%ev.NShards != ev.Shard {
				continue
			}
			s := actionGraphSchema(g, variant)
			cyc, self := graphHasCycle(g)
			labels := []string{fmt.Sprintf("action-variant-%d", variant)}
			if cyc {
				labels = append(labels, "action-cycle")
			}
			if self {
				labels = append(labels, "action-self-parent")
			}
			r, ok := runResolve(sub, &Case{Schema: s, Op: "resolve"}, cyc, labels...)
			if !ok {
				t.Errorf("C16/%s: Resolve panicked on graph %d variant %d", sub, g, variant)
			}
			if r == nil {
				continue
			}
			var uids []ir.Value
			for uid := range r.Actions {
				uids = append(uids, conv.FromEntityUID(uid))
			}
			sort.Slice(uids, func(i, j int) bool { return uids[i].T+uids[i].S < uids[j].T+uids[j].S })
			et := "E"
			if variant == 2 {
				et = "NS::E"
			}
			for _, u := range uids {
				p := ir.NewPolicy(true)
				p.Action = ir.ScopeIn(u)
				p.Conds = []ir.Cond{{When: true, Body: ir.Bin(ir.OpIn, ir.Var("action"), ir.Lit(uids[0]))}}
				run(sub, r, &Case{Schema: s, Op: "policy", Policy: p}, cyc, labels...)
				p2 := ir.NewPolicy(false)
				p2.Action = ir.ScopeInSet(uids)
				var es []*ir.Expr
				for _, w := range uids {
					es = append(es, ir.Lit(w))
				}
				p2.Conds = []ir.Cond{{When: false, Body: ir.Bin(ir.OpIn, ir.Lit(u), ir.SetE(es...))}}
				run(sub, r, &Case{Schema: s, Op: "policy", Policy: p2}, cyc, labels...)
				// the action entity with all, and with no, ancestors
				var all []ir.Value
				for _, w := range uids {
					if !ir.Equal(w, u) {
						all = append(all, w)
					}
				}
				run(sub, r, &Case{Schema: s, Op: "entities", Store: ir.Store{{UID: u, Parents: all}}}, cyc, labels...)
				run(sub, r, &Case{Schema: s, Op: "entity", Store: ir.Store{{UID: u}}}, cyc, labels...)
				req := ir.Request{Principal: ir.Ent(et, "e"), Action: u, Resource: ir.Ent(et, "e"), Context: ir.Rec()}
				run(sub, r, &Case{Schema: s, Op: "request", Req: &req}, cyc, labels...)
			}
		}
	}
	if ev.First() {
		size := 512
		if ev.Thorough() {
			size = 512 * 5
		}
		ev.R.Space("action-group graphs on {a,b,c} (each parent set a subset, cycles included) x placements (quick: one of 5 per graph, thorough: all 5)", size)
	}
}

// ---------------------------------------------------------------------------------------------
// Random: general schemas x untyped policies / entities / requests renamed onto the schema's names

type renaming struct {
	ents    []string // declared entity and enum types
	actType string
	actIDs  []string
	keys    []string
}

func renamingOf(r *resolved.Schema) renaming {
	var rn renaming
	for t := range r.Entities {
		rn.ents = append(rn.ents, string(t))
	}
	for t := range r.Enums {
		rn.ents = append(rn.ents, string(t))
	}
	sort.Strings(rn.ents)
	keys := map[string]bool{}
	var addRec func(rec resolved.RecordType)
	addRec = func(rec resolved.RecordType) {
		for k, a := range rec {
			keys[string(k)] = true
			if sub, ok := a.Type.(resolved.RecordType); ok {
				addRec(sub)
			}
		}
	}
	for _, e := range r.Entities {
		addRec(e.Shape)
	}
	var acts []string
	for uid, a := range r.Actions {
		acts = append(acts, string(uid.Type)+"\x00"+string(uid.ID))
		if a.AppliesTo != nil {
			addRec(a.AppliesTo.Context)
		}
	}
	sort.Strings(acts)
	if len(acts) > 0 {
		rn.actType = acts[0][:strings.IndexByte(acts[0], 0)]
		for _, a := range acts {
			if strings.HasPrefix(a, rn.actType+"\x00") {
				rn.actIDs = append(rn.actIDs, a[len(rn.actType)+1:])
			}
		}
	}
	for k := range keys {
		rn.keys = append(rn.keys, k)
	}
	sort.Strings(rn.keys)
	return rn
}

func (rn renaming) etype(t string) string {
	if t == gen.ActionType {
		if rn.actType != "" {
			return rn.actType
		}
		return t
	}
	for i, u := range gen.EntityTypes {
		if u == t && len(rn.ents) > 0 {
			return rn.ents[i%len(rn.ents)]
		}
	}
	return t
}

func (rn renaming) value(v ir.Value) ir.Value {
	switch v.K {
	case ir.KEntity:
		out := ir.Ent(rn.etype(v.T), v.S)
		if v.T == gen.ActionType && len(rn.actIDs) > 0 {
			for i, id := range gen.ActionIDs {
				if id == v.S {
					out.S = rn.actIDs[i%len(rn.actIDs)]
				}
			}
		}
		return out
	case ir.KSet:
		out := ir.Value{K: ir.KSet}
		for _, e := range v.Elems {
			out.Elems = append(out.Elems, rn.value(e))
		}
		return out
	case ir.KRecord:
		return ir.Value{K: ir.KRecord, Fields: rn.fields(v.Fields)}
	}
	return v
}

func (rn renaming) key(k string) string {
	for i, u := range gen.KeysSmall {
		if u == k && len(rn.keys) > 0 && i < 4 {
			return rn.keys[i%len(rn.keys)]
		}
	}
	return k
}

func (rn renaming) fields(fs []ir.Field) []ir.Field {
	var out []ir.Field
	seen := map[string]bool{}
	for _, f := range fs {
		k := rn.key(f.K)
		if seen[k] {
			continue
		}
		seen[k] = true
		out = append(out, ir.F(k, rn.value(f.V)))
	}
	return out
}

func (rn renaming) expr(e *ir.Expr) *ir.Expr {
	out := &ir.Expr{Op: e.Op, Name: e.Name, Pat: e.Pat}
	if e.Lit != nil {
		v := rn.value(*e.Lit)
		out.Lit = &v
	}
	switch e.Op {
	case ir.OpIs, ir.OpIsIn:
		out.Name = rn.etype(e.Name)
	case ir.OpHas, ir.OpAccess:
		out.Name = rn.key(e.Name)
	}
	seen := map[string]bool{}
	for i, a := range e.Args {
		if e.Op == ir.OpRecord {
			k := rn.key(e.Keys[i])
			if seen[k] {
				continue
			}
			seen[k] = true
			out.Keys = append(out.Keys, k)
		}
		out.Args = append(out.Args, rn.expr(a))
	}
	return out
}

func (rn renaming) scope(s ir.Scope) ir.Scope {
	out := ir.Scope{Kind: s.Kind, Type: s.Type}
	if s.Type != "" {
		out.Type = rn.etype(s.Type)
	}
	if s.Entity != nil {
		v := rn.value(*s.Entity)
		out.Entity = &v
	}
	for _, e := range s.Entities {
		out.Entities = append(out.Entities, rn.value(e))
	}
	return out
}

func (rn renaming) policy(p *ir.Policy) *ir.Policy {
	out := &ir.Policy{Permit: p.Permit, Principal: rn.scope(p.Principal), Action: rn.scope(p.Action), Resource: rn.scope(p.Resource)}
	for _, c := range p.Conds {
		out.Conds = append(out.Conds, ir.Cond{When: c.When, Body: rn.expr(c.Body)})
	}
	return out
}

func (rn renaming) store(s ir.Store) ir.Store {
	var out ir.Store
	for _, e := range s {
		n := ir.Entity{UID: rn.value(e.UID), Attrs: rn.fields(e.Attrs), Tags: rn.fields(e.Tags)}
		for _, p := range e.Parents {
			n.Parents = append(n.Parents, rn.value(p))
		}
		out = append(out, n)
	}
	return out
}

func schemaLabels(s *sch.Schema, r *resolved.Schema) (nt bool, labels []string) {
	if r != nil {
		if anyLoopingPair(r) {
			labels = append(labels, "entity-cycle")
			nt = true
		}
	}
	for _, ns := range s.NS {
		for _, e := range ns.Entities {
			for _, p := range e.Parents {
				if p == e.Name || p == sch.Qualify(ns.Name, e.Name) {
					nt = true
					labels = append(labels, "entity-self-parent")
				}
			}
		}
	}
	return nt, labels
}

func TestRandom(t *testing.T) {
	const sub = "random"
	ev.SetChecks(ev.Scale(1500, 150000))
	ev.Check(t, func(rt *rapid.T) {
		s := sch.GenSchema(rt, sch.GenOpts{OddPct: 3})
		r, ok := runResolve(sub, &Case{Schema: s, Op: "resolve"}, false)
		if !ok {
			rt.Fatalf("C16/random: Resolve panicked")
		}
		if r == nil {
			return
		}
		nt, labels := schemaLabels(s, r)
		rn := renamingOf(r)
		o := gen.DefaultExprOpts
		o.SlipPct = 25
		o.BadFuncPct = 8
		o.Val.MappedIP = true
		w := gen.GenWorld(rt, 4, o.Val)
		np := rapid.IntRange(1, 4).Draw(rt, "npolicies")
		for i := 0; i < np; i++ {
			p := rn.policy(gen.GenPolicy(rt, &w, gen.PolicyOpts{Expr: o, MaxConds: 2, Depth: 4}))
			c := &Case{Schema: s, Op: "policy", Policy: p, ViaJSON: gen.Chance(rt, 30, "viajson")}
			pl := labels
			pnt := nt
			if nonPrimitiveLiteral(p) {
				pl = append(append([]string{}, labels...), "nonprimitive-literal")
				pnt = true
			}
			if c.ViaJSON {
				pl = append(append([]string{}, pl...), "policy-via-json")
			}
			if !run(sub, r, c, pnt, pl...) {
				rt.Fatalf("C16/random: the validator panicked on a policy")
			}
		}
		st := rn.store(w.Store)
		for _, op := range []string{"entity", "entities"} {
			if !run(sub, r, &Case{Schema: s, Op: op, Store: st}, nt, labels...) {
				rt.Fatalf("C16/random: the validator panicked on entities")
			}
		}
		req := ir.Request{Principal: rn.value(w.Req.Principal), Action: rn.value(w.Req.Action), Resource: rn.value(w.Req.Resource), Context: ir.Value{K: ir.KRecord, Fields: rn.fields(w.Req.Context.Fields)}}
		if !run(sub, r, &Case{Schema: s, Op: "request", Req: &req}, nt, labels...) {
			rt.Fatalf("C16/random: the validator panicked on a request")
		}
	})
}

// TestTypedPolicies: policies from the type-directed generator (well typed for one request environment of a generated
// schema, with slips) - they pass the validator's early checks and reach the capability bookkeeping, unions, `has`
// under `||` / `if`, tags, extension calls. World data generated to conform goes through Entity / Entities / Request.
func TestTypedPolicies(t *testing.T) {
	const sub = "typed"
	ev.SetChecks(ev.Scale(700, 70000))
	extAsCall := ev.KnownOpen("C16", "nodevalue-literal-panic")
	ev.Check(t, func(rt *rapid.T) {
		rs := sch.GenRSchema(rt)
		s := sch.Deresolve(rt, rs)
		r, ok := runResolve(sub, &Case{Schema: s, Op: "resolve"}, false)
		if !ok {
			rt.Fatalf("C16/typed: Resolve panicked")
		}
		if r == nil {
			return
		}
		envs := rs.Envs()
		if len(envs) == 0 {
			return
		}
		cache := pgen.Cache{}
		for i := 0; i < 5; i++ {
			ei := rapid.IntRange(0, len(envs)-1).Draw(rt, "env")
			p, slips := pgen.GenPolicy(rt, rs, envs[ei], extAsCall, cache, ei)
			labels := []string{"typed-policy"}
			for _, sl := range slips {
				labels = append(labels, "slip:"+sl)
			}
			c := &Case{Schema: s, Op: "policy", Policy: p, ViaJSON: gen.Chance(rt, 20, "viajson")}
			if !run(sub, r, c, p.Conds != nil, labels...) {
				rt.Fatalf("C16/typed: the validator panicked on a policy")
			}
		}
		w := sch.GenWorld(rt, rs, envs[rapid.IntRange(0, len(envs)-1).Draw(rt, "wenv")])
		for _, op := range []string{"entity", "entities"} {
			if !run(sub, r, &Case{Schema: s, Op: op, Store: w.Store}, true, "conforming-world") {
				rt.Fatalf("C16/typed: the validator panicked on entities")
			}
		}
		req := w.Req
		if !run(sub, r, &Case{Schema: s, Op: "request", Req: &req}, true, "conforming-world") {
			rt.Fatalf("C16/typed: the validator panicked on a request")
		}
	})
}

// ---------------------------------------------------------------------------------------------
// Known findings: the canonical reproducer runs in a child process, because the failure may be fatal.

var canonical = map[string]*Case{
	"entity-hierarchy-recursion": {
		Schema: &sch.Schema{NS: []sch.NS{{Entities: []sch.Entity{{Name: "G", Parents: []string{"G"}}, {Name: "R"}},
			Actions: []sch.Action{{Name: "act", Applies: &sch.Applies{Principals: []string{"G"}, Resources: []string{"R"}}}}}}},
		Op: "policy", Policy: when(ir.Bin(ir.OpIn, ir.Var("principal"), ir.Lit(ir.Ent("R", "x")))),
	},
	"nodevalue-literal-panic": {
		Schema: &sch.Schema{NS: []sch.NS{{Entities: []sch.Entity{{Name: "U"}},
			Actions: []sch.Action{{Name: "act", Applies: &sch.Applies{Principals: []string{"U"}, Resources: []string{"U"}}}}}}},
		Op: "policy", Policy: when(ir.Bin(ir.OpContains, ir.Lit(ir.Set(ir.Long(1))), ir.Lit(ir.Long(1)))),
	},
}

// TestProbe is the child side: it runs the case named by VERIF_C16_PROBE without any protection.
func TestProbe(t *testing.T) {
	key := os.Getenv("VERIF_C16_PROBE")
	if key == "" {
		t.Skip("not a probe run")
	}
	c := canonical[key]
	// a small stack limit makes unbounded recursion fail in milliseconds instead of after growing to 1 GB
	debug.SetMaxStack(16 << 20)
	r, err := schema.NewSchemaFromAST(sch.ToAST(c.Schema)).Resolve()
	if err != nil {
		t.Fatalf("probe schema does not resolve: %v", err)
	}
	for _, mode := range []validate.Option{validate.WithStrict(), validate.WithPermissive()} {
		_ = validate.New(r, mode).Policy("p", conv.ToXPolicy(c.Policy))
	}
}

func TestKnown(t *testing.T) {
	if !ev.First() || os.Getenv("VERIF_C16_PROBE") != "" {
		return
	}
	keys := []string{"entity-hierarchy-recursion", "nodevalue-literal-panic"}
	for _, key := range keys {
		if !ev.KnownOpen("C16", key) {
			// fixed (or not listed): the reproducer is an ordinary regression case under the crash protocol
			c := canonical[key]
			r, ok := runResolve("known/"+key, c, true)
			if ok && r != nil && !run("known/"+key, r, c, true) {
				t.Errorf("C16/known/%s: the validator panicked on the reproducer of a finding listed as fixed", key)
			}
			continue
		}
		cmd := exec.Command(os.Args[0], "-test.run", "^TestProbe$", "-test.timeout", "120s")
		cmd.Env = append(os.Environ(), "VERIF_C16_PROBE="+key, "VERIF_WORK=", "GOTRACEBACK=single")
		out, err := cmd.CombinedOutput()
		if err != nil {
			head := string(out)
			if i := strings.Index(head, "fatal error:"); i >= 0 {
				head = head[i:]
			} else if i := strings.Index(head, "panic:"); i >= 0 {
				head = head[i:]
			}
			if len(head) > 160 {
				head = head[:160]
			}
			head = strings.Join(strings.Fields(head), " ")
			switch key {
			case "entity-hierarchy-recursion":
				ev.R.KnownFinding(key, "entity G in [G]; `principal in R::\"x\"` with principal: G kills the process: "+head)
			default:
				ev.R.KnownFinding(key, "`[1].contains(1)` with the set as a NodeValue literal: validate.Policy "+head)
			}
		}
	}
}

func TestReplay(t *testing.T) {
	rf, ok, err := ev.LoadReplay()
	if !ok {
		t.Skip("no replay requested")
	}
	if err != nil {
		t.Fatal(err)
	}
	if ev.ReplayFuzz(t, rf, fuzzProps, nil) {
		return
	}
	var c Case
	if err := json.Unmarshal(rf.Case, &c); err != nil || c.Schema == nil {
		t.Fatalf("cannot decode replay case: %v", err)
	}
	sub := strings.TrimSuffix(strings.TrimSuffix(strings.TrimSuffix(rf.Sub, "/crash"), "/panic"), "/hang")
	ev.Watch(sub, func() any { return &c })
	defer ev.Unwatch()
	r, msg := resolve(sub, &c)
	if msg != "" {
		ev.R.Violation(sub+"/panic", &c, msg)
		t.Fatalf("C16 replay %s: %s", sub, msg)
	}
	if r == nil || c.Op == "resolve" {
		return
	}
	if msg := execOn(sub, r, &c); msg != "" {
		ev.R.Violation(sub+"/panic", &c, msg)
		t.Fatalf("C16 replay %s: %s", sub, msg)
	}
}
