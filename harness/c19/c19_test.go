// C19: shared policies, entities, requests and values may be read concurrently (no data race, every call returns what it
// returns when run alone) and no read-only operation modifies its inputs.
//
// Per case one fixture is built twice from the same IR: A is shared by G goroutines, B is never touched. Oracles:
//
//	(i)   the concurrent phase runs in a child process (this test binary re-executed) with
//	      GORACE="halt_on_error=1 exitcode=66 log_path=…"; exit code 66 = the race detector reported a data race;
//	      the parent records the fixture as the replay and attaches the race report;
//	(ii)  every operation's result equals the result of the same call made alone before the concurrent phase;
//	(iii) after the phase: marshal/IR snapshot of every input unchanged and reflect.DeepEqual(A, B) on policies' ASTs,
//	      entities, requests, batch request and values;
//	(iv)  sequential variant: every operation kind x every input, DeepEqual(A, B) after each single operation.
//
// Carve-outs (weaker than the property):
//   - the Go scheduler is not controlled; a race is found only if the two accesses occur in an explored run
//     (the race detector flags unsynchronised conflicting accesses even when they do not misbehave).
//   - some results are map-order dependent even sequentially (error wording of batch.Authorize, order of the validator's
//     messages; C14's subject). "What the call returns when run alone" is therefore a set: a concurrent result that was not
//     seen in the two sequential warm-up runs is re-tried alone up to 600 times after the phase (on the shared instance,
//     whose maps have the same layout as during the phase) and only a result that never shows up alone is a violation
//     (label "nondeterministic-alone" otherwise). validate.Entities is compared as valid/invalid only and validate.Policy
//     as a sorted list of messages: their wording / order depends on map iteration by design.
//   - panics inside an operation (C16's subject, e.g. validate.Policy on literal set values) are part of the compared
//     result, not a C19 violation.
//   - the schema/validator objects are used concurrently (race oracle, result oracle) but are not part of the
//     immutability snapshot: the statement lists policies, entities, requests and values.
//
// Sensitivity (scratch copy of /repo, one quick shard = 10 concurrent + 15 sequential cases, 2026-09-23):
//   - M1 policy.go: Policy.Annotations() memoises into an unsynchronised field (lazily filled cache) -> CAUGHT: "race"
//     (Read/Previous write in (*Policy).Annotations). Two earlier versions of this harness MISSED it, which shaped the
//     design: (a) the "alone" results were computed on the shared fixture, which filled the cache before the goroutines
//     started - they are now computed on a third instance; (b) the goroutines shared atomic in-flight counters, and every
//     atomic operation is a happens-before edge for the race detector - bookkeeping is now goroutine-local.
//   - M2 policy_set.go: PolicySet.Map() returns the internal map -> CAUGHT: "race" (mapdelete vs. MarshalCedar/Authorize)
//     and "sequential-input-mutated" (policy set entry missing after PolicySet.Get/All/Map).
//   - M3 types/record.go: Record.Map() returns the internal map, so batch's cloneSub writes the substituted value into the
//     input record -> CAUGHT: "race" (mapassign in batch.cloneSub vs. mapiterinit in batch.findVariables) and
//     "sequential-input-mutated" (requests, values differ from the twin); the recorded replay reproduces.
//   - M4 internal/eval/fold.go: foldPolicy folds in place -> MISSED, equivalent for this property: foldPolicy runs when a
//     policy is constructed (not a read-only operation; both twins are folded alike) and on the private copies that
//     batch.Authorize obtains from PartialPolicy; no read-only operation passes a shared AST to it.
package c19

import (
	"bytes"
	"context"
	"encoding/json"
	"fmt"
	"os"
	"os/exec"
	"path/filepath"
	"reflect"
	"runtime"
	"sort"
	"strings"
	"sync"
	"sync/atomic"
	"testing"
	"time"

	cedar "github.com/cedar-policy/cedar-go"
	pubast "github.com/cedar-policy/cedar-go/ast"
	"github.com/cedar-policy/cedar-go/types"
	xast "github.com/cedar-policy/cedar-go/x/exp/ast"
	"github.com/cedar-policy/cedar-go/x/exp/batch"
	xeval "github.com/cedar-policy/cedar-go/x/exp/eval"
	"github.com/cedar-policy/cedar-go/x/exp/schema"
	"github.com/cedar-policy/cedar-go/x/exp/schema/validate"
	"pgregory.net/rapid"

	"verif/conv"
	"verif/ev"
	"verif/gen"
	"verif/ir"
	"verif/render"
)

func TestMain(m *testing.M) { ev.Main(m, "C19") }

// ---------------------------------------------------------------------------------------------
// case

type Op struct {
	Kind  string `json:"k"`
	A     int    `json:"a,omitempty"`
	B     int    `json:"b,omitempty"`
	Yield bool   `json:"y,omitempty"`
}

func (o Op) key() string { return fmt.Sprintf("%s/%d/%d", o.Kind, o.A, o.B) }

type BatchIR struct {
	PrincipalVar  bool       `json:"pvar,omitempty"`
	ActionVar     bool       `json:"avar,omitempty"`
	ResourceVar   bool       `json:"rvar,omitempty"`
	IgnoreContext bool       `json:"ignore_context,omitempty"`
	CtxVarKey     string     `json:"ctx_var_key,omitempty"` // context field bound to variable "c" ("" = none)
	Principals    []ir.Value `json:"principals,omitempty"`
	Actions       []ir.Value `json:"actions,omitempty"`
	Resources     []ir.Value `json:"resources,omitempty"`
	CtxValues     []ir.Value `json:"ctx_values,omitempty"`
	Base          int        `json:"base"` // index into Requests
}

type Case struct {
	World    gen.World    `json:"world"`
	Policies []*ir.Policy `json:"policies"`
	IDs      []string     `json:"ids"`
	FromText []bool       `json:"from_text"` // policy i is parsed from its rendered text (has a position) instead of built from AST
	Requests []ir.Request `json:"requests"`
	Batch    BatchIR      `json:"batch"`
	Procs    int          `json:"gomaxprocs"`
	Seqs     [][]Op       `json:"seqs"` // one operation sequence per goroutine
}

// ---------------------------------------------------------------------------------------------
// fixture

const schemaText = `
entity T0 in [T1] { a?: Long, b?: String, k?: Bool, x?: T1 } tags Long;
entity T1 in [NS::T2] { a?: Long };
namespace NS { entity T2 { a?: Set<Long> }; }
action view, edit in [grp] appliesTo { principal: [T0, T1], resource: [T0, T1, NS::T2], context: { a?: Long, b?: String } };
action grp;
`

type fixture struct {
	ps        *cedar.PolicySet
	pols      []*cedar.Policy
	ids       []cedar.PolicyID
	em        types.EntityMap
	uids      []types.EntityUID
	reqs      []types.Request
	breq      batch.Request
	vals      []types.Value
	sch       *schema.Schema
	validator *validate.Validator
	zero      *cedar.PolicySet // &cedar.PolicySet{} (never written to)
	failed    *cedar.PolicySet // what NewPolicySetFromBytes returned together with an error
}

func sortUIDs(us []types.EntityUID) {
	sort.Slice(us, func(i, j int) bool {
		if us[i].Type != us[j].Type {
			return us[i].Type < us[j].Type
		}
		return us[i].ID < us[j].ID
	})
}

func toVals(vs []ir.Value) []types.Value {
	out := make([]types.Value, len(vs))
	for i, v := range vs {
		out[i] = conv.ToValue(v)
	}
	return out
}

func build(c *Case) (*fixture, error) {
	f := &fixture{ps: cedar.NewPolicySet(), zero: &cedar.PolicySet{}}
	// what a failed load hands back next to its error is shared and read like any other set
	f.failed, _ = cedar.NewPolicySetFromBytes("broken.cedar", []byte("permit(principal, action, resource) when {"))
	if f.failed == nil {
		f.failed = &cedar.PolicySet{}
	}
	for i, p := range c.Policies {
		var pol *cedar.Policy
		if i < len(c.FromText) && c.FromText[i] {
			var parsed cedar.Policy
			if err := parsed.UnmarshalCedar([]byte(render.Policy(p, render.Opts{}))); err == nil {
				parsed.SetFilename("fixture.cedar")
				pol = &parsed
			}
		}
		if pol == nil {
			pol = conv.ToPolicy(p)
		}
		id := cedar.PolicyID(c.IDs[i])
		f.ps.Add(id, pol)
		f.pols = append(f.pols, pol)
		f.ids = append(f.ids, id)
	}
	f.em = conv.ToEntityMap(c.World.Store)
	for u := range f.em {
		f.uids = append(f.uids, u)
	}
	sortUIDs(f.uids)
	for _, r := range c.Requests {
		f.reqs = append(f.reqs, conv.ToRequest(r))
	}
	if len(f.reqs) == 0 {
		return nil, fmt.Errorf("fixture without requests")
	}
	// batch template
	b := c.Batch
	base := f.reqs[b.Base%len(f.reqs)]
	f.breq = batch.Request{Principal: base.Principal, Action: base.Action, Resource: base.Resource, Context: base.Context, Variables: batch.Variables{}}
	if b.PrincipalVar && len(b.Principals) > 0 {
		f.breq.Principal = batch.Variable("p")
		f.breq.Variables["p"] = toVals(b.Principals)
	}
	if b.ActionVar && len(b.Actions) > 0 {
		f.breq.Action = batch.Variable("a")
		f.breq.Variables["a"] = toVals(b.Actions)
	}
	if b.ResourceVar && len(b.Resources) > 0 {
		f.breq.Resource = batch.Variable("r")
		f.breq.Variables["r"] = toVals(b.Resources)
	}
	if b.IgnoreContext {
		f.breq.Context = batch.Ignore()
	} else if b.CtxVarKey != "" && len(b.CtxValues) > 0 {
		m := base.Context.Map()
		m[types.String(b.CtxVarKey)] = batch.Variable("c")
		f.breq.Context = types.NewRecord(m)
		f.breq.Variables["c"] = toVals(b.CtxValues)
	}
	// shared values: attribute / tag records and their members, request contexts
	for _, u := range f.uids {
		e := f.em[u]
		f.vals = append(f.vals, e.Attributes, e.Tags)
		var ks []string
		for k := range e.Attributes.Keys() {
			ks = append(ks, string(k))
		}
		sort.Strings(ks)
		for _, k := range ks {
			v, _ := e.Attributes.Get(types.String(k))
			f.vals = append(f.vals, v)
		}
	}
	for _, r := range f.reqs {
		f.vals = append(f.vals, r.Context)
	}
	if len(f.vals) > 40 {
		f.vals = f.vals[:40]
	}
	// schema + validator
	var s schema.Schema
	if err := s.UnmarshalCedar([]byte(schemaText)); err != nil {
		return nil, fmt.Errorf("fixture schema does not parse: %w", err)
	}
	rs, err := s.Resolve()
	if err != nil {
		return nil, fmt.Errorf("fixture schema does not resolve: %w", err)
	}
	f.sch = &s
	f.validator = validate.New(rs, validate.WithPermissive())
	return f, nil
}

// ---------------------------------------------------------------------------------------------
// operations (all read-only)

// object classes for the overlap measurement
const (
	clsPolicies = iota
	clsEntities
	clsValues
	clsSchema
	nClasses
)

type opDef struct {
	kind    string
	classes []int
	dom     domain // which inputs the A (and B) index addresses
	run     func(f *fixture, a, b int) string
}

func canonDiag(d types.Decision, diag types.Diagnostic) string {
	var rs, es []string
	for _, r := range diag.Reasons {
		rs = append(rs, fmt.Sprintf("%s@%s:%d:%d:%d", r.PolicyID, r.Position.Filename, r.Position.Offset, r.Position.Line, r.Position.Column))
	}
	for _, e := range diag.Errors {
		es = append(es, fmt.Sprintf("%s@%d:%s", e.PolicyID, e.Position.Offset, e.Message))
	}
	sort.Strings(rs)
	sort.Strings(es)
	return fmt.Sprintf("%v reasons=%q errors=%q", d, rs, es)
}

func errStr(err error) string {
	if err == nil {
		return "ok"
	}
	return "error: " + err.Error()
}

func sortedLines(s string) string {
	ls := strings.Split(s, "\n")
	sort.Strings(ls)
	return strings.Join(ls, "\n")
}

func bytesErr(b []byte, err error) string {
	if err != nil {
		return "error: " + err.Error()
	}
	return string(b)
}

// input domains addressed by an operation's A (and B) index
type domain int

const (
	none domain = iota
	nPol
	nReq
	nEnt
	nVal
	nPolReq
)

// sizes returns the sizes of the A and B domains (0, 0 for operations on the whole fixture).
func (d domain) sizes(f *fixture) (int, int) {
	switch d {
	case nPol:
		return len(f.pols), 0
	case nReq:
		return len(f.reqs), 0
	case nEnt:
		return len(f.uids), 0
	case nVal:
		return len(f.vals), 0
	case nPolReq:
		return len(f.pols), len(f.reqs)
	}
	return 0, 0
}

func valueWalk(v types.Value, sb *strings.Builder, depth int) {
	switch t := v.(type) {
	case types.Record:
		var ks []string
		for k := range t.Keys() {
			ks = append(ks, string(k))
		}
		sort.Strings(ks)
		fmt.Fprintf(sb, "rec%d{", t.Len())
		for _, k := range ks {
			x, ok := t.Get(types.String(k))
			fmt.Fprintf(sb, "%q:%v:", k, ok)
			if depth > 0 {
				valueWalk(x, sb, depth-1)
			}
		}
		n := 0
		for range t.All() {
			n++
		}
		for range t.Values() {
			n++
		}
		m := t.Map()
		m["__c19"] = types.Long(1) // the clone is documented as safe to mutate
		fmt.Fprintf(sb, "}%d/%d", n, len(m))
	case types.Set:
		var parts []string
		for x := range t.All() {
			var b strings.Builder
			if depth > 0 {
				valueWalk(x, &b, depth-1)
			}
			parts = append(parts, b.String()+fmt.Sprint(t.Contains(x)))
		}
		sort.Strings(parts)
		sl := t.Slice()
		for i := range sl {
			sl[i] = types.Long(0) // documented as safe to mutate
		}
		fmt.Fprintf(sb, "set%d%v", t.Len(), parts)
	default:
		sb.WriteString(string(v.MarshalCedar()))
	}
}

var ops = []opDef{
	{kind: "Authorize", classes: []int{clsPolicies, clsEntities, clsValues}, dom: nReq, run: func(f *fixture, a, b int) string {
		return canonDiag(cedar.Authorize(f.ps, f.em, f.reqs[a]))
	}},
	{kind: "IsAuthorized", classes: []int{clsPolicies, clsEntities, clsValues}, dom: nReq, run: func(f *fixture, a, b int) string {
		return canonDiag(f.ps.IsAuthorized(f.em, f.reqs[a]))
	}},
	{kind: "batch.Authorize", classes: []int{clsPolicies, clsEntities, clsValues}, dom: none, run: func(f *fixture, a, b int) string {
		var lines []string
		err := batch.Authorize(context.Background(), f.ps, f.em, f.breq, func(r batch.Result) error {
			var vs []string
			for k, v := range r.Values {
				vs = append(vs, string(k)+"="+v.String())
			}
			sort.Strings(vs)
			lines = append(lines, fmt.Sprintf("%s %s %s %s %v => %s", r.Request.Principal, r.Request.Action, r.Request.Resource, r.Request.Context, vs, canonDiag(r.Decision, r.Diagnostic)))
			return nil
		})
		sort.Strings(lines)
		return errStr(err) + "\n" + strings.Join(lines, "\n")
	}},
	{kind: "empty-sets.read", classes: []int{clsPolicies}, dom: nReq, run: func(f *fixture, a, b int) string {
		// every read-only entry point on the zero-value set and on the set a failed load returned
		var sb strings.Builder
		for _, ps := range []*cedar.PolicySet{f.zero, f.failed} {
			sb.WriteString(canonDiag(cedar.Authorize(ps, f.em, f.reqs[a])))
			sb.WriteString(canonDiag(ps.IsAuthorized(f.em, f.reqs[a])))
			n := 0
			for range ps.All() {
				n++
			}
			j, jerr := ps.MarshalJSON()
			fmt.Fprintf(&sb, "|%d %d %v %q %s %v", n, len(ps.Map()), ps.Get("x") == nil, ps.MarshalCedar(), j, jerr)
			err := batch.Authorize(context.Background(), ps, f.em, batch.Request{Principal: f.reqs[a].Principal, Action: f.reqs[a].Action, Resource: f.reqs[a].Resource, Context: f.reqs[a].Context}, func(r batch.Result) error {
				sb.WriteString(canonDiag(r.Decision, r.Diagnostic))
				return nil
			})
			sb.WriteString(errStr(err))
		}
		return sb.String()
	}},
	{kind: "PolicySet.MarshalCedar", classes: []int{clsPolicies}, dom: none, run: func(f *fixture, a, b int) string { return string(f.ps.MarshalCedar()) }},
	{kind: "PolicySet.MarshalJSON", classes: []int{clsPolicies}, dom: none, run: func(f *fixture, a, b int) string { return bytesErr(f.ps.MarshalJSON()) }},
	{kind: "PolicySet.Get/All/Map", classes: []int{clsPolicies}, dom: nPol, run: func(f *fixture, a, b int) string {
		var ids []string
		for id, p := range f.ps.All() {
			ids = append(ids, fmt.Sprintf("%s:%v", id, p == f.ps.Get(id)))
		}
		sort.Strings(ids)
		m := f.ps.Map()
		same := m[f.ids[a]] == f.ps.Get(f.ids[a])
		delete(m, f.ids[a]) // Map() "returns a new PolicyMap": the copy may be changed freely
		m["__c19"] = nil
		return fmt.Sprintf("%v %v %d %v", ids, same, len(m), f.ps.Get("__c19") == nil)
	}},
	{kind: "Policy.MarshalCedar", classes: []int{clsPolicies}, dom: nPol, run: func(f *fixture, a, b int) string { return string(f.pols[a].MarshalCedar()) }},
	{kind: "Policy.MarshalJSON", classes: []int{clsPolicies}, dom: nPol, run: func(f *fixture, a, b int) string { return bytesErr(f.pols[a].MarshalJSON()) }},
	{kind: "Encoder.Encode", classes: []int{clsPolicies}, dom: nPol, run: func(f *fixture, a, b int) string {
		var buf bytes.Buffer
		err := cedar.NewEncoder(&buf).Encode(f.pols[a])
		return errStr(err) + buf.String()
	}},
	{kind: "Policy.AST-walk", classes: []int{clsPolicies}, dom: nPol, run: func(f *fixture, a, b int) string {
		p, err := conv.FromPolicy(f.pols[a])
		if err != nil {
			return "error: " + err.Error()
		}
		return ir.JSON(p)
	}},
	{kind: "Policy.accessors", classes: []int{clsPolicies}, dom: nPol, run: func(f *fixture, a, b int) string {
		p := f.pols[a]
		an := p.Annotations()
		var ks []string
		for k, v := range an {
			ks = append(ks, string(k)+"="+string(v))
		}
		sort.Strings(ks)
		an["__c19"] = "x" // a fresh map per call
		return fmt.Sprintf("%v %v %v", ks, p.Effect(), p.Position())
	}},
	{kind: "ast.Policy.Marshal", classes: []int{clsPolicies}, dom: nPol, run: func(f *fixture, a, b int) string {
		x := f.pols[a].AST()
		return string(x.MarshalCedar()) + "\n" + bytesErr(x.MarshalJSON())
	}},
	{kind: "validate.Policy", classes: []int{clsPolicies, clsSchema}, dom: nPol, run: func(f *fixture, a, b int) string {
		// several findings are joined in map-iteration order: compare them as a sorted list
		return sortedLines(errStr(f.validator.Policy(string(f.ids[a]), (*xast.Policy)(f.pols[a].AST()))))
	}},
	{kind: "validate.Entities/Request", classes: []int{clsEntities, clsValues, clsSchema}, dom: nReq, run: func(f *fixture, a, b int) string {
		// Entities() walks the entity map and reports the first entity that fails: which one that is, and hence the
		// wording, depends on map iteration order by design; only valid / invalid is compared
		return fmt.Sprintf("entities valid: %v / %s", f.validator.Entities(f.em) == nil, errStr(f.validator.Request(f.reqs[a])))
	}},
	{kind: "PartialPolicy", classes: []int{clsPolicies, clsEntities, clsValues}, dom: nPolReq, run: func(f *fixture, a, b int) string {
		r := f.reqs[b]
		env := xeval.Env{Entities: f.em, Principal: xeval.Variable("principal"), Action: r.Action, Resource: r.Resource, Context: r.Context}
		if (a+b)%3 == 1 {
			env.Principal, env.Resource = r.Principal, xeval.Variable("resource")
		} else if (a+b)%3 == 2 {
			env.Context = batch.Ignore()
		}
		pp, keep := xeval.PartialPolicy(env, (*xast.Policy)(f.pols[a].AST()))
		if !keep || pp == nil {
			return fmt.Sprintf("dropped %v", keep)
		}
		return "kept " + string((*pubast.Policy)(pp).MarshalCedar())
	}},
	{kind: "eval.Eval", classes: []int{clsPolicies, clsEntities, clsValues}, dom: nPolReq, run: func(f *fixture, a, b int) string {
		x := (*xast.Policy)(f.pols[a].AST())
		r := f.reqs[b]
		env := xeval.Env{Entities: f.em, Principal: r.Principal, Action: r.Action, Resource: r.Resource, Context: r.Context}
		var sb strings.Builder
		for _, c := range x.Conditions {
			v, err := xeval.Eval(c.Body, env)
			if err != nil {
				sb.WriteString("error: " + err.Error() + ";")
			} else {
				sb.WriteString(v.String() + ";")
			}
		}
		return sb.String()
	}},
	{kind: "json.Marshal(EntityMap)", classes: []int{clsEntities, clsValues}, dom: none, run: func(f *fixture, a, b int) string { return bytesErr(json.Marshal(f.em)) }},
	{kind: "Entity.inspect", classes: []int{clsEntities, clsValues}, dom: nEnt, run: func(f *fixture, a, b int) string {
		e, ok := f.em.Get(f.uids[a])
		var ps []types.EntityUID
		for p := range e.Parents.All() {
			ps = append(ps, p)
		}
		sortUIDs(ps)
		cl := f.em.Clone()
		delete(cl, f.uids[a]) // Clone() is a copy
		return fmt.Sprintf("%v %v %v %d %v %s %d", ok, ps, e.Equal(e), e.Parents.Len(), e.Parents.Contains(f.uids[0]), bytesErr(json.Marshal(e)), len(cl))
	}},
	{kind: "Value.inspect", classes: []int{clsValues}, dom: nVal, run: func(f *fixture, a, b int) string {
		v := f.vals[a]
		var sb strings.Builder
		valueWalk(v, &sb, 2)
		return fmt.Sprintf("%s | %s | %s | %v | %s", v.MarshalCedar(), v.String(), bytesErr(json.Marshal(v)), v.Equal(v), sb.String())
	}},
	{kind: "Request.inspect", classes: []int{clsValues}, dom: nReq, run: func(f *fixture, a, b int) string {
		r := f.reqs[a]
		return fmt.Sprintf("%v %s", r.Equal(r), bytesErr(json.Marshal(r)))
	}},
	{kind: "Schema.read", classes: []int{clsSchema}, dom: none, run: func(f *fixture, a, b int) string {
		_, rerr := f.sch.Resolve()
		return bytesErr(f.sch.MarshalCedar()) + bytesErr(f.sch.MarshalJSON()) + errStr(rerr)
	}},
}

var opByKind = func() map[string]*opDef {
	m := map[string]*opDef{}
	for i := range ops {
		m[ops[i].kind] = &ops[i]
	}
	return m
}()

// runOp executes one operation; a panic becomes part of the result (panics are another property's subject).
func runOp(f *fixture, o Op) (res string) {
	d := opByKind[o.Kind]
	if d == nil {
		return "harness: unknown op " + o.Kind
	}
	defer func() {
		if p := recover(); p != nil {
			res = fmt.Sprintf("panic: %v", p)
		}
	}()
	na, nb := d.dom.sizes(f)
	a, b := 0, 0
	if d.dom != none {
		// the operation addresses one input (and possibly a second one): nothing to do on an empty domain
		if na == 0 || (d.dom == nPolReq && nb == 0) {
			return "n/a"
		}
		a = o.A % na
		if nb > 0 {
			b = o.B % nb
		}
	}
	return d.run(f, a, b)
}

// ---------------------------------------------------------------------------------------------
// snapshots

// snapshot renders every input through IR and the encoders (called only while nothing else runs).
func snapshot(f *fixture) (s string) {
	defer func() {
		if p := recover(); p != nil {
			s = fmt.Sprintf("snapshot panic: %v", p)
		}
	}()
	var sb strings.Builder
	for i, p := range f.pols {
		x, err := conv.FromPolicy(p)
		jb, jerr := p.MarshalJSON()
		fmt.Fprintf(&sb, "policy %s: %s %v\n%s\n%s %v\n%v %v\n", f.ids[i], ir.JSON(x), err, p.MarshalCedar(), jb, jerr, p.Position(), p == f.ps.Get(f.ids[i]))
		// the part of a scope list's backing array beyond its length belongs to the policy too: an append through a copy of the
		// slice header writes there without changing anything the encoders show
		if sc, ok := (*xast.Policy)(p.AST()).Action.(xast.ScopeTypeInSet); ok {
			fmt.Fprintf(&sb, "action list backing array: %v\n", sc.Entities[:cap(sc.Entities)])
		}
	}
	var ids []string
	for id := range f.ps.All() {
		ids = append(ids, string(id))
	}
	sort.Strings(ids)
	fmt.Fprintf(&sb, "ids %q\n", ids)
	for _, u := range f.uids {
		e := f.em[u]
		x, err := conv.FromEntity(e)
		jb, jerr := json.Marshal(e)
		fmt.Fprintf(&sb, "entity %s: %s %v %s %v\n", u, ir.JSON(x), err, jb, jerr)
	}
	fmt.Fprintf(&sb, "entities %d\n", len(f.em))
	for _, r := range f.reqs {
		jb, _ := json.Marshal(r)
		fmt.Fprintf(&sb, "request %s\n", jb)
	}
	fmt.Fprintf(&sb, "batch %v %v %v %v\n", f.breq.Principal, f.breq.Action, f.breq.Resource, f.breq.Context)
	var vks []string
	for k, vs := range f.breq.Variables {
		vks = append(vks, fmt.Sprintf("%s=%v", k, vs))
	}
	sort.Strings(vks)
	fmt.Fprintf(&sb, "variables %v\n", vks)
	for _, v := range f.vals {
		jb, _ := json.Marshal(v)
		fmt.Fprintf(&sb, "value %s %s\n", v.MarshalCedar(), jb)
	}
	return sb.String()
}

type deepPart struct {
	name string
	a, b any
}

func deepParts(a, b *fixture) []deepPart {
	var out []deepPart
	for i := range a.pols {
		out = append(out, deepPart{fmt.Sprintf("AST of policy %s", a.ids[i]), a.pols[i].AST(), b.pols[i].AST()})
		// the whole policy object including its compiled evaluator tree (skipped from the start if the two builds differ,
		// e.g. because the tree holds function values, which DeepEqual never considers equal)
		out = append(out, deepPart{fmt.Sprintf("policy object %s (AST + compiled evaluator)", a.ids[i]), a.pols[i], b.pols[i]})
	}
	out = append(out, deepPart{"entity map", a.em, b.em}, deepPart{"requests", a.reqs, b.reqs}, deepPart{"batch request", a.breq, b.breq}, deepPart{"values", a.vals, b.vals})
	out = append(out, deepPart{"zero-value policy set", a.zero, b.zero}, deepPart{"policy set returned beside a parse error", a.failed, b.failed})
	return out
}

// deepDiff lists the parts of A that no longer equal the pristine twin B (parts that differed from the start are skipped).
func deepDiff(a, b *fixture, skip map[string]bool) []string {
	var out []string
	for _, p := range deepParts(a, b) {
		if skip[p.name] {
			continue
		}
		if !reflect.DeepEqual(p.a, p.b) {
			out = append(out, p.name)
		}
	}
	// the policy set must still hold exactly the same policy objects
	if len(a.ps.Map()) != len(a.ids) {
		out = append(out, "policy set membership")
	}
	for i, id := range a.ids {
		if a.ps.Get(id) != a.pols[i] {
			out = append(out, "policy set entry "+string(id))
		}
	}
	return out
}

func initialSkips(a, b *fixture) map[string]bool {
	skip := map[string]bool{}
	for _, p := range deepParts(a, b) {
		if !reflect.DeepEqual(p.a, p.b) {
			skip[p.name] = true
		}
	}
	return skip
}

// ---------------------------------------------------------------------------------------------
// the concurrent phase (runs in the child process)

type Outcome struct {
	Mismatches  []string `json:"mismatches,omitempty"`
	Mutations   []string `json:"mutations,omitempty"`
	MaxInflight [nClasses]int32
	OpsRun      int      `json:"ops_run"`
	Nondet      int      `json:"nondeterministic_alone"`
	NondetKinds []string `json:"nondeterministic_kinds,omitempty"`
	Panics      int      `json:"panicking_ops"`
	DeepSkipped int      `json:"deep_skipped"`
	Err         string   `json:"err,omitempty"`
}

func clip(s string) string {
	if len(s) > 300 {
		return s[:300] + "…"
	}
	return s
}

func concurrentPhase(c *Case) Outcome {
	var out Outcome
	a, err := build(c)
	if err != nil {
		out.Err = err.Error()
		return out
	}
	b, _ := build(c)
	// A third instance answers the "alone" calls: the shared instance A must reach the concurrent phase untouched, or a
	// sequential warm-up would fill lazily initialised state and hide exactly the races this check is after.
	w, _ := build(c)
	skip := initialSkips(a, b) // reflection only, no method of A or B is called
	out.DeepSkipped = len(skip)
	// results of every distinct operation run alone, twice: the set of results the call yields when run alone.
	// (Some outputs are map-order dependent even sequentially - error wording of batch.Authorize, order of validator
	// messages; that is C14's subject. A concurrent result outside the set is re-checked after the phase, see below.)
	alone := map[string]map[string]bool{}
	first := map[string]string{}
	var distinct []Op
	seen := map[string]bool{}
	for _, seq := range c.Seqs {
		for _, o := range seq {
			if k := o.key(); !seen[k] {
				seen[k] = true
				distinct = append(distinct, o)
			}
		}
	}
	for pass := 0; pass < 2; pass++ {
		for _, o := range distinct {
			k := o.key()
			r := runOp(w, o)
			if pass == 0 {
				alone[k] = map[string]bool{r: true}
				first[k] = r
				if strings.HasPrefix(r, "panic:") {
					out.Panics++
				}
			} else if !alone[k][r] {
				alone[k][r] = true
				out.Nondet++
				out.NondetKinds = append(out.NondetKinds, o.Kind)
			}
		}
	}
	type suspect struct {
		o     Op
		r     string
		where string
	}
	var suspects []suspect
	suspectSeen := map[string]bool{}
	// Concurrent phase. The goroutines must not synchronise with each other between start and end: every mutex or atomic
	// operation they shared would create a happens-before edge and make the race detector blind to conflicting accesses
	// that do not overlap in time. Bookkeeping is therefore goroutine-local (time stamps, results) and evaluated after
	// the join.
	type span struct {
		d          *opDef
		start, end time.Time
	}
	type local struct {
		spans    []span
		suspects []suspect
	}
	locals := make([]local, len(c.Seqs))
	var wg sync.WaitGroup
	start := make(chan struct{})
	for g, seq := range c.Seqs {
		wg.Add(1)
		go func(g int, seq []Op) {
			defer wg.Done()
			l := &locals[g]
			l.spans = make([]span, 0, len(seq))
			<-start
			for i, o := range seq {
				if o.Yield {
					runtime.Gosched()
				}
				t0 := time.Now()
				r := runOp(a, o)
				l.spans = append(l.spans, span{opByKind[o.Kind], t0, time.Now()})
				if !alone[o.key()][r] { // alone is only read during the phase
					l.suspects = append(l.suspects, suspect{o, r, fmt.Sprintf("goroutine %d op %d", g, i)})
				}
			}
		}(g, seq)
	}
	close(start)
	wg.Wait()
	// overlap per object class: sweep over the start/end events of all goroutines
	type event struct {
		t     time.Time
		delta int32
		cls   int
	}
	var events []event
	for g := range locals {
		out.OpsRun += len(locals[g].spans)
		for _, s := range locals[g].spans {
			if s.d == nil {
				continue
			}
			for _, cl := range s.d.classes {
				events = append(events, event{s.start, 1, cl}, event{s.end, -1, cl})
			}
		}
		for _, s := range locals[g].suspects {
			if sk := s.o.key() + "\x00" + s.r; !suspectSeen[sk] && len(suspects) < 50 {
				suspectSeen[sk] = true
				suspects = append(suspects, s)
			}
		}
	}
	sort.Slice(events, func(i, j int) bool {
		if !events[i].t.Equal(events[j].t) {
			return events[i].t.Before(events[j].t)
		}
		return events[i].delta < events[j].delta // ends before starts at the same instant
	})
	var cur [nClasses]int32
	for _, e := range events {
		cur[e.cls] += e.delta
		if cur[e.cls] > out.MaxInflight[e.cls] {
			out.MaxInflight[e.cls] = cur[e.cls]
		}
	}
	// inputs unchanged? first by reflection against the untouched twin, then through IR + encoders (the twin is read
	// by methods only now, after the comparison by reflection)
	if d := deepDiff(a, b, skip); len(d) > 0 {
		out.Mutations = append(out.Mutations, "reflect.DeepEqual against the untouched twin fails for: "+strings.Join(d, ", "))
	}
	if sa, sb := snapshot(a), snapshot(b); sa != sb {
		out.Mutations = append(out.Mutations, "snapshot (IR + encoders) of the shared inputs differs from the untouched twin's: "+firstDiff(sb, sa))
	}
	// A concurrent result that was not seen alone: can the call, run alone, produce it as well? Results that depend on
	// Go's randomised map iteration have variant probabilities that depend on the layout of the individual map object
	// (per-map hash seed), and a variant can be as rare as 1/8 (small maps) or 1/32 (30 policies) per call. The retries
	// therefore run on the shared instance itself (same maps as the concurrent calls; it is idle now and the immutability
	// comparison is already done) and are numerous: missing a 1/32 variant 600 times in a row has probability 5e-9.
	for _, s := range suspects {
		k := s.o.key()
		found := false
		for try := 0; try < 600 && !found; try++ {
			r := runOp(a, s.o)
			alone[k][r] = true
			found = r == s.r
		}
		if found {
			out.Nondet++
			out.NondetKinds = append(out.NondetKinds, s.o.Kind)
			continue
		}
		if len(out.Mismatches) < 5 {
			out.Mismatches = append(out.Mismatches, fmt.Sprintf("%s %s: the concurrent result was never produced by the same call run alone (%d distinct alone results in 602 runs); %s", s.where, k, len(alone[k]), diffAt(s.r, first[k])))
		}
	}
	return out
}

// diffAt shows both strings around their first difference.
func diffAt(conc, alone string) string {
	i := 0
	for i < len(conc) && i < len(alone) && conc[i] == alone[i] {
		i++
	}
	lo := max(0, i-120)
	return fmt.Sprintf("first difference at byte %d: concurrent %q, alone %q", i, conc[lo:min(len(conc), i+160)], alone[lo:min(len(alone), i+160)])
}

func firstDiff(a, b string) string {
	la, lb := strings.Split(a, "\n"), strings.Split(b, "\n")
	for i := 0; i < len(la) && i < len(lb); i++ {
		if la[i] != lb[i] {
			return fmt.Sprintf("line %d: before %q, after %q", i, clip(la[i]), clip(lb[i]))
		}
	}
	return fmt.Sprintf("length %d vs %d lines", len(la), len(lb))
}

// TestRaceChild is the body of the child process.
func TestRaceChild(t *testing.T) {
	cf := os.Getenv("C19_CHILD_CASE")
	if cf == "" {
		return
	}
	b, err := os.ReadFile(cf)
	if err != nil {
		t.Fatal(err)
	}
	var c Case
	if err := json.Unmarshal(b, &c); err != nil {
		t.Fatal(err)
	}
	out := concurrentPhase(&c)
	ob, _ := json.Marshal(out)
	if err := os.WriteFile(os.Getenv("C19_CHILD_OUT"), ob, 0o644); err != nil {
		t.Fatal(err)
	}
}

// ---------------------------------------------------------------------------------------------
// parent side

type childResult struct {
	out      Outcome
	finished bool
	exit     int
	raceLog  string
	tail     string
	timedOut bool
}

var childSeq atomic.Int64

const raceExit = 66

func workDir() string {
	if d := os.Getenv("VERIF_WORK"); d != "" {
		_ = os.MkdirAll(d, 0o755)
		return d
	}
	return os.TempDir()
}

func runChild(c *Case) childResult {
	seq := childSeq.Add(1)
	base := filepath.Join(workDir(), fmt.Sprintf("c19-child-%s-%d-%d", os.Getenv("VERIF_SHARD"), os.Getpid(), seq))
	caseFile, outFile, raceBase := base+".case.json", base+".out", base+".race"
	b, _ := json.Marshal(c)
	if err := os.WriteFile(caseFile, b, 0o644); err != nil {
		ev.R.Broken("c19: cannot write child case: " + err.Error())
		return childResult{}
	}
	defer os.Remove(caseFile)
	defer os.Remove(outFile)
	cmd := exec.Command(os.Args[0], "-test.run", "^TestRaceChild$", "-test.count", "1", "-test.timeout", "0")
	procs := c.Procs
	if procs <= 0 {
		procs = 8
	}
	cmd.Env = append(os.Environ(), "C19_CHILD_CASE="+caseFile, "C19_CHILD_OUT="+outFile, "VERIF_WORK=", "VERIF_REPLAY=",
		fmt.Sprintf("GORACE=halt_on_error=1 exitcode=%d log_path=%s", raceExit, raceBase), fmt.Sprintf("GOMAXPROCS=%d", procs))
	var outBuf bytes.Buffer
	cmd.Stdout = &outBuf
	cmd.Stderr = &outBuf
	if err := cmd.Start(); err != nil {
		ev.R.Broken("c19: cannot start child: " + err.Error())
		return childResult{}
	}
	done := make(chan error, 1)
	go func() { done <- cmd.Wait() }()
	var res childResult
	select {
	case <-done:
	case <-time.After(10 * time.Minute):
		_ = cmd.Process.Kill()
		<-done
		res.timedOut = true
	}
	res.exit = cmd.ProcessState.ExitCode()
	if ob, err := os.ReadFile(outFile); err == nil && json.Unmarshal(ob, &res.out) == nil && res.exit == 0 {
		res.finished = true
	}
	// race reports go to <raceBase>.<pid>
	if matches, _ := filepath.Glob(raceBase + ".*"); len(matches) > 0 {
		for _, m := range matches {
			if rb, err := os.ReadFile(m); err == nil {
				res.raceLog += string(rb)
			}
			_ = os.Remove(m)
		}
	}
	s := outBuf.String()
	if len(s) > 1500 {
		s = s[len(s)-1500:]
	}
	res.tail = s
	return res
}

// condenseRace keeps the headline frames of a race report.
func condenseRace(log string) string {
	var keep []string
	for _, l := range strings.Split(log, "\n") {
		t := strings.TrimSpace(l)
		if strings.HasPrefix(t, "WARNING: DATA RACE") || strings.HasPrefix(t, "Write at") || strings.HasPrefix(t, "Read at") || strings.HasPrefix(t, "Previous ") ||
			strings.HasPrefix(t, "github.com/cedar-policy/cedar-go") || strings.HasPrefix(t, "/repo/") || strings.HasPrefix(t, "runtime.map") {
			keep = append(keep, t)
		}
		if len(keep) >= 24 {
			break
		}
	}
	return strings.Join(keep, " | ")
}

// evaluate runs the case in a child and judges it. Returns (sub-check, detail) or ("","").
func evaluate(c *Case) (string, string, childResult) {
	res := runChild(c)
	switch {
	case res.exit == raceExit || strings.Contains(res.raceLog, "DATA RACE"):
		return "race", "the race detector reported a data race during concurrent read-only use: " + condenseRace(res.raceLog+res.tail), res
	case !res.finished && strings.Contains(res.tail, "fatal error: concurrent map"):
		// the Go runtime's own detector of unsynchronised map access fired before the race detector did
		i := strings.Index(res.tail, "fatal error: concurrent map")
		return "race", "the Go runtime aborted the concurrent read-only phase: " + clip(res.tail[i:]), res
	case res.timedOut:
		ev.R.Note("c19: a child did not finish within 10 minutes (inconclusive)")
		return "", "", res
	case !res.finished:
		ev.R.Broken(fmt.Sprintf("c19: child exited with code %d without a result: %s", res.exit, clip(res.tail)))
		return "", "", res
	case res.out.Err != "":
		ev.R.Broken("c19: fixture cannot be built: " + res.out.Err)
		return "", "", res
	case len(res.out.Mutations) > 0:
		return "input-mutated", strings.Join(res.out.Mutations, "; "), res
	case len(res.out.Mismatches) > 0:
		return "concurrent-result", strings.Join(res.out.Mismatches, "; "), res
	}
	return "", "", res
}

// ---------------------------------------------------------------------------------------------
// generators

var idPool = []string{"policy0", "policy1", "policy10", "policy2", "a", "b", "", "é", "p q", "zz"}

func genCase(rt *rapid.T, small bool) *Case {
	vo := gen.DefaultValOpts
	if gen.Chance(rt, 25, "hostilekeys") {
		vo.Keys = gen.KeysHostile
	}
	c := &Case{World: gen.GenWorld(rt, 6, vo)}
	nPol := rapid.IntRange(10, 30).Draw(rt, "npol")
	if small {
		nPol = rapid.IntRange(2, 6).Draw(rt, "npolsmall")
	}
	for i := 0; i < nPol; i++ {
		eo := gen.DefaultExprOpts
		eo.Val = vo
		eo.BadFuncPct = 0
		eo.NoExtLit = gen.Chance(rt, 50, "noextlit")
		c.Policies = append(c.Policies, gen.GenPolicy(rt, &c.World, gen.PolicyOpts{Expr: eo, MaxConds: 2, Depth: 3, Annot: true}))
		c.IDs = append(c.IDs, fmt.Sprintf("%s#%d", gen.Pick(rt, idPool, "pid"), i))
		c.FromText = append(c.FromText, gen.Chance(rt, 50, "fromtext"))
	}
	nReq := rapid.IntRange(2, 5).Draw(rt, "nreq")
	c.Requests = append(c.Requests, c.World.Req)
	for i := 1; i < nReq; i++ {
		c.Requests = append(c.Requests, gen.GenRequest(rt, &c.World, vo))
	}
	// Dynamic-operand policies: every evaluator that could carry per-node state (a parse cache, a memo) is applied to a
	// request-dependent operand, so that goroutines evaluating different requests through the same compiled node really
	// execute it (constant operands are folded away at compile time and never reach the evaluator).
	for i := range c.Requests {
		ctx := ir.Value{K: ir.KRecord}
		for _, f := range c.Requests[i].Context.Fields {
			switch f.K {
			case "ipstr", "decstr", "dtstr", "durstr", "name", "n":
			default:
				ctx.Fields = append(ctx.Fields, f)
			}
		}
		ctx.Fields = append(ctx.Fields,
			ir.F("ipstr", ir.Str(gen.Pick(rt, []string{"127.0.0.1", "10.0.0.1", "::1", "ff02::1", "192.168.0.0/16", "nonsense"}, "dynip"))),
			ir.F("decstr", ir.Str(gen.Pick(rt, []string{"1.0", "2.5", "-3.1415", "0.0001", "x"}, "dyndec"))),
			ir.F("dtstr", ir.Str(gen.Pick(rt, []string{"2024-01-01", "1969-12-31T23:59:59Z", "2030-06-30T12:00:00.500+0100", "nope"}, "dyndt"))),
			ir.F("durstr", ir.Str(gen.Pick(rt, []string{"1h", "-2d3ms", "0ms", "5m30s", "bad"}, "dyndur"))),
			ir.F("name", ir.Str(gen.Pick(rt, []string{"a", "ab", "b", "", "a*"}, "dynname"))),
			ir.F("n", ir.Long(int64(rapid.IntRange(-2, 2).Draw(rt, "dynn")))))
		c.Requests[i].Context = ctx
	}
	c.World.Req = c.Requests[0]
	{
		C, P, R := ir.Var("context"), ir.Var("principal"), ir.Var("resource")
		one := ir.Lit(ir.Long(1))
		dyn := []*ir.Expr{
			ir.Ext("isLoopback", ir.Ext("ip", ir.Access(C, "ipstr"))),
			ir.Ext("isInRange", ir.Ext("ip", ir.Access(C, "ipstr")), ir.Ext("ip", ir.Lit(ir.Str("10.0.0.0/8")))),
			ir.Ext("lessThan", ir.Ext("decimal", ir.Access(C, "decstr")), ir.Lit(ir.Decimal(20000))),
			ir.Bin(ir.OpLt, ir.Ext("datetime", ir.Access(C, "dtstr")), ir.Lit(ir.Datetime(1900000000000))),
			ir.Bin(ir.OpGt, ir.Ext("toHours", ir.Ext("duration", ir.Access(C, "durstr"))), ir.Lit(ir.Long(0))),
			ir.Bin(ir.OpEq, ir.Ext("toDate", ir.Ext("datetime", ir.Access(C, "dtstr"))), ir.Ext("datetime", ir.Lit(ir.Str("2024-01-01")))),
			ir.Like(ir.Access(C, "name"), []ir.PatElem{{Lit: "a"}, {Wild: true}}),
			ir.Bin(ir.OpGt, ir.Bin(ir.OpMul, ir.Bin(ir.OpAdd, ir.Access(C, "n"), one), ir.Un(ir.OpNeg, ir.Access(C, "n"))), ir.Lit(ir.Long(-3))),
			ir.Bin(ir.OpContains, ir.SetE(ir.Access(C, "n"), one), one),
			ir.Bin(ir.OpContainsAny, ir.SetE(ir.Access(C, "n"), ir.Access(C, "name")), ir.SetE(one, ir.Lit(ir.Str("a")))),
			ir.Bin(ir.OpEq, ir.RecE([]string{"k", "j"}, []*ir.Expr{ir.Access(C, "name"), ir.Access(C, "n")}), ir.Lit(ir.Rec(ir.F("j", ir.Long(1)), ir.F("k", ir.Str("a"))))),
			ir.Bin(ir.OpIn, P, ir.SetE(R, ir.Lit(gen.EntityVal(rt)))),
			ir.IsIn(P, gen.Pick(rt, gen.EntityTypes, "dynty"), R),
			ir.Bin(ir.OpAnd, ir.Has(P, "a"), ir.Bin(ir.OpEq, ir.Access(P, "a"), ir.Access(C, "n"))),
			ir.Bin(ir.OpHasTag, P, ir.Access(C, "name")),
			ir.If(ir.Bin(ir.OpLt, ir.Access(C, "n"), one), ir.Bin(ir.OpEq, P, R), ir.Is(R, "T0")),
		}
		for i, e := range dyn {
			p := ir.NewPolicy(i%3 != 0)
			p.Conds = []ir.Cond{{When: true, Body: e}}
			c.Policies = append(c.Policies, p)
			c.IDs = append(c.IDs, fmt.Sprintf("dyn#%d", i))
			c.FromText = append(c.FromText, i%2 == 0)
		}
		// scope lists of every length 1..12 that name an action group of the fixture schema (view and edit are members of
		// grp), parsed from text: whatever the validator and the authorizer derive from such a list (member actions,
		// environments) must not be written into the shared policy
		// (the group comes first: the validator stops at the first action it does not know; lengths up to 12, the others in
		// no particular order: a container chosen by size, or a sort, would show)
		for n := 1; n <= 12; n++ {
			p := ir.NewPolicy(n%2 == 0)
			acts := []ir.Value{ir.Ent(gen.ActionType, "grp")}
			for k := 1; k < n; k++ {
				if n <= 8 {
					acts = append(acts, ir.Ent(gen.ActionType, fmt.Sprintf("other%d", k)))
				} else {
					acts = append(acts, ir.Ent(gen.ActionType, fmt.Sprintf("other%d", (k*7)%13)))
				}
			}
			p.Action = ir.ScopeInSet(acts)
			c.Policies = append(c.Policies, p)
			c.IDs = append(c.IDs, fmt.Sprintf("actlist#%d", n))
			c.FromText = append(c.FromText, true)
		}
	}
	ents := func(label string, action bool) []ir.Value {
		n := rapid.IntRange(1, 3).Draw(rt, label+"n")
		var out []ir.Value
		for i := 0; i < n; i++ {
			if action {
				out = append(out, ir.Ent(gen.ActionType, gen.Pick(rt, gen.ActionIDs, label+"a")))
			} else if len(c.World.Store) > 0 && gen.Chance(rt, 70, label+"instore") {
				out = append(out, c.World.Store[rapid.IntRange(0, len(c.World.Store)-1).Draw(rt, label+"idx")].UID)
			} else {
				out = append(out, gen.EntityVal(rt))
			}
		}
		return out
	}
	c.Batch = BatchIR{Base: rapid.IntRange(0, nReq-1).Draw(rt, "bbase"), PrincipalVar: gen.Chance(rt, 60, "bp"), ActionVar: gen.Chance(rt, 40, "ba"), ResourceVar: gen.Chance(rt, 60, "br"),
		Principals: ents("bps", false), Actions: ents("bas", true), Resources: ents("brs", false)}
	switch rapid.IntRange(0, 3).Draw(rt, "bctx") {
	case 0:
		c.Batch.IgnoreContext = true
	case 1:
		c.Batch.CtxVarKey = gen.Pick(rt, gen.KeysSmall, "bck")
		c.Batch.CtxValues = ents("bcv", false)
	}
	c.Procs = gen.Pick(rt, []int{2, 4, 8, 16}, "procs")
	g := rapid.IntRange(8, 16).Draw(rt, "goroutines")
	nops := rapid.IntRange(20, ev.Pick(50, 80)).Draw(rt, "nops")
	if small {
		g, nops = 2, 4
	}
	// a pool of operations shared by the goroutines makes several goroutines run the very same call on the very same object
	pool := make([]Op, rapid.IntRange(6, 24).Draw(rt, "poolsize"))
	for i := range pool {
		pool[i] = Op{Kind: ops[rapid.IntRange(0, len(ops)-1).Draw(rt, "opkind")].kind, A: rapid.IntRange(0, 40).Draw(rt, "opa"), B: rapid.IntRange(0, 8).Draw(rt, "opb")}
	}
	for i := 0; i < g; i++ {
		seq := make([]Op, nops)
		for j := range seq {
			seq[j] = pool[rapid.IntRange(0, len(pool)-1).Draw(rt, "poolidx")]
			seq[j].Yield = gen.Chance(rt, 20, "yield")
		}
		c.Seqs = append(c.Seqs, seq)
	}
	return c
}

func caseLabels(c *Case, res childResult) []string {
	kinds := map[string]bool{}
	for _, s := range c.Seqs {
		for _, o := range s {
			kinds[o.Kind] = true
		}
	}
	var out []string
	for k := range kinds {
		out = append(out, "op:"+k)
	}
	sort.Strings(out)
	out = append(out, fmt.Sprintf("gomaxprocs:%d", c.Procs))
	if res.out.Nondet > 0 {
		out = append(out, "nondeterministic-alone")
		nk := map[string]bool{}
		for _, k := range res.out.NondetKinds {
			if !nk[k] {
				nk[k] = true
				out = append(out, "nondeterministic-alone:"+k)
			}
		}
	}
	if res.out.Panics > 0 {
		out = append(out, "op-panics-alone")
	}
	if res.out.DeepSkipped > 0 {
		out = append(out, "deep-equal-part-skipped")
	}
	return out
}

func overlapped(res childResult) bool {
	for _, m := range res.out.MaxInflight {
		if m >= 2 {
			return true
		}
	}
	return false
}

// ---------------------------------------------------------------------------------------------
// tests

func TestConcurrentReads(t *testing.T) {
	if !raceEnabled && os.Getenv("VERIF_WORK") != "" {
		ev.R.Broken("C19 must be built with -race (meta.d/C19.json: race=true)")
	}
	ev.SetChecks(ev.Scale(40, 1000))
	ev.Check(t, func(rt *rapid.T) {
		c := genCase(rt, false)
		sub, detail, res := evaluate(c)
		nt := overlapped(res)
		labels := caseLabels(c, res)
		if nt {
			labels = append(labels, "overlap")
		}
		if raceEnabled {
			labels = append(labels, "race-detector-on")
		}
		ev.R.Case(ir.Hash(c), nt, labels...)
		ev.R.Count(int64(res.out.OpsRun))
		if ev.R.WantSample("concurrent") {
			ev.R.Sample("concurrent", map[string]any{"policies": len(c.Policies), "entities": len(c.World.Store), "requests": len(c.Requests), "goroutines": len(c.Seqs), "ops_per_goroutine": len(c.Seqs[0]),
				"gomaxprocs": c.Procs, "max_inflight_per_class": res.out.MaxInflight, "ops_run": res.out.OpsRun, "first_ops": c.Seqs[0][:min(4, len(c.Seqs[0]))]})
		}
		if sub != "" {
			ev.R.Violation(sub, c, detail)
			rt.Fatalf("C19/concurrent: race, diverging result or mutated input during concurrent read-only use")
		}
	})
}

// TestSequentialImmutability: every operation kind x every input, alone; the inputs must equal their untouched twin after each call.
func TestSequentialImmutability(t *testing.T) {
	ev.SetChecks(ev.Scale(60, 3000))
	ev.Check(t, func(rt *rapid.T) {
		c := genCase(rt, true)
		sub, detail, nops := sequentialCheck(c)
		ev.R.Case(ir.Hash(c), true, "sequential")
		ev.R.Count(int64(nops))
		if ev.R.WantSample("sequential") {
			ev.R.Sample("sequential", map[string]any{"policies": len(c.Policies), "entities": len(c.World.Store), "requests": len(c.Requests), "operations_checked": nops})
		}
		if sub != "" {
			ev.R.Violation(sub, c, detail)
			rt.Fatalf("C19/sequential: a read-only operation modified its inputs")
		}
	})
}

// sequentialCheck applies every operation to every applicable input of c, comparing A with its twin after each call.
func sequentialCheck(c *Case) (string, string, int) {
	a, err := build(c)
	if err != nil {
		ev.R.Broken("c19: fixture cannot be built: " + err.Error())
		return "", "", 0
	}
	b, _ := build(c)
	skip := initialSkips(a, b)
	before := snapshot(a)
	n := 0
	for i := range ops {
		d := &ops[i]
		na, nb := d.dom.sizes(a)
		if na == 0 {
			na = 1
		}
		if nb == 0 {
			nb = 1
		}
		for x := 0; x < na; x++ {
			for y := 0; y < nb; y++ {
				o := Op{Kind: d.kind, A: x, B: y}
				r1 := runOp(a, o)
				n++
				if diff := deepDiff(a, b, skip); len(diff) > 0 {
					return "sequential-input-mutated", fmt.Sprintf("after %s (alone): reflect.DeepEqual against the untouched twin fails for %s", o.key(), strings.Join(diff, ", ")), n
				}
				_ = r1
			}
		}
	}
	if after := snapshot(a); after != before {
		return "sequential-input-mutated", "snapshot (IR + encoders) of the inputs changed after applying every operation once: " + firstDiff(before, after), n
	}
	return "", "", n
}

func TestReplay(t *testing.T) {
	rf, ok, err := ev.LoadReplay()
	if !ok {
		t.Skip("no replay requested")
	}
	if err != nil {
		t.Fatal(err)
	}
	var c Case
	if err := json.Unmarshal(rf.Case, &c); err != nil || len(c.Requests) == 0 {
		t.Fatalf("cannot decode replay case: %v", err)
	}
	if strings.HasPrefix(rf.Sub, "sequential") {
		if sub, detail, _ := sequentialCheck(&c); sub != "" {
			ev.R.Violation(sub, &c, detail)
			t.Fatalf("C19 replay %s: %s", sub, detail)
		}
		return
	}
	// races depend on the schedule: give the replay several attempts
	for attempt := 0; attempt < 5; attempt++ {
		if sub, detail, _ := evaluate(&c); sub != "" {
			ev.R.Violation(sub, &c, detail)
			t.Fatalf("C19 replay %s: %s", sub, detail)
		}
	}
}
