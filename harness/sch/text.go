package sch

import (
	"fmt"
	"strings"
)

// Own renderer IR -> Cedar schema text, written from the schema grammar:
//
//	Schema    := { Annotations 'namespace' Path '{' {Decl} '}' | Decl }
//	Decl      := Annotations ( 'entity' Idents ['in' EntTypes] [['='] RecType] ['tags' Type] ';'
//	                         | 'entity' Idents 'enum' '[' STR {',' STR} ']' ';'
//	                         | 'action' Names ['in' Ref | '[' Refs ']'] ['appliesTo' '{' AppDecls '}'] ';'
//	                         | 'type' IDENT '=' Type ';' )
//	Type      := Path | 'Set' '<' Type '>' | '{' [AttrDecls] '}'
//	AttrDecl  := Annotations Name ['?'] ':' Type
//	Name      := IDENT | STR ; Ref := Name | Path '::' STR
//
// It shares nothing with cedar-go's marshaller. Layout (white space, comments, optional quoting, optional '=',
// trailing commas, `__cedar::` qualification of builtins) is varied by a small deterministic generator seeded
// from Style so that a replay reproduces the same bytes.

var reserved = map[string]bool{"true": true, "false": true, "if": true, "then": true, "else": true, "in": true, "like": true, "has": true, "is": true, "__cedar": true}

// ReservedTypeNames cannot be declared as common types in the text format.
var ReservedTypeNames = map[string]bool{"Bool": true, "Boolean": true, "Entity": true, "Extension": true, "Long": true, "Record": true, "Set": true, "String": true}

func IsIdentSyntax(s string) bool {
	if s == "" {
		return false
	}
	for i, r := range s {
		ok := r == '_' || (r >= 'a' && r <= 'z') || (r >= 'A' && r <= 'Z') || (i > 0 && r >= '0' && r <= '9')
		if !ok {
			return false
		}
	}
	return true
}

// IsIdent: identifier that is not a reserved word.
func IsIdent(s string) bool { return IsIdentSyntax(s) && !reserved[s] }

// IsPath: IDENT {'::' IDENT}; allowCedar permits `__cedar` as first component.
func IsPath(s string, allowCedar bool) bool {
	if s == "" {
		return false
	}
	for i, c := range strings.Split(s, "::") {
		if i == 0 && allowCedar && c == "__cedar" {
			continue
		}
		if !IsIdent(c) {
			return false
		}
	}
	return true
}

type lcg struct{ s uint64 }

func (l *lcg) n(k int) int {
	l.s = l.s*6364136223846793005 + 1442695040888963407
	return int((l.s >> 33) % uint64(k))
}

type textW struct {
	b     strings.Builder
	r     lcg
	noise bool
	decls Decls
	ns    string
}

func (w *textW) sep(tight bool) {
	if !w.noise {
		if !tight {
			w.b.WriteByte(' ')
		}
		return
	}
	opts := []string{" ", " ", "\n", "\n\t", "  ", "\t", " /* c */ ", " // x\n", "\r\n", "/**/"}
	if tight {
		opts = append(opts, "", "", "", "")
	}
	w.b.WriteString(opts[w.r.n(len(opts))])
}

// tok writes a token preceded by a separator; tight tokens (punctuation) may attach directly.
func (w *textW) tok(s string, tight bool) {
	if w.b.Len() > 0 {
		w.sep(tight)
	}
	w.b.WriteString(s)
}

func (w *textW) word(s string)  { w.tok(s, false) }
func (w *textW) punct(s string) { w.tok(s, true) }

// QuoteStr renders a Cedar string literal. Escapes: \n \r \t \\ \0 \' \" \xHH (<= 7f) \u{H..}.
func quoteStr(s string, r *lcg) string {
	var b strings.Builder
	b.WriteByte('"')
	for _, c := range s {
		switch {
		case c == '"':
			b.WriteString(`\"`)
		case c == '\\':
			b.WriteString(`\\`)
		case c == '\n':
			b.WriteString([]string{`\n`, `\x0a`, `\u{a}`, `\u{00000A}`}[r.n(4)])
		case c == '\r':
			b.WriteString(`\r`)
		case c == '\t':
			b.WriteString([]string{`\t`, `\x09`}[r.n(2)])
		case c == 0:
			b.WriteString([]string{`\0`, `\x00`, `\u{0}`}[r.n(3)])
		case c == '\'':
			b.WriteString([]string{`'`, `\'`}[r.n(2)])
		case c < 0x20 || c == 0x7f:
			if r.n(2) == 0 {
				fmt.Fprintf(&b, `\x%02x`, c)
			} else {
				fmt.Fprintf(&b, `\u{%x}`, c)
			}
		case c < 0x7f:
			if r.n(12) == 0 {
				fmt.Fprintf(&b, `\x%02X`, c)
			} else {
				b.WriteRune(c)
			}
		case c == 0xfffd || c < 0xa1 || (c >= 0x2028 && c <= 0x2029) || c == 0xfeff || (c >= 0xfff0 && c <= 0xffff) || c >= 0xe0000:
			// never raw: replacement character (cedar-go finding 9 belongs to C08/C12), C1 controls, separators, specials
			fmt.Fprintf(&b, `\u{%X}`, c)
		default:
			if r.n(2) == 0 {
				b.WriteRune(c)
			} else {
				fmt.Fprintf(&b, `\u{%x}`, c)
			}
		}
	}
	b.WriteByte('"')
	return b.String()
}

func (w *textW) name(s string) {
	if IsIdent(s) && (!w.noise || w.r.n(4) != 0) {
		w.word(s)
		return
	}
	w.word(quoteStr(s, &w.r))
}

func (w *textW) anns(as []Ann) {
	for _, a := range as {
		w.word("@" + a.K)
		if a.V == "" && a.Bare {
			continue
		}
		w.punct("(")
		w.punct(quoteStr(a.V, &w.r))
		w.punct(")")
	}
}

func (w *textW) builtin(n string) {
	if k, _ := w.decls.LookupRef(w.ns, n); k != "builtin" || (w.noise && w.r.n(4) == 0) {
		w.word("__cedar::" + n)
		return
	}
	w.word(n)
}

func (w *textW) typ(t Type) {
	switch t.K {
	case TString:
		w.builtin("String")
	case TLong:
		w.builtin("Long")
	case TBool:
		w.builtin("Bool")
	case TExt:
		w.builtin(t.Name)
	case TSet:
		w.word("Set")
		w.punct("<")
		w.typ(*t.Elem)
		w.punct(">")
	case TRecord:
		w.record(t.Attrs)
	case TEntity, TRef:
		w.word(t.Name)
	}
}

func (w *textW) record(as []Attr) {
	w.punct("{")
	for i, a := range as {
		w.anns(a.Ann)
		w.name(a.Name)
		if a.Opt {
			w.punct("?")
		}
		w.punct(":")
		w.typ(a.T)
		if i < len(as)-1 || (w.noise && w.r.n(3) == 0) {
			w.punct(",")
		}
	}
	w.punct("}")
}

func (w *textW) list(xs []string, forceBrackets bool) {
	if len(xs) == 1 && !forceBrackets && (!w.noise || w.r.n(2) == 0) {
		w.word(xs[0])
		return
	}
	w.punct("[")
	for i, x := range xs {
		if i > 0 {
			w.punct(",")
		}
		w.word(x)
	}
	w.punct("]")
}

func (w *textW) pref(p PRef) {
	if p.Type == "" {
		w.name(p.ID)
		return
	}
	w.word(p.Type + "::" + quoteStr(p.ID, &w.r))
}

func (w *textW) decls_(ns NS) {
	// declaration kinds in an order chosen by the style; the text format does not care
	order := [][]int{{0, 1, 2, 3}, {3, 2, 1, 0}, {1, 3, 0, 2}, {2, 0, 3, 1}}[0]
	if w.noise {
		order = [][]int{{0, 1, 2, 3}, {3, 2, 1, 0}, {1, 3, 0, 2}, {2, 0, 3, 1}}[w.r.n(4)]
	}
	for _, k := range order {
		switch k {
		case 0:
			for _, c := range ns.Commons {
				w.anns(c.Ann)
				w.word("type")
				w.word(c.Name)
				w.punct("=")
				w.typ(c.T)
				w.punct(";")
			}
		case 1:
			for _, e := range ns.Entities {
				w.anns(e.Ann)
				w.word("entity")
				w.word(e.Name)
				if len(e.Parents) > 0 {
					w.word("in")
					w.list(e.Parents, false)
				}
				if e.HasShape {
					if w.noise && w.r.n(3) == 0 {
						w.punct("=")
					}
					w.record(e.Shape)
				}
				if e.Tags != nil {
					w.word("tags")
					w.typ(*e.Tags)
				}
				w.punct(";")
			}
		case 2:
			for _, e := range ns.Enums {
				w.anns(e.Ann)
				w.word("entity")
				w.word(e.Name)
				w.word("enum")
				w.punct("[")
				for i, v := range e.Values {
					if i > 0 {
						w.punct(",")
					}
					w.punct(quoteStr(v, &w.r))
				}
				w.punct("]")
				w.punct(";")
			}
		case 3:
			for _, a := range ns.Actions {
				w.anns(a.Ann)
				w.word("action")
				w.name(a.Name)
				if len(a.Parents) > 0 {
					w.word("in")
					if len(a.Parents) == 1 && (!w.noise || w.r.n(2) == 0) {
						w.pref(a.Parents[0])
					} else {
						w.punct("[")
						for i, p := range a.Parents {
							if i > 0 {
								w.punct(",")
							}
							w.pref(p)
						}
						w.punct("]")
					}
				}
				if a.Applies != nil {
					w.word("appliesTo")
					w.punct("{")
					parts := []int{0, 1, 2}
					if w.noise {
						parts = [][]int{{0, 1, 2}, {2, 1, 0}, {1, 0, 2}, {0, 2, 1}}[w.r.n(4)]
					}
					first := true
					for _, p := range parts {
						if p == 2 && a.Applies.Context == nil {
							continue
						}
						if !first {
							w.punct(",")
						}
						first = false
						switch p {
						case 0:
							w.word("principal")
							w.punct(":")
							w.list(a.Applies.Principals, false)
						case 1:
							w.word("resource")
							w.punct(":")
							w.list(a.Applies.Resources, false)
						case 2:
							w.word("context")
							w.punct(":")
							w.typ(*a.Applies.Context)
						}
					}
					if w.noise && w.r.n(3) == 0 {
						w.punct(",")
					}
					w.punct("}")
				}
				w.punct(";")
			}
		}
	}
}

// RenderText renders s as Cedar schema text; style 0 is the plain layout, other values seed the layout noise.
func RenderText(s *Schema, style uint64) string {
	w := &textW{r: lcg{s: style}, noise: style != 0, decls: DeclsOf(s)}
	for _, ns := range s.NS {
		w.ns = ns.Name
		if ns.Name == "" {
			w.decls_(ns)
			continue
		}
		w.anns(ns.Ann)
		w.word("namespace")
		w.word(ns.Name)
		w.punct("{")
		w.decls_(ns)
		w.punct("}")
	}
	if w.noise && w.r.n(2) == 0 {
		w.b.WriteString("\n// end")
	}
	return w.b.String()
}

// TextExpressible reports whether the Cedar text format can express s with the same meaning; the reason names
// the first obstacle (appendix C carve-outs: the text grammar cannot express these ASTs).
func TextExpressible(s *Schema) (bool, string) {
	d := DeclsOf(s)
	annOK := func(as []Ann) bool {
		for _, a := range as {
			if !IsIdentSyntax(a.K) {
				return false
			}
		}
		return true
	}
	var typeOK func(ns string, t Type) string
	typeOK = func(ns string, t Type) string {
		switch t.K {
		case TExt:
			if !Builtins[t.Name] || t.Name == "String" || t.Name == "Long" || t.Name == "Bool" || t.Name == "Boolean" {
				return "unknown extension type name"
			}
		case TSet:
			return typeOK(ns, *t.Elem)
		case TRecord:
			for _, a := range t.Attrs {
				if !annOK(a.Ann) {
					return "annotation key"
				}
				if r := typeOK(ns, a.T); r != "" {
					return r
				}
			}
		case TEntity:
			if t.Name == "Set" || !IsPath(t.Name, true) {
				return "entity reference is not a path"
			}
			k, q := d.LookupRef(ns, t.Name)
			e := d.LookupEntity(ns, t.Name)
			if e == "" {
				if k != "" {
					return "undefined entity reference that the text format would resolve to something else"
				}
			} else if k != "entity" || q != e {
				return "explicit entity reference shadowed by a common type"
			}
		case TRef:
			if t.Name == "Set" || !IsPath(t.Name, true) {
				return "type reference is not a path"
			}
		}
		return ""
	}
	pathsOK := func(xs []string) bool {
		for _, x := range xs {
			if !IsPath(x, true) {
				return false
			}
		}
		return true
	}
	for _, ns := range s.NS {
		if ns.Name == "" {
			if len(ns.Ann) > 0 {
				return false, "annotations on the empty namespace"
			}
		} else {
			if !IsPath(ns.Name, false) {
				return false, "namespace name"
			}
			if !annOK(ns.Ann) {
				return false, "annotation key"
			}
		}
		for _, c := range ns.Commons {
			if !IsIdent(c.Name) || ReservedTypeNames[c.Name] {
				return false, "common type name"
			}
			if !annOK(c.Ann) {
				return false, "annotation key"
			}
			if r := typeOK(ns.Name, c.T); r != "" {
				return false, r
			}
		}
		for _, e := range ns.Entities {
			if !IsIdent(e.Name) || !annOK(e.Ann) || !pathsOK(e.Parents) {
				return false, "entity name / parents"
			}
			if r := typeOK(ns.Name, Rec(e.Shape...)); r != "" {
				return false, r
			}
			if e.Tags != nil {
				if r := typeOK(ns.Name, *e.Tags); r != "" {
					return false, r
				}
			}
		}
		for _, e := range ns.Enums {
			if !IsIdent(e.Name) || !annOK(e.Ann) {
				return false, "enum name"
			}
		}
		for _, a := range ns.Actions {
			if !annOK(a.Ann) {
				return false, "annotation key"
			}
			for _, p := range a.Parents {
				if p.Type != "" && !IsPath(p.Type, true) {
					return false, "action parent type"
				}
			}
			if a.Applies != nil {
				if len(a.Applies.Principals) == 0 || len(a.Applies.Resources) == 0 {
					return false, "appliesTo without principal or resource types"
				}
				if !pathsOK(a.Applies.Principals) || !pathsOK(a.Applies.Resources) {
					return false, "appliesTo type is not a path"
				}
				if a.Applies.Context != nil {
					if r := typeOK(ns.Name, *a.Applies.Context); r != "" {
						return false, r
					}
				}
			}
		}
	}
	return true, ""
}

// ShadowedBuiltinUse reports whether s uses a builtin type (String, Long, Bool or an extension type, as AST builtin
// nodes) at a place where a declared common or entity type of the same name takes precedence for the unqualified
// name, so that a text rendering must write `__cedar::Name`.
func ShadowedBuiltinUse(s *Schema) bool {
	d := DeclsOf(s)
	found := false
	var walk func(ns string, t Type)
	walk = func(ns string, t Type) {
		name := ""
		switch t.K {
		case TString:
			name = "String"
		case TLong:
			name = "Long"
		case TBool:
			name = "Bool"
		case TExt:
			name = t.Name
		case TSet:
			walk(ns, *t.Elem)
		case TRecord:
			for _, a := range t.Attrs {
				walk(ns, a.T)
			}
		}
		if name != "" {
			if k, _ := d.LookupRef(ns, name); k != "builtin" {
				found = true
			}
		}
	}
	for _, ns := range s.NS {
		for _, c := range ns.Commons {
			walk(ns.Name, c.T)
		}
		for _, e := range ns.Entities {
			walk(ns.Name, Rec(e.Shape...))
			if e.Tags != nil {
				walk(ns.Name, *e.Tags)
			}
		}
		for _, a := range ns.Actions {
			if a.Applies != nil && a.Applies.Context != nil {
				walk(ns.Name, *a.Applies.Context)
			}
		}
	}
	return found
}
