package sch

import (
	"strings"

	"pgregory.net/rapid"

	"verif/gen"
)

// General schema generator (C17, random part of C16): namespaces, common types, entities, enums, actions over small
// name pools so that references hit, names collide (common type vs entity type, namespace vs empty namespace,
// builtin-like names), names need quoting, annotations with and without values, enums incl. empty / one value,
// qualified and unqualified action parents. A small share of schemas is not expressible in the text format or
// does not resolve; the checks label and route those.

var (
	nsPool      = []string{"", "", "NS", "NS", "A::B", "N2"}
	entPools    = map[string][]string{"": {"A", "B", "C", "T", "String"}, "NS": {"U", "G", "D", "type", "ipaddr"}, "A::B": {"P", "Q", "enum", "Long"}, "N2": {"V", "W", "entity", "tags"}}
	commonPools = map[string][]string{"": {"X", "Y", "A", "decimal"}, "NS": {"Z", "U", "Ctx", "ipaddr"}, "A::B": {"K", "P", "duration"}, "N2": {"M", "V", "Bool2"}}
	// names the text format cannot declare / reference (JSON leg only)
	oddCommon = []string{"Set", "String", "Bool", "Record", "Entity", "Long", "Extension", "Boolean"}
	attrPool  = []string{"a", "A", "b", "B", "k", "K", "name", "Name", "NAME", "if", "IF", "in", "true", "has", "like", "is", "then", "else", "__cedar", "type", "entity", "action", "namespace", "appliesTo", "principal", "resource", "context", "tags", "enum", "Set",
		"a b", "", "1x", "x-y", "\n", "\t", "\"", "'", "\\", "\u0000", "é", "日本", "\u0080", "\u200b", "\u0301", "__entity", "__extn", "__tag:k", "a.b", "*", "\U0001F600", " ", "\a", "\x7f", "A::B", "@", "//", "/*"}
	actionPool = []string{"view", "edit", "grp", "all", "if", "in", "__cedar", "a b", "", "\"", "\\", "é", "日本", "\n", "view::x", "Action", "\u0000", "*", "1", "appliesTo", "\U0001F600"}
	annKeys    = []string{"doc", "a", "id", "if", "in", "__cedar", "type", "true", "_x1"}
	enumVals   = []string{"red", "green", "", "a b", "\"", "\\", "\n", "é", "日本", "if", "\u0000", "\U0001F600", "x"}
	extNames   = []string{"ipaddr", "decimal", "datetime", "duration"}
)

type GenOpts struct {
	OddPct int // probability (percent) of features the text format cannot express / that break resolution
}

type sgen struct {
	t        *rapid.T
	o        GenOpts
	entities []string // qualified declared entity / enum names
	commons  []string // qualified declared common names
	actions  map[string][]string
}

// Rare is a low-probability coin. rapid draws small integers far more often than uniformly (its bit-length bias), so a
// plain "value < pct" test fires several times too often for small pct; the test uses a band in the upper half of a
// 7-bit range instead, which is only reached by unbiased full-width draws (about half of all draws). Shrinking moves
// the value towards 0, i.e. towards "feature off".
func Rare(t *rapid.T, pct int, label string) bool {
	w := pct * 26 / 10
	if w > 63 {
		w = 63
	}
	v := rapid.IntRange(0, 127).Draw(t, label)
	return v >= 64 && v < 64+w
}

func (g *sgen) odd(label string) bool { return g.o.OddPct > 0 && Rare(g.t, g.o.OddPct, label) }

func (g *sgen) anns() []Ann {
	t := g.t
	if !gen.Chance(t, 25, "hasann") {
		return nil
	}
	n := rapid.IntRange(1, 2).Draw(t, "nann")
	var out []Ann
	for i := 0; i < n; i++ {
		k := gen.Pick(t, annKeys, "annk")
		dup := false
		for _, a := range out {
			if a.K == k {
				dup = true
			}
		}
		if dup {
			continue
		}
		switch rapid.IntRange(0, 3).Draw(t, "annv") {
		case 0:
			out = append(out, Ann{K: k, Bare: true})
		case 1:
			out = append(out, Ann{K: k})
		default:
			out = append(out, Ann{K: k, V: gen.StringVal(t)})
		}
	}
	return out
}

// refTo writes a reference to the qualified declared name q from inside namespace ns.
func (g *sgen) refTo(ns, q string) string {
	i := strings.LastIndex(q, "::")
	if i < 0 {
		return q
	}
	if q[:i] == ns && gen.Chance(g.t, 60, "unqual") {
		return q[i+2:]
	}
	if Rare(g.t, 5, "basename") {
		return q[i+2:] // basename from another namespace: usually undefined or resolves elsewhere
	}
	return q
}

func (g *sgen) entityRef(ns string) string {
	t := g.t
	if len(g.entities) == 0 || g.odd("undefent") {
		return gen.Pick(t, []string{"Nope", "NS::Nope", "String", "Action"}, "undef")
	}
	return g.refTo(ns, gen.Pick(t, g.entities, "ent"))
}

func (g *sgen) typ(ns string, depth int) Type {
	t := g.t
	max := 11
	if depth <= 0 {
		max = 8
	}
	switch rapid.IntRange(0, max).Draw(t, "tkind") {
	case 0:
		return Str()
	case 1:
		return Lng()
	case 2:
		return Boo()
	case 3:
		if g.odd("unkext") {
			return Ext(gen.Pick(t, []string{"foo", "String", ""}, "unkextn"))
		}
		return Ext(gen.Pick(t, extNames, "ext"))
	case 4, 5:
		// reference by the disambiguation rules: entity, common or builtin
		switch rapid.IntRange(0, 4).Draw(t, "refkind") {
		case 0, 1:
			if len(g.commons) > 0 {
				return Ref(g.refTo(ns, gen.Pick(t, g.commons, "common")))
			}
			return Ref(g.entityRef(ns))
		case 2:
			return Ref(g.entityRef(ns))
		case 3:
			return Ref(gen.Pick(t, []string{"String", "Long", "Bool", "Boolean", "ipaddr", "decimal", "datetime", "duration", "__cedar::String", "__cedar::Long", "__cedar::Bool", "__cedar::ipaddr", "__cedar::decimal"}, "builtin"))
		default:
			if g.odd("undefref") {
				return Ref(gen.Pick(t, []string{"Nope", "NS::Nope", "__cedar::Nope", "Set", "A::B::C::D"}, "undefref"))
			}
			return Ref(g.entityRef(ns))
		}
	case 6:
		return Ref(g.entityRef(ns))
	case 7:
		if gen.Chance(t, 30, "explicit") {
			return EntRef(g.entityRef(ns))
		}
		return Ref(g.entityRef(ns))
	case 8:
		return Lng()
	case 9, 10:
		return SetOf(g.typ(ns, depth-1))
	default:
		return Rec(g.attrs(ns, depth-1, 3)...)
	}
}

func (g *sgen) attrs(ns string, depth, maxN int) []Attr {
	t := g.t
	n := rapid.IntRange(0, maxN).Draw(t, "nattr")
	var out []Attr
	for i := 0; i < n; i++ {
		name := gen.Pick(t, attrPool, "attr")
		if Rare(t, 4, "uniattr") {
			name = gen.UnicodeString(t, 0, 4)
		}
		dup := false
		for _, a := range out {
			if a.Name == name {
				dup = true
			}
		}
		if dup {
			continue
		}
		out = append(out, Attr{Name: name, T: g.typ(ns, depth), Opt: gen.Chance(t, 35, "opt"), Ann: g.anns()})
	}
	return out
}

// GenSchema draws a schema.
func GenSchema(t *rapid.T, o GenOpts) *Schema {
	g := &sgen{t: t, o: o, actions: map[string][]string{}}
	// 1. namespaces and declared names
	nns := rapid.IntRange(1, 3).Draw(t, "nns")
	s := &Schema{}
	type plan struct {
		ents, enums, commons, actions []string
	}
	var plans []plan
	for i := 0; i < nns; i++ {
		name := gen.Pick(t, nsPool, "ns")
		if g.odd("oddns") {
			name = gen.Pick(t, []string{"String", "Action", "__cedar", "NS::__cedar", "if"}, "oddnsn")
		}
		dup := false
		for _, x := range s.NS {
			if x.Name == name {
				dup = true
			}
		}
		if dup {
			continue
		}
		var p plan
		epool, cpool := entPools[name], commonPools[name]
		if epool == nil {
			epool, cpool = entPools["N2"], commonPools["N2"]
		}
		taken := map[string]bool{}
		minEnt := 0
		if i == 0 {
			minEnt = 1
		}
		ne := rapid.IntRange(minEnt, 3).Draw(t, "nent")
		for j := 0; j < ne; j++ {
			n := gen.Pick(t, epool, "ename")
			if Rare(t, 8, "foreignname") {
				n = gen.Pick(t, entPools[gen.Pick(t, []string{"", "NS", "A::B"}, "fpool")], "fename")
			}
			if g.odd("setent") {
				n = "Set"
			}
			if taken[n] {
				continue
			}
			taken[n] = true
			if gen.Chance(t, 25, "isenum") {
				p.enums = append(p.enums, n)
			} else {
				p.ents = append(p.ents, n)
			}
			g.entities = append(g.entities, Qualify(name, n))
		}
		nc := rapid.IntRange(0, 2).Draw(t, "ncommon")
		ctaken := map[string]bool{}
		for j := 0; j < nc; j++ {
			n := gen.Pick(t, cpool, "cname")
			if g.odd("oddcommon") {
				n = gen.Pick(t, oddCommon, "oddcn")
			}
			if ctaken[n] {
				continue
			}
			ctaken[n] = true
			p.commons = append(p.commons, n)
			g.commons = append(g.commons, Qualify(name, n))
		}
		na := rapid.IntRange(0, 3).Draw(t, "nact")
		ataken := map[string]bool{}
		for j := 0; j < na; j++ {
			n := gen.Pick(t, actionPool, "aname")
			if Rare(t, 4, "uniact") {
				n = gen.UnicodeString(t, 0, 4)
			}
			if ataken[n] {
				continue
			}
			ataken[n] = true
			p.actions = append(p.actions, n)
			g.actions[name] = append(g.actions[name], n)
		}
		ns := NS{Name: name}
		if name != "" {
			ns.Ann = g.anns()
		}
		s.NS = append(s.NS, ns)
		plans = append(plans, p)
	}
	// 2. bodies: common types of all namespaces first, so that contexts can aim at record-bodied ones
	var recordCommons []string
	for i := range s.NS {
		ns := &s.NS[i]
		for _, n := range plans[i].commons {
			var body Type
			if gen.Chance(t, 40, "commonrec") {
				body = Rec(g.attrs(ns.Name, 1, 3)...)
				recordCommons = append(recordCommons, Qualify(ns.Name, n))
			} else {
				body = g.typ(ns.Name, 2)
			}
			ns.Commons = append(ns.Commons, Common{Name: n, Ann: g.anns(), T: body})
		}
	}
	for i := range s.NS {
		ns := &s.NS[i]
		p := plans[i]
		for _, n := range p.ents {
			e := Entity{Name: n, Ann: g.anns()}
			np := rapid.IntRange(0, 2).Draw(t, "nparents")
			for j := 0; j < np; j++ {
				e.Parents = append(e.Parents, g.entityRef(ns.Name))
			}
			if gen.Chance(t, 75, "hasshape") {
				e.HasShape = true
				e.Shape = g.attrs(ns.Name, 2, 4)
			}
			if gen.Chance(t, 30, "hastags") {
				tt := g.typ(ns.Name, 1)
				e.Tags = &tt
			}
			ns.Entities = append(ns.Entities, e)
		}
		for _, n := range p.enums {
			e := Enum{Name: n, Ann: g.anns(), Values: []string{}}
			nv := rapid.IntRange(1, 3).Draw(t, "nvals")
			if Rare(t, 6, "emptyenum") {
				nv = 0
			}
			for j := 0; j < nv; j++ {
				v := gen.Pick(t, enumVals, "enumv")
				dup := false
				for _, x := range e.Values {
					if x == v {
						dup = true
					}
				}
				if !dup {
					e.Values = append(e.Values, v)
				}
			}
			ns.Enums = append(ns.Enums, e)
		}
		for ai, n := range p.actions {
			a := Action{Name: n, Ann: g.anns()}
			// parents: earlier actions of the same namespace (acyclic), unqualified or qualified; rarely anything
			if ai > 0 && gen.Chance(t, 50, "hasparents") {
				np := rapid.IntRange(1, 2).Draw(t, "naparents")
				for j := 0; j < np; j++ {
					id := p.actions[rapid.IntRange(0, ai-1).Draw(t, "apidx")]
					dup := false
					for _, x := range a.Parents {
						if x.ID == id {
							dup = true
						}
					}
					if dup {
						continue
					}
					if gen.Chance(t, 40, "qualparent") {
						a.Parents = append(a.Parents, PRef{Type: Qualify(ns.Name, "Action"), ID: id})
					} else {
						a.Parents = append(a.Parents, PRef{ID: id})
					}
				}
			}
			if gen.Chance(t, 15, "crossparent") {
				// parent in another namespace (qualified), defined or not
				other := gen.Pick(t, s.NS, "otherns").Name
				if ids := g.actions[other]; len(ids) > 0 && other != ns.Name {
					a.Parents = append(a.Parents, PRef{Type: Qualify(other, "Action"), ID: gen.Pick(t, ids, "otherid")})
				}
			}
			if g.odd("oddparent") {
				a.Parents = append(a.Parents, gen.Pick(t, []PRef{{ID: n}, {ID: "nope"}, {Type: "Nope::Action", ID: "x"}, {Type: "A", ID: "x"}}, "oddp"))
			}
			if gen.Chance(t, 75, "applies") {
				ap := &Applies{Principals: []string{}, Resources: []string{}}
				for j, k := 0, rapid.IntRange(1, 2).Draw(t, "nprinc"); j < k; j++ {
					ap.Principals = append(ap.Principals, g.entityRef(ns.Name))
				}
				for j, k := 0, rapid.IntRange(1, 2).Draw(t, "nres"); j < k; j++ {
					ap.Resources = append(ap.Resources, g.entityRef(ns.Name))
				}
				if g.odd("emptyapplies") {
					if gen.Chance(t, 50, "whichempty") {
						ap.Principals = []string{}
					} else {
						ap.Resources = []string{}
					}
				}
				switch rapid.IntRange(0, 3).Draw(t, "ctxkind") {
				case 0:
				case 1, 2:
					c := Rec(g.attrs(ns.Name, 2, 3)...)
					ap.Context = &c
				default:
					var c Type
					switch {
					case len(g.commons) > 0 && g.odd("ctxanycommon"):
						c = Ref(g.refTo(ns.Name, gen.Pick(t, g.commons, "ctxcommon")))
					case len(recordCommons) > 0:
						c = Ref(g.refTo(ns.Name, gen.Pick(t, recordCommons, "ctxreccommon")))
					default:
						c = Rec()
					}
					ap.Context = &c
				}
				a.Applies = ap
			}
			ns.Actions = append(ns.Actions, a)
		}
	}
	return s
}

// Features summarises what makes a schema interesting for the codec property.
type Features struct {
	Quoting    bool // some action / attribute / enum value needs quoting in the text format
	Ambiguous  bool // some reference name is declared more than once (common vs entity, namespace vs empty namespace, builtin-like)
	Namespaces int
	EmptyEnum  bool
	Annotated  bool
}

func FeaturesOf(s *Schema) Features {
	var f Features
	f.Namespaces = len(s.NS)
	d := DeclsOf(s)
	base := func(q string) string {
		if i := strings.LastIndex(q, "::"); i >= 0 {
			return q[i+2:]
		}
		return q
	}
	count := map[string]int{}
	for q := range d.Entity {
		count[base(q)]++
	}
	for q := range d.Common {
		count[base(q)]++
	}
	for b := range Builtins {
		if count[b] > 0 {
			count[b]++
		}
	}
	checkRef := func(n string) {
		if count[base(n)] > 1 {
			f.Ambiguous = true
		}
	}
	var walk func(t Type)
	walk = func(t Type) {
		switch t.K {
		case TSet:
			walk(*t.Elem)
		case TRecord:
			for _, a := range t.Attrs {
				if !IsIdent(a.Name) {
					f.Quoting = true
				}
				if len(a.Ann) > 0 {
					f.Annotated = true
				}
				walk(a.T)
			}
		case TEntity, TRef:
			checkRef(t.Name)
		case TString:
			checkRef("String")
		case TLong:
			checkRef("Long")
		case TBool:
			checkRef("Bool")
		case TExt:
			checkRef(t.Name)
		}
	}
	for _, ns := range s.NS {
		if len(ns.Ann) > 0 {
			f.Annotated = true
		}
		for _, c := range ns.Commons {
			walk(c.T)
		}
		for _, e := range ns.Entities {
			walk(Rec(e.Shape...))
			if e.Tags != nil {
				walk(*e.Tags)
			}
			for _, p := range e.Parents {
				checkRef(p)
			}
			if len(e.Ann) > 0 {
				f.Annotated = true
			}
		}
		for _, e := range ns.Enums {
			if len(e.Values) == 0 {
				f.EmptyEnum = true
			}
			for _, v := range e.Values {
				if !IsIdent(v) {
					f.Quoting = true
				}
			}
		}
		for _, a := range ns.Actions {
			if !IsIdent(a.Name) {
				f.Quoting = true
			}
			if len(a.Ann) > 0 {
				f.Annotated = true
			}
			if a.Applies != nil {
				for _, p := range append(append([]string{}, a.Applies.Principals...), a.Applies.Resources...) {
					checkRef(p)
				}
				if a.Applies.Context != nil {
					walk(*a.Applies.Context)
				}
			}
		}
	}
	return f
}
