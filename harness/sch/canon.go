package sch

import (
	"encoding/json"
	"fmt"
	"sort"

	"github.com/cedar-policy/cedar-go/x/exp/schema/resolved"
)

// Canonical, order-free form of cedar-go's resolved schema, for structural comparison (C17) and for the
// comparison with the reference model (C15). Parent / principal / resource lists and enum value lists are
// compared as multisets; a nil and an empty shape, and nil and empty annotations, are the same.

type CType struct {
	K     string           `json:"k"`
	Name  string           `json:"name,omitempty"`
	Elem  *CType           `json:"elem,omitempty"`
	Attrs map[string]CAttr `json:"attrs,omitempty"`
}

type CAttr struct {
	T   CType             `json:"t"`
	Opt bool              `json:"opt,omitempty"`
	Ann map[string]string `json:"ann,omitempty"`
}

type CEntity struct {
	Ann     map[string]string `json:"ann,omitempty"`
	Parents []string          `json:"parents,omitempty"`
	Shape   map[string]CAttr  `json:"shape,omitempty"`
	Tags    *CType            `json:"tags,omitempty"`
}

type CEnum struct {
	Ann    map[string]string `json:"ann,omitempty"`
	Values []string          `json:"values,omitempty"`
}

type CAction struct {
	UID        string            `json:"uid"`
	Ann        map[string]string `json:"ann,omitempty"`
	Parents    []string          `json:"parents,omitempty"`
	Applies    bool              `json:"applies"`
	Principals []string          `json:"principals,omitempty"`
	Resources  []string          `json:"resources,omitempty"`
	Context    map[string]CAttr  `json:"context,omitempty"`
}

type CSchema struct {
	Namespaces map[string]map[string]string `json:"namespaces,omitempty"`
	Entities   map[string]CEntity           `json:"entities,omitempty"`
	Enums      map[string]CEnum             `json:"enums,omitempty"`
	Actions    map[string]CAction           `json:"actions,omitempty"`
}

func cAnn(a resolved.Annotations) map[string]string {
	if len(a) == 0 {
		return nil
	}
	out := map[string]string{}
	for k, v := range a {
		out[string(k)] = string(v)
	}
	return out
}

func cType(t resolved.IsType) CType {
	switch x := t.(type) {
	case resolved.StringType:
		return CType{K: "string"}
	case resolved.LongType:
		return CType{K: "long"}
	case resolved.BoolType:
		return CType{K: "bool"}
	case resolved.ExtensionType:
		return CType{K: "ext", Name: string(x)}
	case resolved.SetType:
		e := cType(x.Element)
		return CType{K: "set", Elem: &e}
	case resolved.RecordType:
		return CType{K: "record", Attrs: cRecord(x)}
	case resolved.EntityType:
		return CType{K: "entity", Name: string(x)}
	case nil:
		return CType{K: "nil"}
	}
	return CType{K: fmt.Sprintf("?%T", t)}
}

func cRecord(r resolved.RecordType) map[string]CAttr {
	if len(r) == 0 {
		return nil
	}
	out := map[string]CAttr{}
	for k, a := range r {
		out[string(k)] = CAttr{T: cType(a.Type), Opt: a.Optional, Ann: cAnn(a.Annotations)}
	}
	return out
}

func sorted(xs []string) []string {
	if len(xs) == 0 {
		return nil
	}
	out := append([]string(nil), xs...)
	sort.Strings(out)
	return out
}

// Canon converts a resolved schema into its canonical form.
func Canon(r *resolved.Schema) *CSchema {
	out := &CSchema{Namespaces: map[string]map[string]string{}, Entities: map[string]CEntity{}, Enums: map[string]CEnum{}, Actions: map[string]CAction{}}
	for k, ns := range r.Namespaces {
		a := cAnn(ns.Annotations)
		if a == nil {
			a = map[string]string{}
		}
		if string(ns.Name) != string(k) {
			a["\x00name"] = string(ns.Name)
		}
		out.Namespaces[string(k)] = a
	}
	for k, e := range r.Entities {
		ce := CEntity{Ann: cAnn(e.Annotations), Shape: cRecord(e.Shape)}
		for _, p := range e.ParentTypes {
			ce.Parents = append(ce.Parents, string(p))
		}
		ce.Parents = sorted(ce.Parents)
		if e.Tags != nil {
			t := cType(e.Tags)
			ce.Tags = &t
		}
		if string(e.Name) != string(k) {
			ce.Ann = map[string]string{"\x00name": string(e.Name)}
		}
		out.Entities[string(k)] = ce
	}
	for k, e := range r.Enums {
		ce := CEnum{Ann: cAnn(e.Annotations)}
		for _, v := range e.Values {
			ce.Values = append(ce.Values, v.String())
		}
		ce.Values = sorted(ce.Values)
		if string(e.Name) != string(k) {
			ce.Ann = map[string]string{"\x00name": string(e.Name)}
		}
		out.Enums[string(k)] = ce
	}
	for k, a := range r.Actions {
		ca := CAction{UID: a.Entity.UID.String(), Ann: cAnn(a.Annotations)}
		for p := range a.Entity.Parents.All() {
			ca.Parents = append(ca.Parents, p.String())
		}
		ca.Parents = sorted(ca.Parents)
		if a.AppliesTo != nil {
			ca.Applies = true
			for _, p := range a.AppliesTo.Principals {
				ca.Principals = append(ca.Principals, string(p))
			}
			for _, p := range a.AppliesTo.Resources {
				ca.Resources = append(ca.Resources, string(p))
			}
			ca.Principals, ca.Resources = sorted(ca.Principals), sorted(ca.Resources)
			ca.Context = cRecord(a.AppliesTo.Context)
		}
		out.Actions[k.String()] = ca
	}
	return out
}

// CanonString is the comparison key (JSON with sorted map keys).
func CanonString(r *resolved.Schema) string {
	b, err := json.Marshal(Canon(r))
	if err != nil {
		return "canon error: " + err.Error()
	}
	return string(b)
}
