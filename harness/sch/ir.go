// Package sch is the harness-owned data model for Cedar schemas (used by C15, C16, C17): a schema IR that
// mirrors the Cedar schema grammar, its conversion to cedar-go's schema AST (constructors only), own
// renderers to Cedar schema text and to the JSON schema format (written from the format descriptions,
// independent of cedar-go's marshallers), a canonical form of cedar-go's resolved schema for structural
// comparison, a resolved reference model (RSchema) with conforming-data construction, and generators.
package sch

import (
	"sort"
	"strings"

	"github.com/cedar-policy/cedar-go/types"
	sast "github.com/cedar-policy/cedar-go/x/exp/schema/ast"
)

// Ann is one annotation. Bare (only meaningful with V == "") asks the text renderer to write `@k` instead of `@k("")`;
// both denote the empty value.
type Ann struct {
	K    string `json:"k"`
	V    string `json:"v,omitempty"`
	Bare bool   `json:"bare,omitempty"`
}

// Type kinds.
const (
	TString = "string"
	TLong   = "long"
	TBool   = "bool"
	TExt    = "ext"    // Name = extension type name (ipaddr, decimal, datetime, duration, or unknown)
	TSet    = "set"    // Elem
	TRecord = "record" // Attrs
	TEntity = "entity" // Name = entity type reference (explicit entity reference; JSON {"type":"Entity"})
	TRef    = "ref"    // Name = path, common type or entity type or builtin, resolved by the disambiguation rules
)

type Type struct {
	K     string `json:"k"`
	Name  string `json:"name,omitempty"`
	Elem  *Type  `json:"elem,omitempty"`
	Attrs []Attr `json:"attrs,omitempty"`
}

type Attr struct {
	Name string `json:"name"`
	T    Type   `json:"t"`
	Opt  bool   `json:"opt,omitempty"`
	Ann  []Ann  `json:"ann,omitempty"`
}

type Common struct {
	Name string `json:"name"`
	Ann  []Ann  `json:"ann,omitempty"`
	T    Type   `json:"t"`
}

type Entity struct {
	Name     string   `json:"name"`
	Ann      []Ann    `json:"ann,omitempty"`
	Parents  []string `json:"parents,omitempty"`
	HasShape bool     `json:"hasShape,omitempty"` // false: no shape at all (nil), true: Shape (possibly empty)
	Shape    []Attr   `json:"shape,omitempty"`
	Tags     *Type    `json:"tags,omitempty"`
}

type Enum struct {
	Name   string   `json:"name"`
	Ann    []Ann    `json:"ann,omitempty"`
	Values []string `json:"values"`
}

// PRef is an action parent reference; Type == "" means "an action of the same namespace".
type PRef struct {
	Type string `json:"type,omitempty"`
	ID   string `json:"id"`
}

type Applies struct {
	Principals []string `json:"principals"`
	Resources  []string `json:"resources"`
	Context    *Type    `json:"context,omitempty"`
}

type Action struct {
	Name    string   `json:"name"`
	Ann     []Ann    `json:"ann,omitempty"`
	Parents []PRef   `json:"parents,omitempty"`
	Applies *Applies `json:"applies,omitempty"`
}

// NS is one namespace; Name == "" is the empty namespace (bare declarations; annotations not possible).
type NS struct {
	Name     string   `json:"name"`
	Ann      []Ann    `json:"ann,omitempty"`
	Commons  []Common `json:"commons,omitempty"`
	Entities []Entity `json:"entities,omitempty"`
	Enums    []Enum   `json:"enums,omitempty"`
	Actions  []Action `json:"actions,omitempty"`
}

type Schema struct {
	NS []NS `json:"ns"`
}

func Str() Type                  { return Type{K: TString} }
func Lng() Type                  { return Type{K: TLong} }
func Boo() Type                  { return Type{K: TBool} }
func Ext(n string) Type          { return Type{K: TExt, Name: n} }
func SetOf(e Type) Type          { return Type{K: TSet, Elem: &e} }
func Rec(as ...Attr) Type        { return Type{K: TRecord, Attrs: as} }
func EntRef(n string) Type       { return Type{K: TEntity, Name: n} }
func Ref(n string) Type          { return Type{K: TRef, Name: n} }
func A(n string, t Type) Attr    { return Attr{Name: n, T: t} }
func AOpt(n string, t Type) Attr { return Attr{Name: n, T: t, Opt: true} }

// ---------------------------------------------------------------------------------------------
// IR -> cedar-go schema AST

func toAnn(as []Ann) sast.Annotations {
	if len(as) == 0 {
		return nil
	}
	out := sast.Annotations{}
	for _, a := range as {
		out[types.Ident(a.K)] = types.String(a.V)
	}
	return out
}

func ToASTType(t Type) sast.IsType {
	switch t.K {
	case TString:
		return sast.String()
	case TLong:
		return sast.Long()
	case TBool:
		return sast.Bool()
	case TExt:
		return sast.ExtensionType(types.Ident(t.Name))
	case TSet:
		return sast.Set(ToASTType(*t.Elem))
	case TRecord:
		return toRecord(t.Attrs)
	case TEntity:
		return sast.EntityType(types.EntityType(t.Name))
	case TRef:
		return sast.Type(types.Path(t.Name))
	}
	panic("sch.ToASTType: bad kind " + t.K)
}

func toRecord(as []Attr) sast.RecordType {
	out := sast.RecordType{}
	for _, a := range as {
		out[types.String(a.Name)] = sast.Attribute{Type: ToASTType(a.T), Optional: a.Opt, Annotations: toAnn(a.Ann)}
	}
	return out
}

// ToAST builds the cedar-go schema AST. Duplicate names inside one namespace overwrite each other
// (generators do not create them).
func ToAST(s *Schema) *sast.Schema {
	out := &sast.Schema{}
	for _, ns := range s.NS {
		n := sast.Namespace{Annotations: toAnn(ns.Ann)}
		for _, c := range ns.Commons {
			if n.CommonTypes == nil {
				n.CommonTypes = sast.CommonTypes{}
			}
			n.CommonTypes[types.Ident(c.Name)] = sast.CommonType{Annotations: toAnn(c.Ann), Type: ToASTType(c.T)}
		}
		for _, e := range ns.Entities {
			if n.Entities == nil {
				n.Entities = sast.Entities{}
			}
			ent := sast.Entity{Annotations: toAnn(e.Ann)}
			for _, p := range e.Parents {
				ent.ParentTypes = append(ent.ParentTypes, sast.EntityType(types.EntityType(p)))
			}
			if e.HasShape {
				ent.Shape = toRecord(e.Shape)
			}
			if e.Tags != nil {
				ent.Tags = ToASTType(*e.Tags)
			}
			n.Entities[types.Ident(e.Name)] = ent
		}
		for _, e := range ns.Enums {
			if n.Enums == nil {
				n.Enums = sast.Enums{}
			}
			en := sast.Enum{Annotations: toAnn(e.Ann)}
			for _, v := range e.Values {
				en.Values = append(en.Values, types.String(v))
			}
			n.Enums[types.Ident(e.Name)] = en
		}
		for _, a := range ns.Actions {
			if n.Actions == nil {
				n.Actions = sast.Actions{}
			}
			act := sast.Action{Annotations: toAnn(a.Ann)}
			for _, p := range a.Parents {
				if p.Type == "" {
					act.Parents = append(act.Parents, sast.ParentRefFromID(types.String(p.ID)))
				} else {
					act.Parents = append(act.Parents, sast.NewParentRef(sast.EntityType(types.EntityType(p.Type)), types.String(p.ID)))
				}
			}
			if a.Applies != nil {
				at := &sast.AppliesTo{}
				for _, p := range a.Applies.Principals {
					at.Principals = append(at.Principals, sast.EntityType(types.EntityType(p)))
				}
				for _, r := range a.Applies.Resources {
					at.Resources = append(at.Resources, sast.EntityType(types.EntityType(r)))
				}
				if a.Applies.Context != nil {
					at.Context = ToASTType(*a.Applies.Context)
				}
				act.AppliesTo = at
			}
			n.Actions[types.String(a.Name)] = act
		}
		if ns.Name == "" {
			out.Entities, out.Enums, out.Actions, out.CommonTypes = n.Entities, n.Enums, n.Actions, n.CommonTypes
		} else {
			if out.Namespaces == nil {
				out.Namespaces = sast.Namespaces{}
			}
			out.Namespaces[types.Path(ns.Name)] = n
		}
	}
	return out
}

// ---------------------------------------------------------------------------------------------
// Name scopes (own transcription of the Cedar disambiguation rules; used to decide what the text format can
// express and by the C15 de-resolver)

type Decls struct {
	Entity map[string]bool // qualified entity / enum type names
	Common map[string]bool // qualified common type names
}

func Qualify(ns, name string) string {
	if ns == "" {
		return name
	}
	return ns + "::" + name
}

func DeclsOf(s *Schema) Decls {
	d := Decls{Entity: map[string]bool{}, Common: map[string]bool{}}
	for _, ns := range s.NS {
		for _, e := range ns.Entities {
			d.Entity[Qualify(ns.Name, e.Name)] = true
		}
		for _, e := range ns.Enums {
			d.Entity[Qualify(ns.Name, e.Name)] = true
		}
		for _, c := range ns.Commons {
			d.Common[Qualify(ns.Name, c.Name)] = true
		}
	}
	return d
}

var Builtins = map[string]bool{"String": true, "Long": true, "Bool": true, "Boolean": true, "ipaddr": true, "decimal": true, "datetime": true, "duration": true}

// LookupRef resolves a type reference written inside namespace ns: kind is "common", "entity", "builtin" or "" (undefined).
func (d Decls) LookupRef(ns, name string) (kind, qualified string) {
	if strings.Contains(name, "::") {
		if strings.HasPrefix(name, "__cedar::") {
			b := strings.TrimPrefix(name, "__cedar::")
			if Builtins[b] {
				return "builtin", b
			}
			return "", ""
		}
		if d.Common[name] {
			return "common", name
		}
		if d.Entity[name] {
			return "entity", name
		}
		return "", ""
	}
	if ns != "" {
		q := ns + "::" + name
		if d.Common[q] {
			return "common", q
		}
		if d.Entity[q] {
			return "entity", q
		}
	}
	if d.Common[name] {
		return "common", name
	}
	if d.Entity[name] {
		return "entity", name
	}
	if Builtins[name] {
		return "builtin", name
	}
	return "", ""
}

// LookupEntity resolves an explicit entity type reference written inside namespace ns ("" = undefined).
func (d Decls) LookupEntity(ns, name string) string {
	if strings.Contains(name, "::") {
		if d.Entity[name] {
			return name
		}
		return ""
	}
	if ns != "" && d.Entity[ns+"::"+name] {
		return ns + "::" + name
	}
	if d.Entity[name] {
		return name
	}
	return ""
}

func sortedKeys[M ~map[string]V, V any](m M) []string {
	ks := make([]string, 0, len(m))
	for k := range m {
		ks = append(ks, k)
	}
	sort.Strings(ks)
	return ks
}
