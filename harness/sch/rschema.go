package sch

import (
	"fmt"
	"sort"
	"strings"

	"pgregory.net/rapid"

	"verif/gen"
	"verif/ir"
)

// RSchema is the harness's own *resolved* schema model (independent of cedar-go's resolved.Schema): fully qualified
// names, no common types, no references left. C15 generates an RSchema first, derives a schema IR from it
// (Deresolve: namespaces, unqualified names, common types), and cross-checks cedar-go's resolution against it.

type RType struct {
	K     ir.Kind `json:"k"`             // bool long string entity set record decimal ip datetime duration
	Ent   string  `json:"ent,omitempty"` // entity type (qualified)
	Elem  *RType  `json:"elem,omitempty"`
	Attrs []RAttr `json:"attrs,omitempty"`
}

type RAttr struct {
	Name string `json:"name"`
	T    RType  `json:"t"`
	Opt  bool   `json:"opt,omitempty"`
}

type REntity struct {
	Name    string   `json:"name"` // qualified
	Parents []string `json:"parents,omitempty"`
	Attrs   []RAttr  `json:"attrs,omitempty"`
	Tags    *RType   `json:"tags,omitempty"`
	IsEnum  bool     `json:"isEnum,omitempty"`
	Enum    []string `json:"enum,omitempty"`
}

type RAction struct {
	Type       string     `json:"type"` // "Action" or "NS::Action"
	ID         string     `json:"id"`
	Parents    []ir.Value `json:"parents,omitempty"` // direct parents (entity uids)
	Applies    bool       `json:"applies,omitempty"`
	Principals []string   `json:"principals,omitempty"`
	Resources  []string   `json:"resources,omitempty"`
	Context    []RAttr    `json:"context,omitempty"`
}

func (a RAction) UID() ir.Value { return ir.Ent(a.Type, a.ID) }

type RSchema struct {
	Entities []REntity `json:"entities"`
	Actions  []RAction `json:"actions"`
}

// REnv is one request environment.
type REnv struct {
	P, R   string
	Action ir.Value
	Ctx    []RAttr
}

func (rs *RSchema) Entity(name string) *REntity {
	for i := range rs.Entities {
		if rs.Entities[i].Name == name {
			return &rs.Entities[i]
		}
	}
	return nil
}

func (rs *RSchema) Action(uid ir.Value) *RAction {
	for i := range rs.Actions {
		if rs.Actions[i].Type == uid.T && rs.Actions[i].ID == uid.S {
			return &rs.Actions[i]
		}
	}
	return nil
}

// Envs lists every (principal type, action, resource type) environment of the schema.
func (rs *RSchema) Envs() []REnv {
	var out []REnv
	for _, a := range rs.Actions {
		if !a.Applies {
			continue
		}
		for _, p := range a.Principals {
			for _, r := range a.Resources {
				out = append(out, REnv{P: p, R: r, Action: a.UID(), Ctx: a.Context})
			}
		}
	}
	return out
}

// ActionAncestors returns the transitive closure of the parents of an action (without the action itself unless cyclic).
func (rs *RSchema) ActionAncestors(uid ir.Value) []ir.Value {
	var out []ir.Value
	seen := map[string]bool{}
	var walk func(u ir.Value)
	walk = func(u ir.Value) {
		a := rs.Action(u)
		if a == nil {
			return
		}
		for _, p := range a.Parents {
			k := p.T + "\x00" + p.S
			if seen[k] {
				continue
			}
			seen[k] = true
			out = append(out, p)
			walk(p)
		}
	}
	walk(uid)
	return out
}

func REqual(a, b RType) bool {
	if a.K != b.K || a.Ent != b.Ent || len(a.Attrs) != len(b.Attrs) {
		return false
	}
	if a.K == ir.KSet {
		return REqual(*a.Elem, *b.Elem)
	}
	for _, x := range a.Attrs {
		found := false
		for _, y := range b.Attrs {
			if x.Name == y.Name {
				found = x.Opt == y.Opt && REqual(x.T, y.T)
			}
		}
		if !found {
			return false
		}
	}
	return true
}

func (t RType) String() string {
	switch t.K {
	case ir.KEntity:
		return t.Ent
	case ir.KSet:
		return "Set<" + t.Elem.String() + ">"
	case ir.KRecord:
		var p []string
		for _, a := range t.Attrs {
			o := ""
			if a.Opt {
				o = "?"
			}
			p = append(p, fmt.Sprintf("%q%s: %s", a.Name, o, a.T.String()))
		}
		return "{" + strings.Join(p, ", ") + "}"
	}
	return string(t.K)
}

// ---------------------------------------------------------------------------------------------
// Generator

var (
	// attribute keys: identifiers, a keyword, a non-identifier, and two look-alikes of the validator's internal
	// capability keys ("__tag:k" collides with the tag key "k", "a.b" with the path a -> b)
	RAttrKeys = []string{"a", "b", "k", "n", "if", "x y", "a.b", "__tag:k"}
	RTagKeys  = []string{"k", "a", "b"}
	RIDs      = []string{"x", "y"}
)

type rgen struct {
	t     *rapid.T
	names []string // entity type names
}

func (g *rgen) scalar() RType {
	return RType{K: gen.Pick(g.t, []ir.Kind{ir.KLong, ir.KLong, ir.KString, ir.KString, ir.KBool, ir.KEntity, ir.KEntity, ir.KDecimal, ir.KIP, ir.KDatetime, ir.KDuration}, "scalar")}
}

func (g *rgen) typ(depth int) RType {
	t := g.t
	k := rapid.IntRange(0, 9).Draw(t, "rtk")
	if depth <= 0 && k >= 7 {
		k = k - 7
	}
	switch {
	case k <= 6:
		ty := g.scalar()
		if ty.K == ir.KEntity {
			ty.Ent = gen.Pick(t, g.names, "rent")
		}
		return ty
	case k == 7 || k == 8:
		e := g.typ(depth - 1)
		return RType{K: ir.KSet, Elem: &e}
	default:
		return RType{K: ir.KRecord, Attrs: g.attrs(depth-1, 3)}
	}
}

func (g *rgen) attrs(depth, maxN int) []RAttr {
	t := g.t
	n := rapid.IntRange(0, maxN).Draw(t, "rnattr")
	var out []RAttr
	for i := 0; i < n; i++ {
		name := gen.Pick(t, RAttrKeys, "rattr")
		dup := false
		for _, a := range out {
			if a.Name == name {
				dup = true
			}
		}
		if dup {
			continue
		}
		out = append(out, RAttr{Name: name, T: g.typ(depth), Opt: gen.Chance(t, 40, "ropt")})
	}
	return out
}

// GenRSchema draws a resolved schema: 2-4 entity types in up to two namespaces with parent types (self loops and
// cycles allowed), attributes of every type, tags, at most one enum type, 1-4 actions with groups and contexts.
func GenRSchema(t *rapid.T) *RSchema {
	g := &rgen{t: t}
	rs := &RSchema{}
	otherNS := gen.Pick(t, []string{"", "NS", "NS", "A::B"}, "rns")
	base := []string{"A", "B", "C", "D"}
	n := rapid.IntRange(2, 4).Draw(t, "rnent")
	for i := 0; i < n; i++ {
		ns := ""
		if otherNS != "" && gen.Chance(t, 45, "rinns") {
			ns = otherNS
		}
		g.names = append(g.names, Qualify(ns, base[i]))
	}
	enumIdx := -1
	if gen.Chance(t, 25, "rhasenum") {
		enumIdx = rapid.IntRange(0, n-1).Draw(t, "renumidx")
	}
	for i, name := range g.names {
		e := REntity{Name: name}
		if i == enumIdx {
			e.IsEnum = true
			e.Enum = RIDs[:rapid.IntRange(1, 2).Draw(t, "rnenum")]
			rs.Entities = append(rs.Entities, e)
			continue
		}
		np := rapid.IntRange(0, 2).Draw(t, "rnpar")
		for j := 0; j < np; j++ {
			p := gen.Pick(t, g.names, "rpar")
			dup := false
			for _, q := range e.Parents {
				if q == p {
					dup = true
				}
			}
			if !dup {
				e.Parents = append(e.Parents, p)
			}
		}
		e.Attrs = g.attrs(2, 4)
		if gen.Chance(t, 45, "rhastags") {
			tt := g.typ(1)
			e.Tags = &tt
		}
		// look-alike seeds: an attribute "a.b" next to a: {b: ...}; an attribute "__tag:k" on a type with tags
		if Rare(t, 18, "rseed") {
			inner := RType{K: ir.KRecord, Attrs: []RAttr{{Name: "n", T: RType{K: ir.KLong}, Opt: true}}}
			e.Attrs = setAttr(e.Attrs, RAttr{Name: "a", T: RType{K: ir.KRecord, Attrs: []RAttr{{Name: "b", T: inner, Opt: gen.Chance(t, 30, "rseedopt")}}}})
			e.Attrs = setAttr(e.Attrs, RAttr{Name: "a.b", T: RType{K: ir.KRecord, Attrs: []RAttr{{Name: "n", T: RType{K: ir.KLong}, Opt: gen.Chance(t, 50, "rseedopt2")}}}})
		}
		if e.Tags != nil && Rare(t, 22, "rseedtag") {
			e.Attrs = setAttr(e.Attrs, RAttr{Name: "__tag:k", T: *e.Tags, Opt: true})
		}
		rs.Entities = append(rs.Entities, e)
	}
	// actions
	na := rapid.IntRange(1, 4).Draw(t, "rnact")
	ids := []string{"view", "edit", "grp", "all"}
	var nonEnum []string
	for _, e := range rs.Entities {
		nonEnum = append(nonEnum, e.Name)
	}
	for i := 0; i < na; i++ {
		ns := ""
		if otherNS != "" && gen.Chance(t, 40, "ractns") {
			ns = otherNS
		}
		a := RAction{Type: Qualify(ns, "Action"), ID: ids[i]}
		if i > 0 && gen.Chance(t, 50, "ractpar") {
			np := rapid.IntRange(1, 2).Draw(t, "rnactpar")
			for j := 0; j < np; j++ {
				p := rs.Actions[rapid.IntRange(0, i-1).Draw(t, "ractparidx")].UID()
				dup := false
				for _, q := range a.Parents {
					if ir.Equal(p, q) {
						dup = true
					}
				}
				if !dup {
					a.Parents = append(a.Parents, p)
				}
			}
		}
		if i == 0 || gen.Chance(t, 85, "rapplies") {
			a.Applies = true
			for j, k := 0, rapid.IntRange(1, 2).Draw(t, "rnp"); j < k; j++ {
				a.Principals = addUnique(a.Principals, gen.Pick(t, nonEnum, "rp"))
			}
			for j, k := 0, rapid.IntRange(1, 2).Draw(t, "rnr"); j < k; j++ {
				a.Resources = addUnique(a.Resources, gen.Pick(t, nonEnum, "rr"))
			}
			a.Context = g.attrs(2, 3)
		}
		rs.Actions = append(rs.Actions, a)
	}
	return rs
}

func addUnique(xs []string, x string) []string {
	for _, y := range xs {
		if y == x {
			return xs
		}
	}
	return append(xs, x)
}

func setAttr(as []RAttr, a RAttr) []RAttr {
	for i := range as {
		if as[i].Name == a.Name {
			as[i] = a
			return as
		}
	}
	return append(as, a)
}

// ---------------------------------------------------------------------------------------------
// RSchema -> schema IR

func nsOf(q string) (ns, base string) {
	if i := strings.LastIndex(q, "::"); i >= 0 {
		return q[:i], q[i+2:]
	}
	return "", q
}

type deres struct {
	t       *rapid.T
	out     map[string]*NS
	order   []string
	nCommon int
}

func (d *deres) ns(name string) *NS {
	if n, ok := d.out[name]; ok {
		return n
	}
	n := &NS{Name: name}
	d.out[name] = n
	d.order = append(d.order, name)
	return n
}

// entName writes a reference to entity type q from inside namespace ns. Basenames are unique across namespaces, so the
// unqualified form is unambiguous inside q's own namespace, and for types of the empty namespace everywhere.
func (d *deres) entName(ns, q string) string {
	qn, b := nsOf(q)
	if qn == "" {
		return b
	}
	if qn == ns && gen.Chance(d.t, 70, "dunqual") {
		return b
	}
	return q
}

func (d *deres) typ(ns string, t RType, depth int) Type {
	var out Type
	switch t.K {
	case ir.KLong:
		out = Lng()
		if Rare(d.t, 10, "dref") {
			out = Ref(gen.Pick(d.t, []string{"Long", "__cedar::Long"}, "dlong"))
		}
	case ir.KString:
		out = Str()
		if Rare(d.t, 10, "dref") {
			out = Ref(gen.Pick(d.t, []string{"String", "__cedar::String"}, "dstr"))
		}
	case ir.KBool:
		out = Boo()
		if Rare(d.t, 10, "dref") {
			out = Ref(gen.Pick(d.t, []string{"Bool", "Boolean", "__cedar::Bool"}, "dbool"))
		}
	case ir.KDecimal:
		out = Ext("decimal")
	case ir.KIP:
		out = Ext("ipaddr")
		if Rare(d.t, 10, "dref") {
			out = Ref("ipaddr")
		}
	case ir.KDatetime:
		out = Ext("datetime")
	case ir.KDuration:
		out = Ext("duration")
		if Rare(d.t, 10, "dref") {
			out = Ref("__cedar::duration")
		}
	case ir.KEntity:
		if gen.Chance(d.t, 25, "dexplicit") {
			out = EntRef(d.entName(ns, t.Ent))
		} else {
			out = Ref(d.entName(ns, t.Ent))
		}
	case ir.KSet:
		out = SetOf(d.typ(ns, *t.Elem, depth+1))
	case ir.KRecord:
		out = Rec(d.attrs(ns, t.Attrs, depth+1)...)
	}
	// hoist into a common type now and then
	if (t.K == ir.KRecord || t.K == ir.KSet) && d.nCommon < 4 && gen.Chance(d.t, 20, "dhoist") {
		d.nCommon++
		name := fmt.Sprintf("T%d", d.nCommon)
		// the common type lives in the namespace of its user: its body contains names written relative to ns
		home := ns
		h := d.ns(home)
		h.Commons = append(h.Commons, Common{Name: name, T: out})
		if home == ns && gen.Chance(d.t, 60, "dhoistunq") {
			return Ref(name)
		}
		return Ref(Qualify(home, name))
	}
	return out
}

func (d *deres) attrs(ns string, as []RAttr, depth int) []Attr {
	var out []Attr
	for _, a := range as {
		out = append(out, Attr{Name: a.Name, T: d.typ(ns, a.T, depth), Opt: a.Opt})
	}
	return out
}

// Deresolve derives a schema IR whose resolution is rs.
func Deresolve(t *rapid.T, rs *RSchema) *Schema {
	d := &deres{t: t, out: map[string]*NS{}}
	for _, e := range rs.Entities {
		ns, b := nsOf(e.Name)
		n := d.ns(ns)
		if e.IsEnum {
			n.Enums = append(n.Enums, Enum{Name: b, Values: append([]string{}, e.Enum...)})
			continue
		}
		ent := Entity{Name: b}
		for _, p := range e.Parents {
			ent.Parents = append(ent.Parents, d.entName(ns, p))
		}
		if len(e.Attrs) > 0 || gen.Chance(t, 50, "demptyshape") {
			ent.HasShape = true
			ent.Shape = d.attrs(ns, e.Attrs, 0)
		}
		if e.Tags != nil {
			tt := d.typ(ns, *e.Tags, 0)
			ent.Tags = &tt
		}
		n = d.ns(ns) // d.typ may have created namespaces; re-fetch the pointer target
		n.Entities = append(n.Entities, ent)
	}
	for _, a := range rs.Actions {
		ns, _ := nsOf(a.Type)
		act := Action{Name: a.ID}
		for _, p := range a.Parents {
			if p.T == a.Type && gen.Chance(t, 60, "dparunq") {
				act.Parents = append(act.Parents, PRef{ID: p.S})
			} else {
				act.Parents = append(act.Parents, PRef{Type: p.T, ID: p.S})
			}
		}
		if a.Applies {
			ap := &Applies{}
			for _, p := range a.Principals {
				ap.Principals = append(ap.Principals, d.entName(ns, p))
			}
			for _, r := range a.Resources {
				ap.Resources = append(ap.Resources, d.entName(ns, r))
			}
			if len(a.Context) > 0 || gen.Chance(t, 50, "dctx") {
				c := d.typ(ns, RType{K: ir.KRecord, Attrs: a.Context}, 0)
				ap.Context = &c
			}
			act.Applies = ap
		}
		n := d.ns(ns)
		n.Actions = append(n.Actions, act)
	}
	s := &Schema{}
	for _, name := range d.order {
		s.NS = append(s.NS, *d.out[name])
	}
	return s
}

// ---------------------------------------------------------------------------------------------
// Canonical form of the reference model, comparable with Canon(cedar-go's resolved schema)

func cOfR(t RType) CType {
	switch t.K {
	case ir.KLong:
		return CType{K: "long"}
	case ir.KString:
		return CType{K: "string"}
	case ir.KBool:
		return CType{K: "bool"}
	case ir.KDecimal:
		return CType{K: "ext", Name: "decimal"}
	case ir.KIP:
		return CType{K: "ext", Name: "ipaddr"}
	case ir.KDatetime:
		return CType{K: "ext", Name: "datetime"}
	case ir.KDuration:
		return CType{K: "ext", Name: "duration"}
	case ir.KEntity:
		return CType{K: "entity", Name: t.Ent}
	case ir.KSet:
		e := cOfR(*t.Elem)
		return CType{K: "set", Elem: &e}
	}
	return CType{K: "record", Attrs: cAttrsOfR(t.Attrs)}
}

func cAttrsOfR(as []RAttr) map[string]CAttr {
	if len(as) == 0 {
		return nil
	}
	out := map[string]CAttr{}
	for _, a := range as {
		out[a.Name] = CAttr{T: cOfR(a.T), Opt: a.Opt}
	}
	return out
}

func uidString(v ir.Value) string { return fmt.Sprintf("%s::%q", v.T, v.S) }

// CanonOfR is the canonical form cedar-go's resolution of Deresolve(rs) must have (namespaces left out).
func CanonOfR(rs *RSchema) *CSchema {
	out := &CSchema{Entities: map[string]CEntity{}, Enums: map[string]CEnum{}, Actions: map[string]CAction{}}
	for _, e := range rs.Entities {
		if e.IsEnum {
			ce := CEnum{}
			for _, v := range e.Enum {
				ce.Values = append(ce.Values, uidString(ir.Ent(e.Name, v)))
			}
			sort.Strings(ce.Values)
			out.Enums[e.Name] = ce
			continue
		}
		ce := CEntity{Parents: sorted(e.Parents), Shape: cAttrsOfR(e.Attrs)}
		if e.Tags != nil {
			t := cOfR(*e.Tags)
			ce.Tags = &t
		}
		out.Entities[e.Name] = ce
	}
	for _, a := range rs.Actions {
		ca := CAction{UID: uidString(a.UID()), Applies: a.Applies}
		for _, p := range a.Parents {
			ca.Parents = append(ca.Parents, uidString(p))
		}
		ca.Parents = sorted(ca.Parents)
		if a.Applies {
			ca.Principals, ca.Resources = sorted(a.Principals), sorted(a.Resources)
			ca.Context = cAttrsOfR(a.Context)
		}
		out.Actions[uidString(a.UID())] = ca
	}
	return out
}

// ---------------------------------------------------------------------------------------------
// Conforming data, built constructively from the reference model

type wgen struct {
	t  *rapid.T
	rs *RSchema
}

func (g *wgen) ids(et string) []string {
	if e := g.rs.Entity(et); e != nil && e.IsEnum {
		return e.Enum
	}
	return RIDs
}

func (g *wgen) value(t RType, depth int) ir.Value {
	rt := g.t
	switch t.K {
	case ir.KEntity:
		return ir.Ent(t.Ent, gen.Pick(rt, g.ids(t.Ent), "wid"))
	case ir.KSet:
		n := rapid.IntRange(0, 2).Draw(rt, "wsetlen")
		out := ir.Value{K: ir.KSet}
		for i := 0; i < n; i++ {
			v := g.value(*t.Elem, depth+1)
			if !out.Contains(v) {
				out.Elems = append(out.Elems, v)
			}
		}
		return out
	case ir.KRecord:
		return ir.Value{K: ir.KRecord, Fields: g.record(t.Attrs, depth+1)}
	case ir.KString:
		if gen.Chance(rt, 50, "wtagkey") {
			return ir.Str(gen.Pick(rt, RTagKeys, "wtagkeyv")) // strings that hit tag keys, for dynamic tag look-ups
		}
	}
	return gen.ValueOfKind(rt, t.K, 0, gen.DefaultValOpts)
}

func (g *wgen) record(as []RAttr, depth int) []ir.Field {
	var out []ir.Field
	for _, a := range as {
		if a.Opt && gen.Chance(g.t, 50, "wabsent") {
			continue
		}
		out = append(out, ir.F(a.Name, g.value(a.T, depth)))
	}
	return out
}

// GenWorld draws a store and a request that conform to rs for environment env: every declared non-enum entity type
// has instances "x" and "y", each present or absent; optional attributes and tags present or absent; parents drawn
// from the instances of the declared parent types; enum entities (present or absent) have no parents, attributes or
// tags; every action entity is present with the ancestor closure the schema declares.
func GenWorld(t *rapid.T, rs *RSchema, env REnv) gen.World {
	g := &wgen{t: t, rs: rs}
	var w gen.World
	pid, rid := gen.Pick(t, g.ids(env.P), "wpid"), gen.Pick(t, g.ids(env.R), "wrid")
	for _, e := range rs.Entities {
		for _, id := range g.ids(e.Name) {
			isReq := (e.Name == env.P && id == pid) || (e.Name == env.R && id == rid)
			absentPct := 25
			if isReq {
				absentPct = 8
			}
			if gen.Chance(t, absentPct, "wabsentent") {
				continue
			}
			ent := ir.Entity{UID: ir.Ent(e.Name, id)}
			if !e.IsEnum {
				for _, p := range e.Parents {
					for _, pidc := range g.ids(p) {
						if gen.Chance(t, 40, "wparent") {
							ent.Parents = append(ent.Parents, ir.Ent(p, pidc))
						}
					}
				}
				ent.Attrs = g.record(e.Attrs, 0)
				if e.Tags != nil {
					for _, k := range RTagKeys {
						if gen.Chance(t, 50, "wtag") {
							ent.Tags = append(ent.Tags, ir.F(k, g.value(*e.Tags, 0)))
						}
					}
				}
			}
			w.Store = append(w.Store, ent)
		}
	}
	for _, a := range rs.Actions {
		w.Store = append(w.Store, ir.Entity{UID: a.UID(), Parents: rs.ActionAncestors(a.UID())})
	}
	w.Req = ir.Request{Principal: ir.Ent(env.P, pid), Action: env.Action, Resource: ir.Ent(env.R, rid), Context: ir.Value{K: ir.KRecord, Fields: g.record(env.Ctx, 0)}}
	return w
}
