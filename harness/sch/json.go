package sch

import (
	"encoding/json"
)

// Own renderer IR -> Cedar JSON schema format, written from the format description:
//
//	{ "<namespace>": { "commonTypes": {name: Type+annotations}, "entityTypes": {name: EntityType}, "actions": {name: Action}, "annotations": {...} } }
//	EntityType := { "memberOfTypes": [..], "shape": RecordType, "tags": Type, "annotations": {...} } | { "enum": [..], "annotations": {...} }
//	Action     := { "memberOf": [{"id": s, "type": t}], "appliesTo": {"principalTypes": [..], "resourceTypes": [..], "context": Type}, "annotations": {...} }
//	Type       := {"type":"String"|"Long"|"Boolean"} | {"type":"Set","element":Type} | {"type":"Record","attributes":{name: Type+"required"+annotations}}
//	            | {"type":"Entity","name":n} | {"type":"Extension","name":n} | {"type":"EntityOrCommon","name":n} | {"type": n}   (n a common type name)
//
// Optional members ("required": true, empty lists, the shorthand {"type": n}) are varied by Style.

var jsonTypeWords = map[string]bool{"String": true, "Long": true, "Boolean": true, "Set": true, "Record": true, "Entity": true, "Extension": true, "EntityOrCommon": true}

type jsonW struct {
	r     lcg
	noise bool
}

func (w *jsonW) anns(m map[string]any, as []Ann) {
	if len(as) == 0 {
		if w.noise && w.r.n(6) == 0 {
			m["annotations"] = map[string]any{}
		}
		return
	}
	a := map[string]any{}
	for _, x := range as {
		a[x.K] = x.V
	}
	m["annotations"] = a
}

func (w *jsonW) typ(t Type) map[string]any {
	switch t.K {
	case TString:
		return map[string]any{"type": "String"}
	case TLong:
		return map[string]any{"type": "Long"}
	case TBool:
		return map[string]any{"type": "Boolean"}
	case TExt:
		return map[string]any{"type": "Extension", "name": t.Name}
	case TSet:
		return map[string]any{"type": "Set", "element": w.typ(*t.Elem)}
	case TRecord:
		return w.record(t.Attrs)
	case TEntity:
		return map[string]any{"type": "Entity", "name": t.Name}
	case TRef:
		if w.noise && !jsonTypeWords[t.Name] && t.Name != "" && w.r.n(2) == 0 {
			return map[string]any{"type": t.Name}
		}
		return map[string]any{"type": "EntityOrCommon", "name": t.Name}
	}
	panic("sch json: kind " + t.K)
}

func (w *jsonW) record(as []Attr) map[string]any {
	attrs := map[string]any{}
	for _, a := range as {
		m := w.typ(a.T)
		if a.Opt {
			m["required"] = false
		} else if w.noise && w.r.n(3) == 0 {
			m["required"] = true
		}
		w.anns(m, a.Ann)
		attrs[a.Name] = m
	}
	return map[string]any{"type": "Record", "attributes": attrs}
}

func strs(xs []string) []any {
	out := make([]any, len(xs))
	for i, x := range xs {
		out[i] = x
	}
	return out
}

// RenderJSON renders s in the JSON schema format.
func RenderJSON(s *Schema, style uint64) []byte {
	w := &jsonW{r: lcg{s: style}, noise: style != 0}
	top := map[string]any{}
	for _, ns := range s.NS {
		n := map[string]any{}
		ets := map[string]any{}
		acts := map[string]any{}
		if len(ns.Commons) > 0 || (w.noise && w.r.n(4) == 0) {
			cts := map[string]any{}
			for _, c := range ns.Commons {
				m := w.typ(c.T)
				w.anns(m, c.Ann)
				cts[c.Name] = m
			}
			n["commonTypes"] = cts
		}
		for _, e := range ns.Entities {
			m := map[string]any{}
			if len(e.Parents) > 0 || (w.noise && w.r.n(4) == 0) {
				m["memberOfTypes"] = strs(e.Parents)
			}
			if e.HasShape {
				m["shape"] = w.record(e.Shape)
			}
			if e.Tags != nil {
				m["tags"] = w.typ(*e.Tags)
			}
			w.anns(m, e.Ann)
			ets[e.Name] = m
		}
		for _, e := range ns.Enums {
			m := map[string]any{"enum": strs(e.Values)}
			w.anns(m, e.Ann)
			ets[e.Name] = m
		}
		for _, a := range ns.Actions {
			m := map[string]any{}
			if len(a.Parents) > 0 || (w.noise && w.r.n(4) == 0) {
				ps := []any{}
				for _, p := range a.Parents {
					pm := map[string]any{"id": p.ID}
					if p.Type != "" {
						pm["type"] = p.Type
					}
					ps = append(ps, pm)
				}
				m["memberOf"] = ps
			}
			if a.Applies != nil {
				at := map[string]any{"principalTypes": strs(a.Applies.Principals), "resourceTypes": strs(a.Applies.Resources)}
				if a.Applies.Context != nil {
					at["context"] = w.typ(*a.Applies.Context)
				}
				m["appliesTo"] = at
			}
			w.anns(m, a.Ann)
			acts[a.Name] = m
		}
		n["entityTypes"] = ets
		n["actions"] = acts
		if ns.Name != "" {
			w.anns(n, ns.Ann)
		}
		top[ns.Name] = n
	}
	b, err := json.Marshal(top)
	if err != nil {
		panic(err)
	}
	return b
}
