package c03

// Coverage-guided driving of this package's rapid properties (thorough tier; see ev/fuzz.go).

import (
	"testing"

	"verif/ev"
)

var fuzzProps = map[string]func(*testing.T){
	"FuzzPropRandomGraphs": TestRandomGraphs,
	"FuzzPropHistories": TestHistories,
}

func FuzzPropRandomGraphs(f *testing.F) { ev.FuzzProp(f, TestRandomGraphs) }
func FuzzPropHistories(f *testing.F) { ev.FuzzProp(f, TestHistories) }
