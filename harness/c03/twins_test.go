package c03

// Target lists whose members' type and id concatenate to the same bytes (A::"bc", Ab::"c", Abc::""): every member of
// such a list has to stay a member, in whatever order the list is written and through every form that takes a list.

import (
	"testing"

	"verif/ev"
	"verif/ir"
)

func TestTwinTargets(t *testing.T) {
	if !ev.First() {
		return
	}
	base := &Case{
		N:       6,
		Types:   []string{"T0", "T0", "T0", "A", "Ab", "Abc"},
		UIDs:    [][2]string{{"T0", "a"}, {"T0", "b"}, {"T0", "c"}, {"A", "bc"}, {"Ab", "c"}, {"Abc", ""}},
		Parents: [][]int{{3}, {4}, {5}, nil, nil, nil},
		Present: []bool{true, true, true, false, true, false},
	}
	// the same id under different types (one id, three action types): a list keyed by id alone loses members
	sameID := &Case{
		N:       6,
		Types:   []string{"T0", "T0", "T0", "P::Action", "D::Action", "Action"},
		UIDs:    [][2]string{{"T0", "view"}, {"T0", "b"}, {"T0", "c"}, {"P::Action", "view"}, {"D::Action", "view"}, {"Action", "view"}},
		Parents: [][]int{{3}, {4}, {5}, nil, nil, nil},
		Present: []bool{true, true, true, false, true, false},
	}
	n := 0
	for _, base := range []*Case{base, sameID} {
		for src := 0; src < 6; src++ {
			for _, targets := range [][]int{{3, 4, 5}, {5, 4, 3}, {4, 3, 5}, {3, 4}, {4, 3}, {4, 5}, {5, 4}, {3, 5}, {5, 3}, {3}, {4}, {5}, {3, 3, 4}} {
				for _, form := range []string{"inset", "isinset", "scope-a-inset"} {
					c := cloneCase(base)
					c.Src, c.Targets, c.Form, c.IsType = src, targets, form, base.Types[src]
					n++
					ev.R.Case(ir.Hash(c), true, "twin-targets", "form:"+form)
					if msg := checkCase(c, nil); msg != "" {
						report(t, "twin-targets", c, msg)
						return
					}
				}
			}
		}
	}
	ev.R.Space("target lists of uids whose type+id concatenations coincide / whose ids coincide across types x source x list order x {in, is-in, action scope list}", n)
}
