package c03

// Histories: one long-lived compiled policy set and one entity map object that is edited in place between questions.
// `in` has to be answered from the store as it is at the time of the call: nothing remembered from an earlier call (a
// memo per policy, a pooled work set, a cache keyed by the map's identity) may show through. After every edit the whole
// reachability relation is read back through every policy form in one authorizer call per source node and compared with
// the fixpoint oracle. One policy of the set always fails inside `in` (a set operand with a non-entity member), so that
// error exits are interleaved with the successful evaluations.

import (
	"encoding/json"
	"fmt"
	"sort"
	"testing"

	cedar "github.com/cedar-policy/cedar-go"
	pubast "github.com/cedar-policy/cedar-go/ast"
	"github.com/cedar-policy/cedar-go/types"
	xast "github.com/cedar-policy/cedar-go/x/exp/ast"
	"pgregory.net/rapid"

	"verif/ev"
	"verif/ir"
)

type Op struct {
	Op      string `json:"op"` // set-parents | remove | insert | none
	Node    int    `json:"node"`
	Parents []int  `json:"parents,omitempty"`
}

type History struct {
	Kind    string   `json:"kind"` // "history"
	N       int      `json:"n"`
	Types   []string `json:"types"`
	Parents [][]int  `json:"parents"`
	Present []bool   `json:"present"`
	Pairs   [][2]int `json:"pairs"` // targets of the set forms
	Ops     []Op     `json:"ops"`
	Rebuild bool     `json:"rebuild,omitempty"` // true: a fresh map per step (control); false: the same map object edited in place
}

func (h *History) state() *Case {
	c := &Case{N: h.N, Types: h.Types, Parents: make([][]int, h.N), Present: make([]bool, h.N)}
	for i := range h.Parents {
		c.Parents[i] = append([]int(nil), h.Parents[i]...)
	}
	copy(c.Present, h.Present)
	return c
}

func entityOf(c *Case, i int) types.Entity {
	ps := make([]types.EntityUID, len(c.Parents[i]))
	for j, p := range c.Parents[i] {
		ps[j] = uid(c, p)
	}
	return types.Entity{UID: uid(c, i), Parents: types.NewEntityUIDSet(ps...)}
}

func whenPolicy(body xast.IsNode) *xast.Policy {
	return &xast.Policy{Effect: xast.EffectPermit, Principal: xast.ScopeTypeAll{}, Action: xast.ScopeTypeAll{}, Resource: xast.ScopeTypeAll{},
		Conditions: []xast.ConditionType{{Condition: xast.ConditionWhen, Body: body}}}
}

// historyPolicies builds the long-lived set; want[id] tells for (state, src) whether policy id has to be satisfied.
func historyPolicies(h *History, c0 *Case) (*cedar.PolicySet, map[string]func(c *Case, src int) bool) {
	ps := cedar.NewPolicySet()
	want := map[string]func(c *Case, src int) bool{}
	add := func(id string, p *xast.Policy, w func(c *Case, src int) bool) {
		ps.Add(cedar.PolicyID(id), cedar.NewPolicyFromAST((*pubast.Policy)(p)))
		want[id] = w
	}
	all := func() *xast.Policy {
		return &xast.Policy{Effect: xast.EffectPermit, Principal: xast.ScopeTypeAll{}, Action: xast.ScopeTypeAll{}, Resource: xast.ScopeTypeAll{}}
	}
	princ := xast.NodeTypeVariable{Name: "principal"}
	for g := 0; g < h.N; g++ {
		g := g
		gu := uid(c0, g)
		p := all()
		p.Principal = xast.ScopeTypeIn{Entity: gu}
		add(fmt.Sprintf("pin:%d", g), p, func(c *Case, s int) bool { return reach(c, s, g) })
		p = all()
		p.Principal = xast.ScopeTypeIsIn{Type: "T0", Entity: gu}
		add(fmt.Sprintf("pis:%d", g), p, func(c *Case, s int) bool { return c.Types[s] == "T0" && reach(c, s, g) })
		p = all()
		p.Resource = xast.ScopeTypeIn{Entity: gu}
		add(fmt.Sprintf("rin:%d", g), p, func(c *Case, s int) bool { return reach(c, s, g) })
		p = all()
		p.Action = xast.ScopeTypeIn{Entity: gu}
		add(fmt.Sprintf("ain:%d", g), p, func(c *Case, s int) bool { return reach(c, s, g) })
		add(fmt.Sprintf("win:%d", g), whenPolicy(xast.NodeTypeIn{BinaryNode: xast.BinaryNode{Left: princ, Right: lit(gu)}}),
			func(c *Case, s int) bool { return reach(c, s, g) })
		add(fmt.Sprintf("wisin:%d", g), whenPolicy(xast.NodeTypeIsIn{NodeTypeIs: xast.NodeTypeIs{Left: princ, EntityType: "T1"}, Entity: lit(gu)}),
			func(c *Case, s int) bool { return c.Types[s] == "T1" && reach(c, s, g) })
	}
	for k, pr := range h.Pairs {
		pr := pr
		either := func(c *Case, s int) bool { return reach(c, s, pr[0]) || reach(c, s, pr[1]) }
		p := all()
		p.Action = xast.ScopeTypeInSet{Entities: []types.EntityUID{uid(c0, pr[0]), uid(c0, pr[1])}}
		add(fmt.Sprintf("aset:%d", k), p, either)
		add(fmt.Sprintf("wset:%d", k), whenPolicy(xast.NodeTypeIn{BinaryNode: xast.BinaryNode{Left: princ,
			Right: xast.NodeTypeSet{Elements: []xast.IsNode{lit(uid(c0, pr[0])), lit(uid(c0, pr[1]))}}}}), either)
		// the operand set comes from the request: [context.g, <literal>]
		add(fmt.Sprintf("wctxset:%d", k), whenPolicy(xast.NodeTypeIn{BinaryNode: xast.BinaryNode{Left: princ,
			Right: xast.NodeTypeSet{Elements: []xast.IsNode{xast.NodeTypeAccess{StrOpNode: xast.StrOpNode{Arg: xast.NodeTypeVariable{Name: "context"}, Value: "g"}}, lit(uid(c0, pr[1]))}}}}),
			func(c *Case, s int) bool { return reach(c, s, 0) || reach(c, s, pr[1]) })
	}
	add("wctx", whenPolicy(xast.NodeTypeIn{BinaryNode: xast.BinaryNode{Left: princ,
		Right: xast.NodeTypeAccess{StrOpNode: xast.StrOpNode{Arg: xast.NodeTypeVariable{Name: "context"}, Value: "g"}}}}),
		func(c *Case, s int) bool { return reach(c, s, 0) })
	return ps, want
}

// the always-failing policies: a set operand with a non-entity member (after / before entity members)
func addFailing(ps *cedar.PolicySet, c0 *Case, h *History) []string {
	princ := xast.NodeTypeVariable{Name: "principal"}
	str := xast.NodeTypeAccess{StrOpNode: xast.StrOpNode{Arg: xast.NodeTypeVariable{Name: "context"}, Value: "s"}}
	var ids []string
	for g := 0; g < h.N; g++ {
		id := fmt.Sprintf("err:%d", g)
		elems := []xast.IsNode{lit(uid(c0, g)), str}
		if g%2 == 1 {
			elems = []xast.IsNode{lit(uid(c0, g)), lit(uid(c0, (g+1)%h.N)), str}
		}
		ps.Add(cedar.PolicyID(id), cedar.NewPolicyFromAST((*pubast.Policy)(whenPolicy(xast.NodeTypeIn{BinaryNode: xast.BinaryNode{Left: princ, Right: xast.NodeTypeSet{Elements: elems}}}))))
		ids = append(ids, id)
	}
	return ids
}

// runHistory returns "" when cedar-go agreed with the oracle after every step; steps = number of (step, src) questions.
func runHistory(h *History) (msg string, questions int, changedAnswers int) {
	c := h.state()
	ps, want := historyPolicies(h, c)
	failing := addFailing(ps, c, h)
	em := entityMap(c)
	ctx := types.NewRecord(types.RecordMap{"g": uid(c, 0), "s": types.String("not an entity")})
	prev := map[string]bool{}
	for step := -1; step < len(h.Ops); step++ {
		if step >= 0 {
			op := h.Ops[step]
			switch op.Op {
			case "set-parents":
				c.Parents[op.Node] = append([]int(nil), op.Parents...)
				if c.Present[op.Node] {
					em[uid(c, op.Node)] = entityOf(c, op.Node)
				}
			case "remove":
				c.Present[op.Node] = false
				delete(em, uid(c, op.Node))
			case "insert":
				c.Present[op.Node] = true
				em[uid(c, op.Node)] = entityOf(c, op.Node)
			}
			if h.Rebuild {
				em = entityMap(c)
			}
		}
		for s := 0; s < h.N; s++ {
			questions++
			su := uid(c, s)
			_, diag := cedar.Authorize(ps, em, types.Request{Principal: su, Action: su, Resource: su, Context: ctx})
			got := map[string]bool{}
			for _, r := range diag.Reasons {
				got[string(r.PolicyID)] = true
			}
			errs := map[string]bool{}
			for _, e := range diag.Errors {
				errs[string(e.PolicyID)] = true
			}
			ids := make([]string, 0, len(want))
			for id := range want {
				ids = append(ids, id)
			}
			sort.Strings(ids)
			for _, id := range ids {
				w := want[id](c, s)
				key := fmt.Sprintf("%d/%s", s, id)
				if step >= 0 && prev[key] != w {
					changedAnswers++
				}
				prev[key] = w
				if errs[id] {
					return fmt.Sprintf("after step %d, source n%d: policy %s fails to evaluate (%v)", step, s, id, diag.Errors), questions, changedAnswers
				}
				if got[id] != w {
					return fmt.Sprintf("after step %d (%s), source n%d: policy %s satisfied=%v, the store at this point gives %v", step, opText(h, step), s, id, got[id], w), questions, changedAnswers
				}
			}
			for _, id := range failing {
				if !errs[id] || got[id] {
					return fmt.Sprintf("after step %d, source n%d: policy %s (`in` over a set with a string member) reported error=%v satisfied=%v, want an error", step, s, id, errs[id], got[id]), questions, changedAnswers
				}
			}
		}
	}
	return "", questions, changedAnswers
}

func opText(h *History, step int) string {
	if step < 0 {
		return "initial store"
	}
	b, _ := json.Marshal(h.Ops[step])
	return string(b)
}

func genHistory(t *rapid.T) *History {
	n := rapid.IntRange(3, 6).Draw(t, "n")
	h := &History{Kind: "history", N: n, Types: make([]string, n), Parents: make([][]int, n), Present: make([]bool, n)}
	subset := func(label string, pct int) []int {
		var out []int
		for j := 0; j < n; j++ {
			if rapid.IntRange(0, 99).Draw(t, label) < pct {
				out = append(out, j)
			}
		}
		return out
	}
	for i := 0; i < n; i++ {
		h.Types[i] = rapid.SampledFrom([]string{"T0", "T1"}).Draw(t, "type")
		h.Present[i] = rapid.IntRange(0, 9).Draw(t, "present") > 1
		h.Parents[i] = subset("edge", 25)
	}
	for k := 0; k < 2; k++ {
		h.Pairs = append(h.Pairs, [2]int{rapid.IntRange(0, n-1).Draw(t, "pa"), rapid.IntRange(0, n-1).Draw(t, "pb")})
	}
	nops := rapid.IntRange(1, 8).Draw(t, "nops")
	for k := 0; k < nops; k++ {
		op := Op{Op: rapid.SampledFrom([]string{"set-parents", "set-parents", "set-parents", "remove", "insert", "none"}).Draw(t, "op"), Node: rapid.IntRange(0, n-1).Draw(t, "node")}
		if op.Op == "set-parents" {
			op.Parents = subset("newedge", 30)
		}
		h.Ops = append(h.Ops, op)
	}
	return h
}

func TestHistories(t *testing.T) {
	ev.SetChecks(ev.Scale(400, 20000))
	ev.Check(t, func(rt *rapid.T) {
		h := genHistory(rt)
		ev.Watch("history", func() any { return h })
		msg, q, changed := runHistory(h)
		ev.Unwatch()
		ev.R.Label("history:questions", int64(q))
		labels := []string{"history"}
		if changed > 0 {
			labels = append(labels, "history:answer-changed-by-an-edit")
		}
		ev.R.Case(ir.Hash(h), changed > 0, labels...)
		if ev.R.WantSample("history") {
			ev.R.Sample("history", map[string]any{"case": h, "questions": q, "answers_changed_by_edits": changed})
		}
		if msg != "" {
			ev.R.Violation("history", h, msg)
			rt.Fatalf("C03/history: long-lived policy set and edited store disagree with the oracle")
		}
	})
}
