// C03: entity membership `in` is reflexive-transitive reachability over parent links of present entities.
package c03

import (
	"context"
	"encoding/json"
	"fmt"
	"testing"

	cedar "github.com/cedar-policy/cedar-go"
	pubast "github.com/cedar-policy/cedar-go/ast"
	"github.com/cedar-policy/cedar-go/types"
	xast "github.com/cedar-policy/cedar-go/x/exp/ast"
	"github.com/cedar-policy/cedar-go/x/exp/batch"
	xeval "github.com/cedar-policy/cedar-go/x/exp/eval"
	"pgregory.net/rapid"

	"verif/conv"
	"verif/ev"
	"verif/ir"
	"verif/ref"
)

func TestMain(m *testing.M) { ev.Main(m, "C03") }

// Case is the replayable form of one membership question.
type Case struct {
	N       int      `json:"n"`
	Types   []string `json:"types"`   // entity type of node i
	Parents [][]int  `json:"parents"` // parents[i] = parent node indexes of node i
	Present []bool   `json:"present"`
	Src     int      `json:"src"`
	Targets []int    `json:"targets"`
	Form    string   `json:"form"` // in | inset | isin | scope-p-in | scope-p-isin | scope-a-inset | scope-r-is | scope-r-in | scope-a-in | scope-r-isin
	IsType  string   `json:"is_type,omitempty"`
	// UIDs overrides the default names (type Types[i], id n<i>) of the first len(UIDs) nodes: {type, id}
	UIDs [][2]string `json:"uids,omitempty"`
}

// uid of node i; i < 0 denotes the zero-value EntityUID (what a cedar.Request carries for an unset principal / action /
// resource): it is never in the store, has no parents and equals no node.
func uid(c *Case, i int) types.EntityUID {
	if i < 0 {
		return types.EntityUID{}
	}
	if i < len(c.UIDs) {
		return types.NewEntityUID(types.EntityType(c.UIDs[i][0]), types.String(c.UIDs[i][1]))
	}
	return types.NewEntityUID(types.EntityType(c.Types[i]), types.String(fmt.Sprintf("n%d", i)))
}

func entityMap(c *Case) types.EntityMap {
	m := types.EntityMap{}
	for i := 0; i < c.N; i++ {
		if !c.Present[i] {
			continue
		}
		ps := make([]types.EntityUID, len(c.Parents[i]))
		for j, p := range c.Parents[i] {
			ps[j] = uid(c, p)
		}
		m[uid(c, i)] = types.Entity{UID: uid(c, i), Parents: types.NewEntityUIDSet(ps...)}
	}
	return m
}

// reach is the oracle: least fixpoint, following parent links only out of present nodes.
func reach(c *Case, a, b int) bool {
	if a == b {
		return true
	}
	seen := make([]bool, c.N)
	seen[a] = true
	for changed := true; changed; {
		changed = false
		for x := 0; x < c.N; x++ {
			if !seen[x] || !c.Present[x] {
				continue
			}
			for _, p := range c.Parents[x] {
				if !seen[p] {
					seen[p] = true
					changed = true
				}
			}
		}
	}
	return seen[b]
}

func expected(c *Case) bool {
	if c.Src < 0 {
		return false
	}
	typeOK := true
	switch c.Form {
	case "isin", "isinset", "scope-p-isin", "scope-r-isin":
		typeOK = c.Types[c.Src] == c.IsType
	case "scope-r-is":
		return c.Types[c.Src] == c.IsType
	}
	if !typeOK {
		return false
	}
	for _, t := range c.Targets {
		if reach(c, c.Src, t) {
			return true
		}
	}
	return false
}

func lit(u types.EntityUID) xast.IsNode { return xast.NodeValue{Value: u} }

// observe asks cedar-go. ok=false means evaluation failed (never expected here).
func observe(c *Case, em types.EntityMap) (got bool, err error) {
	src := uid(c, c.Src)
	other := types.NewEntityUID("Other", "o")
	switch c.Form {
	case "in", "inset", "isin", "isinset", "orsplit", "orsplit-nested":
		var n xast.IsNode
		pvar := xast.NodeTypeVariable{Name: "principal"}
		inOne := func(t int) xast.IsNode {
			return xast.NodeTypeIn{BinaryNode: xast.BinaryNode{Left: pvar, Right: lit(uid(c, t))}}
		}
		inList := func(ts []int) xast.IsNode {
			var es []xast.IsNode
			for _, t := range ts {
				es = append(es, lit(uid(c, t)))
			}
			return xast.NodeTypeIn{BinaryNode: xast.BinaryNode{Left: pvar, Right: xast.NodeTypeSet{Elements: es}}}
		}
		or := func(a, b xast.IsNode) xast.IsNode { return xast.NodeTypeOr{BinaryNode: xast.BinaryNode{Left: a, Right: b}} }
		princ := other
		switch c.Form {
		case "orsplit":
			// `principal in t0 || principal in [t1..]` is `principal in [t0, t1..]` (the list may be empty)
			princ = src
			n = or(inOne(c.Targets[0]), inList(c.Targets[1:]))
		case "orsplit-nested":
			// `principal in [t_last] || (principal in t0 || principal in [t1..t_last-1])`
			princ = src
			k := len(c.Targets) - 1
			n = or(inList(c.Targets[k:]), or(inOne(c.Targets[0]), inList(c.Targets[1:max(k, 1)])))
		case "isinset":
			var es []xast.IsNode
			for _, t := range c.Targets {
				es = append(es, lit(uid(c, t)))
			}
			n = xast.NodeTypeIsIn{NodeTypeIs: xast.NodeTypeIs{Left: lit(src), EntityType: types.EntityType(c.IsType)}, Entity: xast.NodeTypeSet{Elements: es}}
		case "in":
			n = xast.NodeTypeIn{BinaryNode: xast.BinaryNode{Left: lit(src), Right: lit(uid(c, c.Targets[0]))}}
		case "inset":
			var es []xast.IsNode
			for _, t := range c.Targets {
				es = append(es, lit(uid(c, t)))
			}
			n = xast.NodeTypeIn{BinaryNode: xast.BinaryNode{Left: lit(src), Right: xast.NodeTypeSet{Elements: es}}}
		case "isin":
			n = xast.NodeTypeIsIn{NodeTypeIs: xast.NodeTypeIs{Left: lit(src), EntityType: types.EntityType(c.IsType)}, Entity: lit(uid(c, c.Targets[0]))}
		}
		v, e := xeval.Eval(n, xeval.Env{Entities: em, Principal: princ, Action: other, Resource: other, Context: types.Record{}})
		if e != nil {
			return false, e
		}
		b, isb := v.(types.Boolean)
		if !isb {
			return false, fmt.Errorf("non-boolean result %v", v)
		}
		// second observation point: the same expression as the condition of a compiled policy (the authorizer runs the
		// constant-folded form, which must not decide `in` without the entity store)
		wp := &xast.Policy{Effect: xast.EffectPermit, Principal: xast.ScopeTypeAll{}, Action: xast.ScopeTypeAll{}, Resource: xast.ScopeTypeAll{},
			Conditions: []xast.ConditionType{{Condition: xast.ConditionWhen, Body: n}}}
		wps := cedar.NewPolicySet()
		wps.Add("p", cedar.NewPolicyFromAST((*pubast.Policy)(wp)))
		dec, diag := cedar.Authorize(wps, em, types.Request{Principal: princ, Action: other, Resource: other, Context: types.Record{}})
		if len(diag.Errors) > 0 {
			return false, fmt.Errorf("authorize error for `when { e }`: %v", diag.Errors[0].Message)
		}
		if (dec == cedar.Allow) != bool(b) {
			return false, fmt.Errorf("x/exp/eval.Eval gives %v but cedar.Authorize of `permit when { e }` decides %v", b, dec)
		}
		return bool(b), nil
	}
	// scope forms through the authorizer
	p := &xast.Policy{Effect: xast.EffectPermit, Principal: xast.ScopeTypeAll{}, Action: xast.ScopeTypeAll{}, Resource: xast.ScopeTypeAll{}}
	req := types.Request{Principal: other, Action: other, Resource: other, Context: types.Record{}}
	switch c.Form {
	case "scope-p-in":
		p.Principal = xast.ScopeTypeIn{Entity: uid(c, c.Targets[0])}
		req.Principal = src
	case "scope-p-isin":
		p.Principal = xast.ScopeTypeIsIn{Type: types.EntityType(c.IsType), Entity: uid(c, c.Targets[0])}
		req.Principal = src
	case "scope-a-in":
		p.Action = xast.ScopeTypeIn{Entity: uid(c, c.Targets[0])}
		req.Action = src
	case "scope-a-inset":
		var es []types.EntityUID
		for _, t := range c.Targets {
			es = append(es, uid(c, t))
		}
		p.Action = xast.ScopeTypeInSet{Entities: es}
		req.Action = src
	case "scope-r-in":
		p.Resource = xast.ScopeTypeIn{Entity: uid(c, c.Targets[0])}
		req.Resource = src
	case "scope-r-isin":
		p.Resource = xast.ScopeTypeIsIn{Type: types.EntityType(c.IsType), Entity: uid(c, c.Targets[0])}
		req.Resource = src
	case "scope-r-is":
		p.Resource = xast.ScopeTypeIs{Type: types.EntityType(c.IsType)}
		req.Resource = src
	default:
		return false, fmt.Errorf("unknown form %q", c.Form)
	}
	ps := cedar.NewPolicySet()
	ps.Add("p", cedar.NewPolicyFromAST((*pubast.Policy)(p)))
	dec, diag := cedar.Authorize(ps, em, req)
	if len(diag.Errors) > 0 {
		return false, fmt.Errorf("authorize error: %v", diag.Errors[0].Message)
	}
	// another observation point: the same question through the partial evaluator - batch authorization in which the
	// queried entity is the only value of a variable (scope clauses are decided by partial evaluation there)
	// and one in which the queried entity is concrete and an unrelated context field is the variable (the scope is then
	// decided while the policy is partially evaluated)
	for _, variant := range []string{"the queried entity as a variable", "an unrelated context field as the variable"} {
		breq := batch.Request{Principal: req.Principal, Action: req.Action, Resource: req.Resource, Context: req.Context, Variables: batch.Variables{"v": {src}}}
		if variant == "the queried entity as a variable" {
			switch c.Form[:7] {
			case "scope-p":
				breq.Principal = batch.Variable("v")
			case "scope-a":
				breq.Action = batch.Variable("v")
			default:
				breq.Resource = batch.Variable("v")
			}
		} else {
			breq.Context = types.NewRecord(types.RecordMap{"unrelated": batch.Variable("v")})
			breq.Variables = batch.Variables{"v": {types.Long(1)}}
		}
		var bdec []cedar.Decision
		if err := batch.Authorize(context.Background(), ps, em, breq, func(r batch.Result) error {
			bdec = append(bdec, r.Decision)
			return nil
		}); err != nil || len(bdec) != 1 {
			return false, fmt.Errorf("batch.Authorize with %s: %d results, error %v", variant, len(bdec), err)
		}
		if bdec[0] != dec {
			return false, fmt.Errorf("cedar.Authorize decides %v, batch.Authorize with %s decides %v", dec, variant, bdec[0])
		}
	}
	return dec == cedar.Allow, nil
}

func structure(c *Case) (cycle, diamond, selfParent, absentMid bool) {
	for i := 0; i < c.N; i++ {
		for _, p := range c.Parents[i] {
			if p == i {
				selfParent = true
			}
			if !c.Present[p] && len(c.Parents[p]) > 0 {
				absentMid = true
			}
		}
	}
	adj := func(x int) []int { return c.Parents[x] }
	// cycle: two distinct nodes that reach each other (presence ignored)
	cl := make([][]bool, c.N)
	for s := 0; s < c.N; s++ {
		cl[s] = make([]bool, c.N)
		stack := append([]int(nil), adj(s)...)
		for len(stack) > 0 {
			x := stack[len(stack)-1]
			stack = stack[:len(stack)-1]
			if cl[s][x] {
				continue
			}
			cl[s][x] = true
			stack = append(stack, adj(x)...)
		}
	}
	for i := 0; i < c.N; i++ {
		for j := 0; j < c.N; j++ {
			if i != j && cl[i][j] && cl[j][i] {
				cycle = true
			}
		}
	}
	// diamond: a node with >=2 distinct parents that share a common ancestor-or-self
	for i := 0; i < c.N && !diamond; i++ {
		if len(c.Parents[i]) >= 2 {
			cnt := make([]int, c.N)
			for _, p := range c.Parents[i] {
				if p == i {
					continue
				}
				seen := make([]bool, c.N)
				stack := []int{p}
				for len(stack) > 0 {
					x := stack[len(stack)-1]
					stack = stack[:len(stack)-1]
					if seen[x] {
						continue
					}
					seen[x] = true
					cnt[x]++
					stack = append(stack, adj(x)...)
				}
			}
			for _, k := range cnt {
				if k >= 2 {
					diamond = true
				}
			}
		}
	}
	return
}

func contains(xs []int, v int) bool {
	for _, x := range xs {
		if x == v {
			return true
		}
	}
	return false
}

// checkCase compares cedar-go with the oracle. Returns "" when they agree.
func checkCase(c *Case, em types.EntityMap) string {
	if em == nil {
		em = entityMap(c)
	}
	want := expected(c)
	got, err := observe(c, em)
	if err != nil {
		return fmt.Sprintf("evaluation failed: %v (expected %v)", err, want)
	}
	if got != want {
		return fmt.Sprintf("cedar-go says %v, reachability oracle says %v", got, want)
	}
	return ""
}

func graphFromBits(n int, bits uint32, typesOf []string) *Case {
	c := &Case{N: n, Types: typesOf, Parents: make([][]int, n), Present: make([]bool, n)}
	for i := 0; i < n; i++ {
		for j := 0; j < n; j++ {
			if bits&(1<<uint(i*n+j)) != 0 {
				c.Parents[i] = append(c.Parents[i], j)
			}
		}
	}
	return c
}

func cloneCase(c *Case) *Case {
	b, _ := json.Marshal(c)
	var out Case
	_ = json.Unmarshal(b, &out)
	return &out
}

func report(t *testing.T, sub string, c *Case, msg string) {
	ev.R.Violation(sub, cloneCase(c), msg)
	t.Errorf("C03/%s: %s", sub, msg)
}

// TestExhaustive enumerates every parent relation on n nodes x every presence subset x every ordered pair
// (operator form), plus set targets and scope forms on n = 3. Work is split over shards by graph index.
func TestExhaustive(t *testing.T) {
	if ev.Thorough() {
		exhaustive(t, 4, 1)
		return
	}
	exhaustive(t, 3, 1)
	// quick tier: a systematic 1/61 sample of the 4-node graphs (complete in the thorough tier)
	exhaustive(t, 4, 61)
}

func exhaustive(t *testing.T, n int, stride uint32) {
	typesOf := []string{"T0", "T0", "T1", "T1"}[:n]
	total := uint32(1) << uint(n*n)
	var pairs, nontrivial int64
	fails := 0
	for bits := uint32(0); bits < total; bits++ {
		if bits%stride != 0 || int(bits/stride)%ev.NShards != ev.Shard {
			continue
		}
		c := graphFromBits(n, bits, typesOf)
		for pm := 0; pm < 1<<uint(n); pm++ {
			for i := 0; i < n; i++ {
				c.Present[i] = pm&(1<<uint(i)) != 0
			}
			cy, di, sp, am := structure(c)
			nt := cy || di || sp || am
			em := entityMap(c)
			ev.Watch("exhaustive", func() any { return cloneCase(c) })
			for a := 0; a < n; a++ {
				for b := 0; b < n; b++ {
					c.Src, c.Targets, c.Form, c.IsType = a, []int{b}, "in", ""
					pairs++
					if nt {
						nontrivial++
					}
					if msg := checkCase(c, em); msg != "" && fails < 50 {
						fails++
						report(t, "in", c, msg)
					}
				}
			}
			// set targets / is-in / scope forms: full on n=3, 1/16 systematic sample on n=4
			if n == 3 || (bits+uint32(pm))%16 == 0 {
				for a := -1; a < n; a++ { // -1 = the zero-value uid as source
					for tm := 1; tm < 1<<uint(n); tm++ {
						var ts []int
						for b := 0; b < n; b++ {
							if tm&(1<<uint(b)) != 0 {
								ts = append(ts, b)
							}
						}
						c.Src, c.Targets, c.Form, c.IsType = a, ts, "inset", ""
						pairs++
						if msg := checkCase(c, em); msg != "" && fails < 50 {
							fails++
							report(t, "inset", c, msg)
						}
						c.Form = "scope-a-inset"
						pairs++
						if msg := checkCase(c, em); msg != "" && fails < 50 {
							fails++
							report(t, "scope-a-inset", c, msg)
						}
						for _, f := range []string{"orsplit", "orsplit-nested"} {
							c.Form = f
							pairs++
							if msg := checkCase(c, em); msg != "" && fails < 50 {
								fails++
								report(t, f, c, msg)
							}
						}
						for _, ty := range []string{"T0", "T1"} {
							c.Form, c.IsType = "isinset", ty
							pairs++
							if msg := checkCase(c, em); msg != "" && fails < 50 {
								fails++
								report(t, "isinset", c, msg)
							}
						}
						c.IsType = ""
					}
					for b := 0; b < n; b++ {
						for _, f := range []string{"isin", "scope-p-in", "scope-p-isin", "scope-a-in", "scope-r-in", "scope-r-isin", "scope-r-is"} {
							for _, ty := range []string{"T0", "T1"} {
								if (f == "scope-p-in" || f == "scope-a-in" || f == "scope-r-in") && ty == "T1" {
									continue
								}
								c.Src, c.Targets, c.Form, c.IsType = a, []int{b}, f, ty
								pairs++
								if msg := checkCase(c, em); msg != "" && fails < 50 {
									fails++
									report(t, f, c, msg)
								}
							}
						}
					}
				}
			}
			lab := []string{}
			if cy {
				lab = append(lab, "cycle")
			}
			if di {
				lab = append(lab, "diamond")
			}
			if sp {
				lab = append(lab, "self-parent")
			}
			if am {
				lab = append(lab, "absent-intermediate")
			}
			// one recorder entry per (graph, presence): identity = (n, bits, presence mask)
			ev.R.Case(uint64(n)<<40|uint64(bits)<<8|uint64(pm), nt, lab...)
			if nt && ev.R.WantSample("exhaustive") && bits%97 == 5 {
				c.Src, c.Targets, c.Form = 0, []int{n - 1}, "in"
				ev.R.Sample("exhaustive", map[string]any{"case": cloneCase(c), "expected": expected(c)})
			}
		}
	}
	ev.Unwatch()
	ev.R.Count(pairs)
	ev.R.Label("exhaustive-questions", pairs)
	if ev.First() && stride > 1 {
		ev.R.Note(fmt.Sprintf("n=%d graphs: systematic 1/%d sample (not exhaustive) in this tier", n, stride))
	}
	if ev.First() && stride == 1 {
		ev.R.Space(fmt.Sprintf("all parent relations on %d nodes x all presence subsets x all ordered pairs (operator form)", n), int(total)*(1<<uint(n))*n*n)
		if n == 3 {
			ev.R.Space("n=3: every non-empty target set, is-in and all scope forms for every (graph, presence, source)", int(total)*8*3*(7*2+3*11))
		}
	}
}

// TestOracleAgreesWithRefReach cross-validates the bitset oracle with the shared reference evaluator's Reach.
func TestOracleAgreesWithRefReach(t *testing.T) {
	if !ev.First() {
		return
	}
	typesOf := []string{"T0", "T0", "T1"}
	for bits := uint32(0); bits < 512; bits++ {
		c := graphFromBits(3, bits, typesOf)
		for pm := 0; pm < 8; pm++ {
			var store ir.Store
			for i := 0; i < 3; i++ {
				c.Present[i] = pm&(1<<uint(i)) != 0
				if c.Present[i] {
					e := ir.Entity{UID: ir.Ent(typesOf[i], fmt.Sprintf("n%d", i))}
					for _, p := range c.Parents[i] {
						e.Parents = append(e.Parents, ir.Ent(typesOf[p], fmt.Sprintf("n%d", p)))
					}
					store = append(store, e)
				}
			}
			env := ref.NewEnv(store, ir.Request{})
			for a := 0; a < 3; a++ {
				for b := 0; b < 3; b++ {
					if env.Reach(ir.Ent(typesOf[a], fmt.Sprintf("n%d", a)), ir.Ent(typesOf[b], fmt.Sprintf("n%d", b))) != reach(c, a, b) {
						t.Fatalf("harness bug: oracles disagree on bits=%d pm=%d %d->%d", bits, pm, a, b)
					}
				}
			}
		}
	}
}

func genCase(t *rapid.T) *Case {
	n := rapid.IntRange(5, ev.Pick(24, 40)).Draw(t, "n")
	c := &Case{N: n, Types: make([]string, n), Parents: make([][]int, n), Present: make([]bool, n)}
	density := rapid.IntRange(3, 40).Draw(t, "density")
	absentPct := rapid.IntRange(0, 40).Draw(t, "absentpct")
	for i := 0; i < n; i++ {
		c.Types[i] = rapid.SampledFrom([]string{"T0", "T1"}).Draw(t, "type")
		c.Present[i] = rapid.IntRange(0, 99).Draw(t, "present") >= absentPct
		for j := 0; j < n; j++ {
			if rapid.IntRange(0, 199).Draw(t, "edge") < density*200/(4*n)+1 {
				c.Parents[i] = append(c.Parents[i], j)
			}
		}
	}
	c.Src = rapid.IntRange(-1, n-1).Draw(t, "src") // -1: the zero-value uid
	c.Form = rapid.SampledFrom([]string{"in", "in", "inset", "inset", "isin", "isinset", "isinset", "scope-p-in", "scope-p-isin", "scope-a-in", "scope-a-inset", "scope-r-in", "scope-r-isin", "scope-r-is", "orsplit", "orsplit-nested"}).Draw(t, "form")
	nt := 1
	if c.Form == "inset" || c.Form == "isinset" || c.Form == "scope-a-inset" {
		nt = rapid.IntRange(0, 10).Draw(t, "ntargets")
	}
	if c.Form == "orsplit" || c.Form == "orsplit-nested" {
		nt = rapid.IntRange(1, 10).Draw(t, "ntargets")
	}
	for i := 0; i < nt; i++ {
		c.Targets = append(c.Targets, rapid.IntRange(0, n-1).Draw(t, "target"))
	}
	c.IsType = rapid.SampledFrom([]string{"T0", "T1"}).Draw(t, "istype")
	return c
}

func TestRandomGraphs(t *testing.T) {
	ev.SetChecks(ev.Scale(3000, 400000))
	ev.Check(t, func(rt *rapid.T) {
		c := genCase(rt)
		cy, di, sp, am := structure(c)
		ev.Watch("random", func() any { return c })
		msg := checkCase(c, nil)
		ev.Unwatch()
		ev.R.Case(ir.Hash(c), cy || di || sp || am, "random-large", "form:"+c.Form)
		if ev.R.WantSample("random:" + c.Form) {
			ev.R.Sample("random:"+c.Form, map[string]any{"case": c, "expected": expected(c)})
		}
		if msg != "" {
			ev.R.Violation("random", c, msg)
			rt.Fatalf("C03/random: cedar-go and oracle disagree")
		}
	})
}

// TestChains: long chains and long cycles (termination, no stack growth): node i -> i+1, optionally closed.
func TestChains(t *testing.T) {
	if !ev.First() {
		return
	}
	for _, n := range []int{10, 1000, ev.Pick(10000, 100000)} {
		for _, closed := range []bool{false, true} {
			for _, absentAt := range []int{-1, n / 2} {
				c := &Case{N: n, Types: make([]string, n), Parents: make([][]int, n), Present: make([]bool, n)}
				for i := 0; i < n; i++ {
					c.Types[i] = "T0"
					c.Present[i] = i != absentAt
					if i+1 < n {
						c.Parents[i] = []int{i + 1}
					} else if closed {
						c.Parents[i] = []int{0}
					}
				}
				em := entityMap(c)
				for _, q := range [][2]int{{0, n - 1}, {n - 1, 0}, {0, n / 2}, {n / 2, 0}, {1, 1}} {
					c.Src, c.Targets, c.Form = q[0], []int{q[1]}, "in"
					small := c
					ev.Watch("chain", func() any {
						return map[string]any{"n": n, "closed": closed, "absent_at": absentAt, "src": q[0], "target": q[1]}
					})
					msg := checkCase(c, em)
					ev.Unwatch()
					ev.R.Case(ir.Hash([]any{"chain", n, closed, absentAt, q}), true, "chain")
					if msg != "" {
						if n > 1000 {
							// keep replay small: describe instead of dumping 10^4 nodes
							ev.R.Violation("chain", map[string]any{"n": n, "closed": closed, "absent_at": absentAt, "src": q[0], "target": q[1]}, msg)
						} else {
							ev.R.Violation("chain", cloneCase(small), msg)
						}
						t.Errorf("C03/chain: %s", msg)
					}
				}
			}
		}
	}
}

func TestReplay(t *testing.T) {
	rf, ok, err := ev.LoadReplay()
	if !ok {
		t.Skip("no replay requested")
	}
	if err != nil {
		t.Fatal(err)
	}
	if ev.ReplayFuzz(t, rf, fuzzProps, nil) {
		return
	}
	var h History
	if err := json.Unmarshal(rf.Case, &h); err == nil && h.Kind == "history" {
		ev.Watch(rf.Sub, func() any { return &h })
		msg, _, _ := runHistory(&h)
		ev.Unwatch()
		if msg != "" {
			ev.R.Violation(rf.Sub, &h, msg)
			t.Fatalf("C03 replay: %s", msg)
		}
		return
	}
	var c Case
	if err := json.Unmarshal(rf.Case, &c); err != nil || c.N == 0 || c.Parents == nil {
		// chain description
		var d struct {
			N        int  `json:"n"`
			Closed   bool `json:"closed"`
			AbsentAt int  `json:"absent_at"`
			Src      int  `json:"src"`
			Target   int  `json:"target"`
		}
		if err2 := json.Unmarshal(rf.Case, &d); err2 != nil || d.N == 0 {
			t.Fatalf("cannot decode replay case: %v %v", err, err2)
		}
		c = Case{N: d.N, Types: make([]string, d.N), Parents: make([][]int, d.N), Present: make([]bool, d.N), Src: d.Src, Targets: []int{d.Target}, Form: "in"}
		for i := 0; i < d.N; i++ {
			c.Types[i] = "T0"
			c.Present[i] = i != d.AbsentAt
			if i+1 < d.N {
				c.Parents[i] = []int{i + 1}
			} else if d.Closed {
				c.Parents[i] = []int{0}
			}
		}
	}
	ev.Watch(rf.Sub, func() any { return &c })
	msg := checkCase(&c, nil)
	ev.Unwatch()
	if msg != "" {
		ev.R.Violation(rf.Sub, &c, msg)
		t.Fatalf("C03 replay: %s", msg)
	}
}

var _ = conv.ToValue
