// Package ref holds the reference models (oracles). Nothing here imports cedar-go.
package ref

import (
	"math/big"
	"strings"
)

// ---------------------------------------------------------------------------------------------
// Calendar (proleptic Gregorian, astronomical year numbering), independent of package time.

// DaysFromCivil returns days since 1970-01-01 for y-m-d (big.Int free; y within ±10^9 fits int64).
func DaysFromCivil(y int64, m, d int64) int64 {
	if m <= 2 {
		y--
	}
	var era int64
	if y >= 0 {
		era = y / 400
	} else {
		era = (y - 399) / 400
	}
	yoe := y - era*400
	mp := (m + 9) % 12
	doy := (153*mp+2)/5 + d - 1
	doe := yoe*365 + yoe/4 - yoe/100 + doy
	return era*146097 + doe - 719468
}

// CivilFromDays is the inverse of DaysFromCivil.
func CivilFromDays(z int64) (y int64, m, d int64) {
	z += 719468
	var era int64
	if z >= 0 {
		era = z / 146097
	} else {
		era = (z - 146096) / 146097
	}
	doe := z - era*146097
	yoe := (doe - doe/1460 + doe/36524 - doe/146096) / 365
	y = yoe + era*400
	doy := doe - (365*yoe + yoe/4 - yoe/100)
	mp := (5*doy + 2) / 153
	d = doy - (153*mp+2)/5 + 1
	if mp < 10 {
		m = mp + 3
	} else {
		m = mp - 9
	}
	if m <= 2 {
		y++
	}
	return
}

func IsLeap(y int64) bool { return y%4 == 0 && (y%100 != 0 || y%400 == 0) }

func DaysInMonth(y, m int64) int64 {
	switch m {
	case 2:
		if IsLeap(y) {
			return 29
		}
		return 28
	case 4, 6, 9, 11:
		return 30
	}
	return 31
}

const MsPerDay = 86400000

func floorDiv(a, b int64) int64 {
	q := a / b
	if (a%b != 0) && ((a < 0) != (b < 0)) {
		q--
	}
	return q
}

func isDigits(s string) bool {
	if s == "" {
		return false
	}
	for i := 0; i < len(s); i++ {
		if s[i] < '0' || s[i] > '9' {
			return false
		}
	}
	return true
}

func atoi(s string) int64 {
	var n int64
	for i := 0; i < len(s); i++ {
		n = n*10 + int64(s[i]-'0')
	}
	return n
}

// ParseDatetime implements Appendix B: the five RFC 80 forms plus the signed nine-digit year of RFC 110.
// ok=false means the text is rejected (syntax, calendar or range).
func ParseDatetime(s string) (ms int64, ok bool) {
	sign := int64(1)
	ylen := 4
	if len(s) > 0 && (s[0] == '+' || s[0] == '-') {
		if s[0] == '-' {
			sign = -1
		}
		ylen = 9
		s = s[1:]
	}
	// date part
	if len(s) < ylen+6 {
		return 0, false
	}
	ys, rest := s[:ylen], s[ylen:]
	if !isDigits(ys) || rest[0] != '-' || !isDigits(rest[1:3]) || rest[3] != '-' || !isDigits(rest[4:6]) {
		return 0, false
	}
	y := sign * atoi(ys)
	mo, d := atoi(rest[1:3]), atoi(rest[4:6])
	rest = rest[6:]
	if mo < 1 || mo > 12 || d < 1 || d > DaysInMonth(y, mo) {
		return 0, false
	}
	total := new(big.Int).Mul(big.NewInt(DaysFromCivil(y, mo, d)), big.NewInt(MsPerDay))
	if rest != "" {
		// Thh:mm:ss
		if len(rest) < 9 || rest[0] != 'T' || !isDigits(rest[1:3]) || rest[3] != ':' || !isDigits(rest[4:6]) || rest[6] != ':' || !isDigits(rest[7:9]) {
			return 0, false
		}
		h, mi, se := atoi(rest[1:3]), atoi(rest[4:6]), atoi(rest[7:9])
		if h > 23 || mi > 59 || se > 59 {
			return 0, false
		}
		rest = rest[9:]
		var milli int64
		if len(rest) > 0 && rest[0] == '.' {
			if len(rest) < 4 || !isDigits(rest[1:4]) {
				return 0, false
			}
			milli = atoi(rest[1:4])
			rest = rest[4:]
		}
		var off int64
		switch {
		case rest == "Z":
		case len(rest) == 5 && (rest[0] == '+' || rest[0] == '-') && isDigits(rest[1:5]):
			oh, om := atoi(rest[1:3]), atoi(rest[3:5])
			if oh > 23 || om > 59 {
				return 0, false
			}
			off = (oh*60 + om) * 60000
			if rest[0] == '-' {
				off = -off
			}
		default:
			return 0, false
		}
		total.Add(total, big.NewInt(((h*60+mi)*60+se)*1000+milli-off))
	}
	if !total.IsInt64() {
		return 0, false
	}
	return total.Int64(), true
}

// ParseDuration implements -?(Nd)?(Nh)?(Nm)?(Ns)?(Nms)? with at least one component.
func ParseDuration(s string) (ms int64, ok bool) {
	neg := false
	if strings.HasPrefix(s, "-") {
		neg = true
		s = s[1:]
	}
	if s == "" {
		return 0, false
	}
	units := []struct {
		u string
		f int64
	}{{"d", 86400000}, {"h", 3600000}, {"m", 60000}, {"s", 1000}, {"ms", 1}}
	total := new(big.Int)
	ui := 0
	seen := 0
	for s != "" {
		j := 0
		for j < len(s) && s[j] >= '0' && s[j] <= '9' {
			j++
		}
		if j == 0 {
			return 0, false
		}
		num, _ := new(big.Int).SetString(s[:j], 10)
		s = s[j:]
		var unit string
		switch {
		case strings.HasPrefix(s, "ms"):
			unit = "ms"
		case strings.HasPrefix(s, "d"), strings.HasPrefix(s, "h"), strings.HasPrefix(s, "m"), strings.HasPrefix(s, "s"):
			unit = s[:1]
		default:
			return 0, false
		}
		s = s[len(unit):]
		found := false
		for ui < len(units) {
			if units[ui].u == unit {
				total.Add(total, num.Mul(num, big.NewInt(units[ui].f)))
				ui++
				found = true
				break
			}
			ui++
		}
		if !found {
			return 0, false
		}
		seen++
	}
	if seen == 0 {
		return 0, false
	}
	if neg {
		total.Neg(total)
	}
	if !total.IsInt64() {
		return 0, false
	}
	return total.Int64(), true
}

// DurationMagnitudeOverflows reports whether the unsigned magnitude of a syntactically valid duration exceeds MaxInt64
// (only -MinInt64 magnitude is the grey zone: spec accepts, callers may carve it out).
func DurationIsMinEdge(s string) bool {
	ms, ok := ParseDuration(s)
	return ok && ms == -1<<63
}

// ParseDecimal implements -?[0-9]+\.[0-9]{1,4} with the result in int64 ten-thousandths.
func ParseDecimal(s string) (raw int64, ok bool) {
	t := s
	neg := false
	if strings.HasPrefix(t, "-") {
		neg = true
		t = t[1:]
	}
	dot := strings.IndexByte(t, '.')
	if dot < 0 {
		return 0, false
	}
	ip, fp := t[:dot], t[dot+1:]
	if !isDigits(ip) || !isDigits(fp) || len(fp) > 4 {
		return 0, false
	}
	for len(fp) < 4 {
		fp += "0"
	}
	n, _ := new(big.Int).SetString(ip+fp, 10)
	if neg {
		n.Neg(n)
	}
	if !n.IsInt64() {
		return 0, false
	}
	return n.Int64(), true
}

// ParseIP implements Appendix B. Returns 4- or 16-byte address and prefix length.
// grey=true marks spellings whose status the oracle does not assert (leading zeros in octets or prefix).
func ParseIP(s string) (addr []byte, prefix int, ok bool, grey bool) {
	host := s
	pfx := ""
	hasPfx := false
	if i := strings.IndexByte(s, '/'); i >= 0 {
		host, pfx, hasPfx = s[:i], s[i+1:], true
	}
	if strings.Contains(host, ":") {
		addr, ok = parseV6(host)
	} else {
		addr, ok, grey = parseV4(host)
	}
	if !ok {
		return nil, 0, false, grey
	}
	bits := len(addr) * 8
	prefix = bits
	if hasPfx {
		if !isDigits(pfx) || len(pfx) > 3 {
			return nil, 0, false, false
		}
		if len(pfx) > 1 && pfx[0] == '0' {
			grey = true
		}
		prefix = int(atoi(pfx))
		if prefix > bits {
			return nil, 0, false, grey
		}
	}
	return addr, prefix, true, grey
}

func parseV4(s string) ([]byte, bool, bool) {
	parts := strings.Split(s, ".")
	if len(parts) != 4 {
		return nil, false, false
	}
	out := make([]byte, 4)
	grey := false
	for i, p := range parts {
		if !isDigits(p) || len(p) > 3 {
			return nil, false, false
		}
		if len(p) > 1 && p[0] == '0' {
			grey = true
		}
		n := atoi(p)
		if n > 255 {
			return nil, false, false
		}
		out[i] = byte(n)
	}
	return out, true, grey
}

func parseV6(s string) ([]byte, bool) {
	if strings.Contains(s, ".") || strings.Contains(s, "%") {
		return nil, false
	}
	parseGroups := func(t string) ([]uint16, bool) {
		if t == "" {
			return nil, true
		}
		var gs []uint16
		for _, g := range strings.Split(t, ":") {
			if len(g) < 1 || len(g) > 4 {
				return nil, false
			}
			var n uint16
			for i := 0; i < len(g); i++ {
				c := g[i]
				var d byte
				switch {
				case c >= '0' && c <= '9':
					d = c - '0'
				case c >= 'a' && c <= 'f':
					d = c - 'a' + 10
				case c >= 'A' && c <= 'F':
					d = c - 'A' + 10
				default:
					return nil, false
				}
				n = n<<4 | uint16(d)
			}
			gs = append(gs, n)
		}
		return gs, true
	}
	var groups []uint16
	if i := strings.Index(s, "::"); i >= 0 {
		if strings.Contains(s[i+2:], "::") {
			return nil, false
		}
		l, ok1 := parseGroups(s[:i])
		r, ok2 := parseGroups(s[i+2:])
		if !ok1 || !ok2 || len(l)+len(r) > 7 {
			return nil, false
		}
		groups = append(groups, l...)
		for k := 0; k < 8-len(l)-len(r); k++ {
			groups = append(groups, 0)
		}
		groups = append(groups, r...)
	} else {
		g, ok := parseGroups(s)
		if !ok || len(g) != 8 {
			return nil, false
		}
		groups = g
	}
	out := make([]byte, 16)
	for i, g := range groups {
		out[2*i] = byte(g >> 8)
		out[2*i+1] = byte(g)
	}
	return out, true
}

// MaskAddr returns addr with all bits beyond prefix cleared.
func MaskAddr(addr []byte, prefix int) []byte {
	out := make([]byte, len(addr))
	for i := range addr {
		bitsLeft := prefix - 8*i
		switch {
		case bitsLeft >= 8:
			out[i] = addr[i]
		case bitsLeft <= 0:
			out[i] = 0
		default:
			out[i] = addr[i] & (0xff << (8 - bitsLeft))
		}
	}
	return out
}

// LikeMatch is the reference wildcard matcher (iterative two-pointer with backtracking over bytes;
// on valid UTF-8 this is the same as matching over characters).
// pattern elements: wild or literal string.
type PatElem struct {
	Wild bool
	Lit  string
}

func LikeMatch(p []PatElem, s string) bool {
	// flatten to tokens: -1 = wildcard, else byte
	var toks []int
	for _, e := range p {
		if e.Wild {
			toks = append(toks, -1)
		} else {
			for i := 0; i < len(e.Lit); i++ {
				toks = append(toks, int(e.Lit[i]))
			}
		}
	}
	// dynamic programming: reach[j] = pattern prefix j can match current subject prefix
	reach := make([]bool, len(toks)+1)
	reach[0] = true
	for j := 0; j < len(toks) && toks[j] == -1; j++ {
		reach[j+1] = true
	}
	for i := 0; i < len(s); i++ {
		next := make([]bool, len(toks)+1)
		for j := 0; j < len(toks); j++ {
			if toks[j] == -1 {
				if reach[j] || reach[j+1] || next[j] {
					next[j+1] = true
				}
			} else if reach[j] && toks[j] == int(s[i]) {
				next[j+1] = true
			}
		}
		// wildcard can also match empty after consuming: propagate
		for j := 0; j < len(toks); j++ {
			if toks[j] == -1 && next[j] {
				next[j+1] = true
			}
		}
		reach = next
	}
	return reach[len(toks)]
}

// ---------------------------------------------------------------------------------------------
// Canonical printers (own code). They produce one accepted spelling of each value.

func FormatDecimal(raw int64) string {
	n := big.NewInt(raw)
	neg := n.Sign() < 0
	n.Abs(n)
	q, r := new(big.Int).QuoRem(n, big.NewInt(10000), new(big.Int))
	fr := r.String()
	for len(fr) < 4 {
		fr = "0" + fr
	}
	for len(fr) > 1 && fr[len(fr)-1] == '0' {
		fr = fr[:len(fr)-1]
	}
	s := q.String() + "." + fr
	if neg {
		s = "-" + s
	}
	return s
}

func pad(n int64, w int) string {
	s := big.NewInt(n).String()
	for len(s) < w {
		s = "0" + s
	}
	return s
}

// FormatDatetime prints ms since epoch as (±YYYYYYYYY|YYYY)-MM-DDThh:mm:ss.SSSZ.
func FormatDatetime(ms int64) string {
	days := floorDiv(ms, MsPerDay)
	rem := ms - days*MsPerDay
	y, m, d := CivilFromDays(days)
	h := rem / 3600000
	mi := rem / 60000 % 60
	se := rem / 1000 % 60
	ml := rem % 1000
	var ys string
	switch {
	case y >= 0 && y <= 9999:
		ys = pad(y, 4)
	case y < 0:
		ys = "-" + pad(-y, 9)
	default:
		ys = "+" + pad(y, 9)
	}
	return ys + "-" + pad(m, 2) + "-" + pad(d, 2) + "T" + pad(h, 2) + ":" + pad(mi, 2) + ":" + pad(se, 2) + "." + pad(ml, 3) + "Z"
}

// FormatDuration prints ms as -?NdNhNmNsNms (zero components omitted; 0 = "0ms").
func FormatDuration(ms int64) string {
	if ms == 0 {
		return "0ms"
	}
	n := big.NewInt(ms)
	s := ""
	if n.Sign() < 0 {
		s = "-"
		n.Abs(n)
	}
	units := []struct {
		u string
		f int64
	}{{"d", 86400000}, {"h", 3600000}, {"m", 60000}, {"s", 1000}, {"ms", 1}}
	for _, u := range units {
		q, r := new(big.Int).QuoRem(n, big.NewInt(u.f), new(big.Int))
		if q.Sign() > 0 {
			s += q.String() + u.u
		}
		n = r
	}
	return s
}

// FormatIP prints v4 dotted quad or v6 as eight lower-case hex groups without compression, plus /prefix when not full.
func FormatIP(addr []byte, prefix int) string {
	var s string
	if len(addr) == 4 {
		s = big.NewInt(int64(addr[0])).String() + "." + big.NewInt(int64(addr[1])).String() + "." + big.NewInt(int64(addr[2])).String() + "." + big.NewInt(int64(addr[3])).String()
	} else {
		const hexd = "0123456789abcdef"
		for i := 0; i < 8; i++ {
			if i > 0 {
				s += ":"
			}
			g := uint16(addr[2*i])<<8 | uint16(addr[2*i+1])
			started := false
			for sh := 12; sh >= 0; sh -= 4 {
				d := (g >> uint(sh)) & 0xf
				if d != 0 || started || sh == 0 {
					s += string(hexd[d])
					started = true
				}
			}
		}
	}
	if prefix != len(addr)*8 {
		s += "/" + big.NewInt(int64(prefix)).String()
	}
	return s
}
