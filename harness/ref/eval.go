package ref

import (
	"math/big"

	"verif/ir"
)

// ErrSet is a bit set of error classes. Zero means "no error".
type ErrSet uint16

const (
	EType ErrSet = 1 << iota
	EOverflow
	EAttr
	ETag
	EEntity
	EExt
	EArity
	ENoFunc
)

var errNames = []struct {
	b ErrSet
	n string
}{{EType, "type"}, {EOverflow, "overflow"}, {EAttr, "attr"}, {ETag, "tag"}, {EEntity, "entity"}, {EExt, "ext"}, {EArity, "arity"}, {ENoFunc, "nofunc"}}

func (e ErrSet) String() string {
	if e == 0 {
		return "ok"
	}
	s := ""
	for _, x := range errNames {
		if e&x.b != 0 {
			if s != "" {
				s += "|"
			}
			s += x.n
		}
	}
	return s
}

// Env is a store plus a request, indexed for lookup.
type Env struct {
	Store ir.Store
	Req   ir.Request
	idx   map[string]int
}

func NewEnv(s ir.Store, r ir.Request) *Env {
	e := &Env{Store: s, Req: r, idx: map[string]int{}}
	for i, ent := range s {
		e.idx[ent.UID.T+"\x00"+ent.UID.S] = i // last wins
	}
	return e
}

func (e *Env) Get(uid ir.Value) (ir.Entity, bool) {
	i, ok := e.idx[uid.T+"\x00"+uid.S]
	if !ok {
		return ir.Entity{}, false
	}
	return e.Store[i], true
}

// Reach: reflexive-transitive closure over parent links of entities present in the store (fixpoint).
func (e *Env) Reach(a, b ir.Value) bool {
	if ir.Equal(a, b) {
		return true
	}
	seen := map[string]bool{a.T + "\x00" + a.S: true}
	frontier := []ir.Value{a}
	for len(frontier) > 0 {
		var next []ir.Value
		for _, x := range frontier {
			ent, ok := e.Get(x)
			if !ok {
				continue
			}
			for _, p := range ent.Parents {
				if ir.Equal(p, b) {
					return true
				}
				k := p.T + "\x00" + p.S
				if !seen[k] {
					seen[k] = true
					next = append(next, p)
				}
			}
		}
		frontier = next
	}
	return false
}

var (
	minI64 = big.NewInt(-1 << 63)
	maxI64 = new(big.Int).SetUint64(1<<63 - 1)
)

func inRange(x *big.Int) bool { return x.Cmp(minI64) >= 0 && x.Cmp(maxI64) <= 0 }

type res struct {
	v   ir.Value
	err ErrSet
}

func ok(v ir.Value) res    { return res{v: v} }
func fail(e ErrSet) res    { return res{err: e} }
func (r res) failed() bool { return r.err != 0 }

// Eval evaluates e and returns (value, 0) or (_, non-empty error class set).
func Eval(e *ir.Expr, env *Env) (ir.Value, ErrSet) {
	r := eval(e, env)
	return r.v, r.err
}

// evalArgsTyped implements the rule for non-short-circuit operators: operands left to right; the set of classes any
// conforming order (all operands first vs. check-as-you-go) could report.
// want[i] == "" means any type is accepted.
func evalArgsTyped(args []*ir.Expr, env *Env, want []func(ir.Value) bool) ([]ir.Value, ErrSet) {
	vals := make([]ir.Value, len(args))
	var errs ErrSet
	typeBad := false
	for i, a := range args {
		r := eval(a, env)
		if r.failed() {
			// an operand failure: reported by both orders (possibly together with an earlier type error)
			errs |= r.err
			return nil, errs
		}
		vals[i] = r.v
		if want[i] != nil && !want[i](r.v) {
			typeBad = true
			errs |= EType
			// check-as-you-go order stops here with a type error; the all-operands-first order continues and may
			// hit a later operand failure instead. Continue to collect those.
		}
	}
	if typeBad {
		return nil, errs
	}
	return vals, 0
}

func isK(k ir.Kind) func(ir.Value) bool { return func(v ir.Value) bool { return v.K == k } }

var (
	isBool     = isK(ir.KBool)
	isLong     = isK(ir.KLong)
	isString   = isK(ir.KString)
	isEntity   = isK(ir.KEntity)
	isSet      = isK(ir.KSet)
	isDecimal  = isK(ir.KDecimal)
	isIPv      = isK(ir.KIP)
	isDatetime = isK(ir.KDatetime)
	isDuration = isK(ir.KDuration)
)

func eval(e *ir.Expr, env *Env) res {
	switch e.Op {
	case ir.OpLit:
		return ok(*e.Lit)
	case ir.OpVar:
		switch e.Name {
		case "principal":
			return ok(env.Req.Principal)
		case "action":
			return ok(env.Req.Action)
		case "resource":
			return ok(env.Req.Resource)
		default:
			return ok(env.Req.Context)
		}
	case ir.OpAnd, ir.OpOr:
		l := eval(e.Args[0], env)
		if l.failed() {
			return l
		}
		if l.v.K != ir.KBool {
			return fail(EType)
		}
		if e.Op == ir.OpAnd && !l.v.B {
			return ok(ir.Bool(false))
		}
		if e.Op == ir.OpOr && l.v.B {
			return ok(ir.Bool(true))
		}
		r := eval(e.Args[1], env)
		if r.failed() {
			return r
		}
		if r.v.K != ir.KBool {
			return fail(EType)
		}
		return ok(r.v)
	case ir.OpNot:
		a := eval(e.Args[0], env)
		if a.failed() {
			return a
		}
		if a.v.K != ir.KBool {
			return fail(EType)
		}
		return ok(ir.Bool(!a.v.B))
	case ir.OpIf:
		c := eval(e.Args[0], env)
		if c.failed() {
			return c
		}
		if c.v.K != ir.KBool {
			return fail(EType)
		}
		if c.v.B {
			return eval(e.Args[1], env)
		}
		return eval(e.Args[2], env)
	case ir.OpEq, ir.OpNe:
		vs, er := evalArgsTyped(e.Args, env, []func(ir.Value) bool{nil, nil})
		if er != 0 {
			return fail(er)
		}
		eq := ir.Equal(vs[0], vs[1])
		return ok(ir.Bool(eq == (e.Op == ir.OpEq)))
	case ir.OpLt, ir.OpLe, ir.OpGt, ir.OpGe:
		comparable := func(v ir.Value) bool { return v.K == ir.KLong || v.K == ir.KDatetime || v.K == ir.KDuration }
		vs, er := evalArgsTyped(e.Args, env, []func(ir.Value) bool{comparable, comparable})
		if er != 0 {
			return fail(er)
		}
		if vs[0].K != vs[1].K {
			return fail(EType)
		}
		a, b := vs[0].I, vs[1].I
		var r bool
		switch e.Op {
		case ir.OpLt:
			r = a < b
		case ir.OpLe:
			r = a <= b
		case ir.OpGt:
			r = a > b
		default:
			r = a >= b
		}
		return ok(ir.Bool(r))
	case ir.OpAdd, ir.OpSub, ir.OpMul:
		vs, er := evalArgsTyped(e.Args, env, []func(ir.Value) bool{isLong, isLong})
		if er != 0 {
			return fail(er)
		}
		a, b := big.NewInt(vs[0].I), big.NewInt(vs[1].I)
		z := new(big.Int)
		switch e.Op {
		case ir.OpAdd:
			z.Add(a, b)
		case ir.OpSub:
			z.Sub(a, b)
		default:
			z.Mul(a, b)
		}
		if !inRange(z) {
			return fail(EOverflow)
		}
		return ok(ir.Long(z.Int64()))
	case ir.OpNeg:
		vs, er := evalArgsTyped(e.Args, env, []func(ir.Value) bool{isLong})
		if er != 0 {
			return fail(er)
		}
		z := new(big.Int).Neg(big.NewInt(vs[0].I))
		if !inRange(z) {
			return fail(EOverflow)
		}
		return ok(ir.Long(z.Int64()))
	case ir.OpIn:
		entOrSet := func(v ir.Value) bool { return v.K == ir.KEntity || v.K == ir.KSet }
		vs, er := evalArgsTyped(e.Args, env, []func(ir.Value) bool{isEntity, entOrSet})
		if er != 0 {
			return fail(er)
		}
		return inTarget(env, vs[0], vs[1])
	case ir.OpIs:
		vs, er := evalArgsTyped(e.Args, env, []func(ir.Value) bool{isEntity})
		if er != 0 {
			return fail(er)
		}
		return ok(ir.Bool(vs[0].T == e.Name))
	case ir.OpIsIn:
		l := eval(e.Args[0], env)
		if l.failed() {
			return l
		}
		if l.v.K != ir.KEntity {
			// cedar-go reports the type error at once; a spec-order evaluator (`l is T && l in r`) does too
			return fail(EType)
		}
		if l.v.T != e.Name {
			return ok(ir.Bool(false))
		}
		r := eval(e.Args[1], env)
		if r.failed() {
			return r
		}
		if r.v.K != ir.KEntity && r.v.K != ir.KSet {
			return fail(EType)
		}
		return inTarget(env, l.v, r.v)
	case ir.OpHas:
		a := eval(e.Args[0], env)
		if a.failed() {
			return a
		}
		switch a.v.K {
		case ir.KRecord:
			_, has := a.v.Get(e.Name)
			return ok(ir.Bool(has))
		case ir.KEntity:
			ent, present := env.Get(a.v)
			if !present {
				return ok(ir.Bool(false))
			}
			return ok(ir.Bool(fieldHas(ent.Attrs, e.Name)))
		}
		return fail(EType)
	case ir.OpAccess:
		a := eval(e.Args[0], env)
		if a.failed() {
			return a
		}
		switch a.v.K {
		case ir.KRecord:
			v, has := a.v.Get(e.Name)
			if !has {
				return fail(EAttr)
			}
			return ok(v)
		case ir.KEntity:
			ent, present := env.Get(a.v)
			if !present {
				return fail(EEntity)
			}
			v, has := fieldGet(ent.Attrs, e.Name)
			if !has {
				return fail(EAttr)
			}
			return ok(v)
		}
		return fail(EType)
	case ir.OpHasTag, ir.OpGetTag:
		vs, er := evalArgsTyped(e.Args, env, []func(ir.Value) bool{isEntity, isString})
		if er != 0 {
			return fail(er)
		}
		ent, present := env.Get(vs[0])
		if e.Op == ir.OpHasTag {
			if !present {
				return ok(ir.Bool(false))
			}
			return ok(ir.Bool(fieldHas(ent.Tags, vs[1].S)))
		}
		if !present {
			return fail(EEntity)
		}
		v, has := fieldGet(ent.Tags, vs[1].S)
		if !has {
			return fail(ETag)
		}
		return ok(v)
	case ir.OpLike:
		vs, er := evalArgsTyped(e.Args, env, []func(ir.Value) bool{isString})
		if er != 0 {
			return fail(er)
		}
		p := make([]PatElem, len(e.Pat))
		for i, c := range e.Pat {
			p[i] = PatElem{Wild: c.Wild, Lit: c.Lit}
		}
		return ok(ir.Bool(LikeMatch(p, vs[0].S)))
	case ir.OpContains:
		vs, er := evalArgsTyped(e.Args, env, []func(ir.Value) bool{isSet, nil})
		if er != 0 {
			return fail(er)
		}
		return ok(ir.Bool(vs[0].Contains(vs[1])))
	case ir.OpContainsAll, ir.OpContainsAny:
		vs, er := evalArgsTyped(e.Args, env, []func(ir.Value) bool{isSet, isSet})
		if er != 0 {
			return fail(er)
		}
		if e.Op == ir.OpContainsAll {
			for _, m := range vs[1].Elems {
				if !vs[0].Contains(m) {
					return ok(ir.Bool(false))
				}
			}
			return ok(ir.Bool(true))
		}
		for _, m := range vs[1].Elems {
			if vs[0].Contains(m) {
				return ok(ir.Bool(true))
			}
		}
		return ok(ir.Bool(false))
	case ir.OpIsEmpty:
		vs, er := evalArgsTyped(e.Args, env, []func(ir.Value) bool{isSet})
		if er != 0 {
			return fail(er)
		}
		return ok(ir.Bool(len(vs[0].Elems) == 0))
	case ir.OpSet:
		out := ir.Value{K: ir.KSet}
		for _, a := range e.Args {
			r := eval(a, env)
			if r.failed() {
				return r
			}
			if !out.Contains(r.v) {
				out.Elems = append(out.Elems, r.v)
			}
		}
		return ok(out)
	case ir.OpRecord:
		out := ir.Value{K: ir.KRecord}
		var errs ErrSet
		for i, a := range e.Args {
			r := eval(a, env)
			if r.failed() {
				errs |= r.err
				continue
			}
			// duplicate keys (not generated): last wins
			replaced := false
			for j := range out.Fields {
				if out.Fields[j].K == e.Keys[i] {
					out.Fields[j].V = r.v
					replaced = true
				}
			}
			if !replaced {
				out.Fields = append(out.Fields, ir.F(e.Keys[i], r.v))
			}
		}
		if errs != 0 {
			return fail(errs)
		}
		return ok(out)
	case ir.OpExt:
		return evalExt(e, env)
	}
	panic("ref.eval: bad op " + string(e.Op))
}

func fieldHas(fs []ir.Field, k string) bool { _, okk := fieldGet(fs, k); return okk }

func fieldGet(fs []ir.Field, k string) (ir.Value, bool) {
	for i := len(fs) - 1; i >= 0; i-- {
		if fs[i].K == k {
			return fs[i].V, true
		}
	}
	return ir.Value{}, false
}

func inTarget(env *Env, a, t ir.Value) res {
	if t.K == ir.KEntity {
		return ok(ir.Bool(env.Reach(a, t)))
	}
	// every member must be an entity, else type error
	for _, m := range t.Elems {
		if m.K != ir.KEntity {
			return fail(EType)
		}
	}
	for _, m := range t.Elems {
		if env.Reach(a, m) {
			return ok(ir.Bool(true))
		}
	}
	return ok(ir.Bool(false))
}

// ExtArity lists the known extension functions and their argument counts (receiver included).
var ExtArity = map[string]int{
	"decimal": 1, "ip": 1, "datetime": 1, "duration": 1,
	"lessThan": 2, "lessThanOrEqual": 2, "greaterThan": 2, "greaterThanOrEqual": 2,
	"isIpv4": 1, "isIpv6": 1, "isLoopback": 1, "isMulticast": 1, "isInRange": 2,
	"toDate": 1, "toTime": 1, "offset": 2, "durationSince": 2,
	"toMilliseconds": 1, "toSeconds": 1, "toMinutes": 1, "toHours": 1, "toDays": 1,
}

// ExtIsMethod tells whether Cedar syntax writes the function in method style.
func ExtIsMethod(name string) bool {
	switch name {
	case "decimal", "ip", "datetime", "duration":
		return false
	}
	_, known := ExtArity[name]
	return known
}

func evalExt(e *ir.Expr, env *Env) res {
	n, known := ExtArity[e.Name]
	if !known {
		return fail(ENoFunc)
	}
	if n != len(e.Args) {
		return fail(EArity)
	}
	var want []func(ir.Value) bool
	switch e.Name {
	case "decimal", "ip", "datetime", "duration":
		want = []func(ir.Value) bool{isString}
	case "lessThan", "lessThanOrEqual", "greaterThan", "greaterThanOrEqual":
		want = []func(ir.Value) bool{isDecimal, isDecimal}
	case "isIpv4", "isIpv6", "isLoopback", "isMulticast":
		want = []func(ir.Value) bool{isIPv}
	case "isInRange":
		want = []func(ir.Value) bool{isIPv, isIPv}
	case "toDate", "toTime":
		want = []func(ir.Value) bool{isDatetime}
	case "offset":
		want = []func(ir.Value) bool{isDatetime, isDuration}
	case "durationSince":
		want = []func(ir.Value) bool{isDatetime, isDatetime}
	default:
		want = []func(ir.Value) bool{isDuration}
	}
	vs, er := evalArgsTyped(e.Args, env, want)
	if er != 0 {
		return fail(er)
	}
	switch e.Name {
	case "decimal":
		raw, good := ParseDecimal(vs[0].S)
		if !good {
			return fail(EExt)
		}
		return ok(ir.Decimal(raw))
	case "ip":
		addr, pfx, good, _ := ParseIP(vs[0].S)
		if !good {
			return fail(EExt)
		}
		return ok(ir.IP(addr, pfx))
	case "datetime":
		ms, good := ParseDatetime(vs[0].S)
		if !good {
			return fail(EExt)
		}
		return ok(ir.Datetime(ms))
	case "duration":
		ms, good := ParseDuration(vs[0].S)
		if !good {
			return fail(EExt)
		}
		return ok(ir.Duration(ms))
	case "lessThan":
		return ok(ir.Bool(vs[0].I < vs[1].I))
	case "lessThanOrEqual":
		return ok(ir.Bool(vs[0].I <= vs[1].I))
	case "greaterThan":
		return ok(ir.Bool(vs[0].I > vs[1].I))
	case "greaterThanOrEqual":
		return ok(ir.Bool(vs[0].I >= vs[1].I))
	case "isIpv4":
		return ok(ir.Bool(!vs[0].IP.V6()))
	case "isIpv6":
		return ok(ir.Bool(vs[0].IP.V6()))
	case "isLoopback":
		return ok(ir.Bool(IPIsLoopback(*vs[0].IP)))
	case "isMulticast":
		return ok(ir.Bool(IPIsMulticast(*vs[0].IP)))
	case "isInRange":
		return ok(ir.Bool(IPInRange(*vs[0].IP, *vs[1].IP)))
	case "toDate":
		d := floorDiv(vs[0].I, MsPerDay)
		z := new(big.Int).Mul(big.NewInt(d), big.NewInt(MsPerDay))
		if !inRange(z) {
			return fail(EOverflow)
		}
		return ok(ir.Datetime(z.Int64()))
	case "toTime":
		r := vs[0].I % MsPerDay
		if r < 0 {
			r += MsPerDay
		}
		return ok(ir.Duration(r))
	case "offset":
		z := new(big.Int).Add(big.NewInt(vs[0].I), big.NewInt(vs[1].I))
		if !inRange(z) {
			return fail(EOverflow)
		}
		return ok(ir.Datetime(z.Int64()))
	case "durationSince":
		z := new(big.Int).Sub(big.NewInt(vs[0].I), big.NewInt(vs[1].I))
		if !inRange(z) {
			return fail(EOverflow)
		}
		return ok(ir.Duration(z.Int64()))
	case "toMilliseconds":
		return ok(ir.Long(vs[0].I))
	case "toSeconds":
		return ok(ir.Long(vs[0].I / 1000))
	case "toMinutes":
		return ok(ir.Long(vs[0].I / 60000))
	case "toHours":
		return ok(ir.Long(vs[0].I / 3600000))
	case "toDays":
		return ok(ir.Long(vs[0].I / 86400000))
	}
	panic("unreachable ext " + e.Name)
}

func IPIsLoopback(ip ir.IPVal) bool {
	m := MaskAddr(ip.Addr, ip.Prefix)
	if !ip.V6() {
		return m[0] == 127
	}
	for i := 0; i < 15; i++ {
		if m[i] != 0 {
			return false
		}
	}
	return m[15] == 1
}

func IPIsMulticast(ip ir.IPVal) bool {
	if !ip.V6() {
		return ip.Addr[0]&0xf0 == 0xe0 && ip.Prefix >= 4
	}
	return ip.Addr[0] == 0xff && ip.Prefix >= 8
}

// IPInRange: a.isInRange(b).
func IPInRange(a, b ir.IPVal) bool {
	if a.V6() != b.V6() || a.Prefix < b.Prefix {
		return false
	}
	return string(MaskAddr(a.Addr, b.Prefix)) == string(MaskAddr(b.Addr, b.Prefix))
}

// ---------------------------------------------------------------------------------------------
// Policies and the authorizer

type Outcome int

const (
	Unsatisfied Outcome = iota
	Satisfied
	Erroring
)

func (o Outcome) String() string { return [...]string{"unsatisfied", "satisfied", "erroring"}[o] }

// ClassOf maps an expression result to a policy-condition outcome: true / false / (error or non-bool).
func ClassOf(v ir.Value, er ErrSet) Outcome {
	if er != 0 || v.K != ir.KBool {
		return Erroring
	}
	if v.B {
		return Satisfied
	}
	return Unsatisfied
}

// PolicyOutcome evaluates the conjunction of the policy's conjuncts with short-circuit.
// The returned ErrSet is the class set of the failure (EType for a non-boolean condition).
func PolicyOutcome(p *ir.Policy, env *Env) (Outcome, ErrSet) {
	for _, c := range p.Conjuncts() {
		v, er := Eval(c, env)
		if er != 0 {
			return Erroring, er
		}
		if v.K != ir.KBool {
			return Erroring, EType
		}
		if !v.B {
			return Unsatisfied, 0
		}
	}
	return Satisfied, 0
}

type Decision struct {
	Allow   bool
	Reasons []string // policy ids
	Errors  []string
}

// Authorize is the literal transcription of the C02 statement. ids[i] names policies[i].
func Authorize(ids []string, policies []*ir.Policy, env *Env) Decision {
	var permits, forbids, errs []string
	for i, p := range policies {
		o, _ := PolicyOutcome(p, env)
		switch o {
		case Erroring:
			errs = append(errs, ids[i])
		case Satisfied:
			if p.Permit {
				permits = append(permits, ids[i])
			} else {
				forbids = append(forbids, ids[i])
			}
		}
	}
	d := Decision{Errors: errs}
	if len(forbids) > 0 {
		d.Reasons = forbids
		return d
	}
	if len(permits) > 0 {
		d.Allow = true
		d.Reasons = permits
	}
	return d
}
