package ref

import (
	"math/big"
	"unicode/utf8"
)

// UnquoteCedar is the harness's own recogniser for the body of a Cedar string literal (the text between the quotes), written from
// DESIGN.md appendix B: any character other than `"`, `\` and a line break stands for itself; escapes are \n \r \t \\ \0 \' \"
// \xHH (two hex digits, value <= 0x7f) and \u{H...} (1-6 hex digits denoting a Unicode scalar value).
// grey=true: the body contains a raw line break (CR, LF, NEL, LS, PS), whose status the oracle does not assert.
func UnquoteCedar(body string) (s string, ok bool, grey bool) {
	if !utf8.ValidString(body) {
		return "", false, false
	}
	var out []rune
	rs := []rune(body)
	hex := func(r rune) (int, bool) {
		switch {
		case r >= '0' && r <= '9':
			return int(r - '0'), true
		case r >= 'a' && r <= 'f':
			return int(r-'a') + 10, true
		case r >= 'A' && r <= 'F':
			return int(r-'A') + 10, true
		}
		return 0, false
	}
	for i := 0; i < len(rs); i++ {
		r := rs[i]
		switch r {
		case '"':
			return "", false, grey
		case '\n', '\r', 0x85, 0x2028, 0x2029:
			grey = true
			out = append(out, r)
			continue
		case '\\':
		default:
			out = append(out, r)
			continue
		}
		i++
		if i >= len(rs) {
			return "", false, grey
		}
		switch rs[i] {
		case 'n':
			out = append(out, '\n')
		case 'r':
			out = append(out, '\r')
		case 't':
			out = append(out, '\t')
		case '\\':
			out = append(out, '\\')
		case '0':
			out = append(out, 0)
		case '\'':
			out = append(out, '\'')
		case '"':
			out = append(out, '"')
		case 'x':
			if i+2 >= len(rs) {
				return "", false, grey
			}
			a, ok1 := hex(rs[i+1])
			b, ok2 := hex(rs[i+2])
			if !ok1 || !ok2 || a*16+b > 0x7f {
				return "", false, grey
			}
			out = append(out, rune(a*16+b))
			i += 2
		case 'u':
			if i+1 >= len(rs) || rs[i+1] != '{' {
				return "", false, grey
			}
			j := i + 2
			n, digits := 0, 0
			for ; j < len(rs) && rs[j] != '}'; j++ {
				d, okd := hex(rs[j])
				if !okd || digits >= 6 {
					return "", false, grey
				}
				n = n*16 + d
				digits++
			}
			if j >= len(rs) || digits == 0 || n > 0x10ffff || (n >= 0xd800 && n <= 0xdfff) {
				return "", false, grey
			}
			out = append(out, rune(n))
			i = j
		default:
			return "", false, grey
		}
	}
	return string(out), true, grey
}

// FormatLong prints an int64 in decimal through math/big (independent of strconv/fmt integer formatting paths under test).
func FormatLong(i int64) string { return big.NewInt(i).String() }

// ParseLongLiteral recognises -?[0-9]+ within the int64 range.
func ParseLongLiteral(s string) (int64, bool) {
	t := s
	if len(t) > 0 && t[0] == '-' {
		t = t[1:]
	}
	if !isDigits(t) {
		return 0, false
	}
	n, _ := new(big.Int).SetString(s, 10)
	if n == nil || !n.IsInt64() {
		return 0, false
	}
	return n.Int64(), true
}
