package c10

// Structure-aware mutation machinery: an order-preserving JSON tree (own parser/serialiser so that duplicate members,
// raw garbage scalars and member order survive), a small tokenizer for Cedar policy / schema text, and byte-level edits.
// All random choices are drawn from rapid.

import (
	"bytes"
	"encoding/json"
	"fmt"
	"strconv"
	"strings"

	"pgregory.net/rapid"
)

// ---------------------------------------------------------------------------------------------
// ordered JSON tree

type jkind int

const (
	jRaw jkind = iota // literal text written as is (null, true, numbers, deliberately broken tokens)
	jStr
	jArr
	jObj
)

type jnode struct {
	k     jkind
	s     string   // raw text (jRaw) or string value (jStr)
	elems []*jnode // members / elements
	keys  []string // parallel to elems for objects
}

func raw(s string) *jnode { return &jnode{k: jRaw, s: s} }

func parseJ(b []byte) (*jnode, error) {
	dec := json.NewDecoder(bytes.NewReader(b))
	dec.UseNumber()
	n, err := parseJValue(dec)
	if err != nil {
		return nil, err
	}
	if dec.More() {
		return nil, fmt.Errorf("trailing data")
	}
	return n, nil
}

func parseJValue(dec *json.Decoder) (*jnode, error) {
	tok, err := dec.Token()
	if err != nil {
		return nil, err
	}
	switch t := tok.(type) {
	case json.Delim:
		switch t {
		case '[':
			n := &jnode{k: jArr}
			for dec.More() {
				c, err := parseJValue(dec)
				if err != nil {
					return nil, err
				}
				n.elems = append(n.elems, c)
			}
			_, err := dec.Token()
			return n, err
		case '{':
			n := &jnode{k: jObj}
			for dec.More() {
				kt, err := dec.Token()
				if err != nil {
					return nil, err
				}
				ks, ok := kt.(string)
				if !ok {
					return nil, fmt.Errorf("non-string key")
				}
				c, err := parseJValue(dec)
				if err != nil {
					return nil, err
				}
				n.keys = append(n.keys, ks)
				n.elems = append(n.elems, c)
			}
			_, err := dec.Token()
			return n, err
		}
		return nil, fmt.Errorf("unexpected delimiter %v", t)
	case string:
		return &jnode{k: jStr, s: t}, nil
	case json.Number:
		return raw(t.String()), nil
	case bool:
		return raw(strconv.FormatBool(t)), nil
	case nil:
		return raw("null"), nil
	}
	return nil, fmt.Errorf("unexpected token %v", tok)
}

func quoteJ(s string) string {
	b, _ := json.Marshal(s)
	return string(b)
}

func (n *jnode) write(sb *strings.Builder) {
	switch n.k {
	case jRaw:
		sb.WriteString(n.s)
	case jStr:
		sb.WriteString(quoteJ(n.s))
	case jArr:
		sb.WriteByte('[')
		for i, e := range n.elems {
			if i > 0 {
				sb.WriteByte(',')
			}
			e.write(sb)
		}
		sb.WriteByte(']')
	case jObj:
		sb.WriteByte('{')
		for i, e := range n.elems {
			if i > 0 {
				sb.WriteByte(',')
			}
			sb.WriteString(quoteJ(n.keys[i]))
			sb.WriteByte(':')
			e.write(sb)
		}
		sb.WriteByte('}')
	}
}

func (n *jnode) String() string {
	var sb strings.Builder
	n.write(&sb)
	return sb.String()
}

func (n *jnode) clone() *jnode {
	c := &jnode{k: n.k, s: n.s}
	if n.keys != nil {
		c.keys = append([]string(nil), n.keys...)
	}
	for _, e := range n.elems {
		c.elems = append(c.elems, e.clone())
	}
	return c
}

// jref addresses a node through its parent (parent == nil: the root).
type jref struct {
	parent *jnode
	idx    int
	path   string
}

// refs lists every node in preorder.
func refs(root *jnode) []jref {
	out := []jref{{nil, 0, "$"}}
	var walk func(n *jnode, path string)
	walk = func(n *jnode, path string) {
		for i, c := range n.elems {
			p := path
			if n.k == jObj {
				p += "." + n.keys[i]
			} else {
				p += "[" + strconv.Itoa(i) + "]"
			}
			out = append(out, jref{n, i, p})
			walk(c, p)
		}
	}
	walk(root, "$")
	return out
}

type jdoc struct{ root *jnode }

func (d *jdoc) get(r jref) *jnode {
	if r.parent == nil {
		return d.root
	}
	return r.parent.elems[r.idx]
}

func (d *jdoc) set(r jref, n *jnode) {
	if r.parent == nil {
		d.root = n
		return
	}
	r.parent.elems[r.idx] = n
}

// remove deletes the addressed member / element; the root cannot be removed (it becomes an empty document).
func (d *jdoc) remove(r jref) {
	if r.parent == nil {
		d.root = raw("")
		return
	}
	p := r.parent
	p.elems = append(p.elems[:r.idx:r.idx], p.elems[r.idx+1:]...)
	if p.k == jObj {
		p.keys = append(p.keys[:r.idx:r.idx], p.keys[r.idx+1:]...)
	}
}

func (d *jdoc) duplicate(r jref) {
	if r.parent == nil {
		return
	}
	p := r.parent
	c := p.elems[r.idx].clone()
	p.elems = append(p.elems, c)
	if p.k == jObj {
		p.keys = append(p.keys, p.keys[r.idx])
	}
}

// jsonKeyDict: member names understood by the JSON formats (policy, policy set, entities, values, requests, schema).
var jsonKeyDict = []string{"Value", "Var", "!", "neg", "isEmpty", "==", "!=", "in", "<", "<=", ">", ">=", "&&", "||", "+", "-", "*", "contains", "containsAll", "containsAny",
	"getTag", "hasTag", ".", "has", "is", "like", "if-then-else", "Set", "Record", "left", "right", "arg", "attr", "pattern", "entity_type", "if", "then", "else",
	"Literal", "effect", "principal", "action", "resource", "conditions", "annotations", "kind", "body", "op", "entity", "entities", "staticPolicies", "templates", "templateLinks",
	"__entity", "__extn", "__expr", "fn", "arg", "type", "id", "uid", "parents", "attrs", "tags", "context",
	"decimal", "ip", "datetime", "duration", "isIpv4", "isIpv6", "isLoopback", "isMulticast", "isInRange", "lessThan", "lessThanOrEqual", "greaterThan", "greaterThanOrEqual",
	"toDate", "toTime", "toDays", "toHours", "toMinutes", "toSeconds", "toMilliseconds", "offset", "durationSince", "nosuchfn", "",
	"entityTypes", "actions", "commonTypes", "memberOfTypes", "shape", "enum", "memberOf", "appliesTo", "principalTypes", "resourceTypes", "element", "attributes", "name", "required",
	"Slot", "Unknown", "slot", "STATICPOLICIES", "value", "record"}

var jsonScalarDict = []string{"null", "[]", "{}", "0", `""`, "true", "false", "-1", "1", "9223372036854775807", "9223372036854775808", "-9223372036854775809", "1.5", "1e3", "1e999", "-0",
	`"a"`, `"All"`, `"when"`, `"permit"`, `"principal"`, `"Wildcard"`, `"Long"`, `"Set"`, `"Record"`, `"\u0000"`, `"\ud800"`, `[null]`, `{"":null}`, `[[]]`, `[{}]`, `{"a":[]}`,
	`{"__entity":null}`, `{"__extn":null}`, `{"__entity":{}}`, `{"__extn":{}}`, `{"__extn":{"fn":"ip","arg":""}}`, `{"__extn":{"fn":"","arg":"1"}}`, `{"type":"T0","id":"a"}`, `{"Value":null}`, `{"Var":null}`,
	`{"Literal":null}`, `[[[[[[[[[[]]]]]]]]]]`, `{"a":{"a":{"a":{"a":{"a":{}}}}}}`}

var jsonMutKinds = []string{"replace-scalar", "delete", "duplicate", "str-num", "rename-key", "swap", "wrap", "splice", "unwrap", "dup-key-other-value", "append-elem"}

// mutateJSON applies one structural mutation to d and returns its name.
func mutateJSON(t *rapid.T, d *jdoc) string {
	rs := refs(d.root)
	r := rs[rapid.IntRange(0, len(rs)-1).Draw(t, "jpath")]
	kind := jsonMutKinds[rapid.IntRange(0, len(jsonMutKinds)-1).Draw(t, "jmut")]
	n := d.get(r)
	switch kind {
	case "replace-scalar":
		d.set(r, raw(jsonScalarDict[rapid.IntRange(0, len(jsonScalarDict)-1).Draw(t, "jscalar")]))
	case "delete":
		d.remove(r)
	case "duplicate":
		d.duplicate(r)
	case "str-num":
		switch {
		case n.k == jStr:
			if _, err := strconv.ParseFloat(n.s, 64); err == nil && n.s != "" {
				d.set(r, raw(n.s))
			} else {
				d.set(r, raw(strconv.Itoa(len(n.s))))
			}
		case n.k == jRaw:
			d.set(r, &jnode{k: jStr, s: n.s})
		default:
			d.set(r, &jnode{k: jStr, s: n.String()})
		}
	case "rename-key":
		if r.parent != nil && r.parent.k == jObj {
			r.parent.keys[r.idx] = jsonKeyDict[rapid.IntRange(0, len(jsonKeyDict)-1).Draw(t, "jkey")]
		} else if n.k == jObj && len(n.keys) > 0 {
			n.keys[rapid.IntRange(0, len(n.keys)-1).Draw(t, "jkeyidx")] = jsonKeyDict[rapid.IntRange(0, len(jsonKeyDict)-1).Draw(t, "jkey")]
		} else {
			d.set(r, &jnode{k: jObj, keys: []string{jsonKeyDict[rapid.IntRange(0, len(jsonKeyDict)-1).Draw(t, "jkey")]}, elems: []*jnode{n}})
		}
	case "swap":
		o := rs[rapid.IntRange(0, len(rs)-1).Draw(t, "jpath2")]
		a, b := d.get(r).clone(), d.get(o).clone()
		d.set(r, b)
		d.set(o, a)
	case "wrap":
		if rapid.Bool().Draw(t, "wraparr") {
			d.set(r, &jnode{k: jArr, elems: []*jnode{n}})
		} else {
			d.set(r, &jnode{k: jObj, keys: []string{jsonKeyDict[rapid.IntRange(0, len(jsonKeyDict)-1).Draw(t, "jkey")]}, elems: []*jnode{n}})
		}
	case "splice":
		o := rs[rapid.IntRange(0, len(rs)-1).Draw(t, "jpath2")]
		d.set(r, d.get(o).clone())
	case "unwrap":
		if len(n.elems) > 0 {
			d.set(r, n.elems[rapid.IntRange(0, len(n.elems)-1).Draw(t, "jchild")])
		} else {
			d.set(r, raw("null"))
		}
	case "dup-key-other-value":
		if r.parent != nil && r.parent.k == jObj {
			r.parent.keys = append(r.parent.keys, r.parent.keys[r.idx])
			r.parent.elems = append(r.parent.elems, raw(jsonScalarDict[rapid.IntRange(0, len(jsonScalarDict)-1).Draw(t, "jscalar")]))
		} else {
			d.duplicate(r)
		}
	case "append-elem":
		v := raw(jsonScalarDict[rapid.IntRange(0, len(jsonScalarDict)-1).Draw(t, "jscalar")])
		switch n.k {
		case jArr:
			n.elems = append(n.elems, v)
		case jObj:
			n.keys = append(n.keys, jsonKeyDict[rapid.IntRange(0, len(jsonKeyDict)-1).Draw(t, "jkey")])
			n.elems = append(n.elems, v)
		default:
			d.set(r, &jnode{k: jArr, elems: []*jnode{n, v}})
		}
	}
	return "json:" + kind
}

// ---------------------------------------------------------------------------------------------
// text tokens (good enough for mutation purposes; not a validating lexer)

func isIdentByte(c byte) bool {
	return c == '_' || (c >= 'a' && c <= 'z') || (c >= 'A' && c <= 'Z') || (c >= '0' && c <= '9')
}

func splitTokens(s string) []string {
	var out []string
	i := 0
	for i < len(s) {
		c := s[i]
		j := i + 1
		switch {
		case c == ' ' || c == '\t' || c == '\n' || c == '\r':
			for j < len(s) && (s[j] == ' ' || s[j] == '\t' || s[j] == '\n' || s[j] == '\r') {
				j++
			}
		case isIdentByte(c):
			for j < len(s) && isIdentByte(s[j]) {
				j++
			}
		case c == '"':
			for j < len(s) && s[j] != '"' {
				if s[j] == '\\' && j+1 < len(s) {
					j++
				}
				j++
			}
			if j < len(s) {
				j++
			}
		case c == '/' && j < len(s) && s[j] == '/':
			for j < len(s) && s[j] != '\n' {
				j++
			}
		case c == '/' && j < len(s) && s[j] == '*':
			k := strings.Index(s[j+1:], "*/")
			if k < 0 {
				j = len(s)
			} else {
				j = j + 1 + k + 2
			}
		case j < len(s):
			switch s[i : j+1] {
			case "::", "==", "!=", "<=", ">=", "&&", "||":
				j++
			}
		}
		out = append(out, s[i:j])
		i = j
	}
	return out
}

var textTokenDict = []string{"permit", "forbid", "when", "unless", "principal", "action", "resource", "context", "if", "then", "else", "in", "has", "like", "is", "true", "false", "__cedar",
	"::", "(", ")", "[", "]", "{", "}", ",", ";", ".", "!", "-", "+", "*", "==", "!=", "<", "<=", ">", ">=", "&&", "||", "@", ":", "?", "=", "|", "&", "/", "/*", "*/", "//", "\"", "'", "#", "$", "\\",
	`"a"`, `"\*"`, `"\u{0}"`, `"\u{110000}"`, `"\u{d800}"`, `"\x7f"`, `"\x80"`, `"\q"`, `"\u{}"`, `"\u{1234567}"`, `""`, "0", "1", "9223372036854775807", "9223372036854775808", "00", "1_0", "0x1", "1.5",
	"ip", "decimal", "datetime", "duration", "isIpv4", "isInRange", "lessThan", "contains", "containsAll", "containsAny", "isEmpty", "hasTag", "getTag", "offset", "toDate", "toDays", "nosuchfn",
	"T0", "Action", "NS", `T0::"a"`, "a", "_", "namespace", "entity", "type", "appliesTo", "tags", "enum", "Set", "Long", "String", "Bool", "Boolean", "Record", "Entity", "Extension", "ipaddr",
	" ", "\n", "\t", "\r", "\u00a0", "\u2028", "\ufeff", "\u00e9", "\x00", "\xff"}

var textMutKinds = []string{"swap-tokens", "delete-token", "duplicate-token", "insert-token", "replace-token", "delete-range", "move-token"}

func mutateText(t *rapid.T, s string) (string, string) {
	toks := splitTokens(s)
	if len(toks) == 0 {
		return textTokenDict[rapid.IntRange(0, len(textTokenDict)-1).Draw(t, "ttok")], "text:insert-token"
	}
	kind := textMutKinds[rapid.IntRange(0, len(textMutKinds)-1).Draw(t, "tmut")]
	i := rapid.IntRange(0, len(toks)-1).Draw(t, "tidx")
	dict := func() string { return textTokenDict[rapid.IntRange(0, len(textTokenDict)-1).Draw(t, "ttok")] }
	switch kind {
	case "swap-tokens":
		j := rapid.IntRange(0, len(toks)-1).Draw(t, "tidx2")
		toks[i], toks[j] = toks[j], toks[i]
	case "delete-token":
		toks = append(toks[:i:i], toks[i+1:]...)
	case "duplicate-token":
		toks = append(toks[:i+1:i+1], toks[i:]...)
	case "insert-token":
		toks = append(toks[:i:i], append([]string{dict()}, toks[i:]...)...)
	case "replace-token":
		toks[i] = dict()
	case "delete-range":
		j := rapid.IntRange(i, min(len(toks)-1, i+6)).Draw(t, "tidx2")
		toks = append(toks[:i:i], toks[j+1:]...)
	case "move-token":
		x := toks[i]
		toks = append(toks[:i:i], toks[i+1:]...)
		j := rapid.IntRange(0, len(toks)).Draw(t, "tidx2")
		toks = append(toks[:j:j], append([]string{x}, toks[j:]...)...)
	}
	return strings.Join(toks, ""), "text:" + kind
}

// ---------------------------------------------------------------------------------------------
// byte-level edits

var hostileBytes = []string{"/*", "/**", "/* *", "*/", "//", "/*/", "\x00", "\xff", "\xc3", "\xc3\x28", "\xed\xa0\x80", "\xf4\x90\x80\x80", "\xef\xbb\xbf", "\xe2\x80\xa8", "\xc0\x80", "\x80", "\xfe", "\\", "\"", "\\u{110000}", "\\u{D800}", "\\x80",
	"\\u{", "\\u", "\\x", "/*", "//", "*/", "\n", "\r", "\x1b", "\x7f", "\\ud800", "\\u0000", "\\", "'"}

var byteMutKinds = []string{"truncate", "insert-hostile", "delete-range", "duplicate-range", "overwrite-byte", "prefix", "suffix"}

func mutateBytes(t *rapid.T, b []byte) ([]byte, string) {
	kind := byteMutKinds[rapid.IntRange(0, len(byteMutKinds)-1).Draw(t, "bmut")]
	out := append([]byte(nil), b...)
	pos := 0
	if len(out) > 0 {
		pos = rapid.IntRange(0, len(out)).Draw(t, "bpos")
	}
	host := func() string { return hostileBytes[rapid.IntRange(0, len(hostileBytes)-1).Draw(t, "bhost")] }
	switch kind {
	case "truncate":
		out = out[:pos]
	case "insert-hostile":
		out = append(out[:pos:pos], append([]byte(host()), out[pos:]...)...)
	case "delete-range":
		end := min(len(out), pos+rapid.IntRange(1, 8).Draw(t, "blen"))
		out = append(out[:pos:pos], out[end:]...)
	case "duplicate-range":
		end := min(len(out), pos+rapid.IntRange(1, 40).Draw(t, "blen"))
		seg := append([]byte(nil), out[pos:end]...)
		out = append(out[:end:end], append(seg, out[end:]...)...)
	case "overwrite-byte":
		if pos < len(out) {
			out[pos] = byte(rapid.IntRange(0, 255).Draw(t, "bval"))
		}
	case "prefix":
		out = append([]byte(host()), out...)
	case "suffix":
		out = append(out, host()...)
	}
	return out, "bytes:" + kind
}
