// C10: decoders and encoders are total - no panic, no fatal crash, no hang on any input; every accepted value can be
// passed to every encoder and to the authorizer.
//
// Layers: (a) structured mutation of valid documents of every format (rapid) + exhaustive null/[]/{}/0/""/missing at every
// JSON path and token deletion / truncation of representative documents; (b) depth / size ladders of every recursive
// construct up to 1 MiB of input (steps deeper than 10^4 run in a child process so that a fatal stack overflow is
// observed instead of killing the shard); (c) native fuzz targets (thorough tier), oracle inside the target.
//
// Carve-outs (the check is weaker than the property here):
//   - slowness is never reported; the only time limit is the 90 s per-stage watchdog and a 15 min limit per child process,
//     whose expiry is recorded as an "inconclusive" note, not as a violation.
//   - `x has a.b.c…` chains are explored up to 200 links only: the construct expands (by specification) to a conjunction
//     of quadratic size, a 1 MiB chain would need > 10^11 AST nodes.
//   - quick tier: JSON encoders are skipped on ladder documents deeper than 300 (their cost is quadratic in depth);
//     the thorough tier runs them.
//   - nested value JSON ([[[…]]], {"a":{"a":…}}) is explored to depth 3 000 and again beyond encoding/json's own 10 000 limit:
//     decoding is quadratic in depth with a large constant (10^4 levels = 20 KB take 10-90 s), which is slowness, not a violation.
//   - memory exhaustion is not judged: a child that is killed by SIGKILL without a Go crash report (OOM killer) or dies
//     with "out of memory" is recorded as inconclusive. The one construct known to get there, Schema.MarshalCedar on
//     deeply nested record types (output quadratic in depth: 400 KB of schema text => 10 GB of output), is capped at
//     depth 10 000 for the encoders.
//   - inputs larger than 1 MiB are not explored.
//   - acceptance by a decoder is not judged (C07-C09, C13, C17 do that); only "returns a value or an error".
//
// Sensitivity (scratch copy of /repo, quick tier, 2026-09-23):
//   - S1 internal/json/json_unmarshal.go: nil check `if s.Entity == nil` removed from the "==" case of
//     scopeJSON.ToPrincipalResourceNode -> CAUGHT by TestExhaustivePaths ($.resource.entity := null / missing, all three
//     policy entry points) and by TestMutatePolicyJSON (after 1 007 cases); the recorded replay fails on the mutant and
//     passes on the unmutated tree (`./check C10 quick --replay`).
//   - S2 internal/parser/cedar_marshal.go: guard `len(n.Args) > 0` before Args[0] removed -> CAUGHT by TestExhaustivePaths
//     (`"isIpv4": []`: accepted, then Policy.MarshalCedar / PolicySet.MarshalCedar panic) and by TestKnown's regression case.
//   - S3 internal/json/json_unmarshal.go: ToActionNode panics on an unknown op instead of returning an error -> CAUGHT by
//     TestExhaustivePaths, TestMutatePolicyJSON (113 cases) and TestMutatePolicySetJSON (79 cases).
//   - S4 internal/parser/cedar_tokenize.go: comment skipping made recursive (one nested nextToken call per comment instead
//     of `goto redo`) -> MISSED, and not observable inside the input bound: 349 000 comments (1 MiB) need 349 000 frames of
//     ~250 bytes = 90 MB, far below Go's 1 GB stack limit; the ladder step "line-comments" at the maximum depth passes.
package c10

import (
	"bytes"
	"encoding/json"
	"errors"
	"fmt"
	"io"
	"os"
	"os/exec"
	"path/filepath"
	"runtime/debug"
	"sort"
	"strconv"
	"strings"
	"sync"
	"sync/atomic"
	"syscall"
	"testing"
	"time"
	"unicode/utf8"

	cedar "github.com/cedar-policy/cedar-go"
	pubast "github.com/cedar-policy/cedar-go/ast"
	"github.com/cedar-policy/cedar-go/types"
	xast "github.com/cedar-policy/cedar-go/x/exp/ast"
	"github.com/cedar-policy/cedar-go/x/exp/schema"
	"github.com/cedar-policy/cedar-go/x/exp/schema/resolved"
	xtypes "github.com/cedar-policy/cedar-go/x/exp/types"
	"pgregory.net/rapid"

	"verif/conv"
	"verif/ev"
	"verif/gen"
	"verif/ir"
)

func TestMain(m *testing.M) {
	// The canonical reproducer of the recursion finding needs a child process that grows its stack to 1 GB (5-30 s);
	// shard 0 starts it right away so that it overlaps with the other tests. TestKnown collects the result.
	if os.Getenv("C10_CHILD_CASE") == "" && os.Getenv("VERIF_REPLAY") == "" && os.Getenv("VERIF_FUZZ") == "" &&
		(os.Getenv("VERIF_SHARD") == "" || os.Getenv("VERIF_SHARD") == "0") && wantsTest("TestKnown") {
		reproResult = make(chan childResult, 1)
		go func() { reproResult <- runInChild(recursionRepro(), childTimeout) }()
	}
	ev.Main(m, "C10")
}

var reproResult chan childResult

func recursionRepro() *Case {
	return &Case{Entry: "Policy.UnmarshalCedar", Ladder: &LadderRef{Construct: "paren-open", Depth: 400000}, Derived: "canonical reproducer"}
}

// wantsTest: crude look at -test.run / -test.skip so that `go test -run TestX` does not pay for the reproducer.
func wantsTest(name string) bool {
	for i, a := range os.Args {
		for _, flagName := range []string{"-test.run", "-test.skip"} {
			val := ""
			if strings.HasPrefix(a, flagName+"=") {
				val = a[len(flagName)+1:]
			} else if a == flagName && i+1 < len(os.Args) {
				val = os.Args[i+1]
			} else {
				continue
			}
			match := strings.Contains(val, name) || val == "" || val == "."
			if flagName == "-test.run" && !match {
				return false
			}
		}
	}
	return true
}

// ---------------------------------------------------------------------------------------------
// cases

type LadderRef struct {
	Construct string `json:"construct"`
	Depth     int    `json:"depth"`
}

// Case is replayable without rapid and without the generators: entry point + input bytes (+ the world used for the
// authorizer call). Ladder cases name the construct and depth instead of carrying up to 1 MiB of input.
type Case struct {
	Entry   string     `json:"entry"`
	Input   []byte     `json:"input,omitempty"` // base64 in the replay file
	Text    string     `json:"text,omitempty"`  // preview of Input for the reader; not used by the replay
	Ladder  *LadderRef `json:"ladder,omitempty"`
	World   *gen.World `json:"world,omitempty"` // nil: fixed world
	Derived string     `json:"derived,omitempty"`
	// MaxJSONEncDepth > 0: JSON encoders are not run on policies whose AST is deeper (quick-tier ladder; their cost is quadratic in depth)
	MaxJSONEncDepth int `json:"max_json_encoder_depth,omitempty"`
}

func (c *Case) input() []byte {
	if c.Ladder != nil {
		k := constructByName(c.Ladder.Construct)
		if k == nil {
			return nil
		}
		return []byte(k.build(c.Ladder.Depth))
	}
	return c.Input
}

func newCase(entry string, in []byte, w *gen.World, derived string) *Case {
	c := &Case{Entry: entry, Input: in, World: w, Derived: derived}
	if utf8.Valid(in) {
		c.Text = string(in)
		if len(c.Text) > 400 {
			c.Text = c.Text[:400] + "…"
		}
	}
	return c
}

type outcome struct {
	Accepted   bool   `json:"accepted"`
	PanicStage string `json:"panic_stage,omitempty"`
	PanicMsg   string `json:"panic_msg,omitempty"`
	Trace      string `json:"trace,omitempty"`
	Stages     int    `json:"stages"`
	DeepSkip   bool   `json:"deep_skip,omitempty"`
}

func (o outcome) panicked() bool { return o.PanicStage != "" }

// ---------------------------------------------------------------------------------------------
// runner: executes one entry point on one input, stage by stage

type runner struct {
	c        *Case
	stage    string
	accepted bool
	stages   int
	stageLog io.Writer // child mode: every stage name is written before the stage runs
	world    *gen.World
	em       types.EntityMap
	req      types.Request
	haveEnv  bool
	deepSkip bool
}

func (r *runner) at(stage string) {
	r.stage = stage
	r.stages++
	if r.stageLog != nil {
		fmt.Fprintln(r.stageLog, stage)
	}
	c := r.c
	ev.Watch("hang:"+c.Entry+":"+stage, func() any { return c })
}

func (r *runner) env() (types.EntityMap, types.Request) {
	if !r.haveEnv {
		r.em = conv.ToEntityMap(r.world.Store)
		r.req = conv.ToRequest(r.world.Req)
		r.haveEnv = true
	}
	return r.em, r.req
}

func trimTrace(s string) string {
	// function names of the cedar-go / encoding/json frames, innermost first, consecutive repeats collapsed
	var keep []string
	for _, l := range strings.Split(s, "\n") {
		if !strings.HasPrefix(l, "github.com/cedar-policy/cedar-go") && !strings.HasPrefix(l, "encoding/json") {
			continue
		}
		if i := strings.LastIndex(l, "("); i > 0 {
			l = l[:i]
		}
		l = strings.TrimPrefix(l, "github.com/cedar-policy/cedar-go")
		if len(keep) > 0 && keep[len(keep)-1] == l {
			continue
		}
		if len(keep) >= 2 && keep[len(keep)-2] == l { // A B A B ... mutual recursion
			continue
		}
		keep = append(keep, l)
		if len(keep) >= 6 {
			break
		}
	}
	return strings.Join(keep, " < ")
}

func execute(c *Case, stageLog io.Writer) (out outcome) {
	e := entryByName(c.Entry)
	r := &runner{c: c, world: c.World, stageLog: stageLog}
	if r.world == nil {
		r.world = &fixedWorld
	}
	defer func() {
		if p := recover(); p != nil {
			out.PanicStage = r.stage
			out.PanicMsg = fmt.Sprint(p)
			out.Trace = trimTrace(string(debug.Stack()))
		}
		out.Accepted = r.accepted
		out.Stages = r.stages
		out.DeepSkip = r.deepSkip
		ev.Unwatch()
	}()
	if e == nil {
		panic("harness: unknown entry " + c.Entry)
	}
	e.run(c.input(), r)
	return
}

// ---------------------------------------------------------------------------------------------
// AST depth (iterative, so that measuring never overflows)

func nodeChildren(n xast.IsNode) []xast.IsNode {
	switch t := n.(type) {
	case xast.NodeTypeAnd:
		return []xast.IsNode{t.Left, t.Right}
	case xast.NodeTypeOr:
		return []xast.IsNode{t.Left, t.Right}
	case xast.NodeTypeNot:
		return []xast.IsNode{t.Arg}
	case xast.NodeTypeNegate:
		return []xast.IsNode{t.Arg}
	case xast.NodeTypeIfThenElse:
		return []xast.IsNode{t.If, t.Then, t.Else}
	case xast.NodeTypeEquals:
		return []xast.IsNode{t.Left, t.Right}
	case xast.NodeTypeNotEquals:
		return []xast.IsNode{t.Left, t.Right}
	case xast.NodeTypeLessThan:
		return []xast.IsNode{t.Left, t.Right}
	case xast.NodeTypeLessThanOrEqual:
		return []xast.IsNode{t.Left, t.Right}
	case xast.NodeTypeGreaterThan:
		return []xast.IsNode{t.Left, t.Right}
	case xast.NodeTypeGreaterThanOrEqual:
		return []xast.IsNode{t.Left, t.Right}
	case xast.NodeTypeAdd:
		return []xast.IsNode{t.Left, t.Right}
	case xast.NodeTypeSub:
		return []xast.IsNode{t.Left, t.Right}
	case xast.NodeTypeMult:
		return []xast.IsNode{t.Left, t.Right}
	case xast.NodeTypeIn:
		return []xast.IsNode{t.Left, t.Right}
	case xast.NodeTypeIs:
		return []xast.IsNode{t.Left}
	case xast.NodeTypeIsIn:
		return []xast.IsNode{t.Left, t.Entity}
	case xast.NodeTypeHas:
		return []xast.IsNode{t.Arg}
	case xast.NodeTypeAccess:
		return []xast.IsNode{t.Arg}
	case xast.NodeTypeHasTag:
		return []xast.IsNode{t.Left, t.Right}
	case xast.NodeTypeGetTag:
		return []xast.IsNode{t.Left, t.Right}
	case xast.NodeTypeLike:
		return []xast.IsNode{t.Arg}
	case xast.NodeTypeContains:
		return []xast.IsNode{t.Left, t.Right}
	case xast.NodeTypeContainsAll:
		return []xast.IsNode{t.Left, t.Right}
	case xast.NodeTypeContainsAny:
		return []xast.IsNode{t.Left, t.Right}
	case xast.NodeTypeIsEmpty:
		return []xast.IsNode{t.Arg}
	case xast.NodeTypeSet:
		return t.Elements
	case xast.NodeTypeRecord:
		out := make([]xast.IsNode, len(t.Elements))
		for i, e := range t.Elements {
			out[i] = e.Value
		}
		return out
	case xast.NodeTypeExtensionCall:
		return t.Args
	}
	return nil
}

func astDepth(p *xast.Policy) int {
	type item struct {
		n xast.IsNode
		d int
	}
	max := 0
	var stack []item
	for _, c := range p.Conditions {
		stack = append(stack, item{c.Body, 1})
	}
	for len(stack) > 0 {
		it := stack[len(stack)-1]
		stack = stack[:len(stack)-1]
		if it.d > max {
			max = it.d
		}
		for _, ch := range nodeChildren(it.n) {
			stack = append(stack, item{ch, it.d + 1})
		}
	}
	return max
}

// ---------------------------------------------------------------------------------------------
// post-processing of accepted values: every encoder + the authorizer

const quickJSONEncDepth = 300

func (r *runner) postPolicy(p *cedar.Policy, tag string) {
	skipJSON := false
	if r.c.MaxJSONEncDepth > 0 {
		if d := astDepth((*xast.Policy)(p.AST())); d > r.c.MaxJSONEncDepth {
			skipJSON = true
			r.deepSkip = true
		}
	}
	r.at(tag + "Policy.MarshalCedar")
	_ = p.MarshalCedar()
	r.at(tag + "Encoder.Encode")
	_ = cedar.NewEncoder(io.Discard).Encode(p)
	r.at(tag + "Policy.accessors")
	_ = p.Annotations()
	_ = p.Effect()
	_ = p.Position()
	r.at(tag + "Policy.AST().MarshalCedar")
	a := p.AST()
	_ = a.MarshalCedar()
	if !skipJSON {
		r.at(tag + "Policy.MarshalJSON")
		_, _ = p.MarshalJSON()
		r.at(tag + "json.Marshal(Policy)")
		_, _ = json.Marshal(p)
		r.at(tag + "Policy.AST().MarshalJSON")
		_, _ = a.MarshalJSON()
	}
	r.at(tag + "PolicyList.MarshalCedar")
	_ = cedar.PolicyList{p, p}.MarshalCedar()
	ps := cedar.NewPolicySet()
	ps.Add("policy0", p)
	r.postSet(ps, tag+"singleton:", skipJSON)
}

func (r *runner) postSet(ps *cedar.PolicySet, tag string, skipJSON bool) {
	r.at(tag + "PolicySet.MarshalCedar")
	_ = ps.MarshalCedar()
	if !skipJSON {
		r.at(tag + "PolicySet.MarshalJSON")
		_, _ = ps.MarshalJSON()
		r.at(tag + "json.Marshal(PolicySet)")
		_, _ = json.Marshal(ps)
	}
	em, req := r.env()
	r.at(tag + "cedar.Authorize")
	_, _ = cedar.Authorize(ps, em, req)
	r.at(tag + "PolicySet.IsAuthorized")
	_, _ = ps.IsAuthorized(em, req)
}

func (r *runner) postPolicies(list []*cedar.Policy) {
	n := len(list)
	for i, p := range list {
		if i >= 4 && i < n-1 {
			continue
		}
		r.postPolicy(p, "")
	}
}

func (r *runner) postSetDeep(ps *cedar.PolicySet) {
	skipJSON := false
	var list []*cedar.Policy
	ids := make([]string, 0)
	m := ps.Map()
	for id := range m {
		ids = append(ids, string(id))
	}
	sort.Strings(ids)
	for _, id := range ids {
		p := m[cedar.PolicyID(id)]
		list = append(list, p)
		if r.c.MaxJSONEncDepth > 0 && p != nil && astDepth((*xast.Policy)(p.AST())) > r.c.MaxJSONEncDepth {
			skipJSON = true
			r.deepSkip = true
		}
	}
	r.postSet(ps, "", skipJSON)
	r.at("PolicySet.Get/All")
	for id, p := range ps.All() {
		_ = ps.Get(id)
		_ = p
	}
	r.postPolicies(list)
}

var (
	auxOnce        sync.Once
	entityPolicies *cedar.PolicySet
	auxErr         error
)

const entityPolicyText = `
permit(principal, action, resource) when { principal in resource };
permit(principal, action, resource) when { principal has a && principal.a == resource };
permit(principal, action, resource) when { principal.hasTag("k") && principal.getTag("k") == 1 };
permit(principal, action, resource) when { principal has set && principal.set.contains(1) };
permit(principal, action, resource) when { principal has rec && principal.rec has "in ner" };
forbid(principal, action, resource) when { context has v && context.v == principal };
permit(principal, action, resource) when { context has v && [context.v].containsAny([context.v, 1, "a"]) };
permit(principal, action, resource) when { context has v && context.v like "*" };
permit(principal, action, resource) when { context has v && context.v < 1 };
permit(principal, action, resource) when { context has v && context.v.isEmpty() };
permit(principal, action, resource) when { context has v && context.v has a };
permit(principal, action, resource) when { context has v && context.v.isInRange(ip("10.0.0.0/8")) };
permit(principal, action, resource) when { context has v && context.v.lessThan(decimal("1.0")) };
permit(principal, action, resource) when { context has v && context.v.offset(duration("1d")).toDate() < context.v };
permit(principal, action, resource) when { context has v && context.v.toDays() == 1 };
permit(principal is T0 in T1::"b", action in [Action::"view"], resource);
`

func aux() *cedar.PolicySet {
	auxOnce.Do(func() {
		entityPolicies, auxErr = cedar.NewPolicySetFromBytes("aux.cedar", []byte(entityPolicyText))
		if auxErr != nil {
			ev.R.Broken("c10: auxiliary policies do not parse: " + auxErr.Error())
			entityPolicies = cedar.NewPolicySet()
		}
	})
	return entityPolicies
}

func (r *runner) postValue(v types.Value, tag string) {
	r.at(tag + "Value.MarshalCedar")
	_ = v.MarshalCedar()
	r.at(tag + "Value.String")
	_ = v.String()
	r.at(tag + "json.Marshal(Value)")
	_, _ = json.Marshal(v)
	r.at(tag + "Value.Equal(self)")
	_ = v.Equal(v)
	em, req := r.env()
	req.Context = types.NewRecord(types.RecordMap{"v": v})
	r.at(tag + "cedar.Authorize(context.v)")
	_, _ = cedar.Authorize(aux(), em, req)
	r.at(tag + "policy-with-literal")
	p := cedar.NewPolicyFromAST(pubast.Permit().When(pubast.Value(v).Equal(pubast.Context().Access("v"))))
	_ = p.MarshalCedar()
	_, _ = p.MarshalJSON()
	ps := cedar.NewPolicySet()
	ps.Add("p", p)
	_, _ = cedar.Authorize(ps, em, req)
}

func (r *runner) postEntities(em types.EntityMap) {
	r.at("json.Marshal(EntityMap)")
	_, _ = json.Marshal(em)
	r.at("EntityMap.MarshalJSON")
	_, _ = em.MarshalJSON()
	uids := make([]types.EntityUID, 0, len(em))
	for u := range em {
		uids = append(uids, u)
	}
	sort.Slice(uids, func(i, j int) bool {
		if uids[i].Type != uids[j].Type {
			return uids[i].Type < uids[j].Type
		}
		return uids[i].ID < uids[j].ID
	})
	_, req := r.env()
	for i, u := range uids {
		if i >= 6 && i < len(uids)-1 {
			continue
		}
		e := em[u]
		r.at("json.Marshal(Entity)")
		_, _ = json.Marshal(e)
		r.at("Entity.MarshalJSON")
		_, _ = e.MarshalJSON()
		r.at("Entity.Equal(self)")
		_ = e.Equal(e)
		q := req
		q.Principal = u
		q.Resource = u
		for p := range e.Parents.All() {
			q.Resource = p
			break
		}
		if v, ok := e.Attributes.Get("a"); ok {
			q.Context = types.NewRecord(types.RecordMap{"v": v})
		}
		r.at("cedar.Authorize(entities)")
		_, _ = cedar.Authorize(aux(), em, q)
	}
}

func (r *runner) postSchema(s *schema.Schema) {
	r.at("Schema.MarshalCedar")
	_, _ = s.MarshalCedar()
	r.at("Schema.MarshalJSON")
	_, _ = s.MarshalJSON()
	r.at("json.Marshal(Schema)")
	_, _ = json.Marshal(s)
	r.at("Schema.AST")
	_ = s.AST()
	r.at("Schema.Resolve")
	_, _ = s.Resolve()
}

// ---------------------------------------------------------------------------------------------
// entry points

type entryDef struct {
	name   string
	format format
	deep   bool // used for ladder steps deeper than 1 000 (the other entries of the format share the same parser)
	run    func(in []byte, r *runner)
}

var entries = []entryDef{
	{name: "Policy.UnmarshalCedar", format: fPolicyText, deep: true, run: func(in []byte, r *runner) {
		var p cedar.Policy
		r.at("Policy.UnmarshalCedar")
		if p.UnmarshalCedar(in) != nil {
			return
		}
		r.accepted = true
		r.postPolicy(&p, "")
	}},
	{name: "PolicyList.UnmarshalCedar", format: fPolicyText, run: func(in []byte, r *runner) {
		var l cedar.PolicyList
		r.at("PolicyList.UnmarshalCedar")
		if l.UnmarshalCedar(in) != nil {
			return
		}
		r.accepted = true
		r.at("PolicyList.MarshalCedar")
		_ = l.MarshalCedar()
		r.postPolicies(l)
	}},
	{name: "NewPolicyListFromBytes", format: fPolicyText, run: func(in []byte, r *runner) {
		r.at("NewPolicyListFromBytes")
		l, err := cedar.NewPolicyListFromBytes("f.cedar", in)
		if err != nil {
			return
		}
		r.accepted = true
		r.at("PolicyList.MarshalCedar")
		_ = l.MarshalCedar()
		r.postPolicies(l)
	}},
	{name: "NewPolicySetFromBytes", format: fPolicyText, run: func(in []byte, r *runner) {
		r.at("NewPolicySetFromBytes")
		ps, err := cedar.NewPolicySetFromBytes("f.cedar", in)
		if err != nil {
			return
		}
		r.accepted = true
		r.postSetDeep(ps)
	}},
	{name: "Decoder.Decode", format: fPolicyText, deep: true, run: func(in []byte, r *runner) {
		r.at("Decoder.Decode")
		dec := cedar.NewDecoder(bytes.NewReader(in))
		var list []*cedar.Policy
		for i := 0; i < 200000; i++ {
			var p cedar.Policy
			if err := dec.Decode(&p); err != nil {
				_ = dec.Decode(&p) // the error is sticky; asking again must be harmless
				break
			}
			list = append(list, &p)
		}
		if len(list) == 0 {
			return
		}
		r.accepted = true
		r.postPolicies(list)
	}},
	{name: "ast.Policy.UnmarshalCedar", format: fPolicyText, run: func(in []byte, r *runner) {
		var a pubast.Policy
		r.at("ast.Policy.UnmarshalCedar")
		if a.UnmarshalCedar(in) != nil {
			return
		}
		r.accepted = true
		r.at("ast.Policy.MarshalCedar")
		_ = a.MarshalCedar()
		r.at("NewPolicyFromAST")
		p := cedar.NewPolicyFromAST(&a)
		r.postPolicy(p, "")
	}},
	{name: "Policy.UnmarshalJSON", format: fPolicyJSON, deep: true, run: func(in []byte, r *runner) {
		var p cedar.Policy
		r.at("Policy.UnmarshalJSON")
		if p.UnmarshalJSON(in) != nil {
			return
		}
		r.accepted = true
		r.postPolicy(&p, "")
	}},
	{name: "json.Unmarshal(Policy)", format: fPolicyJSON, run: func(in []byte, r *runner) {
		var p cedar.Policy
		r.at("json.Unmarshal(Policy)")
		if json.Unmarshal(in, &p) != nil {
			return
		}
		if p.AST() == nil { // JSON null leaves the zero Policy untouched: nothing was decoded
			return
		}
		r.accepted = true
		r.postPolicy(&p, "")
	}},
	{name: "ast.Policy.UnmarshalJSON", format: fPolicyJSON, run: func(in []byte, r *runner) {
		var a pubast.Policy
		r.at("ast.Policy.UnmarshalJSON")
		if a.UnmarshalJSON(in) != nil {
			return
		}
		r.accepted = true
		r.at("ast.Policy.MarshalJSON")
		_, _ = a.MarshalJSON()
		r.at("NewPolicyFromAST")
		p := cedar.NewPolicyFromAST(&a)
		r.postPolicy(p, "")
	}},
	{name: "PolicySet.UnmarshalJSON", format: fPolicySetJSON, deep: true, run: func(in []byte, r *runner) {
		ps := cedar.NewPolicySet()
		r.at("PolicySet.UnmarshalJSON")
		if ps.UnmarshalJSON(in) != nil {
			return
		}
		r.accepted = true
		r.postSetDeep(ps)
	}},
	{name: "json.Unmarshal(PolicySet)", format: fPolicySetJSON, run: func(in []byte, r *runner) {
		ps := cedar.NewPolicySet()
		r.at("json.Unmarshal(PolicySet)")
		if json.Unmarshal(in, ps) != nil {
			return
		}
		r.accepted = true
		r.postSetDeep(ps)
	}},
	{name: "json.Unmarshal(Entity)", format: fEntityJSON, deep: true, run: func(in []byte, r *runner) {
		var e types.Entity
		r.at("json.Unmarshal(Entity)")
		if json.Unmarshal(in, &e) != nil {
			return
		}
		r.accepted = true
		r.postEntities(types.EntityMap{e.UID: e})
	}},
	{name: "json.Unmarshal(EntityMap)", format: fEntityMapJSON, deep: true, run: func(in []byte, r *runner) {
		var em types.EntityMap
		r.at("json.Unmarshal(EntityMap)")
		if json.Unmarshal(in, &em) != nil {
			return
		}
		r.accepted = true
		r.postEntities(em)
	}},
	// the schema-guided entity decoders (implicit forms are coerced by the declared attribute / tag types; entities of
	// undeclared types, with undeclared attributes, or with tags where none are declared must be handled or rejected)
	{name: "xtypes.Entity.UnmarshalJSONWithSchema", format: fEntityJSON, run: func(in []byte, r *runner) {
		var e xtypes.Entity
		r.at("xtypes.Entity.UnmarshalJSONWithSchema")
		if e.UnmarshalJSONWithSchema(in, coercionSchema()) != nil {
			return
		}
		r.accepted = true
		r.postEntities(types.EntityMap{e.UID: types.Entity(e)})
	}},
	{name: "xtypes.EntityMap.UnmarshalJSONWithSchema", format: fEntityMapJSON, run: func(in []byte, r *runner) {
		var em xtypes.EntityMap
		r.at("xtypes.EntityMap.UnmarshalJSONWithSchema")
		if em.UnmarshalJSONWithSchema(in, coercionSchema()) != nil {
			return
		}
		r.accepted = true
		r.postEntities(types.EntityMap(em))
	}},
	{name: "types.UnmarshalJSON", format: fValueJSON, deep: true, run: func(in []byte, r *runner) {
		var v types.Value
		r.at("types.UnmarshalJSON")
		if types.UnmarshalJSON(in, &v) != nil {
			return
		}
		if v == nil {
			return
		}
		r.accepted = true
		r.postValue(v, "")
	}},
	{name: "json.Unmarshal(Record|Set)", format: fValueJSON, deep: true, run: func(in []byte, r *runner) {
		var rec types.Record
		r.at("json.Unmarshal(Record)")
		if json.Unmarshal(in, &rec) == nil {
			r.accepted = true
			r.postValue(rec, "Record:")
		}
		var set types.Set
		r.at("json.Unmarshal(Set)")
		if json.Unmarshal(in, &set) == nil {
			r.accepted = true
			r.postValue(set, "Set:")
		}
	}},
	{name: "json.Unmarshal(scalars)", format: fValueJSON, run: func(in []byte, r *runner) {
		var d types.Decimal
		r.at("json.Unmarshal(Decimal)")
		if json.Unmarshal(in, &d) == nil {
			r.accepted = true
			r.postValue(d, "Decimal:")
		}
		var ip types.IPAddr
		r.at("json.Unmarshal(IPAddr)")
		if json.Unmarshal(in, &ip) == nil {
			r.accepted = true
			r.postValue(ip, "IPAddr:")
		}
		var dt types.Datetime
		r.at("json.Unmarshal(Datetime)")
		if json.Unmarshal(in, &dt) == nil {
			r.accepted = true
			r.postValue(dt, "Datetime:")
		}
		var du types.Duration
		r.at("json.Unmarshal(Duration)")
		if json.Unmarshal(in, &du) == nil {
			r.accepted = true
			r.postValue(du, "Duration:")
		}
		var u types.EntityUID
		r.at("json.Unmarshal(EntityUID)")
		if json.Unmarshal(in, &u) == nil {
			r.accepted = true
			r.postValue(u, "EntityUID:")
		}
		var b types.Boolean
		r.at("json.Unmarshal(Boolean)")
		if json.Unmarshal(in, &b) == nil {
			r.accepted = true
			r.postValue(b, "Boolean:")
		}
		var l types.Long
		r.at("json.Unmarshal(Long)")
		if json.Unmarshal(in, &l) == nil {
			r.accepted = true
			r.postValue(l, "Long:")
		}
		var s types.String
		r.at("json.Unmarshal(String)")
		if json.Unmarshal(in, &s) == nil {
			r.accepted = true
			r.postValue(s, "String:")
		}
	}},
	{name: "json.Unmarshal(Pattern)", format: fValueJSON, run: func(in []byte, r *runner) {
		var pat types.Pattern
		r.at("json.Unmarshal(Pattern)")
		if json.Unmarshal(in, &pat) != nil {
			return
		}
		r.accepted = true
		r.at("Pattern.MarshalCedar")
		_ = pat.MarshalCedar()
		r.at("Pattern.MarshalJSON")
		_, _ = pat.MarshalJSON()
		r.at("Pattern.Match")
		_ = pat.Match("abc*")
		r.at("policy-with-pattern")
		p := cedar.NewPolicyFromAST(pubast.Permit().When(pubast.Context().Access("s").Like(pat)))
		r.postPolicy(p, "like:")
	}},
	{name: "json.Unmarshal(Request)", format: fRequestJSON, deep: true, run: func(in []byte, r *runner) {
		var q types.Request
		r.at("json.Unmarshal(Request)")
		if json.Unmarshal(in, &q) != nil {
			return
		}
		r.accepted = true
		r.at("json.Marshal(Request)")
		_, _ = json.Marshal(q)
		r.at("Request.Equal(self)")
		_ = q.Equal(q)
		em, _ := r.env()
		r.at("cedar.Authorize(request)")
		_, _ = cedar.Authorize(aux(), em, q)
		r.postValue(q.Context, "context:")
	}},
	{name: "EntityUID.UnmarshalCedar", format: fUIDText, deep: true, run: func(in []byte, r *runner) {
		var u types.EntityUID
		r.at("EntityUID.UnmarshalCedar")
		if u.UnmarshalCedar(in) != nil {
			var u2 types.EntityUID
			r.at("EntityUID.UnmarshalBinary")
			_ = u2.UnmarshalBinary(in)
			return
		}
		r.accepted = true
		r.at("EntityUID.MarshalBinary")
		_, _ = u.MarshalBinary()
		r.at("json.Marshal(ImplicitlyMarshaledEntityUID)")
		_, _ = json.Marshal(types.ImplicitlyMarshaledEntityUID(u))
		r.at("EntityUID.IsZero")
		_ = u.IsZero()
		r.postValue(u, "")
		em, req := r.env()
		req.Principal = u
		r.at("cedar.Authorize(principal=uid)")
		_, _ = cedar.Authorize(aux(), em, req)
	}},
	{name: "Schema.UnmarshalCedar", format: fSchemaText, deep: true, run: func(in []byte, r *runner) {
		var s schema.Schema
		r.at("Schema.UnmarshalCedar")
		if s.UnmarshalCedar(in) != nil {
			return
		}
		r.accepted = true
		r.postSchema(&s)
	}},
	{name: "Schema.UnmarshalCedar(filename)", format: fSchemaText, run: func(in []byte, r *runner) {
		var s schema.Schema
		s.SetFilename("s.cedarschema")
		r.at("Schema.UnmarshalCedar(filename)")
		if s.UnmarshalCedar(in) != nil {
			return
		}
		r.accepted = true
		r.postSchema(&s)
	}},
	{name: "Schema.UnmarshalJSON", format: fSchemaJSON, deep: true, run: func(in []byte, r *runner) {
		var s schema.Schema
		r.at("Schema.UnmarshalJSON")
		if s.UnmarshalJSON(in) != nil {
			return
		}
		r.accepted = true
		r.postSchema(&s)
	}},
	{name: "json.Unmarshal(Schema)", format: fSchemaJSON, run: func(in []byte, r *runner) {
		var s schema.Schema
		r.at("json.Unmarshal(Schema)")
		if json.Unmarshal(in, &s) != nil {
			return
		}
		r.accepted = true
		r.postSchema(&s)
	}},
}

var (
	coercionOnce sync.Once
	coercionRS   *resolved.Schema
)

// coercionSchema declares the entity types of the generated worlds: T0 with tags, T1 without, NS::T2 with record-typed tags.
func coercionSchema() *resolved.Schema {
	coercionOnce.Do(func() {
		var s schema.Schema
		if err := s.UnmarshalCedar([]byte(`
entity T0 in [T1] { a?: Long, b?: String, k?: Bool, x?: T1, e?: T0, ip?: ipaddr, d?: decimal, s?: Set<T1>, r?: { e?: T0, d?: decimal } } tags Long;
entity T1 in [NS::T2] { a?: ipaddr, x?: Set<decimal> };
namespace NS { entity T2 { a?: Set<datetime> } tags { e: T0, n?: ipaddr }; }
action view appliesTo { principal: [T0], resource: [T1] };
`)); err != nil {
			panic("C10 harness: coercion schema does not parse: " + err.Error())
		}
		rs, err := s.Resolve()
		if err != nil {
			panic("C10 harness: coercion schema does not resolve: " + err.Error())
		}
		coercionRS = rs
	})
	return coercionRS
}

func entryByName(name string) *entryDef {
	for i := range entries {
		if entries[i].name == name {
			return &entries[i]
		}
	}
	return nil
}

func firstDeep(f format) *entryDef {
	for i := range entries {
		if entries[i].format == f && entries[i].deep {
			return &entries[i]
		}
	}
	return nil
}

func entriesOf(f format) []*entryDef {
	var out []*entryDef
	for i := range entries {
		if entries[i].format == f {
			out = append(out, &entries[i])
		}
	}
	return out
}

// ---------------------------------------------------------------------------------------------
// known findings: matchers on the input class (inert unless the finding is listed as open)

const (
	kNullPolicy   = "json-policyset-null-policy"
	kRecordNull   = "json-record-null-member"
	kMethodNoRecv = "json-method-call-without-receiver"
	kRecursion    = "unbounded-recursion"
)

var methodExts = map[string]bool{"lessThan": true, "lessThanOrEqual": true, "greaterThan": true, "greaterThanOrEqual": true, "isIpv4": true, "isIpv6": true, "isLoopback": true,
	"isMulticast": true, "isInRange": true, "toDate": true, "toTime": true, "offset": true, "durationSince": true, "toDays": true, "toHours": true, "toMinutes": true, "toSeconds": true, "toMilliseconds": true}

func isNull(n *jnode) bool { return n.k == jRaw && n.s == "null" }

// knownClass returns the key of the open known finding whose input class contains (entry format, input), or "".
// The matchers over-approximate slightly (they ignore which duplicate member wins); matched cases are only skipped, never judged.
func knownClass(f format, in []byte) string {
	if f != fPolicyJSON && f != fPolicySetJSON {
		return ""
	}
	openNull, openRec, openMeth := ev.KnownOpen("C10", kNullPolicy), ev.KnownOpen("C10", kRecordNull), ev.KnownOpen("C10", kMethodNoRecv)
	if !openNull && !openRec && !openMeth {
		return ""
	}
	// cheap pre-filter: every class needs a null, or a method name followed by an empty array
	if !bytes.Contains(in, []byte("null")) {
		hit := false
		if openMeth {
			for m := range methodExts {
				if bytes.Contains(in, []byte(m)) {
					hit = true
					break
				}
			}
		}
		if !hit {
			return ""
		}
	}
	root, err := parseJ(in)
	if err != nil {
		return ""
	}
	if openNull && f == fPolicySetJSON && root.k == jObj {
		for i, k := range root.keys {
			if strings.EqualFold(k, "staticPolicies") && root.elems[i].k == jObj {
				for _, p := range root.elems[i].elems {
					if isNull(p) {
						return kNullPolicy
					}
				}
			}
		}
	}
	found := ""
	var walk func(n *jnode)
	walk = func(n *jnode) {
		if found != "" {
			return
		}
		if n.k == jObj {
			for i, k := range n.keys {
				v := n.elems[i]
				if openRec && strings.EqualFold(k, "Record") && v.k == jObj {
					for _, m := range v.elems {
						if isNull(m) {
							found = kRecordNull
							return
						}
					}
				}
				if openMeth && methodExts[k] && (isNull(v) || (v.k == jArr && len(v.elems) == 0)) {
					found = kMethodNoRecv
					return
				}
			}
		}
		for _, c := range n.elems {
			walk(c)
		}
	}
	walk(root)
	return found
}

// ---------------------------------------------------------------------------------------------
// running a case with bookkeeping

// inProcessLimit: documents up to this size are executed in the test process (under ev.Pending); larger ones go to a child.
const inProcessLimit = 64 << 10

type verdict struct {
	out     outcome
	skipped string // known-finding key when the case was excluded
	sub     string // violation sub-check or ""
	detail  string
}

func judge(c *Case, out outcome) (string, string) {
	if !out.panicked() {
		return "", ""
	}
	return "panic:" + c.Entry + ":" + out.PanicStage, fmt.Sprintf("%s: panic in stage %s: %s [%s]", c.Entry, out.PanicStage, out.PanicMsg, out.Trace)
}

// runCase executes one case in-process with known-finding exclusion, crash attribution and recording.
func runCase(c *Case, layer string, oneMutationFromAccepted bool, extraLabels ...string) verdict {
	e := entryByName(c.Entry)
	in := c.input()
	if k := knownClass(e.format, in); k != "" {
		ev.R.Excluded(k)
		return verdict{skipped: k}
	}
	ev.Pending("exec:"+c.Entry, c)
	out := execute(c, nil)
	ev.ClearPending()
	acc := "rejected"
	if out.Accepted {
		acc = "accepted"
	}
	labels := append([]string{"layer:" + layer, "entry:" + c.Entry + ":" + acc, "format:" + string(e.format) + ":" + acc}, extraLabels...)
	if out.DeepSkip {
		labels = append(labels, "json-encoders-skipped-quadratic")
	}
	h := ir.Hash([]any{c.Entry, in})
	ev.R.Case(h, out.Accepted || oneMutationFromAccepted, labels...)
	class := layer + ":" + string(e.format) + ":" + acc
	if ev.R.WantSample(class) {
		ev.R.Sample(class, map[string]any{"entry": c.Entry, "input": preview(in), "derived": c.Derived, "accepted": out.Accepted, "stages_run": out.Stages})
	}
	sub, detail := judge(c, out)
	if sub != "" {
		ev.R.Violation(sub, c, detail)
	}
	return verdict{out: out, sub: sub, detail: detail}
}

func preview(in []byte) string {
	s := string(in)
	if !utf8.Valid(in) {
		s = strconv.QuoteToASCII(s)
	}
	if len(s) > 300 {
		s = s[:300] + "…"
	}
	return s
}

// ---------------------------------------------------------------------------------------------
// child processes (deep ladder steps, canonical reproducer of the recursion finding, crash replays)

type childResult struct {
	out       outcome
	finished  bool
	timedOut  bool
	lastStage string
	head      string // first lines of the crash report
	overflow  bool
	// resources: the child was killed from outside (SIGKILL without any Go crash report: the kernel's OOM killer) or Go
	// itself gave up allocating; memory exhaustion is not part of the invariant this check judges (see carve-outs)
	resources bool
	elapsed   time.Duration
}

var childSeq atomic.Int64

// workDir: the driver's work directory, or (manual `go test`) the system temp directory; the two small files per child
// are removed as soon as the child has finished.
func workDir() string {
	if d := os.Getenv("VERIF_WORK"); d != "" {
		_ = os.MkdirAll(d, 0o755)
		return d
	}
	return os.TempDir()
}

func runInChild(c *Case, timeout time.Duration) childResult {
	seq := childSeq.Add(1)
	base := filepath.Join(workDir(), fmt.Sprintf("child-%s-%d", os.Getenv("VERIF_SHARD"), seq))
	caseFile, outFile := base+".case.json", base+".out"
	b, _ := json.Marshal(c)
	if err := os.WriteFile(caseFile, b, 0o644); err != nil {
		ev.R.Broken("c10: cannot write child case: " + err.Error())
		return childResult{}
	}
	defer os.Remove(caseFile)
	defer os.Remove(outFile)
	cmd := exec.Command(os.Args[0], "-test.run", "^TestChild$", "-test.count", "1", "-test.timeout", "0")
	// VERIF_HANG_S: the child has no 90 s per-stage watchdog (ev reads the limit from the environment); its only time
	// limit is the parent's, whose expiry means "inconclusive"
	cmd.Env = append(os.Environ(), "C10_CHILD_CASE="+caseFile, "C10_CHILD_OUT="+outFile, "VERIF_WORK=", "VERIF_REPLAY=", "VERIF_HANG_S=864000")
	var stderr bytes.Buffer
	cmd.Stdout = &stderr
	cmd.Stderr = &stderr
	start := time.Now()
	if err := cmd.Start(); err != nil {
		ev.R.Broken("c10: cannot start child: " + err.Error())
		return childResult{}
	}
	done := make(chan error, 1)
	go func() { done <- cmd.Wait() }()
	var res childResult
	select {
	case <-done:
	case <-time.After(timeout):
		_ = cmd.Process.Kill()
		<-done
		res.timedOut = true
	}
	res.elapsed = time.Since(start)
	ob, _ := os.ReadFile(outFile)
	lines := strings.Split(strings.TrimSpace(string(ob)), "\n")
	for _, l := range lines {
		if strings.HasPrefix(l, "RESULT ") {
			if json.Unmarshal([]byte(l[7:]), &res.out) == nil {
				res.finished = true
			}
		} else if l != "" {
			res.lastStage = l
		}
	}
	if !res.finished {
		s := stderr.String()
		res.overflow = strings.Contains(s, "stack overflow") || strings.Contains(s, "goroutine stack exceeds")
		goReport := strings.Contains(s, "fatal error:") || strings.Contains(s, "panic:") || res.overflow
		if ws, ok := cmd.ProcessState.Sys().(syscall.WaitStatus); ok && !res.timedOut {
			if ws.Signaled() && ws.Signal() == syscall.SIGKILL && !goReport {
				res.resources = true
				res.head = "killed by SIGKILL without a Go crash report (out-of-memory killer)"
			}
		}
		if strings.Contains(s, "out of memory") || strings.Contains(s, "cannot allocate memory") {
			res.resources = true
		}
		if i := strings.Index(s, "runtime: goroutine stack exceeds"); i >= 0 {
			s = s[i:]
		} else if i := strings.Index(s, "fatal error:"); i >= 0 {
			s = s[i:]
		}
		var fr []string
		for _, l := range strings.Split(s, "\n") {
			if strings.HasPrefix(l, "fatal error") || strings.HasPrefix(l, "runtime: goroutine stack") || strings.HasPrefix(l, "github.com/cedar-policy") || strings.HasPrefix(l, "encoding/json") || strings.HasPrefix(l, "signal:") || strings.HasPrefix(l, "panic:") {
				if i := strings.LastIndex(l, "("); i > 0 && !strings.HasPrefix(l, "fatal") && !strings.HasPrefix(l, "runtime:") {
					l = strings.TrimPrefix(l[:i], "github.com/cedar-policy/cedar-go")
				}
				if len(fr) > 0 && fr[len(fr)-1] == l || len(fr) > 1 && fr[len(fr)-2] == l {
					continue
				}
				fr = append(fr, l)
			}
			if len(fr) >= 7 {
				break
			}
		}
		if len(fr) > 0 || res.head == "" {
			res.head = strings.Join(fr, " | ")
		}
		if res.head == "" {
			tail := strings.TrimSpace(stderr.String())
			if len(tail) > 300 {
				tail = tail[len(tail)-300:]
			}
			res.head = fmt.Sprintf("exit code %d, no Go crash report; last output: %q", cmd.ProcessState.ExitCode(), tail)
		}
	}
	return res
}

// TestChild is the body of a child process; it does nothing in an ordinary run.
func TestChild(t *testing.T) {
	cf := os.Getenv("C10_CHILD_CASE")
	if cf == "" {
		return
	}
	b, err := os.ReadFile(cf)
	if err != nil {
		t.Fatal(err)
	}
	var c Case
	if err := json.Unmarshal(b, &c); err != nil {
		t.Fatal(err)
	}
	f, err := os.Create(os.Getenv("C10_CHILD_OUT"))
	if err != nil {
		t.Fatal(err)
	}
	defer f.Close()
	out := execute(&c, f)
	ob, _ := json.Marshal(out)
	fmt.Fprintln(f, "RESULT "+string(ob))
}

// ---------------------------------------------------------------------------------------------
// (a) exhaustive sub-part

// quick tier: the three replacements named by the property (null, [], missing); thorough tier: also {}, 0, ""
var exhaustiveVariants = []string{"null", "[]", "<missing>", "{}", "0", `""`}

func TestExhaustivePaths(t *testing.T) {
	idx := 0
	failed := 0
	exhaustiveVariants := exhaustiveVariants[:ev.Pick(3, 6)]
	for _, f := range allFormats {
		if !f.isJSON() {
			continue
		}
		doc := representative(f)
		root, err := parseJ(doc)
		if err != nil {
			ev.R.Broken("c10: representative " + string(f) + " document does not parse: " + err.Error())
			continue
		}
		// the unmodified representative must be accepted by the primary entry (generator health)
		if ev.First() {
			for _, e := range entriesOf(f) {
				v := runCase(newCase(e.name, doc, nil, "representative"), "exhaustive", true)
				if v.skipped == "" && !v.out.Accepted && e.deep {
					ev.R.Broken("c10: representative " + string(f) + " document is rejected by " + e.name)
				}
			}
		}
		n := len(refs(root))
		count := 0
		for i := 0; i < n; i++ {
			for _, variant := range exhaustiveVariants {
				count++
				idx++
				if idx%ev.NShards != ev.Shard {
					continue
				}
				d := &jdoc{root: root.clone()}
				r := refs(d.root)[i]
				if variant == "<missing>" {
					d.remove(r)
				} else {
					d.set(r, raw(variant))
				}
				in := []byte(d.root.String())
				for _, e := range entriesOf(f) {
					v := runCase(newCase(e.name, in, nil, fmt.Sprintf("representative %s: %s := %s", f, r.path, variant)), "exhaustive", true, "exhaustive:"+variant)
					if v.sub != "" {
						failed++
						if failed <= 15 {
							t.Errorf("C10/%s: %s (path %s := %s)", v.sub, v.detail, r.path, variant)
						}
					}
				}
			}
		}
		if ev.First() {
			ev.R.Space(fmt.Sprintf("%s representative document: {%s} at every JSON path (%d paths), every entry point of the format", f, strings.Join(exhaustiveVariants, ","), n), count*len(entriesOf(f)))
		}
	}
	if failed > 15 {
		t.Errorf("C10: %d further exhaustive-path violations", failed-15)
	}
}

// TestExhaustiveText: delete every token / truncate at every token boundary of the representative text documents;
// truncate the JSON representatives at every byte offset.
func TestExhaustiveText(t *testing.T) {
	idx := 0
	failed := 0
	do := func(f format, in []byte, derived string) {
		idx++
		if idx%ev.NShards != ev.Shard {
			return
		}
		for _, e := range entriesOf(f) {
			v := runCase(newCase(e.name, in, nil, derived), "exhaustive-text", true)
			if v.sub != "" {
				failed++
				if failed <= 15 {
					t.Errorf("C10/%s: %s (%s)", v.sub, v.detail, derived)
				}
			}
		}
	}
	for _, f := range allFormats {
		doc := representative(f)
		count := 0
		if f.isJSON() {
			step := 1
			if !ev.Thorough() {
				step = 7
			}
			for i := 0; i < len(doc); i += step {
				count++
				do(f, doc[:i], fmt.Sprintf("representative %s truncated to %d bytes", f, i))
			}
			if ev.First() {
				ev.R.Space(fmt.Sprintf("%s representative document truncated at every %d-th byte offset", f, step), count*len(entriesOf(f)))
			}
			continue
		}
		toks := splitTokens(string(doc))
		tstep := 1
		if !ev.Thorough() && len(toks) > 300 {
			tstep = 3
		}
		for i := 0; i < len(toks); i++ {
			// truncation before every token in both tiers (an input that ends right after an operator, a sign, a `::`, an
			// opening quote ... is where look-ahead code reads past the end); delete / double every tstep-th token
			count++
			do(f, []byte(strings.Join(toks[:i], "")), fmt.Sprintf("representative %s truncated before token %d", f, i))
			if i%tstep != 0 {
				continue
			}
			count += 2
			do(f, []byte(strings.Join(toks[:i], "")+strings.Join(toks[i+1:], "")), fmt.Sprintf("representative %s without token %d (%q)", f, i, toks[i]))
			do(f, []byte(strings.Join(toks[:i+1], "")+strings.Join(toks[i:], "")), fmt.Sprintf("representative %s with token %d doubled", f, i))
		}
		if ev.First() {
			ev.R.Space(fmt.Sprintf("%s representative document: truncate before / delete / double every token (%d tokens, every %d-th)", f, len(toks), tstep), count*len(entriesOf(f)))
		}
	}
	if failed > 15 {
		t.Errorf("C10: %d further exhaustive-text violations", failed-15)
	}
}

// ---------------------------------------------------------------------------------------------
// (a) structured mutation

type mutated struct {
	in      []byte
	derived string
	nmut    int
}

func mutateDoc(rt *rapid.T, f format, seed []byte) mutated {
	nm := rapid.IntRange(1, 3).Draw(rt, "nmut")
	var steps []string
	cur := seed
	for i := 0; i < nm; i++ {
		mode := rapid.IntRange(0, 9).Draw(rt, "mutmode")
		if f.isJSON() && mode < 7 {
			if root, err := parseJ(cur); err == nil {
				d := &jdoc{root: root}
				steps = append(steps, mutateJSON(rt, d))
				cur = []byte(d.root.String())
				continue
			}
		}
		if mode < 7 || (f.isJSON() && mode == 7) {
			s, k := mutateText(rt, string(cur))
			cur = []byte(s)
			steps = append(steps, k)
			continue
		}
		var k string
		cur, k = mutateBytes(rt, cur)
		steps = append(steps, k)
	}
	return mutated{in: cur, derived: "seed+" + strings.Join(steps, "+"), nmut: nm}
}

func mutationProperty(t *testing.T, f format, quickN, thoroughN int) {
	ev.SetChecks(ev.Scale(quickN, thoroughN))
	ev.Check(t, func(rt *rapid.T) {
		w := gen.GenWorld(rt, 4, valOpts(rt))
		seed := seedDoc(rt, f, &w)
		es := entriesOf(f)
		bad := false
		// the seed itself through one entry point (tells whether the mutants are "one mutation from accepted")
		pe := es[rapid.IntRange(0, len(es)-1).Draw(rt, "seedentry")]
		sv := runCase(newCase(pe.name, seed, &w, "seed"), "mutation-seed", false)
		if sv.sub != "" {
			bad = true
		}
		m := mutateDoc(rt, f, seed)
		near := sv.out.Accepted && m.nmut == 1
		for _, e := range es {
			v := runCase(newCase(e.name, m.in, &w, m.derived), "mutation", near, "mutations:"+strconv.Itoa(m.nmut))
			if v.sub != "" {
				bad = true
			}
		}
		for _, s := range strings.Split(m.derived, "+")[1:] {
			ev.R.Label("mut:"+s, 1)
		}
		if bad {
			rt.Fatalf("C10/mutation: a decoder, an encoder or the authorizer panicked")
		}
	})
}

// budgets = rapid cases (each runs the seed through one entry point and the mutant through every entry point of the format)
func TestMutatePolicyText(t *testing.T)    { mutationProperty(t, fPolicyText, 1000, 60000) }
func TestMutatePolicyJSON(t *testing.T)    { mutationProperty(t, fPolicyJSON, 1600, 60000) }
func TestMutatePolicySetJSON(t *testing.T) { mutationProperty(t, fPolicySetJSON, 800, 30000) }
func TestMutateEntityJSON(t *testing.T)    { mutationProperty(t, fEntityJSON, 1200, 40000) }
func TestMutateEntityMapJSON(t *testing.T) { mutationProperty(t, fEntityMapJSON, 1000, 30000) }
func TestMutateValueJSON(t *testing.T)     { mutationProperty(t, fValueJSON, 1600, 60000) }
func TestMutateRequestJSON(t *testing.T)   { mutationProperty(t, fRequestJSON, 1000, 30000) }
func TestMutateUIDText(t *testing.T)       { mutationProperty(t, fUIDText, 1000, 30000) }
func TestMutateSchemaText(t *testing.T)    { mutationProperty(t, fSchemaText, 1600, 40000) }
func TestMutateSchemaJSON(t *testing.T)    { mutationProperty(t, fSchemaJSON, 800, 40000) }

// ---------------------------------------------------------------------------------------------
// (b) depth / size ladder

const childTimeout = 15 * time.Minute

func depthLabel(d int) string {
	switch {
	case d <= 10:
		return "depth:<=10"
	case d <= 100:
		return "depth:<=1e2"
	case d <= 1000:
		return "depth:<=1e3"
	case d <= 10000:
		return "depth:<=1e4"
	case d <= 100000:
		return "depth:<=1e5"
	}
	return "depth:>1e5"
}

func TestLadder(t *testing.T) {
	idx := 0
	var crashes []string
	limitOf := func(k *construct) int {
		if ev.Thorough() {
			return 0 // up to 1 MiB of input
		}
		return k.quickLimit()
	}
	for ci := range constructs {
		k := &constructs[ci]
		crashed := false
		for _, depth := range k.ladderDepths(limitOf(k)) {
			for _, e := range entriesOf(k.format) {
				if depth > ev.Pick(100, 1000) && !e.deep {
					continue
				}
				if depth > 10000 && e != firstDeep(k.format) {
					continue // one entry point per format above 10^4: the others share the parser and a step costs minutes
				}
				idx++
				if idx%ev.NShards != ev.Shard {
					continue
				}
				c := &Case{Entry: e.name, Ladder: &LadderRef{Construct: k.name, Depth: depth}, Derived: "ladder"}
				if !ev.Thorough() {
					c.MaxJSONEncDepth = quickJSONEncDepth
				}
				doc := k.build(depth)
				// Steps up to depth 1 000 run in this process (under ev.Pending and the 90 s watchdog). Deeper steps run in a
				// child process: several decoders / encoders are quadratic in depth, so on a loaded machine a 10^4 step can
				// take minutes, and a child that is slow is "inconclusive", never a hang alarm.
				if depth <= 1000 && len(doc) <= 4*inProcessLimit {
					ev.R.Flush()
					t0 := time.Now()
					v := runCase(c, "ladder", true, depthLabel(depth), "construct:"+k.name)
					if el := time.Since(t0); el > 500*time.Millisecond {
						t.Logf("slow ladder step: %s depth %d via %s: %v", k.name, depth, e.name, el)
					}
					if v.sub != "" {
						t.Errorf("C10/%s: %s (construct %s depth %d)", v.sub, v.detail, k.name, depth)
					}
					continue
				}
				if crashed && ev.KnownOpen("C10", kRecursion) {
					// a shallower step of this construct already overflowed the stack: deeper ones add nothing
					ev.R.Excluded(kRecursion)
					continue
				}
				res := runInChild(c, childTimeout)
				acc := "rejected"
				if res.out.Accepted {
					acc = "accepted"
				}
				switch {
				case res.finished:
					ev.R.Case(ir.Hash([]any{c.Entry, k.name, depth}), true, "layer:ladder", depthLabel(depth), "construct:"+k.name, "entry:"+c.Entry+":"+acc, "ladder:child-finished")
					if ev.R.WantSample("ladder:deep:" + string(k.format)) {
						ev.R.Sample("ladder:deep:"+string(k.format), map[string]any{"entry": c.Entry, "construct": k.name, "depth": depth, "bytes": len(doc), "accepted": res.out.Accepted, "stages_run": res.out.Stages, "seconds": int(res.elapsed.Seconds())})
					}
					if sub, detail := judge(c, res.out); sub != "" {
						ev.R.Violation(sub, c, detail)
						t.Errorf("C10/%s: %s (construct %s depth %d)", sub, detail, k.name, depth)
					}
				case res.timedOut:
					ev.R.Label("ladder:child-timeout-inconclusive", 1)
					ev.R.Note(fmt.Sprintf("ladder %s depth %d via %s: no result within %v at stage %s (inconclusive, not a violation)", k.name, depth, c.Entry, childTimeout, res.lastStage))
				case res.resources:
					ev.R.Label("ladder:child-out-of-memory-inconclusive", 1)
					ev.R.Note(fmt.Sprintf("ladder %s depth %d via %s: child ran out of memory / was killed in stage %s (%s) - inconclusive, memory exhaustion is not judged", k.name, depth, c.Entry, res.lastStage, res.head))
				default:
					ev.R.Case(ir.Hash([]any{c.Entry, k.name, depth}), true, "layer:ladder", depthLabel(depth), "construct:"+k.name, "ladder:child-died")
					msg := fmt.Sprintf("%s on construct %s at depth %d (%d bytes): process died in stage %s: %s", c.Entry, k.name, depth, len(doc), res.lastStage, res.head)
					if res.overflow && depth > 10000 && ev.KnownOpen("C10", kRecursion) {
						// the open finding's class: nesting deeper than 10^4 + fatal stack overflow
						crashed = true
						ev.R.Excluded(kRecursion)
						ev.R.Label("ladder:stack-overflow:"+k.name+":"+res.lastStage, 1)
						crashes = append(crashes, fmt.Sprintf("%s@%d:%s", k.name, depth, res.lastStage))
						ev.R.Note("known unbounded-recursion: " + msg)
					} else {
						ev.R.Violation("crash:"+c.Entry+":"+res.lastStage, c, msg)
						t.Errorf("C10/crash: %s", msg)
					}
				}
			}
		}
	}
	if ev.First() {
		n := 0
		for ci := range constructs {
			n += len(constructs[ci].ladderDepths(limitOf(&constructs[ci])))
		}
		ev.R.Space(fmt.Sprintf("depth/size ladder: %d constructs x depths 10,100,... up to %s", len(constructs), map[bool]string{true: "1 MiB of input", false: "10^3 (10^4 for 14 cheap constructs; quick tier)"}[ev.Thorough()]), n)
	}
	if len(crashes) > 0 {
		t.Logf("known recursion crashes observed: %s", strings.Join(crashes, ", "))
	}
}

// ---------------------------------------------------------------------------------------------
// known findings: canonical reproducers

func TestKnown(t *testing.T) {
	if !ev.First() {
		return
	}
	canon := []struct {
		key, entry, input, what string
	}{
		{kNullPolicy, "PolicySet.UnmarshalJSON", `{"staticPolicies":{"a":null}}`, `PolicySet.UnmarshalJSON({"staticPolicies":{"a":null}})`},
		{kRecordNull, "Policy.UnmarshalJSON", jpol(`{"Record":{"a":null}}`), `policy JSON with body {"Record":{"a":null}}`},
		{kMethodNoRecv, "Policy.UnmarshalJSON", jpol(`{"isIpv4":[]}`), `policy JSON with body {"isIpv4":[]}`},
	}
	for _, k := range canon {
		c := newCase(k.entry, []byte(k.input), nil, "canonical reproducer")
		if ev.KnownOpen("C10", k.key) {
			out := execute(c, nil)
			if out.panicked() {
				ev.R.KnownFinding(k.key, fmt.Sprintf("%s panics in stage %s: %s", k.what, out.PanicStage, out.PanicMsg))
			}
			continue
		}
		// not (or no longer) listed as open: an ordinary regression case
		v := runCase(c, "regression", true)
		if v.sub != "" {
			t.Errorf("C10/%s: %s", v.sub, v.detail)
		}
	}
	// recursion: `(` x 400 000 (400 KB) kills the parser; observed in a child process
	c := recursionRepro()
	var res childResult
	if reproResult != nil {
		res = <-reproResult // started by TestMain
	} else {
		res = runInChild(c, childTimeout)
	}
	switch {
	case res.finished:
		ev.R.Case(ir.Hash([]any{c.Entry, "paren-open", 400000}), true, "layer:regression")
		if sub, detail := judge(c, res.out); sub != "" {
			ev.R.Violation(sub, c, detail)
			t.Errorf("C10/%s: %s", sub, detail)
		}
	case res.timedOut || res.resources:
		ev.R.Note("recursion reproducer: no result (time limit or out of memory) - inconclusive: " + res.head)
	default:
		msg := fmt.Sprintf("Policy.UnmarshalCedar on 400 000 nested '(' (400 KB): process died in stage %s: %s", res.lastStage, res.head)
		if ev.KnownOpen("C10", kRecursion) && res.overflow {
			ev.R.KnownFinding(kRecursion, msg)
		} else {
			ev.R.Violation("crash:"+c.Entry+":"+res.lastStage, c, msg)
			t.Errorf("C10/crash: %s", msg)
		}
	}
}

// ---------------------------------------------------------------------------------------------
// (c) native fuzz targets. The oracle is inside the target; a failing input is also recorded as a violation so that the
// seed-corpus pass of an ordinary shard run yields a replay.

var fuzzHostile = []string{"", "null", "{}", "[]", "0", `""`, "\x00", "\xff\xfe", "[[[[[[[[", "((((((((", "{\"a\":", "permit(", "@", "\"", "/*", "/**", "/* *", "/*/", "entity A; /**", "//", "!!!!!!!!1", "--------1",
	`{"staticPolicies":null}`, `{"staticPolicies":{}}`, `{"effect":"permit"}`, `{"__entity":{}}`, `{"__extn":{}}`, "namespace", "entity A in", "T::\""}

func fuzzFormat(f *testing.F, name string, formats ...format) {
	for _, ft := range formats {
		f.Add(representative(ft))
		g := rapid.Custom(func(rt *rapid.T) []byte {
			w := gen.GenWorld(rt, 3, valOpts(rt))
			return seedDoc(rt, ft, &w)
		})
		for i := 0; i < 12; i++ {
			f.Add(g.Example(i + 1))
		}
	}
	for _, h := range fuzzHostile {
		f.Add([]byte(h))
	}
	limit := maxInput
	if ev.KnownOpen("C10", kRecursion) {
		limit = inProcessLimit // deeper nesting is the open unbounded-recursion finding; the ladder owns that class
	}
	f.Fuzz(func(t *testing.T, in []byte) {
		if len(in) > limit {
			t.Skip()
		}
		for _, ft := range formats {
			for _, e := range entriesOf(ft) {
				if k := knownClass(ft, in); k != "" {
					continue
				}
				c := newCase(e.name, in, nil, "fuzz "+name)
				out := execute(c, nil)
				if os.Getenv("VERIF_FUZZ") == "" {
					acc := "rejected"
					if out.Accepted {
						acc = "accepted"
					}
					ev.R.Case(ir.Hash([]any{c.Entry, in}), out.Accepted, "layer:fuzz-seed", "entry:"+c.Entry+":"+acc)
				}
				if sub, detail := judge(c, out); sub != "" {
					ev.R.Violation(sub, c, detail)
					t.Fatalf("C10/%s: %s", sub, detail)
				}
			}
		}
	})
}

func FuzzPolicyText(f *testing.F)    { fuzzFormat(f, "FuzzPolicyText", fPolicyText) }
func FuzzPolicyJSON(f *testing.F)    { fuzzFormat(f, "FuzzPolicyJSON", fPolicyJSON) }
func FuzzPolicySetJSON(f *testing.F) { fuzzFormat(f, "FuzzPolicySetJSON", fPolicySetJSON) }
func FuzzEntitiesJSON(f *testing.F)  { fuzzFormat(f, "FuzzEntitiesJSON", fEntityJSON, fEntityMapJSON) }
func FuzzValueJSON(f *testing.F)     { fuzzFormat(f, "FuzzValueJSON", fValueJSON, fRequestJSON) }
func FuzzUIDText(f *testing.F)       { fuzzFormat(f, "FuzzUIDText", fUIDText) }
func FuzzSchemaText(f *testing.F)    { fuzzFormat(f, "FuzzSchemaText", fSchemaText) }
func FuzzSchemaJSON(f *testing.F)    { fuzzFormat(f, "FuzzSchemaJSON", fSchemaJSON) }

var fuzzTargetFormats = map[string][]format{
	"FuzzPolicyText": {fPolicyText}, "FuzzPolicyJSON": {fPolicyJSON}, "FuzzPolicySetJSON": {fPolicySetJSON}, "FuzzEntitiesJSON": {fEntityJSON, fEntityMapJSON},
	"FuzzValueJSON": {fValueJSON, fRequestJSON}, "FuzzUIDText": {fUIDText}, "FuzzSchemaText": {fSchemaText}, "FuzzSchemaJSON": {fSchemaJSON},
}

// parseCorpusFile decodes a "go test fuzz v1" corpus entry holding one []byte value.
func parseCorpusFile(s string) ([]byte, error) {
	lines := strings.Split(strings.TrimSpace(s), "\n")
	if len(lines) < 2 || !strings.HasPrefix(lines[0], "go test fuzz v1") {
		return nil, errors.New("not a go fuzz corpus file")
	}
	l := strings.TrimSpace(lines[1])
	if !strings.HasPrefix(l, "[]byte(") || !strings.HasSuffix(l, ")") {
		return nil, errors.New("corpus entry is not a []byte value")
	}
	q, err := strconv.Unquote(l[len("[]byte(") : len(l)-1])
	return []byte(q), err
}

// ---------------------------------------------------------------------------------------------
// replay

func TestReplay(t *testing.T) {
	rf, ok, err := ev.LoadReplay()
	if !ok {
		t.Skip("no replay requested")
	}
	if err != nil {
		t.Fatal(err)
	}
	var cases []*Case
	if strings.HasPrefix(rf.Sub, "fuzz/") {
		var fc struct {
			Target string `json:"fuzz_target"`
			Corpus string `json:"corpus_file"`
		}
		if err := json.Unmarshal(rf.Case, &fc); err != nil {
			t.Fatalf("cannot decode fuzz replay: %v", err)
		}
		in, err := parseCorpusFile(fc.Corpus)
		if err != nil {
			t.Fatalf("cannot decode fuzz corpus entry: %v", err)
		}
		for _, ft := range fuzzTargetFormats[fc.Target] {
			for _, e := range entriesOf(ft) {
				cases = append(cases, newCase(e.name, in, nil, "fuzz replay "+fc.Target))
			}
		}
	} else {
		var c Case
		if err := json.Unmarshal(rf.Case, &c); err != nil || entryByName(c.Entry) == nil {
			t.Fatalf("cannot decode replay case: %v", err)
		}
		cases = append(cases, &c)
	}
	for _, c := range cases {
		// always in a child: the replayed case may be a fatal crash
		res := runInChild(c, childTimeout)
		switch {
		case res.finished:
			if sub, detail := judge(c, res.out); sub != "" {
				ev.R.Violation(sub, c, detail)
				t.Errorf("C10 replay %s: %s", sub, detail)
			}
		case res.timedOut:
			ev.R.Violation("hang:"+c.Entry+":"+res.lastStage, c, "no result within "+childTimeout.String())
			t.Errorf("C10 replay: %s did not finish (stage %s)", c.Entry, res.lastStage)
		case res.resources:
			t.Logf("C10 replay: %s ran out of memory in stage %s (%s) - not judged", c.Entry, res.lastStage, res.head)
		default:
			msg := fmt.Sprintf("%s: process died in stage %s: %s", c.Entry, res.lastStage, res.head)
			ev.R.Violation("crash:"+c.Entry+":"+res.lastStage, c, msg)
			t.Errorf("C10 replay: %s", msg)
		}
	}
}
