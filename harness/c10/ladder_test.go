package c10

// Depth / size ladder: one builder per recursive (or merely long) construct of every format.

import "strings"

type construct struct {
	name   string
	format format
	build  func(n int) string
	// maxN caps the depth where the construct itself expands super-linearly (documented carve-out); 0 = up to 1 MiB of input
	maxN int
	// extra depths beyond maxN (used where the region between maxN and the extra depth is merely slow, e.g. nested value JSON
	// between 3 000 and encoding/json's nesting limit of 10 000); -1 stands for "1 MiB of input"
	extra []int
	// quick-tier depth limit; 0 = 1 000 (a handful of cheap constructs climb to 10^4 in the quick tier as well)
	quick int
}

func (c *construct) quickLimit() int {
	if c.quick > 0 {
		return c.quick
	}
	return 1000
}

var overJSONLimit = []int{10001, -1}

func rep(s string, n int) string { return strings.Repeat(s, n) }

func when(e string) string { return "permit(principal,action,resource) when { " + e + " };" }

func jpol(body string) string {
	return `{"effect":"permit","principal":{"op":"All"},"action":{"op":"All"},"resource":{"op":"All"},"conditions":[{"kind":"when","body":` + body + `}]}`
}

const maxInput = 1 << 20

var constructs = []construct{
	// Cedar policy text
	{name: "paren", format: fPolicyText, quick: 10000, build: func(n int) string { return when(rep("(", n) + "1" + rep(")", n)) }},
	{name: "paren-open", format: fPolicyText, build: func(n int) string { return when(rep("(", n)) }},
	{name: "not", format: fPolicyText, quick: 10000, build: func(n int) string { return when(rep("!", n) + "true") }},
	{name: "neg", format: fPolicyText, build: func(n int) string { return when(rep("-", n) + "1") }},
	{name: "neg-not-mixed", format: fPolicyText, build: func(n int) string { return when(rep("!-", n/2) + "1") }},
	{name: "access", format: fPolicyText, quick: 10000, build: func(n int) string { return when("context" + rep(".a", n)) }},
	{name: "index", format: fPolicyText, build: func(n int) string { return when("context" + rep(`["a"]`, n)) }},
	{name: "set", format: fPolicyText, quick: 10000, build: func(n int) string { return when(rep("[", n) + rep("]", n)) }},
	{name: "set-open", format: fPolicyText, build: func(n int) string { return when(rep("[", n)) }},
	{name: "record", format: fPolicyText, build: func(n int) string { return when(rep("{a:", n) + "1" + rep("}", n)) }},
	{name: "record-open", format: fPolicyText, build: func(n int) string { return when(rep("{a:", n)) }},
	// the same nestings around a leaf that is not a constant (nothing folds away at compile time: work that is repeated
	// per level shows as exponential time)
	{name: "record-var-leaf", format: fPolicyText, build: func(n int) string { return when(rep("{a:", n) + "principal" + rep("}", n) + " == context") }},
	{name: "set-var-leaf", format: fPolicyText, build: func(n int) string { return when(rep("[", n) + "context.x" + rep("]", n) + ".isEmpty()") }},
	{name: "not-var-leaf", format: fPolicyText, build: func(n int) string { return when(rep("!", n) + "context.b") }},
	{name: "neg-var-leaf", format: fPolicyText, build: func(n int) string { return when(rep("-", n) + "context.n == 1") }},
	{name: "paren-var-leaf", format: fPolicyText, build: func(n int) string { return when(rep("(", n) + "context.b" + rep(")", n)) }},
	{name: "if-var-leaf", format: fPolicyText, build: func(n int) string {
		return when(rep("if context.b then 1 else (", n) + "context.n" + rep(")", n) + " == 1")
	}},
	{name: "and-right-var-leaf", format: fPolicyText, build: func(n int) string { return when(rep("context.b && (", n) + "context.b" + rep(")", n)) }},
	{name: "call-arg-var-leaf", format: fPolicyText, build: func(n int) string { return when(rep("ip(", n) + "context.s" + rep(")", n) + ".isIpv4()") }},
	{name: "method-arg-var-leaf", format: fPolicyText, build: func(n int) string {
		return when(rep("[1].contains(", n) + "context.n" + rep(")", n))
	}},
	{name: "record-set-mixed-var-leaf", format: fPolicyText, build: func(n int) string {
		return when(rep("{a:[", n/2) + "resource" + rep("]}", n/2) + " == context")
	}},
	{name: "if-else-chain", format: fPolicyText, quick: 10000, build: func(n int) string { return when(rep("if true then 1 else ", n) + "1") }},
	{name: "if-cond-chain", format: fPolicyText, build: func(n int) string { return when(rep("if ", n) + "true" + rep(" then 1 else 1", n)) }},
	{name: "if-open", format: fPolicyText, build: func(n int) string { return when(rep("if ", n)) }},
	{name: "and-left", format: fPolicyText, quick: 10000, build: func(n int) string { return when("true" + rep(" && true", n)) }},
	{name: "and-right", format: fPolicyText, build: func(n int) string { return when(rep("true && (", n) + "true" + rep(")", n)) }},
	{name: "or-left", format: fPolicyText, build: func(n int) string { return when("false" + rep(" || false", n)) }},
	{name: "add-left", format: fPolicyText, build: func(n int) string { return when("1" + rep(" + 1", n)) }},
	{name: "mult-left", format: fPolicyText, build: func(n int) string { return when("1" + rep(" * 1", n)) }},
	{name: "method-chain", format: fPolicyText, build: func(n int) string { return when("[1]" + rep(".contains(1)", n)) }},
	{name: "ext-method-chain", format: fPolicyText, build: func(n int) string { return when(`datetime("2024-01-01")` + rep(`.offset(duration("1ms"))`, n)) }},
	{name: "call-arg-nest", format: fPolicyText, build: func(n int) string { return when(rep("ip(", n) + `"1.2.3.4"` + rep(")", n)) }},
	{name: "is-in-chain", format: fPolicyText, build: func(n int) string { return when(rep("principal is T in (", n) + "principal" + rep(")", n)) }},
	// `a has x.y.z…` is syntactic sugar for a conjunction whose size is quadratic in the chain length (by specification);
	// capped so that the expansion stays in memory (carve-out: not explored beyond this length)
	{name: "has-chain", format: fPolicyText, maxN: 200, quick: 60, build: func(n int) string { return when("context has a" + rep(".a", n)) }},
	{name: "many-policies", format: fPolicyText, build: func(n int) string { return rep("permit(principal,action,resource);\n", n) }},
	{name: "many-conditions", format: fPolicyText, build: func(n int) string { return "permit(principal,action,resource)" + rep(" when{true}", n) + ";" }},
	{name: "many-annotations", format: fPolicyText, maxN: 20000, build: func(n int) string {
		var sb strings.Builder
		for i := 0; i < n; i++ {
			sb.WriteString("@a")
			sb.WriteString(itoa(i))
			sb.WriteString(`("")`)
		}
		return sb.String() + "permit(principal,action,resource);"
	}},
	{name: "long-string", format: fPolicyText, quick: 10000, build: func(n int) string { return when(`"` + rep("a", n) + `" == ""`) }},
	{name: "long-escapes", format: fPolicyText, build: func(n int) string { return when(`"` + rep(`\u{41}`, n) + `" like "` + rep(`\*`, n) + `"`) }},
	{name: "long-ident", format: fPolicyText, build: func(n int) string { return when("principal is " + rep("A", n)) }},
	{name: "long-path", format: fPolicyText, build: func(n int) string { return when("principal is A" + rep("::A", n)) }},
	{name: "long-int", format: fPolicyText, build: func(n int) string { return when(rep("9", n) + " == 1") }},
	{name: "block-comments", format: fPolicyText, quick: 10000, build: func(n int) string { return rep("/* c */", n) + when("true") }},
	{name: "line-comments", format: fPolicyText, quick: 10000, build: func(n int) string { return rep("//\n", n) + when("true") }},
	{name: "one-long-comment", format: fPolicyText, quick: 10000, build: func(n int) string { return "/*" + rep("*", n) + "*/" + when("true") + "//" + rep("/", n) }},
	{name: "nested-comment-openers", format: fPolicyText, quick: 10000, build: func(n int) string { return rep("/*", n) + rep("*/", n) + when("true") }},
	{name: "wide-set", format: fPolicyText, build: func(n int) string { return when("[" + rep("1,", n) + "1].isEmpty()") }},
	{name: "wide-action-list", format: fPolicyText, build: func(n int) string {
		return "permit(principal,action in [" + rep(`A::"a",`, n) + "],resource);"
	}},
	// policy JSON (encoding/json refuses nesting deeper than 10 000 by itself)
	{name: "json-not", format: fPolicyJSON, build: func(n int) string { return jpol(rep(`{"!":{"arg":`, n) + `{"Value":true}` + rep(`}}`, n)) }},
	{name: "json-set", format: fPolicyJSON, build: func(n int) string { return jpol(rep(`{"Set":[`, n) + rep(`]}`, n)) }},
	{name: "json-record", format: fPolicyJSON, build: func(n int) string { return jpol(rep(`{"Record":{"a":`, n) + `{"Value":1}` + rep(`}}`, n)) }},
	{name: "json-and-left", format: fPolicyJSON, build: func(n int) string {
		return jpol(rep(`{"&&":{"left":`, n) + `{"Value":true}` + rep(`,"right":{"Value":true}}}`, n))
	}},
	{name: "json-if", format: fPolicyJSON, build: func(n int) string {
		return jpol(rep(`{"if-then-else":{"if":{"Value":true},"then":{"Value":1},"else":`, n) + `{"Value":1}` + rep(`}}`, n))
	}},
	{name: "json-ext-arg", format: fPolicyJSON, build: func(n int) string { return jpol(rep(`{"ip":[`, n) + `{"Value":"1.2.3.4"}` + rep(`]}`, n)) }},
	{name: "json-access", format: fPolicyJSON, build: func(n int) string {
		return jpol(rep(`{".":{"left":`, n) + `{"Var":"context"}` + rep(`,"attr":"a"}}`, n))
	}},
	// a second key beside the operator key at every level (unknown after / before the known one, two known ones, an
	// extension name beside a known one, a repeated key, a key differing only in case): a decoder that tries the object
	// under more than one reading repeats the work of the nested levels once per reading
	{name: "json-set-stray-after", format: fPolicyJSON, build: func(n int) string { return jpol(rep(`{"Set":[`, n) + `{"Value":1}` + rep(`],"zz":[]}`, n)) }},
	{name: "json-set-stray-before", format: fPolicyJSON, build: func(n int) string { return jpol(rep(`{"zz":[],"Set":[`, n) + `{"Value":1}` + rep(`]}`, n)) }},
	{name: "json-not-stray", format: fPolicyJSON, build: func(n int) string { return jpol(rep(`{"!":{"arg":`, n) + `{"Value":true}` + rep(`},"isIpv4":[]}`, n)) }},
	{name: "json-ext-stray", format: fPolicyJSON, build: func(n int) string { return jpol(rep(`{"ip":[`, n) + `{"Value":"1.2.3.4"}` + rep(`],"zz":[]}`, n)) }},
	{name: "json-ext-ext", format: fPolicyJSON, build: func(n int) string { return jpol(rep(`{"zz":[{"Value":1}],"ip":[`, n) + `{"Value":"1.2.3.4"}` + rep(`]}`, n)) }},
	{name: "json-two-known", format: fPolicyJSON, build: func(n int) string { return jpol(rep(`{"Value":1,"Set":[`, n) + `{"Value":1}` + rep(`]}`, n)) }},
	{name: "json-repeated-key", format: fPolicyJSON, build: func(n int) string { return jpol(rep(`{"Set":[],"Set":[`, n) + `{"Value":1}` + rep(`]}`, n)) }},
	{name: "json-case-key", format: fPolicyJSON, build: func(n int) string { return jpol(rep(`{"set":[`, n) + `{"Value":1}` + rep(`],"SET":[]}`, n)) }},
	{name: "json-record-stray", format: fPolicyJSON, build: func(n int) string { return jpol(rep(`{"Record":{"a":`, n) + `{"Value":1}` + rep(`},"zz":[]}`, n)) }},
	{name: "json-if-stray", format: fPolicyJSON, build: func(n int) string {
		return jpol(rep(`{"if-then-else":{"if":{"Value":true},"then":{"Value":1},"else":`, n) + `{"Value":1}` + rep(`},"zz":[]}`, n))
	}},
	{name: "json-record-var-leaf", format: fPolicyJSON, build: func(n int) string {
		return jpol(rep(`{"Record":{"a":`, n) + `{"Var":"principal"}` + rep(`}}`, n))
	}},
	{name: "json-set-var-leaf", format: fPolicyJSON, build: func(n int) string { return jpol(rep(`{"Set":[`, n) + `{"Var":"context"}` + rep(`]}`, n)) }},
	{name: "json-not-var-leaf", format: fPolicyJSON, build: func(n int) string {
		return jpol(rep(`{"!":{"arg":`, n) + `{".":{"left":{"Var":"context"},"attr":"b"}}` + rep(`}}`, n))
	}},
	{name: "json-value-set", format: fPolicyJSON, maxN: 3000, extra: overJSONLimit, build: func(n int) string { return jpol(`{"Value":` + rep("[", n) + rep("]", n) + `}`) }},
	{name: "json-wide-set", format: fPolicyJSON, build: func(n int) string { return jpol(`{"Set":[` + rep(`{"Value":1},`, n) + `{"Value":1}]}`) }},
	{name: "json-set-many-policies", format: fPolicySetJSON, build: func(n int) string {
		var sb strings.Builder
		sb.WriteString(`{"staticPolicies":{`)
		for i := 0; i < n; i++ {
			if i > 0 {
				sb.WriteByte(',')
			}
			sb.WriteString(`"p` + itoa(i) + `":` + jpol(`{"Value":true}`))
		}
		return sb.String() + "}}"
	}},
	{name: "json-set-deep-policy", format: fPolicySetJSON, build: func(n int) string {
		return `{"staticPolicies":{"a":` + jpol(rep(`{"neg":{"arg":`, n)+`{"Value":1}`+rep(`}}`, n)) + `}}`
	}},
	// values, entities, requests
	{name: "value-set", format: fValueJSON, maxN: 3000, extra: overJSONLimit, build: func(n int) string { return rep("[", n) + rep("]", n) }},
	{name: "value-record", format: fValueJSON, maxN: 3000, extra: overJSONLimit, build: func(n int) string { return rep(`{"a":`, n) + "1" + rep("}", n) }},
	// objects that can be read as an escape or as a record (several readings per level)
	{name: "value-record-entity-key", format: fValueJSON, maxN: 3000, build: func(n int) string {
		return rep(`{"__entity":{"type":"T","id":"i"},"a":`, n) + "1" + rep("}", n)
	}},
	{name: "value-record-extn-key", format: fValueJSON, maxN: 3000, build: func(n int) string {
		return rep(`{"a":`, n) + "1" + rep(`,"__extn":{"fn":"ip","arg":"1.2.3.4"}}`, n)
	}},
	{name: "value-entity-in-entity", format: fValueJSON, maxN: 3000, build: func(n int) string {
		return rep(`{"__entity":`, n) + `{"type":"T","id":"i"}` + rep("}", n)
	}},
	{name: "value-extn-in-extn", format: fValueJSON, maxN: 3000, build: func(n int) string {
		return rep(`{"__extn":{"fn":"ip","arg":`, n) + `"1.2.3.4"` + rep("}}", n)
	}},
	{name: "value-set-open", format: fValueJSON, build: func(n int) string { return rep("[", n) }},
	{name: "value-wide-set", format: fValueJSON, build: func(n int) string { return "[" + rep("1,", n) + "1]" }},
	{name: "value-long-string", format: fValueJSON, build: func(n int) string { return `"` + rep("a", n) + `"` }},
	{name: "value-long-number", format: fValueJSON, build: func(n int) string { return rep("9", n) }},
	{name: "entity-attr-nest", format: fEntityJSON, maxN: 3000, extra: overJSONLimit, build: func(n int) string {
		return `{"uid":{"type":"T0","id":"a"},"parents":[],"attrs":{"a":` + rep("[", n) + rep("]", n) + `},"tags":{}}`
	}},
	{name: "entity-many-parents", format: fEntityJSON, build: func(n int) string {
		return `{"uid":{"type":"T0","id":"a"},"parents":[` + rep(`{"type":"T1","id":"b"},`, n) + `{"type":"T1","id":"c"}],"attrs":{},"tags":{}}`
	}},
	{name: "entity-map-chain", format: fEntityMapJSON, build: func(n int) string {
		var sb strings.Builder
		sb.WriteByte('[')
		for i := 0; i < n; i++ {
			sb.WriteString(`{"uid":{"type":"T0","id":"` + itoa(i) + `"},"parents":[{"type":"T0","id":"` + itoa(i+1) + `"}],"attrs":{},"tags":{}},`)
		}
		sb.WriteString(`{"uid":{"type":"T0","id":"` + itoa(n) + `"},"parents":[],"attrs":{},"tags":{}}]`)
		return sb.String()
	}},
	{name: "request-context-nest", format: fRequestJSON, maxN: 3000, extra: overJSONLimit, build: func(n int) string {
		return `{"principal":{"type":"T0","id":"a"},"action":{"type":"Action","id":"view"},"resource":{"type":"T1","id":"b"},"context":{"a":` + rep(`{"a":`, n) + "1" + rep("}", n) + `}}`
	}},
	// entity UID text
	{name: "uid-long-id", format: fUIDText, quick: 10000, build: func(n int) string { return `T::"` + rep("a", n) + `"` }},
	{name: "uid-long-path", format: fUIDText, build: func(n int) string { return "T" + rep("::T", n) + `::"a"` }},
	{name: "uid-escapes", format: fUIDText, build: func(n int) string { return `T::"` + rep(`\u{1F600}`, n) + `"` }},
	{name: "uid-quotes", format: fUIDText, build: func(n int) string { return `T` + rep(`::"`, n) }},
	// schema text
	{name: "schema-set-nest", format: fSchemaText, quick: 10000, build: func(n int) string { return "entity A { a: " + rep("Set<", n) + "Long" + rep(">", n) + " };" }},
	{name: "schema-set-open", format: fSchemaText, build: func(n int) string { return "entity A { a: " + rep("Set<", n) }},
	// Schema.MarshalCedar indents nested record types with one tab per level: the output is quadratic in the nesting depth
	// (depth 10^5 = 400 KB of schema text => 10 GB of output, 33 GB of memory, 25 minutes). Capped where the output stays
	// at 50 MB; beyond that the encoder is not explored (carve-out: memory exhaustion is not judged), the decoder is
	// (schema-record-open).
	{name: "schema-record-nest", format: fSchemaText, maxN: 10000, build: func(n int) string { return "entity A " + rep("{a:", n) + "Long" + rep("}", n) + ";" }},
	{name: "schema-record-open", format: fSchemaText, build: func(n int) string { return "type T = " + rep("{a:", n) }},
	{name: "schema-common-chain", format: fSchemaText, maxN: 20000, build: func(n int) string {
		var sb strings.Builder
		for i := 0; i < n; i++ {
			sb.WriteString("type T" + itoa(i) + " = T" + itoa(i+1) + ";\n")
		}
		sb.WriteString("type T" + itoa(n) + " = Long;\nentity E { a: T0 };")
		return sb.String()
	}},
	{name: "schema-common-set-chain", format: fSchemaText, maxN: 20000, build: func(n int) string {
		var sb strings.Builder
		for i := 0; i < n; i++ {
			sb.WriteString("type T" + itoa(i) + " = Set<T" + itoa(i+1) + ">;\n")
		}
		sb.WriteString("type T" + itoa(n) + " = Long;\nentity E { a: T0 };")
		return sb.String()
	}},
	{name: "schema-entity-chain", format: fSchemaText, maxN: 20000, build: func(n int) string {
		var sb strings.Builder
		for i := 0; i < n; i++ {
			sb.WriteString("entity E" + itoa(i) + " in [E" + itoa(i+1) + "];\n")
		}
		sb.WriteString("entity E" + itoa(n) + ";")
		return sb.String()
	}},
	{name: "schema-action-chain", format: fSchemaText, maxN: 20000, build: func(n int) string {
		var sb strings.Builder
		for i := 0; i < n; i++ {
			sb.WriteString("action a" + itoa(i) + " in [a" + itoa(i+1) + "];\n")
		}
		sb.WriteString("action a" + itoa(n) + ";")
		return sb.String()
	}},
	{name: "schema-long-path", format: fSchemaText, build: func(n int) string { return "namespace A" + rep("::A", n) + " { entity E; }" }},
	{name: "schema-comments", format: fSchemaText, quick: 10000, build: func(n int) string { return rep("/* c */ //\n", n) + "entity E;" }},
	{name: "schema-many-decls", format: fSchemaText, maxN: 30000, build: func(n int) string {
		var sb strings.Builder
		for i := 0; i < n; i++ {
			sb.WriteString("entity E" + itoa(i) + ";")
		}
		return sb.String()
	}},
	// schema JSON
	{name: "schema-json-set-nest", format: fSchemaJSON, build: func(n int) string {
		return `{"":{"entityTypes":{"A":{"shape":{"type":"Record","attributes":{"a":` + rep(`{"type":"Set","element":`, n) + `{"type":"Long"}` + rep(`}`, n) + `}}}},"actions":{}}}`
	}},
	{name: "schema-json-record-nest", format: fSchemaJSON, build: func(n int) string {
		return `{"":{"entityTypes":{"A":{"shape":` + rep(`{"type":"Record","attributes":{"a":`, n) + `{"type":"Long"}` + rep(`}}`, n) + `}},"actions":{}}}`
	}},
	{name: "schema-json-common-chain", format: fSchemaJSON, maxN: 10000, build: func(n int) string {
		var sb strings.Builder
		sb.WriteString(`{"":{"entityTypes":{"E":{"shape":{"type":"Record","attributes":{"a":{"type":"T0"}}}}},"actions":{},"commonTypes":{`)
		for i := 0; i < n; i++ {
			sb.WriteString(`"T` + itoa(i) + `":{"type":"T` + itoa(i+1) + `"},`)
		}
		sb.WriteString(`"T` + itoa(n) + `":{"type":"Long"}}}}`)
		return sb.String()
	}},
}

func itoa(i int) string {
	if i == 0 {
		return "0"
	}
	var b [20]byte
	p := len(b)
	neg := i < 0
	if neg {
		i = -i
	}
	for i > 0 {
		p--
		b[p] = byte('0' + i%10)
		i /= 10
	}
	if neg {
		p--
		b[p] = '-'
	}
	return string(b[p:])
}

func constructByName(name string) *construct {
	for i := range constructs {
		if constructs[i].name == name {
			return &constructs[i]
		}
	}
	return nil
}

// maxDepth is the largest n whose document stays within 1 MiB (and within the construct's own cap).
func (c *construct) maxDepth() int {
	if c.maxN > 0 && len(c.build(c.maxN)) <= maxInput {
		return c.maxN
	}
	return c.sizeLimit()
}

// sizeLimit is the largest n whose document stays within 1 MiB.
func (c *construct) sizeLimit() int {
	lo, hi := 1, maxInput
	// documents grow monotonically with n; binary search on length using two probes to estimate the slope
	l1, l2 := len(c.build(1000)), len(c.build(2000))
	per := float64(l2-l1) / 1000
	if per <= 0 {
		return hi
	}
	n := int(float64(maxInput-l1)/per) + 1000
	if n > hi {
		n = hi
	}
	for n > lo && len(c.build(n)) > maxInput {
		n -= n/200 + 1
	}
	return n
}

// ladderDepths: 10, 100, ... up to the maximum, plus the maximum itself.
func (c *construct) ladderDepths(limit int) []int {
	m := c.maxDepth()
	if limit > 0 && m > limit {
		m = limit
	}
	var out []int
	for d := 10; d < m; d *= 10 {
		if d > 10000 && 2*d > m {
			break // a deep power of ten within a factor two of the maximum adds minutes and no information
		}
		out = append(out, d)
	}
	out = append(out, m)
	for _, x := range c.extra {
		if x < 0 {
			x = c.sizeLimit()
		}
		if x > m && (limit == 0 || x <= limit) {
			out = append(out, x)
		}
	}
	return out
}
