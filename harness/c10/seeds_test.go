package c10

// Valid seed documents for every format: generated ones (rapid) and one representative document per JSON format
// (covering every operator / member) for the exhaustive "null / [] / {} / 0 / \"\" / missing at every path" sweep.
// JSON seeds are produced by encoding IR-built objects with cedar-go's own encoders (guarded: a failing encoder
// falls back to the representative document); text seeds come from the harness renderer.

import (
	"encoding/json"
	"fmt"
	"strings"

	cedar "github.com/cedar-policy/cedar-go"
	"github.com/cedar-policy/cedar-go/x/exp/schema"
	"pgregory.net/rapid"

	"verif/conv"
	"verif/gen"
	"verif/ir"
	"verif/render"
)

type format string

const (
	fPolicyText    format = "policy-text"
	fPolicyJSON    format = "policy-json"
	fPolicySetJSON format = "policy-set-json"
	fEntityJSON    format = "entity-json"
	fEntityMapJSON format = "entity-map-json"
	fValueJSON     format = "value-json"
	fRequestJSON   format = "request-json"
	fUIDText       format = "uid-text"
	fSchemaText    format = "schema-text"
	fSchemaJSON    format = "schema-json"
)

var allFormats = []format{fPolicyText, fPolicyJSON, fPolicySetJSON, fEntityJSON, fEntityMapJSON, fValueJSON, fRequestJSON, fUIDText, fSchemaText, fSchemaJSON}

func (f format) isJSON() bool { return strings.HasSuffix(string(f), "-json") }

var fixedWorld = gen.World{
	Store: ir.Store{
		{UID: ir.Ent("T0", "a"), Parents: []ir.Value{ir.Ent("T1", "b")}, Attrs: []ir.Field{ir.F("a", ir.Long(1)), ir.F("s", ir.Str("abc"))}, Tags: []ir.Field{ir.F("k", ir.Long(1))}},
		{UID: ir.Ent("T1", "b"), Parents: []ir.Value{ir.Ent("NS::T2", "c")}},
		{UID: ir.Ent("NS::T2", "c"), Attrs: []ir.Field{ir.F("a", ir.Ent("T0", "a"))}},
		{UID: ir.Ent("Action", "view"), Parents: []ir.Value{ir.Ent("Action", "grp")}},
	},
	Req: ir.Request{Principal: ir.Ent("T0", "a"), Action: ir.Ent("Action", "view"), Resource: ir.Ent("NS::T2", "c"),
		Context: ir.Rec(ir.F("a", ir.Long(1)), ir.F("s", ir.Str("abc")), ir.F("b c", ir.Bool(true)))},
}

// repPolicy uses every operator, every scope form that fits, every literal kind and every extension function.
func repPolicy() *ir.Policy {
	L := func(v ir.Value) *ir.Expr { return ir.Lit(v) }
	ctx := ir.Var("context")
	ipv := ir.IP([]byte{1, 2, 3, 4}, 32)
	ops := []*ir.Expr{
		ir.Bin(ir.OpOr, ir.Bin(ir.OpIn, ir.Var("principal"), ir.Var("resource")), ir.Bin(ir.OpAnd, ir.Bin(ir.OpEq, ir.Var("principal"), L(ir.Ent("T0", "a"))), ir.Bin(ir.OpNe, ir.Var("action"), L(ir.Ent("Action", "view"))))),
		ir.Bin(ir.OpLt, L(ir.Long(1)), L(ir.Long(2))), ir.Bin(ir.OpLe, L(ir.Long(1)), L(ir.Long(2))), ir.Bin(ir.OpGt, L(ir.Long(1)), L(ir.Long(2))), ir.Bin(ir.OpGe, L(ir.Long(1)), L(ir.Long(2))),
		ir.Bin(ir.OpEq, ir.Bin(ir.OpSub, ir.Bin(ir.OpAdd, L(ir.Long(1)), L(ir.Long(2))), ir.Bin(ir.OpMul, L(ir.Long(3)), L(ir.Long(4)))), ir.Un(ir.OpNeg, ir.Access(ctx, "a"))),
		ir.Un(ir.OpNot, L(ir.Bool(true))),
		ir.If(ir.Has(ctx, "a"), ir.Bin(ir.OpEq, ir.Access(ctx, "a"), L(ir.Long(1))), ir.Access(ctx, "b c")),
		ir.Is(ir.Var("principal"), "T0"), ir.IsIn(ir.Var("principal"), "NS::T2", ir.Var("resource")),
		ir.Like(ir.Access(ctx, "s"), []ir.PatElem{{Lit: "a"}, {Wild: true}, {Lit: "*"}}),
		ir.Bin(ir.OpContains, ir.SetE(L(ir.Long(1)), L(ir.Str("a"))), L(ir.Long(1))),
		ir.Bin(ir.OpContainsAll, ir.SetE(L(ir.Long(1))), ir.SetE()), ir.Bin(ir.OpContainsAny, ir.SetE(L(ir.Long(1))), L(ir.Set(ir.Long(1)))),
		ir.Un(ir.OpIsEmpty, ir.SetE()),
		ir.Bin(ir.OpAnd, ir.Bin(ir.OpHasTag, ir.Var("principal"), L(ir.Str("k"))), ir.Bin(ir.OpEq, ir.Bin(ir.OpGetTag, ir.Var("principal"), L(ir.Str("k"))), L(ir.Long(1)))),
		ir.Bin(ir.OpEq, ir.RecE([]string{"a", "b c"}, []*ir.Expr{L(ir.Long(1)), ir.SetE(L(ir.Bool(true)))}), L(ir.Rec(ir.F("a", ir.Long(1)), ir.F("r", ir.Rec(ir.F("x", ir.Str("y"))))))),
		ir.Ext("isIpv4", ir.Ext("ip", L(ir.Str("1.2.3.4")))), ir.Ext("isIpv6", L(ipv)), ir.Ext("isLoopback", L(ipv)), ir.Ext("isMulticast", L(ipv)),
		ir.Ext("isInRange", L(ipv), ir.Ext("ip", L(ir.Str("1.2.3.0/24")))),
		ir.Ext("lessThan", ir.Ext("decimal", L(ir.Str("1.5"))), L(ir.Decimal(25000))), ir.Ext("lessThanOrEqual", L(ir.Decimal(1)), L(ir.Decimal(2))),
		ir.Ext("greaterThan", L(ir.Decimal(1)), L(ir.Decimal(2))), ir.Ext("greaterThanOrEqual", L(ir.Decimal(1)), L(ir.Decimal(2))),
		ir.Bin(ir.OpLt, ir.Ext("offset", ir.Ext("datetime", L(ir.Str("2024-01-01"))), ir.Ext("duration", L(ir.Str("1h")))), L(ir.Datetime(0))),
		ir.Bin(ir.OpEq, ir.Ext("toDate", L(ir.Datetime(1))), ir.Ext("toDate", L(ir.Datetime(2)))),
		ir.Bin(ir.OpEq, ir.Ext("toTime", L(ir.Datetime(1))), ir.Ext("durationSince", L(ir.Datetime(1)), L(ir.Datetime(0)))),
		ir.Bin(ir.OpEq, ir.Ext("toDays", L(ir.Duration(1))), ir.Bin(ir.OpAdd, ir.Ext("toHours", L(ir.Duration(1))), ir.Bin(ir.OpAdd, ir.Ext("toMinutes", L(ir.Duration(1))), ir.Bin(ir.OpAdd, ir.Ext("toSeconds", L(ir.Duration(1))), ir.Ext("toMilliseconds", L(ir.Duration(1))))))),
	}
	// one condition per operator group: keeps the JSON document shallow (cedar-go's JSON decoder re-parses every nesting level)
	p := ir.NewPolicy(true)
	p.Annotations = []ir.Annotation{{K: "id", V: "rep"}, {K: "if", V: ""}}
	p.Principal = ir.ScopeIsIn("T0", ir.Ent("T1", "b"))
	p.Action = ir.ScopeInSet([]ir.Value{ir.Ent("Action", "view"), ir.Ent("Action", "edit")})
	p.Resource = ir.ScopeEq(ir.Ent("NS::T2", "c"))
	for i, o := range ops {
		p.Conds = append(p.Conds, ir.Cond{When: i%5 != 4, Body: o})
	}
	return p
}

func repPolicy2() *ir.Policy {
	p := ir.NewPolicy(false)
	p.Principal = ir.ScopeIn(ir.Ent("T1", "b"))
	p.Action = ir.ScopeIn(ir.Ent("Action", "grp"))
	p.Resource = ir.ScopeIs("NS::T2")
	p.Conds = []ir.Cond{{When: true, Body: ir.Has(ir.Var("context"), "a")}}
	return p
}

var repValue = ir.Rec(
	ir.F("bool", ir.Bool(true)), ir.F("long", ir.Long(-5)), ir.F("str", ir.Str("a\"b")), ir.F("ent", ir.Ent("T0", "a")),
	ir.F("set", ir.Set(ir.Long(1), ir.Str("x"), ir.Set(), ir.Rec())), ir.F("rec", ir.Rec(ir.F("in ner", ir.Set(ir.Ent("T1", "b"))))),
	ir.F("dec", ir.Decimal(15000)), ir.F("ip", ir.IP([]byte{10, 0, 0, 0}, 8)), ir.F("dt", ir.Datetime(1700000000000)), ir.F("dur", ir.Duration(90061001)),
	ir.F("", ir.Str("")), ir.F("__entity", ir.Long(1)),
)

var repEntity = ir.Entity{UID: ir.Ent("T0", "a"), Parents: []ir.Value{ir.Ent("T1", "b"), ir.Ent("NS::T2", "c")}, Attrs: repValue.Fields, Tags: []ir.Field{ir.F("k", ir.Long(1)), ir.F("t2", ir.Set(ir.Str("x")))}}

const repSchemaText = `/* block ** comment **/ // line comment
@doc("top")
type Name = String; /***/
entity Bare in [NS::User] { n: Name, "q k"?: Set<Long> } tags String;
action bareAct appliesTo { principal: Bare, resource: [Bare, NS::User], context: { c?: Bool } };
@a("x")
namespace NS {
  type Ctx = { ip: ipaddr, d: decimal, t: datetime, u: duration, nested: { deep: Set<Set<NS::User>> }, opt?: __cedar::Long };
  entity User, Admin in [Group] = { name: String, @ann("y") age?: Long, boss: User } tags Set<String>;
  entity Group;
  entity Color enum ["red", "green"];
  action "view doc", edit in [grp, NS::Action::"grp"] appliesTo { principal: [User, Admin], resource: Group, context: Ctx };
  action grp;
}
namespace A::B { entity E; }
`

func mustJSON(what string, v any) []byte {
	b, err := json.Marshal(v)
	if err != nil {
		panic(fmt.Sprintf("c10 seeds: cannot encode %s: %v", what, err))
	}
	return b
}

// guarded runs f and turns a panic into ok=false (seed encoders are the code under test; a seed that cannot be
// produced is simply not used as a seed – the defect, if any, is found by the checks that own those encoders).
func guarded(f func() []byte) (b []byte, ok bool) {
	defer func() {
		if recover() != nil {
			b, ok = nil, false
		}
	}()
	return f(), true
}

func policyJSON(p *ir.Policy) ([]byte, bool) {
	return guarded(func() []byte {
		b, err := conv.ToPolicy(p).MarshalJSON()
		if err != nil {
			panic(err)
		}
		return b
	})
}

func policySetJSON(ps []*ir.Policy, ids []string) ([]byte, bool) {
	return guarded(func() []byte {
		set := cedar.NewPolicySet()
		for i, p := range ps {
			set.Add(cedar.PolicyID(ids[i]), conv.ToPolicy(p))
		}
		b, err := set.MarshalJSON()
		if err != nil {
			panic(err)
		}
		return b
	})
}

func schemaJSONFromText(text string) ([]byte, bool) {
	return guarded(func() []byte {
		var s schema.Schema
		if err := s.UnmarshalCedar([]byte(text)); err != nil {
			panic(err)
		}
		b, err := s.MarshalJSON()
		if err != nil {
			panic(err)
		}
		return b
	})
}

// representative returns the representative document of a JSON format.
func representative(f format) []byte {
	var b []byte
	ok := true
	switch f {
	case fPolicyJSON:
		b, ok = policyJSON(repPolicy())
	case fPolicySetJSON:
		// small policies: the expression forms are covered by the policy-JSON representative
		p3 := ir.NewPolicy(true)
		p3.Annotations = []ir.Annotation{{K: "id", V: "x"}}
		p3.Action = ir.ScopeInSet([]ir.Value{ir.Ent("Action", "view")})
		p3.Conds = []ir.Cond{{When: false, Body: ir.Bin(ir.OpEq, ir.RecE([]string{"a"}, []*ir.Expr{ir.SetE(ir.Lit(ir.Long(1)))}), ir.Ext("isIpv4", ir.Ext("ip", ir.Lit(ir.Str("1.2.3.4")))))}}
		b, ok = policySetJSON([]*ir.Policy{repPolicy2(), p3, ir.NewPolicy(false)}, []string{"policy0", "p 1", ""})
	case fEntityJSON:
		b = mustJSON("entity", conv.ToEntity(repEntity))
	case fEntityMapJSON:
		st := append(ir.Store{repEntity}, fixedWorld.Store[1:]...)
		b = mustJSON("entity map", conv.ToEntityMap(st))
	case fValueJSON:
		b = mustJSON("value", conv.ToValue(repValue))
	case fRequestJSON:
		r := fixedWorld.Req
		r.Context = repValue
		b = mustJSON("request", conv.ToRequest(r))
	case fSchemaJSON:
		b, ok = schemaJSONFromText(repSchemaText)
	case fPolicyText:
		return []byte("/* block ** comment **/ // line comment\n" + render.Policy(repPolicy(), render.Opts{}) + "\n/***/" + render.Policy(repPolicy2(), render.Opts{}))
	case fUIDText:
		return []byte(`NS::T2::"a\"b"`)
	case fSchemaText:
		return []byte(repSchemaText)
	}
	if !ok {
		panic("c10 seeds: representative document for " + string(f) + " cannot be produced")
	}
	return b
}

// ---------------------------------------------------------------------------------------------
// generated seeds

func valOpts(t *rapid.T) gen.ValOpts {
	o := gen.DefaultValOpts
	o.MappedIP = true
	if gen.Chance(t, 30, "hostilekeys") {
		o.Keys = gen.KeysHostile
	}
	return o
}

func genPolicyIR(t *rapid.T, w *gen.World) *ir.Policy {
	eo := gen.DefaultExprOpts
	eo.Val = valOpts(t)
	eo.SlipPct = 15
	eo.BadFuncPct = 0 // unknown functions cannot be written in either syntax
	return gen.GenPolicy(t, w, gen.PolicyOpts{Expr: eo, MaxConds: 2, Depth: 3, Annot: true})
}

func renderOpts(t *rapid.T) render.Opts {
	o := render.Opts{FullParen: gen.Chance(t, 25, "fullparen"), StringKeys: gen.Chance(t, 20, "stringkeys")}
	if gen.Chance(t, 40, "noise") {
		o.Noise = &render.Noise{Next: func(n int) int { return rapid.IntRange(0, n-1).Draw(t, "noise") }, Block: true}
	}
	return o
}

// implicit JSON forms of values that the explicit encoders never produce
var implicitValueSeeds = []string{
	`{"type":"T0","id":"a"}`, `{"fn":"ip","arg":"10.0.0.1"}`, `{"__entity":{"type":"T0","id":"a"}}`, `{"__extn":{"fn":"decimal","arg":"1.5"}}`,
	`{"__extn":{"fn":"datetime","arg":"2024-01-01T00:00:00Z"}}`, `{"__extn":{"fn":"duration","arg":"1d2h"}}`, `"1.5"`, `"10.0.0.1/8"`, `"2024-01-01"`, `"1h"`, `"Wildcard"`,
	`["Wildcard",{"Literal":"a"}]`, `[{"Literal":"*"},"Wildcard"]`, `1`, `-9223372036854775808`, `true`, `"s"`, `[]`, `{}`, `[1,[2,[3]]]`, `{"a":{"b":{"c":[{"__entity":{"type":"T","id":"i"}}]}}}`,
}

var uidSeeds = []string{`T0::"a"`, `NS::T2::"b"`, `Action::"view"`, `A::B::C::"\u{1F600}"`, `T::""`, `T::"a\"b"`, `T::"\n\0\\"`, `T::"::\""`, `__cedar::T::"x"`}

func seedDoc(t *rapid.T, f format, w *gen.World) []byte {
	switch f {
	case fPolicyText:
		n := rapid.IntRange(1, 3).Draw(t, "npol")
		var sb strings.Builder
		for i := 0; i < n; i++ {
			if i > 0 {
				sb.WriteString("\n")
			}
			sb.WriteString(render.Policy(genPolicyIR(t, w), renderOpts(t)))
		}
		return []byte(sb.String())
	case fPolicyJSON:
		if b, ok := policyJSON(genPolicyIR(t, w)); ok {
			return b
		}
		return representative(f)
	case fPolicySetJSON:
		n := rapid.IntRange(0, 3).Draw(t, "npol")
		var ps []*ir.Policy
		var ids []string
		for i := 0; i < n; i++ {
			ps = append(ps, genPolicyIR(t, w))
			ids = append(ids, gen.Pick(t, []string{"policy0", "policy1", "a", "", "p q", "é"}, "pid")+fmt.Sprint(i))
		}
		if b, ok := policySetJSON(ps, ids); ok {
			return b
		}
		return representative(f)
	case fEntityJSON:
		if len(w.Store) == 0 {
			return representative(f)
		}
		e := conv.ToEntity(w.Store[rapid.IntRange(0, len(w.Store)-1).Draw(t, "entidx")])
		if b, ok := guarded(func() []byte { return mustJSON("entity", e) }); ok {
			return b
		}
		return representative(f)
	case fEntityMapJSON:
		if b, ok := guarded(func() []byte { return mustJSON("entity map", conv.ToEntityMap(w.Store)) }); ok {
			return b
		}
		return representative(f)
	case fValueJSON:
		if gen.Chance(t, 25, "implicit") {
			return []byte(gen.Pick(t, implicitValueSeeds, "implicitseed"))
		}
		// half of the value seeds are written by the harness's own writer: a seed must not depend on the encoder under test
		// (an encoder that panics on some value would otherwise remove exactly that value from the seeds)
		v := gen.Value(t, 3, valOpts(t))
		if gen.Chance(t, 50, "ownvalue") {
			return render.ValueJSON(v, render.JSONOpts{})
		}
		if b, ok := guarded(func() []byte { return mustJSON("value", conv.ToValue(v)) }); ok {
			return b
		}
		return render.ValueJSON(v, render.JSONOpts{})
	case fRequestJSON:
		if b, ok := guarded(func() []byte { return mustJSON("request", conv.ToRequest(w.Req)) }); ok {
			return b
		}
		return representative(f)
	case fUIDText:
		if gen.Chance(t, 50, "uidpool") {
			return []byte(gen.Pick(t, uidSeeds, "uidseed"))
		}
		return []byte(gen.Pick(t, []string{"T0", "NS::T2", "A::B::C", "_x"}, "uidtype") + "::" + render.Quote(gen.StringVal(t)))
	case fSchemaText:
		return []byte(genSchemaText(t))
	case fSchemaJSON:
		if b, ok := schemaJSONFromText(genSchemaText(t)); ok {
			return b
		}
		return representative(f)
	}
	panic("seedDoc: " + string(f))
}

// ---------------------------------------------------------------------------------------------
// schema text generator (own small grammar; output is usually, not always, a valid schema)

var schemaNames = []string{"A", "B", "User", "Group", "Doc", "T0", "T1"}
var schemaAttrNames = []string{"a", "b", "name", "in", "entity", `"q k"`, `""`, "type", "Set", "if"}

func genSchemaType(t *rapid.T, depth int, ns []string) string {
	max := 9
	if depth <= 0 {
		max = 7
	}
	switch rapid.IntRange(0, max).Draw(t, "stype") {
	case 0:
		return "Long"
	case 1:
		return "String"
	case 2:
		return gen.Pick(t, []string{"Bool", "Boolean"}, "sbool")
	case 3:
		return gen.Pick(t, []string{"ipaddr", "decimal", "datetime", "duration", "__cedar::Long", "__cedar::ipaddr", "__cedar::String"}, "sext")
	case 4, 5:
		return gen.Pick(t, schemaNames, "sref")
	case 6:
		if len(ns) > 0 {
			return gen.Pick(t, ns, "snsref") + "::" + gen.Pick(t, schemaNames, "sref")
		}
		return "Name"
	case 7:
		return gen.Pick(t, []string{"Name", "Ctx", "Undefined", "Entity", "Record", "Extension"}, "scommon")
	case 8:
		return "Set<" + genSchemaType(t, depth-1, ns) + ">"
	default:
		return genSchemaRecord(t, depth-1, ns)
	}
}

func genSchemaAnnot(t *rapid.T) string {
	switch rapid.IntRange(0, 7).Draw(t, "sannot") {
	case 0:
		return "@doc(\"x\") "
	case 1:
		return "@flag "
	case 2:
		return "@in(\"kw\") @b(\"\") "
	}
	return ""
}

func genSchemaRecord(t *rapid.T, depth int, ns []string) string {
	n := rapid.IntRange(0, 3).Draw(t, "srecn")
	var parts []string
	seen := map[string]bool{}
	for i := 0; i < n; i++ {
		k := gen.Pick(t, schemaAttrNames, "sattr")
		if seen[k] && !gen.Chance(t, 10, "sdupattr") {
			continue
		}
		seen[k] = true
		opt := ""
		if gen.Chance(t, 30, "sopt") {
			opt = "?"
		}
		parts = append(parts, genSchemaAnnot(t)+k+opt+": "+genSchemaType(t, depth, ns))
	}
	s := "{" + strings.Join(parts, ", ")
	if len(parts) > 0 && gen.Chance(t, 20, "strail") {
		s += ","
	}
	return s + "}"
}

func genSchemaDecl(t *rapid.T, ns []string) string {
	a := genSchemaAnnot(t)
	typeList := func(label string) string {
		n := rapid.IntRange(1, 2).Draw(t, label)
		if n == 1 && gen.Chance(t, 50, label+"bare") {
			return gen.Pick(t, schemaNames, label+"n")
		}
		var xs []string
		for i := 0; i < n; i++ {
			xs = append(xs, gen.Pick(t, schemaNames, label+"n"))
		}
		return "[" + strings.Join(xs, ", ") + "]"
	}
	switch rapid.IntRange(0, 9).Draw(t, "sdecl") {
	case 0, 1, 2, 3:
		s := a + "entity " + gen.Pick(t, schemaNames, "sename")
		if gen.Chance(t, 20, "sename2") {
			s += ", " + gen.Pick(t, schemaNames, "sename")
		}
		if gen.Chance(t, 40, "smember") {
			s += " in " + typeList("sparents")
		}
		if gen.Chance(t, 60, "sshape") {
			if gen.Chance(t, 30, "seq") {
				s += " ="
			}
			s += " " + genSchemaRecord(t, 2, ns)
		}
		if gen.Chance(t, 30, "stags") {
			s += " tags " + genSchemaType(t, 1, ns)
		}
		return s + ";"
	case 4:
		n := rapid.IntRange(0, 3).Draw(t, "senumn")
		var vs []string
		for i := 0; i < n; i++ {
			vs = append(vs, render.Quote(gen.Pick(t, []string{"red", "green", "", "a b", "red"}, "senumv")))
		}
		return a + "entity " + gen.Pick(t, schemaNames, "sename") + " enum [" + strings.Join(vs, ", ") + "];"
	case 5, 6, 7:
		names := []string{"view", "edit", `"view doc"`, "grp", `""`, "in"}
		s := a + "action " + gen.Pick(t, names, "saname")
		if gen.Chance(t, 20, "saname2") {
			s += ", " + gen.Pick(t, names, "saname")
		}
		if gen.Chance(t, 40, "saparents") {
			ps := []string{"grp", `"view doc"`, `Action::"grp"`, `NS::Action::"grp"`, "edit"}
			if gen.Chance(t, 50, "saparentbare") {
				s += " in " + gen.Pick(t, ps, "saparent")
			} else {
				s += " in [" + gen.Pick(t, ps, "saparent") + ", " + gen.Pick(t, ps, "saparent") + "]"
			}
		}
		if gen.Chance(t, 70, "sapplies") {
			s += " appliesTo { principal: " + typeList("sprin") + ", resource: " + typeList("sres")
			if gen.Chance(t, 50, "sctx") {
				if gen.Chance(t, 70, "sctxrec") {
					s += ", context: " + genSchemaRecord(t, 2, ns)
				} else {
					s += ", context: " + genSchemaType(t, 1, ns)
				}
			}
			s += " }"
		}
		return s + ";"
	default:
		return a + "type " + gen.Pick(t, []string{"Name", "Ctx", "A", "Long", "Set"}, "stname") + " = " + genSchemaType(t, 2, ns) + ";"
	}
}

func genSchemaText(t *rapid.T) string {
	var sb strings.Builder
	nsNames := []string{"NS", "A::B", "X"}
	nTop := rapid.IntRange(0, 3).Draw(t, "stop")
	for i := 0; i < nTop; i++ {
		sb.WriteString(genSchemaDecl(t, nsNames) + "\n")
	}
	nNS := rapid.IntRange(0, 2).Draw(t, "snsn")
	for i := 0; i < nNS; i++ {
		sb.WriteString(genSchemaAnnot(t) + "namespace " + nsNames[rapid.IntRange(0, len(nsNames)-1).Draw(t, "snsname")] + " {\n")
		nd := rapid.IntRange(0, 4).Draw(t, "snsdecls")
		for j := 0; j < nd; j++ {
			sb.WriteString("  " + genSchemaDecl(t, nsNames) + "\n")
		}
		sb.WriteString("}\n")
	}
	if gen.Chance(t, 10, "scomment") {
		sb.WriteString("// trailing comment")
	}
	return sb.String()
}
