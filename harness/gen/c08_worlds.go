package gen

// Environments and policy bodies shared by C08 and C09 (meaning of a policy before and after a codec round trip).

import (
	"pgregory.net/rapid"

	"verif/ir"
)

// FixedWorlds are six hand-made environments used by the deterministic tables.
func FixedWorlds() []World {
	a, b, c := ir.Ent("T0", "a"), ir.Ent("T1", "b"), ir.Ent("NS::T2", "c")
	view, grp := ir.Ent("Action", "view"), ir.Ent("Action", "grp")
	store := ir.Store{
		{UID: a, Parents: []ir.Value{b}, Attrs: []ir.Field{ir.F("k", ir.Long(1)), ir.F("a", ir.Rec(ir.F("b", ir.Rec(ir.F("c", ir.Bool(true)))))), ir.F("if", ir.Str("kw")), ir.F("a b", ir.Set(ir.Long(1), ir.Long(2)))}, Tags: []ir.Field{ir.F("s", ir.Str("tag")), ir.F("k", ir.Long(7))}},
		{UID: b, Parents: []ir.Value{c}, Attrs: []ir.Field{ir.F("k", ir.Str("s"))}},
		{UID: c, Attrs: []ir.Field{ir.F("k", ir.IP([]byte{10, 0, 0, 1}, 24)), ir.F("d", ir.Decimal(15000)), ir.F("t", ir.Datetime(86400000)), ir.F("u", ir.Duration(-1))}},
		{UID: view, Parents: []ir.Value{grp}},
	}
	ctx := ir.Rec(ir.F("k", ir.Long(1)), ir.F("a", ir.Rec(ir.F("b", ir.Long(2)))), ir.F("s", ir.Str("s")), ir.F("if", ir.Bool(true)), ir.F("", ir.Long(0)), ir.F("a b", ir.Str("x")), ir.F("then", ir.Set()), ir.F("in", ir.Long(3)))
	return []World{
		{Store: store, Req: ir.Request{Principal: a, Action: view, Resource: b, Context: ctx}},
		{Store: store, Req: ir.Request{Principal: c, Action: grp, Resource: a, Context: ir.Rec()}},
		{Store: nil, Req: ir.Request{Principal: a, Action: view, Resource: b, Context: ctx}},
		{Store: store[:2], Req: ir.Request{Principal: b, Action: ir.Ent("Action", "edit"), Resource: c, Context: ir.Rec(ir.F("k", ir.Set(ir.Long(1))), ir.F("a", ir.Long(1)))}},
		{Store: store, Req: ir.Request{Principal: ir.Ent("NS::T2", "a"), Action: view, Resource: ir.Ent("T0", "a"), Context: ir.Rec(ir.F("k", ir.Decimal(15000)), ir.F("s", ir.Str("a*")))}},
		{Store: store[2:], Req: ir.Request{Principal: ir.Ent("A::B::C", ""), Action: ir.Ent("Action", ""), Resource: ir.Ent("_x::y1", "\n"), Context: ir.Rec(ir.F("k", ir.Bool(false)))}},
	}
}

// CodecWorlds draws n environments over the mixed key pool.
func CodecWorlds(t *rapid.T, n int, o ValOpts) []World {
	ws := make([]World, n)
	for i := range ws {
		ws[i] = GenWorld(t, 4, o)
	}
	return ws
}

// CodecBody draws a condition body: half of the time a type-directed tree over world w (so that evaluation yields
// values, not only errors), otherwise an untyped tree over all node kinds.
func CodecBody(t *rapid.T, w *World, depth int, o TreeOpts) *ir.Expr {
	if chance(t, 50, "typedbody") {
		eo := DefaultExprOpts
		eo.Val = ValOpts{Keys: o.Keys, MappedIP: !o.NoMappedIP}
		eo.BadFuncPct = 0 // unknown functions and receiver-less methods are not expressible in Cedar text
		eo.NoExtLit = o.ParserNormal
		e := GenExpr(t, w, "", depth, eo)
		if o.ParserNormal {
			e = ToParserNormal(e)
		}
		if o.NoUFFFD {
			e = mapExprStrings(e, stripFFFD)
		}
		return e
	}
	return GenTree(t, depth, o)
}

func mapExprStrings(e *ir.Expr, f func(string) string) *ir.Expr {
	out := *e
	if e.Lit != nil {
		v := mapStrings(*e.Lit, f)
		out.Lit = &v
	}
	switch e.Op {
	case ir.OpHas, ir.OpAccess:
		out.Name = f(e.Name)
	}
	if e.Op == ir.OpRecord {
		var keys []string
		var args []*ir.Expr
		for i, k := range e.Keys {
			k = f(k)
			dup := false
			for _, x := range keys {
				dup = dup || x == k
			}
			if dup {
				continue
			}
			keys = append(keys, k)
			args = append(args, mapExprStrings(e.Args[i], f))
		}
		out.Keys, out.Args = keys, args
		return &out
	}
	if e.Pat != nil {
		out.Pat = make([]ir.PatElem, len(e.Pat))
		for i, p := range e.Pat {
			out.Pat[i] = ir.PatElem{Wild: p.Wild, Lit: f(p.Lit)}
		}
	}
	out.Args = make([]*ir.Expr, len(e.Args))
	for i, a := range e.Args {
		out.Args[i] = mapExprStrings(a, f)
	}
	return &out
}

// ToParserNormal rewrites literal nodes holding sets, records or extension values into set / record nodes and
// constructor calls (what the text parser produces for the same source text).
func ToParserNormal(e *ir.Expr) *ir.Expr {
	if e.Op == ir.OpLit {
		switch e.Lit.K {
		case ir.KSet, ir.KRecord, ir.KDecimal, ir.KIP, ir.KDatetime, ir.KDuration:
			return LiteralExpr(*e.Lit, true)
		}
		return e
	}
	out := *e
	out.Args = make([]*ir.Expr, len(e.Args))
	for i, a := range e.Args {
		out.Args[i] = ToParserNormal(a)
	}
	return &out
}

// IsParserNormal reports whether every literal node holds a bool, long, string or entity.
func IsParserNormal(p *ir.Policy) bool {
	ok := true
	for _, c := range p.Conds {
		c.Body.Walk(func(x *ir.Expr) {
			if x.Op == ir.OpLit {
				switch x.Lit.K {
				case ir.KBool, ir.KLong, ir.KString, ir.KEntity:
				default:
					ok = false
				}
			}
		})
	}
	return ok
}

// PolicyStrings calls f for every string of the policy (annotation values, entity ids, string literals, attribute
// names, record keys, pattern literals), with a position name.
func PolicyStrings(p *ir.Policy, f func(pos, s string)) {
	var val func(pos string, v ir.Value)
	val = func(pos string, v ir.Value) {
		switch v.K {
		case ir.KString:
			f(pos+"string", v.S)
		case ir.KEntity:
			f(pos+"entity-id", v.S)
		}
		for _, e := range v.Elems {
			val(pos, e)
		}
		for _, fl := range v.Fields {
			f(pos+"record-key", fl.K)
			val(pos, fl.V)
		}
	}
	for _, a := range p.Annotations {
		f("annotation", a.V)
	}
	for _, s := range []ir.Scope{p.Principal, p.Action, p.Resource} {
		if s.Entity != nil {
			f("scope-id", s.Entity.S)
		}
		for _, e := range s.Entities {
			f("scope-id", e.S)
		}
	}
	for _, c := range p.Conds {
		c.Body.Walk(func(x *ir.Expr) {
			switch x.Op {
			case ir.OpLit:
				val("value-", *x.Lit)
			case ir.OpHas, ir.OpAccess:
				f("attr", x.Name)
			case ir.OpRecord:
				for _, k := range x.Keys {
					f("record-key", k)
				}
			case ir.OpLike:
				for _, pe := range x.Pat {
					if !pe.Wild {
						f("pattern", pe.Lit)
					}
				}
			}
		})
	}
}

// HasReservedKeyObject: some literal record value has a member "__entity" or "__extn" whose JSON form is an object
// (record, entity, extension value). The JSON value format reserves exactly these shapes for entity references and
// extension values, so such a record cannot be written unambiguously (DESIGN.md appendix C, C09 / C13).
func HasReservedKeyObject(p *ir.Policy) bool {
	found := false
	PolicyValues(p, func(v ir.Value) {
		for _, f := range v.Fields {
			if f.K != "__entity" && f.K != "__extn" {
				continue
			}
			switch f.V.K {
			case ir.KRecord, ir.KEntity, ir.KDecimal, ir.KIP, ir.KDatetime, ir.KDuration:
				found = true
			}
		}
	})
	return found
}

// PolicyValues calls f for every literal value node of the policy and every nested value.
func PolicyValues(p *ir.Policy, f func(v ir.Value)) {
	var val func(v ir.Value)
	val = func(v ir.Value) {
		f(v)
		for _, e := range v.Elems {
			val(e)
		}
		for _, fl := range v.Fields {
			val(fl.V)
		}
	}
	for _, c := range p.Conds {
		c.Body.Walk(func(x *ir.Expr) {
			if x.Op == ir.OpLit {
				val(*x.Lit)
			}
		})
	}
}
