package gen

import (
	"pgregory.net/rapid"

	"verif/ir"
	"verif/ref"
)

// ExprOpts steers the expression generators.
type ExprOpts struct {
	Val        ValOpts
	SlipPct    int  // probability (percent) that a typed operand position receives an operand of another kind
	NoExtLit   bool // do not place extension-typed values in NodeValue literals (use constructor calls only)
	NoExtCall  bool // no extension calls at all
	BadFuncPct int  // probability of an unknown function / wrong arity call where a call is generated
	NoVars     bool // closed expressions only
	BadCtorPct int  // probability that a constructor call receives a malformed string
}

var DefaultExprOpts = ExprOpts{Val: DefaultValOpts, SlipPct: 8, BadFuncPct: 2, BadCtorPct: 10}

type path struct {
	e *ir.Expr
	k ir.Kind
}

// worldPaths lists access expressions that evaluate to a value of known kind in w.
func worldPaths(w *World) []path {
	var ps []path
	addFields := func(base *ir.Expr, fs []ir.Field, depth int) {}
	addFields = func(base *ir.Expr, fs []ir.Field, depth int) {
		for _, f := range fs {
			e := ir.Access(base, f.K)
			ps = append(ps, path{e, f.V.K})
			if f.V.K == ir.KRecord && depth > 0 {
				addFields(e, f.V.Fields, depth-1)
			}
		}
	}
	addFields(ir.Var("context"), w.Req.Context.Fields, 1)
	for _, v := range []struct {
		n   string
		uid ir.Value
	}{{"principal", w.Req.Principal}, {"action", w.Req.Action}, {"resource", w.Req.Resource}} {
		if ent, ok := w.Store.Get(v.uid); ok {
			addFields(ir.Var(v.n), ent.Attrs, 1)
			for _, tg := range ent.Tags {
				ps = append(ps, path{ir.Bin(ir.OpGetTag, ir.Var(v.n), ir.Lit(ir.Str(tg.K))), tg.V.K})
			}
		}
	}
	for _, ent := range w.Store {
		addFields(ir.Lit(ent.UID), ent.Attrs, 0)
		for _, tg := range ent.Tags {
			ps = append(ps, path{ir.Bin(ir.OpGetTag, ir.Lit(ent.UID), ir.Lit(ir.Str(tg.K))), tg.V.K})
		}
	}
	return ps
}

type exprGen struct {
	t     *rapid.T
	w     *World
	o     ExprOpts
	paths []path
}

// GenExpr draws an expression intended to have kind k ("" = any kind) with depth budget depth.
func GenExpr(t *rapid.T, w *World, k ir.Kind, depth int, o ExprOpts) *ir.Expr {
	g := &exprGen{t: t, w: w, o: o}
	if !o.NoVars {
		g.paths = worldPaths(w)
	}
	if k == "" {
		k = g.anyKind()
	}
	return g.of(k, depth)
}

func (g *exprGen) anyKind() ir.Kind {
	ks := []ir.Kind{ir.KBool, ir.KBool, ir.KBool, ir.KLong, ir.KLong, ir.KString, ir.KEntity, ir.KEntity, ir.KSet, ir.KSet, ir.KRecord}
	if !g.o.NoExtCall || !g.o.NoExtLit {
		ks = append(ks, ir.KDecimal, ir.KIP, ir.KDatetime, ir.KDuration)
	}
	return pick(g.t, ks, "ekind")
}

// operand: kind k, or with SlipPct another kind.
func (g *exprGen) arg(k ir.Kind, depth int) *ir.Expr {
	if g.o.SlipPct > 0 && chance(g.t, g.o.SlipPct, "slip") {
		return g.of(g.anyKind(), depth)
	}
	return g.of(k, depth)
}

func (g *exprGen) lit(k ir.Kind) *ir.Expr {
	t := g.t
	v := ValueOfKind(t, k, 1, g.o.Val)
	switch k {
	case ir.KDecimal, ir.KIP, ir.KDatetime, ir.KDuration:
		asCall := g.o.NoExtLit || chance(t, 60, "ctorcall")
		if g.o.NoExtCall {
			asCall = false
		}
		if !asCall {
			return ir.Lit(v)
		}
		// constructor applied to a request-dependent string (never constant-folded): context.dts / durs / decs / ips hold
		// valid texts when the world has them, any other string path usually makes the constructor fail
		if !g.o.NoVars && chance(t, 25, "ctordyn") {
			fn, _ := CtorText(v)
			key := map[string]string{"datetime": "dts", "duration": "durs", "decimal": "decs", "ip": "ips"}[fn]
			if _, has := g.w.Req.Context.Get(key); has && chance(t, 80, "ctordynvalid") {
				return ir.Ext(fn, ir.Access(ir.Var("context"), key))
			}
			if p := g.pathOf(ir.KString); p != nil {
				return ir.Ext(fn, p)
			}
		}
		return CtorCall(t, v, g.o.BadCtorPct)
	case ir.KSet, ir.KRecord:
		if g.o.NoExtLit && hasExt(v) {
			return LiteralExpr(v, true)
		}
		if chance(t, 50, "litasexpr") {
			return LiteralExpr(v, g.o.NoExtLit)
		}
	}
	return ir.Lit(v)
}

func hasExt(v ir.Value) bool {
	switch v.K {
	case ir.KDecimal, ir.KIP, ir.KDatetime, ir.KDuration:
		return true
	}
	for _, e := range v.Elems {
		if hasExt(e) {
			return true
		}
	}
	for _, f := range v.Fields {
		if hasExt(f.V) {
			return true
		}
	}
	return false
}

// CtorText gives the canonical constructor argument for an extension value.
func CtorText(v ir.Value) (fn, arg string) {
	switch v.K {
	case ir.KDecimal:
		return "decimal", ref.FormatDecimal(v.I)
	case ir.KDatetime:
		return "datetime", ref.FormatDatetime(v.I)
	case ir.KDuration:
		return "duration", ref.FormatDuration(v.I)
	case ir.KIP:
		return "ip", ref.FormatIP(v.IP.Addr, v.IP.Prefix)
	}
	panic("CtorText: not an extension value")
}

// BadCtorArgs are malformed constructor arguments whose rejection the oracle is sure of.
var BadCtorArgs = map[string][]string{
	"decimal":  {"", "1", "1.", ".5", "1.00000", "1e2", "--1.0", "1_0.0", "+1.0", "1.0 ", " 1.0", "922337203685477.5808", "-922337203685477.5809", "0x1.0", "١.٠", "1.-5", "1.+5", "-.5"},
	"datetime": {"", "2024-02-30", "2023-02-29", "2024-13-01", "2024-00-10", "2024-01-00", "2024-01-01T24:00:00Z", "2024-01-01T00:60:00Z", "2024-01-01T00:00:60Z", "2024-01-01T00:00:00", "2024-01-01 00:00:00Z", "2024-1-1", "2024-01-01T00:00:00.00Z", "2024-01-01T00:00:00+2400", "2024-01-01T00:00:00+0060", "2024-01-01T00:00:00+01:00", "2024-01-01T", "99999-01-01", "+999999999-12-31T23:59:59Z", "-999999999-01-01", "+999999999-01-01", "2024-04-31"},
	"duration": {"", "-", "1", "ms", "1x", "1ms1s", "1d1d", "1h1d", "1.5h", "1 h", "-1d-1h", "9223372036854775808ms", "106751991168d", "+1d", "1D", "--1s", "1m1ms1s"},
	"ip":       {"", "1.2.3", "1.2.3.4.5", "256.1.1.1", "1.2.3.4/33", "::1/129", ":::1", "1::2::3", "fe80::1%eth0", "::ffff:1.2.3.4", "1.2.3.4/", "/24", "1.2.3.4/-1", "12345::1", "g::1", "1.2.3.a", "1:2:3:4:5:6:7:8:9", "1.2.3.4/1/2", " 1.2.3.4"},
}

// CtorCall renders v as constructor call; with badPct a malformed argument is used instead.
func CtorCall(t *rapid.T, v ir.Value, badPct int) *ir.Expr {
	fn, arg := CtorText(v)
	if badPct > 0 && chance(t, badPct, "badctor") {
		arg = pick(t, BadCtorArgs[fn], "badarg")
	}
	return ir.Ext(fn, ir.Lit(ir.Str(arg)))
}

// LiteralExpr turns a value into an expression built from set / record literal nodes and scalar literals.
func LiteralExpr(v ir.Value, extAsCall bool) *ir.Expr {
	switch v.K {
	case ir.KSet:
		es := make([]*ir.Expr, len(v.Elems))
		for i, e := range v.Elems {
			es[i] = LiteralExpr(e, extAsCall)
		}
		return ir.SetE(es...)
	case ir.KRecord:
		ks := make([]string, len(v.Fields))
		es := make([]*ir.Expr, len(v.Fields))
		for i, f := range v.Fields {
			ks[i] = f.K
			es[i] = LiteralExpr(f.V, extAsCall)
		}
		return ir.RecE(ks, es)
	case ir.KDecimal, ir.KIP, ir.KDatetime, ir.KDuration:
		if extAsCall {
			fn, arg := CtorText(v)
			return ir.Ext(fn, ir.Lit(ir.Str(arg)))
		}
	}
	return ir.Lit(v)
}

func (g *exprGen) pathOf(k ir.Kind) *ir.Expr {
	var c []int
	for i, p := range g.paths {
		if p.k == k {
			c = append(c, i)
		}
	}
	if len(c) == 0 {
		return nil
	}
	return g.paths[pick(g.t, c, "path")].e.Clone()
}

func (g *exprGen) entityLeaf() *ir.Expr {
	t := g.t
	if !g.o.NoVars && chance(t, 50, "entvar") {
		return ir.Var(pick(t, []string{"principal", "action", "resource"}, "var"))
	}
	if len(g.w.Store) > 0 && chance(t, 70, "entinstore") {
		return ir.Lit(g.w.Store[rapid.IntRange(0, len(g.w.Store)-1).Draw(t, "entidx")].UID)
	}
	return ir.Lit(EntityVal(t))
}

func (g *exprGen) keyFor(e *ir.Expr) string {
	// prefer a key that exists somewhere
	return pick(g.t, g.o.Val.Keys, "attrkey")
}

var cmpOps = []ir.Op{ir.OpLt, ir.OpLe, ir.OpGt, ir.OpGe}

// of: an expression of kind k. Now and then a binary node gets the *same* sub-expression on both sides (`e == e`,
// `e in e`, `e && e`, ...): reflexive shapes invite "obviously true" shortcuts that forget that e itself may fail.
func (g *exprGen) of(k ir.Kind, depth int) *ir.Expr {
	e := g.of0(k, depth)
	if depth > 0 && len(e.Args) == 2 && e.Op != ir.OpIsIn && e.Op != ir.OpRecord && e.Op != ir.OpSet && e.Op != ir.OpExt && chance(g.t, 6, "dupoperand") {
		e.Args[1] = e.Args[0].Clone()
	}
	return e
}

func (g *exprGen) of0(k ir.Kind, depth int) *ir.Expr {
	t := g.t
	if depth <= 0 {
		if k == ir.KEntity {
			return g.entityLeaf()
		}
		if k == ir.KRecord && !g.o.NoVars && chance(t, 40, "ctxleaf") {
			return ir.Var("context")
		}
		if !g.o.NoVars && chance(t, 35, "pathleaf") {
			if p := g.pathOf(k); p != nil {
				return p
			}
		}
		return g.lit(k)
	}
	d := depth - 1
	// generic productions available for every kind
	switch rapid.IntRange(0, 11).Draw(t, "generic") {
	case 0:
		return ir.If(g.arg(ir.KBool, d), g.of(k, d), g.of(k, d))
	case 1:
		if !g.o.NoVars {
			if p := g.pathOf(k); p != nil {
				return p
			}
		}
	case 2:
		// access on a record literal that has the field
		key := pick(t, g.o.Val.Keys, "rkey")
		other := pick(t, g.o.Val.Keys, "okey")
		keys := []string{key}
		es := []*ir.Expr{g.of(k, d)}
		if other != key {
			keys = append(keys, other)
			es = append(es, g.of(g.anyKind(), 0))
		}
		if chance(t, 10, "misskey") {
			key = pick(t, g.o.Val.Keys, "mkey")
		}
		return ir.Access(ir.RecE(keys, es), key)
	case 3:
		return g.of(k, 0)
	}
	switch k {
	case ir.KBool:
		switch rapid.IntRange(0, 21).Draw(t, "boolprod") {
		case 0:
			return ir.Bin(ir.OpAnd, g.arg(ir.KBool, d), g.arg(ir.KBool, d))
		case 1:
			return ir.Bin(ir.OpOr, g.arg(ir.KBool, d), g.arg(ir.KBool, d))
		case 2:
			return ir.Un(ir.OpNot, g.arg(ir.KBool, d))
		case 3, 4:
			kk := g.anyKind()
			op := pick(t, []ir.Op{ir.OpEq, ir.OpNe}, "eqop")
			if chance(t, 15, "eqmixed") {
				return ir.Bin(op, g.of(kk, d), g.of(g.anyKind(), d))
			}
			return ir.Bin(op, g.of(kk, d), g.of(kk, d))
		case 5, 6:
			kk := pick(t, []ir.Kind{ir.KLong, ir.KLong, ir.KDatetime, ir.KDuration}, "cmpkind")
			return ir.Bin(pick(t, cmpOps, "cmpop"), g.arg(kk, d), g.arg(kk, d))
		case 7:
			if chance(t, 50, "inset") {
				return ir.Bin(ir.OpIn, g.arg(ir.KEntity, d), g.entitySet(d))
			}
			return ir.Bin(ir.OpIn, g.arg(ir.KEntity, d), g.arg(ir.KEntity, d))
		case 8:
			return ir.Is(g.arg(ir.KEntity, d), g.etype())
		case 9:
			tgt := g.arg(ir.KEntity, d)
			if chance(t, 30, "isinset") {
				tgt = g.entitySet(d)
			}
			return ir.IsIn(g.arg(ir.KEntity, d), g.etype(), tgt)
		case 10, 11:
			var base *ir.Expr
			if chance(t, 50, "hasent") {
				base = g.arg(ir.KEntity, d)
			} else {
				base = g.arg(ir.KRecord, d)
			}
			return ir.Has(base, g.keyFor(base))
		case 12:
			return ir.Bin(ir.OpHasTag, g.arg(ir.KEntity, d), g.arg(ir.KString, d))
		case 13:
			return ir.Like(g.arg(ir.KString, d), GenPattern(t))
		case 14:
			kk := g.anyKind()
			return ir.Bin(ir.OpContains, g.setOf(kk, d), g.of(kk, d))
		case 15:
			kk := g.anyKind()
			return ir.Bin(pick(t, []ir.Op{ir.OpContainsAll, ir.OpContainsAny}, "cop"), g.setOf(kk, d), g.setOf(kk, d))
		case 16:
			return ir.Un(ir.OpIsEmpty, g.arg(ir.KSet, d))
		case 17:
			if g.o.NoExtCall {
				break
			}
			return g.call(pick(t, []string{"lessThan", "lessThanOrEqual", "greaterThan", "greaterThanOrEqual"}, "decop"), g.arg(ir.KDecimal, d), g.arg(ir.KDecimal, d))
		case 18:
			if g.o.NoExtCall {
				break
			}
			return g.call(pick(t, []string{"isIpv4", "isIpv6", "isLoopback", "isMulticast"}, "ipop"), g.arg(ir.KIP, d))
		case 19:
			if g.o.NoExtCall {
				break
			}
			return g.call("isInRange", g.arg(ir.KIP, d), g.arg(ir.KIP, d))
		}
		return g.lit(ir.KBool)
	case ir.KLong:
		switch rapid.IntRange(0, 6).Draw(t, "longprod") {
		case 0, 1:
			return ir.Bin(pick(t, []ir.Op{ir.OpAdd, ir.OpSub, ir.OpMul}, "arith"), g.arg(ir.KLong, d), g.arg(ir.KLong, d))
		case 2:
			return ir.Un(ir.OpNeg, g.arg(ir.KLong, d))
		case 3:
			if g.o.NoExtCall {
				break
			}
			return g.call(pick(t, []string{"toMilliseconds", "toSeconds", "toMinutes", "toHours", "toDays"}, "durop"), g.arg(ir.KDuration, d))
		}
		return g.lit(ir.KLong)
	case ir.KString:
		return g.lit(ir.KString)
	case ir.KEntity:
		return g.entityLeaf()
	case ir.KSet:
		n := rapid.IntRange(0, 3).Draw(t, "nset")
		kk := g.anyKind()
		es := make([]*ir.Expr, n)
		for i := range es {
			es[i] = g.arg(kk, d)
		}
		return ir.SetE(es...)
	case ir.KRecord:
		if !g.o.NoVars && chance(t, 30, "ctx") {
			return ir.Var("context")
		}
		n := rapid.IntRange(0, 3).Draw(t, "nrec")
		var keys []string
		var es []*ir.Expr
		for i := 0; i < n; i++ {
			key := pick(t, g.o.Val.Keys, "reckey")
			dup := false
			for _, x := range keys {
				if x == key {
					dup = true
				}
			}
			if dup {
				continue
			}
			keys = append(keys, key)
			es = append(es, g.of(g.anyKind(), d))
		}
		return ir.RecE(keys, es)
	case ir.KDatetime:
		if !g.o.NoExtCall {
			switch rapid.IntRange(0, 4).Draw(t, "dtprod") {
			case 0:
				return g.call("offset", g.arg(ir.KDatetime, d), g.arg(ir.KDuration, d))
			case 1:
				return g.call("toDate", g.arg(ir.KDatetime, d))
			}
		}
		return g.lit(ir.KDatetime)
	case ir.KDuration:
		if !g.o.NoExtCall {
			switch rapid.IntRange(0, 4).Draw(t, "duprod") {
			case 0:
				return g.call("durationSince", g.arg(ir.KDatetime, d), g.arg(ir.KDatetime, d))
			case 1:
				return g.call("toTime", g.arg(ir.KDatetime, d))
			}
		}
		return g.lit(ir.KDuration)
	}
	return g.lit(k)
}

func (g *exprGen) call(name string, args ...*ir.Expr) *ir.Expr {
	if g.o.BadFuncPct > 0 && chance(g.t, g.o.BadFuncPct, "badfunc") {
		switch rapid.IntRange(0, 2).Draw(g.t, "badfunckind") {
		case 0:
			return ir.Ext("nosuchfn", args...)
		case 1:
			return ir.Ext(name, args[:len(args)-1]...)
		default:
			return ir.Ext(name, append(args, ir.Lit(ir.Long(1)))...)
		}
	}
	return ir.Ext(name, args...)
}

func (g *exprGen) etype() string {
	if chance(g.t, 10, "acttype") {
		return ActionType
	}
	return pick(g.t, EntityTypes, "istype")
}

func (g *exprGen) entitySet(d int) *ir.Expr {
	n := rapid.IntRange(0, 3).Draw(g.t, "nentset")
	es := make([]*ir.Expr, n)
	for i := range es {
		es[i] = g.arg(ir.KEntity, d)
	}
	return ir.SetE(es...)
}

func (g *exprGen) setOf(k ir.Kind, d int) *ir.Expr {
	if chance(g.t, 25, "setany") {
		return g.arg(ir.KSet, d)
	}
	n := rapid.IntRange(0, 3).Draw(g.t, "nsetof")
	es := make([]*ir.Expr, n)
	for i := range es {
		es[i] = g.of(k, d)
	}
	return ir.SetE(es...)
}

// GenPattern draws a like-pattern.
func GenPattern(t *rapid.T) []ir.PatElem {
	n := rapid.IntRange(0, 4).Draw(t, "npat")
	var p []ir.PatElem
	for i := 0; i < n; i++ {
		if chance(t, 45, "wild") {
			p = append(p, ir.PatElem{Wild: true})
		} else {
			p = append(p, ir.PatElem{Lit: pick(t, []string{"a", "b", "ab", "*", "\\", "é", "X", "", "日", "\"", "\n"}, "patlit")})
		}
	}
	return p
}

// ---------------------------------------------------------------------------------------------
// Policies

type PolicyOpts struct {
	Expr     ExprOpts
	MaxConds int
	Depth    int
	Annot    bool
}

func GenScope(t *rapid.T, w *World, part string) ir.Scope {
	ent := func() ir.Value {
		if part == "action" {
			return ir.Ent(ActionType, pick(t, ActionIDs, "saction"))
		}
		var req ir.Value
		if part == "principal" {
			req = w.Req.Principal
		} else {
			req = w.Req.Resource
		}
		if chance(t, 40, "sreq") {
			return req
		}
		if ent, ok := w.Store.Get(req); ok && len(ent.Parents) > 0 && chance(t, 50, "sparent") {
			return ent.Parents[rapid.IntRange(0, len(ent.Parents)-1).Draw(t, "spidx")]
		}
		return EntityVal(t)
	}
	max := 5
	switch rapid.IntRange(0, max).Draw(t, "scopekind") {
	case 0, 1:
		return ir.ScopeAll()
	case 2:
		return ir.ScopeEq(ent())
	case 3:
		return ir.ScopeIn(ent())
	case 4:
		if part == "action" {
			n := rapid.IntRange(0, 3).Draw(t, "nacts")
			es := make([]ir.Value, n)
			for i := range es {
				es[i] = ent()
			}
			return ir.ScopeInSet(es)
		}
		return ir.ScopeIs(pick(t, EntityTypes, "stype"))
	default:
		if part == "action" {
			return ir.ScopeEq(w.Req.Action)
		}
		return ir.ScopeIsIn(pick(t, EntityTypes, "sitype"), ent())
	}
}

func GenPolicy(t *rapid.T, w *World, o PolicyOpts) *ir.Policy {
	p := ir.NewPolicy(rapid.IntRange(0, 2).Draw(t, "effect") > 0)
	if chance(t, 60, "scoped") {
		p.Principal = GenScope(t, w, "principal")
		p.Action = GenScope(t, w, "action")
		p.Resource = GenScope(t, w, "resource")
	}
	n := rapid.IntRange(0, o.MaxConds).Draw(t, "nconds")
	for i := 0; i < n; i++ {
		k := ir.KBool
		if chance(t, 5, "nonboolcond") {
			k = ""
		}
		p.Conds = append(p.Conds, ir.Cond{When: chance(t, 70, "when"), Body: GenExpr(t, w, k, rapid.IntRange(0, o.Depth).Draw(t, "cdepth"), o.Expr)})
	}
	if o.Annot {
		na := rapid.IntRange(0, 2).Draw(t, "nannot")
		for i := 0; i < na; i++ {
			k := pick(t, []string{"id", "a", "if", "permit", "_x1"}, "annk")
			dup := false
			for _, a := range p.Annotations {
				if a.K == k {
					dup = true
				}
			}
			if !dup {
				p.Annotations = append(p.Annotations, ir.Annotation{K: k, V: StringVal(t)})
			}
		}
	}
	return p
}
