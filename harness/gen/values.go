// Package gen holds rapid generators and deterministic enumerators over the IR.
// Every random choice goes through rapid.
package gen

import (
	"math"

	"pgregory.net/rapid"

	"verif/ev"
	"verif/ir"
	"verif/ref"
)

var (
	EntityTypes = []string{"T0", "T1", "NS::T2"}
	EntityIDs   = []string{"a", "b", "c", "d"}
	ActionType  = "Action"
	ActionIDs   = []string{"view", "edit", "grp"}

	// small key pool so that accesses hit
	KeysSmall = []string{"a", "b", "k", "x", "if", ""}
	// hostile keys: keywords, non-identifiers, control / quote / non-ASCII characters, look-alikes
	KeysHostile = []string{"a", "b", "if", "in", "true", "has", "like", "is", "then", "else", "principal", "context", "__cedar",
		"a b", "", "1x", "x-y", "\n", "\t", "\"", "'", "\\", "\u0000", "é", "日本", "\u0080", "​", "�", "́", "á",
		"__entity", "__extn", "__tag:k", "*", "\U0001F600", " ", "\a", "\x7f"}

	LongBoundary = []int64{math.MinInt64, math.MinInt64 + 1, -(1 << 32) - 1, -3037000500, -3037000499, -2, -1, 0, 1, 2, 3, 10,
		3037000499, 3037000500, 1 << 31, 1 << 32, 4294967296 + 1, 1 << 62, math.MaxInt64 - 1, math.MaxInt64}
	TimeBoundary = []int64{math.MinInt64, math.MinInt64 + 1, math.MinInt64 + 86400000, -86400001, -86400000, -86399999, -1000, -2, -1, 0, 1, 2, 999, 1000,
		86399999, 86400000, 86400001, 172800000, 1700000000000, -62167219200000, 253402300799999, 253402300800000, -62167219200001,
		math.MaxInt64 - 86400000, math.MaxInt64 - 1, math.MaxInt64,
		// durations whose every component has its full width (12-digit days, two-digit h/m/s, three-digit ms): the longest
		// renderings are not the ones of the minimum and maximum
		9223372036828799999, -9223372036828799999, 8640000000036610100, -8640000000036610100}
	DecimalBoundary = []int64{math.MinInt64, math.MinInt64 + 1, -10000, -9999, -1, 0, 1, 9999, 10000, 10001, 12345, math.MaxInt64 - 1, math.MaxInt64}
)

func pick[T any](t *rapid.T, xs []T, label string) T {
	return xs[rapid.IntRange(0, len(xs)-1).Draw(t, label)]
}

func Pick[T any](t *rapid.T, xs []T, label string) T { return pick(t, xs, label) }

func chance(t *rapid.T, pct int, label string) bool {
	return rapid.IntRange(0, 99).Draw(t, label) < pct
}

func Chance(t *rapid.T, pct int, label string) bool { return chance(t, pct, label) }

func LongVal(t *rapid.T) int64 {
	switch rapid.IntRange(0, 9).Draw(t, "longsrc") {
	case 0, 1, 2:
		return pick(t, LongBoundary, "longb")
	case 3, 4, 5, 6:
		return int64(rapid.IntRange(-5, 5).Draw(t, "longsmall"))
	default:
		return rapid.Int64().Draw(t, "long")
	}
}

func TimeVal(t *rapid.T) int64 {
	switch rapid.IntRange(0, 9).Draw(t, "timesrc") {
	case 0, 1, 2, 3:
		return pick(t, TimeBoundary, "timeb")
	case 4, 5:
		return int64(rapid.IntRange(-3, 3).Draw(t, "timesmall"))
	case 6, 7:
		return rapid.Int64Range(-4102444800000, 4102444800000).Draw(t, "timemid")
	default:
		return rapid.Int64().Draw(t, "time")
	}
}

// DatetimeVal is TimeVal minus the class of the open known finding "datetime-min-day" (datetimes in the first 24 h
// of the int64 range cannot be written as text that cedar-go parses); such draws are moved one day up and counted.
// C12 owns that finding and draws the raw values itself.
func DatetimeVal(t *rapid.T) int64 {
	v := TimeVal(t)
	if v < math.MinInt64+86400000 && ev.KnownOpen("C12", "datetime-min-day") {
		ev.R.Excluded("datetime-min-day")
		v += 86400000
	}
	return v
}

func DecimalVal(t *rapid.T) int64 {
	switch rapid.IntRange(0, 9).Draw(t, "decsrc") {
	case 0, 1, 2:
		return pick(t, DecimalBoundary, "decb")
	case 3, 4, 5, 6:
		return int64(rapid.IntRange(-20000, 20000).Draw(t, "decsmall"))
	default:
		return rapid.Int64().Draw(t, "dec")
	}
}

// StringsPool: short strings that collide with patterns and keys.
var StringsPool = []string{"", "a", "b", "ab", "abc", "aXb", "*", "a*", "\\", "\"", "'", "\n", "é", "日本", "�", "á", "\U0001F600", "if", "0", "1", "view",
	// texts that *look like* escapes (a backslash followed by letters): a codec that post-processes its output, or unescapes
	// twice, turns them into something else
	"\\u003c", "\\u0026x", "\\n", "\\\"", "\\u{41}", "<>&", "&lt;"}

func StringVal(t *rapid.T) string {
	switch rapid.IntRange(0, 9).Draw(t, "strsrc") {
	case 0, 1, 2, 3, 4, 5:
		return pick(t, StringsPool, "strp")
	case 6, 7:
		return rapid.StringOfN(rapid.RuneFrom([]rune("ab*\\\"'\né�")), 0, 5, -1).Draw(t, "strbias")
	default:
		return UnicodeString(t, 0, 6)
	}
}

// UnicodeString draws a string of valid Unicode scalar values from the whole range, biased to interesting blocks.
func UnicodeString(t *rapid.T, minLen, maxLen int) string {
	n := rapid.IntRange(minLen, maxLen).Draw(t, "ulen")
	rs := make([]rune, n)
	for i := range rs {
		rs[i] = UnicodeRune(t)
	}
	return string(rs)
}

func UnicodeRune(t *rapid.T) rune {
	switch rapid.IntRange(0, 9).Draw(t, "runesrc") {
	case 0, 1, 2:
		return rune(rapid.IntRange(0x20, 0x7e).Draw(t, "ascii"))
	case 3:
		return rune(rapid.IntRange(0, 0x1f).Draw(t, "ctl"))
	case 4:
		return pick(t, []rune{'"', '\'', '\\', '*', '\n', '\r', '\t', 0, 0x7f, 0x80, 0x85, 0xa0, 0xad, 0x300, 0x301, 0x200b, 0x2028, 0x2029, 0xfeff, 0xfffd, 0xfffe, 0xffff, 0x10000, 0x10ffff, 0xe000, 0xd7ff, 0x1f600}, "special")
	case 5, 6:
		return rune(rapid.IntRange(0x80, 0x7ff).Draw(t, "two"))
	case 7, 8:
		r := rune(rapid.IntRange(0x800, 0xffff).Draw(t, "three"))
		if r >= 0xd800 && r <= 0xdfff {
			r = 0xfffd
		}
		return r
	default:
		return rune(rapid.IntRange(0x10000, 0x10ffff).Draw(t, "four"))
	}
}

func EntityVal(t *rapid.T) ir.Value {
	if chance(t, 15, "isaction") {
		return ir.Ent(ActionType, pick(t, ActionIDs, "aid"))
	}
	return ir.Ent(pick(t, EntityTypes, "etype"), pick(t, EntityIDs, "eid"))
}

var ipPool = []ir.Value{
	ir.IP([]byte{127, 0, 0, 1}, 32), ir.IP([]byte{127, 0, 0, 0}, 8), ir.IP([]byte{127, 0, 0, 1}, 4), ir.IP([]byte{10, 0, 0, 1}, 32),
	ir.IP([]byte{10, 0, 0, 0}, 8), ir.IP([]byte{224, 0, 0, 1}, 32), ir.IP([]byte{224, 0, 0, 0}, 4), ir.IP([]byte{224, 0, 0, 0}, 3),
	ir.IP([]byte{239, 255, 255, 255}, 32), ir.IP([]byte{0, 0, 0, 0}, 0), ir.IP([]byte{255, 255, 255, 255}, 32), ir.IP([]byte{192, 168, 1, 77}, 24),
	ir.IP(v6(0, 0, 0, 0, 0, 0, 0, 1), 128), ir.IP(v6(0, 0, 0, 0, 0, 0, 0, 1), 127), ir.IP(v6(0, 0, 0, 0, 0, 0, 0, 0), 0), ir.IP(v6(0, 0, 0, 0, 0, 0, 0, 0), 128),
	ir.IP(v6(0xff00, 0, 0, 0, 0, 0, 0, 0), 8), ir.IP(v6(0xff02, 0, 0, 0, 0, 0, 0, 1), 128), ir.IP(v6(0xff00, 0, 0, 0, 0, 0, 0, 0), 7),
	ir.IP(v6(0x2001, 0xdb8, 0, 0, 0, 0, 0, 1), 128), ir.IP(v6(0x2001, 0xdb8, 0, 0, 0, 0, 0, 0), 32), ir.IP(v6(0xfe80, 0, 0, 0, 0, 0, 0, 1), 64),
}

// IPv4-mapped IPv6 addresses (written in hex by the printers); kept separate because several findings concern them.
var IPMappedPool = []ir.Value{
	ir.IP(v6(0, 0, 0, 0, 0, 0xffff, 0x7f00, 1), 128), ir.IP(v6(0, 0, 0, 0, 0, 0xffff, 0xe000, 1), 128), ir.IP(v6(0, 0, 0, 0, 0, 0xffff, 0x0102, 0x0304), 128),
	ir.IP(v6(0, 0, 0, 0, 0, 0xffff, 0x7f00, 0), 104),
}

func v6(g ...uint16) []byte {
	out := make([]byte, 16)
	for i, x := range g {
		out[2*i] = byte(x >> 8)
		out[2*i+1] = byte(x)
	}
	return out
}

// IPVal draws an IP value. mapped controls whether IPv4-mapped IPv6 addresses may appear.
func IPVal(t *rapid.T, mapped bool) ir.Value {
	switch rapid.IntRange(0, 9).Draw(t, "ipsrc") {
	case 0, 1, 2, 3, 4, 5:
		return pick(t, ipPool, "ipp")
	case 6:
		if mapped {
			return pick(t, IPMappedPool, "ipm")
		}
		return pick(t, ipPool, "ipp2")
	case 7, 8:
		b := rapid.SliceOfN(rapid.Byte(), 4, 4).Draw(t, "ip4")
		return ir.IP(b, rapid.IntRange(0, 32).Draw(t, "pfx4"))
	default:
		b := rapid.SliceOfN(rapid.Byte(), 16, 16).Draw(t, "ip6")
		if !mapped && isMapped(b) {
			b[0] = 0x20
		}
		return ir.IP(b, rapid.IntRange(0, 128).Draw(t, "pfx6"))
	}
}

func isMapped(b []byte) bool {
	for i := 0; i < 10; i++ {
		if b[i] != 0 {
			return false
		}
	}
	return b[10] == 0xff && b[11] == 0xff
}

func IsMappedIP(v ir.Value) bool { return v.K == ir.KIP && v.IP.V6() && isMapped(v.IP.Addr) }

// ValOpts steers the value generator.
type ValOpts struct {
	Keys     []string // record key pool
	MappedIP bool
	NoExt    bool // no extension-typed values
}

var DefaultValOpts = ValOpts{Keys: KeysSmall}

// ValueOfKind draws a value of kind k with nesting at most depth.
func ValueOfKind(t *rapid.T, k ir.Kind, depth int, o ValOpts) ir.Value {
	switch k {
	case ir.KBool:
		return ir.Bool(rapid.Bool().Draw(t, "bool"))
	case ir.KLong:
		return ir.Long(LongVal(t))
	case ir.KString:
		return ir.Str(StringVal(t))
	case ir.KEntity:
		return EntityVal(t)
	case ir.KDecimal:
		return ir.Decimal(DecimalVal(t))
	case ir.KDatetime:
		return ir.Datetime(DatetimeVal(t))
	case ir.KDuration:
		return ir.Duration(TimeVal(t))
	case ir.KIP:
		return IPVal(t, o.MappedIP)
	case ir.KSet:
		n := rapid.IntRange(0, 3).Draw(t, "setlen")
		out := ir.Value{K: ir.KSet}
		homog := chance(t, 70, "homog")
		ek := scalarOrNested(t, depth-1, o)
		for i := 0; i < n; i++ {
			if !homog {
				ek = scalarOrNested(t, depth-1, o)
			}
			v := ValueOfKind(t, ek, depth-1, o)
			if !out.Contains(v) {
				out.Elems = append(out.Elems, v)
			}
		}
		return out
	case ir.KRecord:
		return RecordVal(t, depth, o)
	}
	panic("gen: kind " + string(k))
}

func RecordVal(t *rapid.T, depth int, o ValOpts) ir.Value {
	n := rapid.IntRange(0, 3).Draw(t, "reclen")
	out := ir.Value{K: ir.KRecord}
	for i := 0; i < n; i++ {
		k := pick(t, o.Keys, "key")
		if _, dup := out.Get(k); dup {
			continue
		}
		out.Fields = append(out.Fields, ir.F(k, ValueOfKind(t, scalarOrNested(t, depth-1, o), depth-1, o)))
	}
	return out
}

func scalarOrNested(t *rapid.T, depth int, o ValOpts) ir.Kind {
	ks := []ir.Kind{ir.KBool, ir.KLong, ir.KLong, ir.KString, ir.KString, ir.KEntity, ir.KEntity}
	if !o.NoExt {
		ks = append(ks, ir.KDecimal, ir.KIP, ir.KDatetime, ir.KDuration)
	}
	if depth > 0 {
		ks = append(ks, ir.KSet, ir.KSet, ir.KRecord, ir.KRecord)
	}
	return pick(t, ks, "kind")
}

func AnyKind(t *rapid.T, depth int, o ValOpts) ir.Kind { return scalarOrNested(t, depth, o) }

// Value draws any value.
func Value(t *rapid.T, depth int, o ValOpts) ir.Value {
	return ValueOfKind(t, scalarOrNested(t, depth, o), depth, o)
}

// ---------------------------------------------------------------------------------------------
// Worlds: an entity store and a request

type World struct {
	Store ir.Store   `json:"store"`
	Req   ir.Request `json:"req"`
}

// GenWorld draws a store of 0..maxEnt entities over the universe with parents, attributes and tags, and a request.
func GenWorld(t *rapid.T, maxEnt int, o ValOpts) World {
	var w World
	n := rapid.IntRange(0, maxEnt).Draw(t, "nent")
	for i := 0; i < n; i++ {
		var uid ir.Value
		if i < 2 && chance(t, 50, "actent") {
			uid = ir.Ent(ActionType, pick(t, ActionIDs, "aid"))
		} else {
			uid = ir.Ent(pick(t, EntityTypes, "etype"), pick(t, EntityIDs, "eid"))
		}
		if _, dup := w.Store.Get(uid); dup {
			continue
		}
		e := ir.Entity{UID: uid}
		np := rapid.IntRange(0, 2).Draw(t, "npar")
		for j := 0; j < np; j++ {
			p := ir.Ent(pick(t, EntityTypes, "ptype"), pick(t, EntityIDs, "pid"))
			if uid.T == ActionType {
				p = ir.Ent(ActionType, pick(t, ActionIDs, "paid"))
			}
			dup := false
			for _, q := range e.Parents {
				if ir.Equal(p, q) {
					dup = true
				}
			}
			if !dup {
				e.Parents = append(e.Parents, p)
			}
		}
		e.Attrs = RecordVal(t, 2, o).Fields
		if chance(t, 50, "hastags") {
			e.Tags = RecordVal(t, 1, o).Fields
		}
		w.Store = append(w.Store, e)
	}
	// Now and then a deeper hierarchy over the same universe (two-parent entities whose parents have parents, a dangling
	// parent, a cycle): a -> {b, x}, b -> {c, ghost}, x -> {c, y}, c -> {d}, y -> {d, a}. Reachability questions that need more
	// than one step, a work list with several pending ancestors or a dead end only arise on such stores.
	if maxEnt >= 4 && chance(t, 25, "deepstore") {
		a, b, c, d := ir.Ent("T1", "a"), ir.Ent("T1", "b"), ir.Ent("T1", "c"), ir.Ent("T1", "d")
		x, y, ghost := ir.Ent("NS::T2", "a"), ir.Ent("NS::T2", "b"), ir.Ent("NS::T2", "zz")
		link := func(child ir.Value, parents ...ir.Value) {
			for i := range w.Store {
				if ir.Equal(w.Store[i].UID, child) {
					for _, p := range parents {
						dup := false
						for _, q := range w.Store[i].Parents {
							dup = dup || ir.Equal(p, q)
						}
						if !dup {
							w.Store[i].Parents = append(w.Store[i].Parents, p)
						}
					}
					return
				}
			}
			w.Store = append(w.Store, ir.Entity{UID: child, Parents: parents})
		}
		link(a, b, x)
		link(b, c, ghost)
		link(x, c, y)
		link(c, d)
		if chance(t, 50, "deepcycle") {
			link(y, d, a)
		} else {
			link(y, d)
		}
		link(d)
		// hang one of the generated entities below the top of the structure, so that requests reach it
		if len(w.Store) > 0 && chance(t, 70, "deephang") {
			i := rapid.IntRange(0, len(w.Store)-1).Draw(t, "deephangidx")
			if w.Store[i].UID.T != ActionType {
				link(w.Store[i].UID, a)
			}
		}
	}
	w.Req = GenRequest(t, &w, o)
	return w
}

func GenRequest(t *rapid.T, w *World, o ValOpts) ir.Request {
	pickEnt := func(label string) ir.Value {
		if len(w.Store) > 0 && chance(t, 75, label+"instore") {
			return w.Store[rapid.IntRange(0, len(w.Store)-1).Draw(t, label+"idx")].UID
		}
		return ir.Ent(pick(t, EntityTypes, label+"t"), pick(t, EntityIDs, label+"i"))
	}
	r := ir.Request{Principal: pickEnt("p"), Resource: pickEnt("r")}
	r.Action = ir.Ent(ActionType, pick(t, ActionIDs, "reqaid"))
	r.Context = RecordVal(t, 2, o)
	// strings that are valid arguments of the extension constructors, so that `datetime(context.dts)` and friends
	// (constructors applied to request-dependent operands, which are never constant-folded) evaluate to values
	if !o.NoExt && chance(t, 40, "ctxscalartext") {
		add := func(k string, v ir.Value) {
			if _, dup := r.Context.Get(k); !dup {
				r.Context.Fields = append(r.Context.Fields, ir.F(k, v))
			}
		}
		add("dts", ir.Str(ref.FormatDatetime(DatetimeVal(t))))
		add("durs", ir.Str(ref.FormatDuration(TimeVal(t))))
		add("decs", ir.Str(ref.FormatDecimal(DecimalVal(t))))
		ip := IPVal(t, false)
		add("ips", ir.Str(ref.FormatIP(ip.IP.Addr, ip.IP.Prefix)))
	}
	return r
}
