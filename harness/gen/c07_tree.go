package gen

// Generators shared by the codec properties C07, C08 and C09: untyped expression trees over *all* node kinds with
// hostile attribute names / strings, the exhaustive (parent slot, child shape) enumeration, and policies with every
// scope form and hostile annotations.

import (
	"math"

	"pgregory.net/rapid"

	"verif/ir"
)

// TreeOpts steers GenTree.
type TreeOpts struct {
	// ParserNormal restricts the trees to those the Cedar text parser itself produces: literal nodes hold only
	// bool / long / string / entity values (sets, records and extension values are written with set / record nodes and
	// constructor calls).
	ParserNormal bool
	Keys         []string // attribute names / record keys
	NoUFFFD      bool     // never place U+FFFD in any string (used while a finding about it is open)
	NoMappedIP   bool
}

// KeysMixed is the hostile key pool plus the small pool (so that accesses on generated worlds still hit).
var KeysMixed = append(append([]string{}, KeysSmall...), KeysHostile...)

var CtorFuncs = []string{"decimal", "ip", "datetime", "duration"}
var Methods1 = []string{"isIpv4", "isIpv6", "isLoopback", "isMulticast", "toDate", "toTime", "toMilliseconds", "toSeconds", "toMinutes", "toHours", "toDays"}
var Methods2 = []string{"lessThan", "lessThanOrEqual", "greaterThan", "greaterThanOrEqual", "isInRange", "offset", "durationSince"}

// AllExtFuncs lists the 22 extension functions.
var AllExtFuncs = append(append(append([]string{}, CtorFuncs...), Methods1...), Methods2...)

func stripFFFD(s string) string {
	out := make([]rune, 0, len(s))
	for _, r := range s {
		if r != 0xfffd {
			out = append(out, r)
		}
	}
	return string(out)
}

// HostileString draws a string from the pools and the whole Unicode range.
func HostileString(t *rapid.T, o TreeOpts) string {
	var s string
	switch rapid.IntRange(0, 5).Draw(t, "hsrc") {
	case 0, 1:
		s = pick(t, KeysHostile, "hkey")
	case 2:
		s = StringVal(t)
	case 3:
		s = pick(t, EntityIDs, "hid")
	default:
		s = UnicodeString(t, 0, 6)
	}
	if o.NoUFFFD {
		s = stripFFFD(s)
	}
	return s
}

func (o TreeOpts) key(t *rapid.T) string {
	k := pick(t, o.Keys, "tkey")
	if o.NoUFFFD {
		k = stripFFFD(k)
	}
	return k
}

// FunctionLikeTypes: entity type names whose first component is the name of an extension function or method (legal: only
// `Name(` is a call, `Name::` starts a path).
var FunctionLikeTypes = []string{"ip", "decimal", "datetime::X", "duration::Kind::Sub", "contains", "isIpv4::T", "lessThan", "toDate"}

// HostileEntity draws an entity uid whose id may be any string.
func HostileEntity(t *rapid.T, o TreeOpts) ir.Value {
	if chance(t, 70, "plainent") {
		return EntityVal(t)
	}
	return ir.Ent(pick(t, append(append([]string{ActionType, "A::B::C", "_x::y1"}, EntityTypes...), FunctionLikeTypes...), "hetype"), HostileString(t, o))
}

// HostilePattern draws a like pattern over hostile literals (may be empty, may contain empty literals and
// adjacent wildcards).
func HostilePattern(t *rapid.T, o TreeOpts) []ir.PatElem {
	n := rapid.IntRange(0, 4).Draw(t, "hnpat")
	var p []ir.PatElem
	for i := 0; i < n; i++ {
		if chance(t, 45, "hwild") {
			p = append(p, ir.PatElem{Wild: true})
		} else {
			p = append(p, ir.PatElem{Lit: HostileString(t, o)})
		}
	}
	return p
}

func treeLeaf(t *rapid.T, o TreeOpts) *ir.Expr {
	switch rapid.IntRange(0, 9).Draw(t, "leaf") {
	case 0, 1:
		return ir.Var(pick(t, []string{"principal", "action", "resource", "context"}, "lvar"))
	case 2:
		return ir.Lit(ir.Bool(rapid.Bool().Draw(t, "lbool")))
	case 3, 4:
		return ir.Lit(ir.Long(LongVal(t)))
	case 5, 6:
		return ir.Lit(ir.Str(HostileString(t, o)))
	case 7:
		return ir.Lit(HostileEntity(t, o))
	default:
		// composite / extension-typed literal
		vo := ValOpts{Keys: o.Keys, MappedIP: !o.NoMappedIP}
		v := Value(t, 2, vo)
		if o.NoUFFFD {
			v = mapStrings(v, stripFFFD)
		}
		if o.ParserNormal {
			return LiteralExpr(v, true)
		}
		if chance(t, 30, "litasexpr2") {
			return LiteralExpr(v, chance(t, 50, "extascall2"))
		}
		return ir.Lit(v)
	}
}

func mapStrings(v ir.Value, f func(string) string) ir.Value {
	switch v.K {
	case ir.KString, ir.KEntity:
		v.S = f(v.S)
	case ir.KSet:
		out := ir.Value{K: ir.KSet}
		for _, e := range v.Elems {
			x := mapStrings(e, f)
			if !out.Contains(x) {
				out.Elems = append(out.Elems, x)
			}
		}
		return out
	case ir.KRecord:
		out := ir.Value{K: ir.KRecord}
		for _, fl := range v.Fields {
			k := f(fl.K)
			if _, dup := out.Get(k); dup {
				continue
			}
			out.Fields = append(out.Fields, ir.F(k, mapStrings(fl.V, f)))
		}
		return out
	}
	return v
}

var treeBinOps = []ir.Op{ir.OpAnd, ir.OpOr, ir.OpEq, ir.OpNe, ir.OpLt, ir.OpLe, ir.OpGt, ir.OpGe, ir.OpAdd, ir.OpSub, ir.OpMul, ir.OpIn,
	ir.OpHasTag, ir.OpGetTag, ir.OpContains, ir.OpContainsAll, ir.OpContainsAny}

// TypeNames are entity type paths used by is / is-in.
var TypeNames = []string{"T0", "T1", "NS::T2", "Action", "A::B::C", "_x::y1"}

// GenTree draws an untyped expression tree: any operator over any operands, every node kind reachable.
func GenTree(t *rapid.T, depth int, o TreeOpts) *ir.Expr {
	if depth <= 0 || chance(t, 12, "earlyleaf") {
		return treeLeaf(t, o)
	}
	d := depth - 1
	sub := func() *ir.Expr { return GenTree(t, d, o) }
	switch rapid.IntRange(0, 17).Draw(t, "tprod") {
	case 0, 1, 2, 3, 4:
		return ir.Bin(pick(t, treeBinOps, "tbin"), sub(), sub())
	case 5:
		return ir.Un(ir.OpNot, sub())
	case 6:
		return ir.Un(ir.OpNeg, sub())
	case 7:
		return ir.If(sub(), sub(), sub())
	case 8:
		return ir.Is(sub(), pick(t, TypeNames, "tis"))
	case 9:
		return ir.IsIn(sub(), pick(t, TypeNames, "tisin"), sub())
	case 10:
		if chance(t, 30, "haschain") {
			// the expansion of `x has a.b(.c)`
			base := sub()
			names := []string{pick(t, []string{"a", "b", "k", "x", "_y", "principal"}, "hc1"), pick(t, []string{"a", "b", "k", "x", "Z9"}, "hc2")}
			if chance(t, 40, "hc3") {
				names = append(names, pick(t, []string{"a", "c"}, "hc3n"))
			}
			var res *ir.Expr
			cur := base
			for _, n := range names {
				h := ir.Has(cur.Clone(), n)
				if res == nil {
					res = h
				} else {
					res = ir.Bin(ir.OpAnd, res, h)
				}
				cur = ir.Access(cur, n)
			}
			return res
		}
		return ir.Has(sub(), o.key(t))
	case 11, 12:
		return ir.Access(sub(), o.key(t))
	case 13:
		return ir.Like(sub(), HostilePattern(t, o))
	case 14:
		return ir.Un(ir.OpIsEmpty, sub())
	case 15:
		n := rapid.IntRange(0, 3).Draw(t, "tnset")
		es := make([]*ir.Expr, n)
		for i := range es {
			es[i] = sub()
		}
		return ir.SetE(es...)
	case 16:
		n := rapid.IntRange(0, 3).Draw(t, "tnrec")
		var keys []string
		var es []*ir.Expr
		for i := 0; i < n; i++ {
			k := o.key(t)
			dup := false
			for _, x := range keys {
				dup = dup || x == k
			}
			if dup {
				continue
			}
			keys = append(keys, k)
			es = append(es, sub())
		}
		return ir.RecE(keys, es)
	default:
		switch rapid.IntRange(0, 3).Draw(t, "textkind") {
		case 0:
			n := rapid.IntRange(0, 2).Draw(t, "tctorargs")
			if chance(t, 80, "ctor1") {
				n = 1
			}
			args := make([]*ir.Expr, n)
			for i := range args {
				args[i] = sub()
			}
			return ir.Ext(pick(t, CtorFuncs, "tctor"), args...)
		case 1:
			args := []*ir.Expr{sub()}
			if chance(t, 10, "m1extra") {
				args = append(args, sub())
			}
			return ir.Ext(pick(t, Methods1, "tm1"), args...)
		default:
			args := []*ir.Expr{sub(), sub()}
			if chance(t, 10, "m2short") {
				args = args[:1]
			}
			return ir.Ext(pick(t, Methods2, "tm2"), args...)
		}
	}
}

// ---------------------------------------------------------------------------------------------
// Exhaustive (parent slot, child shape) enumeration

type Shape struct {
	Name string
	// Normal: the text parser can produce this node (shape is usable for C07).
	Normal bool
	Build  func() *ir.Expr
}

type Slot struct {
	Name  string // "<parent>/<position>"
	Build func(child *ir.Expr) *ir.Expr
}

func atomA() *ir.Expr { return ir.Var("principal") }
func atomB() *ir.Expr { return ir.Lit(ir.Long(1)) }
func atomC() *ir.Expr { return ir.Var("context") }
func atomS() *ir.Expr { return ir.Lit(ir.Str("s")) }

// Shapes returns one representative tree (atom leaves) per expression node kind and literal form.
func Shapes() []Shape {
	n := func(name string, f func() *ir.Expr) Shape { return Shape{Name: name, Normal: true, Build: f} }
	x := func(name string, f func() *ir.Expr) Shape { return Shape{Name: name, Normal: false, Build: f} }
	out := []Shape{
		n("lit-true", func() *ir.Expr { return ir.Lit(ir.Bool(true)) }),
		n("lit-long-pos", func() *ir.Expr { return ir.Lit(ir.Long(7)) }),
		n("lit-long-neg", func() *ir.Expr { return ir.Lit(ir.Long(-7)) }),
		n("lit-long-min", func() *ir.Expr { return ir.Lit(ir.Long(math.MinInt64)) }),
		n("lit-string", atomS),
		n("lit-entity", func() *ir.Expr { return ir.Lit(ir.Ent("NS::T2", "a")) }),
		n("var", atomA),
		n("neg", func() *ir.Expr { return ir.Un(ir.OpNeg, atomA()) }),
		n("neg-poslit", func() *ir.Expr { return ir.Un(ir.OpNeg, ir.Lit(ir.Long(7))) }),
		n("neg-neglit", func() *ir.Expr { return ir.Un(ir.OpNeg, ir.Lit(ir.Long(-7))) }),
		n("not", func() *ir.Expr { return ir.Un(ir.OpNot, atomA()) }),
		n("if", func() *ir.Expr { return ir.If(atomA(), atomB(), atomC()) }),
		n("is", func() *ir.Expr { return ir.Is(atomA(), "NS::T2") }),
		n("isin", func() *ir.Expr { return ir.IsIn(atomA(), "T0", atomC()) }),
		n("has-ident", func() *ir.Expr { return ir.Has(atomC(), "k") }),
		n("has-string", func() *ir.Expr { return ir.Has(atomC(), "a b") }),
		n("has-keyword", func() *ir.Expr { return ir.Has(atomC(), "if") }),
		n("has-chain", func() *ir.Expr {
			return ir.Bin(ir.OpAnd, ir.Has(atomC(), "a"), ir.Has(ir.Access(atomC(), "a"), "b"))
		}),
		n("access-ident", func() *ir.Expr { return ir.Access(atomC(), "k") }),
		n("access-string", func() *ir.Expr { return ir.Access(atomC(), "a\"b") }),
		n("access-keyword", func() *ir.Expr { return ir.Access(atomC(), "in") }),
		n("like", func() *ir.Expr { return ir.Like(atomS(), []ir.PatElem{{Lit: "a*"}, {Wild: true}}) }),
		n("isEmpty", func() *ir.Expr { return ir.Un(ir.OpIsEmpty, atomC()) }),
		n("set-empty", func() *ir.Expr { return ir.SetE() }),
		n("set", func() *ir.Expr { return ir.SetE(atomA(), atomB()) }),
		n("record-empty", func() *ir.Expr { return ir.RecE(nil, nil) }),
		n("record", func() *ir.Expr { return ir.RecE([]string{"k", "if"}, []*ir.Expr{atomA(), atomB()}) }),
		n("ext-ctor", func() *ir.Expr { return ir.Ext("decimal", ir.Lit(ir.Str("1.5"))) }),
		n("ext-ctor0", func() *ir.Expr { return ir.Ext("ip") }),
		n("ext-method1", func() *ir.Expr { return ir.Ext("isIpv4", atomC()) }),
		n("ext-method2", func() *ir.Expr { return ir.Ext("lessThan", atomC(), atomB()) }),
		// not producible by the parser: literal nodes holding composite / extension values
		x("val-set", func() *ir.Expr { return ir.Lit(ir.Set(ir.Long(1), ir.Str("x"))) }),
		x("val-record", func() *ir.Expr { return ir.Lit(ir.Rec(ir.F("k", ir.Long(1)), ir.F("a b", ir.Str("x")))) }),
		x("val-decimal", func() *ir.Expr { return ir.Lit(ir.Decimal(-15000)) }),
		x("val-ip", func() *ir.Expr { return ir.Lit(ir.IP([]byte{10, 0, 0, 1}, 24)) }),
		x("val-datetime", func() *ir.Expr { return ir.Lit(ir.Datetime(-1)) }),
		x("val-duration", func() *ir.Expr { return ir.Lit(ir.Duration(-90061001)) }),
	}
	for _, op := range treeBinOps {
		op := op
		out = append(out, n("bin:"+string(op), func() *ir.Expr { return ir.Bin(op, atomA(), atomB()) }))
	}
	return out
}

// Slots returns every (parent node kind, operand position).
func Slots() []Slot {
	var out []Slot
	add := func(name string, f func(*ir.Expr) *ir.Expr) { out = append(out, Slot{name, f}) }
	for _, op := range treeBinOps {
		op := op
		add(string(op)+"/left", func(c *ir.Expr) *ir.Expr { return ir.Bin(op, c, atomB()) })
		add(string(op)+"/right", func(c *ir.Expr) *ir.Expr { return ir.Bin(op, atomA(), c) })
	}
	add("!/arg", func(c *ir.Expr) *ir.Expr { return ir.Un(ir.OpNot, c) })
	add("neg/arg", func(c *ir.Expr) *ir.Expr { return ir.Un(ir.OpNeg, c) })
	add("isEmpty/arg", func(c *ir.Expr) *ir.Expr { return ir.Un(ir.OpIsEmpty, c) })
	add("if/cond", func(c *ir.Expr) *ir.Expr { return ir.If(c, atomB(), atomC()) })
	add("if/then", func(c *ir.Expr) *ir.Expr { return ir.If(atomA(), c, atomC()) })
	add("if/else", func(c *ir.Expr) *ir.Expr { return ir.If(atomA(), atomB(), c) })
	add("is/left", func(c *ir.Expr) *ir.Expr { return ir.Is(c, "T0") })
	add("isin/left", func(c *ir.Expr) *ir.Expr { return ir.IsIn(c, "NS::T2", atomC()) })
	add("isin/right", func(c *ir.Expr) *ir.Expr { return ir.IsIn(atomA(), "NS::T2", c) })
	add("has/left", func(c *ir.Expr) *ir.Expr { return ir.Has(c, "k") })
	add("has-string/left", func(c *ir.Expr) *ir.Expr { return ir.Has(c, "") })
	add("access/left", func(c *ir.Expr) *ir.Expr { return ir.Access(c, "k") })
	add("access-string/left", func(c *ir.Expr) *ir.Expr { return ir.Access(c, "then") })
	add("like/left", func(c *ir.Expr) *ir.Expr { return ir.Like(c, []ir.PatElem{{Wild: true}, {Lit: "x"}}) })
	add("set/first", func(c *ir.Expr) *ir.Expr { return ir.SetE(c, atomB()) })
	add("set/last", func(c *ir.Expr) *ir.Expr { return ir.SetE(atomA(), c) })
	add("record/value", func(c *ir.Expr) *ir.Expr { return ir.RecE([]string{"a", "b"}, []*ir.Expr{c, atomB()}) })
	add("ext-ctor/arg", func(c *ir.Expr) *ir.Expr { return ir.Ext("datetime", c) })
	add("ext-ctor/arg2", func(c *ir.Expr) *ir.Expr { return ir.Ext("duration", atomS(), c) })
	add("ext-method1/recv", func(c *ir.Expr) *ir.Expr { return ir.Ext("toDate", c) })
	add("ext-method2/recv", func(c *ir.Expr) *ir.Expr { return ir.Ext("isInRange", c, atomB()) })
	add("ext-method2/arg", func(c *ir.Expr) *ir.Expr { return ir.Ext("offset", atomA(), c) })
	return out
}

// ---------------------------------------------------------------------------------------------
// Policies

var AnnotationKeys = []string{"id", "a", "_x1", "Z", "if", "in", "permit", "when", "true", "__cedar", "principal", "has", "like", "is", "then", "else", "false"}

// HostileScope draws every scope form; entity ids may be hostile strings.
func HostileScope(t *rapid.T, part string, o TreeOpts) ir.Scope {
	ent := func() ir.Value {
		if part == "action" && chance(t, 70, "plainact") {
			return ir.Ent(ActionType, pick(t, ActionIDs, "hsaction"))
		}
		return HostileEntity(t, o)
	}
	switch rapid.IntRange(0, 6).Draw(t, "hscopekind") {
	case 0:
		return ir.ScopeAll()
	case 1, 2:
		return ir.ScopeEq(ent())
	case 3:
		return ir.ScopeIn(ent())
	case 4:
		if part == "action" {
			n := rapid.IntRange(0, 3).Draw(t, "hnacts")
			es := make([]ir.Value, n)
			for i := range es {
				es[i] = ent()
			}
			return ir.ScopeInSet(es)
		}
		return ir.ScopeIs(pick(t, TypeNames, "hstype"))
	default:
		if part == "action" {
			return ir.ScopeIn(ent())
		}
		return ir.ScopeIsIn(pick(t, TypeNames, "hsitype"), ent())
	}
}

// HostileAnnotations draws 0..3 annotations with distinct keys (identifiers and reserved words) and hostile values.
func HostileAnnotations(t *rapid.T, o TreeOpts) []ir.Annotation {
	n := rapid.IntRange(0, 3).Draw(t, "hnannot")
	var out []ir.Annotation
	for i := 0; i < n; i++ {
		k := pick(t, AnnotationKeys, "hannk")
		dup := false
		for _, a := range out {
			dup = dup || a.K == k
		}
		if !dup {
			out = append(out, ir.Annotation{K: k, V: HostileString(t, o)})
		}
	}
	return out
}

// HostilePolicy draws a policy with hostile annotations, every scope form and the given condition bodies generator.
func HostilePolicy(t *rapid.T, o TreeOpts, maxConds int, body func() *ir.Expr) *ir.Policy {
	p := ir.NewPolicy(chance(t, 60, "hpermit"))
	p.Annotations = HostileAnnotations(t, o)
	if chance(t, 70, "hscoped") {
		p.Principal = HostileScope(t, "principal", o)
		p.Action = HostileScope(t, "action", o)
		p.Resource = HostileScope(t, "resource", o)
	}
	n := rapid.IntRange(0, maxConds).Draw(t, "hnconds")
	for i := 0; i < n; i++ {
		p.Conds = append(p.Conds, ir.Cond{When: chance(t, 60, "hwhen"), Body: body()})
	}
	return p
}
