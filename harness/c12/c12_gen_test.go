package c12

import (
	"fmt"
	"math"
	"math/big"
	"strings"
	"testing"

	"pgregory.net/rapid"

	"verif/ev"
	"verif/gen"
	"verif/ir"
	"verif/ref"
)

// ---------------------------------------------------------------------------------------------
// text generators (valid spellings, structured invalid ones, one-edit mutants)

const mutAlphabet = "0123456789.-+:/TZdhms eE_xaf%١\n"

func mutate(rt *rapid.T, s string) string {
	rs := []rune(s)
	alpha := []rune(mutAlphabet)
	switch rapid.IntRange(0, 4).Draw(rt, "edit") {
	case 0: // insert
		i := rapid.IntRange(0, len(rs)).Draw(rt, "pos")
		c := alpha[rapid.IntRange(0, len(alpha)-1).Draw(rt, "ch")]
		return string(rs[:i]) + string(c) + string(rs[i:])
	case 1: // delete
		if len(rs) == 0 {
			return s
		}
		i := rapid.IntRange(0, len(rs)-1).Draw(rt, "pos")
		return string(rs[:i]) + string(rs[i+1:])
	case 2: // replace
		if len(rs) == 0 {
			return s
		}
		i := rapid.IntRange(0, len(rs)-1).Draw(rt, "pos")
		c := alpha[rapid.IntRange(0, len(alpha)-1).Draw(rt, "ch")]
		return string(rs[:i]) + string(c) + string(rs[i+1:])
	case 3: // swap neighbours
		if len(rs) < 2 {
			return s
		}
		i := rapid.IntRange(0, len(rs)-2).Draw(rt, "pos")
		rs[i], rs[i+1] = rs[i+1], rs[i]
		return string(rs)
	default: // digit +-1 somewhere (value edits near boundaries)
		var idx []int
		for i, r := range rs {
			if r >= '0' && r <= '9' {
				idx = append(idx, i)
			}
		}
		if len(idx) == 0 {
			return s
		}
		i := idx[rapid.IntRange(0, len(idx)-1).Draw(rt, "dpos")]
		if rs[i] == '9' {
			rs[i] = '0'
		} else {
			rs[i]++
		}
		return string(rs)
	}
}

func digitsOf(rt *rapid.T, label string, maxLen int) string {
	n := rapid.IntRange(1, maxLen).Draw(rt, label+"len")
	var b strings.Builder
	for i := 0; i < n; i++ {
		b.WriteByte(byte('0' + rapid.IntRange(0, 9).Draw(rt, label)))
	}
	return b.String()
}

func genDecimalText(rt *rapid.T) string {
	switch rapid.IntRange(0, 5).Draw(rt, "decform") {
	case 0: // printed form of a value, possibly re-spelled with fewer/more fraction digits and leading zeros
		v := gen.DecimalVal(rt)
		s := ref.FormatDecimal(v)
		if gen.Chance(rt, 40, "pad") {
			dot := strings.IndexByte(s, '.')
			for len(s)-dot-1 < rapid.IntRange(1, 4).Draw(rt, "fraclen") {
				s += "0"
			}
		}
		if gen.Chance(rt, 30, "lead") {
			z := strings.Repeat("0", rapid.IntRange(1, 22).Draw(rt, "zeros"))
			if strings.HasPrefix(s, "-") {
				s = "-" + z + s[1:]
			} else {
				s = z + s
			}
		}
		return s
	case 1: // around the range ends
		ip := gen.Pick(rt, []string{"922337203685477", "922337203685478", "922337203685476", "9223372036854775", "92233720368547", "0", "1"}, "intpart")
		fp := gen.Pick(rt, []string{"5807", "5808", "5809", "58", "580", "5", "6", "0", "9999", "0000", "581"}, "fracpart")
		sign := gen.Pick(rt, []string{"", "-"}, "sign")
		return sign + ip + "." + fp
	case 2: // free digits
		return gen.Pick(rt, []string{"", "-"}, "sign") + digitsOf(rt, "ip", 17) + "." + digitsOf(rt, "fp", 5)
	default:
		return mutate(rt, gen.Pick(rt, []string{"", "-"}, "sign")+digitsOf(rt, "ip", 6)+"."+digitsOf(rt, "fp", 4))
	}
}

func pad(n int64, w int) string {
	s := big.NewInt(n).String()
	for len(s) < w {
		s = "0" + s
	}
	return s
}

type dtFields struct {
	y                       int64
	mo, d, h, mi, s, ms     int64
	form                    int // 0 date, 1 Z, 2 .SSSZ, 3 offset, 4 .SSS offset
	offSign                 byte
	offH, offM              int64
	expanded                bool
}

func (f dtFields) text() string {
	var ys string
	switch {
	case f.expanded && f.y < 0:
		ys = "-" + pad(-f.y, 9)
	case f.expanded:
		ys = "+" + pad(f.y, 9)
	default:
		ys = pad(f.y, 4)
	}
	s := ys + "-" + pad(f.mo, 2) + "-" + pad(f.d, 2)
	if f.form == 0 {
		return s
	}
	s += "T" + pad(f.h, 2) + ":" + pad(f.mi, 2) + ":" + pad(f.s, 2)
	if f.form == 2 || f.form == 4 {
		s += "." + pad(f.ms, 3)
	}
	if f.form <= 2 {
		return s + "Z"
	}
	return s + string(f.offSign) + pad(f.offH, 2) + pad(f.offM, 2)
}

func genDatetimeText(rt *rapid.T) string {
	var f dtFields
	switch rapid.IntRange(0, 5).Draw(rt, "ysrc") {
	case 0, 1:
		f.y = int64(rapid.IntRange(0, 9999).Draw(rt, "y4"))
		f.expanded = gen.Chance(rt, 15, "exp4")
	case 2:
		f.y = gen.Pick(rt, []int64{0, 1, 4, 100, 400, 1600, 1900, 1969, 1970, 1972, 2000, 2024, 2100, 9999}, "ypick")
	case 3:
		f.expanded = true
		f.y = gen.Pick(rt, []int64{-292275055, -292275054, -292275056, 292278994, 292278993, 292278995, -1, -4, -100, -400, 10000, 999999999, -999999999, 1, 0}, "yexp")
	default:
		f.expanded = true
		f.y = rapid.Int64Range(-300000000, 300000000).Draw(rt, "ywide")
	}
	if f.expanded && f.y == 0 && gen.Chance(rt, 50, "nonneg0") {
		f.y = 1
	}
	f.mo = int64(rapid.IntRange(1, 12).Draw(rt, "mo"))
	if gen.Chance(rt, 4, "badmo") {
		f.mo = gen.Pick(rt, []int64{0, 13, 99}, "badmov")
	}
	switch rapid.IntRange(0, 9).Draw(rt, "dsrc") {
	case 0, 1:
		f.d = gen.Pick(rt, []int64{28, 29, 30, 31, 1}, "dedge")
	case 2:
		f.d = gen.Pick(rt, []int64{0, 32, 31, 30, 29}, "dbad")
		if gen.Chance(rt, 50, "feb") {
			f.mo = 2
		}
	default:
		f.d = int64(rapid.IntRange(1, 28).Draw(rt, "d"))
	}
	if f.expanded && (f.y == -292275055 || f.y == 292278994) && gen.Chance(rt, 70, "edge") {
		if f.y < 0 {
			f.mo, f.d = 5, gen.Pick(rt, []int64{15, 16, 17, 18}, "edged")
		} else {
			f.mo, f.d = 8, gen.Pick(rt, []int64{16, 17, 18}, "edged")
		}
	}
	f.form = rapid.IntRange(0, 4).Draw(rt, "form")
	f.h = int64(rapid.IntRange(0, 23).Draw(rt, "h"))
	f.mi = int64(rapid.IntRange(0, 59).Draw(rt, "mi"))
	f.s = int64(rapid.IntRange(0, 59).Draw(rt, "s"))
	f.ms = int64(rapid.IntRange(0, 999).Draw(rt, "ms"))
	if gen.Chance(rt, 25, "timeedge") {
		f.h, f.mi, f.s, f.ms = gen.Pick(rt, []int64{0, 23, 16, 7}, "he"), gen.Pick(rt, []int64{0, 59, 47, 12}, "mie"), gen.Pick(rt, []int64{0, 59, 4, 55}, "se"), gen.Pick(rt, []int64{0, 999, 192, 191, 807, 808}, "mse")
		if gen.Chance(rt, 15, "badtime") {
			switch rapid.IntRange(0, 2).Draw(rt, "which") {
			case 0:
				f.h = 24
			case 1:
				f.mi = 60
			default:
				f.s = 60
			}
		}
	}
	f.offSign = gen.Pick(rt, []byte{'+', '-'}, "offsign")
	f.offH = int64(rapid.IntRange(0, 23).Draw(rt, "offh"))
	f.offM = gen.Pick(rt, []int64{0, 1, 30, 59, 45}, "offm")
	if gen.Chance(rt, 4, "badoff") {
		f.offH, f.offM = gen.Pick(rt, []int64{24, 99, 23}, "boh"), gen.Pick(rt, []int64{60, 99, 59}, "bom")
	}
	s := f.text()
	if gen.Chance(rt, 20, "mut") {
		s = mutate(rt, s)
	}
	return s
}

func genDurationText(rt *rapid.T) string {
	units := []string{"d", "h", "m", "s", "ms"}
	factor := []int64{86400000, 3600000, 60000, 1000, 1}
	var b strings.Builder
	if gen.Chance(rt, 40, "neg") {
		b.WriteByte('-')
	}
	switch rapid.IntRange(0, 4).Draw(rt, "durform") {
	case 0: // canonical print of a value
		return ref.FormatDuration(gen.TimeVal(rt))
	case 1: // ordered subset with free numbers, sometimes near the overflow edge of a component
		for i, u := range units {
			if !gen.Chance(rt, 50, "use"+u) {
				continue
			}
			switch rapid.IntRange(0, 3).Draw(rt, "numsrc") {
			case 0:
				lim := math.MaxInt64 / factor[i]
				b.WriteString(big.NewInt(lim + int64(rapid.IntRange(-2, 2).Draw(rt, "edge"))).String())
			case 1:
				b.WriteString(digitsOf(rt, "big", 20))
			default:
				b.WriteString(strings.Repeat("0", rapid.IntRange(0, 3).Draw(rt, "lz")) + big.NewInt(int64(rapid.IntRange(0, 100000).Draw(rt, "small"))).String())
			}
			b.WriteString(u)
		}
		return b.String()
	case 2: // arbitrary unit order / repetition
		n := rapid.IntRange(1, 4).Draw(rt, "ncomp")
		for i := 0; i < n; i++ {
			b.WriteString(digitsOf(rt, "num", 4))
			b.WriteString(gen.Pick(rt, units, "unit"))
		}
		return b.String()
	case 3: // sums at the range ends
		base := gen.Pick(rt, []string{"106751991167d7h12m55s807ms", "106751991167d7h12m55s808ms", "106751991167d7h12m55s809ms", "106751991167d", "106751991168d", "2562047788015h12m55s807ms", "9223372036854775807ms", "9223372036854775808ms", "9223372036854775s807ms", "9223372036854775s808ms", "1d9223372036768375807ms", "1d9223372036768375808ms"}, "edge")
		return b.String() + base
	default:
		return mutate(rt, b.String()+digitsOf(rt, "n1", 3)+gen.Pick(rt, units, "u1")+digitsOf(rt, "n2", 3)+gen.Pick(rt, units, "u2"))
	}
}

func hexGroup(rt *rapid.T) string {
	n := rapid.IntRange(0, 0xffff).Draw(rt, "grp")
	if gen.Chance(rt, 30, "smallgrp") {
		n = rapid.IntRange(0, 2).Draw(rt, "grpsmall")
	}
	s := fmt.Sprintf("%x", n)
	if gen.Chance(rt, 20, "upper") {
		s = strings.ToUpper(s)
	}
	if gen.Chance(rt, 15, "lz") {
		for len(s) < 4 {
			s = "0" + s
		}
	}
	if gen.Chance(rt, 2, "five") {
		s = "0" + s + "0"
	}
	return s
}

func genIPText(rt *rapid.T) string {
	var host string
	bits := 32
	switch rapid.IntRange(0, 6).Draw(rt, "ipform") {
	case 0, 1: // dotted quad
		parts := make([]string, 4)
		for i := range parts {
			hi := 255
			if gen.Chance(rt, 5, "octbig") {
				hi = 300
			}
			parts[i] = big.NewInt(int64(rapid.IntRange(0, hi).Draw(rt, "oct"))).String()
		}
		n := 4
		if gen.Chance(rt, 5, "parts") {
			n = gen.Pick(rt, []int{3, 5}, "nparts")
			parts = append(parts, "1")
		}
		host = strings.Join(parts[:n], ".")
	case 2: // full eight groups
		gs := make([]string, 8)
		for i := range gs {
			gs[i] = hexGroup(rt)
		}
		host, bits = strings.Join(gs, ":"), 128
	case 3, 4: // "::" at any position, l groups before, r groups after
		l := rapid.IntRange(0, 7).Draw(rt, "l")
		r := rapid.IntRange(0, 8-l).Draw(rt, "r") // l+r == 8 is invalid on purpose
		var ls, rs []string
		for i := 0; i < l; i++ {
			ls = append(ls, hexGroup(rt))
		}
		for i := 0; i < r; i++ {
			rs = append(rs, hexGroup(rt))
		}
		host, bits = strings.Join(ls, ":")+"::"+strings.Join(rs, ":"), 128
	case 5: // IPv4-mapped / compatible written in hex, and the dotted forms Cedar rejects
		host, bits = gen.Pick(rt, []string{"::ffff:102:304", "::ffff:7f00:1", "::ffff:1.2.3.4", "::1.2.3.4", "0:0:0:0:0:ffff:102:304", "64:ff9b::102:304", "::ffff:0:0", "fe80::1%eth0", "fe80::1%1", "1.2.3.4%eth0"}, "mapped"), 128
	default:
		host, bits = gen.Pick(rt, []string{"::", "::1", "1::", "0.0.0.0", "255.255.255.255", "127.0.0.1", "ff00::", ":", ":::", "1::2::3", "", "1.2.3.4.", ".1.2.3.4", "1..2.3"}, "fixed"), 128
		if !strings.Contains(host, ":") {
			bits = 32
		}
	}
	s := host
	if gen.Chance(rt, 55, "pfx") {
		p := rapid.IntRange(0, bits).Draw(rt, "pfxlen")
		if gen.Chance(rt, 10, "pfxbig") {
			p = bits + rapid.IntRange(1, 200).Draw(rt, "over")
		}
		s += "/" + big.NewInt(int64(p)).String()
	}
	if gen.Chance(rt, 15, "mut") {
		s = mutate(rt, s)
	}
	return s
}

func genLongText(rt *rapid.T) string {
	switch rapid.IntRange(0, 3).Draw(rt, "longform") {
	case 0:
		return ref.FormatLong(gen.LongVal(rt))
	case 1:
		return gen.Pick(rt, []string{"9223372036854775807", "9223372036854775808", "-9223372036854775808", "-9223372036854775809", "18446744073709551616", "-18446744073709551616", "99999999999999999999", "0", "-0", "00", "007"}, "edge")
	default:
		s := digitsOf(rt, "d", 21)
		if gen.Chance(rt, 40, "neg") {
			s = "-" + s
		}
		return s
	}
}

func textNT(t, text string) bool {
	switch t {
	case "decimal":
		v, ok := ref.ParseDecimal(text)
		return !ok || v < 0 || v > 1<<53 || strings.HasPrefix(strings.TrimPrefix(text, "-"), "0")
	case "datetime":
		v, ok := ref.ParseDatetime(text)
		return !ok || v < 0 || v >= 253402300800000 || len(text) > 10
	case "duration":
		v, ok := ref.ParseDuration(text)
		return !ok || v < 0 || v > 1<<53 || strings.Count(text, "d")+strings.Count(text, "h")+strings.Count(text, "s") > 1
	case "ip":
		_, _, ok, _ := ref.ParseIP(text)
		return !ok || strings.Contains(text, "::") || strings.Contains(text, "/")
	case "long":
		v, ok := ref.ParseLongLiteral(text)
		return !ok || v < 0 || v > 1<<53
	}
	return true
}

func textLabels(t, text string) []string {
	var ok bool
	switch t {
	case "decimal":
		_, ok = ref.ParseDecimal(text)
	case "datetime":
		_, ok = ref.ParseDatetime(text)
	case "duration":
		_, ok = ref.ParseDuration(text)
	case "ip":
		_, _, ok, _ = ref.ParseIP(text)
	case "long":
		_, ok = ref.ParseLongLiteral(text)
	}
	if ok {
		return []string{"text:" + t + ":valid"}
	}
	return []string{"text:" + t + ":invalid"}
}

func TestRandomTexts(t *testing.T) {
	ev.SetChecks(ev.Scale(60000, 4000000))
	ev.Check(t, func(rt *rapid.T) {
		ty := gen.Pick(rt, []string{"decimal", "datetime", "datetime", "duration", "ip", "ip", "long"}, "type")
		var text string
		switch ty {
		case "decimal":
			text = genDecimalText(rt)
		case "datetime":
			text = genDatetimeText(rt)
		case "duration":
			text = genDurationText(rt)
		case "ip":
			text = genIPText(rt)
		case "long":
			text = genLongText(rt)
		}
		c := &Case{Kind: "text", T: ty, Text: text}
		if !run(c, "text-random", textNT(ty, text), textLabels(ty, text), func(string, string) {}) {
			rt.Fatalf("C12/text-random: parser and recogniser disagree")
		}
	})
}

// ---------------------------------------------------------------------------------------------
// value round trips

func scalarNT(v ir.Value) bool {
	switch v.K {
	case ir.KLong, ir.KDecimal, ir.KDatetime, ir.KDuration:
		return v.I < 0 || v.I >= 253402300800000 || v.I == 0
	case ir.KIP:
		return v.IP.V6() || v.IP.Prefix != 32
	case ir.KString, ir.KEntity:
		return needsEscape(v.S)
	}
	return false
}

func needsEscape(s string) bool {
	for _, r := range s {
		if r < 0x20 || r == '"' || r == '\\' || r == '\'' || r >= 0x7f {
			return true
		}
	}
	return false
}

func valueNT(v ir.Value) bool {
	return anyValue(v, func(x ir.Value) bool {
		if scalarNT(x) {
			return true
		}
		for _, f := range x.Fields {
			if needsEscape(f.K) || f.K == "" {
				return true
			}
		}
		return false
	})
}

func genScalar(rt *rapid.T) ir.Value {
	o := gen.ValOpts{Keys: gen.KeysHostile, MappedIP: true}
	k := gen.Pick(rt, []ir.Kind{ir.KLong, ir.KDecimal, ir.KDecimal, ir.KDatetime, ir.KDatetime, ir.KDuration, ir.KDuration, ir.KIP, ir.KIP, ir.KString, ir.KString, ir.KEntity}, "kind")
	switch k {
	case ir.KString:
		if gen.Chance(rt, 50, "uni") {
			return ir.Str(gen.UnicodeString(rt, 0, 5))
		}
	case ir.KEntity:
		id := gen.StringVal(rt)
		switch rapid.IntRange(0, 3).Draw(rt, "idsrc") {
		case 0:
			id = gen.UnicodeString(rt, 0, 4)
		case 1:
			id = gen.Pick(rt, []string{`::"`, `a::"b`, `"::"`, `T::"x"`, `\`, `\"`, `::`, `"`, ``}, "idhostile")
		}
		return ir.Ent(gen.Pick(rt, gen.EntityTypes, "etype"), id)
	}
	return gen.ValueOfKind(rt, k, 0, o)
}

func TestRandomScalars(t *testing.T) {
	ev.SetChecks(ev.Scale(40000, 3000000))
	ev.Check(t, func(rt *rapid.T) {
		v := genScalar(rt)
		if !run(&Case{Kind: "rt", V: &v}, "rt-random", scalarNT(v), []string{"rt:" + string(v.K)}, func(string, string) {}) {
			rt.Fatalf("C12/rt-random: print -> parse does not return the value")
		}
	})
}

func TestRandomValues(t *testing.T) {
	ev.SetChecks(ev.Scale(15000, 1500000))
	ev.Check(t, func(rt *rapid.T) {
		o := gen.ValOpts{Keys: gen.KeysHostile, MappedIP: true}
		if gen.Chance(rt, 30, "smallkeys") {
			o.Keys = gen.KeysSmall
		}
		v := gen.Value(rt, rapid.IntRange(1, 4).Draw(rt, "depth"), o)
		if v.K != ir.KSet && v.K != ir.KRecord {
			v = ir.Set(v, gen.Value(rt, 2, o))
		}
		if !run(&Case{Kind: "value", V: &v}, "value-random", valueNT(v), []string{"value:" + string(v.K)}, func(string, string) {}) {
			rt.Fatalf("C12/value-random: MarshalCedar text does not evaluate to the value")
		}
	})
}

// ---------------------------------------------------------------------------------------------
// constructors

func genNewDecArgs(rt *rapid.T) (int64, int) {
	e := rapid.IntRange(-6, 16).Draw(rt, "exp")
	switch rapid.IntRange(0, 4).Draw(rt, "isrc") {
	case 0:
		return gen.Pick(rt, gen.LongBoundary, "ib"), e
	case 1:
		return int64(rapid.IntRange(-100000, 100000).Draw(rt, "ismall")), e
	case 2, 3:
		// i close to k * 2^64 / 10^e, so that the int64 product wraps around to a small number
		if e < 1 {
			e = rapid.IntRange(1, 14).Draw(rt, "exppos")
		}
		if e > 14 {
			e = 14
		}
		k := int64(rapid.IntRange(1, 40).Draw(rt, "k"))
		q := new(big.Int).Lsh(big.NewInt(k), 64)
		q.Quo(q, pow10[e])
		q.Add(q, big.NewInt(int64(rapid.IntRange(-2, 3).Draw(rt, "delta"))))
		if gen.Chance(rt, 50, "negi") {
			q.Neg(q)
		}
		if q.IsInt64() {
			return q.Int64(), e
		}
		return gen.Pick(rt, gen.LongBoundary, "ib2"), e
	default:
		return rapid.Int64().Draw(rt, "iany"), e
	}
}

func genFloatBits(rt *rapid.T) (uint64, bool) {
	f32 := gen.Chance(rt, 30, "f32")
	var f float64
	switch rapid.IntRange(0, 5).Draw(rt, "fsrc") {
	case 0:
		f = gen.Pick(rt, []float64{0, math.Copysign(0, -1), 1, -1, 0.5, 0.0001, 0.00005, 1e-300, math.SmallestNonzeroFloat64, math.MaxFloat64, -math.MaxFloat64, math.Inf(1), math.Inf(-1), math.NaN(),
			922337203685477.5808, -922337203685477.5808, 922337203685477.5, 922337203685477.6, -922337203685477.7, 922337203685477.4, 9.223372036854776e14, 9.3e14, -9.3e14, 1e15, 1e19, 1e300, 12.3456, -12.3456}, "fpick")
	case 1: // neighbours of the range end
		base := gen.Pick(rt, []float64{922337203685477.5808, -922337203685477.5808}, "fedge")
		n := rapid.IntRange(-4, 4).Draw(rt, "ulps")
		f = base
		for i := 0; i < n; i++ {
			f = math.Nextafter(f, math.Inf(1))
		}
		for i := 0; i > n; i-- {
			f = math.Nextafter(f, math.Inf(-1))
		}
	case 2:
		f = rapid.Float64Range(-1e16, 1e16).Draw(rt, "fmid")
	case 3:
		f = float64(gen.DecimalVal(rt)) / 10000
	case 4:
		return rapid.Uint64().Draw(rt, "fbits"), false
	default:
		f = rapid.Float64().Draw(rt, "fany")
	}
	if f32 {
		return uint64(math.Float32bits(float32(f))), true
	}
	return math.Float64bits(f), false
}

func TestRandomConstructors(t *testing.T) {
	ev.SetChecks(ev.Scale(40000, 3000000))
	ev.Check(t, func(rt *rapid.T) {
		var c *Case
		var labels []string
		switch rapid.IntRange(0, 9).Draw(rt, "ctor") {
		case 0, 1, 2, 3, 4:
			i, e := genNewDecArgs(rt)
			c = &Case{Kind: "newdec", I: i, E: e}
			labels = []string{fmt.Sprintf("newdec:exp%+03d", e)}
		case 5:
			c = &Case{Kind: "fromint", I: gen.LongVal(rt), Width: gen.Pick(rt, []int{8, 16, 32, 64, 64}, "width")}
		case 6, 7, 8:
			b, f32 := genFloatBits(rt)
			c = &Case{Kind: "float", FBits: b, F32: f32}
		default:
			c = &Case{Kind: "gotime", I: gen.TimeVal(rt)}
		}
		if !run(c, "ctor-random", true, labels, func(string, string) {}) {
			rt.Fatalf("C12/ctor-random: constructor result is neither exact nor an error")
		}
	})
}
