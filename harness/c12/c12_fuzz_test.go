package c12

import (
	"testing"

	"verif/ev"
	"verif/gen"
	"verif/ref"
)

// Native fuzz targets on the parsers' negative side (thorough tier; the driver runs `go test -fuzz`). Each target contains the oracle:
// the harness's own recogniser and cedar-go's parser (types.Parse* and the constructor function through the evaluator) must agree on
// accept / reject and on the value. Inputs in the class of an open known finding, or in a documented grey zone, are skipped.
// When run as ordinary tests (seed corpus only) a disagreement is recorded as a violation like any other case.

func fuzzText(f *testing.F, ty string, seeds []string) {
	for _, s := range seeds {
		f.Add(s)
	}
	for _, s := range gen.BadCtorArgs[ty] {
		f.Add(s)
	}
	f.Fuzz(func(t *testing.T, s string) {
		if len(s) > 200 {
			return
		}
		c := &Case{Kind: "text", T: ty, Text: s}
		if knownClass(c) != "" {
			return
		}
		if sub, msg := check(c); sub != "" && sub != "harness" {
			ev.R.Violation("fuzz/"+sub, c, msg)
			t.Fatalf("C12/fuzz/%s: %s", sub, msg)
		}
	})
}

func FuzzDecimalText(f *testing.F) {
	seeds := []string{"0.0", "-0.0", "1.5", "1.0005", "922337203685477.5807", "-922337203685477.5808", "922337203685477.5808", "00001.10", "12345678901234567890.0", "+1.0", "1e2", "1_0.0"}
	for _, v := range gen.DecimalBoundary {
		seeds = append(seeds, ref.FormatDecimal(v))
	}
	fuzzText(f, "decimal", seeds)
}

func FuzzDurationText(f *testing.F) {
	seeds := []string{"0ms", "1d2h3m4s5ms", "-1d2h3m4s5ms", "9223372036854775807ms", "-9223372036854775808ms", "106751991167d7h12m55s807ms", "106751991167d7h12m55s808ms", "9223372036854775s808ms", "1ms1s", "1d1d", "00000000000000000000001d"}
	for _, v := range gen.TimeBoundary {
		seeds = append(seeds, ref.FormatDuration(v))
	}
	fuzzText(f, "duration", seeds)
}

func FuzzDatetimeText(f *testing.F) {
	seeds := []string{"2024-02-29", "2024-02-29T23:59:59Z", "2024-02-29T23:59:59.999Z", "2024-02-29T23:59:59+2359", "2024-02-29T23:59:59.999-0730", "+000002024-01-01", "-000000001-12-31T23:59:59.999-0100",
		"+292278994-08-17T07:12:55.807Z", "+292278994-08-17T07:12:55.808Z", "-292275055-05-17T16:47:04.192Z", "+999999999-12-31", "1900-02-29", "2024-13-01", "2024-01-01T24:00:00Z"}
	for _, v := range gen.TimeBoundary {
		seeds = append(seeds, ref.FormatDatetime(v))
	}
	fuzzText(f, "datetime", seeds)
}

func FuzzIPText(f *testing.F) {
	seeds := []string{"0.0.0.0", "255.255.255.255/32", "127.0.0.1/8", "::", "::1/128", "1::", "1:2:3:4:5:6:7:8", "1:2:3:4:5:6:7::", "::2:3:4:5:6:7:8", "FF00::1/8", "::ffff:102:304", "::ffff:1.2.3.4", "fe80::1%eth0", "1::2::3", "12345::1", "256.1.1.1", "1.2.3.4/33", "::1/129"}
	fuzzText(f, "ip", seeds)
}
