// C12: scalar and extension values have exact, canonical text forms.
//
// Oracles: the harness's own recognisers / printers (ref.ParseDecimal, ParseDatetime with an own proleptic Gregorian calendar,
// ParseDuration, ParseIP, UnquoteCedar, math/big arithmetic) and the round trip print -> parse. Observation points: types.Parse*,
// types.New*, String(), MarshalCedar(), EntityUID.UnmarshalCedar/MarshalBinary/UnmarshalBinary, the policy parser on literals, and the
// decimal()/datetime()/duration()/ip() constructors through x/exp/eval.Eval.
//
// Carve-outs (weaker than the statement): IPv4 octets / prefix lengths with leading zeros, the year "-000000000", lower-case t/z in
// datetimes and raw line breaks (CR, LF, NEL, LS, PS) inside string literals are neither generated nor asserted (the oracle is not sure
// of the specification there); constructors are only required to return "the exact value or an error" (an unexpected error is counted
// under a label, not reported); NewDecimalFromFloat is compared with the exact product within the rounding of one floating-point
// multiplication plus one unit; Duration.Duration()/NewDuration/NewDatetime/Time (Go conversion helpers) only "exact or error".
//
// Sensitivity (quick tier, scratch copy of /repo + harness, one mutant at a time; all caught, replay of a mutant's case fails under the
// mutant and passes on the real tree):
//   - ParseDecimal applies the sign to the integer part only          -> decimal/wrong-value, decimal/reparse, decimal/accepts-invalid, value/cedar-text
//   - ParseDatetime adds the offset instead of subtracting it         -> datetime/wrong-value, datetime/accepts-invalid, datetime/rejects-valid
//   - yearMax 9999 -> 9998                                            -> datetime/rejects-valid, datetime/reparse
//   - duration unit table m <-> ms                                    -> duration/wrong-value, duration/reparse, duration/accepts-invalid
//   - Decimal.String trims four zeros                                 -> decimal/print, decimal/fromint, decimal/wrong-value
//   - IPAddr.String drops a /0 prefix                                 -> ip/reparse, value/cedar-text
package c12

import (
	"encoding/json"
	"fmt"
	"math"
	"math/big"
	"strconv"
	"strings"
	"testing"
	"time"

	"github.com/cedar-policy/cedar-go/types"
	xast "github.com/cedar-policy/cedar-go/x/exp/ast"
	xeval "github.com/cedar-policy/cedar-go/x/exp/eval"

	"verif/conv"
	"verif/ev"
	"verif/gen"
	"verif/ir"
	"verif/ref"
	"verif/render"
)

func TestMain(m *testing.M) { ev.Main(m, "C12") }

type Case struct {
	Kind  string    `json:"kind"`           // rt | text | newdec | fromint | float | value | lit | gotime
	T     string    `json:"t,omitempty"`    // text kind: decimal | datetime | duration | ip | long ; lit kind: string | uid
	V     *ir.Value `json:"v,omitempty"`    // rt / value
	Text  string    `json:"text,omitempty"` // text / lit
	I     int64     `json:"i,omitempty"`
	E     int       `json:"e,omitempty"`
	Width int       `json:"width,omitempty"` // fromint: 8,16,32,64
	FBits uint64    `json:"fbits,omitempty"` // float: IEEE bits (float32 bits when F32)
	F32   bool      `json:"f32,omitempty"`
}

const minDayLimit = math.MinInt64 + 86400000

// ---------------------------------------------------------------------------------------------
// known-finding matchers (each active only while known_findings.jsonl lists it as open)

func walkValue(v ir.Value, f func(ir.Value)) {
	f(v)
	for _, e := range v.Elems {
		walkValue(e, f)
	}
	for _, fl := range v.Fields {
		walkValue(fl.V, f)
	}
}

func anyValue(v ir.Value, p func(ir.Value) bool) bool {
	found := false
	walkValue(v, func(x ir.Value) {
		if p(x) {
			found = true
		}
	})
	return found
}

// goOnlyEscape: strconv.Quote writes this key with an escape that is not Cedar syntax (\a \b \f \v, \u00XX, \UXXXXXXXX).
func goOnlyEscape(k string) bool {
	for _, r := range k {
		if r == '\a' || r == '\b' || r == '\f' || r == '\v' || (r >= 0x80 && !strconv.IsPrint(r)) {
			return true
		}
	}
	return false
}

func hasFFFD(v ir.Value) bool {
	return anyValue(v, func(x ir.Value) bool {
		if (x.K == ir.KString || x.K == ir.KEntity) && strings.ContainsRune(x.S, 0xfffd) {
			return true
		}
		for _, f := range x.Fields {
			if strings.ContainsRune(f.K, 0xfffd) {
				return true
			}
		}
		return false
	})
}

// rejectedOnlyForRawQuote: the literal body is invalid, and becomes valid when its unescaped double quotes are replaced by a letter.
func rejectedOnlyForRawQuote(body string) bool {
	if _, ok, _ := ref.UnquoteCedar(body); ok {
		return false
	}
	var b strings.Builder
	esc := false
	for _, r := range body {
		switch {
		case esc:
			esc = false
			b.WriteRune(r)
		case r == '\\':
			esc = true
			b.WriteRune(r)
		case r == '"':
			b.WriteRune('q')
		default:
			b.WriteRune(r)
		}
	}
	_, ok, _ := ref.UnquoteCedar(b.String())
	return ok
}

func floatOf(c *Case) (f64 float64, f32 float32) {
	if c.F32 {
		f32 = math.Float32frombits(uint32(c.FBits))
		return float64(f32), f32
	}
	return math.Float64frombits(c.FBits), 0
}

// knownClass returns the key of the open known finding whose input class contains c, or "".
func knownClass(c *Case) string {
	switch c.Kind {
	case "rt", "value":
		v := *c.V
		if ev.KnownOpen("C12", "datetime-min-day") && anyValue(v, func(x ir.Value) bool { return x.K == ir.KDatetime && x.I < minDayLimit }) {
			return "datetime-min-day"
		}
		if ev.KnownOpen("C12", "ipv4-mapped-string") && anyValue(v, gen.IsMappedIP) {
			return "ipv4-mapped-string"
		}
		if ev.KnownOpen("C12", "string-ufffd") && hasFFFD(v) {
			return "string-ufffd"
		}
		if ev.KnownOpen("C12", "record-key-quote") && anyValue(v, func(x ir.Value) bool {
			for _, f := range x.Fields {
				if goOnlyEscape(f.K) {
					return true
				}
			}
			return false
		}) {
			return "record-key-quote"
		}
	case "text":
		if c.T == "datetime" && ev.KnownOpen("C12", "datetime-min-day") {
			if ms, ok := ref.ParseDatetime(c.Text); ok && ms < minDayLimit {
				return "datetime-min-day"
			}
		}
	case "lit":
		if ev.KnownOpen("C12", "string-ufffd") && strings.ContainsRune(c.Text, 0xfffd) {
			return "string-ufffd"
		}
		if c.T == "uid" && ev.KnownOpen("C12", "uid-unmarshal-lenient") && rejectedOnlyForRawQuote(c.Text) {
			return "uid-unmarshal-lenient"
		}
	case "gotime":
		if ev.KnownOpen("C12", "duration-go-range") && (c.I > math.MaxInt64/1000000 || c.I < math.MinInt64/1000000) && c.I <= math.MaxInt64/1000 && c.I >= math.MinInt64/1000 {
			return "duration-go-range"
		}
	case "newdec":
		if ev.KnownOpen("C12", "newdecimal-wrap") && c.E >= 1 && c.E <= 14 {
			p := new(big.Int).Mul(big.NewInt(c.I), new(big.Int).Exp(big.NewInt(10), big.NewInt(int64(c.E)), nil))
			if !p.IsInt64() {
				return "newdecimal-wrap"
			}
		}
	case "float":
		if ev.KnownOpen("C12", "fromfloat-edge") {
			f64, f32 := floatOf(c)
			if f64 != f64 {
				return "fromfloat-edge"
			}
			if c.F32 && f32*10000 == 9223372036854775808.0 {
				return "fromfloat-edge"
			}
			if !c.F32 && f64*10000 == 9223372036854775808.0 {
				return "fromfloat-edge"
			}
		}
	}
	return ""
}

// ---------------------------------------------------------------------------------------------
// checks

func check(c *Case) (sub, msg string) {
	defer func() {
		if r := recover(); r != nil {
			sub, msg = c.Kind+"/panic", fmt.Sprintf("panic: %v", r)
		}
	}()
	switch c.Kind {
	case "rt":
		return checkRT(*c.V)
	case "text":
		return checkText(c.T, c.Text)
	case "newdec":
		return checkNewDecimal(c.I, c.E)
	case "fromint":
		return checkFromInt(c.I, c.Width)
	case "float":
		return checkFloat(c)
	case "value":
		return checkValue(*c.V)
	case "lit":
		return checkLit(c.T, c.Text)
	case "gotime":
		return checkGoTime(c.I)
	}
	return "harness", "unknown case kind " + c.Kind
}

func evalCtor(fn, arg string) (types.Value, error) {
	return xeval.Eval(xast.NodeTypeExtensionCall{Name: types.Path(fn), Args: []xast.IsNode{xast.NodeValue{Value: types.String(arg)}}}, conv.EmptyEnv())
}

// decimalRaw reads the ten-thousandths of a Decimal through its printed form and the harness's own parser.
func decimalRaw(d types.Decimal) (int64, bool) { return ref.ParseDecimal(d.String()) }

// checkRT: print -> parse returns the same scalar value; the printed form is in the documented syntax.
func checkRT(v ir.Value) (string, string) {
	x := conv.ToValue(v)
	s := x.String()
	cedarText := string(x.MarshalCedar())
	reparsed := func(kind string, got types.Value, err error) (string, string) {
		if err != nil {
			return kind + "/reparse", fmt.Sprintf("%s prints as %q, which the parser rejects: %v", v.String(), s, err)
		}
		if !got.Equal(x) || !x.Equal(got) {
			return kind + "/reparse", fmt.Sprintf("%s prints as %q, which parses to %v", v.String(), s, got)
		}
		return "", ""
	}
	viaText := func(kind string) (string, string) {
		got, err := conv.ParseValueText(cedarText)
		if err != nil {
			return kind + "/cedar-text", fmt.Sprintf("MarshalCedar of %s is %s, which does not parse/evaluate: %v", v.String(), cedarText, err)
		}
		g, err := conv.FromValue(got)
		if err != nil || !ir.Equal(g, v) || !got.Equal(x) {
			return kind + "/cedar-text", fmt.Sprintf("MarshalCedar of %s is %s, which evaluates to %v", v.String(), cedarText, got)
		}
		return "", ""
	}
	switch v.K {
	case ir.KLong:
		if s != ref.FormatLong(v.I) || cedarText != s {
			return "long/print", fmt.Sprintf("Long(%s) prints as %q / %q", ref.FormatLong(v.I), s, cedarText)
		}
		return viaText("long")
	case ir.KDecimal:
		raw, ok := ref.ParseDecimal(s)
		if !ok || raw != v.I {
			return "decimal/print", fmt.Sprintf("decimal %s/10^4 prints as %q (own reading: %d ok=%v)", ref.FormatLong(v.I), s, raw, ok)
		}
		got, err := types.ParseDecimal(s)
		if sub, msg := reparsed("decimal", got, err); sub != "" {
			return sub, msg
		}
		got2, err := types.ParseDecimal(ref.FormatDecimal(v.I))
		if err != nil || !got2.Equal(x) {
			return "decimal/parse", fmt.Sprintf("ParseDecimal(%q) = %v, %v; expected %s", ref.FormatDecimal(v.I), got2, err, s)
		}
		if cedarText != `decimal("`+s+`")` {
			return "decimal/print", fmt.Sprintf("MarshalCedar %s vs String %q", cedarText, s)
		}
		return viaText("decimal")
	case ir.KDatetime:
		ms, ok := ref.ParseDatetime(s)
		if !ok || ms != v.I {
			return "datetime/print", fmt.Sprintf("datetime %d ms prints as %q (own reading: %d ok=%v)", v.I, s, ms, ok)
		}
		got, err := types.ParseDatetime(s)
		if sub, msg := reparsed("datetime", got, err); sub != "" {
			return sub, msg
		}
		if err == nil && got.Milliseconds() != v.I {
			return "datetime/reparse", fmt.Sprintf("%q parses to %d ms, expected %d", s, got.Milliseconds(), v.I)
		}
		return viaText("datetime")
	case ir.KDuration:
		ms, ok := ref.ParseDuration(s)
		if !ok || ms != v.I {
			return "duration/print", fmt.Sprintf("duration %d ms prints as %q (own reading: %d ok=%v)", v.I, s, ms, ok)
		}
		got, err := types.ParseDuration(s)
		if sub, msg := reparsed("duration", got, err); sub != "" {
			return sub, msg
		}
		if err == nil && got.ToMilliseconds() != v.I {
			return "duration/reparse", fmt.Sprintf("%q parses to %d ms, expected %d", s, got.ToMilliseconds(), v.I)
		}
		return viaText("duration")
	case ir.KIP:
		got, err := types.ParseIPAddr(s)
		if sub, msg := reparsed("ip", got, err); sub != "" {
			return sub, msg
		}
		a, p, ok, _ := ref.ParseIP(s)
		if !ok || p != v.IP.Prefix || string(a) != string(v.IP.Addr) {
			return "ip/print", fmt.Sprintf("%s prints as %q (own reading: %x/%d ok=%v)", v.String(), s, a, p, ok)
		}
		return viaText("ip")
	case ir.KString:
		return checkStringForms(v.S)
	case ir.KEntity:
		return checkUIDForms(v)
	}
	return "harness", "rt case of kind " + string(v.K)
}

func checkStringForms(str string) (string, string) {
	x := types.String(str)
	printed := string(x.MarshalCedar())
	if len(printed) < 2 || printed[0] != '"' || printed[len(printed)-1] != '"' {
		return "string/print", fmt.Sprintf("String(%q).MarshalCedar() = %s", str, printed)
	}
	own, ok, grey := ref.UnquoteCedar(printed[1 : len(printed)-1])
	if !grey && (!ok || own != str) {
		return "string/print", fmt.Sprintf("String(%q).MarshalCedar() = %s is not a Cedar string literal for it (own reading %q ok=%v)", str, printed, own, ok)
	}
	got, err := conv.ParseValueText(printed)
	if err != nil {
		return "string/reparse", fmt.Sprintf("String(%q).MarshalCedar() = %s does not parse as a policy literal: %v", str, printed, err)
	}
	if !got.Equal(x) {
		return "string/reparse", fmt.Sprintf("String(%q).MarshalCedar() = %s parses to %v", str, printed, got)
	}
	return "", ""
}

func checkUIDForms(v ir.Value) (string, string) {
	u := conv.ToEntityUID(v)
	printed := string(u.MarshalCedar())
	if printed != u.String() {
		return "uid/print", fmt.Sprintf("MarshalCedar %s differs from String %s", printed, u.String())
	}
	prefix := v.T + `::"`
	if !strings.HasPrefix(printed, prefix) || !strings.HasSuffix(printed, `"`) || len(printed) < len(prefix)+1 {
		return "uid/print", fmt.Sprintf("%s prints as %s", v.String(), printed)
	}
	own, ok, grey := ref.UnquoteCedar(printed[len(prefix) : len(printed)-1])
	if !grey && (!ok || own != v.S) {
		return "uid/print", fmt.Sprintf("%s prints as %s, which is not Cedar syntax for it (own reading %q ok=%v)", v.String(), printed, own, ok)
	}
	var u2 types.EntityUID
	if err := u2.UnmarshalCedar([]byte(printed)); err != nil || u2 != u {
		return "uid/unmarshal-cedar", fmt.Sprintf("UnmarshalCedar(%s) = %v, %v", printed, u2, err)
	}
	b, err := u.MarshalBinary()
	var u3 types.EntityUID
	if err == nil {
		err = u3.UnmarshalBinary(b)
	}
	if err != nil || u3 != u {
		return "uid/binary", fmt.Sprintf("UnmarshalBinary(MarshalBinary(%s)) = %v, %v", printed, u3, err)
	}
	got, err := conv.ParseValueText(printed)
	if err != nil || !got.Equal(u) {
		return "uid/reparse", fmt.Sprintf("%s does not parse back as a policy literal: %v %v", printed, got, err)
	}
	return "", ""
}

// checkLit: a string / entity-uid literal in the harness's own spelling (escape variants, raw characters) is accepted by the
// policy parser (and UnmarshalCedar) with the value the own recogniser reads.
func checkLit(t, text string) (string, string) {
	if strings.ContainsRune(text, 0) {
		// carve-out: a raw NUL character in policy source (cedar-go's tokenizer rejects it; the oracle is not sure of the specification)
		ev.R.Label("lit:raw-nul-skipped", 1)
		return "", ""
	}
	switch t {
	case "string":
		want, ok, grey := ref.UnquoteCedar(text)
		if grey {
			return "", ""
		}
		got, err := conv.ParseValueText(`"` + text + `"`)
		if ok != (err == nil) {
			return "string/literal", fmt.Sprintf("string literal \"%s\": own recogniser accepts=%v (%q), parser error: %v", text, ok, want, err)
		}
		if ok && !got.Equal(types.String(want)) {
			return "string/literal", fmt.Sprintf("string literal \"%s\" parses to %v, expected %q", text, got, want)
		}
	case "uid":
		want, ok, grey := ref.UnquoteCedar(text)
		if grey {
			return "", ""
		}
		var u types.EntityUID
		err := u.UnmarshalCedar([]byte(`NS::T2::"` + text + `"`))
		if ok != (err == nil) {
			return "uid/literal", fmt.Sprintf("NS::T2::\"%s\": own recogniser accepts=%v (%q), UnmarshalCedar error: %v", text, ok, want, err)
		}
		if ok && (u.Type != "NS::T2" || string(u.ID) != want) {
			return "uid/literal", fmt.Sprintf("NS::T2::\"%s\" decodes to %v, expected id %q", text, u, want)
		}
		got, err := conv.ParseValueText(`NS::T2::"` + text + `"`)
		if ok != (err == nil) || (ok && !got.Equal(types.NewEntityUID("NS::T2", types.String(want)))) {
			return "uid/literal", fmt.Sprintf("NS::T2::\"%s\" as a policy literal: %v, %v; expected id %q (accept=%v)", text, got, err, want, ok)
		}
	default:
		return "harness", "lit kind " + t
	}
	return "", ""
}

// checkText: the own recogniser and cedar-go's parser agree on accept / reject and on the value (types.Parse* and the constructor
// function through the evaluator).
func checkText(t, text string) (string, string) {
	var (
		want    ir.Value
		accept  bool
		got     types.Value
		err     error
		fn      = t
		skipped bool
	)
	switch t {
	case "decimal":
		raw, ok := ref.ParseDecimal(text)
		want, accept = ir.Decimal(raw), ok
		got, err = types.ParseDecimal(text)
	case "datetime":
		if strings.HasPrefix(text, "-000000000") || strings.ContainsAny(text, "tz") {
			skipped = true
		}
		ms, ok := ref.ParseDatetime(text)
		want, accept = ir.Datetime(ms), ok
		got, err = types.ParseDatetime(text)
	case "duration":
		ms, ok := ref.ParseDuration(text)
		want, accept = ir.Duration(ms), ok
		got, err = types.ParseDuration(text)
	case "ip":
		a, p, ok, grey := ref.ParseIP(text)
		if grey {
			skipped = true
		}
		if ok {
			want = ir.IP(a, p)
		}
		accept = ok
		got, err = types.ParseIPAddr(text)
	case "long":
		n, ok := ref.ParseLongLiteral(text)
		want, accept = ir.Long(n), ok
		got, err = conv.ParseValueText(text)
		if err == nil {
			if _, isLong := got.(types.Long); !isLong {
				err = fmt.Errorf("parses to %T", got)
			}
		}
		fn = ""
	default:
		return "harness", "text kind " + t
	}
	if skipped {
		ev.R.Label("text:grey-skipped", 1)
		return "", ""
	}
	cmp := func(via string, got types.Value, err error) (string, string) {
		if accept != (err == nil) {
			if accept {
				return t + "/rejects-valid", fmt.Sprintf("%s: %q is valid %s syntax denoting %s, but is rejected: %v", via, text, t, want.String(), err)
			}
			return t + "/accepts-invalid", fmt.Sprintf("%s: %q is not valid %s syntax (or out of range) but is accepted as %v", via, text, t, got)
		}
		if accept {
			g, e2 := conv.FromValue(got)
			if e2 != nil || !ir.Equal(g, want) {
				return t + "/wrong-value", fmt.Sprintf("%s: %q denotes %s but yields %v", via, text, want.String(), got)
			}
		}
		return "", ""
	}
	if sub, msg := cmp("types.Parse", got, err); sub != "" {
		return sub, msg
	}
	if fn != "" {
		if fn == "ip" {
			fn = "ip"
		}
		g2, e2 := evalCtor(fn, text)
		if sub, msg := cmp(fn+"() through eval", g2, e2); sub != "" {
			return sub, msg
		}
	}
	return "", ""
}

var pow10 = func() []*big.Int {
	out := make([]*big.Int, 40)
	for i := range out {
		out[i] = new(big.Int).Exp(big.NewInt(10), big.NewInt(int64(i)), nil)
	}
	return out
}()

// checkNewDecimal: NewDecimal(i, e) returns exactly i*10^e or an error.
func checkNewDecimal(i int64, e int) (string, string) {
	d, err := types.NewDecimal(i, e)
	// exact value in ten-thousandths: i * 10^(e+4)
	var exact *big.Int
	exactOK := true
	if e+4 >= 0 {
		exact = new(big.Int).Mul(big.NewInt(i), pow10[e+4])
	} else {
		q, r := new(big.Int).QuoRem(big.NewInt(i), pow10[-(e + 4)], new(big.Int))
		exact, exactOK = q, r.Sign() == 0
	}
	representable := exactOK && exact.IsInt64()
	if err != nil {
		if representable && e >= -4 && e <= 14 {
			ev.R.Label("newdecimal:error-on-representable", 1)
		} else {
			ev.R.Label("newdecimal:error", 1)
		}
		return "", ""
	}
	ev.R.Label("newdecimal:value", 1)
	raw, ok := decimalRaw(d)
	if !ok {
		return "decimal/ctor-unreadable", fmt.Sprintf("NewDecimal(%d, %d) prints as %q", i, e, d.String())
	}
	if !representable || exact.Int64() != raw {
		return "decimal/newdecimal", fmt.Sprintf("NewDecimal(%d, %d) = %s without error; the exact value is %s * 10^%d", i, e, d.String(), ref.FormatLong(i), e)
	}
	return "", ""
}

func checkFromInt(i int64, width int) (string, string) {
	var (
		d   types.Decimal
		err error
		n   int64
	)
	switch width {
	case 8:
		n = int64(int8(i))
		d, err = types.NewDecimalFromInt(int8(i))
	case 16:
		n = int64(int16(i))
		d, err = types.NewDecimalFromInt(int16(i))
	case 32:
		n = int64(int32(i))
		d, err = types.NewDecimalFromInt(int32(i))
	default:
		n = i
		d, err = types.NewDecimalFromInt(i)
	}
	exact := new(big.Int).Mul(big.NewInt(n), pow10[4])
	if err != nil {
		if exact.IsInt64() {
			ev.R.Label("fromint:error-on-representable", 1)
		}
		return "", ""
	}
	raw, ok := decimalRaw(d)
	if !ok || !exact.IsInt64() || exact.Int64() != raw {
		return "decimal/fromint", fmt.Sprintf("NewDecimalFromInt(int%d %d) = %s without error", width, n, d.String())
	}
	return "", ""
}

// checkFloat: NewDecimalFromFloat(f) is an error, or within one floating-point rounding + 1 unit of f * 10^4.
func checkFloat(c *Case) (string, string) {
	f64, f32 := floatOf(c)
	var (
		d   types.Decimal
		err error
		eps float64
	)
	if c.F32 {
		d, err = types.NewDecimalFromFloat(f32)
		eps = 1.0 / (1 << 23)
	} else {
		d, err = types.NewDecimalFromFloat(f64)
		eps = 1.0 / (1 << 52)
	}
	if err != nil {
		ev.R.Label("fromfloat:error", 1)
		return "", ""
	}
	ev.R.Label("fromfloat:value", 1)
	name := fmt.Sprintf("NewDecimalFromFloat(float%d %v)", map[bool]int{true: 32, false: 64}[c.F32], f64)
	if math.IsNaN(f64) || math.IsInf(f64, 0) {
		return "decimal/fromfloat", fmt.Sprintf("%s = %s without error", name, d.String())
	}
	raw, ok := decimalRaw(d)
	if !ok {
		return "decimal/ctor-unreadable", fmt.Sprintf("%s prints as %q", name, d.String())
	}
	exact := new(big.Rat).Mul(new(big.Rat).SetFloat64(f64), big.NewRat(10000, 1))
	diff := new(big.Rat).Sub(new(big.Rat).SetInt64(raw), exact)
	diff.Abs(diff)
	tol := new(big.Rat).Abs(exact)
	tol.Mul(tol, new(big.Rat).SetFloat64(eps))
	tol.Add(tol, big.NewRat(1, 1))
	if diff.Cmp(tol) > 0 {
		return "decimal/fromfloat", fmt.Sprintf("%s = %s without error; the exact product is %s ten-thousandths", name, d.String(), exact.FloatString(1))
	}
	return "", ""
}

// checkGoTime: the Go conversion helpers are exact or fail.
func checkGoTime(ms int64) (string, string) {
	du := types.NewDurationFromMillis(ms)
	gd, err := du.Duration()
	exact := new(big.Int).Mul(big.NewInt(ms), big.NewInt(1000000))
	if err == nil && (!exact.IsInt64() || int64(gd) != exact.Int64()) {
		return "duration/go-duration", fmt.Sprintf("Duration(%d ms).Duration() = %d ns without error", ms, int64(gd))
	}
	if exact.IsInt64() {
		if back := types.NewDuration(time.Duration(exact.Int64())); back.ToMilliseconds() != ms {
			return "duration/new-duration", fmt.Sprintf("NewDuration(%d ns) = %d ms", exact.Int64(), back.ToMilliseconds())
		}
	}
	dt := types.NewDatetimeFromMillis(ms)
	if back := types.NewDatetime(dt.Time()); back.Milliseconds() != ms {
		return "datetime/go-time", fmt.Sprintf("NewDatetime(Datetime(%d ms).Time()) = %d ms", ms, back.Milliseconds())
	}
	if ms > -62135596800000 && ms < 253402300800000 { // years 1..9999, where package time is the independent witness
		days := ms / ref.MsPerDay
		if ms%ref.MsPerDay < 0 {
			days--
		}
		y, m, d := ref.CivilFromDays(days)
		ty, tm, td := dt.Time().Date()
		if int64(ty) != y || int64(tm) != m || int64(td) != d {
			return "datetime/go-time", fmt.Sprintf("Datetime(%d ms).Time() is %04d-%02d-%02d, own calendar says %04d-%02d-%02d", ms, ty, tm, td, y, m, d)
		}
	}
	return "", ""
}

// checkValue: MarshalCedar of any value parses and evaluates to an equal value; so does the harness's own rendering.
func checkValue(v ir.Value) (string, string) {
	x := conv.ToValue(v)
	text := string(x.MarshalCedar())
	got, err := conv.ParseValueText(text)
	if err != nil {
		return "value/cedar-text", fmt.Sprintf("MarshalCedar of %s is %s, which does not parse/evaluate: %v", v.String(), text, err)
	}
	g, err := conv.FromValue(got)
	if err != nil || !ir.Equal(g, v) || !got.Equal(x) || !x.Equal(got) {
		return "value/cedar-text", fmt.Sprintf("MarshalCedar of %s is %s, which evaluates to %v", v.String(), text, got)
	}
	if text != x.String() && v.K != ir.KString {
		return "value/string-vs-cedar", fmt.Sprintf("String() %q differs from MarshalCedar() %q", x.String(), text)
	}
	own := render.ValueText(v)
	got2, err := conv.ParseValueText(own)
	if err != nil {
		return "value/own-text", fmt.Sprintf("the Cedar text %s (own rendering of %s) does not parse/evaluate: %v", own, v.String(), err)
	}
	g2, err := conv.FromValue(got2)
	if err != nil || !ir.Equal(g2, v) || !got2.Equal(x) {
		return "value/own-text", fmt.Sprintf("the Cedar text %s evaluates to %v", own, got2)
	}
	return "", ""
}

// ---------------------------------------------------------------------------------------------

func run(c *Case, class string, nt bool, labels []string, fail func(sub, msg string)) bool {
	if k := knownClass(c); k != "" {
		ev.R.Excluded(k)
		return true
	}
	ev.Watch(c.Kind, func() any { return c })
	sub, msg := check(c)
	ev.Unwatch()
	ev.R.Case(ir.Hash(c), nt, append([]string{class}, labels...)...)
	if ev.R.WantSample(class) {
		ev.R.Sample(class, c)
	}
	if sub == "harness" {
		ev.R.Broken("C12 harness: " + msg)
		return true
	}
	if sub != "" {
		ev.R.Violation(sub, c, msg)
		fail(sub, msg)
		return false
	}
	return true
}

func tableFail(t *testing.T) func(sub, msg string) {
	n := 0
	return func(sub, msg string) {
		n++
		if n <= 10 {
			t.Errorf("C12/%s: %s", sub, msg)
		}
	}
}

func TestReplay(t *testing.T) {
	rf, ok, err := ev.LoadReplay()
	if !ok {
		t.Skip("no replay requested")
	}
	if err != nil {
		t.Fatal(err)
	}
	if ev.ReplayFuzz(t, rf, fuzzProps, nil) {
		return
	}
	var c Case
	if err := json.Unmarshal(rf.Case, &c); err != nil || c.Kind == "" {
		t.Fatalf("cannot decode replay case: %v", err)
	}
	if sub, msg := check(&c); sub != "" {
		ev.R.Violation(sub, &c, msg)
		t.Fatalf("C12 replay %s: %s", sub, msg)
	}
}
