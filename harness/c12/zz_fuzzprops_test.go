package c12

// Coverage-guided driving of this package's rapid properties (thorough tier; see ev/fuzz.go).

import (
	"testing"

	"verif/ev"
)

var fuzzProps = map[string]func(*testing.T){
	"FuzzPropRandomScalars": TestRandomScalars,
	"FuzzPropRandomValues": TestRandomValues,
}

func FuzzPropRandomScalars(f *testing.F) { ev.FuzzProp(f, TestRandomScalars) }
func FuzzPropRandomValues(f *testing.F) { ev.FuzzProp(f, TestRandomValues) }
