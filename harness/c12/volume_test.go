package c12

import (
	"fmt"
	"testing"

	"verif/ev"
	"verif/ref"
)

// TestVolume: the same parser called for many *distinct* valid texts in one process (6000 addresses, decimals, datetimes
// and durations each, every result compared with the own recogniser). Each single call is unremarkable; what is
// quantified here is the history: a parser that keeps state between calls (a cache, an intern table, a ring of recent
// arguments) shows only after thousands of different arguments.
func TestVolume(t *testing.T) {
	if !ev.First() {
		return
	}
	fail := tableFail(t)
	const n = 6000
	count := 0
	for i := 0; i < n; i++ {
		texts := map[string]string{
			"ip":       fmt.Sprintf("10.%d.%d.%d", i/65536%256, i/256%256, i%256),
			"decimal":  fmt.Sprintf("%d.%04d", i-3000, (i*7919)%10000),
			"duration": ref.FormatDuration(int64(i)*86400123 - 3000*86400000),
			"datetime": ref.FormatDatetime(int64(i)*86400123 - 3000*86400000),
		}
		if i%2 == 1 {
			texts["ip"] = fmt.Sprintf("2001:db8::%x:%x/%d", i/65536+1, i%65536, 64+i%65)
		}
		for _, ty := range []string{"ip", "decimal", "duration", "datetime"} {
			count++
			if !run(&Case{Kind: "text", T: ty, Text: texts[ty]}, "volume", i == 0 || i == n-1, []string{"volume:" + ty}, fail) {
				return
			}
		}
	}
	ev.R.Space("6000 distinct valid texts per scalar parser in one process (ip v4 / v6 with prefixes, decimal, duration, datetime)", count)
}
