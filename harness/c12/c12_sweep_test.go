package c12

import (
	"fmt"
	"math"
	"testing"

	"verif/ev"
	"verif/gen"
	"verif/ir"
	"verif/ref"
	"verif/render"
)

// TestBoundaryTables: print -> parse for every boundary value of every scalar type, constructors on boundary arguments,
// constructor-literal tables (valid, boundary, malformed).
func TestBoundaryTables(t *testing.T) {
	if !ev.First() {
		return
	}
	fail := tableFail(t)
	n := 0
	rt := func(v ir.Value) {
		n++
		run(&Case{Kind: "rt", V: &v}, "rt-table", true, []string{"rt:" + string(v.K)}, fail)
	}
	longs := append([]int64{}, gen.LongBoundary...)
	longs = append(longs, gen.TimeBoundary...)
	longs = append(longs, gen.DecimalBoundary...)
	for d := int64(0); d < 4; d++ {
		longs = append(longs, minDayLimit-2+d, math.MinInt64+d, math.MaxInt64-d)
	}
	for _, y := range []int64{-292275055, -292275054, -10000, -1, 0, 1, 1969, 1970, 9999, 10000, 292278993, 292278994} {
		for _, md := range [][2]int64{{1, 1}, {2, 28}, {3, 1}, {12, 31}} {
			days := ref.DaysFromCivil(y, md[0], md[1])
			if days > math.MinInt64/ref.MsPerDay+1 && days < math.MaxInt64/ref.MsPerDay-1 {
				longs = append(longs, days*ref.MsPerDay, days*ref.MsPerDay-1, days*ref.MsPerDay+ref.MsPerDay-1)
			}
		}
	}
	for _, i := range longs {
		rt(ir.Long(i))
		rt(ir.Decimal(i))
		rt(ir.Datetime(i))
		rt(ir.Duration(i))
		n++
		run(&Case{Kind: "gotime", I: i}, "ctor-table", true, nil, fail)
		for _, w := range []int{8, 16, 32, 64} {
			n++
			run(&Case{Kind: "fromint", I: i, Width: w}, "ctor-table", true, nil, fail)
		}
		for e := -6; e <= 16; e++ {
			n++
			run(&Case{Kind: "newdec", I: i, E: e}, "ctor-table", true, nil, fail)
		}
	}
	// every fractional digit pattern 0..9999 with both signs, every unit combination of durations
	for f := int64(0); f < 10000; f++ {
		rt(ir.Decimal(f))
		rt(ir.Decimal(-f))
		rt(ir.Decimal(1230000 + f))
	}
	for mask := 0; mask < 32; mask++ {
		var ms int64
		for i, u := range []int64{86400000, 3600000, 60000, 1000, 1} {
			if mask&(1<<i) != 0 {
				ms += u * int64(2+i)
			}
		}
		rt(ir.Duration(ms))
		rt(ir.Duration(-ms))
	}
	// ip: every prefix length for v4 / v6 / mapped, every "::" run position
	for p := 0; p <= 32; p++ {
		rt(ir.IP([]byte{192, 168, 1, 77}, p))
		rt(ir.IP([]byte{0, 0, 0, 0}, p))
	}
	for p := 0; p <= 128; p++ {
		rt(ir.IP([]byte{0x20, 0x01, 0x0d, 0xb8, 0, 0, 0, 0, 0, 0, 0, 0, 0, 0, 0, 1}, p))
		rt(ir.IP(make([]byte, 16), p))
		rt(ir.IP([]byte{0, 0, 0, 0, 0, 0, 0, 0, 0, 0, 0xff, 0xff, 1, 2, 3, 4}, p))
	}
	for mask := 0; mask < 256; mask++ { // which of the eight groups are zero
		a := make([]byte, 16)
		for g := 0; g < 8; g++ {
			if mask&(1<<g) != 0 {
				a[2*g], a[2*g+1] = byte(g+1), byte(0x10*g+1)
			}
		}
		rt(ir.IP(a, 128))
		rt(ir.IP(a, 64))
	}
	for _, v := range gen.IPMappedPool {
		rt(v)
	}
	// constructor texts
	txt := func(ty, s string) {
		n++
		run(&Case{Kind: "text", T: ty, Text: s}, "text-table", true, textLabels(ty, s), fail)
	}
	for fn, bads := range gen.BadCtorArgs {
		for _, b := range bads {
			txt(fn, b)
		}
	}
	for _, s := range []string{"0.0", "0.00", "0.000", "0.0000", "-0.0", "00.1", "001.100", "1.5", "1.05", "1.005", "1.0005", "-1.0005", "-0.0001", "922337203685477.5807", "-922337203685477.5808", "922337203685477.58", "0.5808",
		"12345678901234567890.0", "-12345678901234567890.0", "922337203685477.5808", "-922337203685477.5809", "922337203685478.0", "1.00000", "1.", ".1", "1", "+1.0", "1e2", "1.0e2", "0x1.0", "1_0.0", "1.0_0", "1.-5", "١.٠", "1.٠", " 1.0", "1.0 ", "1. 0", "--1.0", "-+1.0", "1..0", "1.0.0", "-.1", "-", ".", ""} {
		txt("decimal", s)
	}
	for _, s := range []string{"9223372036854775807", "9223372036854775808", "-9223372036854775808", "-9223372036854775809", "0", "-0", "00", "007", "18446744073709551616", "18446744073709551615", "99999999999999999999999"} {
		txt("long", s)
	}
	for _, s := range []string{"-292275055-05-16T16:47:04.192Z", "-292275055-05-16T16:47:04.191Z", "-292275055-05-17T16:47:04.192Z", "-292275055-05-17T16:47:04.191Z", "-292275055-05-17", "-292275055-05-18", "-292275055-05-16", "+292278994-08-17T07:12:55.807Z", "+292278994-08-17T07:12:55.808Z", "+292278994-08-17", "+292278994-08-18",
		"+292278994-08-17T08:12:55.807+0100", "+292278994-08-17T08:12:55.808+0100", "+292278994-08-17T06:12:55.808-0100", "-292275055-05-16T15:47:04.192-0100", "-292275055-05-16T17:47:04.191+0100", "+292278995-01-01", "-292275056-01-01", "+999999999-12-31T23:59:59.999Z", "-999999999-01-01T00:00:00.000Z", "+999999999-12-31", "-999999999-01-01",
		"+000002024-01-01", "+000000000-01-01", "0000-01-01", "0000-02-29", "0000-12-31T23:59:59.999Z", "9999-12-31T23:59:59.999Z", "9999-12-31T23:59:59.999-2359", "0000-01-01T00:00:00.000+2359", "10000-01-01", "+10000-01-01", "+0000010000-01-01", "-0001-01-01", "2024-02-29T23:59:59.999+0000", "2023-02-29T00:00:00Z", "1900-02-29", "2000-02-29", "2100-02-29", "2400-02-29",
		"2024-01-01T00:00:00.1Z", "2024-01-01T00:00:00.12Z", "2024-01-01T00:00:00.1234Z", "2024-01-01T00:00:00,123Z", "2024-01-01T00:00:00.123", "2024-01-01T00:00:00.123+01", "2024-01-01T00:00:00.123+01:00", "2024-01-01T00:00:00.123+010", "2024-01-01T00:00:00.123+01000", "2024-01-01T00:00:00+2400", "2024-01-01T00:00:00-2360", "2024-01-01T00:00:00Z ", " 2024-01-01", "2024-01-01T", "2024-01-01Z", "2024-01-01+0100", "20240101", "2024-0101", "2024-01-1", "2024-1-01", "24-01-01", "2024/01/01", "2024-01-01T00-00-00Z", "2024-01-01 00:00:00Z", "2024-01-01T00:00Z", "2024-01-01T0:00:00Z", "٢٠٢٤-01-01", "2024-01-01T00:00:00Z\n", "+2024-01-01", "-2024-01-01", "+00002024-01-01", "+0000002024-01-01"} {
		txt("datetime", s)
	}
	for _, s := range []string{"0ms", "0d", "0d0h0m0s0ms", "1d2h3m4s5ms", "-1d2h3m4s5ms", "1d5ms", "2m3s", "-0ms", "00001ms", "9223372036854775807ms", "9223372036854775808ms", "-9223372036854775807ms", "-9223372036854775808ms", "-9223372036854775809ms", "106751991167d7h12m55s807ms", "106751991167d7h12m55s808ms", "-106751991167d7h12m55s808ms", "-106751991167d7h12m55s809ms",
		"2562047788015h12m55s807ms", "2562047788015h12m55s808ms", "153722867280912m55s807ms", "153722867280912m55s808ms", "9223372036854775s807ms", "9223372036854775s808ms", "9223372036854776s", "106751991168d", "2562047788016h", "153722867280913m", "1m60s", "25h", "1d24h", "1ms1s", "1d1d", "1h1d", "1s1m", "1ms1ms", "1.5h", "1 h", "1h ", " 1h", "-1d-1h", "+1d", "1D", "1MS", "1Ms", "--1s", "1m1ms1s", "1", "ms", "d", "-", "", "1msms", "1sm", "1mss", "١s", "1µs", "1us", "1ns", "1w", "1y", "0", "00000000000000000000000000000001d", "99999999999999999999d", "-99999999999999999999ms", "18446744073709551616ms", "18446744073709551617ms"} {
		txt("duration", s)
	}
	// every quantity around the places where a 64-bit accumulator wraps (2^63, 2^64, 10^19, and the per-unit limits +-1),
	// with every unit and both signs, alone and followed by a small lower component
	for _, q := range []string{"9223372036854775806", "9223372036854775807", "9223372036854775808", "9223372036854775809", "9223372036854775810", "9223372036854775899",
		"18446744073709551614", "18446744073709551615", "18446744073709551616", "18446744073709551617", "9999999999999999999", "10000000000000000000", "10000000000000000001",
		"922337203685477580", "922337203685477581", "1844674407370955161", "1844674407370955162", "106751991167", "106751991168", "2562047788015", "2562047788016", "153722867280912", "153722867280913", "9223372036854775", "9223372036854776"} {
		for _, u := range []string{"d", "h", "m", "s", "ms"} {
			for _, sign := range []string{"", "-"} {
				txt("duration", sign+q+u)
				if u != "ms" {
					txt("duration", sign+q+u+"1ms")
					txt("duration", sign+"1d"+q+u)
				}
			}
		}
	}
	for _, s := range []string{"0.0.0.0", "255.255.255.255", "127.0.0.1/8", "127.0.0.1/0", "127.0.0.1/32", "127.0.0.1/33", "::", "::1", "::/0", "::1/128", "::1/129", "1::", "1::/16", "1:2:3:4:5:6:7:8", "1:2:3:4:5:6:7::", "::2:3:4:5:6:7:8", "1::8", "1:2:3:4::5:6:7:8", "1:2:3::4:5:6:7:8", "1:2:3:4:5:6:7:8:9", "1:2:3:4:5:6:7", "FF00::1", "fF00::A", "abcd:ef01:2345:6789:abcd:ef01:2345:6789", "::ffff:102:304", "::ffff:1.2.3.4", "::1.2.3.4", "1.2.3.4::", "fe80::1%eth0", "fe80::1%", "1.2.3.4%1", "12345::1", "g::1", ":::1", "1:::2", "1::2::3", ":1", "1:", ":", "", "1.2.3", "1.2.3.4.5", "256.1.1.1", "1.2.3.4/", "/24", "1.2.3.4/-1", "1.2.3.4/+1", "1.2.3.4/1/2", "1.2.3.4/ 8", " 1.2.3.4", "1.2.3.4 ", "1.2.3.a", "1.2..4", "0x1.2.3.4", "1.2.3.4/8.0", "::/", "::/x", "١.2.3.4", "1.2.3.4/٨", "::%", "[::1]", "::1/64/64", "0:0:0:0:0:0:0:0", "0000:0000:0000:0000:0000:0000:0000:0000", "00000::", "::00000"} {
		txt("ip", s)
	}
	// canonical inputs of earlier findings stay as ordinary cases (they are skipped only while the finding is listed as open)
	for _, c := range []*Case{
		{Kind: "newdec", I: 184468, E: 14}, {Kind: "newdec", I: -184468, E: 14}, {Kind: "newdec", I: 1844674407370955162, E: 1}, {Kind: "newdec", I: 922337203685478, E: 0},
		{Kind: "float", FBits: math.Float64bits(922337203685477.5808)}, {Kind: "float", FBits: math.Float64bits(-922337203685477.5808)}, {Kind: "float", FBits: math.Float64bits(math.NaN())},
		{Kind: "float", FBits: math.Float64bits(math.Inf(1))}, {Kind: "float", FBits: math.Float64bits(math.Inf(-1))}, {Kind: "float", FBits: uint64(math.Float32bits(float32(math.NaN()))), F32: true},
		{Kind: "float", FBits: uint64(math.Float32bits(float32(922337203685477.5808))), F32: true}, {Kind: "float", FBits: math.Float64bits(922337203685477.5)}, {Kind: "float", FBits: math.Float64bits(12.34565)},
	} {
		n++
		run(c, "ctor-table", true, nil, fail)
	}
	for _, k := range gen.KeysHostile {
		v := ir.Rec(ir.F(k, ir.Long(1)))
		n++
		run(&Case{Kind: "value", V: &v}, "value-table", true, nil, fail)
		w := ir.Set(ir.Str(k), ir.Ent("T0", k))
		n++
		run(&Case{Kind: "value", V: &w}, "value-table", true, nil, fail)
	}
	// own spellings of string / uid literals: every escape form
	lit := func(ty, s string) {
		n++
		run(&Case{Kind: "lit", T: ty, Text: s}, "lit-table", true, nil, fail)
	}
	for _, s := range []string{``, `a`, `\n`, `\r`, `\t`, `\\`, `\0`, `\'`, `\"`, `'`, `\x00`, `\x7f`, `\x7F`, `\x41`, `\x80`, `\xff`, `\x4`, `\x`, `\xg0`, `\u{0}`, `\u{41}`, `\u{000041}`, `\u{0000041}`, `\u{10ffff}`, `\u{10FFFF}`, `\u{110000}`, `\u{d7ff}`, `\u{d800}`, `\u{dfff}`, `\u{e000}`, `\u{fffd}`, `\u{}`, `\u{`, `\u{41`, `\u41`, `\u0041`, `\U00000041`, `\u{g}`, `\u{ 41}`, `\a`, `\b`, `\f`, `\v`, `\e`, `\*`, `\`, `\ `, `\N`, `\1`, `"`, `a"b`, `é`, `日本`, "\U0001F600", "\u200b", "\u0301", "a\u0301", "\x7f", "\x01", "\t", "*", `::"`, `x::"y`, "\ufffd", "a\ufffd"} {
		lit("string", s)
		lit("uid", s)
	}
	// every short sequence over backslash, quote and a few escape letters: which quote closes the literal depends on the
	// parity of the backslash run before it
	var seqs func(alpha []string, prefix string, left int)
	seqs = func(alpha []string, prefix string, left int) {
		if prefix != "" {
			lit("string", prefix)
			lit("uid", prefix)
		}
		if left == 0 {
			return
		}
		for _, a := range alpha {
			seqs(alpha, prefix+a, left-1)
		}
	}
	seqs([]string{`\`, `"`, `a`}, "", 6)
	seqs([]string{`\`, `"`, `'`, `n`, `*`}, "", 4)
	ev.R.Space("boundary tables: print->parse of every boundary long/decimal/datetime/duration (incl. year and day edges), all 10^4 fraction patterns, all duration unit subsets, every ip prefix length and zero-group pattern, NewDecimal over boundaries x exponents -6..16, NewDecimalFromInt widths, constructor text tables, escape-form table", n)
}

// dayCase checks one calendar day of the years 0000-9999: own calendar -> text in the five forms -> cedar-go parser, and back.
// k selects a pseudo-random time and offset deterministically from the day number.
func dayCase(day int64, report func(c *Case, sub, msg string)) int64 {
	y, m, d := ref.CivilFromDays(day)
	x := uint64(day+800000)*0x9E3779B97F4A7C15 + 12345
	x ^= x >> 29
	f := dtFields{y: y, mo: m, d: d}
	rh, rmi, rs, rms := int64(x%24), int64(x>>8%60), int64(x>>16%60), int64(x>>24%1000)
	offH, offM := int64(x>>40%24), []int64{0, 1, 30, 59, 15, 45}[x>>48%6]
	sign := []byte{'+', '-'}[x>>56%2]
	dayMs := day * ref.MsPerDay
	type tc struct {
		f    dtFields
		want int64
	}
	off := (offH*60 + offM) * 60000
	if sign == '-' {
		off = -off
	}
	tod := ((rh*60+rmi)*60+rs)*1000 + rms
	f0, f1, f2, f3, f4 := f, f, f, f, f
	f0.form = 0
	f1.form, f1.h, f1.mi, f1.s = 1, rh, rmi, rs
	f2.form, f2.h, f2.mi, f2.s, f2.ms = 2, 23, 59, 59, 999
	f3.form, f3.h, f3.mi, f3.s, f3.offSign, f3.offH, f3.offM = 3, rh, rmi, rs, sign, offH, offM
	f4.form, f4.h, f4.mi, f4.s, f4.ms, f4.offSign, f4.offH, f4.offM = 4, rh, rmi, rs, rms, sign, offH, offM
	cases := []tc{{f0, dayMs}, {f1, dayMs + tod - rms}, {f2, dayMs + ref.MsPerDay - 1}, {f3, dayMs + tod - rms - off}, {f4, dayMs + tod - off}}
	var n int64
	for _, c := range cases {
		text := c.f.text()
		n++
		// harness self-check: own parser agrees with own arithmetic
		if ms, ok := ref.ParseDatetime(text); !ok || ms != c.want {
			ev.R.Broken(fmt.Sprintf("C12 harness: own datetime parser reads %q as %d ok=%v, expected %d", text, ms, ok, c.want))
			return n
		}
		cc := &Case{Kind: "text", T: "datetime", Text: text}
		if sub, msg := check(cc); sub != "" {
			report(cc, sub, msg)
		}
	}
	// print -> parse of the instants
	for _, ms := range []int64{dayMs, dayMs + ref.MsPerDay - 1, dayMs + tod} {
		n++
		v := ir.Datetime(ms)
		cc := &Case{Kind: "rt", V: &v}
		if sub, msg := check(cc); sub != "" {
			report(cc, sub, msg)
		}
	}
	// the day after the last valid day of the month must be rejected
	if d == ref.DaysInMonth(y, m) {
		bad := f0
		bad.d = d + 1
		n++
		cc := &Case{Kind: "text", T: "datetime", Text: bad.text()}
		if sub, msg := check(cc); sub != "" {
			report(cc, sub, msg)
		}
	}
	return n
}

func TestDatetimeDays(t *testing.T) {
	first, last := ref.DaysFromCivil(0, 1, 1), ref.DaysFromCivil(9999, 12, 31)
	fails := 0
	report := func(c *Case, sub, msg string) {
		ev.R.Violation(sub, c, msg)
		fails++
		if fails <= 10 {
			t.Errorf("C12/%s: %s", sub, msg)
		}
	}
	var days, evals int64
	for day := first; day <= last; day++ {
		if !ev.Thorough() {
			y, m, d := ref.CivilFromDays(day)
			_ = y
			edge := (m == 1 && d == 1) || (m == 2 && d >= 28) || (m == 3 && d == 1) || (m == 12 && d == 31)
			if !edge && (day-first)%97 != 0 {
				continue
			}
		}
		if int((day-first)%int64(ev.NShards)) != ev.Shard {
			continue
		}
		n := dayCase(day, report)
		evals += n
		days++
		ev.R.Case(0xC12D000000000000|uint64(day-first), true)
		ev.R.Count(n - 1)
	}
	ev.R.Label("datetime-days", days)
	if ev.First() {
		if ev.Thorough() {
			ev.R.Space("every calendar day of the years 0000-9999: five text forms with deterministic pseudo-random time and offset, print->parse of three instants, rejection of the day after each month's end", int(last-first+1))
		} else {
			ev.R.Space("years 0000-9999: Jan 1, Feb 28/29, Mar 1, Dec 31 of every year and every 97th day: five text forms, print->parse, month-end rejection", int(days)*ev.NShards)
		}
	}
}

// runeSelected: the quick tier's subset of Unicode scalar values.
func runeSelected(r rune) bool {
	if r < 0x800 || r%257 == 0 {
		return true
	}
	switch r & 0xff {
	case 0x00, 0x01, 0xfe, 0xff: // both sides of every 256-block boundary
		return true
	}
	switch r {
	case 0x2028, 0x2029, 0x200b, 0x200d, 0xfeff, 0xfffd, 0xfffc, 0xe000, 0xd7ff, 0x1f600, 0xe0001, 0xe0100, 0x10ffff, 0x10fffe, 0x1d165, 0x20d0, 0x3099, 0xa66f:
		return true
	}
	return false
}

// TestUnicodeSweep: every Unicode scalar value alone and in second position, as a string and as an entity id: cedar-go's printed
// form, and the harness's own \u{...} and raw spellings.
func TestUnicodeSweep(t *testing.T) {
	fails := 0
	report := func(c *Case, sub, msg string) {
		ev.R.Violation(sub, c, msg)
		fails++
		if fails <= 10 {
			t.Errorf("C12/%s: %s", sub, msg)
		}
	}
	var count, idx int64
	do := func(c *Case) {
		if k := knownClass(c); k != "" {
			ev.R.Excluded(k)
			return
		}
		count++
		if sub, msg := check(c); sub != "" {
			report(c, sub, msg)
		}
	}
	for r := rune(0); r <= 0x10ffff; r++ {
		if r >= 0xd800 && r <= 0xdfff {
			continue
		}
		if !ev.Thorough() && !runeSelected(r) {
			continue
		}
		idx++
		if int(idx%int64(ev.NShards)) != ev.Shard {
			continue
		}
		before := count
		for _, s := range []string{string(r), "a" + string(r)} {
			sv, uv := ir.Str(s), ir.Ent("T0", s)
			do(&Case{Kind: "rt", V: &sv})
			do(&Case{Kind: "rt", V: &uv})
			do(&Case{Kind: "lit", T: "string", Text: render.EscapeString(s, false, nil)})
			if r != '"' && r != '\\' {
				do(&Case{Kind: "lit", T: "string", Text: s})
				do(&Case{Kind: "lit", T: "uid", Text: s})
			}
		}
		ev.R.Case(0xC12E000000000000|uint64(r), true)
		if count > before {
			ev.R.Count(count - before - 1)
		}
	}
	ev.R.Label("unicode-scalars", idx)
	if ev.First() {
		if ev.Thorough() {
			ev.R.Space("every Unicode scalar value alone and after 'a': String / EntityUID print->parse (policy literal, UnmarshalCedar, binary) and own escaped / raw spellings", 1112064)
		} else {
			ev.R.Space("U+0000-U+07FF, both sides of every 256-block boundary, every 257th scalar value and the escape-relevant set: String / EntityUID print->parse and own spellings", int(idx))
		}
	}
}

// TestKnown re-runs one canonical reproducer per open known finding.
func TestKnown(t *testing.T) {
	if !ev.First() {
		return
	}
	minDT, mapped, fffd := ir.Datetime(math.MinInt64), gen.IPMappedPool[2], ir.Str("\ufffd")
	keyRec := ir.Rec(ir.F("\a", ir.Long(1)))
	for _, k := range []struct {
		key string
		c   *Case
		txt string
	}{
		{"datetime-min-day", &Case{Kind: "rt", V: &minDT}, "Datetime(MinInt64 ms)"},
		{"ipv4-mapped-string", &Case{Kind: "rt", V: &mapped}, "ip(\"::ffff:102:304\")"},
		{"string-ufffd", &Case{Kind: "rt", V: &fffd}, "String(\"\\u{fffd}\")"},
		{"record-key-quote", &Case{Kind: "value", V: &keyRec}, "Record{\"\\a\": 1}"},
		{"newdecimal-wrap", &Case{Kind: "newdec", I: 184468, E: 14}, "NewDecimal(184468, 14)"},
		{"fromfloat-edge", &Case{Kind: "float", FBits: math.Float64bits(922337203685477.5808)}, "NewDecimalFromFloat(922337203685477.5808)"},
		{"duration-go-range", &Case{Kind: "gotime", I: 253402300799999}, "Duration(253402300799999 ms).Duration()"},
		{"uid-unmarshal-lenient", &Case{Kind: "lit", T: "uid", Text: `"`}, "EntityUID.UnmarshalCedar"},
	} {
		if !ev.KnownOpen("C12", k.key) {
			continue
		}
		if sub, msg := check(k.c); sub != "" {
			ev.R.KnownFinding(k.key, k.txt+": "+msg)
		}
	}
}
