// C04: policy compilation (constant folding) never changes a policy's meaning and is invisible.
package c04

import (
	"bytes"
	"encoding/json"
	"fmt"
	"math"
	"testing"

	cedar "github.com/cedar-policy/cedar-go"
	pubast "github.com/cedar-policy/cedar-go/ast"
	"github.com/cedar-policy/cedar-go/types"
	xast "github.com/cedar-policy/cedar-go/x/exp/ast"
	xeval "github.com/cedar-policy/cedar-go/x/exp/eval"
	"pgregory.net/rapid"

	"verif/conv"
	"verif/ev"
	"verif/gen"
	"verif/ir"
	"verif/ref"
)

func TestMain(m *testing.M) { ev.Main(m, "C04") }

type Case struct {
	Policy *ir.Policy  `json:"policy"`
	Worlds []gen.World `json:"worlds"`
}

func classOfEval(v types.Value, err error) ref.Outcome {
	if err != nil {
		return ref.Erroring
	}
	b, ok := v.(types.Boolean)
	if !ok {
		return ref.Erroring
	}
	if b {
		return ref.Satisfied
	}
	return ref.Unsatisfied
}

func marshalBoth(p *pubast.Policy) (text, js []byte, perr string) {
	defer func() {
		if r := recover(); r != nil {
			perr = fmt.Sprint(r)
		}
	}()
	text = p.MarshalCedar()
	js, err := p.MarshalJSON()
	if err != nil {
		js = []byte("error: " + err.Error())
	}
	return
}

func check(c *Case) (string, string) {
	xp := conv.ToXPolicy(c.Policy)
	pub := (*pubast.Policy)(xp)
	// visible forms before compilation
	t0, j0, perr0 := marshalBoth(pub)
	ir0, err := conv.FromXPolicy(xp)
	if err != nil {
		return "harness", "cannot read back freshly built AST: " + err.Error()
	}
	compiled := cedar.NewPolicyFromAST(pub)
	t1, j1, perr1 := marshalBoth(pub)
	ir1, err1 := conv.FromPolicy(compiled)
	if perr0 == "" && perr1 == "" {
		if !bytes.Equal(t0, t1) {
			return "visible/text-after-compile", fmt.Sprintf("MarshalCedar changed by compilation:\n%s\n---\n%s", t0, t1)
		}
		if !bytes.Equal(j0, j1) {
			return "visible/json-after-compile", fmt.Sprintf("MarshalJSON changed by compilation:\n%s\n---\n%s", j0, j1)
		}
	}
	if err1 != nil || !conv.EqualPolicy(ir0, ir1) || ir.JSON(ir0) != ir.JSON(ir1) {
		return "visible/ast-after-compile", fmt.Sprintf("AST changed by compilation: %s -> %s (%v)", ir.JSON(ir0), ir.JSON(ir1), err1)
	}
	ps := cedar.NewPolicySet()
	ps.Add("p", compiled)
	for wi := range c.Worlds {
		w := &c.Worlds[wi]
		em := conv.ToEntityMap(w.Store)
		req := conv.ToRequest(w.Req)
		_, diag := cedar.Authorize(ps, em, req)
		folded := ref.Unsatisfied
		if len(diag.Errors) > 0 {
			folded = ref.Erroring
		} else if len(diag.Reasons) > 0 {
			folded = ref.Satisfied
		}
		if len(diag.Errors) > 0 && len(diag.Reasons) > 0 {
			return "folded/both", "a single policy is reported both as reason and as error"
		}
		node := xeval.PolicyToNode((*xast.Policy)(compiled.AST())).AsIsNode()
		uv, uerr := xeval.Eval(node, xeval.Env{Entities: em, Principal: req.Principal, Action: req.Action, Resource: req.Resource, Context: req.Context})
		unfolded := classOfEval(uv, uerr)
		want, werr := ref.PolicyOutcome(c.Policy, ref.NewEnv(w.Store, w.Req))
		if folded != unfolded {
			return "differential", fmt.Sprintf("world %d: compiled policy is %v, direct evaluation of its expression tree is %v (reference: %v %s; unfolded err: %v, diag: %+v)", wi, folded, unfolded, want, werr, uerr, diag.Errors)
		}
		if folded != want {
			return "reference", fmt.Sprintf("world %d: compiled and direct evaluation agree on %v but the reference says %v %s", wi, folded, want, werr)
		}
	}
	// visible forms after authorizing
	t2, j2, perr2 := marshalBoth((*pubast.Policy)(compiled.AST()))
	if perr0 == "" && perr2 == "" {
		if !bytes.Equal(t0, t2) {
			return "visible/text-after-authorize", fmt.Sprintf("MarshalCedar changed after authorization:\n%s\n---\n%s", t0, t2)
		}
		if !bytes.Equal(j0, j2) {
			return "visible/json-after-authorize", "MarshalJSON changed after authorization"
		}
	}
	ir2, err2 := conv.FromPolicy(compiled)
	if err2 != nil || ir.JSON(ir0) != ir.JSON(ir2) {
		return "visible/ast-after-authorize", "AST changed after authorization"
	}
	if perr0 == "" && !bytes.Equal(compiled.MarshalCedar(), t0) {
		return "visible/policy-marshal", "Policy.MarshalCedar differs from marshalling the AST it was built from"
	}
	return "", ""
}

// analysis for labels / non-triviality
func analyse(p *ir.Policy) (foldable, closedErr, entityLit bool) {
	for _, cd := range p.Conds {
		cd.Body.Walk(func(e *ir.Expr) {
			if e.Op != ir.OpLit && e.Op != ir.OpVar && e.Closed() {
				foldable = true
				if _, er := ref.Eval(e, ref.NewEnv(nil, ir.Request{Context: ir.Rec()})); er != 0 {
					closedErr = true
				}
			}
			switch e.Op {
			case ir.OpAccess, ir.OpHas, ir.OpIn, ir.OpIsIn, ir.OpGetTag, ir.OpHasTag:
				if e.Args[0].Op == ir.OpLit && e.Args[0].Lit.K == ir.KEntity {
					entityLit = true
				}
			}
		})
	}
	return
}

func run(c *Case, class string, fail func(sub, msg string)) bool {
	sub, msg := check(c)
	foldable, closedErr, entityLit := analyse(c.Policy)
	labels := []string{class}
	if closedErr {
		labels = append(labels, "closed-erroring-subtree")
	}
	if entityLit {
		labels = append(labels, "entity-dependent-op-on-literal")
	}
	if foldable {
		labels = append(labels, "has-foldable-subtree")
	}
	ev.R.Case(ir.Hash(c), foldable, labels...)
	ev.R.Count(int64(len(c.Worlds)))
	if ev.R.WantSample(class) {
		var conds []string
		for _, cd := range c.Policy.Conds {
			conds = append(conds, cd.Body.String())
		}
		ev.R.Sample(class, map[string]any{"conditions": conds, "worlds": len(c.Worlds)})
	}
	if sub != "" {
		ev.R.Violation(sub, c, msg)
		fail(sub, msg)
		return false
	}
	return true
}

var baseWorlds = []gen.World{
	{ // literal entities exist with attributes
		Store: ir.Store{
			{UID: ir.Ent("T0", "a"), Parents: []ir.Value{ir.Ent("T0", "b")}, Attrs: []ir.Field{ir.F("x", ir.Long(1)), ir.F("a", ir.Bool(true))}, Tags: []ir.Field{ir.F("x", ir.Long(1))}},
			{UID: ir.Ent("T0", "b"), Attrs: []ir.Field{ir.F("x", ir.Long(2))}},
		},
		Req: ir.Request{Principal: ir.Ent("T0", "a"), Action: ir.Ent("Action", "view"), Resource: ir.Ent("T0", "b"), Context: ir.Rec(ir.F("x", ir.Long(1)), ir.F("a", ir.Bool(true)))},
	},
	{ // empty store: what an accidental fold against nothing would see
		Req: ir.Request{Principal: ir.Ent("T0", "a"), Action: ir.Ent("Action", "view"), Resource: ir.Ent("T0", "b"), Context: ir.Rec()},
	},
	{ // entities exist without attributes / parents
		Store: ir.Store{{UID: ir.Ent("T0", "a")}, {UID: ir.Ent("T0", "b")}},
		Req:   ir.Request{Principal: ir.Ent("T0", "b"), Action: ir.Ent("Action", "edit"), Resource: ir.Ent("T0", "a"), Context: ir.Rec(ir.F("x", ir.Str("s")))},
	},
	{ // different attribute values and reversed hierarchy
		Store: ir.Store{{UID: ir.Ent("T0", "b"), Parents: []ir.Value{ir.Ent("T0", "a")}, Attrs: []ir.Field{ir.F("x", ir.Long(1))}}, {UID: ir.Ent("T0", "a"), Attrs: []ir.Field{ir.F("x", ir.Long(2)), ir.F("a", ir.Bool(false))}, Tags: []ir.Field{ir.F("y", ir.Long(1))}}},
		Req:   ir.Request{Principal: ir.Ent("T1", "a"), Action: ir.Ent("Action", "view"), Resource: ir.Ent("T0", "a"), Context: ir.Rec(ir.F("x", ir.Long(2)), ir.F("a", ir.Bool(false)))},
	},
}

func tableFail(t *testing.T) func(sub, msg string) {
	n := 0
	return func(sub, msg string) {
		n++
		if n <= 15 {
			t.Errorf("C04/%s: %s", sub, msg)
		}
	}
}

// TestOperatorTable: each operator with (const,const), (const,var), (var,const), (erroring const, any) operands,
// as `when` and `unless`, under !, && and ||.
func TestOperatorTable(t *testing.T) {
	if !ev.First() {
		return
	}
	fail := tableFail(t)
	L := func(v ir.Value) *ir.Expr { return ir.Lit(v) }
	consts := []*ir.Expr{L(ir.Bool(true)), L(ir.Bool(false)), L(ir.Long(1)), L(ir.Long(math.MaxInt64)), L(ir.Str("a")), L(ir.Ent("T0", "a")), L(ir.Ent("T0", "zz")),
		L(ir.Set(ir.Long(1))), ir.SetE(L(ir.Long(1)), L(ir.Ent("T0", "b"))), L(ir.Rec(ir.F("x", ir.Long(1)))), ir.RecE([]string{"x"}, []*ir.Expr{L(ir.Long(1))}),
		L(ir.Decimal(10000)), ir.Ext("decimal", L(ir.Str("1.0"))), ir.Ext("decimal", L(ir.Str("bad"))), ir.Ext("datetime", L(ir.Str("2024-01-01"))), L(ir.Duration(5)),
		ir.Ext("ip", L(ir.Str("127.0.0.1"))), ir.Bin(ir.OpAdd, L(ir.Long(1)), L(ir.Str("a"))), ir.Bin(ir.OpAdd, L(ir.Long(math.MaxInt64)), L(ir.Long(1))), ir.Ext("nosuchfn"), ir.Access(L(ir.Rec()), "q")}
	vars := []*ir.Expr{ir.Var("principal"), ir.Var("resource"), ir.Var("context"), ir.Access(ir.Var("context"), "x"), ir.Access(ir.Var("context"), "a"), ir.Access(ir.Var("principal"), "x")}
	binops := []ir.Op{ir.OpAnd, ir.OpOr, ir.OpEq, ir.OpNe, ir.OpLt, ir.OpLe, ir.OpGt, ir.OpGe, ir.OpAdd, ir.OpSub, ir.OpMul, ir.OpIn, ir.OpHasTag, ir.OpGetTag, ir.OpContains, ir.OpContainsAll, ir.OpContainsAny}
	count := 0
	emit := func(e *ir.Expr) {
		for _, wrap := range []func(*ir.Expr) *ir.Expr{
			func(x *ir.Expr) *ir.Expr { return x },
			func(x *ir.Expr) *ir.Expr { return ir.Un(ir.OpNot, x) },
			func(x *ir.Expr) *ir.Expr { return ir.Bin(ir.OpEq, x, ir.Lit(ir.Long(1))) },
			func(x *ir.Expr) *ir.Expr { return ir.Bin(ir.OpOr, ir.Access(ir.Var("context"), "a"), x) },
			func(x *ir.Expr) *ir.Expr { return ir.Bin(ir.OpAnd, ir.Lit(ir.Bool(false)), x) },
			func(x *ir.Expr) *ir.Expr { return ir.If(ir.Lit(ir.Bool(true)), ir.Lit(ir.Bool(true)), x) },
		} {
			for _, when := range []bool{true, false} {
				p := ir.NewPolicy(count%3 != 0)
				p.Conds = []ir.Cond{{When: when, Body: wrap(e)}}
				count++
				run(&Case{Policy: p, Worlds: baseWorlds}, "operator-table", fail)
			}
		}
	}
	for _, a := range consts {
		for _, op := range []ir.Op{ir.OpNot, ir.OpNeg, ir.OpIsEmpty} {
			emit(ir.Un(op, a))
		}
		// a unary operator applied twice (an operator pair that cancels on well-typed operands still has to fail on others)
		for _, ops := range [][2]ir.Op{{ir.OpNot, ir.OpNot}, {ir.OpNeg, ir.OpNeg}, {ir.OpNot, ir.OpNeg}, {ir.OpNeg, ir.OpNot}} {
			emit(ir.Un(ops[0], ir.Un(ops[1], a)))
			emit(ir.SetE(ir.Un(ops[0], ir.Un(ops[1], a)), ir.Lit(ir.Long(1))))
		}
		emit(ir.Is(a, "T0"))
		emit(ir.Has(a, "x"))
		emit(ir.Access(a, "x"))
		emit(ir.Like(a, []ir.PatElem{{Lit: "a"}, {Wild: true}}))
		emit(ir.Ext("isIpv4", a))
		emit(ir.Ext("toDate", a))
		for _, b := range append(append([]*ir.Expr{}, consts[:12]...), vars...) {
			op := binops[count%len(binops)]
			emit(ir.Bin(op, a, b))
			emit(ir.Bin(op, b, a))
			if count%5 == 0 {
				emit(ir.IsIn(a, "T0", b))
				emit(ir.If(a, b, a))
				emit(ir.Ext("lessThan", a, b))
			}
		}
	}
	for _, v := range vars {
		for _, ops := range [][2]ir.Op{{ir.OpNot, ir.OpNot}, {ir.OpNeg, ir.OpNeg}, {ir.OpNot, ir.OpNeg}, {ir.OpNeg, ir.OpNot}} {
			emit(ir.Un(ops[0], ir.Un(ops[1], v)))
			emit(ir.Un(ops[0], ir.Un(ops[1], ir.Un(ops[0], ir.Un(ops[1], v)))))
			emit(ir.RecE([]string{"k"}, []*ir.Expr{ir.Un(ops[0], ir.Un(ops[1], v))}))
		}
	}
	for _, op := range binops {
		for _, a := range consts {
			emit(ir.Bin(op, a, consts[(count+3)%len(consts)]))
			emit(ir.Bin(op, a, vars[count%len(vars)]))
			emit(ir.Bin(op, vars[count%len(vars)], a))
		}
	}
	ev.R.Space("operators x {const, erroring const, variable} operand combinations x 6 wrappers x when/unless, 4 worlds each", count)
}

func genConstHeavy(rt *rapid.T, w *gen.World) *ir.Policy {
	o := gen.DefaultExprOpts
	o.BadCtorPct = 15
	o.BadFuncPct = 4
	closed := o
	closed.NoVars = true
	closed.SlipPct = 15
	p := ir.NewPolicy(rapid.Bool().Draw(rt, "permit"))
	if rapid.IntRange(0, 2).Draw(rt, "scoped") == 0 {
		p.Principal = gen.GenScope(rt, w, "principal")
		p.Action = gen.GenScope(rt, w, "action")
		p.Resource = gen.GenScope(rt, w, "resource")
	}
	n := rapid.IntRange(1, 3).Draw(rt, "nconds")
	for i := 0; i < n; i++ {
		var body *ir.Expr
		switch rapid.IntRange(0, 5).Draw(rt, "shape") {
		case 0: // fully closed
			body = gen.GenExpr(rt, w, ir.KBool, rapid.IntRange(1, 4).Draw(rt, "d"), closed)
		case 1: // closed op open
			body = ir.Bin(rapid.SampledFrom([]ir.Op{ir.OpAnd, ir.OpOr, ir.OpEq, ir.OpNe}).Draw(rt, "op"), gen.GenExpr(rt, w, ir.KBool, 2, closed), gen.GenExpr(rt, w, ir.KBool, 2, o))
		case 2: // open op closed
			body = ir.Bin(rapid.SampledFrom([]ir.Op{ir.OpAnd, ir.OpOr, ir.OpEq, ir.OpNe}).Draw(rt, "op"), gen.GenExpr(rt, w, ir.KBool, 2, o), gen.GenExpr(rt, w, ir.KBool, 2, closed))
		case 3: // entity-dependent operator on a literal entity
			ent := ir.Lit(gen.EntityVal(rt))
			if len(w.Store) > 0 && rapid.Bool().Draw(rt, "instore") {
				ent = ir.Lit(w.Store[rapid.IntRange(0, len(w.Store)-1).Draw(rt, "ei")].UID)
			}
			k := gen.Pick(rt, gen.KeysSmall, "k")
			switch rapid.IntRange(0, 5).Draw(rt, "entop") {
			case 0:
				body = ir.Has(ent, k)
			case 1:
				body = ir.Bin(ir.OpEq, ir.Access(ent, k), gen.GenExpr(rt, w, "", 1, closed))
			case 2:
				body = ir.Bin(ir.OpIn, ent, ir.Lit(gen.EntityVal(rt)))
			case 3:
				body = ir.Bin(ir.OpHasTag, ent, ir.Lit(ir.Str(k)))
			case 4:
				body = ir.Bin(ir.OpEq, ir.Bin(ir.OpGetTag, ent, ir.Lit(ir.Str(k))), gen.GenExpr(rt, w, "", 1, closed))
			default:
				body = ir.IsIn(ent, gen.Pick(rt, gen.EntityTypes, "ty"), ir.Lit(gen.EntityVal(rt)))
			}
		case 4: // short-circuit whose skipped operand is an ill-typed / erroring constant
			bad := gen.GenExpr(rt, w, "", 2, closed)
			body = rapid.SampledFrom([]*ir.Expr{
				ir.Bin(ir.OpAnd, ir.Lit(ir.Bool(false)), bad), ir.Bin(ir.OpOr, ir.Lit(ir.Bool(true)), bad),
				ir.If(ir.Lit(ir.Bool(true)), ir.Lit(ir.Bool(true)), bad), ir.If(ir.Lit(ir.Bool(false)), bad, ir.Lit(ir.Bool(true))),
				ir.Bin(ir.OpAnd, ir.Lit(ir.Bool(true)), bad), ir.Bin(ir.OpOr, ir.Lit(ir.Bool(false)), bad),
			}).Draw(rt, "sc")
		default:
			body = gen.GenExpr(rt, w, ir.KBool, rapid.IntRange(1, 4).Draw(rt, "d"), o)
		}
		p.Conds = append(p.Conds, ir.Cond{When: rapid.IntRange(0, 3).Draw(rt, "when") > 0, Body: body})
	}
	return p
}

func TestRandomPolicies(t *testing.T) {
	ev.SetChecks(ev.Scale(12000, 1500000))
	nworlds := ev.Pick(2, 4)
	ev.Check(t, func(rt *rapid.T) {
		w := gen.GenWorld(rt, 4, gen.DefaultValOpts)
		c := &Case{Policy: genConstHeavy(rt, &w), Worlds: []gen.World{w, {Req: w.Req}}}
		for i := 0; i < nworlds; i++ {
			c.Worlds = append(c.Worlds, gen.GenWorld(rt, 4, gen.DefaultValOpts))
		}
		if !run(c, "random", func(string, string) {}) {
			rt.Fatalf("C04/random: compiled policy and its expression tree disagree, or compilation is visible")
		}
	})
}

func TestReplay(t *testing.T) {
	rf, ok, err := ev.LoadReplay()
	if !ok {
		t.Skip("no replay requested")
	}
	if err != nil {
		t.Fatal(err)
	}
	if ev.ReplayFuzz(t, rf, fuzzProps, fuzzRaw) {
		return
	}
	var c Case
	if err := json.Unmarshal(rf.Case, &c); err != nil || c.Policy == nil {
		t.Fatalf("cannot decode replay case: %v", err)
	}
	if sub, msg := check(&c); sub != "" {
		ev.R.Violation(sub, &c, msg)
		t.Fatalf("C04 replay %s: %s", sub, msg)
	}
}
