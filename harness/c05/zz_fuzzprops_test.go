package c05

// Coverage-guided driving of this package's rapid properties (thorough tier; see ev/fuzz.go).

import (
	"testing"

	"verif/ev"
)

var fuzzProps = map[string]func(*testing.T){
	"FuzzPropRandomTemplates": TestRandomTemplates,
	"FuzzPropOperandGrammar": TestOperandGrammar,
}

func FuzzPropRandomTemplates(f *testing.F) { ev.FuzzProp(f, TestRandomTemplates) }
func FuzzPropOperandGrammar(f *testing.F) { ev.FuzzProp(f, TestOperandGrammar) }
